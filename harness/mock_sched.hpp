// Core of the mock task runtimes (GOMP, Specx, StarPU): every submitted task is recorded with its declared accesses
// (address, mode) and executed later, one at a time, in an order chosen by a seeded scheduler among the linear extensions of
// the dependence order, on a scheduler-chosen worker id.
// Dependence order (sequential-consistency of declared accesses, as in OpenMP 4.5/5.0, Specx and StarPU):
//   read    after the current writers of the address;
//   write   after the current writers and every reader since;
//   commute (mutexinoutset / SpCommutativeWrite / STARPU_RW|STARPU_COMMUTE): after the writers and readers that precede its
//           commute group; consecutive commute accesses to one address form a group whose members are mutually unordered
//           (mutual exclusion holds trivially: tasks run one at a time); any later read/write comes after the whole group.
// Dependences only order SIBLING tasks (OpenMP: "previously generated sibling tasks"): a task submitted from inside a
// running task is a child of that task and its accesses are matched against its siblings only.  A child may run at any
// time after its creation, also after its parent has finished (until the next drain = barrier / wait-for-all).
#ifndef VERIF_MOCK_SCHED_HPP
#define VERIF_MOCK_SCHED_HPP
#include <vector>
#include <deque>
#include <map>
#include <set>
#include <functional>
#include <string>
#include <algorithm>

struct MockTask {
    std::function<void()> run;
    std::function<void()> cleanup;
    std::vector<std::pair<void*, int>> deps;   // (address, mode) mode: 0 = read, 1 = write, 2 = commute
    int priority = 0;
    long seq = 0;
    std::set<long> preds;
    bool done = false;
    int worker = 0;
    long npending = 0;                         // predecessors not yet executed
    std::vector<long> succs;                   // tasks waiting for this one
    long parent = -1;                          // seq of the task that submitted it, -1 = the master
    std::string name;
};

struct MockRuntime {
    enum Policy { IMMEDIATE = 0, FIFO = 1, LIFO = 2, RANDOM = 3, PRIO_INV = 4, PRIO = 5 };
    Policy policy = FIFO;
    int nthreads = 4;
    unsigned long rng = 88172645463325252UL;
    std::deque<MockTask> tasks;           // pending + done since the last drain (deque: references stay valid on push_back)
    std::vector<MockTask> history;        // everything executed (for reporting)
    std::vector<long> exec_order;         // seq numbers in execution order
    int current_worker = 0;
    bool in_task = false;
    long current_task = -1;
    bool draining = false;
    long seq = 0;
    void (*on_task_start)(long) = nullptr;
    void (*on_spawn)(long) = nullptr;     // a running task created the task with this seq
    struct AddrState { std::vector<long> writers; bool commute_group = false; std::vector<long> before; std::vector<long> readers; };
    std::map<std::pair<long, void*>, AddrState> addr;   // keyed by (parent task, address)
    std::map<long, size_t> pos;                          // seq -> index in tasks
    std::set<long> ready;                                // pending tasks whose predecessors have all run
    unsigned long next(){ rng ^= rng << 13; rng ^= rng >> 7; rng ^= rng << 17; return rng; }
    void reset(Policy p, int T, unsigned long seed){
        policy = p; nthreads = T; rng = seed * 2654435761UL + 88172645463325252UL;
        tasks.clear(); history.clear(); exec_order.clear(); addr.clear(); pos.clear(); ready.clear(); seq = 0; current_worker = 0; in_task = false; current_task = -1; draining = false;
    }
    void run_task(MockTask& t){
        const int saved = current_worker; const bool savedin = in_task; const long savedtask = current_task;
        t.worker = int(next() % (unsigned long)nthreads);
        current_worker = t.worker; in_task = true; current_task = t.seq;
        if(on_task_start) on_task_start(t.seq);
        t.run();
        current_worker = saved; in_task = savedin; current_task = savedtask;
        if(on_task_start && savedin) on_task_start(savedtask);
        t.done = true;
        exec_order.push_back(t.seq);
        for(long sc : t.succs){
            auto it = pos.find(sc);
            if(it != pos.end() && !tasks[it->second].done && --tasks[it->second].npending == 0) ready.insert(sc);
        }
    }
    // registers the dependence edges of t (t.deps filled) and queues it
    void submit(MockTask t){
        t.seq = seq++;
        t.parent = in_task ? current_task : -1;
        for(auto& d : t.deps){
            if(d.second == 0){
                AddrState& a = addr[{t.parent, d.first}];
                for(long w : a.writers) t.preds.insert(w);
            }
        }
        for(auto& d : t.deps){
            AddrState& a = addr[{t.parent, d.first}];
            if(d.second == 1){
                for(long w : a.writers) t.preds.insert(w);
                for(long r : a.readers) t.preds.insert(r);
            }
            else if(d.second == 2){
                if(!(a.commute_group && a.readers.empty())){
                    a.before = a.writers;
                    a.before.insert(a.before.end(), a.readers.begin(), a.readers.end());
                }
                for(long b : a.before) t.preds.insert(b);
            }
        }
        for(auto& d : t.deps){
            AddrState& a = addr[{t.parent, d.first}];
            if(d.second == 0) a.readers.push_back(t.seq);
            else if(d.second == 1){ a.writers = {t.seq}; a.readers.clear(); a.commute_group = false; }
            else {
                if(a.commute_group && a.readers.empty()) a.writers.push_back(t.seq);
                else { a.writers = {t.seq}; a.readers.clear(); a.commute_group = true; }
            }
        }
        t.preds.erase(t.seq);
        if(in_task && on_spawn) on_spawn(t.seq);
        for(long p : t.preds){
            auto it = pos.find(p);
            if(it != pos.end() && !tasks[it->second].done){ tasks[it->second].succs.push_back(t.seq); t.npending += 1; }
        }
        if(t.npending == 0) ready.insert(t.seq);
        pos[t.seq] = tasks.size();
        tasks.push_back(std::move(t));
        if(policy == IMMEDIATE){
            if(!in_task) drain();
            else if(tasks.back().npending == 0){ ready.erase(tasks.back().seq); run_task(tasks.back()); }   // nested creation: run it at once when its predecessors are done
        }
    }
    bool is_ready(const MockTask& t){
        for(long p : t.preds){ auto it = pos.find(p); if(it != pos.end() && !tasks[it->second].done) return false; }
        return true;
    }
    void drain(){
        // execute all pending tasks in a policy-chosen linear extension of the dependence order
        if(in_task || draining) return;      // only the master's barrier / wait-for-all drains
        draining = true;
        while(!ready.empty()){
            long pick = *ready.begin();
            switch(policy){
            case LIFO: pick = *ready.rbegin(); break;
            case RANDOM: { auto it = ready.begin(); std::advance(it, long(next() % ready.size())); pick = *it; break; }
            case PRIO_INV: for(long r : ready) if(tasks[pos[r]].priority < tasks[pos[pick]].priority) pick = r; break;
            case PRIO: for(long r : ready) if(tasks[pos[r]].priority > tasks[pos[pick]].priority) pick = r; break;
            default: break;
            }
            ready.erase(pick);
            run_task(tasks[pos[pick]]);
        }
        for(auto& t : tasks){
            if(t.cleanup) t.cleanup();
            t.run = nullptr; t.cleanup = nullptr;
            history.push_back(t);
        }
        tasks.clear(); pos.clear(); ready.clear();
        draining = false;
    }
};

inline MockRuntime& mock_rt(){ static MockRuntime rt; return rt; }
#endif
