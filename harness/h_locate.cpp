// Harness for position -> grid coordinate (C06, floating-point part), one dimension:
//   loc <64|32> H centerbits widthbits posbits      -> coordinate (index of a 1-D Morton ordering = the coordinate)
// built with assertions on: a failing precondition assert aborts (reported as ABORT by the driver).
#include "tbfglobal.hpp"
#include "spacial/tbfmortonspaceindex.hpp"
#include "spacial/tbfspacialconfiguration.hpp"
#include "common.hpp"
#include <cstring>
#include <cstdint>

template <class F, class U>
std::string run_loc(const Cmd& c){
    auto fromBits = [](const std::string& s){ U u = (U)std::stoull(s); F f; std::memcpy(&f, &u, sizeof f); return f; };
    const long H = c.L(2);
    if(c.size() == 6){
        using Conf = TbfSpacialConfiguration<F, 1>;
        Conf conf(H, {{fromBits(c.tok[4])}}, {{fromBits(c.tok[3])}});
        TbfMortonSpaceIndex<1, Conf, false> sp(conf);
        std::array<F, 1> pos{{fromBits(c.tok[5])}};
        return std::to_string(sp.getIndexFromPosition(pos));
    }
    // two dimensions with independent centres / widths:  loc fmt H c0 w0 p0 c1 w1 p1
    using Conf = TbfSpacialConfiguration<F, 2>;
    Conf conf(H, {{fromBits(c.tok[4]), fromBits(c.tok[7])}}, {{fromBits(c.tok[3]), fromBits(c.tok[6])}});
    TbfMortonSpaceIndex<2, Conf, false> sp(conf);
    std::array<F, 2> pos{{fromBits(c.tok[5]), fromBits(c.tok[8])}};
    return std::to_string(sp.getIndexFromPosition(pos));
}

int main(int argc, char** argv){
    return run_commands(argc, argv, [](const Cmd& c) -> std::string {
        if(c.tok[0] != "loc") return "?unknown";
        if(c.tok[1] == "64") return run_loc<double, uint64_t>(c);
        if(c.tok[1] == "32") return run_loc<float, uint32_t>(c);
        return "?fmt";
    });
}
