// TraceKernel: an exactly additive kernel over uint64 (wrap-around) that records every operator call
// with the arguments as received.  Cells carry an identity tag (written by the harness after construction)
// next to their value, so that the sources handed over as bare references can be identified.
#ifndef VERIF_TRACE_KERNEL_HPP
#define VERIF_TRACE_KERNEL_HPP
#include <cstdio>
#include <cstdlib>
#include <string>
#include <vector>
#include <algorithm>
#include <mutex>
#include <cstdint>

struct TagVal {            // POD; zero-initialised by the library => tagLevel1 == 0 means "untagged"
    long tagLevel1;        // level + 1
    long tagIndex;
    unsigned long val;
};

inline unsigned long vw_mix(unsigned long z){
    z += 0x9E3779B97F4A7C15UL;
    z = (z ^ (z >> 30)) * 0xBF58476D1CE4E5B9UL;
    z = (z ^ (z >> 27)) * 0x94D049BB133111EBUL;
    return z ^ (z >> 31);
}

struct TraceSink {
    std::mutex mtx;
    std::vector<std::string> lines;
    unsigned long wseed = 12345;
    bool record = true;
    // image-aware mode (periodic runs): a displacement by sigma box widths multiplies a value by chi(sigma)
    bool shiftAware = false; bool inTop = false; long topK = -2; long leafLevel = 0;
    unsigned long r[8] = {0x9E3779B97F4A7C15UL | 1, 0xC2B2AE3D27D4EB4FUL | 1, 0x165667B19E3779F9UL | 1, 0x27D4EB2F165667C5UL | 1, 3, 5, 7, 11};
    static unsigned long inv64(unsigned long a){ unsigned long x = a; for(int i = 0 ; i < 6 ; ++i) x *= 2 - a * x; return x; }
    static unsigned long upow(unsigned long b, unsigned long e){ unsigned long res = 1; while(e){ if(e & 1) res *= b; b *= b; e >>= 1; } return res; }
    unsigned long chi1(int dim, long sigma) const { return sigma >= 0 ? upow(r[dim], (unsigned long)sigma) : upow(inv64(r[dim]), (unsigned long)(-sigma)); }
    unsigned long weight(long pid) const { return vw_mix(wseed ^ (unsigned long)(pid) * 0x100000001B3UL); }
    void add(std::string s){ std::lock_guard<std::mutex> g(mtx); if(record) lines.push_back(std::move(s)); }
};

inline TraceSink*& trace_sink(){ static TraceSink* s = nullptr; return s; }

inline std::string tagstr(const TagVal& t){
    return std::to_string(t.tagLevel1 - 1) + "/" + std::to_string(t.tagIndex);
}

template <class Arr> std::string coordstr(const Arr& a){
    std::string s; for(size_t k = 0 ; k < a.size() ; ++k){ if(k) s += ","; s += std::to_string(a[k]); } return s;
}

inline std::string pidstr(const long* idx, long n){
    std::vector<long> v(idx, idx + n); std::sort(v.begin(), v.end());
    std::string s; for(size_t k = 0 ; k < v.size() ; ++k){ if(k) s += ","; s += std::to_string(v[k]); } return s;
}

inline long floordiv(long a, long b){ long q = a / b; if((a % b != 0) && ((a < 0) != (b < 0))) q -= 1; return q; }

template <class RealType, class SpaceIndexType>
class TraceKernel {
    static constexpr long D = SpaceIndexType::Dim;
    // chi of the image shift of a source at relative offset o (in cells of level `level`) from a target at coordinates tc
    template <class Coord>
    static unsigned long chi_wrap(const Coord& tc, const std::array<long, D>& o, long level){
        const TraceSink& S = *trace_sink();
        if(!S.shiftAware) return 1UL;
        unsigned long f = 1;
        for(long j = 0 ; j < D ; ++j) f *= S.chi1(int(j), floordiv(tc[j] + o[j], 1L << level));
        return f;
    }
    static unsigned long chi_scaled(const std::array<long, D>& o, long scale){
        const TraceSink& S = *trace_sink();
        unsigned long f = 1;
        for(long j = 0 ; j < D ; ++j) f *= S.chi1(int(j), o[j] * scale);
        return f;
    }
    // the kernel is stateful on purpose: an executor that hands a task a kernel object which does not exist (an index past the
    // per-worker array) or which is already destroyed reads this member (ASan) or finds it wrong
    unsigned long alive = 0x7ace7ace7ace7aceUL;
    void touch() const {
        if(alive != 0x7ace7ace7ace7aceUL){ std::fprintf(stderr, "TraceKernel: the kernel object passed to the operator is not a live kernel\n"); std::fflush(stderr); std::abort(); }
    }
public:
    using SpacialConfiguration = TbfSpacialConfiguration<RealType, SpaceIndexType::Dim>;
    explicit TraceKernel(const SpacialConfiguration&){}
    ~TraceKernel(){ alive = 0; }
    TraceKernel(const TraceKernel&) = default;
    TraceKernel& operator=(const TraceKernel&) = default;

    template <class Symb, class Parts, class Leaf>
    void P2M(const Symb& symb, const long idx[], const Parts&, const long n, Leaf& leaf) const { touch();
        unsigned long s = 0; for(long k = 0 ; k < n ; ++k) s += trace_sink()->weight(idx[k]);
        leaf.val += s;
        trace_sink()->add("P2M " + std::to_string(symb.spaceIndex) + " c=" + coordstr(symb.boxCoord) + " t=" + tagstr(leaf) + " : " + pidstr(idx, n));
    }
    template <class Symb, class Cont, class Cell>
    void M2M(const Symb& symb, const long level, const Cont& children, Cell& parent, const long pos[], const long n) const { touch();
        std::vector<std::pair<std::string,long>> cs;
        for(long k = 0 ; k < n ; ++k){
            const auto& c = children[k].get();
            unsigned long f = 1;
            const TraceSink& S = *trace_sink();
            if(S.shiftAware && S.inTop && level < S.topK + 3){
                // virtual levels: child `pos` of a cell of 2^(topK+3-level) boxes sits at bits(pos) * 2^(topK+2-level) boxes
                std::array<long, D> o; for(long j = 0 ; j < D ; ++j) o[j] = (pos[k] >> (D - 1 - j)) & 1;
                f = chi_scaled(o, 1L << (S.topK + 2 - level));
            }
            parent.val += f * c.val; cs.push_back({tagstr(c), pos[k]});
        }
        std::sort(cs.begin(), cs.end());
        std::string s = "M2M " + std::to_string(level) + " " + std::to_string(symb.spaceIndex) + " c=" + coordstr(symb.boxCoord) + " t=" + tagstr(parent) + " :";
        for(auto& c : cs) s += " " + c.first + "," + std::to_string(c.second);
        trace_sink()->add(s);
    }
    template <class Symb, class Cont, class Cell>
    void M2L(const Symb& symb, const long level, const Cont& srcs, const long pos[], const long n, Cell& target) const { touch();
        std::vector<std::pair<std::string,long>> cs;
        for(long k = 0 ; k < n ; ++k){
            const auto& c = srcs[k].get();
            unsigned long f = 1;
            const TraceSink& S = *trace_sink();
            if(S.shiftAware){
                auto o = SpaceIndexType::getRelativePosFromInteractionIndex(pos[k]);
                f = S.inTop ? chi_scaled(o, 1L << (S.topK + 3 - level)) : chi_wrap(symb.boxCoord, o, level);
            }
            target.val += f * c.val; cs.push_back({tagstr(c), pos[k]});
        }
        std::sort(cs.begin(), cs.end());
        std::string s = "M2L " + std::to_string(level) + " " + std::to_string(symb.spaceIndex) + " c=" + coordstr(symb.boxCoord) + " t=" + tagstr(target) + " :";
        for(auto& c : cs) s += " " + c.first + "," + std::to_string(c.second);
        trace_sink()->add(s);
    }
    template <class Symb, class Cell, class Cont>
    void L2L(const Symb& symb, const long level, const Cell& parent, Cont& children, const long pos[], const long n) const { touch();
        std::vector<std::pair<std::string,long>> cs;
        for(long k = 0 ; k < n ; ++k){ auto& c = children[k].get(); c.val += parent.val; cs.push_back({tagstr(c), pos[k]}); }
        std::sort(cs.begin(), cs.end());
        std::string s = "L2L " + std::to_string(level) + " " + std::to_string(symb.spaceIndex) + " c=" + coordstr(symb.boxCoord) + " t=" + tagstr(parent) + " :";
        for(auto& c : cs) s += " " + c.first + "," + std::to_string(c.second);
        trace_sink()->add(s);
    }
    template <class Symb, class Leaf, class Vals, class Rhs>
    void L2P(const Symb& symb, const Leaf& leaf, const long idx[], const Vals&, Rhs& rhs, const long n) const { touch();
        for(long k = 0 ; k < n ; ++k) rhs[0][k] += leaf.val;
        trace_sink()->add("L2P " + std::to_string(symb.spaceIndex) + " c=" + coordstr(symb.boxCoord) + " t=" + tagstr(leaf) + " : " + pidstr(idx, n));
    }
    template <class Symb, class Vals, class Rhs>
    void P2P(const Symb& ssymb, const long sidx[], const Vals&, Rhs& srhs, const long ns,
             const Symb& tsymb, const long tidx[], const Vals&, Rhs& trhs, const long nt, const long code) const {
        unsigned long ws = 0, wt = 0;
        for(long k = 0 ; k < ns ; ++k) ws += trace_sink()->weight(sidx[k]);
        for(long k = 0 ; k < nt ; ++k) wt += trace_sink()->weight(tidx[k]);
        unsigned long fs = 1, ft = 1;
        if(trace_sink()->shiftAware){
            auto o = SpaceIndexType::getRelativePosFromNeighborIndex(code);
            fs = chi_wrap(tsymb.boxCoord, o, trace_sink()->leafLevel);          // source seen from the target
            std::array<long, D> om; for(long j = 0 ; j < D ; ++j) om[j] = -o[j];
            ft = chi_wrap(ssymb.boxCoord, om, trace_sink()->leafLevel);         // target seen from the source
        }
        for(long k = 0 ; k < nt ; ++k) trhs[0][k] += fs * ws;
        for(long k = 0 ; k < ns ; ++k) srhs[0][k] += ft * wt;
        trace_sink()->add("P2P " + std::to_string(ssymb.spaceIndex) + " " + std::to_string(tsymb.spaceIndex) + " " + std::to_string(code)
                          + " sc=" + coordstr(ssymb.boxCoord) + " tc=" + coordstr(tsymb.boxCoord) + " : " + pidstr(sidx, ns) + " : " + pidstr(tidx, nt));
    }
    template <class SymbS, class ValsS, class SymbT, class ValsT, class Rhs>
    void P2PTsm(const SymbS& ssymb, const long sidx[], const ValsS&, const long ns,
                const SymbT& tsymb, const long tidx[], const ValsT&, Rhs& trhs, const long nt, const long code) const {
        unsigned long ws = 0;
        for(long k = 0 ; k < ns ; ++k) ws += trace_sink()->weight(sidx[k]);
        unsigned long fs = 1;
        if(trace_sink()->shiftAware){
            auto o = SpaceIndexType::getRelativePosFromNeighborIndex(code);
            fs = chi_wrap(tsymb.boxCoord, o, trace_sink()->leafLevel);
        }
        for(long k = 0 ; k < nt ; ++k) trhs[0][k] += fs * ws;
        trace_sink()->add("P2PTsm " + std::to_string(ssymb.spaceIndex) + " " + std::to_string(tsymb.spaceIndex) + " " + std::to_string(code)
                          + " sc=" + coordstr(ssymb.boxCoord) + " tc=" + coordstr(tsymb.boxCoord) + " : " + pidstr(sidx, ns) + " : " + pidstr(tidx, nt));
    }
    template <class Symb, class Vals, class Rhs>
    void P2PInner(const Symb& symb, const long idx[], const Vals&, Rhs& rhs, const long n) const { touch();
        unsigned long w = 0;
        for(long k = 0 ; k < n ; ++k) w += trace_sink()->weight(idx[k]);
        for(long k = 0 ; k < n ; ++k) rhs[0][k] += w - trace_sink()->weight(idx[k]);
        trace_sink()->add("P2PInner " + std::to_string(symb.spaceIndex) + " c=" + coordstr(symb.boxCoord) + " : " + pidstr(idx, n));
    }
};
#endif
