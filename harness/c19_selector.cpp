// C19: the algorithm selector header with OpenMP, Specx and StarPU all enabled (preprocessed only, with empty stub runtimes)
#define TBF_USE_SPECX
#define TBF_USE_STARPU
#define TBF_USE_OPENMP
#include "algorithms/tbfalgorithmselecter.hpp"
