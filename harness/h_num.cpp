// Harness for the numerical kernels (C04 rotation, C05 uniform): FMM result vs long-double direct sum.
//   -DKERNEL=0 -DPARAM=<P>      rotation kernel of order P
//   -DKERNEL=1 -DPARAM=<ORDER>  uniform (Lagrange/FFT) kernel, 1/r matrix kernel
//   -DREALT=double|float
// commands:  num H B mode exec N seed cx cy cz width chargemode
//     exec: 0 sequential, 1 OpenMP (real libgomp); chargemode: 0 all +0.01, 1 random sign/magnitude
// output: finite=<0|1> epot=<max_i |pot_i - ref_i| / sum_j |q_j|/r_ij> efrc=<same for the force, max over components>
//         cpot=<checksum of potentials> (for invariance comparisons between groupings)
#include "tbfglobal.hpp"
#include "spacial/tbfmortonspaceindex.hpp"
#include "spacial/tbfspacialconfiguration.hpp"
#include "core/tbftree.hpp"
#include "algorithms/sequential/tbfalgorithm.hpp"
#include "algorithms/openmp/tbfopenmpalgorithm.hpp"
#include "algorithms/periodic/tbfalgorithmperiodictoptree.hpp"
#include "core/tbftreetsm.hpp"
#include "algorithms/sequential/tbfalgorithmtsm.hpp"
#include "algorithms/openmp/tbfopenmpalgorithmtsm.hpp"
#if KERNEL == 0
#include "kernels/rotationkernel/FRotationKernel.hpp"
#else
#include "kernels/unifkernel/FUnifKernel.hpp"
#endif
#include "common.hpp"
#include <cmath>
#include <complex>
#include <memory>
#include <set>

using Real = REALT;
constexpr int Dim = 3;

#if KERNEL == 0
constexpr unsigned int P = PARAM;
constexpr long VectorSize = ((P+2)*(P+1))/2;
using MultipoleClass = std::array<std::complex<Real>, VectorSize>;
using LocalClass = std::array<std::complex<Real>, VectorSize>;
using KernelClass = FRotationKernel<Real, P>;
#else
constexpr unsigned int ORDER = PARAM;
constexpr long VectorSize = TensorTraits<ORDER>::nnodes;
constexpr long TransformedVectorSize = (2*ORDER-1)*(2*ORDER-1)*(2*ORDER-1);
struct MultipoleClass { Real multipole_exp[VectorSize]; std::complex<Real> transformed_multipole_exp[TransformedVectorSize]; };
struct LocalClass { Real local_exp[VectorSize]; std::complex<Real> transformed_local_exp[TransformedVectorSize]; };
using KernelClass = FUnifKernel<Real, FInterpMatrixKernelR<Real>, ORDER>;
#endif
using Space = TbfDefaultSpaceIndexType<Real>;
using TreeClass = TbfTree<Real, Real, Dim+1, Real, 4, MultipoleClass, LocalClass>;
// periodic variant: wrapping lists inside the box + the periodic top tree with k extra levels
using SpaceP = TbfDefaultSpaceIndexTypePeriodic<Real>;
#if KERNEL == 0
using KernelClassP = FRotationKernel<Real, P, SpaceP>;
#else
using KernelClassP = FUnifKernel<Real, FInterpMatrixKernelR<Real>, ORDER, Dim, SpaceP>;
#endif
using TreeClassP = TbfTree<Real, Real, Dim+1, Real, 4, MultipoleClass, LocalClass, SpaceP>;
using TopP = TbfAlgorithmPeriodicTopTree<Real, KernelClassP, MultipoleClass, LocalClass, SpaceP>;

static unsigned long lcg;
static double rnd(){ lcg = lcg * 6364136223846793005UL + 1442695040888963407UL; return double(lcg >> 11) / double(1UL << 53); }

// chargemode: 0 all +0.01, 1 random sign/magnitude; 2 / 3 / 4: charge sets A, B and A+B over the same positions (linearity)
static Real pick_charge(long chargemode){
    if(chargemode == 0) return Real(0.01);
    if(chargemode == 1) return Real((rnd() < 0.5 ? -1 : 1) * (0.002 + 0.02 * rnd()));
    const double qa = (rnd() < 0.5 ? -1 : 1) * (0.002 + 0.02 * rnd()), qb = (rnd() < 0.5 ? -1 : 1) * (0.002 + 0.02 * rnd());
    return Real(chargemode == 2 ? qa : (chargemode == 3 ? qb : qa + qb));
}

template <class Algo, class... KArgs>
void run_algo(const TbfSpacialConfiguration<Real, Dim>& conf, TreeClass& tree, KArgs&&... kargs){
    std::unique_ptr<Algo> algo(new Algo(conf, std::forward<KArgs>(kargs)...));
    algo->execute(tree);
}

//   numt H B mode exec Ns Nt seed cx cy cz width chargemode rel : target/source run (separate particle sets; rel: 0 both uniform in
//   the box, 1 sources in the lower half / targets in the upper half (x), 2 targets = a subset of the source positions,
//   3 all targets in one small cluster) compared with the long-double sum over the sources (coincident points excluded)
using TreeClassT = TbfTreeTsm<Real, Real, Dim+1, Real, 4, MultipoleClass, LocalClass>;
static std::string run_tsm(const Cmd& c){
    const long H = c.L(1), B = c.L(2), mode = c.L(3), exec = c.L(4), Ns = c.L(5), Nt = c.L(6);
    lcg = (unsigned long)c.L(7) * 7919 + 17;
    const Real cx = Real(c.D(8)), cy = Real(c.D(9)), cz = Real(c.D(10)), w = Real(c.D(11));
    const long chargemode = c.L(12), rel = c.L(13);
    const std::array<Real, Dim> widths{{w, w, w}}; const std::array<Real, Dim> center{{cx, cy, cz}};
    TbfSpacialConfiguration<Real, Dim> conf(H, widths, center);
    std::vector<std::array<Real, Dim+1>> ps(Ns), pt(Nt);
    for(long i = 0 ; i < Ns ; ++i){
        const double fx = rel == 1 ? rnd() * 0.499 : rnd() * 0.998;
        ps[i][0] = Real(cx + (fx - 0.499) * w); ps[i][1] = Real(cy + (rnd() - 0.5) * 0.998 * w); ps[i][2] = Real(cz + (rnd() - 0.5) * 0.998 * w);
        ps[i][3] = pick_charge(chargemode);
    }
    for(long i = 0 ; i < Nt ; ++i){
        if(rel == 2){ const long j = long(rnd() * Ns) % Ns; pt[i] = ps[j]; pt[i][0] = Real(double(pt[i][0]) + 1e-3 * w * (rnd() - 0.5)); }
        else if(rel == 3){ pt[i][0] = Real(cx + (0.31 + 0.01 * rnd()) * w); pt[i][1] = Real(cy + (-0.22 + 0.01 * rnd()) * w); pt[i][2] = Real(cz + (0.07 + 0.01 * rnd()) * w); }
        else { const double fx = rel == 1 ? 0.5 + rnd() * 0.499 : rnd() * 0.998;
               pt[i][0] = Real(cx + (fx - 0.499) * w); pt[i][1] = Real(cy + (rnd() - 0.5) * 0.998 * w); pt[i][2] = Real(cz + (rnd() - 0.5) * 0.998 * w); }
        pt[i][3] = pick_charge(chargemode);
    }
    TreeClassT tree(conf, TbfUtils::make_const(ps), TbfUtils::make_const(pt), B, mode != 0);
    std::cout.setstate(std::ios_base::failbit);
    {
#if KERNEL == 0
        if(exec == 0){ std::unique_ptr<TbfAlgorithmTsm<Real, KernelClass, Space>> a(new TbfAlgorithmTsm<Real, KernelClass, Space>(conf)); a->execute(tree); }
        else { std::unique_ptr<TbfOpenmpAlgorithmTsm<Real, KernelClass, Space>> a(new TbfOpenmpAlgorithmTsm<Real, KernelClass, Space>(conf)); a->execute(tree); }
#else
        FInterpMatrixKernelR<Real> interp;
        if(exec == 0){ std::unique_ptr<TbfAlgorithmTsm<Real, KernelClass, Space>> a(new TbfAlgorithmTsm<Real, KernelClass, Space>(conf, KernelClass(conf, &interp))); a->execute(tree); }
        else { std::unique_ptr<TbfOpenmpAlgorithmTsm<Real, KernelClass, Space>> a(new TbfOpenmpAlgorithmTsm<Real, KernelClass, Space>(conf, KernelClass(conf, &interp))); a->execute(tree); }
#endif
    }
    std::cout.clear();
    std::vector<std::array<long double, 4>> ref(Nt), mag(Nt);
    for(long i = 0 ; i < Nt ; ++i){
        long double fx = 0, fy = 0, fz = 0, po = 0, mf = 0, mp = 0;
        for(long j = 0 ; j < Ns ; ++j){
            const long double dx = (long double)ps[j][0] - pt[i][0], dy = (long double)ps[j][1] - pt[i][1], dz = (long double)ps[j][2] - pt[i][2];
            const long double r2 = dx*dx + dy*dy + dz*dz, r = std::sqrt(r2);
            if(r2 == 0) continue;
            const long double qq = (long double)pt[i][3] * ps[j][3];
            fx += qq * dx / (r2 * r); fy += qq * dy / (r2 * r); fz += qq * dz / (r2 * r);
            po += (long double)ps[j][3] / r;
            mf += std::fabs(qq) / r2; mp += std::fabs((long double)ps[j][3]) / r;
        }
        ref[i] = {{fx, fy, fz, po}}; mag[i] = {{mf, mf, mf, mp}};
    }
    long double epot = 0, efrc = 0, csum = 0; bool finite = true; long count = 0;
    tree.applyToAllLeavesTarget([&](auto&& h, const long* idx, auto&&, auto&& rhs){
        for(long p = 0 ; p < h.nbParticles ; ++p){
            const long i = idx[p]; count += 1;
            for(int kk = 0 ; kk < 4 ; ++kk){
                const long double v = rhs[kk][p];
                if(!std::isfinite((double)v)) finite = false;
                const long double e = mag[i][kk] > 0 ? std::fabs(v - ref[i][kk]) / mag[i][kk] : std::fabs(v - ref[i][kk]);
                if(kk == 3){ if(e > epot) epot = e; csum += v * (1 + (i % 7)); } else if(e > efrc) efrc = e;
            }
        }
    });
    char buf[320];
    std::snprintf(buf, sizeof buf, "finite=%d count=%ld epot=%.6Le efrc=%.6Le cpot=%.17Le", int(finite), count, epot, efrc, csum);
    return std::string(buf);
}

//   numc H B mode N seed cx cy cz width chargemode : upward pass only (P2M + M2M); at every level >= 2 the sum over all cells of the
//   multipole coefficients (uniform kernel: all interpolation weights - partition of unity; rotation kernel: the l = m = 0
//   coefficient) must equal the total charge.  output: cons=<max over levels |sum - Q| / sum |q|> levels=<n>
static std::string run_conservation(const Cmd& c){
    const long H = c.L(1), B = c.L(2), mode = c.L(3), N = c.L(4);
    lcg = (unsigned long)c.L(5) * 7919 + 17;
    const Real cx = Real(c.D(6)), cy = Real(c.D(7)), cz = Real(c.D(8)), w = Real(c.D(9));
    const long chargemode = c.L(10);
    const std::array<Real, Dim> widths{{w, w, w}}; const std::array<Real, Dim> center{{cx, cy, cz}};
    TbfSpacialConfiguration<Real, Dim> conf(H, widths, center);
    std::vector<std::array<Real, Dim+1>> pos(N);
    long double Q = 0, Qabs = 0;
    for(long i = 0 ; i < N ; ++i){
        pos[i][0] = Real(cx + (rnd() - 0.5) * 0.998 * w); pos[i][1] = Real(cy + (rnd() - 0.5) * 0.998 * w); pos[i][2] = Real(cz + (rnd() - 0.5) * 0.998 * w);
        pos[i][3] = pick_charge(chargemode);
        Q += pos[i][3]; Qabs += std::fabs((long double)pos[i][3]);
    }
    TreeClass tree(conf, TbfUtils::make_const(pos), B, mode != 0);
    std::cout.setstate(std::ios_base::failbit);
    {
#if KERNEL == 0
        std::unique_ptr<TbfAlgorithm<Real, KernelClass, Space>> a(new TbfAlgorithm<Real, KernelClass, Space>(conf));
#else
        FInterpMatrixKernelR<Real> interp;
        std::unique_ptr<TbfAlgorithm<Real, KernelClass, Space>> a(new TbfAlgorithm<Real, KernelClass, Space>(conf, KernelClass(conf, &interp)));
#endif
        a->execute(tree, TbfAlgorithmUtils::TbfP2M | TbfAlgorithmUtils::TbfM2M);
    }
    std::cout.clear();
    std::vector<long double> sums(H, 0.0L);
    tree.applyToAllCells([&](long level, auto&&, auto&& multipoleOpt, auto&&){
        if(!multipoleOpt) return;
        const auto& m = multipoleOpt->get();
#if KERNEL == 0
        sums[level] += (long double)m[0].real();
#else
        for(long k = 0 ; k < VectorSize ; ++k) sums[level] += (long double)m.multipole_exp[k];
#endif
    });
    long double worst = 0; long levels = 0;
    for(long l = 2 ; l < H ; ++l){ const long double e = std::fabs(sums[l] - Q) / Qabs; if(e > worst) worst = e; levels += 1; }
    char buf[160];
    std::snprintf(buf, sizeof buf, "cons=%.6Le levels=%ld Q=%.17Le", worst, levels, Q);
    return std::string(buf);
}

#if KERNEL == 1
//   nume H B mode N seed cx cy cz width chargemode : polynomial exactness of the uniform kernel's interpolation operators (no
//   truncation error involved): (A) after P2M + M2M the first moments sum_n M_n * node_n of every level equal sum_p q_p x_p;
//   (B) with the level-2 locals set to a LINEAR field phi(x) = a0 + a.x at their nodes, L2L + L2P give every particle the
//   potential phi(x_p) and the force (up to the library's global sign) q_p * a.   output: dip=<..> pot=<..> frc=<..>
static std::string run_exactness(const Cmd& c){
    const long H = c.L(1), B = c.L(2), mode = c.L(3), N = c.L(4);
    lcg = (unsigned long)c.L(5) * 7919 + 17;
    const Real cx = Real(c.D(6)), cy = Real(c.D(7)), cz = Real(c.D(8)), w = Real(c.D(9));
    const long chargemode = c.L(10);
    const std::array<Real, Dim> widths{{w, w, w}}; const std::array<Real, Dim> center{{cx, cy, cz}};
    TbfSpacialConfiguration<Real, Dim> conf(H, widths, center);
    std::vector<std::array<Real, Dim+1>> pos(N);
    long double mom[3] = {0, 0, 0}, momabs = 0;
    for(long i = 0 ; i < N ; ++i){
        pos[i][0] = Real(cx + (rnd() - 0.5) * 0.998 * w); pos[i][1] = Real(cy + (rnd() - 0.5) * 0.998 * w); pos[i][2] = Real(cz + (rnd() - 0.5) * 0.998 * w);
        pos[i][3] = pick_charge(chargemode);
        for(int d = 0 ; d < 3 ; ++d) mom[d] += (long double)pos[i][3] * pos[i][d];
        momabs += std::fabs((long double)pos[i][3]) * ((long double)std::fabs(double(cx)) + std::fabs(double(cy)) + std::fabs(double(cz)) + double(w));
    }
    const long double x0[3] = { (long double)cx - (long double)w / 2, (long double)cy - (long double)w / 2, (long double)cz - (long double)w / 2 };
    auto node_pos = [&](long level, const auto& boxCoord, long n, long double out[3]){
        const long double cw = (long double)w / (long double)(1L << level);
        const long id[3] = { n % long(ORDER), (n / long(ORDER)) % long(ORDER), n / long(ORDER * ORDER) };
        for(int d = 0 ; d < 3 ; ++d) out[d] = x0[d] + ((long double)boxCoord[d] + 0.5L) * cw + (-1.0L + 2.0L * (long double)id[d] / (long double)(ORDER - 1)) * cw / 2;
    };
    FInterpMatrixKernelR<Real> interp;
    long double dip = 0;
    {   // (A) upward
        TreeClass tree(conf, TbfUtils::make_const(pos), B, mode != 0);
        std::cout.setstate(std::ios_base::failbit);
        { std::unique_ptr<TbfAlgorithm<Real, KernelClass, Space>> a(new TbfAlgorithm<Real, KernelClass, Space>(conf, KernelClass(conf, &interp)));
          a->execute(tree, TbfAlgorithmUtils::TbfP2M | TbfAlgorithmUtils::TbfM2M); }
        std::cout.clear();
        std::vector<std::array<long double, 3>> sums(H, {{0, 0, 0}});
        tree.applyToAllCells([&](long level, auto&& h, auto&& multipoleOpt, auto&&){
            if(!multipoleOpt) return;
            const auto& m = multipoleOpt->get();
            for(long n = 0 ; n < VectorSize ; ++n){ long double p3[3]; node_pos(level, h.boxCoord, n, p3); for(int d = 0 ; d < 3 ; ++d) sums[level][d] += (long double)m.multipole_exp[n] * p3[d]; }
        });
        for(long l = 2 ; l < H ; ++l) for(int d = 0 ; d < 3 ; ++d){ const long double e = std::fabs(sums[l][d] - mom[d]) / momabs; if(e > dip) dip = e; }
    }
    long double epot = 0, efrc = 0;
    {   // (B) downward
        const long double a0 = 0.75L, av[3] = { 1.25L, -0.5L, 2.0L };
        TreeClass tree(conf, TbfUtils::make_const(pos), B, mode != 0);
        tree.applyToAllCells([&](long level, auto&& h, auto&&, auto&& localOpt){
            if(level != 2 || !localOpt) return;
            auto& L = localOpt->get();
            for(long n = 0 ; n < VectorSize ; ++n){ long double p3[3]; node_pos(level, h.boxCoord, n, p3); L.local_exp[n] = Real(a0 + av[0] * p3[0] + av[1] * p3[1] + av[2] * p3[2]); }
        });
        std::cout.setstate(std::ios_base::failbit);
        { std::unique_ptr<TbfAlgorithm<Real, KernelClass, Space>> a(new TbfAlgorithm<Real, KernelClass, Space>(conf, KernelClass(conf, &interp)));
          a->execute(tree, TbfAlgorithmUtils::TbfL2L | TbfAlgorithmUtils::TbfL2P); }
        std::cout.clear();
        const long double scale = std::fabs(a0) + (std::fabs(av[0]) + std::fabs(av[1]) + std::fabs(av[2])) * ((long double)std::fabs(double(cx)) + std::fabs(double(cy)) + std::fabs(double(cz)) + double(w));
        long double sgn = 0;
        tree.applyToAllLeaves([&](auto&& h, const long* idx, auto&&, auto&& rhs){
            for(long p = 0 ; p < h.nbParticles ; ++p){
                const long i = idx[p];
                const long double phi = a0 + av[0] * pos[i][0] + av[1] * pos[i][1] + av[2] * pos[i][2];
                const long double e = std::fabs((long double)rhs[3][p] - phi) / scale; if(e > epot) epot = e;
                if(sgn == 0) sgn = ((long double)rhs[0][p] * pos[i][3] * av[0] >= 0) ? 1 : -1;
                for(int d = 0 ; d < 3 ; ++d){ const long double ef = std::fabs((long double)rhs[d][p] - sgn * pos[i][3] * av[d]) / (std::fabs((long double)pos[i][3]) * 2.0L); if(ef > efrc) efrc = ef; }
            }
        });
    }
    char buf[200];
    std::snprintf(buf, sizeof buf, "dip=%.6Le pot=%.6Le frc=%.6Le", dip, epot, efrc);
    return std::string(buf);
}
#endif

//   nump H B mode k N seed cx cy cz width chargemode : the documented four-step periodic sequence with k extra levels, compared
//   with the explicit long-double sum over every image of the repetition interval the library reports
static std::string run_periodic(const Cmd& c){
    const long H = c.L(1), B = c.L(2), mode = c.L(3), k = c.L(4), N = c.L(5);
    lcg = (unsigned long)c.L(6) * 7919 + 17;
    const Real cx = Real(c.D(7)), cy = Real(c.D(8)), cz = Real(c.D(9)), w = Real(c.D(10));
    const long chargemode = c.L(11);
    const std::array<Real, Dim> widths{{w, w, w}}; const std::array<Real, Dim> center{{cx, cy, cz}};
    TbfSpacialConfiguration<Real, Dim> conf(H, widths, center);
    std::vector<std::array<Real, Dim+1>> pos(N);
    for(long i = 0 ; i < N ; ++i){
        pos[i][0] = Real(cx + (rnd() - 0.5) * 0.998 * w); pos[i][1] = Real(cy + (rnd() - 0.5) * 0.998 * w); pos[i][2] = Real(cz + (rnd() - 0.5) * 0.998 * w);
        pos[i][3] = pick_charge(chargemode);
    }
    TreeClassP tree(conf, TbfUtils::make_const(pos), B, mode != 0);
    std::array<long, Dim> lo, hi;
    std::cout.setstate(std::ios_base::failbit);
    {
#if KERNEL == 0
        std::unique_ptr<TbfAlgorithm<Real, KernelClassP, SpaceP>> algo(new TbfAlgorithm<Real, KernelClassP, SpaceP>(conf, TbfDefaultLastLevelPeriodic));
        std::unique_ptr<TopP> top(new TopP(conf, k));
#else
        FInterpMatrixKernelR<Real> interp;
        std::unique_ptr<TbfAlgorithm<Real, KernelClassP, SpaceP>> algo(new TbfAlgorithm<Real, KernelClassP, SpaceP>(conf, KernelClassP(conf, &interp), TbfDefaultLastLevelPeriodic));
        std::unique_ptr<TopP> top(new TopP(conf, KernelClassP(TopP::GenerateAboveTreeConfiguration(conf, k), &interp), k));
#endif
        algo->execute(tree, TbfAlgorithmUtils::TbfBottomToTopStages);
        top->execute(tree);
        algo->execute(tree, TbfAlgorithmUtils::TbfTransferStages);
        algo->execute(tree, TbfAlgorithmUtils::TbfTopToBottomStages);
        const auto iv = top->getRepetitionsIntervals();
        for(int d = 0 ; d < Dim ; ++d){ lo[d] = iv.first[d]; hi[d] = iv.second[d]; }
    }
    std::cout.clear();
    std::vector<std::array<long double, 4>> ref(N), mag(N);
    for(long i = 0 ; i < N ; ++i){
        long double fx = 0, fy = 0, fz = 0, po = 0, mf = 0, mp = 0;
        for(long ix = lo[0] ; ix <= hi[0] ; ++ix) for(long iy = lo[1] ; iy <= hi[1] ; ++iy) for(long iz = lo[2] ; iz <= hi[2] ; ++iz){
            const bool central = (ix == 0 && iy == 0 && iz == 0);
            for(long j = 0 ; j < N ; ++j){
                if(central && i == j) continue;
                const long double dx = (long double)pos[j][0] + (long double)ix * w - pos[i][0], dy = (long double)pos[j][1] + (long double)iy * w - pos[i][1],
                                  dz = (long double)pos[j][2] + (long double)iz * w - pos[i][2];
                const long double r2 = dx*dx + dy*dy + dz*dz, r = std::sqrt(r2);
                const long double qq = (long double)pos[i][3] * pos[j][3];
                fx += qq * dx / (r2 * r); fy += qq * dy / (r2 * r); fz += qq * dz / (r2 * r);
                po += (long double)pos[j][3] / r;
                mf += std::fabs(qq) / r2; mp += std::fabs((long double)pos[j][3]) / r;
            }
        }
        ref[i] = {{fx, fy, fz, po}}; mag[i] = {{mf, mf, mf, mp}};
    }
    long double epot = 0, efrc = 0, csum = 0; bool finite = true; long count = 0;
    tree.applyToAllLeaves([&](auto&& h, const long* idx, auto&&, auto&& rhs){
        for(long p = 0 ; p < h.nbParticles ; ++p){
            const long i = idx[p]; count += 1;
            for(int kk = 0 ; kk < 4 ; ++kk){
                const long double v = rhs[kk][p];
                if(!std::isfinite((double)v)) finite = false;
                const long double e = mag[i][kk] > 0 ? std::fabs(v - ref[i][kk]) / mag[i][kk] : std::fabs(v - ref[i][kk]);
                if(kk == 3){ if(e > epot) epot = e; csum += v * (1 + (i % 7)); } else if(e > efrc) efrc = e;
            }
        }
    });
    char buf[320];
    std::snprintf(buf, sizeof buf, "finite=%d count=%ld epot=%.6Le efrc=%.6Le cpot=%.17Le lo=%ld hi=%ld", int(finite), count, epot, efrc, csum, lo[0], hi[0]);
    return std::string(buf);
}

int main(int argc, char** argv){
    return run_commands(argc, argv, [](const Cmd& c) -> std::string {
        if(c.tok[0] == "nump") return run_periodic(c);
        if(c.tok[0] == "numt") return run_tsm(c);
        if(c.tok[0] == "numc") return run_conservation(c);
#if KERNEL == 1
        if(c.tok[0] == "nume") return run_exactness(c);
#endif
        if(c.tok[0] != "num") return "?unknown";
        const long H = c.L(1), B = c.L(2), mode = c.L(3), exec = c.L(4), N = c.L(5);
        lcg = (unsigned long)c.L(6) * 7919 + 17;
        const Real cx = Real(c.D(7)), cy = Real(c.D(8)), cz = Real(c.D(9)), w = Real(c.D(10));
        const long chargemode = c.L(11);
        const std::array<Real, Dim> widths{{w, w, w}}; const std::array<Real, Dim> center{{cx, cy, cz}};
        TbfSpacialConfiguration<Real, Dim> conf(H, widths, center);
        std::vector<std::array<Real, Dim+1>> pos(N);
        const long place = c.size() > 12 ? c.L(12) : 0;
        for(long i = 0 ; i < N ; ++i){
            // strictly inside the box (margin 1e-3 of the width) to stay away from the face-rounding issue of C06
            pos[i][0] = Real(cx + (rnd() - 0.5) * 0.998 * w); pos[i][1] = Real(cy + (rnd() - 0.5) * 0.998 * w); pos[i][2] = Real(cz + (rnd() - 0.5) * 0.998 * w);
            pos[i][3] = pick_charge(chargemode);
        }
        if(place == 64){
            // N <= 8 particles, one per level-2 cell of coordinates {0,2}^3 (pairwise well separated: every pair interacts through ONE
            // level-2 M2L), each within 1e-3 of the cell centre: the truncation error is negligible, what remains is the accuracy of
            // the translation operators themselves (M2M / M2L / L2L tables)
            for(long i = 0 ; i < N && i < 8 ; ++i){
                const double q[3] = { (i & 1) ? 0.625 : 0.125, (i & 2) ? 0.625 : 0.125, (i & 4) ? 0.625 : 0.125 };
                pos[i][0] = Real(double(cx) + (q[0] - 0.5 + 2e-3 * (rnd() - 0.5)) * double(w));
                pos[i][1] = Real(double(cy) + (q[1] - 0.5 + 2e-3 * (rnd() - 0.5)) * double(w));
                pos[i][2] = Real(double(cz) + (q[2] - 0.5 + 2e-3 * (rnd() - 0.5)) * double(w));
            }
        }
        else if(place != 0){
            // place = bitmask (1 polar axis, 2 x axis, 4 y axis, 8 exact centre, 16 face, 32 edge): a third of the particles on special positions of their leaf cell: on the axes through the cell centre (above and
            // below / left and right of it), at the centre itself (one per leaf), on a cell face, on a cell edge
            const long nl = 1L << (H - 1);
            const double lw = double(w) / double(nl), x0 = double(cx) - double(w) / 2, y0 = double(cy) - double(w) / 2, z0 = double(cz) - double(w) / 2;
            std::set<long> centred;
            for(long i = 0 ; i < N ; i += 3){
                const long ix = long(rnd() * nl) % nl, iy = long(rnd() * nl) % nl, iz = long(rnd() * nl) % nl;
                const double ccx = x0 + (ix + 0.5) * lw, ccy = y0 + (iy + 0.5) * lw, ccz = z0 + (iz + 0.5) * lw;
                const double t = (rnd() - 0.5) * 0.9 * lw;
                double px = ccx, py = ccy, pz = ccz;
                int kinds[6], nk = 0;
                for(int b = 0 ; b < 6 ; ++b) if(place & (1 << b)) kinds[nk++] = b;
                switch(kinds[(i / 3) % nk]){
                case 0: pz = ccz + t; break;                                 // polar axis, either side
                case 1: px = ccx + t; break;                                 // x axis
                case 2: py = ccy + t; break;                                 // y axis
                case 3: if(centred.insert((ix * nl + iy) * nl + iz).second){ break; } pz = ccz + t; break;   // exact centre, once per leaf
                case 4: px = x0 + ix * lw + (ix == 0 ? 0.001 * lw : 0.0); py = ccy + t; pz = ccz - t; break;  // on a face
                case 5: px = x0 + ix * lw + (ix == 0 ? 0.001 * lw : 0.0); py = y0 + iy * lw + (iy == 0 ? 0.001 * lw : 0.0); pz = ccz + t; break;  // on an edge
                }
                pos[i][0] = Real(px); pos[i][1] = Real(py); pos[i][2] = Real(pz);
            }
        }
        TreeClass tree(conf, TbfUtils::make_const(pos), B, mode != 0);
        std::cout.setstate(std::ios_base::failbit);      // the uniform kernel prints timing lines on stdout
#if KERNEL == 0
        if(exec == 0) run_algo<TbfAlgorithm<Real, KernelClass, Space>>(conf, tree);
        else run_algo<TbfOpenmpAlgorithm<Real, KernelClass, Space>>(conf, tree);
#else
        FInterpMatrixKernelR<Real> interp;
        if(exec == 0) run_algo<TbfAlgorithm<Real, KernelClass, Space>>(conf, tree, KernelClass(conf, &interp));
        else run_algo<TbfOpenmpAlgorithm<Real, KernelClass, Space>>(conf, tree, KernelClass(conf, &interp));
#endif
        std::cout.clear();
        // reference: direct sum in long double (independent of the library's own P2P routines)
        std::vector<std::array<long double, 4>> ref(N), mag(N);
        for(long i = 0 ; i < N ; ++i){
            long double fx = 0, fy = 0, fz = 0, po = 0, mf = 0, mp = 0;
            for(long j = 0 ; j < N ; ++j){
                if(i == j) continue;
                const long double dx = (long double)pos[j][0] - pos[i][0], dy = (long double)pos[j][1] - pos[i][1], dz = (long double)pos[j][2] - pos[i][2];
                const long double r2 = dx*dx + dy*dy + dz*dz, r = std::sqrt(r2);
                const long double qq = (long double)pos[i][3] * pos[j][3];
                fx += qq * dx / (r2 * r); fy += qq * dy / (r2 * r); fz += qq * dz / (r2 * r);
                po += (long double)pos[j][3] / r;
                mf += std::fabs(qq) / r2; mp += std::fabs((long double)pos[j][3]) / r;
            }
            ref[i] = {{fx, fy, fz, po}}; mag[i] = {{mf, mf, mf, mp}};
        }
        long double epot = 0, efrc = 0, csum = 0; bool finite = true; long count = 0;
        tree.applyToAllLeaves([&](auto&& h, const long* idx, auto&&, auto&& rhs){
            for(long p = 0 ; p < h.nbParticles ; ++p){
                const long i = idx[p]; count += 1;
                for(int k = 0 ; k < 4 ; ++k){
                    const long double v = rhs[k][p];
                    if(!std::isfinite((double)v)) finite = false;
                    const long double e = mag[i][k] > 0 ? std::fabs(v - ref[i][k]) / mag[i][k] : std::fabs(v - ref[i][k]);
                    if(k == 3){ if(e > epot) epot = e; csum += v * (1 + (i % 7)); } else if(e > efrc) efrc = e;
                }
            }
        });
        char buf[256];
        std::snprintf(buf, sizeof buf, "finite=%d count=%ld epot=%.6Le efrc=%.6Le cpot=%.17Le", int(finite), count, epot, efrc, csum);
        return std::string(buf);
    });
}
