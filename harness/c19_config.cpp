// C19: one documented template configuration per translation unit.
//   -DDIM=1..4 -DREALT=float|double -DDATAT=float|double -DORDER=0 (Morton) | 1 (periodic Morton) | 2 (Hilbert, DIM=3)
//   -DNRHS=1|0 -DAUTOB=0|1 -DEXEC=0 (sequential) | 1 (OpenMP) | 2 (sequential target/source)
// Instantiates tree + executor + rebuild for that configuration and checks the exactly-once count (C01), the construction
// guarantees (C06) and rebuild (C13) with the shipped counting kernel.  Exit code 0 = all good; the first failure is printed.
#include "tbfglobal.hpp"
#include "spacial/tbfmortonspaceindex.hpp"
#include "spacial/tbfhilbertspaceindex.hpp"
#include "spacial/tbfspacialconfiguration.hpp"
#include "core/tbftree.hpp"
#include "core/tbftreetsm.hpp"
#include "kernels/testkernel/tbftestkernel.hpp"
#include "algorithms/sequential/tbfalgorithm.hpp"
#include "algorithms/sequential/tbfalgorithmtsm.hpp"
#if EXEC == 1
#include "algorithms/openmp/tbfopenmpalgorithm.hpp"
#endif
#include <cstdio>
#include <cstring>
#include <vector>
#include <memory>

using Real = REALT;
using Data = DATAT;
constexpr long D = DIM;
using Conf = TbfSpacialConfiguration<Real, D>;
#if ORDER == 0
using Space = TbfMortonSpaceIndex<D, Conf, false>;
constexpr bool Per = false;
#elif ORDER == 1
using Space = TbfMortonSpaceIndex<D, Conf, true>;
constexpr bool Per = true;
#else
using Space = TbfHilbertSpaceIndex<D, Conf, false>;
constexpr bool Per = false;
#endif
constexpr long NData = D + 1;

// a kernel that does nothing (for the zero-result-values configuration)
template <class R, class S> struct NullKernel {
    explicit NullKernel(const TbfSpacialConfiguration<R, S::Dim>&){}
    template <class... A> void P2M(A&&...) const {}
    template <class... A> void M2M(A&&...) const {}
    template <class... A> void M2L(A&&...) const {}
    template <class... A> void L2L(A&&...) const {}
    template <class... A> void L2P(A&&...) const {}
    template <class... A> void P2P(A&&...) const {}
    template <class... A> void P2PTsm(A&&...) const {}
    template <class... A> void P2PInner(A&&...) const {}
};

static unsigned long lcg = 12345;
static double rnd(){ lcg = lcg * 6364136223846793005UL + 1442695040888963407UL; return double(lcg >> 11) / double(1UL << 53); }

static int fail(const char* what, long a = 0, long b = 0){ std::printf("FAIL %s (%ld, %ld)\n", what, a, b); return 1; }

int main(){
    const long H = (D >= 3 ? 4 : 5), N = 300;
    std::array<Real, D> w, ctr; for(long k = 0 ; k < D ; ++k){ w[k] = 1; ctr[k] = Real(0.5); }
    Conf conf(H, w, ctr);
    std::vector<std::array<Data, NData>> pos(N);
    for(auto& p : pos){ for(long k = 0 ; k < D ; ++k) p[k] = Data(rnd()); p[D] = Data(0.1) + Data(&p - pos.data()); }
    const long B = AUTOB ? -1 : 7;
    long expected = N - 1;
    if(Per){ expected = N; for(long k = 0 ; k < D ; ++k) expected *= 3; expected -= 1; }
#if EXEC == 2
    {
        using Tree = TbfTreeTsm<Real, Data, NData, long, 1, std::array<long,1>, std::array<long,1>, Space>;
        using Algo = TbfAlgorithmTsm<Real, TbfTestKernel<Real, Space>, Space>;
        std::vector<std::array<Data, NData>> tg(pos.begin(), pos.begin() + N / 3);
        Tree tree(conf, pos, tg, B, false);
        std::unique_ptr<Algo> algo(new Algo(conf, Per ? TbfDefaultLastLevelPeriodic : TbfDefaultLastLevel));
        algo->execute(tree);
        long bad = 0, cnt = 0;
        long expT = N; if(Per){ for(long k = 0 ; k < D ; ++k) expT *= 3; }
        tree.applyToAllLeavesTarget([&](auto&& h, const long*, auto&&, auto&& rhs){ for(long p = 0 ; p < h.nbParticles ; ++p){ cnt++; if(rhs[0][p] != expT) bad++; } });
        if(cnt != N / 3) return fail("target count", cnt, N / 3);
        if(bad) return fail("target/source exactly-once", bad, expT);
        tree.rebuild();
        std::printf("OK\n");
        return 0;
    }
#else
#if NRHS == 0
    using Tree = TbfTree<Real, Data, NData, long, 0, std::array<long,1>, std::array<long,1>, Space>;
    using Kernel = NullKernel<Real, Space>;
#else
    using Tree = TbfTree<Real, Data, NData, long, 1, std::array<long,1>, std::array<long,1>, Space>;
    using Kernel = TbfTestKernel<Real, Space>;
#endif
#if EXEC == 1
    using Algo = TbfOpenmpAlgorithm<Real, Kernel, Space>;
#else
    using Algo = TbfAlgorithm<Real, Kernel, Space>;
#endif
    Tree tree(conf, pos, B, false);
    // C06: every particle once, values bit-identical (after conversion to the data type)
    {
        std::vector<int> seen(N, 0); long bad = 0;
        tree.applyToAllLeaves([&](auto&& h, const long* idx, auto&& d, auto&&){
            for(long p = 0 ; p < h.nbParticles ; ++p){
                seen[idx[p]] += 1;
                for(long v = 0 ; v < NData ; ++v){ const Data e = Data(pos[idx[p]][v]); if(std::memcmp(&d[v][p], &e, sizeof(Data)) != 0) bad++; }
                if(h.spaceIndex != tree.getSpacialSystem().getIndexFromPosition(pos[idx[p]])) bad++;
            }
        });
        for(long i = 0 ; i < N ; ++i) if(seen[i] != 1) return fail("particle stored count", i, seen[i]);
        if(bad) return fail("stored data / leaf", bad);
    }
    std::unique_ptr<Algo> algo(new Algo(conf, Per ? TbfDefaultLastLevelPeriodic : TbfDefaultLastLevel));
    algo->execute(tree);
#if NRHS == 1
    {
        long bad = 0;
        tree.applyToAllLeaves([&](auto&& h, const long*, auto&&, auto&& rhs){ for(long p = 0 ; p < h.nbParticles ; ++p) if(rhs[0][p] != expected) bad++; });
        if(bad) return fail("exactly-once after execute", bad, expected);
    }
#endif
    // C13: move a third of the particles, rebuild, execute again
    tree.applyToAllLeaves([&](auto&& h, const long* idx, auto&& d, auto&&){
        for(long p = 0 ; p < h.nbParticles ; ++p) if(idx[p] % 3 == 0){ for(long k = 0 ; k < D ; ++k){ const Data np = Data(rnd()); d[k][p] = np; pos[idx[p]][k] = np; } }
    });
    tree.rebuild();
    {
        std::vector<int> seen(N, 0); long bad = 0;
        tree.applyToAllLeaves([&](auto&& h, const long* idx, auto&& d, auto&&){
            for(long p = 0 ; p < h.nbParticles ; ++p){
                seen[idx[p]] += 1;
                for(long v = 0 ; v < NData ; ++v){ const Data e = Data(pos[idx[p]][v]); if(std::memcmp(&d[v][p], &e, sizeof(Data)) != 0) bad++; }
                if(h.spaceIndex != tree.getSpacialSystem().getIndexFromPosition(pos[idx[p]])) bad++;
            }
        });
        for(long i = 0 ; i < N ; ++i) if(seen[i] != 1) return fail("after rebuild: particle stored count", i, seen[i]);
        if(bad) return fail("after rebuild: data / leaf", bad);
        long nz = 0;
        tree.applyToAllCells([&](long, auto&&, auto&& m, auto&& l){ if(m && m->get()[0] != 0) nz++; if(l && l->get()[0] != 0) nz++; });
        if(nz) return fail("after rebuild: cells not reset", nz);
    }
    algo->execute(tree);
#if NRHS == 1
    {
        long bad = 0;
        tree.applyToAllLeaves([&](auto&& h, const long*, auto&&, auto&& rhs){ for(long p = 0 ; p < h.nbParticles ; ++p) if(rhs[0][p] != 2 * expected) bad++; });
        if(bad) return fail("results after rebuild + second execute", bad, 2 * expected);
    }
#endif
    std::printf("OK\n");
    return 0;
#endif
}
