// Harness for tree construction / lookup / export / rebuild (C06, C07, C13, C16, C17).
// One command per line:
//   tree d per H B mode N  n_11..n_1d ... n_N1..n_Nd  [| query]...
// particle k has position n_kj / (16 * 2^(H-1)) in the unit box (exactly representable).
#include <thread>
#include "tbfglobal.hpp"
#include "spacial/tbfmortonspaceindex.hpp"
#include "spacial/tbfspacialconfiguration.hpp"
#include "core/tbftree.hpp"
#include "common.hpp"
#include <algorithm>
#include <cstring>
#include <map>

static std::string hexd(double v){ char b[64]; std::snprintf(b, sizeof b, "%a", v); return b; }

// a local-expansion type three times the size of the multipole type (C14: the three buffers of a cell group have different sizes)
struct Loc3 {
    long v = 0, a = 0, b = 0;
    bool operator!=(const Loc3& o) const { return v != o.v || a != o.a || b != o.b; }
    bool operator!=(long x) const { return v != x || a != 0 || b != 0; }
};
static constexpr long NX = 2;   // extra data values beyond the coordinates

template <class Tree>
std::string dump(const Tree& tree){
    std::string s = "H=" + std::to_string(tree.getHeight());
    for(long l = 0 ; l < tree.getHeight() ; ++l){
        s += " | L" + std::to_string(l) + ":";
        for(const auto& g : tree.getCellGroupsAtLevel(l)){
            s += " [" + std::to_string(g.getStartingSpacialIndex()) + " " + std::to_string(g.getEndingSpacialIndex()) + " " + std::to_string(g.getNbCells()) + ":";
            for(long k = 0 ; k < g.getNbCells() ; ++k) s += " " + std::to_string(g.getCellSpacialIndex(k));
            s += "]";
        }
    }
    s += " | P:";
    for(const auto& g : tree.getParticleGroups()){
        s += " [" + std::to_string(g.getStartingSpacialIndex()) + " " + std::to_string(g.getEndingSpacialIndex()) + " " + std::to_string(g.getNbLeaves()) + " " + std::to_string(g.getNbParticles()) + ":";
        for(long k = 0 ; k < g.getNbLeaves() ; ++k){
            const auto& h = g.getLeafSymbData(k);
            s += " (" + std::to_string(h.spaceIndex) + " " + std::to_string(h.nbParticles) + " " + std::to_string(h.offSet) + ":";
            std::vector<long> parts(g.getParticleIndexes(k), g.getParticleIndexes(k) + h.nbParticles);
            std::sort(parts.begin(), parts.end());
            for(long p : parts) s += " " + std::to_string(p);
            s += ")";
        }
        s += "]";
    }
    return s;
}

template <long D, bool Per>
std::string run_tree(const Cmd& c){
    using Conf = TbfSpacialConfiguration<double, D>;
    using Space = TbfMortonSpaceIndex<D, Conf, Per>;
    constexpr long ND = D + NX;
    // result values per particle: 2 in even dimensions, MORE than the data values in odd dimensions (both orders of the two counts occur)
    constexpr long NR = (D % 2 == 1) ? ND + 2 : 2;
    using LocT = std::conditional_t<(D % 2 == 1), Loc3, long>;     // odd dimensions: multipole 8 bytes, local 24 bytes
    using Tree = TbfTree<double, double, ND, long, NR, long, LocT, Space>;
    bool rhs_set = false;
    auto xrhs = [&](long v, long i) -> long { return rhs_set ? 5000 * v + 13 * i + v : 0; };   // expected value of result row v >= 2
    const long H = c.L(3), B = c.L(4), mode = c.L(5), N = c.L(6);
    std::array<double, D> w, ctr; for(long k = 0 ; k < D ; ++k){ w[k] = 1; ctr[k] = 0.5; }
    Conf conf(H, w, ctr);
    const double scale = 16.0 * double(1L << (H-1));
    std::vector<std::array<double, ND>> pos(N);
    size_t a = 7;
    for(long i = 0 ; i < N ; ++i){
        for(long k = 0 ; k < D ; ++k) pos[i][k] = double(c.L(a++)) / scale;
        for(long e = 0 ; e < NX ; ++e) pos[i][D+e] = double(i) * 10 + double(e) + 0.25;
    }
    // B < 0: the automatic block size (the constructor's default argument -1); -B = the hardware concurrency the case was made for
    Tree tree(conf, pos, B < 0 ? -1 : B, mode != 0);
    std::string out = dump(tree);
    auto cur = pos;   // current data per original index (positions edited by mv)
    // queries
    while(a < c.size()){
        if(c.tok[a] != "|") return out + " || ?syntax";
        ++a;
        const std::string q = c.tok[a++];
        out += " || ";
        if(q == "fc"){
            const long l = c.L(a++), i = c.L(a++);
            auto r = tree.findGroupWithCell(l, i);
            if(r){ const long g = long(&(r->first.get()) - tree.getCellGroupsAtLevel(l).data()); out += std::to_string(g) + " " + std::to_string(r->second); }
            else out += "none";
        }
        else if(q == "fl"){
            const long i = c.L(a++);
            auto r = tree.findGroupWithLeaf(i);
            if(r){ const long g = long(&(r->first.get()) - tree.getParticleGroups().data()); out += std::to_string(g) + " " + std::to_string(r->second); }
            else out += "none";
        }
        else if(q == "ei" || q == "ep"){
            const long l = c.L(a++), g = c.L(a++), i = c.L(a++);
            const auto& grp = tree.getCellGroupsAtLevel(l).at(g);
            auto r = (q == "ei") ? grp.getElementFromSpacialIndex(i) : grp.getElementFromParentIndex(tree.getSpacialSystem(), i);
            out += r ? std::to_string(*r) : std::string("none");
        }
        else if(q == "li"){
            const long g = c.L(a++), i = c.L(a++);
            auto r = tree.getParticleGroups().at(g).getElementFromSpacialIndex(i);
            out += r ? std::to_string(*r) : std::string("none");
        }
        else if(q == "data"){
            // every stored particle: original index, its leaf index, all data values (bit patterns)
            std::map<long, std::string> rows;
            long dup = 0;
            tree.applyToAllLeaves([&](auto&& h, const long* idx, const std::array<double*, ND> d, const std::array<long*, NR> rhs){
                for(long p = 0 ; p < h.nbParticles ; ++p){
                    std::string r = std::to_string(h.spaceIndex);
                    for(long v = 0 ; v < ND ; ++v) r += ":" + hexd(d[v][p]);
                    r += ":r" + std::to_string(rhs[0][p]) + "," + std::to_string(rhs[1][p]);
                    for(long v = 2 ; v < NR ; ++v) if(rhs[v][p] != xrhs(v, idx[p])) r += ",row" + std::to_string(v) + "is" + std::to_string(rhs[v][p]) + "not" + std::to_string(xrhs(v, idx[p]));
                    if(rows.count(idx[p])) dup += 1;
                    rows[idx[p]] = r;
                }
            });
            out += "dup=" + std::to_string(dup);
            for(auto& kv : rows) out += " " + std::to_string(kv.first) + "=" + kv.second;
        }
        else if(q == "zero"){
            long nz = 0;
            tree.applyToAllCells([&](long, auto&&, auto&& m, auto&& l){ if(m && m->get() != 0) nz++; if(l && l->get() != 0) nz++; });
            out += "nonzero=" + std::to_string(nz);
        }
        else if(q == "setrhs"){
            // give every particle recognisable result values (as an executor would have accumulated)
            tree.applyToAllLeaves([&](auto&& h, const long* idx, auto&&, auto&& rhs){
                for(long p = 0 ; p < h.nbParticles ; ++p){
                    rhs[0][p] = 1000 + 7 * idx[p]; rhs[1][p] = -3 - 11 * idx[p];
                    for(long v = 2 ; v < NR ; ++v) rhs[v][p] = 5000 * v + 13 * idx[p] + v;
                }
            });
            rhs_set = true;
            out += "ok";
        }
        else if(q == "export"){
            // getAllParticlesData / getAllParticlesRhs: entry i must hold the values of the particle inserted at position i
            auto data = tree.getAllParticlesData();
            auto rhs = tree.getAllParticlesRhs();
            out += "E";
            long bad = 0;
            for(long i = 0 ; i < N ; ++i){
                // which original particle's data / results ended up in slot i (decoded from the first extra value / first result)
                const double x0 = (data[i][D] - 0.25) / 10.0;
                const long od = (x0 >= 0 && x0 < double(N) && double(long(x0)) == x0) ? long(x0) : -1;
                const long r0 = rhs[i][0] - 1000;
                const long orr = (r0 >= 0 && r0 % 7 == 0 && r0 / 7 < N) ? r0 / 7 : -1;
                out += " " + std::to_string(i) + "=" + std::to_string(od) + ":" + std::to_string(orr);
                for(long v = 0 ; v < ND ; ++v) if(std::memcmp(&data[i][v], &cur[i][v], sizeof(double)) != 0) bad += 1;
                if(rhs[i][0] != 1000 + 7 * i || rhs[i][1] != -3 - 11 * i) bad += 1;
                for(long v = 2 ; v < NR ; ++v) if(rhs[i][v] != xrhs(v, i)) bad += 1;
            }
            out += " bad=" + std::to_string(bad);
        }
        else if(q == "mv"){
            // edit in place the stored position of the particle whose original index is k
            const long k = c.L(a++);
            std::array<double, D> np; for(long j = 0 ; j < D ; ++j) np[j] = double(c.L(a++)) / scale;
            long found = 0;
            tree.applyToAllLeaves([&](auto&& h, const long* idx, auto&& d, auto&&){
                for(long p = 0 ; p < h.nbParticles ; ++p) if(idx[p] == k){ for(long j = 0 ; j < D ; ++j){ d[j][p] = np[j]; cur[k][j] = np[j]; } found += 1; }
            });
            out += "moved=" + std::to_string(found);
        }
        else if(q == "rebuild"){
            tree.rebuild();
            out += dump(tree);
        }
        else if(q == "cv"){
            // C14: copy the bytes of every group's buffers elsewhere, view the copies through the raw-memory
            // constructors, compare every accessor
            long bad = 0, ngroups = 0;
            for(long l = 0 ; l < tree.getHeight() ; ++l){
                for(auto& g : tree.getCellGroupsAtLevel(l)){
                    auto ps = g.getDataPtrsAndSizes();
                    std::vector<std::vector<unsigned char>> copies;
                    std::array<std::pair<unsigned char*, size_t>, 3> np;
                    for(int k = 0 ; k < 3 ; ++k){ copies.emplace_back(ps[k].first, ps[k].first + ps[k].second); }
                    for(int k = 0 ; k < 3 ; ++k){ np[k] = {copies[k].data(), copies[k].size()}; }
                    typename Tree::CellGroupClass view(np);
                    ngroups += 1;
                    if(view.getNbCells() != g.getNbCells() || view.getStartingSpacialIndex() != g.getStartingSpacialIndex()
                       || view.getEndingSpacialIndex() != g.getEndingSpacialIndex()) { bad += 1; continue; }
                    for(long k = 0 ; k < g.getNbCells() ; ++k){
                        if(view.getCellSpacialIndex(k) != g.getCellSpacialIndex(k) || view.getCellBoxCoord(k) != g.getCellBoxCoord(k)
                           || view.getCellMultipole(k) != g.getCellMultipole(k) || view.getCellLocal(k) != g.getCellLocal(k)) bad += 1;
                        if((unsigned char*)&view.getCellMultipole(k) - np[1].first != (unsigned char*)&g.getCellMultipole(k) - ps[1].first) bad += 1;
                        if(view.getElementFromSpacialIndex(g.getCellSpacialIndex(k)) != g.getElementFromSpacialIndex(g.getCellSpacialIndex(k))) bad += 1;
                    }
                }
            }
            for(auto& g : tree.getParticleGroups()){
                auto ps = g.getDataPtrsAndSizes();
                std::vector<std::vector<unsigned char>> copies;
                std::array<std::pair<unsigned char*, size_t>, 2> np;
                for(int k = 0 ; k < 2 ; ++k){ copies.emplace_back(ps[k].first, ps[k].first + ps[k].second); }
                for(int k = 0 ; k < 2 ; ++k){ np[k] = {copies[k].data(), copies[k].size()}; }
                typename Tree::LeafGroupClass view(np);
                ngroups += 1;
                if(view.getNbLeaves() != g.getNbLeaves() || view.getNbParticles() != g.getNbParticles()){ bad += 1; continue; }
                for(long k = 0 ; k < g.getNbLeaves() ; ++k){
                    if(view.getLeafSpacialIndex(k) != g.getLeafSpacialIndex(k) || view.getNbParticlesInLeaf(k) != g.getNbParticlesInLeaf(k)
                       || view.getLeafBoxCoord(k) != g.getLeafBoxCoord(k)) { bad += 1; continue; }
                    auto d0 = g.getParticleData(k); auto d1 = view.getParticleData(k);
                    auto r0 = g.getParticleRhs(k); auto r1 = view.getParticleRhs(k);
                    for(long p = 0 ; p < g.getNbParticlesInLeaf(k) ; ++p){
                        if(view.getParticleIndexes(k)[p] != g.getParticleIndexes(k)[p]) bad += 1;
                        for(long v = 0 ; v < ND ; ++v) if(std::memcmp(&d0[v][p], &d1[v][p], sizeof(double)) != 0) bad += 1;
                        for(long v = 0 ; v < NR ; ++v) if(r0[v][p] != r1[v][p]) bad += 1;
                    }
                    for(long v = 0 ; v < ND ; ++v) if((unsigned char*)d1[v] - np[0].first != (unsigned char*)d0[v] - ps[0].first) bad += 1;
                }
            }
            out += "groups=" + std::to_string(ngroups) + " bad=" + std::to_string(bad);
        }
        else return out + "?query " + q;
    }
    return out;
}

int main(int argc, char** argv){
    return run_commands(argc, argv, [](const Cmd& c) -> std::string {
        if(c.tok[0] == "hc") return std::to_string(std::thread::hardware_concurrency());
        if(c.tok[0] != "tree") return "?unknown";
        const long d = c.L(1); const bool per = c.L(2) != 0;
        switch(d*2 + (per?1:0)){
        case 2: return run_tree<1,false>(c);
        case 3: return run_tree<1,true>(c);
        case 4: return run_tree<2,false>(c);
        case 5: return run_tree<2,true>(c);
        case 6: return run_tree<3,false>(c);
        case 7: return run_tree<3,true>(c);
        case 8: return run_tree<4,false>(c);
        case 9: return run_tree<4,true>(c);
        }
        return "?dim";
    });
}
