// empty stub: only used with g++ -E to inspect which classes the selector header pulls in
