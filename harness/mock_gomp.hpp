// Replacement for the libgomp entry points used by g++'s lowering of the OpenMP constructs in tbfmm
// (parallel / master / task depend(...) priority(...) / taskwait).  Linked into the harness binary so that these
// definitions take precedence over libgomp's.  Every task is recorded (function, copied argument block, dependence
// addresses, priority) and executed later in an order chosen by a seeded scheduler among the linear extensions of the
// dependence order, on a scheduler-chosen worker id.
#ifndef VERIF_MOCK_GOMP_HPP
#define VERIF_MOCK_GOMP_HPP
#include <cstring>
#include <cstdlib>
#include <cstdint>
#include <string>
#include <algorithm>

#include "mock_sched.hpp"

extern "C" {
int omp_get_thread_num(void) noexcept { return mock_rt().in_task ? mock_rt().current_worker : 0; }
int omp_get_num_threads(void) noexcept { return mock_rt().nthreads; }
int omp_get_max_threads(void) noexcept { return mock_rt().nthreads; }
int omp_in_parallel(void) noexcept { return 1; }

void GOMP_parallel(void (*fn)(void*), void* data, unsigned /*num_threads*/, unsigned /*flags*/){
    fn(data);                 // the master executes the region body
    mock_rt().drain();        // implicit barrier: all tasks complete
}
void GOMP_taskwait(void){ mock_rt().drain(); }
void GOMP_barrier(void){ mock_rt().drain(); }

void GOMP_task(void (*fn)(void*), void* data, void (*cpyfn)(void*, void*), long arg_size, long arg_align,
               bool /*if_clause*/, unsigned /*flags*/, void** depend, int priority, void* /*detach*/){
    MockRuntime& rt = mock_rt();
    MockTask t;
    t.priority = priority;
    // copy the argument block exactly as libgomp does (cpyfn runs the firstprivate copy constructors)
    void* raw = std::malloc(size_t(arg_size + arg_align));
    void* blk = (void*)(((uintptr_t)raw + uintptr_t(arg_align) - 1) & ~(uintptr_t(arg_align) - 1));
    if(cpyfn) cpyfn(blk, data); else std::memcpy(blk, data, size_t(arg_size));
    t.run = [fn, blk](){ fn(blk); };
    t.cleanup = [raw](){ std::free(raw); };
    if(depend){
        size_t n, nout, nmtx = 0, nin, base;
        if(depend[0] != nullptr){ n = (size_t)(uintptr_t)depend[0]; nout = (size_t)(uintptr_t)depend[1]; nin = n - nout; base = 2; }
        else { n = (size_t)(uintptr_t)depend[1]; nout = (size_t)(uintptr_t)depend[2]; nmtx = (size_t)(uintptr_t)depend[3]; nin = (size_t)(uintptr_t)depend[4]; base = 5; }
        for(size_t k = 0 ; k < nout ; ++k) t.deps.push_back({depend[base + k], 1});
        for(size_t k = 0 ; k < nmtx ; ++k) t.deps.push_back({depend[base + nout + k], 2});
        for(size_t k = 0 ; k < nin ; ++k) t.deps.push_back({depend[base + nout + nmtx + k], 0});
        (void)n;
    }
    rt.submit(std::move(t));
}
}
#endif
