// Replacement for the libgomp entry points used by g++'s lowering of the OpenMP constructs in tbfmm
// (parallel / master / task depend(...) priority(...) / taskwait).  Linked into the harness binary so that these
// definitions take precedence over libgomp's.  Every task is recorded (function, copied argument block, dependence
// addresses, priority) and executed later in an order chosen by a seeded scheduler among the linear extensions of the
// dependence order, on a scheduler-chosen worker id.
#ifndef VERIF_MOCK_GOMP_HPP
#define VERIF_MOCK_GOMP_HPP
#include <vector>
#include <map>
#include <set>
#include <cstring>
#include <cstdlib>
#include <cstdint>
#include <string>
#include <algorithm>

struct MockTask {
    void (*fn)(void*);
    void* data; void* raw;
    std::vector<std::pair<void*, int>> deps;   // (address, kind) kind: 0 = in, 1 = out/inout, 2 = mutexinoutset
    int priority;
    long seq;
    std::set<long> preds;
    bool done = false;
    int worker = 0;
};

struct MockRuntime {
    enum Policy { IMMEDIATE = 0, FIFO = 1, LIFO = 2, RANDOM = 3, PRIO_INV = 4, PRIO = 5 };
    Policy policy = FIFO;
    int nthreads = 4;
    unsigned long rng = 88172645463325252UL;
    std::vector<MockTask> tasks;          // pending + done of the current region
    std::vector<MockTask> history;        // everything executed (for reporting)
    std::vector<long> exec_order;         // seq numbers in execution order
    int current_worker = 0;
    bool in_task = false;
    long seq = 0;
    void (*on_task_start)(long) = nullptr;
    // dependence bookkeeping like libgomp: per address, last writers and readers since
    std::map<void*, std::vector<long>> last_out, readers;
    unsigned long next(){ rng ^= rng << 13; rng ^= rng >> 7; rng ^= rng << 17; return rng; }
    void reset(Policy p, int T, unsigned long seed){ policy = p; nthreads = T; rng = seed * 2654435761UL + 88172645463325252UL; tasks.clear(); history.clear(); exec_order.clear(); last_out.clear(); readers.clear(); seq = 0; current_worker = 0; in_task = false; }
    void run_task(MockTask& t){
        const int saved = current_worker; const bool savedin = in_task;
        t.worker = int(next() % (unsigned long)nthreads);
        current_worker = t.worker; in_task = true;
        if(on_task_start) on_task_start(t.seq);
        t.fn(t.data);
        current_worker = saved; in_task = savedin;
        t.done = true;
        exec_order.push_back(t.seq);
    }
    void drain(){
        // execute all pending tasks in a policy-chosen linear extension of the dependence order
        while(true){
            std::vector<size_t> ready;
            for(size_t k = 0 ; k < tasks.size() ; ++k){
                if(tasks[k].done) continue;
                bool ok = true;
                for(long p : tasks[k].preds){ for(auto& o : tasks) if(o.seq == p && !o.done){ ok = false; break; } if(!ok) break; }
                if(ok) ready.push_back(k);
            }
            if(ready.empty()) break;
            size_t pick = ready[0];
            switch(policy){
            case LIFO: pick = ready.back(); break;
            case RANDOM: pick = ready[next() % ready.size()]; break;
            case PRIO_INV: for(size_t r : ready) if(tasks[r].priority < tasks[pick].priority) pick = r; break;
            case PRIO: for(size_t r : ready) if(tasks[r].priority > tasks[pick].priority) pick = r; break;
            default: break;
            }
            run_task(tasks[pick]);
        }
        for(auto& t : tasks){ history.push_back(t); std::free(t.raw); }
        tasks.clear();
    }
};

inline MockRuntime& mock_rt(){ static MockRuntime rt; return rt; }

extern "C" {
int omp_get_thread_num(void) noexcept { return mock_rt().in_task ? mock_rt().current_worker : 0; }
int omp_get_num_threads(void) noexcept { return mock_rt().nthreads; }
int omp_get_max_threads(void) noexcept { return mock_rt().nthreads; }
int omp_in_parallel(void) noexcept { return 1; }

void GOMP_parallel(void (*fn)(void*), void* data, unsigned /*num_threads*/, unsigned /*flags*/){
    fn(data);                 // the master executes the region body
    mock_rt().drain();        // implicit barrier: all tasks complete
}
void GOMP_taskwait(void){ mock_rt().drain(); }
void GOMP_barrier(void){ mock_rt().drain(); }

void GOMP_task(void (*fn)(void*), void* data, void (*cpyfn)(void*, void*), long arg_size, long arg_align,
               bool /*if_clause*/, unsigned /*flags*/, void** depend, int priority, void* /*detach*/){
    MockRuntime& rt = mock_rt();
    MockTask t;
    t.fn = fn; t.priority = priority; t.seq = rt.seq++;
    // copy the argument block exactly as libgomp does (cpyfn runs the firstprivate copy constructors)
    t.raw = std::malloc(size_t(arg_size + arg_align));
    t.data = (void*)(((uintptr_t)t.raw + uintptr_t(arg_align) - 1) & ~(uintptr_t(arg_align) - 1));
    if(cpyfn) cpyfn(t.data, data); else std::memcpy(t.data, data, size_t(arg_size));
    if(depend){
        size_t n, nout, nmtx = 0, nin, base;
        if(depend[0] != nullptr){ n = (size_t)(uintptr_t)depend[0]; nout = (size_t)(uintptr_t)depend[1]; nin = n - nout; base = 2; }
        else { n = (size_t)(uintptr_t)depend[1]; nout = (size_t)(uintptr_t)depend[2]; nmtx = (size_t)(uintptr_t)depend[3]; nin = (size_t)(uintptr_t)depend[4]; base = 5; }
        for(size_t k = 0 ; k < nout ; ++k) t.deps.push_back({depend[base + k], 1});
        for(size_t k = 0 ; k < nmtx ; ++k) t.deps.push_back({depend[base + nout + k], 2});
        for(size_t k = 0 ; k < nin ; ++k) t.deps.push_back({depend[base + nout + nmtx + k], 0});
        (void)n;
    }
    // dependence edges (OpenMP 4.5 semantics; mutexinoutset treated as inout = the strongest legal reading for ordering,
    // mutual exclusion holds trivially because tasks run one at a time)
    for(auto& d : t.deps){
        if(d.second == 0){
            for(long w : rt.last_out[d.first]) t.preds.insert(w);
            rt.readers[d.first].push_back(t.seq);
        }
    }
    for(auto& d : t.deps){
        if(d.second != 0){
            for(long w : rt.last_out[d.first]) t.preds.insert(w);
            for(long r : rt.readers[d.first]) if(r != t.seq) t.preds.insert(r);
        }
    }
    for(auto& d : t.deps){
        if(d.second != 0){ rt.last_out[d.first] = {t.seq}; rt.readers[d.first].clear(); }
    }
    rt.tasks.push_back(t);
    if(rt.policy == MockRuntime::IMMEDIATE) rt.drain();
}
}
#endif
