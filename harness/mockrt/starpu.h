// API-compatible mock of the part of StarPU that tbfmm uses: codelets, variable data handles, starpu_insert_task with
// STARPU_VALUE / STARPU_PRIORITY / STARPU_NAME / access modes, starpu_codelet_unpack_args, worker ids, wait/acquire/unregister.
// Tasks are deferred and run by harness/mock_sched.hpp in a seeded linear extension of the dependence order implied by the
// declared access modes (R = read, W/RW = write, RW|COMMUTE = commute).
#ifndef VERIF_MOCK_STARPU_H
#define VERIF_MOCK_STARPU_H
#include <cstdarg>
#include <cstdint>
#include <cstring>
#include <cstdlib>
#include <cstdio>
#include <pthread.h>
#include <vector>
#include <memory>
#include "mock_sched.hpp"

#define STARPU_MAXIMPLEMENTATIONS 4
#define STARPU_NMAXBUFS 8
#define STARPU_MAIN_RAM 0

enum starpu_data_access_mode { STARPU_NONE = 0, STARPU_R = 1, STARPU_W = 2, STARPU_RW = 3, STARPU_SCRATCH = 4, STARPU_REDUX = 8, STARPU_COMMUTE = 16 };
#define STARPU_MODE_SHIFT 17
#define STARPU_VALUE     (1 << STARPU_MODE_SHIFT)
#define STARPU_PRIORITY  (6 << STARPU_MODE_SHIFT)
#define STARPU_NAME      (17 << STARPU_MODE_SHIFT)
#define STARPU_CPU  (1u << 1)
#define STARPU_CUDA (1u << 3)
enum starpu_worker_archtype { STARPU_CPU_WORKER = 0, STARPU_CUDA_WORKER = 1 };
enum starpu_perfmodel_type { STARPU_PERFMODEL_INVALID = 0, STARPU_PER_ARCH, STARPU_COMMON, STARPU_HISTORY_BASED, STARPU_REGRESSION_BASED };

struct starpu_perfmodel { starpu_perfmodel_type type; const char* symbol; };
typedef void (*starpu_cpu_func_t)(void**, void*);
struct starpu_codelet {
    uint32_t where;
    starpu_cpu_func_t cpu_funcs[STARPU_MAXIMPLEMENTATIONS];
    int nbuffers;
    starpu_data_access_mode modes[STARPU_NMAXBUFS];
    const char* name;
    starpu_perfmodel* model;
};

struct starpu_variable_interface { uintptr_t ptr; size_t elemsize; };
struct mock_starpu_handle { starpu_variable_interface itf; bool registered; };
typedef mock_starpu_handle* starpu_data_handle_t;
#define STARPU_VARIABLE_GET_PTR(x) (((starpu_variable_interface*)(x))->ptr)
#define STARPU_VARIABLE_GET_ELEMSIZE(x) (((starpu_variable_interface*)(x))->elemsize)

[[noreturn]] inline void mock_starpu_fail(const char* what){
    std::fprintf(stderr, "mock-starpu: %s\n", what); std::fflush(stderr); std::abort();
}

inline int starpu_init(void*){ return 0; }
inline void starpu_shutdown(){ mock_rt().drain(); }
inline void starpu_pause(){}
inline void starpu_resume(){}
inline int starpu_worker_get_id(){ return mock_rt().in_task ? mock_rt().current_worker : -1; }
inline unsigned starpu_worker_get_count(){ return unsigned(mock_rt().nthreads); }
inline unsigned starpu_cpu_worker_get_count(){ return unsigned(mock_rt().nthreads); }
inline int starpu_worker_get_count_by_type(starpu_worker_archtype t){ return t == STARPU_CPU_WORKER ? mock_rt().nthreads : 0; }
inline void starpu_execute_on_each_worker(void (*func)(void*), void* arg, uint32_t where){
    if(!(where & STARPU_CPU)) return;
    MockRuntime& rt = mock_rt();
    const int saved = rt.current_worker; const bool savedin = rt.in_task;
    for(int w = 0 ; w < rt.nthreads ; ++w){ rt.current_worker = w; rt.in_task = true; func(arg); }
    rt.current_worker = saved; rt.in_task = savedin;
}
inline void starpu_variable_data_register(starpu_data_handle_t* h, int /*home_node*/, uintptr_t ptr, size_t size){
    *h = new mock_starpu_handle{ {ptr, size}, true };
}
inline int starpu_data_acquire(starpu_data_handle_t h, starpu_data_access_mode){ if(!h || !h->registered) mock_starpu_fail("acquire of an unregistered handle"); mock_rt().drain(); return 0; }
inline void starpu_data_release(starpu_data_handle_t h){ if(!h || !h->registered) mock_starpu_fail("release of an unregistered handle"); }
inline void starpu_data_unregister(starpu_data_handle_t h){
    if(!h || !h->registered) mock_starpu_fail("unregister of an unregistered handle");
    mock_rt().drain(); h->registered = false; delete h;
}
inline int starpu_task_wait_for_all(){ mock_rt().drain(); return 0; }

// packed arguments: [size_t n] then n x ([size_t size][bytes])
inline void starpu_codelet_unpack_args(void* cl_arg, ...){
    const unsigned char* p = static_cast<const unsigned char*>(cl_arg);
    size_t n; std::memcpy(&n, p, sizeof(size_t)); p += sizeof(size_t);
    va_list ap; va_start(ap, cl_arg);
    for(size_t k = 0 ; k < n ; ++k){
        size_t sz; std::memcpy(&sz, p, sizeof(size_t)); p += sizeof(size_t);
        void* dst = va_arg(ap, void*);
        std::memcpy(dst, p, sz); p += sz;
    }
    va_end(ap);
}

inline int starpu_insert_task(starpu_codelet* cl, ...){
    std::vector<unsigned char> packed(sizeof(size_t), 0);
    size_t nvalues = 0;
    std::vector<std::pair<starpu_data_handle_t, int>> handles;
    MockTask t;
    va_list ap; va_start(ap, cl);
    while(true){
        const int arg = va_arg(ap, int);
        if(arg == 0) break;
        if(arg == STARPU_VALUE){
            const void* ptr = va_arg(ap, void*); const size_t sz = va_arg(ap, size_t);
            const size_t at = packed.size(); packed.resize(at + sizeof(size_t) + sz);
            std::memcpy(&packed[at], &sz, sizeof(size_t)); std::memcpy(&packed[at + sizeof(size_t)], ptr, sz);
            nvalues += 1;
        }
        else if(arg == STARPU_PRIORITY){ t.priority = va_arg(ap, int); }
        else if(arg == STARPU_NAME){ t.name = va_arg(ap, const char*); }
        else if(arg & (STARPU_R | STARPU_W)){
            if(arg & ~(STARPU_RW | STARPU_COMMUTE)) mock_starpu_fail("unsupported access mode");
            handles.push_back({va_arg(ap, starpu_data_handle_t), arg});
        }
        else mock_starpu_fail("unknown starpu_insert_task argument");
    }
    va_end(ap);
    std::memcpy(&packed[0], &nvalues, sizeof(size_t));
    if(!(cl->where & STARPU_CPU) || !cl->cpu_funcs[0]) mock_starpu_fail("codelet without a CPU implementation");
    if(int(handles.size()) != cl->nbuffers) mock_starpu_fail("number of data handles differs from codelet.nbuffers");
    auto itfs = std::make_shared<std::vector<starpu_variable_interface>>();
    for(size_t k = 0 ; k < handles.size() ; ++k){
        if(!handles[k].first || !handles[k].first->registered) mock_starpu_fail("task uses an unregistered handle");
        if(int(cl->modes[k]) != handles[k].second) mock_starpu_fail("access mode differs from codelet.modes");
        itfs->push_back(handles[k].first->itf);
        const int m = handles[k].second;
        t.deps.push_back({(void*)handles[k].first->itf.ptr, (m & STARPU_COMMUTE) ? 2 : ((m & STARPU_W) ? 1 : 0)});
    }
    auto args = std::make_shared<std::vector<unsigned char>>(std::move(packed));
    starpu_cpu_func_t fn = cl->cpu_funcs[0];
    t.run = [fn, itfs, args](){
        std::vector<void*> buffers;
        for(auto& i : *itfs) buffers.push_back(&i);
        fn(buffers.data(), args->data());
    };
    mock_rt().submit(std::move(t));
    return 0;
}
#define starpu_task_insert starpu_insert_task
#endif
