// API-compatible mock of the part of Specx that tbfmm uses (Legacy/SpRuntime.hpp): SpComputeEngine, SpWorkerTeamBuilder,
// SpTaskGraph<SP_NO_SPEC>::task(SpPriority, SpRead/SpWrite/SpCommutativeWrite..., callable), waitAllTasks, SpUtils.
// Tasks are deferred (the callable is moved into the task, as Specx does) and run by harness/mock_sched.hpp.
#ifndef VERIF_MOCK_SPRUNTIME_HPP
#define VERIF_MOCK_SPRUNTIME_HPP
#include <memory>
#include <tuple>
#include <utility>
#include <type_traits>
#include "mock_sched.hpp"

enum class SpSpeculativeModel { SP_NO_SPEC, SP_MODEL_1, SP_MODEL_2, SP_MODEL_3 };

struct SpPriority { int value; explicit SpPriority(int v) : value(v) {} };

template <class T> struct SpReadDep  { const T* ptr; static constexpr int mode = 0; using Ref = const T&; };
template <class T> struct SpWriteDep { T* ptr; static constexpr int mode = 1; using Ref = T&; };
template <class T> struct SpCommuteDep { T* ptr; static constexpr int mode = 2; using Ref = T&; };

template <class T> SpReadDep<T> SpRead(const T& x){ return SpReadDep<T>{&x}; }
template <class T> SpWriteDep<T> SpWrite(T& x){ return SpWriteDep<T>{&x}; }
template <class T> SpCommuteDep<T> SpCommutativeWrite(T& x){ return SpCommuteDep<T>{&x}; }

struct SpUtils {
    static int GetThreadId(){ return mock_rt().in_task ? mock_rt().current_worker + 1 : 0; }   // workers are numbered from 1
    static int DefaultNumThreads(){ return mock_rt().nthreads; }
};

struct SpWorkerTeam { int nb; };
struct SpWorkerTeamBuilder {
    static SpWorkerTeam TeamOfCpuWorkers(){ return SpWorkerTeam{mock_rt().nthreads}; }
    static SpWorkerTeam TeamOfCpuWorkers(int n){ return SpWorkerTeam{n}; }
};

class SpComputeEngine {
    int nb; bool stopped = false;
public:
    explicit SpComputeEngine(SpWorkerTeam t) : nb(t.nb) {}
    int getNbCpuWorkers() const { return nb; }
    void stopIfNotAlreadyStopped(){ stopped = true; }
    ~SpComputeEngine(){}
};

template <SpSpeculativeModel M = SpSpeculativeModel::SP_NO_SPEC>
class SpTaskGraph {
    template <class Tuple, class F, size_t... I>
    static void call(F& f, Tuple& deps, std::index_sequence<I...>){
        f(static_cast<typename std::tuple_element<I, Tuple>::type::Ref>(*const_cast<typename std::remove_const<typename std::remove_pointer<decltype(std::get<I>(deps).ptr)>::type>::type*>(std::get<I>(deps).ptr))...);
    }
    template <class Tuple, size_t... I>
    static void fill(MockTask& t, Tuple& deps, std::index_sequence<I...>){
        (void)std::initializer_list<int>{ (t.deps.push_back({(void*)std::get<I>(deps).ptr, std::tuple_element<I, Tuple>::type::mode}), 0)... };
    }
    // splits "deps..., callable"
    template <size_t N, class... Args, size_t... I>
    void submit(int prio, std::tuple<Args...>&& all, std::index_sequence<I...>){
        using Callable = typename std::decay<typename std::tuple_element<N, std::tuple<Args...>>::type>::type;
        auto deps = std::make_tuple(std::get<I>(all)...);
        // the callable lives in the task (heap), not on the submitter's stack
        auto fptr = std::make_shared<Callable>(std::move(std::get<N>(all)));
        MockTask t; t.priority = prio;
        fill(t, deps, std::make_index_sequence<N>());
        t.run = [fptr, deps]() mutable { call(*fptr, deps, std::make_index_sequence<N>()); };
        t.cleanup = [fptr]() mutable { fptr.reset(); };
        mock_rt().submit(std::move(t));
    }
public:
    SpTaskGraph(){}
    void computeOn(SpComputeEngine&){}
    template <class... Args>
    void task(SpPriority p, Args&&... args){
        submit<sizeof...(Args) - 1>(p.value, std::tuple<typename std::decay<Args>::type...>(std::forward<Args>(args)...), std::make_index_sequence<sizeof...(Args) - 1>());
    }
    template <class A0, class... Args, typename = typename std::enable_if<!std::is_same<typename std::decay<A0>::type, SpPriority>::value>::type>
    void task(A0&& a0, Args&&... args){
        submit<sizeof...(Args)>(0, std::tuple<typename std::decay<A0>::type, typename std::decay<Args>::type...>(std::forward<A0>(a0), std::forward<Args>(args)...), std::make_index_sequence<sizeof...(Args)>());
    }
    void waitAllTasks(){ mock_rt().drain(); }
    ~SpTaskGraph(){ mock_rt().drain(); }
};
#endif
