// Harness for the direct P2P routines (C20): bit patterns in, bit patterns out.
//   p2p <64|32> <remote|mutual|inner> ns nt r0bits  <ns*4 source words x y z v> <nt*4 target words>
// every rhs accumulator starts at the value whose bit pattern is r0bits.
// output: target rhs (nt*4 words fx fy fz pot) [| source rhs (ns*4 words) for mutual]
#include "tbfglobal.hpp"
#include "kernels/P2P/FP2PR.hpp"
#include "common.hpp"
#include <cstring>
#include <cstdint>
#include <array>

template <class F, class U>
std::string run_p2p(const Cmd& c){
    const std::string routine = c.tok[2];
    const long ns = c.L(3), nt = c.L(4);
    auto fromBits = [](const std::string& s){ U u = (U)std::stoull(s); F f; std::memcpy(&f, &u, sizeof f); return f; };
    auto toBits = [](F f){ U u; std::memcpy(&u, &f, sizeof f); return std::to_string((unsigned long long)u); };
    const F r0 = fromBits(c.tok[5]);
    size_t a = 6;
    std::array<std::vector<F>, 4> sv, tv, sr, tr;
    for(int k = 0 ; k < 4 ; ++k){ sv[k].resize(ns + 1); tv[k].resize(nt + 1); sr[k].assign(ns + 1, r0); tr[k].assign(nt + 1, r0); }
    for(long i = 0 ; i < ns ; ++i) for(int k = 0 ; k < 4 ; ++k) sv[k][i] = fromBits(c.tok[a++]);
    for(long i = 0 ; i < nt ; ++i) for(int k = 0 ; k < 4 ; ++k) tv[k][i] = fromBits(c.tok[a++]);
    std::array<const F*, 4> svp{{sv[0].data(), sv[1].data(), sv[2].data(), sv[3].data()}};
    std::array<const F*, 4> tvp{{tv[0].data(), tv[1].data(), tv[2].data(), tv[3].data()}};
    std::array<F*, 4> srp{{sr[0].data(), sr[1].data(), sr[2].data(), sr[3].data()}};
    std::array<F*, 4> trp{{tr[0].data(), tr[1].data(), tr[2].data(), tr[3].data()}};
    if(routine == "remote") FP2PR::template GenericFullRemote<F>(svp, ns, tvp, trp, nt);
    else if(routine == "mutual") FP2PR::template FullMutual<F>(svp, srp, ns, tvp, trp, nt);
    else if(routine == "inner") FP2PR::template GenericInner<F>(tvp, trp, nt);
    else return "?routine";
    std::string out;
    for(long i = 0 ; i < nt ; ++i) for(int k = 0 ; k < 4 ; ++k) out += (out.empty() ? "" : " ") + toBits(tr[k][i]);
    if(routine == "mutual"){
        out += " |";
        for(long i = 0 ; i < ns ; ++i) for(int k = 0 ; k < 4 ; ++k) out += " " + toBits(sr[k][i]);
    }
    return out;
}

int main(int argc, char** argv){
    return run_commands(argc, argv, [](const Cmd& c) -> std::string {
        if(c.tok[0] != "p2p") return "?unknown";
        if(c.tok[1] == "64") return run_p2p<double, uint64_t>(c);
        if(c.tok[1] == "32") return run_p2p<float, uint32_t>(c);
        return "?fmt";
    });
}
