// Harness for the flat memory blocks (C14).
//   mem <layoutId> <nb> <kind>... <op>...      kind = S:sz | V:sz | R:sz:rows | C:sz:rows   (informational for C++)
//   ops: R n_1..n_nb (resetBlocksFromSizes) | M (move-construct into a new object, continue with it)
//        | A (move-assign into a default-constructed object) | V (copy bytes, view the copy, compare)
// output per op, separated by " || ":
//   R: alloc=<bytes> trailer=<2*nb words read from the raw bytes at the end of the allocation> acc=<b:i:row:offset ...>
//   V: items=<..> offs=<..> acc=<...> same=<0|1>
#include "tbfglobal.hpp"
#include "utils/tbfutils.hpp"
#include "containers/tbfmemoryblock.hpp"
#include "containers/tbfmemoryscalar.hpp"
#include "containers/tbfmemoryvector.hpp"
#include "containers/tbfmemorymultirvector.hpp"
#include "containers/tbfmemorymultivvector.hpp"
#include "common.hpp"
#include <cstring>
#include <algorithm>
#include <vector>
#include <memory>

template <int N> struct Blob { unsigned char b[N]; };

inline unsigned long vw(unsigned long z);
template <class T> void fill(T& item, unsigned long tag){
    unsigned char* p = reinterpret_cast<unsigned char*>(&item);
    for(size_t k = 0 ; k < sizeof(T) ; ++k) p[k] = (unsigned char)(vw(tag + k));
}
inline unsigned long vw(unsigned long z){ z += 0x9E3779B97F4A7C15UL; z = (z ^ (z >> 30)) * 0xBF58476D1CE4E5B9UL; z = (z ^ (z >> 27)) * 0x94D049BB133111EBUL; return z ^ (z >> 31); }

template <class T> unsigned long digest(const T& item){
    const unsigned char* p = reinterpret_cast<const unsigned char*>(&item);
    unsigned long h = 1469598103934665603UL; for(size_t k = 0 ; k < sizeof(T) ; ++k){ h ^= p[k]; h *= 1099511628211UL; } return h;
}

template <class T> struct rows_of { static constexpr long v = 1; };
template <long N> struct rows_of<TbfMemoryDim::Fixed<N>> { static constexpr long v = N; };
// visits sample elements of block IdxBlock of `blk`: f(blockIdx, i, row, reference)
template <class BlockT, class Mem, long IdxBlock, class F>
void visit_block(Mem& blk, F&& f){
    auto v = blk.template getViewerForBlock<IdxBlock>();
    using W = typename BlockT::Width; using Hh = typename BlockT::Height;
    if constexpr (std::is_same<W, TbfMemoryDim::Scalar>::value){
        f(IdxBlock, 0L, 0L, v.getItem());
    } else if constexpr (std::is_same<Hh, TbfMemoryDim::Scalar>::value){
        const long n = v.getNbItems();
        for(long i : {0L, n/2, n-1}) if(i >= 0 && i < n) f(IdxBlock, i, 0L, v.getItem(i));
    } else {
        const long n = v.getNbItems(); const long rows = rows_of<Hh>::v;
        for(long i : {0L, n/2, n-1}) for(long r : {0L, rows-1}) if(i >= 0 && i < n) f(IdxBlock, i, r, v.getItem(i, r));
    }
}

// visits EVERY element of block IdxBlock through the viewer: f(address)
template <class BlockT, class Mem, long IdxBlock, class F>
void visit_block_full(Mem& blk, F&& f){
    auto v = blk.template getViewerForBlock<IdxBlock>();
    using W = typename BlockT::Width; using Hh = typename BlockT::Height;
    if constexpr (std::is_same<W, TbfMemoryDim::Scalar>::value){
        f(reinterpret_cast<unsigned char*>(&v.getItem()));
    } else if constexpr (std::is_same<Hh, TbfMemoryDim::Scalar>::value){
        for(long i = 0 ; i < v.getNbItems() ; ++i) f(reinterpret_cast<unsigned char*>(&v.getItem(i)));
    } else {
        for(long i = 0 ; i < v.getNbItems() ; ++i) for(long r = 0 ; r < rows_of<Hh>::v ; ++r) f(reinterpret_cast<unsigned char*>(&v.getItem(i, r)));
    }
}
template <class Mem, class Tuple, size_t... Is, class F>
void visit_all_full(Mem& blk, std::index_sequence<Is...>, F&& f){
    (visit_block_full<typename std::tuple_element<Is, Tuple>::type, Mem, long(Is)>(blk, f), ...);
}

template <class Mem, class Tuple, size_t... Is, class F>
void visit_all(Mem& blk, std::index_sequence<Is...>, F&& f){
    (visit_block<typename std::tuple_element<Is, Tuple>::type, Mem, long(Is)>(blk, f), ...);
}

template <class... Blocks>
std::string run_mem(const Cmd& c, size_t a){
    using Mem = TbfMemoryBlock<Blocks...>;
    using Tuple = std::tuple<Blocks...>;
    constexpr long NB = sizeof...(Blocks);
    std::unique_ptr<Mem> blk(new Mem());
    std::string out;
    auto acc_string = [&](Mem& m, bool write, unsigned long salt, std::vector<unsigned long>* digests){
        std::string s;
        unsigned char* base = m.getPtr();
        visit_all<Mem, Tuple>(m, std::make_index_sequence<NB>(), [&](long b, long i, long r, auto& item){
            if(write) fill(item, salt + (unsigned long)(b * 1000003 + i * 1009 + r));
            if(digests) digests->push_back(digest(item));
            s += " " + std::to_string(b) + ":" + std::to_string(i) + ":" + std::to_string(r) + ":" + std::to_string(long(reinterpret_cast<unsigned char*>(&item) - base));
        });
        return s;
    };
    unsigned long salt = 1;
    std::array<long, NB> last; last.fill(1);
    const std::array<bool, NB> is_scalar_block{{ std::is_same<typename Blocks::Width, TbfMemoryDim::Scalar>::value... }};
    while(a < c.size()){
        const std::string op = c.tok[a++];
        if(!out.empty()) out += " || ";
        if(op == "R"){
            std::array<long, NB> sizes; for(long k = 0 ; k < NB ; ++k) sizes[k] = c.L(a++);
            blk->resetBlocksFromSizes(sizes); last = sizes;
            const long alloc = blk->getAllocatedMemorySizeInByte();
            out += "alloc=" + std::to_string(alloc) + " trailer=";
            for(long k = 0 ; k < 2*NB ; ++k){ long w; std::memcpy(&w, blk->getPtr() + alloc - 16*NB + 8*k, 8); out += (k ? "," : "") + std::to_string(w); }
            out += " acc=" + acc_string(*blk, true, ++salt, nullptr);
        }
        else if(op == "M"){ std::unique_ptr<Mem> nb(new Mem(std::move(*blk))); blk = std::move(nb); out += "moved alloc=" + std::to_string(blk->getAllocatedMemorySizeInByte()); }
        else if(op == "A"){ std::unique_ptr<Mem> nb(new Mem()); *nb = std::move(*blk); blk = std::move(nb); out += "moved alloc=" + std::to_string(blk->getAllocatedMemorySizeInByte()); }
        else if(op == "B" || op == "b"){
            // move-assign into an object that already owns a buffer of another size (B: larger, b: smaller)
            std::unique_ptr<Mem> nb(new Mem());
            std::array<long, NB> other;
            for(long k = 0 ; k < NB ; ++k) other[k] = (op == "B") ? last[k] * 3 + 40 : std::max(1L, last[k] / 3);
            for(long k = 0 ; k < NB ; ++k) if(last[k] == 1 && other[k] != 1 && is_scalar_block[k]) other[k] = 1;
            nb->resetBlocksFromSizes(other);
            *nb = std::move(*blk); blk = std::move(nb);
            out += "moved alloc=" + std::to_string(blk->getAllocatedMemorySizeInByte());
        }
        else if(op == "V"){
            const long alloc = blk->getAllocatedMemorySizeInByte();
            std::vector<unsigned char> copy(blk->getPtr(), blk->getPtr() + alloc);
            Mem view(copy.data(), alloc, true);
            std::vector<unsigned long> d0, d1;
            const std::string a0 = acc_string(*blk, false, 0, &d0);
            const std::string a1 = acc_string(view, false, 0, &d1);
            out += "view acc=" + a1 + " same=" + std::to_string(int(a0 == a1 && d0 == d1));
        }
        else if(op == "F"){
            // applyToAllElements must visit every element of every block exactly once (the same addresses as the viewers give)
            std::vector<long> got, exp;
            unsigned char* base = blk->getPtr();
            blk->applyToAllElements([&](auto& item){ got.push_back(long(reinterpret_cast<unsigned char*>(&item) - base)); });
            visit_all_full<Mem, Tuple>(*blk, std::make_index_sequence<NB>(), [&](unsigned char* p){ exp.push_back(long(p - base)); });
            std::sort(got.begin(), got.end()); std::sort(exp.begin(), exp.end());
            out += "each n=" + std::to_string(got.size()) + " same=" + std::to_string(int(got == exp));
        }
        else return out + "?op " + op;
    }
    return out;
}

using H24 = Blob<24>; using H32 = Blob<32>; using E40 = Blob<40>; using E12 = Blob<12>;
using E128 = Blob<128>; using E4096 = Blob<4096>; using E64 = Blob<64>; using E16 = Blob<16>;

int main(int argc, char** argv){
    return run_commands(argc, argv, [](const Cmd& c) -> std::string {
        if(c.tok[0] != "mem") return "?unknown";
        const long id = c.L(1); const long nb = c.L(2);
        const size_t a = 3 + nb;
        switch(id){
        case 0: return run_mem<TbfMemoryScalar<H24>, TbfMemoryVector<H32>>(c, a);
        case 1: return run_mem<TbfMemoryVector<long>>(c, a);
        case 2: return run_mem<TbfMemoryVector<char>>(c, a);
        case 3: return run_mem<TbfMemoryScalar<H32>, TbfMemoryVector<E40>, TbfMemoryVector<long>, TbfMemoryMultiRVector<double, 5>>(c, a);
        case 4: return run_mem<TbfMemoryMultiRVector<float, 3>>(c, a);
        case 5: return run_mem<TbfMemoryMultiRVector<E128, 2>>(c, a);
        case 6: return run_mem<TbfMemoryMultiVVector<double, 4>>(c, a);
        case 7: return run_mem<TbfMemoryMultiVVector<char, 7>, TbfMemoryVector<E12>>(c, a);
        case 8: return run_mem<TbfMemoryVector<E4096>, TbfMemoryScalar<char>>(c, a);
        case 9: return run_mem<TbfMemoryScalar<char>, TbfMemoryMultiVVector<short, 3>, TbfMemoryVector<E12>, TbfMemoryMultiRVector<E64, 2>>(c, a);
        case 10: return run_mem<TbfMemoryMultiRVector<E16, 1>, TbfMemoryMultiRVector<unsigned long, 1>>(c, a);
        }
        return "?layout";
    });
}
