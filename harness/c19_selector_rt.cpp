// C19: the algorithm selector header with the task runtimes enabled (-DTBF_USE_OPENMP / -DTBF_USE_SPECX / -DTBF_USE_STARPU in any
// combination, mock runtimes of harness/mockrt), included the way the examples include it, instantiated and RUN with the test
// kernel on a small tree (single tree and target/source): every particle must hold N-1 (resp. Ns).
#if defined(TBF_USE_SPECX)
#include "Legacy/SpRuntime.hpp"
#endif
#if defined(TBF_USE_STARPU)
#include "starpu.h"
#endif
#if defined(TBF_USE_OPENMP) && !defined(TBF_USE_STARPU)      // the selector then picks the OpenMP executors
#include "mock_gomp.hpp"
#endif
#include "mock_sched.hpp"
#include "tbfglobal.hpp"
#include "spacial/tbfmortonspaceindex.hpp"
#include "spacial/tbfspacialconfiguration.hpp"
#include "core/tbftree.hpp"
#include "core/tbftreetsm.hpp"
#include "kernels/testkernel/tbftestkernel.hpp"
#include "algorithms/tbfalgorithmselecter.hpp"
#include <cstdio>
#include <memory>

int main(){
    using Real = double; constexpr long Dim = 3;
    using Kernel = TbfTestKernel<Real>;
    using Algo = TbfAlgorithmSelecter::type<Real, Kernel>;
    using AlgoTsm = TbfAlgorithmSelecterTsm::type<Real, Kernel>;
    mock_rt().reset(MockRuntime::RANDOM, 4, 12345);
    TbfSpacialConfiguration<Real, Dim> conf(4, {{1, 1, 1}}, {{0.5, 0.5, 0.5}});
    const long N = 300;
    std::vector<std::array<Real, Dim>> pos(N), pos2(N / 2);
    unsigned long s = 88172645463325252UL;
    auto rnd = [&](){ s ^= s << 13; s ^= s >> 7; s ^= s << 17; return double(s >> 11) / double(1UL << 53); };
    for(auto& p : pos) for(auto& x : p) x = rnd();
    for(auto& p : pos2) for(auto& x : p) x = rnd();
    long bad = 0;
    {
        using Tree = TbfTree<Real, Real, Dim, long, 1, std::array<long, 1>, std::array<long, 1>>;
        Tree tree(conf, pos, 7, false);
        std::unique_ptr<Algo> algo(new Algo(conf));
        algo->execute(tree);
        tree.applyToAllLeaves([&](auto&& h, const long*, auto&&, auto&& rhs){ for(long p = 0 ; p < h.nbParticles ; ++p) if(rhs[0][p] != N - 1) bad += 1; });
    }
    {
        using Tree = TbfTreeTsm<Real, Real, Dim, long, 1, std::array<long, 1>, std::array<long, 1>>;
        Tree tree(conf, pos, pos2, 7, false);
        std::unique_ptr<AlgoTsm> algo(new AlgoTsm(conf));
        algo->execute(tree);
        tree.applyToAllLeavesTarget([&](auto&& h, const long*, auto&&, auto&& rhs){ for(long p = 0 ; p < h.nbParticles ; ++p) if(rhs[0][p] != N) bad += 1; });
    }
    std::printf(bad ? "FAIL %ld particles with a wrong count (%s)\n" : "OK %ld (%s)\n", bad, Algo::GetName());
    return bad ? 1 : 0;
}
