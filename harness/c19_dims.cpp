#include "tbfglobal.hpp"
#include "spacial/tbfmortonspaceindex.hpp"
#include "spacial/tbfspacialconfiguration.hpp"
#include "core/tbftree.hpp"
#include "core/tbftreetsm.hpp"
#include <vector>
template <long D> int go(){
    using Conf = TbfSpacialConfiguration<double, D>;
    using Space = TbfMortonSpaceIndex<D, Conf, false>;
    std::array<double,D> w, c; for(long k=0;k<D;++k){w[k]=1;c[k]=0.5;}
    Conf conf(3, w, c);
    std::vector<std::array<double,D>> pos(5); for(auto& p : pos) for(long k=0;k<D;++k) p[k]=0.3;
    TbfTree<double,double,D,long,1,long,long,Space> tree(conf, pos, -1, false);
    tree.rebuild();
    TbfTreeTsm<double,double,D,long,1,long,long,Space> tsm(conf, pos, pos, -1, false);
    tsm.rebuild();
    TbfParticlesContainer<double,double,D,long,1,Space> pc(Space(conf), pos);
    return (int)tree.getNbParticles() + (int)pc.getNbParticles();
}
int main(){ return go<DIM>() == 10 ? 0 : 1; }
