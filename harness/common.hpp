// Shared helpers of the C++ harnesses: command-file reader, canonical printing.
#ifndef VERIF_COMMON_HPP
#define VERIF_COMMON_HPP
#include <thread>
#include <cstdio>
#include <cstdlib>
#include <string>
#include <vector>
#include <sstream>
#include <fstream>
#include <iostream>

struct Cmd {
    std::vector<std::string> tok;
    long L(size_t i) const { return std::stol(tok.at(i)); }
    double D(size_t i) const { return std::strtod(tok.at(i).c_str(), nullptr); }
    size_t size() const { return tok.size(); }
};

// Runs f on every command line starting at line `skip` (0-based); prints a
// marker before each so that a crash can be attributed to a line.
template <class F>
int run_commands(int argc, char** argv, F&& f){
    if(argc < 2){ std::fprintf(stderr, "usage: %s casefile [skip]\n", argv[0]); return 2; }
    const long skip = (argc >= 3 ? std::atol(argv[2]) : 0);
    std::ifstream in(argv[1]);
    std::string line;
    long idx = 0;
    while(std::getline(in, line)){
        std::istringstream iss(line);
        Cmd c; std::string t;
        while(iss >> t) c.tok.push_back(t);
        if(c.tok.empty()) continue;
        if(idx >= skip){
            std::string out = (c.tok[0] == "hc") ? std::to_string(std::thread::hardware_concurrency()) : f(c);
            std::printf("%s\n", out.c_str());
            std::fflush(stdout);
        }
        idx += 1;
    }
    return 0;
}

template <class It>
std::string join(It b, It e){
    std::string s; bool first = true;
    for(; b != e; ++b){ if(!first) s += " "; first = false; s += std::to_string(*b); }
    return s;
}
#endif
