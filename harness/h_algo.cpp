// Harness for the executors (C01, C02, C08, C12, C18): runs the real executor with the TraceKernel.
//   exec d per H B mode stop nf f_1..f_nf N  n_11..n_Nd
// output: dump || call ; call ; ... || R pid=val ... || C level/index=mult,local ...
#include "tbfglobal.hpp"
#include "spacial/tbfmortonspaceindex.hpp"
#include "spacial/tbfspacialconfiguration.hpp"
#include "core/tbftree.hpp"
#include "algorithms/sequential/tbfalgorithm.hpp"
#include "algorithms/sequential/tbfalgorithmtsm.hpp"
#include "core/tbftreetsm.hpp"
#include "algorithms/periodic/tbfalgorithmperiodictoptree.hpp"
#include "algorithms/periodic/tbfalgorithmperiodictoptreetsm.hpp"
#include "kernels/counterkernels/tbfinteractioncounter.hpp"
#include "common.hpp"
#include "trace_kernel.hpp"
#include <algorithm>

#include "algo_common.hpp"

#ifdef FAMILY_EXEC
template <long D, bool Per>
std::string run_exec(const Cmd& c){
    using Conf = TbfSpacialConfiguration<double, D>;
    using Space = TbfMortonSpaceIndex<D, Conf, Per>;
    using Tree = TbfTree<double, double, D, unsigned long, 1, TagVal, TagVal, Space>;
    using Kernel = TraceKernel<double, Space>;
    using Algo = TbfAlgorithm<double, Kernel, Space>;
    const long H = c.L(3), B = c.L(4), mode = c.L(5), stop = c.L(6), nf = c.L(7);
    std::vector<int> flags; size_t a = 8;
    for(long k = 0 ; k < nf ; ++k) flags.push_back(int(c.L(a++)));
    const long N = c.L(a++);
    std::array<double, D> w, ctr; for(long k = 0 ; k < D ; ++k){ w[k] = 1; ctr[k] = 0.5; }
    Conf conf(H, w, ctr);
    const double scale = 16.0 * double(1L << (H-1));
    std::vector<std::array<double, D>> pos(N);
    for(long i = 0 ; i < N ; ++i) for(long k = 0 ; k < D ; ++k) pos[i][k] = double(c.L(a++)) / scale;
    Tree tree(conf, pos, B < 0 ? -1 : B, mode != 0);
    if(c.tok[0] == "execrb") tree.rebuild();     // same run on a rebuilt tree (nothing moved)
    tag_cells(tree);
    TraceSink sink; trace_sink() = &sink;
    std::string out = dump(tree);
    {
        std::unique_ptr<Algo> algo(new Algo(conf, stop));
        for(int f : flags){
            algo->execute(tree, f);
            sink.add("-- " + snapshot(tree));      // boundary between execute() calls + state digests
        }
    }
    out += " || " + join_trace(sink) + " || " + values(tree);
    trace_sink() = nullptr;
    return out;
}

#endif // FAMILY_EXEC
#ifdef FAMILY_CNT
// ---- interaction counters (C18): one wrapped kernel copy per mask, merged with Reduce in both orders ----
//   execcnt d per H B mode stop nsplit m_1..m_nsplit N nums
// output: dump || trace || K counters per copy || F merged forward || B merged backward || R values
template <long D, bool Per>
std::string run_exec_cnt(const Cmd& c){
    using Conf = TbfSpacialConfiguration<double, D>;
    using Space = TbfMortonSpaceIndex<D, Conf, Per>;
    using Tree = TbfTree<double, double, D, unsigned long, 1, TagVal, TagVal, Space>;
    using Kernel = TbfInteractionCounter<TraceKernel<double, Space>>;
    using Algo = TbfAlgorithm<double, Kernel, Space>;
    using Counters = typename Kernel::ReduceType;
    const long H = c.L(3), B = c.L(4), mode = c.L(5), stop = c.L(6), nf = c.L(7);
    std::vector<int> masks; size_t a = 8;
    for(long k = 0 ; k < nf ; ++k) masks.push_back(int(c.L(a++)));
    const long N = c.L(a++);
    std::array<double, D> w, ctr; for(long k = 0 ; k < D ; ++k){ w[k] = 1; ctr[k] = 0.5; }
    Conf conf(H, w, ctr);
    const double scale = 16.0 * double(1L << (H-1));
    std::vector<std::array<double, D>> pos(N);
    for(long i = 0 ; i < N ; ++i) for(long k = 0 ; k < D ; ++k) pos[i][k] = double(c.L(a++)) / scale;
    Tree tree(conf, pos, B < 0 ? -1 : B, mode != 0);
    tag_cells(tree);
    TraceSink sink; trace_sink() = &sink;
    std::string out = dump(tree);
    std::vector<Counters> copies;
    for(int m : masks){
        std::unique_ptr<Algo> algo(new Algo(conf, stop));
        algo->execute(tree, m);
        algo->applyToAllKernels([&](const auto& k){ copies.push_back(k.getReduceData()); });
    }
    auto cs = [](const Counters& k){ return std::to_string(k.P2M) + " " + std::to_string(k.M2M) + " " + std::to_string(k.M2L) + " " + std::to_string(k.L2L)
                                        + " " + std::to_string(k.L2P) + " " + std::to_string(k.P2P) + " " + std::to_string(k.P2PInner); };
    out += " || " + join_trace(sink) + " || K ";
    for(size_t k = 0 ; k < copies.size() ; ++k) out += (k ? " | " : "") + cs(copies[k]);
    Counters f, b;
    for(size_t k = 0 ; k < copies.size() ; ++k) f = Counters::Reduce(f, copies[k]);
    for(size_t k = copies.size() ; k-- > 0 ; ) b = Counters::Reduce(b, copies[k]);
    out += " || F " + cs(f) + " || B " + cs(b) + " || " + values(tree);
    trace_sink() = nullptr;
    return out;
}

//   execcnttsm d per H B mode stop nsplit m.. Ns nums Nt nums : the same on the target/source executor
// output: dumpSource || dumpTarget || trace || K counters per copy || F || B || R values of the targets
template <long D, bool Per>
std::string run_exec_cnt_tsm(const Cmd& c){
    using Conf = TbfSpacialConfiguration<double, D>;
    using Space = TbfMortonSpaceIndex<D, Conf, Per>;
    using Tree = TbfTreeTsm<double, double, D, unsigned long, 1, TagVal, TagVal, Space>;
    using Kernel = TbfInteractionCounter<TraceKernel<double, Space>>;
    using Algo = TbfAlgorithmTsm<double, Kernel, Space>;
    using Counters = typename Kernel::ReduceType;
    const long H = c.L(3), B = c.L(4), mode = c.L(5), stop = c.L(6), nf = c.L(7);
    std::vector<int> masks; size_t a = 8;
    for(long k = 0 ; k < nf ; ++k) masks.push_back(int(c.L(a++)));
    std::array<double, D> w, ctr; for(long k = 0 ; k < D ; ++k){ w[k] = 1; ctr[k] = 0.5; }
    Conf conf(H, w, ctr);
    const double scale = 16.0 * double(1L << (H-1));
    const long Ns = c.L(a++);
    std::vector<std::array<double, D>> ps(Ns);
    for(long i = 0 ; i < Ns ; ++i) for(long k = 0 ; k < D ; ++k) ps[i][k] = double(c.L(a++)) / scale;
    const long Nt = c.L(a++);
    std::vector<std::array<double, D>> pt(Nt);
    for(long i = 0 ; i < Nt ; ++i) for(long k = 0 ; k < D ; ++k) pt[i][k] = double(c.L(a++)) / scale;
    Tree tree(conf, ps, pt, B < 0 ? -1 : B, mode != 0);
    tree.applyToAllCellsSource([](long level, auto&& h, auto&& m, auto&&){ if(m){ m->get().tagLevel1 = level + 1; m->get().tagIndex = h.spaceIndex; } });
    tree.applyToAllCellsTarget([](long level, auto&& h, auto&&, auto&& l){ if(l){ l->get().tagLevel1 = level + 1; l->get().tagIndex = h.spaceIndex; } });
    TraceSink sink; trace_sink() = &sink;
    std::string out = dump_parts(H, [&](long l) -> const auto& { return tree.getCellGroupsAtLevelSource(l); }, tree.getParticleGroupsSource());
    out += " || " + dump_parts(H, [&](long l) -> const auto& { return tree.getCellGroupsAtLevelTarget(l); }, tree.getParticleGroupsTarget());
    std::vector<Counters> copies;
    for(int m : masks){
        std::unique_ptr<Algo> algo(new Algo(conf, stop));
        algo->execute(tree, m);
        algo->applyToAllKernels([&](const auto& k){ copies.push_back(k.getReduceData()); });
    }
    auto cs = [](const Counters& k){ return std::to_string(k.P2M) + " " + std::to_string(k.M2M) + " " + std::to_string(k.M2L) + " " + std::to_string(k.L2L)
                                        + " " + std::to_string(k.L2P) + " " + std::to_string(k.P2P) + " " + std::to_string(k.P2PInner); };
    out += " || " + join_trace(sink) + " || K ";
    for(size_t k = 0 ; k < copies.size() ; ++k) out += (k ? " | " : "") + cs(copies[k]);
    Counters f, b;
    for(size_t k = 0 ; k < copies.size() ; ++k) f = Counters::Reduce(f, copies[k]);
    for(size_t k = copies.size() ; k-- > 0 ; ) b = Counters::Reduce(b, copies[k]);
    std::vector<std::pair<long, unsigned long>> r;
    tree.applyToAllLeavesTarget([&](auto&& h, const long* idx, auto&&, auto&& rhs){ for(long p = 0 ; p < h.nbParticles ; ++p) r.push_back({idx[p], rhs[0][p]}); });
    std::sort(r.begin(), r.end());
    out += " || F " + cs(f) + " || B " + cs(b) + " || R";
    for(auto& kv : r) out += " " + std::to_string(kv.first) + "=" + std::to_string(kv.second);
    trace_sink() = nullptr;
    return out;
}

#endif // FAMILY_CNT
#ifdef FAMILY_PER
// ---- periodic four-step sequence with the top tree ----
//   execper d H B mode k stop N nums...
// output: dump || trace || R || C || I lo hi nbrep
template <class Base>
struct TopExposed : public Base {
    using Base::Base;
    void tag(){
        for(size_t j = 0 ; j < this->multipoles.size() ; ++j){ this->multipoles[j].tagLevel1 = 100 + long(j) + 1; this->multipoles[j].tagIndex = 0; }
        for(size_t j = 0 ; j < this->locals.size() ; ++j){ this->locals[j].tagLevel1 = 100 + long(j) + 1; this->locals[j].tagIndex = 0; }
    }
};

template <long D>
std::string run_exec_per(const Cmd& c){
    using Conf = TbfSpacialConfiguration<double, D>;
    using Space = TbfMortonSpaceIndex<D, Conf, true>;
    using Tree = TbfTree<double, double, D, unsigned long, 1, TagVal, TagVal, Space>;
    using Kernel = TraceKernel<double, Space>;
    using Algo = TbfAlgorithm<double, Kernel, Space>;
    using Top = TopExposed<TbfAlgorithmPeriodicTopTree<double, Kernel, TagVal, TagVal, Space>>;
    const long H = c.L(2), B = c.L(3), mode = c.L(4), k = c.L(5), stop = c.L(6), N = c.L(7);
    size_t a = 8;
    std::array<double, D> w, ctr; for(long j = 0 ; j < D ; ++j){ w[j] = 1; ctr[j] = 0.5; }
    Conf conf(H, w, ctr);
    const double scale = 16.0 * double(1L << (H-1));
    std::vector<std::array<double, D>> pos(N);
    for(long i = 0 ; i < N ; ++i) for(long j = 0 ; j < D ; ++j) pos[i][j] = double(c.L(a++)) / scale;
    Tree tree(conf, pos, B < 0 ? -1 : B, mode != 0);
    tag_cells(tree);
    TraceSink sink; trace_sink() = &sink;
    sink.shiftAware = true; sink.topK = k; sink.leafLevel = H - 1;
    std::string out = dump(tree);
    std::string interval;
    {
        std::unique_ptr<Algo> algo(new Algo(conf, stop));
        std::unique_ptr<Top> top(new Top(conf, k));
        top->tag();
        algo->execute(tree, TbfAlgorithmUtils::TbfBottomToTopStages); sink.add("--");
        sink.inTop = true; top->execute(tree); sink.inTop = false; sink.add("--");
        algo->execute(tree, TbfAlgorithmUtils::TbfTransferStages); sink.add("--");
        algo->execute(tree, TbfAlgorithmUtils::TbfTopToBottomStages); sink.add("--");
        auto iv = top->getRepetitionsIntervals();
        interval = "I " + std::to_string(iv.first[0]) + " " + std::to_string(iv.second[0]) + " " + std::to_string(top->getNbRepetitionsPerDim());
        for(long j = 1 ; j < D ; ++j) if(iv.first[j] != iv.first[0] || iv.second[j] != iv.second[0]) interval += " ANISO";
    }
    out += " || " + join_trace(sink) + " || " + values(tree) + " || " + interval;
    trace_sink() = nullptr;
    return out;
}

//   exectop d H B mode k stop nf f_1..f_nf N nums...   : upward pass of the real tree, then the top tree alone, once per flag mask
// output: dump || trace (segments separated by --)
template <long D>
std::string run_exec_top(const Cmd& c){
    using Conf = TbfSpacialConfiguration<double, D>;
    using Space = TbfMortonSpaceIndex<D, Conf, true>;
    using Tree = TbfTree<double, double, D, unsigned long, 1, TagVal, TagVal, Space>;
    using Kernel = TraceKernel<double, Space>;
    using Algo = TbfAlgorithm<double, Kernel, Space>;
    using Top = TopExposed<TbfAlgorithmPeriodicTopTree<double, Kernel, TagVal, TagVal, Space>>;
    const long H = c.L(2), B = c.L(3), mode = c.L(4), k = c.L(5), stop = c.L(6), nf = c.L(7);
    size_t a = 8;
    std::vector<int> flags; for(long j = 0 ; j < nf ; ++j) flags.push_back(int(c.L(a++)));
    const long N = c.L(a++);
    std::array<double, D> w, ctr; for(long j = 0 ; j < D ; ++j){ w[j] = 1; ctr[j] = 0.5; }
    Conf conf(H, w, ctr);
    const double scale = 16.0 * double(1L << (H-1));
    std::vector<std::array<double, D>> pos(N);
    for(long i = 0 ; i < N ; ++i) for(long j = 0 ; j < D ; ++j) pos[i][j] = double(c.L(a++)) / scale;
    Tree tree(conf, pos, B < 0 ? -1 : B, mode != 0);
    tag_cells(tree);
    TraceSink sink; trace_sink() = &sink;
    sink.shiftAware = true; sink.topK = k; sink.leafLevel = H - 1;
    std::string out = dump(tree);
    {
        std::unique_ptr<Algo> algo(new Algo(conf, stop));
        std::unique_ptr<Top> top(new Top(conf, k));
        top->tag();
        algo->execute(tree, TbfAlgorithmUtils::TbfBottomToTopStages); sink.add("--");
        for(int f : flags){ sink.inTop = true; top->execute(tree, f); sink.inTop = false; sink.add("--"); }
    }
    out += " || " + join_trace(sink);
    trace_sink() = nullptr;
    return out;
}

//   execpertsm d H B mode k stop Ns <nums> Nt <nums>     (target/source periodic sequence with the TSM top tree)
template <long D>
std::string run_exec_per_tsm(const Cmd& c){
    using Conf = TbfSpacialConfiguration<double, D>;
    using Space = TbfMortonSpaceIndex<D, Conf, true>;
    using Tree = TbfTreeTsm<double, double, D, unsigned long, 1, TagVal, TagVal, Space>;
    using Kernel = TraceKernel<double, Space>;
    using Algo = TbfAlgorithmTsm<double, Kernel, Space>;
    using Top = TopExposed<TbfAlgorithmPeriodicTopTreeTsm<double, Kernel, TagVal, TagVal, Space>>;
    const long H = c.L(2), B = c.L(3), mode = c.L(4), k = c.L(5), stop = c.L(6);
    size_t a = 7;
    std::array<double, D> w, ctr; for(long j = 0 ; j < D ; ++j){ w[j] = 1; ctr[j] = 0.5; }
    Conf conf(H, w, ctr);
    const double scale = 16.0 * double(1L << (H-1));
    const long Ns = c.L(a++);
    std::vector<std::array<double, D>> ps(Ns);
    for(long i = 0 ; i < Ns ; ++i) for(long j = 0 ; j < D ; ++j) ps[i][j] = double(c.L(a++)) / scale;
    const long Nt = c.L(a++);
    std::vector<std::array<double, D>> pt(Nt);
    for(long i = 0 ; i < Nt ; ++i) for(long j = 0 ; j < D ; ++j) pt[i][j] = double(c.L(a++)) / scale;
    Tree tree(conf, ps, pt, B < 0 ? -1 : B, mode != 0);
    tree.applyToAllCellsSource([](long level, auto&& h, auto&& m, auto&&){ if(m){ m->get().tagLevel1 = level + 1; m->get().tagIndex = h.spaceIndex; } });
    tree.applyToAllCellsTarget([](long level, auto&& h, auto&&, auto&& l){ if(l){ l->get().tagLevel1 = level + 1; l->get().tagIndex = h.spaceIndex; } });
    TraceSink sink; trace_sink() = &sink;
    sink.shiftAware = true; sink.topK = k; sink.leafLevel = H - 1;
    std::string out = dump_parts(H, [&](long l) -> const auto& { return tree.getCellGroupsAtLevelSource(l); }, tree.getParticleGroupsSource());
    out += " || " + dump_parts(H, [&](long l) -> const auto& { return tree.getCellGroupsAtLevelTarget(l); }, tree.getParticleGroupsTarget());
    std::string interval;
    {
        std::unique_ptr<Algo> algo(new Algo(conf, stop));
        std::unique_ptr<Top> top(new Top(conf, k));
        top->tag();
        algo->execute(tree, TbfAlgorithmUtils::TbfBottomToTopStages);
        sink.inTop = true; top->execute(tree); sink.inTop = false;
        algo->execute(tree, TbfAlgorithmUtils::TbfTransferStages);
        algo->execute(tree, TbfAlgorithmUtils::TbfTopToBottomStages);
        auto iv = top->getRepetitionsIntervals();
        interval = "I " + std::to_string(iv.first[0]) + " " + std::to_string(iv.second[0]) + " " + std::to_string(top->getNbRepetitionsPerDim());
    }
    out += " || " + join_trace(sink);
    std::vector<std::pair<long, unsigned long>> r;
    tree.applyToAllLeavesTarget([&](auto&& h, const long* idx, auto&&, auto&& rhs){ for(long p = 0 ; p < h.nbParticles ; ++p) r.push_back({idx[p], rhs[0][p]}); });
    std::sort(r.begin(), r.end());
    out += " || R";
    for(auto& kv : r) out += " " + std::to_string(kv.first) + "=" + std::to_string(kv.second);
    out += " || " + interval;
    trace_sink() = nullptr;
    return out;
}
//   exectoptsm d H B mode k stop nf f_1..f_nf Ns <nums> Nt <nums>
template <long D>
std::string run_exec_top_tsm(const Cmd& c){
    using Conf = TbfSpacialConfiguration<double, D>;
    using Space = TbfMortonSpaceIndex<D, Conf, true>;
    using Tree = TbfTreeTsm<double, double, D, unsigned long, 1, TagVal, TagVal, Space>;
    using Kernel = TraceKernel<double, Space>;
    using Algo = TbfAlgorithmTsm<double, Kernel, Space>;
    using Top = TopExposed<TbfAlgorithmPeriodicTopTreeTsm<double, Kernel, TagVal, TagVal, Space>>;
    const long H = c.L(2), B = c.L(3), mode = c.L(4), k = c.L(5), stop = c.L(6), nf = c.L(7);
    size_t a = 8;
    std::vector<int> flags; for(long j = 0 ; j < nf ; ++j) flags.push_back(int(c.L(a++)));
    std::array<double, D> w, ctr; for(long j = 0 ; j < D ; ++j){ w[j] = 1; ctr[j] = 0.5; }
    Conf conf(H, w, ctr);
    const double scale = 16.0 * double(1L << (H-1));
    const long Ns = c.L(a++);
    std::vector<std::array<double, D>> ps(Ns);
    for(long i = 0 ; i < Ns ; ++i) for(long j = 0 ; j < D ; ++j) ps[i][j] = double(c.L(a++)) / scale;
    const long Nt = c.L(a++);
    std::vector<std::array<double, D>> pt(Nt);
    for(long i = 0 ; i < Nt ; ++i) for(long j = 0 ; j < D ; ++j) pt[i][j] = double(c.L(a++)) / scale;
    Tree tree(conf, ps, pt, B < 0 ? -1 : B, mode != 0);
    tree.applyToAllCellsSource([](long level, auto&& h, auto&& m, auto&&){ if(m){ m->get().tagLevel1 = level + 1; m->get().tagIndex = h.spaceIndex; } });
    tree.applyToAllCellsTarget([](long level, auto&& h, auto&&, auto&& l){ if(l){ l->get().tagLevel1 = level + 1; l->get().tagIndex = h.spaceIndex; } });
    TraceSink sink; trace_sink() = &sink;
    sink.shiftAware = true; sink.topK = k; sink.leafLevel = H - 1;
    std::string out = dump_parts(H, [&](long l) -> const auto& { return tree.getCellGroupsAtLevelSource(l); }, tree.getParticleGroupsSource());
    out += " || " + dump_parts(H, [&](long l) -> const auto& { return tree.getCellGroupsAtLevelTarget(l); }, tree.getParticleGroupsTarget());
    {
        std::unique_ptr<Algo> algo(new Algo(conf, stop));
        std::unique_ptr<Top> top(new Top(conf, k));
        top->tag();
        algo->execute(tree, TbfAlgorithmUtils::TbfBottomToTopStages); sink.add("--");
        for(int f : flags){ sink.inTop = true; top->execute(tree, f); sink.inTop = false; sink.add("--"); }
    }
    out += " || " + join_trace(sink);
    trace_sink() = nullptr;
    return out;
}
#endif // FAMILY_PER
#ifdef FAMILY_TSM
// ---- target/source variant ----
//   exectsm d per H B mode stop nf f_1..f_nf Ns <Ns*d nums> Nt <Nt*d nums>
// output: dumpSource || dumpTarget || trace || R (target results) || C (source multipoles / target locals)
template <long D, bool Per>
std::string run_exec_tsm(const Cmd& c){
    using Conf = TbfSpacialConfiguration<double, D>;
    using Space = TbfMortonSpaceIndex<D, Conf, Per>;
    using Tree = TbfTreeTsm<double, double, D, unsigned long, 1, TagVal, TagVal, Space>;
    using Kernel = TraceKernel<double, Space>;
    using Algo = TbfAlgorithmTsm<double, Kernel, Space>;
    const long H = c.L(3), B = c.L(4), mode = c.L(5), stop = c.L(6), nf = c.L(7);
    std::vector<int> flags; size_t a = 8;
    for(long k = 0 ; k < nf ; ++k) flags.push_back(int(c.L(a++)));
    std::array<double, D> w, ctr; for(long k = 0 ; k < D ; ++k){ w[k] = 1; ctr[k] = 0.5; }
    Conf conf(H, w, ctr);
    const double scale = 16.0 * double(1L << (H-1));
    const long Ns = c.L(a++);
    std::vector<std::array<double, D>> ps(Ns);
    for(long i = 0 ; i < Ns ; ++i) for(long k = 0 ; k < D ; ++k) ps[i][k] = double(c.L(a++)) / scale;
    const long Nt = c.L(a++);
    std::vector<std::array<double, D>> pt(Nt);
    for(long i = 0 ; i < Nt ; ++i) for(long k = 0 ; k < D ; ++k) pt[i][k] = double(c.L(a++)) / scale;
    // exectsmrb: the tree is first built with every particle at the position of its successor (cyclically, sources and targets
    // separately), executed once, then every particle is moved to its own position in place and the tree is rebuilt: the second
    // execution must be the one of a tree built from the final positions, and the targets keep the results of the first
    const bool rb = (c.tok[0] == "exectsmrb");
    auto ps0 = ps, pt0 = pt;
    if(rb){
        for(long i = 0 ; i < Ns ; ++i) ps0[i] = ps[(i + 1) % Ns];
        for(long i = 0 ; i < Nt ; ++i) pt0[i] = pt[(i + 1) % Nt];
    }
    Tree tree(conf, ps0, pt0, B < 0 ? -1 : B, mode != 0);
    TraceSink sink; trace_sink() = &sink;
    if(rb){
        {
            std::unique_ptr<Algo> algo0(new Algo(conf, stop));
            sink.record = false;
            algo0->execute(tree);
            sink.record = true;
        }
        tree.applyToAllLeavesSource([&](auto&& h, const long* idx, auto&& d, auto&&){
            for(long p = 0 ; p < h.nbParticles ; ++p) for(long j = 0 ; j < D ; ++j) d[j][p] = ps[idx[p]][j]; });
        tree.applyToAllLeavesTarget([&](auto&& h, const long* idx, auto&& d, auto&&){
            for(long p = 0 ; p < h.nbParticles ; ++p) for(long j = 0 ; j < D ; ++j) d[j][p] = pt[idx[p]][j]; });
        tree.rebuild();
    }
    tree.applyToAllCellsSource([](long level, auto&& h, auto&& m, auto&&){ if(m){ m->get().tagLevel1 = level + 1; m->get().tagIndex = h.spaceIndex; } });
    tree.applyToAllCellsTarget([](long level, auto&& h, auto&&, auto&& l){ if(l){ l->get().tagLevel1 = level + 1; l->get().tagIndex = h.spaceIndex; } });
    std::string out = dump_parts(H, [&](long l) -> const auto& { return tree.getCellGroupsAtLevelSource(l); }, tree.getParticleGroupsSource());
    out += " || " + dump_parts(H, [&](long l) -> const auto& { return tree.getCellGroupsAtLevelTarget(l); }, tree.getParticleGroupsTarget());
    {
        std::unique_ptr<Algo> algo(new Algo(conf, stop));
        for(int f : flags){ algo->execute(tree, f); sink.add("--"); }
    }
    out += " || " + join_trace(sink);
    std::vector<std::pair<long, unsigned long>> r;
    tree.applyToAllLeavesTarget([&](auto&& h, const long* idx, auto&&, auto&& rhs){
        for(long p = 0 ; p < h.nbParticles ; ++p) r.push_back({idx[p], rhs[0][p]});
    });
    std::sort(r.begin(), r.end());
    out += " || R";
    for(auto& kv : r) out += " " + std::to_string(kv.first) + "=" + std::to_string(kv.second);
    out += " || C";
    tree.applyToAllCellsSource([&](long level, auto&& h, auto&& m, auto&&){ out += " s" + std::to_string(level) + "/" + std::to_string(h.spaceIndex) + "=" + std::to_string(m ? m->get().val : 0UL); });
    tree.applyToAllCellsTarget([&](long level, auto&& h, auto&&, auto&& l){ out += " t" + std::to_string(level) + "/" + std::to_string(h.spaceIndex) + "=" + std::to_string(l ? l->get().val : 0UL); });
    trace_sink() = nullptr;
    return out;
}

#endif // FAMILY_TSM
int main(int argc, char** argv){
    return run_commands(argc, argv, [](const Cmd& c) -> std::string {
#ifdef FAMILY_PER
        if(c.tok[0] == "execpertsm"){
            switch(c.L(1)){
            case 1: return run_exec_per_tsm<1>(c);
            case 2: return run_exec_per_tsm<2>(c);
            case 3: return run_exec_per_tsm<3>(c);
            }
            return "?dim";
        }
        if(c.tok[0] == "exectop"){
            switch(c.L(1)){
            case 1: return run_exec_top<1>(c);
            case 2: return run_exec_top<2>(c);
            case 3: return run_exec_top<3>(c);
            }
            return "?dim";
        }
        if(c.tok[0] == "exectoptsm"){
            switch(c.L(1)){
            case 1: return run_exec_top_tsm<1>(c);
            case 2: return run_exec_top_tsm<2>(c);
            case 3: return run_exec_top_tsm<3>(c);
            }
            return "?dim";
        }
        if(c.tok[0] == "execper"){
            switch(c.L(1)){
            case 1: return run_exec_per<1>(c);
            case 2: return run_exec_per<2>(c);
            case 3: return run_exec_per<3>(c);
            }
            return "?dim";
        }
#endif
        const long d = c.L(1); const bool per = c.L(2) != 0;
#ifdef FAMILY_CNT
        if(c.tok[0] == "execcnttsm"){
            switch(d*2 + (per?1:0)){
            case 2: return run_exec_cnt_tsm<1,false>(c);
            case 4: return run_exec_cnt_tsm<2,false>(c);
            case 6: return run_exec_cnt_tsm<3,false>(c);
            }
            return "?dim";
        }
        if(c.tok[0] == "execcnt"){
            switch(d*2 + (per?1:0)){
            case 2: return run_exec_cnt<1,false>(c);
            case 4: return run_exec_cnt<2,false>(c);
            case 6: return run_exec_cnt<3,false>(c);
            case 7: return run_exec_cnt<3,true>(c);
            }
            return "?dim";
        }
#endif
#ifdef FAMILY_TSM
        if(c.tok[0] == "exectsm" || c.tok[0] == "exectsmrb"){
            switch(d*2 + (per?1:0)){
            case 2: return run_exec_tsm<1,false>(c);
            case 4: return run_exec_tsm<2,false>(c);
            case 6: return run_exec_tsm<3,false>(c);
            case 3: return run_exec_tsm<1,true>(c);
            case 5: return run_exec_tsm<2,true>(c);
            case 7: return run_exec_tsm<3,true>(c);
            case 8: return run_exec_tsm<4,false>(c);
            }
            return "?dim";
        }
#endif
#ifdef FAMILY_EXEC
        if(c.tok[0] != "exec" && c.tok[0] != "execrb") return "?unknown";
        switch(d*2 + (per?1:0)){
        case 2: return run_exec<1,false>(c);
        case 3: return run_exec<1,true>(c);
        case 4: return run_exec<2,false>(c);
        case 5: return run_exec<2,true>(c);
        case 6: return run_exec<3,false>(c);
        case 7: return run_exec<3,true>(c);
        case 8: return run_exec<4,false>(c);
        case 9: return run_exec<4,true>(c);
        }
#endif
        (void)d; (void)per;
        return "?dim";
    });
}
