// Harness for the space-index API (C11): prints the return values of the real
// TbfMortonSpaceIndex / TbfHilbertSpaceIndex functions for each command.
#include "tbfglobal.hpp"
#include "spacial/tbfmortonspaceindex.hpp"
#include "spacial/tbfhilbertspaceindex.hpp"
#include "spacial/tbfspacialconfiguration.hpp"
#include "core/tbfcellscontainer.hpp"
#include "utils/tbfperiodicshifter.hpp"
#include <cmath>
#include "common.hpp"

template <class Cells>
struct LeafGroupView {
    const Cells& c;
    long getNbLeaves() const { return c.getNbCells(); }
    long getLeafSpacialIndex(long i) const { return c.getCellSpacialIndex(i); }
    long getStartingSpacialIndex() const { return c.getStartingSpacialIndex(); }
    long getEndingSpacialIndex() const { return c.getEndingSpacialIndex(); }
    auto getElementFromSpacialIndex(long i) const { return c.getElementFromSpacialIndex(i); }
};

template <class V>
static std::string recs(const V& v){
    std::string s;
    for(size_t k = 0 ; k < v.size() ; ++k){
        if(k) s += " ";
        s += "(" + std::to_string(v[k].indexTarget) + " " + std::to_string(v[k].indexSrc) + " "
           + std::to_string(v[k].globalTargetPos) + " " + std::to_string(v[k].arrayIndexSrc) + ")";
    }
    return s;
}

template <class Space, long D>
std::string run_space(const Space& sp, const std::string& op, const Cmd& c, size_t a){
    // a = index of first operand after the fixed prefix
    if(op == "box"){
        std::array<long, D> p; for(long k = 0 ; k < D ; ++k) p[k] = c.L(a+k);
        return std::to_string(sp.getIndexFromBoxPos(p));
    }
    if(op == "unbox"){ auto p = sp.getBoxPosFromIndex(c.L(a)); return join(p.begin(), p.end()); }
    if(op == "parent") return std::to_string(sp.getParentIndex(c.L(a)));
    if(op == "ccode") return std::to_string(sp.childPositionFromParent(c.L(a)));
    if(op == "child") return std::to_string(sp.getChildIndexFromParent(c.L(a), c.L(a+1)));
    if(op == "enc7"){ std::array<long, D> p; for(long k = 0 ; k < D ; ++k) p[k] = c.L(a+k);
        return std::to_string(Space::getInteractionIndexFromRelativePos(p)); }
    if(op == "enc3"){ std::array<long, D> p; for(long k = 0 ; k < D ; ++k) p[k] = c.L(a+k);
        return std::to_string(Space::getNeighborIndexFromRelativePos(p)); }
    if(op == "dec7"){ auto p = Space::getRelativePosFromInteractionIndex(c.L(a)); return join(p.begin(), p.end()); }
    if(op == "dec3"){ auto p = Space::getRelativePosFromNeighborIndex(c.L(a)); return join(p.begin(), p.end()); }
    if(op == "ilist"){ auto v = sp.getInteractionListForIndex(c.L(a+1), c.L(a)); return join(v.begin(), v.end()); }
    if(op == "nlist"){ auto v = sp.getNeighborListForIndex(c.L(a+2), c.L(a), c.L(a+1) != 0); return join(v.begin(), v.end()); }
    if(op == "iblock" || op == "nblock"){
        const bool isI = (op == "iblock");
        const long level = c.L(a);
        const bool upper = isI ? false : (c.L(a+1) != 0);
        const size_t b = isI ? a+1 : a+2;
        const bool testSelf = c.L(b) != 0;
        const long n = c.L(b+1);
        std::vector<long> cells(n);
        for(long k = 0 ; k < n ; ++k) cells[k] = c.L(b+2+k);
        using Cells = TbfCellsContainer<double, long, long, Space>;
        Cells group(cells, sp);
        if(isI){
            auto r = sp.getInteractionListForBlock(group, level, testSelf);
            return "I " + recs(r.first) + " E " + recs(r.second);
        }
        LeafGroupView<Cells> lg{group};
        auto r = sp.getNeighborListForBlock(lg, level, upper, testSelf);
        return "I " + recs(r.first) + " E " + recs(r.second);
    }
    return "?unknown";
}

template <long D, bool Per>
std::string morton(const std::string& op, const Cmd& c, size_t a){
    using Conf = TbfSpacialConfiguration<double, D>;
    std::array<double, D> w, ctr; for(long k = 0 ; k < D ; ++k){ w[k] = 1; ctr[k] = 0.5; }
    Conf conf(3, w, ctr);
    TbfMortonSpaceIndex<D, Conf, Per> sp(conf);
    return run_space<decltype(sp), D>(sp, op, c, a);
}

template <bool Per>
std::string hilbert(long H, const std::string& op, const Cmd& c, size_t a){
    using Conf = TbfSpacialConfiguration<double, 3>;
    Conf conf(H, {1,1,1}, {0.5,0.5,0.5});
    TbfHilbertSpaceIndex<3, Conf, Per> sp(conf);
    return run_space<decltype(sp), 3>(sp, op, c, a);
}

// pshift d H code t_1..t_d : TbfPeriodicShifter::Neighbor for the target leaf of coordinates t and the neighbour entry `code`
// (the source is the wrapped cell): prints need=<0|1> and the shift of every dimension in box widths
struct SymbOnlyCoord { std::array<long, 4> boxCoord; };
template <long D>
std::string pshift(const Cmd& c){
    using Conf = TbfSpacialConfiguration<double, D>;
    using Space = TbfMortonSpaceIndex<D, Conf, true>;
    const long H = c.L(2), code = c.L(3);
    std::array<double, D> w, ctr; for(long k = 0 ; k < D ; ++k){ w[k] = 2.5; ctr[k] = -0.75; }
    Conf conf(H, w, ctr);
    Space sp(conf);
    struct Sym { std::array<long, D> boxCoord; } tg, sr;
    const auto rel = Space::getRelativePosFromNeighborIndex(code);
    const long lim = 1L << (H - 1);
    for(long k = 0 ; k < D ; ++k){ tg.boxCoord[k] = c.L(4 + k); sr.boxCoord[k] = ((tg.boxCoord[k] + rel[k]) % lim + lim) % lim; }
    using Shifter = typename TbfPeriodicShifter<double, Space>::Neighbor;
    const bool need = Shifter::NeedToShift(sr, tg, sp, code);
    const auto sh = Shifter::GetShiftCoef(sr, tg, sp, code);
    std::string out = std::string("need=") + (need ? "1" : "0");
    for(long k = 0 ; k < D ; ++k) out += " " + std::to_string(long(std::lround(sh[k] / w[k])));
    return out;
}

static bool has_per(const std::string& op){ return op == "ilist" || op == "nlist" || op == "iblock" || op == "nblock"; }

int main(int argc, char** argv){
    return run_commands(argc, argv, [](const Cmd& c) -> std::string {
        std::string op = c.tok[0];
        if(op[0] == 'h' && op != "hello"){   // Hilbert: h<op> H [per] ...
            op = op.substr(1);
            const long H = c.L(1);
            if(has_per(op)) return c.L(2) ? hilbert<true>(H, op, c, 3) : hilbert<false>(H, op, c, 3);
            return hilbert<false>(H, op, c, 2);
        }
        const long d = c.L(1);
        if(op == "pshift"){
            switch(d){ case 1: return pshift<1>(c); case 2: return pshift<2>(c); case 3: return pshift<3>(c); case 4: return pshift<4>(c); }
            return "?dim";
        }
        bool per = false; size_t a = 2;
        if(has_per(op)){ per = c.L(2) != 0; a = 3; }
        switch(d*2 + (per?1:0)){
        case 2: return morton<1,false>(op, c, a);
        case 3: return morton<1,true>(op, c, a);
        case 4: return morton<2,false>(op, c, a);
        case 5: return morton<2,true>(op, c, a);
        case 6: return morton<3,false>(op, c, a);
        case 7: return morton<3,true>(op, c, a);
        case 8: return morton<4,false>(op, c, a);
        case 9: return morton<4,true>(op, c, a);
        }
        return "?dim";
    });
}
