// Harness for the OpenMP task executors under controlled schedules (C03, C09, C18): built with -fopenmp, the GOMP entry
// points are replaced by harness/mock_gomp.hpp.
//   execomp d per H B mode stop policy T seed nf f_1.. N nums...
// output: dump || trace (execution order) || R || C || T tasks: seq:priority:worker:deps(kind@bufferid,...) ... || O execution order
// With -DRT_SPECX / -DRT_STARPU (and -Iharness/mockrt) the same commands drive TbfSmSpecxAlgorithm(Tsm) /
// TbfSmStarpuAlgorithm(Tsm) on API-compatible mock runtimes (harness/mockrt) that share the scheduler of mock_sched.hpp.
#if defined(RT_SPECX)
#include "Legacy/SpRuntime.hpp"
#elif defined(RT_STARPU)
#include "starpu.h"
#else
#include "mock_gomp.hpp"
#endif
#include "tbfglobal.hpp"
#include "spacial/tbfmortonspaceindex.hpp"
#include "spacial/tbfspacialconfiguration.hpp"
#include "core/tbftree.hpp"
#include "core/tbftreetsm.hpp"
#if defined(RT_SPECX)
#include "algorithms/smspecx/tbfsmspecxalgorithm.hpp"
#include "algorithms/smspecx/tbfsmspecxalgorithmtsm.hpp"
#define ALGO_T TbfSmSpecxAlgorithm
#define ALGOTSM_T TbfSmSpecxAlgorithmTsm
#elif defined(RT_STARPU)
#include "algorithms/smstarpu/tbfsmstarpualgorithm.hpp"
#include "algorithms/smstarpu/tbfsmstarpualgorithmtsm.hpp"
#define ALGO_T TbfSmStarpuAlgorithm
#define ALGOTSM_T TbfSmStarpuAlgorithmTsm
#else
#include "algorithms/openmp/tbfopenmpalgorithm.hpp"
#include "algorithms/openmp/tbfopenmpalgorithmtsm.hpp"
#define ALGO_T TbfOpenmpAlgorithm
#define ALGOTSM_T TbfOpenmpAlgorithmTsm
#endif
#include "kernels/counterkernels/tbfinteractioncounter.hpp"
#include "common.hpp"
#include "trace_kernel.hpp"
#include <algorithm>

#include "algo_common.hpp"

template <long D, bool Per>
std::string run_exec_omp(const Cmd& c){
    using Conf = TbfSpacialConfiguration<double, D>;
    using Space = TbfMortonSpaceIndex<D, Conf, Per>;
    using Tree = TbfTree<double, double, D, unsigned long, 1, TagVal, TagVal, Space>;
    using Kernel = TraceKernel<double, Space>;
    using Algo = ALGO_T<double, Kernel, Space>;
    const long H = c.L(3), B = c.L(4), mode = c.L(5), stop = c.L(6), policy = c.L(7), T = c.L(8), seed = c.L(9), nf = c.L(10);
    std::vector<int> flags; size_t a = 11;
    for(long k = 0 ; k < nf ; ++k) flags.push_back(int(c.L(a++)));
    const long N = c.L(a++);
    std::array<double, D> w, ctr; for(long k = 0 ; k < D ; ++k){ w[k] = 1; ctr[k] = 0.5; }
    Conf conf(H, w, ctr);
    const double scale = 16.0 * double(1L << (H-1));
    std::vector<std::array<double, D>> pos(N);
    for(long i = 0 ; i < N ; ++i) for(long k = 0 ; k < D ; ++k) pos[i][k] = double(c.L(a++)) / scale;
    Tree tree(conf, pos, B < 0 ? -1 : B, mode != 0);
    tag_cells(tree);
    // buffer ids for the dependence addresses
    std::map<const void*, std::string> bufname;
    for(long l = 0 ; l < tree.getHeight() ; ++l){
        long g = 0;
        for(auto& grp : tree.getCellGroupsAtLevel(l)){
            bufname[grp.getDataPtr()] = "S" + std::to_string(l) + "." + std::to_string(g);      // symbolic block (indices), read-only
            bufname[grp.getMultipolePtr()] = "M" + std::to_string(l) + "." + std::to_string(g);
            bufname[grp.getLocalPtr()] = "L" + std::to_string(l) + "." + std::to_string(g);
            g += 1;
        }
    }
    { long g = 0; for(auto& grp : tree.getParticleGroups()){ bufname[grp.getDataPtr()] = "D" + std::to_string(g); bufname[grp.getRhsPtr()] = "R" + std::to_string(g); g += 1; } }
    TraceSink sink; trace_sink() = &sink;
    mock_rt().reset(MockRuntime::Policy(policy), int(T), (unsigned long)seed);
    mock_rt().on_task_start = [](long s){ trace_sink()->add("@task " + std::to_string(s)); };
    mock_rt().on_spawn = [](long s){ trace_sink()->add("@spawn " + std::to_string(s)); };
    std::string out = dump(tree);
    std::string tasks;
    {
        std::unique_ptr<Algo> algo(new Algo(conf, stop));
        for(int f : flags){
            const size_t before = sink.lines.size();
            algo->execute(tree, f);
            (void)before;
            sink.add("-- " + snapshot(tree));
        }
    }
    for(auto& t : mock_rt().history){
        tasks += " " + std::to_string(t.seq) + ":" + std::to_string(t.priority) + ":" + std::to_string(t.worker) + ":";
        bool first = true;
        for(auto& d : t.deps){
            auto it = bufname.find(d.first);
            tasks += (first ? "" : ",") + std::string(d.second == 0 ? "in@" : (d.second == 1 ? "out@" : "mtx@")) + (it == bufname.end() ? std::string("?") : it->second);
            first = false;
        }
    }
    std::string order;
    for(long s : mock_rt().exec_order) order += " " + std::to_string(s);
    // dependence graph as the runtime computed it: seq:parent:pred,pred,...
    order += " || G";
    for(auto& t : mock_rt().history){
        order += " " + std::to_string(t.seq) + ":" + std::to_string(t.parent) + ":";
        bool first = true;
        for(long p : t.preds){ order += (first ? "" : ",") + std::to_string(p); first = false; }
    }
    out += " || " + join_trace(sink) + " || " + values(tree) + " || T" + tasks + " || O" + order;
    trace_sink() = nullptr;
    return out;
}

//   execomptsm d per H B mode stop policy T seed nf f.. Ns nums Nt nums
// output: dumpSource || dumpTarget || trace || R || T tasks || O order
template <long D, bool Per>
std::string run_exec_omp_tsm(const Cmd& c){
    using Conf = TbfSpacialConfiguration<double, D>;
    using Space = TbfMortonSpaceIndex<D, Conf, Per>;
    using Tree = TbfTreeTsm<double, double, D, unsigned long, 1, TagVal, TagVal, Space>;
    using Kernel = TraceKernel<double, Space>;
    using Algo = ALGOTSM_T<double, Kernel, Space>;
    const long H = c.L(3), B = c.L(4), mode = c.L(5), stop = c.L(6), policy = c.L(7), T = c.L(8), seed = c.L(9), nf = c.L(10);
    std::vector<int> flags; size_t a = 11;
    for(long k = 0 ; k < nf ; ++k) flags.push_back(int(c.L(a++)));
    std::array<double, D> w, ctr; for(long k = 0 ; k < D ; ++k){ w[k] = 1; ctr[k] = 0.5; }
    Conf conf(H, w, ctr);
    const double scale = 16.0 * double(1L << (H-1));
    const long Ns = c.L(a++);
    std::vector<std::array<double, D>> ps(Ns);
    for(long i = 0 ; i < Ns ; ++i) for(long k = 0 ; k < D ; ++k) ps[i][k] = double(c.L(a++)) / scale;
    const long Nt = c.L(a++);
    std::vector<std::array<double, D>> pt(Nt);
    for(long i = 0 ; i < Nt ; ++i) for(long k = 0 ; k < D ; ++k) pt[i][k] = double(c.L(a++)) / scale;
    Tree tree(conf, ps, pt, B < 0 ? -1 : B, mode != 0);
    tree.applyToAllCellsSource([](long level, auto&& h, auto&& m, auto&&){ if(m){ m->get().tagLevel1 = level + 1; m->get().tagIndex = h.spaceIndex; } });
    tree.applyToAllCellsTarget([](long level, auto&& h, auto&&, auto&& l){ if(l){ l->get().tagLevel1 = level + 1; l->get().tagIndex = h.spaceIndex; } });
    std::map<const void*, std::string> bufname;
    for(long l = 0 ; l < H ; ++l){
        long g = 0; for(auto& grp : tree.getCellGroupsAtLevelSource(l)){ bufname[grp.getDataPtr()] = "SS" + std::to_string(l) + "." + std::to_string(g); bufname[grp.getMultipolePtr()] = "M" + std::to_string(l) + "." + std::to_string(g); g += 1; }
        g = 0; for(auto& grp : tree.getCellGroupsAtLevelTarget(l)){ bufname[grp.getDataPtr()] = "ST" + std::to_string(l) + "." + std::to_string(g); bufname[grp.getLocalPtr()] = "L" + std::to_string(l) + "." + std::to_string(g); g += 1; }
    }
    { long g = 0; for(auto& grp : tree.getParticleGroupsSource()){ bufname[grp.getDataPtr()] = "DS" + std::to_string(g); g += 1; } }
    { long g = 0; for(auto& grp : tree.getParticleGroupsTarget()){ bufname[grp.getDataPtr()] = "DT" + std::to_string(g); bufname[grp.getRhsPtr()] = "R" + std::to_string(g); g += 1; } }
    TraceSink sink; trace_sink() = &sink;
    mock_rt().reset(MockRuntime::Policy(policy), int(T), (unsigned long)seed);
    mock_rt().on_task_start = [](long s){ trace_sink()->add("@task " + std::to_string(s)); };
    mock_rt().on_spawn = [](long s){ trace_sink()->add("@spawn " + std::to_string(s)); };
    std::string out = dump_parts(H, [&](long l) -> const auto& { return tree.getCellGroupsAtLevelSource(l); }, tree.getParticleGroupsSource());
    out += " || " + dump_parts(H, [&](long l) -> const auto& { return tree.getCellGroupsAtLevelTarget(l); }, tree.getParticleGroupsTarget());
    {
        std::unique_ptr<Algo> algo(new Algo(conf, stop));
        for(int f : flags){ algo->execute(tree, f); sink.add("--"); }
    }
    std::string tasks;
    for(auto& t : mock_rt().history){
        tasks += " " + std::to_string(t.seq) + ":" + std::to_string(t.priority) + ":" + std::to_string(t.worker) + ":";
        bool first = true;
        for(auto& d : t.deps){
            auto it = bufname.find(d.first);
            tasks += (first ? "" : ",") + std::string(d.second == 0 ? "in@" : (d.second == 1 ? "out@" : "mtx@")) + (it == bufname.end() ? std::string("?") : it->second);
            first = false;
        }
    }
    std::string order;
    for(long s : mock_rt().exec_order) order += " " + std::to_string(s);
    // dependence graph as the runtime computed it: seq:parent:pred,pred,...
    order += " || G";
    for(auto& t : mock_rt().history){
        order += " " + std::to_string(t.seq) + ":" + std::to_string(t.parent) + ":";
        bool first = true;
        for(long p : t.preds){ order += (first ? "" : ",") + std::to_string(p); first = false; }
    }
    out += " || " + join_trace(sink);
    std::vector<std::pair<long, unsigned long>> r;
    tree.applyToAllLeavesTarget([&](auto&& h, const long* idx, auto&&, auto&& rhs){ for(long p = 0 ; p < h.nbParticles ; ++p) r.push_back({idx[p], rhs[0][p]}); });
    std::sort(r.begin(), r.end());
    out += " || R";
    for(auto& kv : r) out += " " + std::to_string(kv.first) + "=" + std::to_string(kv.second);
    out += " || T" + tasks + " || O" + order;
    trace_sink() = nullptr;
    return out;
}

//   execcntrt d per H B mode stop policy T seed N nums... : full run of the task executor with one TbfInteractionCounter-wrapped
//   kernel per worker under the schedule; the per-worker counters are merged with Counters::Reduce in both orders (C18)
// output: dump || trace || K per-worker counters || F merged forward || B merged backward || R values
template <long D, bool Per>
std::string run_exec_cnt_rt(const Cmd& c){
    using Conf = TbfSpacialConfiguration<double, D>;
    using Space = TbfMortonSpaceIndex<D, Conf, Per>;
    using Tree = TbfTree<double, double, D, unsigned long, 1, TagVal, TagVal, Space>;
    using Kernel = TbfInteractionCounter<TraceKernel<double, Space>>;
    using Algo = ALGO_T<double, Kernel, Space>;
    using Counters = typename Kernel::ReduceType;
    const long H = c.L(3), B = c.L(4), mode = c.L(5), stop = c.L(6), policy = c.L(7), T = c.L(8), seed = c.L(9);
    size_t a = 10;
    const long N = c.L(a++);
    std::array<double, D> w, ctr; for(long k = 0 ; k < D ; ++k){ w[k] = 1; ctr[k] = 0.5; }
    Conf conf(H, w, ctr);
    const double scale = 16.0 * double(1L << (H-1));
    std::vector<std::array<double, D>> pos(N);
    for(long i = 0 ; i < N ; ++i) for(long k = 0 ; k < D ; ++k) pos[i][k] = double(c.L(a++)) / scale;
    Tree tree(conf, pos, B < 0 ? -1 : B, mode != 0);
    tag_cells(tree);
    TraceSink sink; trace_sink() = &sink;
    mock_rt().reset(MockRuntime::Policy(policy), int(T), (unsigned long)seed);
    mock_rt().on_task_start = nullptr; mock_rt().on_spawn = nullptr;
    std::string out = dump(tree);
    std::vector<Counters> copies;
    {
        std::unique_ptr<Algo> algo(new Algo(conf, stop));
        if(seed & 1){
            // staged run of the same executor object with a SHRINKING team: far field with T workers, near field with T/2 - the merge
            // over all kernel copies must still report everything
            algo->execute(tree, TbfAlgorithmUtils::TbfFarField);
            mock_rt().reset(MockRuntime::Policy(policy), std::max(1, int(T) / 2), (unsigned long)seed + 17);
            mock_rt().on_task_start = nullptr; mock_rt().on_spawn = nullptr;
            algo->execute(tree, TbfAlgorithmUtils::TbfNearField);
        }
        else algo->execute(tree);
        algo->applyToAllKernels([&](const auto& k){ copies.push_back(k.getReduceData()); });
    }
    auto cs = [](const Counters& k){ return std::to_string(k.P2M) + " " + std::to_string(k.M2M) + " " + std::to_string(k.M2L) + " " + std::to_string(k.L2L)
                                        + " " + std::to_string(k.L2P) + " " + std::to_string(k.P2P) + " " + std::to_string(k.P2PInner); };
    out += " || " + join_trace(sink) + " || K ";
    for(size_t k = 0 ; k < copies.size() ; ++k) out += (k ? " | " : "") + cs(copies[k]);
    Counters f, b;
    for(size_t k = 0 ; k < copies.size() ; ++k) f = Counters::Reduce(f, copies[k]);
    for(size_t k = copies.size() ; k-- > 0 ; ) b = Counters::Reduce(b, copies[k]);
    out += " || F " + cs(f) + " || B " + cs(b) + " || " + values(tree);
    trace_sink() = nullptr;
    return out;
}

int main(int argc, char** argv){
    return run_commands(argc, argv, [](const Cmd& c) -> std::string {
        const long d = c.L(1); const bool per = c.L(2) != 0;
        if(c.tok[0] == "execomptsm"){
            switch(d*2 + (per?1:0)){
            case 2: return run_exec_omp_tsm<1,false>(c);
            case 4: return run_exec_omp_tsm<2,false>(c);
            case 6: return run_exec_omp_tsm<3,false>(c);
            case 3: return run_exec_omp_tsm<1,true>(c);
            case 5: return run_exec_omp_tsm<2,true>(c);
            case 7: return run_exec_omp_tsm<3,true>(c);
            }
            return "?dim";
        }
        if(c.tok[0] == "execcntrt"){
            switch(d*2 + (per?1:0)){
            case 2: return run_exec_cnt_rt<1,false>(c);
            case 4: return run_exec_cnt_rt<2,false>(c);
            case 6: return run_exec_cnt_rt<3,false>(c);
            }
            return "?dim";
        }
        if(c.tok[0] != "execomp") return "?unknown";
        switch(d*2 + (per?1:0)){
        case 2: return run_exec_omp<1,false>(c);
        case 4: return run_exec_omp<2,false>(c);
        case 6: return run_exec_omp<3,false>(c);
        case 3: return run_exec_omp<1,true>(c);
        case 5: return run_exec_omp<2,true>(c);
        case 7: return run_exec_omp<3,true>(c);
        }
        return "?dim";
    });
}
