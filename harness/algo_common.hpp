// dump / tagging / value printing shared by h_algo.cpp and h_sched.cpp
#ifndef VERIF_ALGO_COMMON_HPP
#define VERIF_ALGO_COMMON_HPP
template <class Tree>
std::string dump(const Tree& tree){
    std::string s = "H=" + std::to_string(tree.getHeight());
    for(long l = 0 ; l < tree.getHeight() ; ++l){
        s += " | L" + std::to_string(l) + ":";
        for(const auto& g : tree.getCellGroupsAtLevel(l)){
            s += " [" + std::to_string(g.getStartingSpacialIndex()) + " " + std::to_string(g.getEndingSpacialIndex()) + " " + std::to_string(g.getNbCells()) + ":";
            for(long k = 0 ; k < g.getNbCells() ; ++k) s += " " + std::to_string(g.getCellSpacialIndex(k));
            s += "]";
        }
    }
    s += " | P:";
    for(const auto& g : tree.getParticleGroups()){
        s += " [" + std::to_string(g.getStartingSpacialIndex()) + " " + std::to_string(g.getEndingSpacialIndex()) + " " + std::to_string(g.getNbLeaves()) + " " + std::to_string(g.getNbParticles()) + ":";
        for(long k = 0 ; k < g.getNbLeaves() ; ++k){
            const auto& h = g.getLeafSymbData(k);
            s += " (" + std::to_string(h.spaceIndex) + " " + std::to_string(h.nbParticles) + " " + std::to_string(h.offSet) + ":";
            std::vector<long> parts(g.getParticleIndexes(k), g.getParticleIndexes(k) + h.nbParticles);
            std::sort(parts.begin(), parts.end());
            for(long p : parts) s += " " + std::to_string(p);
            s += ")";
        }
        s += "]";
    }
    return s;
}

template <class Tree>
void tag_cells(Tree& tree){
    tree.applyToAllCells([](long level, auto&& h, auto&& m, auto&& l){
        if(m){ m->get().tagLevel1 = level + 1; m->get().tagIndex = h.spaceIndex; }
        if(l){ l->get().tagLevel1 = level + 1; l->get().tagIndex = h.spaceIndex; }
    });
}

template <class Tree>
std::string values(Tree& tree){
    std::vector<std::pair<long, unsigned long>> r;
    tree.applyToAllLeaves([&](auto&& h, const long* idx, auto&&, auto&& rhs){
        for(long p = 0 ; p < h.nbParticles ; ++p) r.push_back({idx[p], rhs[0][p]});
    });
    std::sort(r.begin(), r.end());
    std::string s = "R";
    for(auto& kv : r) s += " " + std::to_string(kv.first) + "=" + std::to_string(kv.second);
    s += " || C";
    tree.applyToAllCells([&](long level, auto&& h, auto&& m, auto&& l){
        s += " " + std::to_string(level) + "/" + std::to_string(h.spaceIndex) + "=" + std::to_string(m ? m->get().val : 0UL) + "," + std::to_string(l ? l->get().val : 0UL);
    });
    return s;
}

// digests of the three kinds of state (particle results, multipoles, locals) for the write-set clauses of C12
template <class Tree>
std::string snapshot(Tree& tree){
    unsigned long hr = 1469598103934665603UL, hm = hr, hl = hr;
    tree.applyToAllLeaves([&](auto&& h, const long* idx, auto&&, auto&& rhs){
        for(long p = 0 ; p < h.nbParticles ; ++p) hr += vw_mix((unsigned long)idx[p] * 31 + rhs[0][p]);
    });
    tree.applyToAllCells([&](long level, auto&& h, auto&& m, auto&& l){
        if(m) hm += vw_mix((unsigned long)(level * 1000003 + h.spaceIndex) * 31 + m->get().val);
        if(l) hl += vw_mix((unsigned long)(level * 1000003 + h.spaceIndex) * 31 + l->get().val);
    });
    return "r=" + std::to_string(hr) + " m=" + std::to_string(hm) + " l=" + std::to_string(hl);
}

static std::string join_trace(TraceSink& sink){
    std::string s;
    for(size_t k = 0 ; k < sink.lines.size() ; ++k){ if(k) s += " ; "; s += sink.lines[k]; }
    return s;
}

template <class Groups, class PGroups>
std::string dump_parts(long H, Groups&& cellGroupsAt, PGroups&& pgroups){
    std::string s = "H=" + std::to_string(H);
    for(long l = 0 ; l < H ; ++l){
        s += " | L" + std::to_string(l) + ":";
        for(const auto& g : cellGroupsAt(l)){
            s += " [" + std::to_string(g.getStartingSpacialIndex()) + " " + std::to_string(g.getEndingSpacialIndex()) + " " + std::to_string(g.getNbCells()) + ":";
            for(long k = 0 ; k < g.getNbCells() ; ++k) s += " " + std::to_string(g.getCellSpacialIndex(k));
            s += "]";
        }
    }
    s += " | P:";
    for(const auto& g : pgroups){
        s += " [" + std::to_string(g.getStartingSpacialIndex()) + " " + std::to_string(g.getEndingSpacialIndex()) + " " + std::to_string(g.getNbLeaves()) + " " + std::to_string(g.getNbParticles()) + ":";
        for(long k = 0 ; k < g.getNbLeaves() ; ++k){
            const auto& h = g.getLeafSymbData(k);
            s += " (" + std::to_string(h.spaceIndex) + " " + std::to_string(h.nbParticles) + " " + std::to_string(h.offSet) + ":";
            std::vector<long> parts(g.getParticleIndexes(k), g.getParticleIndexes(k) + h.nbParticles);
            std::sort(parts.begin(), parts.end());
            for(long p : parts) s += " " + std::to_string(p);
            s += ")";
        }
        s += "]";
    }
    return s;
}


#endif
