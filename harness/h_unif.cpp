// Harness for the one-dimensional building block of the uniform kernel (C05): FUnifRoots<Real, ORDER>::roots, L, dL.
//   unif <real:64|32> <order> <xnum> <xden>   ->  roots... | L_0(x) ... L_{order-1}(x) | dL_0(x) ...   (x = xnum/xden in [-1,1], %.17g)
#include "kernels/unifkernel/FUnifRoots.hpp"
#include "common.hpp"
#include <cstdio>

template <class Real, int ORDER>
std::string run_unif(double x){
    std::string out;
    char buf[64];
    for(int m = 0 ; m < ORDER ; ++m){ std::snprintf(buf, sizeof buf, "%s%.17g", m ? " " : "", double(FUnifRoots<Real, ORDER>::roots[m])); out += buf; }
    out += " |";
    for(int n = 0 ; n < ORDER ; ++n){ std::snprintf(buf, sizeof buf, " %.17g", double(FUnifRoots<Real, ORDER>::L(n, Real(x)))); out += buf; }
    out += " |";
    for(int n = 0 ; n < ORDER ; ++n){ std::snprintf(buf, sizeof buf, " %.17g", double(FUnifRoots<Real, ORDER>::dL(n, Real(x)))); out += buf; }
    return out;
}

template <class Real>
std::string by_order(long order, double x){
    switch(order){
    case 2: return run_unif<Real, 2>(x); case 3: return run_unif<Real, 3>(x); case 4: return run_unif<Real, 4>(x);
    case 5: return run_unif<Real, 5>(x); case 6: return run_unif<Real, 6>(x); case 7: return run_unif<Real, 7>(x);
    case 8: return run_unif<Real, 8>(x);
    }
    return "?order";
}

int main(int argc, char** argv){
    return run_commands(argc, argv, [](const Cmd& c) -> std::string {
        if(c.tok[0] != "unif") return "?unknown";
        const double x = double(c.L(3)) / double(c.L(4));
        return c.L(1) == 64 ? by_order<double>(c.L(2), x) : by_order<float>(c.L(2), x);
    });
}
