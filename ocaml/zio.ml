(* Hand-written glue (trusted): decimal I/O for the extracted Z type, token reader. *)
open Model

let z_of_small (n : int) : z =
  (* n >= 0 small *)
  let rec pos n = if n = 1 then XH else if n land 1 = 0 then XO (pos (n lsr 1)) else XI (pos (n lsr 1)) in
  if n = 0 then Z0 else if n > 0 then Zpos (pos n) else Zneg (pos (-n))

let z10 = z_of_small 10

let z_of_string (s : string) : z =
  let n = String.length s in
  let neg = n > 0 && s.[0] = '-' in
  let start = if neg then 1 else 0 in
  (* chunks of 15 digits via native ints for speed *)
  let acc = ref Z0 in
  let i = ref start in
  while !i < n do
    let len = min 15 (n - !i) in
    let chunk = int_of_string (String.sub s !i len) in
    let mul = ref (z_of_small 1) in
    for _ = 1 to len do mul := Z.mul !mul z10 done;
    acc := Z.add (Z.mul !acc !mul) (z_of_small chunk);
    i := !i + len
  done;
  if neg then Z.sub Z0 !acc else !acc

let rec pos_to_int (p : positive) : int =
  match p with XH -> 1 | XO q -> 2 * pos_to_int q | XI q -> 2 * pos_to_int q + 1

let rec pos_bits (p : positive) : int = match p with XH -> 1 | XO q | XI q -> 1 + pos_bits q

let z_fits (z : z) = match z with Z0 -> true | Zpos p | Zneg p -> pos_bits p <= 61

let z_to_int (z : z) : int =
  match z with Z0 -> 0 | Zpos p -> pos_to_int p | Zneg p -> - (pos_to_int p)

let rec z_to_string (z : z) : string =
  if z_fits z then string_of_int (z_to_int z)
  else match z with
    | Zneg p -> "-" ^ z_to_string (Zpos p)
    | _ ->
      let chunk = z_of_string "1000000000000000" in
      let (q, r) = Z.div_eucl z chunk in
      z_to_string q ^ Printf.sprintf "%015d" (z_to_int r)

let zs = z_to_string
let zi = z_to_int
let iz = z_of_small
let rec nat_of_int n = if n <= 0 then O else S (nat_of_int (n - 1))
let rec int_of_nat = function O -> 0 | S k -> 1 + int_of_nat k

let zlist_to_string (l : z list) = String.concat " " (List.map zs l)
let tokens (line : string) : string list =
  List.filter (fun s -> s <> "") (String.split_on_char ' ' (String.trim line))
