(* Hand-written driver (trusted): reads one command per line from the case
   file given as argv.(1), calls the extracted model, prints one line per
   command in the same canonical text format as the C++ harnesses. *)
open Model
open Zio

let bool_of_tok s = s <> "0"

let pr_recs (l : xinter list) =
  String.concat " " (List.map (fun r -> Printf.sprintf "(%s %s %s %s)" (zs r.x_tgt) (zs r.x_src) (zs r.x_tpos) (zs r.x_code)) l)

let index_cmd (toks : string list) : string option =
  match toks with
  | "box" :: d :: cs -> let d = nat_of_int (int_of_string d) in
      Some (zs (box d (List.map z_of_string cs)))
  | ["hunbox"; h; i] -> Some (zlist_to_string (h_unbox (z_of_string h) (z_of_string i)))
  | "hbox" :: h :: cs -> Some (zs (h_box (z_of_string h) (List.map z_of_string cs)))
  | ["hparent"; _h; i] -> Some (zs (h_parent (z_of_string i)))
  | ["hccode"; _h; i] -> Some (zs (h_child_code (z_of_string i)))
  | ["hilist"; h; per; l; i] ->
      Some (zlist_to_string (List.map fst (h_ilist_cell (z_of_string h) (bool_of_tok per) (z_of_string l) (z_of_string i))))
  | ["hnlist"; h; per; l; up; i] ->
      Some (zlist_to_string (List.map fst (h_nlist_cell (z_of_string h) (bool_of_tok per) (z_of_string l) (bool_of_tok up) (z_of_string i))))
  | "boxsafe" :: d :: cs -> let d = nat_of_int (int_of_string d) in
      Some (if box_safe d (List.map z_of_string cs) then "safe" else "unsafe")
  | ["unbox"; d; i] -> let d = nat_of_int (int_of_string d) in
      Some (zlist_to_string (unbox d (z_of_string i)))
  | ["parent"; d; i] -> Some (zs (parent (nat_of_int (int_of_string d)) (z_of_string i)))
  | ["ccode"; d; i] -> Some (zs (child_code (nat_of_int (int_of_string d)) (z_of_string i)))
  | ["child"; d; p; c] -> Some (zs (child (nat_of_int (int_of_string d)) (z_of_string p) (z_of_string c)))
  | "enc7" :: d :: r -> ignore d; Some (zs (enc7 (List.map z_of_string r)))
  | "enc3" :: d :: r -> ignore d; Some (zs (enc3 (List.map z_of_string r)))
  | ["dec7"; d; c] -> Some (zlist_to_string (dec7 (nat_of_int (int_of_string d)) (z_of_string c)))
  | ["dec3"; d; c] -> Some (zlist_to_string (dec3 (nat_of_int (int_of_string d)) (z_of_string c)))
  | "pshift" :: d :: h :: code :: coords ->
      let dn = nat_of_int (int_of_string d) in
      let l = z_of_string (string_of_int (int_of_string h - 1)) in
      let t = box dn (List.map z_of_string coords) in
      let o = dec3 dn (z_of_string code) in
      Some ((if need_shift dn l t o then "need=1 " else "need=0 ") ^ zlist_to_string (image_shift dn l t o))
  | ["ilist"; d; per; l; i] ->
      let r = ilist_cell (nat_of_int (int_of_string d)) (bool_of_tok per) (z_of_string l) (z_of_string i) in
      Some (zlist_to_string (List.map fst r))
  | ["nlist"; d; per; l; up; i] ->
      let r = nlist_cell (nat_of_int (int_of_string d)) (bool_of_tok per) (z_of_string l) (bool_of_tok up) (z_of_string i) in
      Some (zlist_to_string (List.map fst r))
  | "iblock" :: d :: per :: l :: ts :: _n :: cells ->
      let g = mk_cgroup (List.map z_of_string cells) in
      let (i, e) = ilist_block (nat_of_int (int_of_string d)) (bool_of_tok per) (z_of_string l) (bool_of_tok ts) g in
      Some ("I " ^ pr_recs i ^ " E " ^ pr_recs e)
  | "nblock" :: d :: per :: l :: up :: ts :: _n :: cells ->
      let cells = List.map z_of_string cells in
      let leaves = List.map (fun c -> { lf_index = c; lf_n = Z0; lf_off = Z0; lf_parts = [] }) cells in
      let cg = mk_cgroup cells in
      let g = { pg_first = cg.cg_first; pg_last = cg.cg_last; pg_nl = cg.cg_n; pg_np = Z0; pg_leaves = leaves } in
      let (i, e) = nlist_block (nat_of_int (int_of_string d)) (bool_of_tok per) (z_of_string l) (bool_of_tok up) (bool_of_tok ts) g in
      Some ("I " ^ pr_recs i ^ " E " ^ pr_recs e)
  | _ -> None

(* ---- tree commands ---- *)
let dump_tree (t : tree) : string =
  let b = Buffer.create 256 in
  Buffer.add_string b (Printf.sprintf "H=%d" (List.length t.t_levels));
  List.iteri (fun l groups ->
    Buffer.add_string b (Printf.sprintf " | L%d:" l);
    List.iter (fun g ->
      Buffer.add_string b (Printf.sprintf " [%s %s %s:" (zs g.cg_first) (zs g.cg_last) (zs g.cg_n));
      List.iter (fun c -> Buffer.add_string b (" " ^ zs c)) g.cg_cells;
      Buffer.add_string b "]") groups) t.t_levels;
  Buffer.add_string b " | P:";
  List.iter (fun g ->
    Buffer.add_string b (Printf.sprintf " [%s %s %s %s:" (zs g.pg_first) (zs g.pg_last) (zs g.pg_nl) (zs g.pg_np));
    List.iter (fun lf ->
      Buffer.add_string b (Printf.sprintf " (%s %s %s:" (zs lf.lf_index) (zs lf.lf_n) (zs lf.lf_off));
      let parts = List.sort compare (List.map zi lf.lf_parts) in
      List.iter (fun p -> Buffer.add_string b (" " ^ string_of_int p)) parts;
      Buffer.add_string b ")") g.pg_leaves;
    Buffer.add_string b "]") t.t_pgroups;
  Buffer.contents b

let rec split_at_bar (toks : string list) : string list * string list =
  match toks with
  | [] -> ([], [])
  | "|" :: r -> ([], r)
  | x :: r -> let (a, b) = split_at_bar r in (x :: a, b)

let rec take n l = if n <= 0 then [] else match l with [] -> [] | x :: r -> x :: take (n-1) r
let rec drop n l = if n <= 0 then l else match l with [] -> [] | _ :: r -> drop (n-1) r

(* grid coordinate of a numerator n (position n/(16*2^(H-1)) in the unit box; upper face clamps) *)
let coord_of_num (h : int) (n : int) : int =
  let lim = 1 lsl (h - 1) in
  let c = n / 16 in if c >= lim then lim - 1 else c

let parse_tree (toks : string list) =
  match toks with
  | "tree" :: d :: per :: h :: b :: mode :: n :: rest ->
      let d = int_of_string d and h = int_of_string h and n = int_of_string n in
      let (nums, queries) = split_at_bar rest in
      let nums = List.map int_of_string nums in
      let dn = nat_of_int d in
      let rec parts l = if l = [] then [] else take d l :: parts (drop d l) in
      let coords = List.map (List.map (fun x -> iz (coord_of_num h x))) (parts nums) in
      ignore n;
      let idx = List.map (box dn) coords in
      let t = build (parent dn) (iz h) (z_of_string b) (bool_of_tok mode) idx in
      Some (d, bool_of_tok per, h, t, idx, queries)
  | _ -> None

let opt_pair = function Some (g, k) -> zs g ^ " " ^ zs k | None -> "none"
let opt_z = function Some k -> zs k | None -> "none"

let tree_cmd (toks : string list) : string option =
  match parse_tree toks with
  | None -> None
  | Some (d, _per, h, t0, idx0, queries) ->
      let dn = nat_of_int d in
      let t = ref t0 in
      let idx = ref idx0 in
      let bsz = z_of_string (List.nth toks 4) and mode = bool_of_tok (List.nth toks 5) in
      let b = Buffer.create 256 in
      Buffer.add_string b (dump_tree !t);
      let rec go q =
        match q with
        | [] -> ()
        | "fc" :: l :: i :: r -> Buffer.add_string b (" || " ^ opt_pair (find_cell !t (z_of_string l) (z_of_string i))); skip r
        | "fl" :: i :: r -> Buffer.add_string b (" || " ^ opt_pair (find_leaf !t (z_of_string i))); skip r
        | "setrhs" :: r -> Buffer.add_string b " || ok"; skip r
        | "export" :: r ->
            (* identity payload: which original particle's values land in slot i *)
            let n = List.length !idx in
            let get i = zs (export_get (iz (-1)) (fun i _ -> i) (iz 1) !t (iz i) Z0) in
            Buffer.add_string b " || E";
            for i = 0 to n - 1 do Buffer.add_string b (Printf.sprintf " %d=%s:%s" i (get i) (get i)) done;
            Buffer.add_string b " bad=0"; skip r
        | "mv" :: k :: r ->
            let nums = List.map int_of_string (take d r) in
            let c = List.map (fun x -> iz (coord_of_num h x)) nums in
            let k = int_of_string k in
            idx := List.mapi (fun j x -> if j = k then box dn c else x) !idx;
            Buffer.add_string b " || moved=1"; skip (drop d r)
        | "rebuild" :: r ->
            t := rebuild (parent dn) (iz h) bsz mode !idx;
            Buffer.add_string b (" || " ^ dump_tree !t); skip r
        | "ei" :: l :: g :: i :: r ->
            let t = !t in
            let grp = List.nth (List.nth t.t_levels (int_of_string l)) (int_of_string g) in
            Buffer.add_string b (" || " ^ opt_z (cg_find grp (z_of_string i))); skip r
        | "ep" :: l :: g :: i :: r ->
            let t = !t in
            let grp = List.nth (List.nth t.t_levels (int_of_string l)) (int_of_string g) in
            Buffer.add_string b (" || " ^ opt_z (cg_find_parent (parent dn) grp (z_of_string i))); skip r
        | "li" :: g :: i :: r ->
            let t = !t in
            let grp = List.nth t.t_pgroups (int_of_string g) in
            Buffer.add_string b (" || " ^ opt_z (pg_find grp (z_of_string i))); skip r
        | ("data" | "zero" | "cv") :: r -> Buffer.add_string b " || -"; skip r   (* decided by the oracle, not the model *)
        | x :: _ -> Buffer.add_string b (" || ?query " ^ x)
      and skip r = match r with "|" :: r' -> go r' | [] -> () | x :: _ -> Buffer.add_string b (" || ?syntax " ^ x) in
      go queries;
      Some (Buffer.contents b)

(* ---- executor commands ---- *)
let pids (l : z list) = String.concat "," (List.map string_of_int (List.sort compare (List.map zi l)))
let pairs (l : (z * z) list) =
  let l = List.sort compare (List.map (fun (a, b) -> (zi a, zi b)) l) in
  String.concat " " (List.map (fun (a, b) -> Printf.sprintf "%d,%d" a b) l)
let pairs_big (l : (z * z) list) =
  String.concat " " (List.sort compare (List.map (fun (a, b) -> zs a ^ "," ^ zs b) l))

let call_str (c : call) : string =
  match c with
  | CP2M (leaf, parts) -> Printf.sprintf "P2M %s : %s" (zs leaf) (pids parts)
  | CM2M (l, p, ch) -> Printf.sprintf "M2M %s %s : %s" (zs l) (zs p) (pairs ch)
  | CM2L (l, t, sr) -> Printf.sprintf "M2L %s %s : %s" (zs l) (zs t) (pairs sr)
  | CL2L (l, p, ch) -> Printf.sprintf "L2L %s %s : %s" (zs l) (zs p) (pairs ch)
  | CL2P (leaf, parts) -> Printf.sprintf "L2P %s : %s" (zs leaf) (pids parts)
  | CP2P (s, t, code, sp, tp) -> Printf.sprintf "P2P %s %s %s : %s : %s" (zs s) (zs t) (zs code) (pids sp) (pids tp)
  | CP2PTsm (s, t, code, sp, tp) -> Printf.sprintf "P2PTsm %s %s %s : %s : %s" (zs s) (zs t) (zs code) (pids sp) (pids tp)
  | CP2PInner (leaf, parts) -> Printf.sprintf "P2PInner %s : %s" (zs leaf) (pids parts)
  | CAssert id -> Printf.sprintf "ASSERT %s" (zs id)

let exec_cmd (toks : string list) : string option =
  match toks with
  | ("exec" | "execrb") :: d :: per :: h :: b :: mode :: stop :: nf :: rest ->
      let nf = int_of_string nf in
      let flags = take nf rest in
      let rest = drop nf rest in
      (match rest with
       | n :: nums ->
         (match parse_tree ("tree" :: d :: per :: h :: b :: mode :: n :: nums) with
          | Some (d, per, _h, t, _idx, _) ->
              let dn = nat_of_int d in
              let b = Buffer.create 1024 in
              Buffer.add_string b (dump_tree t);
              Buffer.add_string b " || ";
              let first = ref true in
              List.iter (fun f ->
                let calls = execute dn per (z_of_string stop) (z_of_string f) t in
                List.iter (fun c -> if not !first then Buffer.add_string b " ; "; first := false; Buffer.add_string b (call_str c)) calls;
                if not !first then Buffer.add_string b " ; "; first := false; Buffer.add_string b "--") flags;
              Some (Buffer.contents b)
          | None -> None)
       | [] -> None)
  | _ -> None

(* ---- memory block commands ---- *)
let parse_kind (s : string) : bkind =
  match String.split_on_char ':' s with
  | ["S"; sz] -> Scalar (z_of_string sz)
  | ["V"; sz] -> Vector (z_of_string sz)
  | ["R"; sz; rows] -> MultiR (z_of_string sz, z_of_string rows)
  | ["C"; sz; rows] -> MultiV (z_of_string sz, z_of_string rows)
  | _ -> failwith "kind"

let z64 = iz 64

let acc_string (ks : bkind list) (items : z list) (offs : z list) : string =
  let b = Buffer.create 64 in
  List.iteri (fun bi k ->
    let n = zi (List.nth items bi) in
    let off = List.nth offs bi in
    let rows = zi (rows_of k) in
    let emit i r = Buffer.add_string b (Printf.sprintf " %d:%d:%d:%s" bi i r (zs (elem_offset z64 k off (iz n) (iz i) (iz r)))) in
    (match k with
     | Scalar _ -> emit 0 0
     | Vector _ -> List.iter (fun i -> if i >= 0 && i < n then emit i 0) [0; n/2; n-1]
     | _ -> List.iter (fun i -> List.iter (fun r -> if i >= 0 && i < n then emit i r) [0; rows-1]) [0; n/2; n-1])) ks;
  Buffer.contents b

let mem_cmd (toks : string list) : string option =
  match toks with
  | "mem" :: _id :: nb :: rest ->
      let nb = int_of_string nb in
      let ks = List.map parse_kind (take nb rest) in
      let ops = drop nb rest in
      let st = ref mb_empty in
      let outs = ref [] in
      let rec go ops =
        match ops with
        | [] -> ()
        | "R" :: r ->
            let sizes = List.map z_of_string (take nb r) in
            st := reset z64 ks !st sizes;
            let (items, offs) = init_header ks !st in
            outs := (Printf.sprintf "alloc=%s trailer=%s acc=%s" (zs !st.mb_alloc)
                       (String.concat "," (List.map zs (offs @ items))) (acc_string ks sizes (offsets z64 ks sizes))) :: !outs;
            go (drop nb r)
        | ("M" | "A" | "B" | "b") :: r -> outs := ("moved alloc=" ^ zs !st.mb_alloc) :: !outs; go r
        | "V" :: r ->
            let (items, offs) = init_header ks !st in
            outs := (Printf.sprintf "view acc=%s same=1" (acc_string ks items offs)) :: !outs; go r
        | "F" :: r ->
            let (items, _) = init_header ks !st in
            let n = List.fold_left2 (fun acc k it -> acc + (match k with Scalar _ -> 1 | Vector _ -> zi it | MultiR (_, rows) | MultiV (_, rows) -> zi it * zi rows)) 0 ks items in
            outs := (Printf.sprintf "each n=%d same=1" n) :: !outs; go r
        | x :: _ -> outs := ("?op " ^ x) :: !outs in
      go ops;
      Some (String.concat " || " (List.rev !outs))
  | _ -> None

let exectsm_cmd (toks : string list) : string option =
  match toks with
  | "exectsm" :: d :: per :: h :: b :: mode :: stop :: nf :: rest ->
      let nf = int_of_string nf in
      let flags = take nf rest in
      let rest = drop nf rest in
      let di = int_of_string d in
      (match rest with
       | ns :: r1 ->
           let ns_i = int_of_string ns in
           let snums = take (ns_i * di) r1 in
           (match drop (ns_i * di) r1 with
            | nt :: tnums ->
                (match parse_tree ("tree" :: d :: per :: h :: b :: mode :: ns :: snums),
                       parse_tree ("tree" :: d :: per :: h :: b :: mode :: nt :: tnums) with
                 | Some (_, perb, _, ts, _, _), Some (_, _, _, tt, _, _) ->
                     let dn = nat_of_int di in
                     let bf = Buffer.create 1024 in
                     Buffer.add_string bf (dump_tree ts); Buffer.add_string bf " || "; Buffer.add_string bf (dump_tree tt);
                     Buffer.add_string bf " || ";
                     let first = ref true in
                     List.iter (fun f ->
                       let calls = execute_tsm dn perb (z_of_string stop) (z_of_string f) ts tt in
                       List.iter (fun c -> if not !first then Buffer.add_string bf " ; "; first := false; Buffer.add_string bf (call_str c)) calls;
                       if not !first then Buffer.add_string bf " ; "; first := false; Buffer.add_string bf "--") flags;
                     Some (Buffer.contents bf)
                 | _ -> None)
            | [] -> None)
       | [] -> None)
  | _ -> None

let codes_str (l : z list) = String.concat " " (List.map string_of_int (List.sort compare (List.map zi l)))
let tcall_str (c : tcall) : string =
  match c with
  | TM2M_base (l, ch) -> Printf.sprintf "TM2M_base %s : %s" (zs l) (pairs ch)
  | TM2M (l, cs) -> Printf.sprintf "TM2M %s : %s" (zs l) (codes_str cs)
  | TM2L (l, cs) -> Printf.sprintf "TM2L %s : %s" (zs l) (codes_str cs)
  | TL2L (l, cs) -> Printf.sprintf "TL2L %s : %s" (zs l) (codes_str cs)
  | TL2L_base (l, ch) -> Printf.sprintf "TL2L_base %s : %s" (zs l) (pairs ch)

let execper_cmd (toks : string list) : string option =
  match toks with
  | "execper" :: d :: h :: b :: mode :: k :: stop :: n :: nums ->
      (match parse_tree ("tree" :: d :: "1" :: h :: b :: mode :: n :: nums) with
       | Some (di, _, _, t, _, _) ->
           let dn = nat_of_int di in
           let kz = z_of_string k in
           let calls = periodic_run dn kz (z_of_string stop) t in
           let strs = List.map (function Real c -> call_str c | Top c -> tcall_str c) calls in
           let (lo, hi) = repetition_interval kz in
           Some (dump_tree t ^ " || " ^ String.concat " ; " strs ^ " || I " ^ zs lo ^ " " ^ zs hi ^ " " ^ zs (nb_repetitions kz))
       | None -> None)
  | _ -> None

let cnt_str (k : counters) =
  Printf.sprintf "%s %s %s %s %s %s %s" (zs k.c_p2m) (zs k.c_m2m) (zs k.c_m2l) (zs k.c_l2l) (zs k.c_l2p) (zs k.c_p2p) (zs k.c_inner)

(* execcnt d per H B mode stop nsplit m_1..m_nsplit N nums : one kernel copy per mask *)
let execcnt_cmd (toks : string list) : string option =
  match toks with
  | "execcnt" :: d :: per :: h :: b :: mode :: stop :: nf :: rest ->
      let nf = int_of_string nf in
      let masks = take nf rest in
      let rest = drop nf rest in
      (match rest with
       | n :: nums ->
         (match parse_tree ("tree" :: d :: per :: h :: b :: mode :: n :: nums) with
          | Some (d, per, _h, t, _idx, _) ->
              let dn = nat_of_int d in
              let traces = List.map (fun f -> execute dn per (z_of_string stop) (z_of_string f) t) masks in
              let ks = List.map count_trace traces in
              let all = List.concat traces in
              Some (dump_tree t ^ " || " ^ String.concat " ; " (List.map call_str all)
                    ^ " || K " ^ String.concat " | " (List.map cnt_str ks)
                    ^ " || F " ^ cnt_str (merge_counters ks) ^ " || B " ^ cnt_str (merge_counters (List.rev ks)))
          | None -> None)
       | [] -> None)
  | _ -> None

(* execcnttsm d per h b mode stop nf f.. ns snums nt tnums : counters of the target/source run *)
let execcnttsm_cmd (toks : string list) : string option =
  match toks with
  | "execcnttsm" :: d :: per :: h :: b :: mode :: stop :: nf :: rest ->
      let nf = int_of_string nf in
      let masks = take nf rest in
      let rest = drop nf rest in
      let di = int_of_string d in
      (match rest with
       | ns :: r1 ->
           let ns_i = int_of_string ns in
           let snums = take (ns_i * di) r1 in
           (match drop (ns_i * di) r1 with
            | nt :: tnums ->
                (match parse_tree ("tree" :: d :: per :: h :: b :: mode :: ns :: snums),
                       parse_tree ("tree" :: d :: per :: h :: b :: mode :: nt :: tnums) with
                 | Some (_, perb, _, ts, _, _), Some (_, _, _, tt, _, _) ->
                     let dn = nat_of_int di in
                     let traces = List.map (fun f -> execute_tsm dn perb (z_of_string stop) (z_of_string f) ts tt) masks in
                     let ks = List.map count_trace traces in
                     let all = List.concat traces in
                     Some (dump_tree ts ^ " || " ^ dump_tree tt ^ " || " ^ String.concat " ; " (List.map call_str all)
                           ^ " || K " ^ String.concat " | " (List.map cnt_str ks)
                           ^ " || F " ^ cnt_str (merge_counters ks) ^ " || B " ^ cnt_str (merge_counters (List.rev ks)))
                 | _ -> None)
            | [] -> None)
       | [] -> None)
  | _ -> None

(* ---- uniform kernel: roots, Lagrange polynomials and derivatives as exact rationals p/q ---- *)
let unif_cmd (toks : string list) : string option =
  match toks with
  | ["unif"; _real; order; xnum; xden] ->
      let o = int_of_string order in
      let on = nat_of_int o in
      let x = { qnum = z_of_string xnum; qden = (match z_of_string xden with Zpos p -> p | _ -> XH) } in
      let qstr q = let r = qred q in zs r.qnum ^ "/" ^ zs (Zpos r.qden) in
      let idx = List.init o (fun k -> nat_of_int k) in
      Some (String.concat " " (List.map (fun m -> qstr (unif_root on m)) idx) ^ " | "
            ^ String.concat " " (List.map (fun n -> qstr (unif_L on n x)) idx) ^ " | "
            ^ String.concat " " (List.map (fun n -> qstr (unif_dL on n x)) idx))
  | _ -> None

(* ---- direct P2P on SpecFloat ---- *)
let p2p_cmd (toks : string list) : string option =
  match toks with
  | "p2p" :: fmt :: routine :: ns :: nt :: r0 :: words ->
      let (prec, emax) = if fmt = "64" then (iz 53, iz 1024) else (iz 24, iz 128) in
      let ns = int_of_string ns and nt = int_of_string nt in
      let dec w = sf_of_bits prec emax (z_of_string w) in
      let enc x = zs (bits_of_sf prec emax x) in
      let o = sf_ops prec emax in
      let r0 = dec r0 in
      let rec parts n l = if n = 0 then ([], l) else
        (match l with
         | x :: y :: z :: v :: r -> let (ps, rest) = parts (n-1) r in ({ p_x = dec x; p_y = dec y; p_z = dec z; p_v = dec v } :: ps, rest)
         | _ -> failwith "p2p words") in
      let (src, rest) = parts ns words in
      let (tgt, _) = parts nt rest in
      let rz = { f_x = r0; f_y = r0; f_z = r0; f_p = r0 } in
      let pr rs = String.concat " " (List.concat_map (fun r -> [enc r.f_x; enc r.f_y; enc r.f_z; enc r.f_p]) rs) in
      (match routine with
       | "remote" -> Some (pr (full_remote o src (List.map (fun t -> (t, rz)) tgt)))
       | "mutual" ->
           let (srcs, trs) = full_mutual o (List.map (fun s -> (s, rz)) src) (List.map (fun t -> (t, rz)) tgt) in
           Some (pr trs ^ " | " ^ pr (List.map snd srcs))
       | "inner" -> Some (pr (inner o (List.map (fun t -> (t, rz)) tgt)))
       | _ -> None)
  | _ -> None

let loc_cmd (toks : string list) : string option =
  match toks with
  | [("loc" | "locnd") as op; fmt; h; c; w; p] ->
      let (prec, emax) = if fmt = "64" then (iz 53, iz 1024) else (iz 24, iz 128) in
      let dec x = sf_of_bits prec emax (z_of_string x) in
      let f = if op = "loc" then locate1 else locate1_ndebug in
      (match f prec emax (z_of_string h) (dec c) (dec w) (dec p) with
       | LocCoord k -> Some (zs k)
       | LocAssert -> Some "ASSERT"
       | LocUndefined -> Some "UNDEFINED")
  | [("loc" | "locnd") as op; fmt; h; c0; w0; p0; c1; w1; p1] ->
      let (prec, emax) = if fmt = "64" then (iz 53, iz 1024) else (iz 24, iz 128) in
      let dec x = sf_of_bits prec emax (z_of_string x) in
      let f = if op = "loc" then locate1 else locate1_ndebug in
      (match f prec emax (z_of_string h) (dec c0) (dec w0) (dec p0), f prec emax (z_of_string h) (dec c1) (dec w1) (dec p1) with
       | LocCoord a, LocCoord b -> Some (zs (box (nat_of_int 2) [a; b]))
       | LocAssert, _ | _, LocAssert -> Some "ASSERT"
       | _ -> Some "UNDEFINED")
  | _ -> None

let execpertsm_cmd (toks : string list) : string option =
  match toks with
  | "execpertsm" :: d :: h :: b :: mode :: k :: stop :: ns :: rest ->
      let di = int_of_string d and ns_i = int_of_string ns in
      let snums = take (ns_i * di) rest in
      (match drop (ns_i * di) rest with
       | nt :: tnums ->
           (match parse_tree ("tree" :: d :: "1" :: h :: b :: mode :: ns :: snums), parse_tree ("tree" :: d :: "1" :: h :: b :: mode :: nt :: tnums) with
            | Some (_, _, _, ts, _, _), Some (_, _, _, tt, _, _) ->
                let dn = nat_of_int di in
                let kz = z_of_string k in
                let calls = periodic_run_tsm dn kz (z_of_string stop) ts tt in
                let strs = List.map (function Real c -> call_str c | Top c -> tcall_str c) calls in
                let (lo, hi) = repetition_interval kz in
                Some (dump_tree ts ^ " || " ^ dump_tree tt ^ " || " ^ String.concat " ; " strs ^ " || I " ^ zs lo ^ " " ^ zs hi ^ " " ^ zs (nb_repetitions kz))
            | _ -> None)
       | [] -> None)
  | _ -> None

(* exectop d H B mode k stop nf f_1..f_nf N nums : the real upward pass, then the top tree alone once per flag mask *)
let exectop_cmd (toks : string list) : string option =
  match toks with
  | "exectop" :: d :: h :: b :: mode :: k :: stop :: nf :: rest ->
      let nf = int_of_string nf in
      let masks = take nf rest in
      (match drop nf rest with
       | n :: nums ->
         (match parse_tree ("tree" :: d :: "1" :: h :: b :: mode :: n :: nums) with
          | Some (di, _, _, t, _, _) ->
              let dn = nat_of_int di in
              let kz = z_of_string k in
              let up = List.map call_str (execute dn true (z_of_string stop) (z_of_string "6") t) in
              let tops = List.concat (List.map (fun f -> List.map tcall_str (top_execute dn kz (z_of_string f) t)) masks) in
              Some (dump_tree t ^ " || " ^ String.concat " ; " (up @ tops))
          | None -> None)
       | [] -> None)
  | _ -> None

let exectoptsm_cmd (toks : string list) : string option =
  match toks with
  | "exectoptsm" :: d :: h :: b :: mode :: k :: stop :: nf :: rest ->
      let nf = int_of_string nf in
      let masks = take nf rest in
      let di = int_of_string d in
      (match drop nf rest with
       | ns :: rest2 ->
         let ns_i = int_of_string ns in
         let snums = take (ns_i * di) rest2 in
         (match drop (ns_i * di) rest2 with
          | nt :: tnums ->
            (match parse_tree ("tree" :: d :: "1" :: h :: b :: mode :: ns :: snums), parse_tree ("tree" :: d :: "1" :: h :: b :: mode :: nt :: tnums) with
             | Some (_, _, _, ts, _, _), Some (_, _, _, tt, _, _) ->
                 let dn = nat_of_int di in
                 let kz = z_of_string k in
                 let up = List.map call_str (execute_tsm dn true (z_of_string stop) (z_of_string "6") ts tt) in
                 let tops = List.concat (List.map (fun f -> List.map tcall_str (top_execute_tsm dn kz (z_of_string f) ts tt)) masks) in
                 Some (dump_tree ts ^ " || " ^ dump_tree tt ^ " || " ^ String.concat " ; " (up @ tops))
             | _ -> None)
          | [] -> None)
       | [] -> None)
  | _ -> None

let handlers : (string list -> string option) list ref = ref [loc_cmd; exectoptsm_cmd; exectop_cmd; execpertsm_cmd; index_cmd; tree_cmd; exec_cmd; exectsm_cmd; execper_cmd; execcnttsm_cmd; execcnt_cmd; mem_cmd; unif_cmd; p2p_cmd]

let () =
  let ic = open_in Sys.argv.(1) in
  (try
    while true do
      let line = input_line ic in
      let toks = tokens line in
      if toks <> [] then begin
        let rec go = function
          | [] -> print_endline ("?unknown " ^ line)
          | h :: t -> (match h toks with Some s -> print_endline s | None -> go t) in
        go !handlers
      end
    done
  with End_of_file -> ());
  close_in ic
