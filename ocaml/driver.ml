(* Hand-written driver (trusted): reads one command per line from the case
   file given as argv.(1), calls the extracted model, prints one line per
   command in the same canonical text format as the C++ harnesses. *)
open Model
open Zio

let bool_of_tok s = s <> "0"

let pr_recs (l : xinter list) =
  String.concat " " (List.map (fun r -> Printf.sprintf "(%s %s %s %s)" (zs r.x_tgt) (zs r.x_src) (zs r.x_tpos) (zs r.x_code)) l)

let index_cmd (toks : string list) : string option =
  match toks with
  | "box" :: d :: cs -> let d = nat_of_int (int_of_string d) in
      Some (zs (box d (List.map z_of_string cs)))
  | ["unbox"; d; i] -> let d = nat_of_int (int_of_string d) in
      Some (zlist_to_string (unbox d (z_of_string i)))
  | ["parent"; d; i] -> Some (zs (parent (nat_of_int (int_of_string d)) (z_of_string i)))
  | ["ccode"; d; i] -> Some (zs (child_code (nat_of_int (int_of_string d)) (z_of_string i)))
  | ["child"; d; p; c] -> Some (zs (child (nat_of_int (int_of_string d)) (z_of_string p) (z_of_string c)))
  | "enc7" :: d :: r -> ignore d; Some (zs (enc7 (List.map z_of_string r)))
  | "enc3" :: d :: r -> ignore d; Some (zs (enc3 (List.map z_of_string r)))
  | ["dec7"; d; c] -> Some (zlist_to_string (dec7 (nat_of_int (int_of_string d)) (z_of_string c)))
  | ["dec3"; d; c] -> Some (zlist_to_string (dec3 (nat_of_int (int_of_string d)) (z_of_string c)))
  | ["ilist"; d; per; l; i] ->
      let r = ilist_cell (nat_of_int (int_of_string d)) (bool_of_tok per) (z_of_string l) (z_of_string i) in
      Some (zlist_to_string (List.map fst r))
  | ["nlist"; d; per; l; up; i] ->
      let r = nlist_cell (nat_of_int (int_of_string d)) (bool_of_tok per) (z_of_string l) (bool_of_tok up) (z_of_string i) in
      Some (zlist_to_string (List.map fst r))
  | "iblock" :: d :: per :: l :: ts :: _n :: cells ->
      let g = mk_cgroup (List.map z_of_string cells) in
      let (i, e) = ilist_block (nat_of_int (int_of_string d)) (bool_of_tok per) (z_of_string l) (bool_of_tok ts) g in
      Some ("I " ^ pr_recs i ^ " E " ^ pr_recs e)
  | "nblock" :: d :: per :: l :: up :: ts :: _n :: cells ->
      let cells = List.map z_of_string cells in
      let leaves = List.map (fun c -> { lf_index = c; lf_n = Z0; lf_off = Z0; lf_parts = [] }) cells in
      let cg = mk_cgroup cells in
      let g = { pg_first = cg.cg_first; pg_last = cg.cg_last; pg_nl = cg.cg_n; pg_np = Z0; pg_leaves = leaves } in
      let (i, e) = nlist_block (nat_of_int (int_of_string d)) (bool_of_tok per) (z_of_string l) (bool_of_tok up) (bool_of_tok ts) g in
      Some ("I " ^ pr_recs i ^ " E " ^ pr_recs e)
  | _ -> None

let handlers : (string list -> string option) list ref = ref [index_cmd]

let () =
  let ic = open_in Sys.argv.(1) in
  (try
    while true do
      let line = input_line ic in
      let toks = tokens line in
      if toks <> [] then begin
        let rec go = function
          | [] -> print_endline ("?unknown " ^ line)
          | h :: t -> (match h toks with Some s -> print_endline s | None -> go t) in
        go !handlers
      end
    done
  with End_of_file -> ());
  close_in ic
