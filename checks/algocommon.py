"""Shared by C01/C02/C08/C12/C18: executor cases, trace parsing, independent oracles."""
import os, sys, re, itertools
from collections import Counter
sys.path.insert(0, os.path.join(os.path.dirname(__file__), "..", "tools"))
from checks import oracle_index as O
from checks import treecommon as T

M64 = (1 << 64) - 1
WSEED = 12345


def vw_mix(z):
    z = (z + 0x9E3779B97F4A7C15) & M64
    z = ((z ^ (z >> 30)) * 0xBF58476D1CE4E5B9) & M64
    z = ((z ^ (z >> 27)) * 0x94D049BB133111EB) & M64
    return z ^ (z >> 31)


def weight(pid):
    return vw_mix(WSEED ^ ((pid * 0x100000001B3) & M64))


F_P2P, F_P2M, F_M2M, F_M2L, F_L2L, F_L2P = 1, 2, 4, 8, 16, 32
F_ALL = 63


class ExecCase(T.TreeCase):
    def __init__(self, d, per, H, B, mode, nums, stop=2, flags=(63,), rb=False):
        super().__init__(d, per, H, B, mode, nums)
        self.stop, self.flags, self.rb = stop, list(flags), rb

    def text(self):
        return ("execrb" if self.rb else "exec") + " %d %d %d %d %d %d %d %s %d %s" % (self.d, self.per, self.H, self.B, self.mode, self.stop, len(self.flags),
                                                     " ".join(map(str, self.flags)), self.N, " ".join(str(x) for p in self.nums for x in p))


def parse_exec_case(text):
    t = text.split()
    d, per, H, B, mode, stop, nf = (int(x) for x in t[1:8])
    flags = [int(x) for x in t[8:8 + nf]]
    N = int(t[8 + nf])
    nums = [int(x) for x in t[9 + nf:]]
    ec = ExecCase(d, per, H, B, mode, [nums[k * d:(k + 1) * d] for k in range(N)], stop, flags, t[0] == "execrb")
    if B < 0:
        ec.B = T.auto_block_size(ec, -B)      # automatic block size, B = -(hardware threads)
    return ec


def exec_model_text(text):
    """the same case with the automatic block size replaced by its value, for the model"""
    f = text.split()
    if int(f[4]) < 0:
        f[4] = str(parse_exec_case(text).B)
    return " ".join(f)


class Call:
    __slots__ = ("op", "level", "tgt", "srcs", "code", "sparts", "tparts", "extra", "src")

    def __init__(self):
        self.op = None; self.level = None; self.tgt = None; self.srcs = []; self.code = None
        self.sparts = []; self.tparts = []; self.extra = {}; self.src = None


def parse_call(line):
    """parses one call line of either side. impl lines carry c=/t=/sc=/tc= fields and 'lvl/idx,code' sources."""
    c = Call()
    line = line.strip()
    head, _, rest = line.partition(" : ")
    ht = head.split()
    c.op = ht[0]
    nums = [x for x in ht[1:] if "=" not in x]
    for x in ht[1:]:
        if "=" in x:
            k, v = x.split("=", 1)
            c.extra[k] = v
    if c.op in ("P2M", "L2P", "P2PInner"):
        c.tgt = int(nums[0])
        c.tparts = [int(x) for x in rest.split(",")] if rest.strip() else []
    elif c.op in ("M2M", "M2L", "L2L"):
        c.level, c.tgt = int(nums[0]), int(nums[1])
        for tok in rest.split():
            a, code = tok.rsplit(",", 1)
            if "/" in a:
                lv, idx = a.split("/")
                c.srcs.append((int(idx), int(code), int(lv)))
            else:
                c.srcs.append((int(a), int(code), None))
    elif c.op in ("P2P", "P2PTsm"):
        c.src, c.tgt, c.code = int(nums[0]), int(nums[1]), int(nums[2])
        sp, _, tp = rest.partition(" : ")
        c.sparts = [int(x) for x in sp.split(",")] if sp.strip() else []
        c.tparts = [int(x) for x in tp.split(",")] if tp.strip() else []
    elif c.op in ("--", "ASSERT"):
        pass
    return c


def split_trace(s):
    return [x.strip() for x in s.split(" ; ") if x.strip()]


def canon_call(c):
    """text form without the impl-only annotations"""
    if c.op in ("P2M", "L2P", "P2PInner"):
        return "%s %d : %s" % (c.op, c.tgt, ",".join(map(str, sorted(c.tparts))))
    if c.op in ("M2M", "M2L", "L2L"):
        return "%s %d %d : %s" % (c.op, c.level, c.tgt, " ".join("%d,%d" % (a, b) for a, b, _ in sorted(c.srcs)))
    if c.op in ("P2P", "P2PTsm"):
        return "%s %d %d %d : %s : %s" % (c.op, c.src, c.tgt, c.code, ",".join(map(str, sorted(c.sparts))), ",".join(map(str, sorted(c.tparts))))
    return c.op


def elementary(calls):
    """multiset of elementary interactions (operator, level, target, source, code) - what C08 talks about"""
    out = Counter()
    for c in calls:
        if c.op in ("P2M", "L2P", "P2PInner"):
            out[(c.op, -1, c.tgt, c.tgt, 0, tuple(sorted(c.tparts)))] += 1
        elif c.op in ("M2M", "M2L", "L2L"):
            for a, code, _ in c.srcs:
                out[(c.op, c.level, c.tgt, a, code)] += 1
        elif c.op in ("P2P", "P2PTsm"):
            out[(c.op, -1, c.tgt, c.src, c.code, tuple(sorted(c.sparts)), tuple(sorted(c.tparts)))] += 1
        elif c.op == "ASSERT":
            out[("ASSERT",)] += 1
    return out


def split_exec_output(line):
    parts = line.split(" || ")
    dump = parts[0]
    trace = split_trace(parts[1]) if len(parts) > 1 else []
    R, C = {}, {}
    if len(parts) > 2:
        for tok in parts[2].split()[1:]:
            k, v = tok.split("=")
            R[int(k)] = int(v)
    if len(parts) > 3:
        for tok in parts[3].split()[1:]:
            k, v = tok.split("=")
            lv, idx = k.split("/")
            m, l = v.split(",")
            C[(int(lv), int(idx))] = (int(m), int(l))
    return dump, trace, R, C


# ---------------------------------------------------------------------------
# independent oracles
def leaf_particles(tc):
    m = {}
    for p, li in enumerate(tc.leaf_indices()):
        m.setdefault(li, []).append(p)
    return m


def oracle_c02(tc, calls, lp_src=None, lp_tgt=None):
    """every operator call receives geometrically consistent arguments (from the impl's own lines)"""
    d, H, per = tc.d, tc.H, tc.per
    L = H - 1
    lp_all = leaf_particles(tc) if lp_src is None else None
    lp_src = lp_all if lp_src is None else lp_src
    lp_tgt = lp_all if lp_tgt is None else lp_tgt
    for c in calls:
        lp = lp_src if c.op == "P2M" else lp_tgt
        if c.op in ("P2M", "L2P", "P2PInner"):
            if "c" in c.extra and [int(x) for x in c.extra["c"].split(",")] != O.unbox(c.tgt, d):
                return "%s leaf %d header box coordinate %s != %s" % (c.op, c.tgt, c.extra["c"], O.unbox(c.tgt, d))
            if "t" in c.extra and c.extra["t"] != "%d/%d" % (L, c.tgt):
                return "%s leaf %d received cell %s" % (c.op, c.tgt, c.extra["t"])
            if sorted(c.tparts) != sorted(lp.get(c.tgt, [])) or not c.tparts:
                return "%s leaf %d received particles %s, the leaf holds %s" % (c.op, c.tgt, sorted(c.tparts)[:8], sorted(lp.get(c.tgt, []))[:8])
        elif c.op in ("M2M", "L2L"):
            if not (0 <= c.level <= H - 2):
                return "%s at level %d" % (c.op, c.level)
            if "c" in c.extra and [int(x) for x in c.extra["c"].split(",")] != O.unbox(c.tgt, d):
                return "%s parent %d header coordinate wrong" % (c.op, c.tgt)
            if "t" in c.extra and c.extra["t"] != "%d/%d" % (c.level, c.tgt):
                return "%s parent %d at level %d received cell %s" % (c.op, c.tgt, c.level, c.extra["t"])
            if not (1 <= len(c.srcs) <= (1 << d)):
                return "%s with %d children" % (c.op, len(c.srcs))
            seen = set()
            for a, code, lv in c.srcs:
                if lv is not None and lv != c.level + 1:
                    return "%s level %d child tagged level %d" % (c.op, c.level, lv)
                if (a >> d) != c.tgt:
                    return "%s parent %d received child %d (child of %d)" % (c.op, c.tgt, a, a >> d)
                bits = [x % 2 for x in O.unbox(a, d)]
                exp = sum(b << (d - 1 - j) for j, b in enumerate(bits))
                if code != exp:
                    return "%s child %d position code %d, octant is %d" % (c.op, a, code, exp)
                if a in seen:
                    return "%s child %d twice in one call" % (c.op, a)
                seen.add(a)
        elif c.op == "M2L":
            if "t" in c.extra and c.extra["t"] != "%d/%d" % (c.level, c.tgt):
                return "M2L target %d at level %d received cell %s" % (c.tgt, c.level, c.extra["t"])
            if "c" in c.extra and [int(x) for x in c.extra["c"].split(",")] != O.unbox(c.tgt, d):
                return "M2L target %d header coordinate wrong" % c.tgt
            if not (1 <= len(c.srcs) <= 6 ** d - 3 ** d):
                return "M2L with %d sources" % len(c.srcs)
            tp = O.unbox(c.tgt, d)
            n = 1 << c.level
            for a, code, lv in c.srcs:
                if lv is not None and lv != c.level:
                    return "M2L level %d source tagged level %d" % (c.level, lv)
                o = O.dec(code, d, 7, 3)
                u = [tp[j] + o[j] for j in range(d)]
                w = [x % n for x in u] if per else u
                if (not per and any(x < 0 or x >= n for x in u)) or O.box(w, d) != a:
                    return "M2L target %d source %d code %d decodes to offset %s -> cell %s" % (c.tgt, a, code, o, w)
                if all(abs(x) <= 1 for x in o):
                    return "M2L target %d source %d adjacent (offset %s)" % (c.tgt, a, o)
                if any(abs(u[j] // 2 - tp[j] // 2) > 1 for j in range(d)):
                    return "M2L target %d source %d: parents not adjacent" % (c.tgt, a)
        elif c.op in ("P2P", "P2PTsm"):
            o = O.dec(c.code, d, 3, 1)
            tp = O.unbox(c.tgt, d)
            n = 1 << L
            u = [tp[j] + o[j] for j in range(d)]
            w = [x % n for x in u] if per else u
            if all(x == 0 for x in o) and c.op == "P2P":
                return "P2P of leaf %d with itself" % c.tgt
            if (not per and any(x < 0 or x >= n for x in u)) or O.box(w, d) != c.src:
                return "P2P target %d source %d code %d decodes to offset %s" % (c.tgt, c.src, c.code, o)
            if "sc" in c.extra and [int(x) for x in c.extra["sc"].split(",")] != O.unbox(c.src, d):
                return "P2P source header coordinate wrong"
            if not c.sparts or not c.tparts:
                return "P2P with an empty side"
            if sorted(c.sparts) != sorted(lp_src.get(c.src, [])) or sorted(c.tparts) != sorted(lp_tgt.get(c.tgt, [])):
                return "%s %d->%d received wrong particle sets" % (c.op, c.src, c.tgt)
    return None


def expected_cells(tc, s):
    """mult / local of every cell from the definition (levels >= s), non-periodic or periodic lists alike"""
    d, H, per = tc.d, tc.H, tc.per
    L = H - 1
    lp = leaf_particles(tc)
    mult = {}
    cells = {L: sorted(lp)}
    for c, ps in lp.items():
        mult[(L, c)] = sum(weight(p) for p in ps) & M64
    for l in range(L - 1, -1, -1):
        cells[l] = sorted(set(c >> d for c in cells[l + 1]))
        for c in cells[l]:
            mult[(l, c)] = sum(mult[(l + 1, ch)] for ch in cells[l + 1] if (ch >> d) == c) & M64
    loc = {}
    for l in range(0, H):
        cs = set(cells[l])
        for c in cells[l]:
            v = 0
            if l >= s:
                for src, _code in O.ilist(c, l, d, per):
                    if src in cs:
                        v += mult[(l, src)]
                if l > s:
                    v += loc[(l - 1, c >> d)]
            loc[(l, c)] = v & M64
    return cells, mult, loc


def oracle_c01_values(tc, R, C, s):
    """full run, stop level s: cell equations at levels >= s; rhs = every other particle exactly once when s <= 2 (non periodic)"""
    d, H = tc.d, tc.H
    cells, mult, loc = expected_cells(tc, s)
    for (l, c), (m, lo) in C.items():
        em = mult.get((l, c), 0) if (l >= s and H > s) else 0
        el = loc.get((l, c), 0) if (l >= s) else 0
        if (l, c) not in mult:
            return "cell %d/%d does not belong to the tree" % (l, c)
        if m != em:
            return "multipole of cell %d/%d = %d, sum over its particles = %d" % (l, c, m, em)
        if lo != el:
            return "local of cell %d/%d = %d, sum over interaction lists of it and its ancestors = %d" % (l, c, lo, el)
    if not tc.per and s <= 2:
        tot = sum(weight(p) for p in range(tc.N)) & M64
        for p in range(tc.N):
            exp = (tot - weight(p)) & M64
            if R.get(p) != exp:
                return "particle %d accumulated %s, one contribution from every other particle is %d" % (p, R.get(p), exp)
    return None


def replay_pairs(tc, calls):
    """free-kernel replay of a trace: for each particle the multiset of particles whose weight reached it"""
    d = tc.d
    mult, loc, rhs = {}, {}, {p: Counter() for p in range(tc.N)}
    for c in calls:
        if c.op == "P2M":
            mult.setdefault((tc.H - 1, c.tgt), Counter()).update(c.tparts)
        elif c.op == "M2M":
            for a, _, _ in c.srcs:
                mult.setdefault((c.level, c.tgt), Counter()).update(mult.get((c.level + 1, a), Counter()))
        elif c.op == "M2L":
            for a, _, _ in c.srcs:
                loc.setdefault((c.level, c.tgt), Counter()).update(mult.get((c.level, a), Counter()))
        elif c.op == "L2L":
            for a, _, _ in c.srcs:
                loc.setdefault((c.level + 1, a), Counter()).update(loc.get((c.level, c.tgt), Counter()))
        elif c.op == "L2P":
            for p in c.tparts:
                rhs[p].update(loc.get((tc.H - 1, c.tgt), Counter()))
        elif c.op == "P2P":
            for p in c.tparts: rhs[p].update(c.sparts)
            for p in c.sparts: rhs[p].update(c.tparts)
        elif c.op == "P2PInner":
            for p in c.tparts:
                rhs[p].update([q for q in c.tparts if q != p])
    return rhs


def oracle_c01_pairs(tc, calls):
    rhs = replay_pairs(tc, calls)
    for p in range(tc.N):
        cnt = rhs[p]
        for q in range(tc.N):
            e = 0 if q == p else 1
            if cnt.get(q, 0) != e:
                return "particle %d received particle %d %d times (expected %d)" % (p, q, cnt.get(q, 0), e)
    return None
