"""Floating-point half of C06: position -> grid coordinate.  Bit-exact correspondence between the SpecFloat model
(Float/LocateDefs.v, extracted) and the real getIndexFromPosition, plus an exact-rational containment oracle."""
import sys, os, struct
from fractions import Fraction
sys.path.insert(0, os.path.join(os.path.dirname(__file__), "..", "tools"))
import vlib
from checks import oracle_index as O


def b64(x): return struct.unpack("Q", struct.pack("d", x))[0]
def b32(x): return struct.unpack("I", struct.pack("f", x))[0]
def f64(b): return struct.unpack("d", struct.pack("Q", b))[0]
def f32(b): return struct.unpack("f", struct.pack("I", b))[0]


def rnd32(x): return f32(b32(x))


def nextafter(x, up, fmt):
    if fmt == 64:
        b = b64(x)
        if x == 0: return 5e-324 if up else -5e-324
        b = b + 1 if (x > 0) == up else b - 1
        return f64(b)
    b = b32(x)
    if x == 0: return f32(1) if up else -f32(1)
    b = b + 1 if (x > 0) == up else b - 1
    return f32(b)


def gen_cases(tier, rng):
    """returns (cases, upper_face_cases)"""
    cases, upper = [], []
    n = 1500 if tier == "quick" else 60000
    for _ in range(n):
        fmt = rng.choice([64, 64, 32])
        cv = rnd32 if fmt == 32 else (lambda x: x)
        bits = b64 if fmt == 64 else b32
        H = rng.range(1, 9 if fmt == 64 else 7)
        dyadic = rng.below(3) == 0
        dims = []
        for dim in range(2):
            if dyadic:
                w = 2.0 ** rng.range(-3, 3); c = w * rng.range(-4, 4) / 2.0
            else:
                w = cv((rng.unit() + 0.05) * 2.0 ** rng.range(-3, 4)); c = cv((rng.unit() - 0.5) * 2.0 ** rng.range(-2, 5))
            corner = cv(c + cv(w * -0.5))
            lw = cv(w * cv(1.0 / (1 << (H - 1))))
            kind = rng.below(8)
            k = rng.below(1 << (H - 1))
            if kind == 0: p = corner                                     # lower box face
            elif kind == 1: p = cv(corner + cv(k * lw))                  # on a cell face
            elif kind == 2: p = nextafter(cv(corner + cv(k * lw)), True, fmt)
            elif kind == 3: p = nextafter(cv(corner + cv(k * lw)), False, fmt) if k > 0 else corner
            elif kind == 4: p = cv(corner + cv((k + 0.5) * lw))          # cell centre
            elif kind == 5: p = nextafter(cv(corner + w), False, fmt)    # just below the upper face
            else: p = cv(corner + cv(rng.unit() * w))
            # keep strictly inside [corner, corner + w) as computed, so that the library's precondition holds
            rel = cv(p - corner)
            if not (0 <= rel < w): p = cv(corner + cv(0.5 * w))
            dims.append((c, w, p))
        one = rng.below(2) == 0
        if one:
            c, w, p = dims[0]
            cases.append("loc %d %d %d %d %d" % (fmt, H, bits(c), bits(w), bits(p)))
        else:
            cases.append("loc %d %d %s" % (fmt, H, " ".join("%d %d %d" % (bits(c), bits(w), bits(p)) for c, w, p in dims)))
    # cross-width cases: the relative position in one dimension equals the OTHER dimension's width (dyadic, exact)
    for _ in range(60 if tier == "quick" else 1000):
        H = rng.range(2, 8)
        w0 = 2.0 ** rng.range(-2, 2); w1 = w0 * rng.choice([2.0, 4.0, 0.5])
        c0, c1 = w0 / 2, w1 / 2          # corner at the origin
        p0 = w0 * rng.choice([0.25, 0.5, 0.75]); p1 = w0 if w0 < w1 else w1 * 0.5
        if rng.below(2): p0 = w1 if w1 < w0 else p0
        cases.append("loc 64 %d %d %d %d %d %d %d" % (H, b64(c0), b64(w0), b64(p0), b64(c1), b64(w1), b64(p1)))
    # the upper box face as a user computes it: fl(center + width/2)
    for _ in range(12 if tier == "quick" else 200):
        fmt = rng.choice([64, 32])
        cv = rnd32 if fmt == 32 else (lambda x: x)
        bits = b64 if fmt == 64 else b32
        H = rng.range(1, 7)
        w = cv((rng.unit() + 0.05) * 2.0 ** rng.range(-3, 4)); c = cv((rng.unit() - 0.5) * 2.0 ** rng.range(-2, 5))
        p = cv(c + cv(w * 0.5))
        upper.append("loc %d %d %d %d %d" % (fmt, H, bits(c), bits(w), bits(p)))
    return cases, upper


def oracle(c, line):
    """containment up to one rounding: with exact rationals q* = (p - (c - w/2)) / (w / 2^(H-1)); the coordinate k must satisfy
    k <= q* (1 + 4u) and q* (1 - 4u) < k + 1, and lie in the grid"""
    t = c.split()
    fmt, H = int(t[1]), int(t[2])
    dec = f64 if fmt == 64 else f32
    u = Fraction(1, 2 ** 53) if fmt == 64 else Fraction(1, 2 ** 24)
    vals = [dec(int(x)) for x in t[3:]]
    dims = [vals[i:i + 3] for i in range(0, len(vals), 3)]
    try:
        idx = int(line)
    except ValueError:
        return "non-numeric result " + line[:40]
    coords = O.unbox(idx, len(dims)) if len(dims) > 1 else [idx]
    n = 1 << (H - 1)
    for (cc, w, p), k in zip(dims, coords):
        if not (0 <= k < n):
            return "coordinate %d outside the grid [0,%d)" % (k, n)
        q = (Fraction(p) - (Fraction(cc) - Fraction(w) / 2)) / (Fraction(w) / n)
        slack = 4 * u * abs(q) + 4 * u * (abs(Fraction(cc)) + abs(Fraction(w))) * n / Fraction(w) + Fraction(1, 10 ** 12)
        if not (k <= q + slack and q - slack < k + 1):
            return "position %r in box (centre %r, width %r): coordinate %d but exact quotient %.6f" % (p, cc, w, k, float(q))
    return None


def run_float_part(rep, tier, seed, sdir):
    binary, err = vlib.build_harness("h_locate")
    if not binary:
        rep.violation(dict(kind="build", clause="h_locate", has_input=True), "harness h_locate does not compile: " + err[-600:], dict(stderr=err))
        return
    rng = vlib.Rng(seed).fork("locate")
    cases, upper = gen_cases(tier, rng)
    vlib.differential(rep, binary, cases, sdir, "locate", oracle=oracle, nontrivial=lambda c, i: True, clause=lambda c: "locate:" + c.split()[1])
    # upper face: the model predicts where the precondition assertion trips (relative position one ulp above the width)
    p = os.path.join(sdir, "upper.cases"); vlib.write_cases(p, upper)
    impl = vlib.run_impl(binary, p)
    model = vlib.run_model(p)
    trips = 0
    for c, i, m in zip(upper, impl, model):
        rep.evaluations += 1
        ia = i.startswith("ABORT")
        if m.strip() == "ASSERT" and ia:
            trips += 1
            rep.violation(dict(kind="abort", clause="upper-face-rounding", has_input=True),
                          "a particle on the upper box face fl(center + width/2) of a non-dyadic box trips the precondition assertion (relative position one ulp above the width): `%s` -> %s" % (c, i),
                          dict(case=c, impl=i, model=m))
        elif (m.strip() == "ASSERT") != ia or (not ia and i.strip() != m.strip()):
            rep.violation(dict(kind="correspondence", clause="locate-upper", has_input=True), "model and implementation differ on `%s`: impl=%s model=%s" % (c, i, m), dict(case=c, impl=i, model=m))
        else:
            om = oracle(c, i)
            if om:
                rep.violation(dict(kind="oracle", clause="locate-upper", has_input=True), "upper face: " + om, dict(case=c, impl=i))
    rep.count("upper_face_cases", len(upper)); rep.count("upper_face_assert_trips", trips)
