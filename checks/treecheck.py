"""Generic driver for the tree-level properties (C06, C07, C16): same harness (h_tree), same model,
different query mix and oracle emphasis."""
import sys, os, hashlib
sys.path.insert(0, os.path.join(os.path.dirname(__file__), "..", "tools"))
import vlib
from checks import treecommon as T, common


def add_lookup_queries(tc, rng, dumpless=True, nq=6):
    """present / absent / gap / out-of-range queries, computed from the expected leaf set"""
    d, H = tc.d, tc.H
    leafset = sorted(set(tc.leaf_indices()))
    levels = {H - 1: leafset}
    for l in range(H - 2, -1, -1):
        levels[l] = sorted(set(c >> d for c in levels[l + 1]))
    for _ in range(nq):
        l = rng.below(H)
        cells = levels[l]
        kind = rng.below(6)
        ub = 1 << (d * l)
        if kind == 0: i = rng.choice(cells)
        elif kind == 1: i = rng.choice(cells) + 1
        elif kind == 2: i = rng.choice(cells) - 1
        elif kind == 3: i = cells[0] - 1 - rng.below(3)
        elif kind == 4: i = cells[-1] + 1 + rng.below(3)
        else: i = rng.below(ub + 2)
        tc.queries.append("fc %d %d" % (l, i))
        if l == H - 1:
            tc.queries.append("fl %d" % i)
    return levels


def add_group_queries(tc, rng, dump, nq=4):
    """in-group lookups need the group structure: taken from the model-independent expectation = the implementation's own dump"""
    d, H = tc.d, tc.H
    for _ in range(nq):
        l = rng.below(H)
        groups = dump["levels"][l]
        if not groups:
            continue
        g = rng.below(len(groups))
        cells = groups[g]["cells"]
        kind = rng.below(5)
        if kind == 0: i = rng.choice(cells)
        elif kind == 1: i = rng.choice(cells) + 1
        elif kind == 2: i = cells[0] - 1
        elif kind == 3: i = cells[-1] + 1
        else: i = rng.range(cells[0], cells[-1])
        tc.queries.append("ei %d %d %d" % (l, g, i))
        if l == H - 1:
            tc.queries.append("li %d %d" % (g, i))
        ps = sorted(set(c >> d for c in cells))
        kind = rng.below(5)
        if kind == 0: p = rng.choice(ps)
        elif kind == 1: p = rng.choice(ps) + 1
        elif kind == 2: p = ps[0] - 1
        elif kind == 3: p = ps[-1] + 1
        else: p = rng.range(ps[0], ps[-1])
        tc.queries.append("ep %d %d %d" % (l, g, p))


def moves(tc, rng):
    """displacements of a random subset (possibly empty, possibly all): near moves, far moves, onto faces, into one leaf"""
    out = []
    lim = 16 << (tc.H - 1)
    kind = rng.below(5)
    if kind == 0:
        return out
    ids = [i for i in range(tc.N) if kind == 4 or rng.below(3) == 0] or [rng.below(tc.N)]
    target = [rng.below(lim) for _ in range(tc.d)]
    for i in ids[:60]:
        if kind == 1:
            new = [min(lim, max(0, x + rng.range(-20, 20))) for x in tc.nums[i]]
        elif kind == 2:
            new = [rng.below(lim + 1) for _ in range(tc.d)]
        elif kind == 3:
            new = [rng.choice([0, lim, 16 * rng.below(lim // 16)]) for _ in range(tc.d)]
        else:
            new = [min(lim, (x // 16) * 16 + rng.below(16)) for x in target]
        out.append("mv %d %s" % (i, " ".join(map(str, new))))
    return out


def run_tree_property(pid, prop_file, tier, seed, want, extra=None):
    """want: set of {'structure','placement','data','lookup'}"""
    rep = vlib.Report(pid, tier, seed, "proof")
    sdir = vlib.scratch(pid)
    try:
        common.proof_part(rep, prop_file)
        binary, err = vlib.build_harness("h_tree")
        if not binary:
            rep.violation(dict(kind="build", clause="h_tree", has_input=True), "harness h_tree does not compile: " + err[-600:], dict(stderr=err))
            return rep.finish()
        rng = vlib.Rng(seed).fork(pid)
        cases = []
        nexh = 0
        for tc in T.gen_exhaustive(tier):
            cases.append(tc); nexh += 1
        nrand = 400 if tier == "quick" else 5000
        maxN = 300 if tier == "quick" else 1200
        for tc in T.gen_random(rng, nrand, maxN):
            cases.append(tc)
        # the automatic block size (constructor default): B = -(hardware threads) in the case text
        ph = os.path.join(sdir, "hc.cases"); vlib.write_cases(ph, ["hc"])
        try:
            hc = int(vlib.run_impl(binary, ph)[0])
        except Exception:
            hc = 0
        if hc > 0:
            nauto = 0
            for tc in cases[nexh:]:
                if rng.below(8) == 0:
                    tc.B = -hc; nauto += 1
            rep.coverage["automatic_block_size_cases"] = nauto
        # thin the exhaustive family for the properties where it is not the point
        if "structure" not in want and tier == "quick":
            keep = [c for k, c in enumerate(cases[:nexh]) if k % 7 == 0]
            cases = keep + cases[nexh:]
        if "lookup" in want:
            # first pass without group queries to learn the group structure from the implementation
            for tc in cases:
                add_lookup_queries(tc, rng)
            p0 = os.path.join(sdir, "pre.cases")
            vlib.write_cases(p0, [tc.text().split(" | ")[0] for tc in cases])
            pre = vlib.run_impl(binary, p0)
            for tc, line in zip(cases, pre):
                if not line.startswith("ABORT"):
                    try:
                        add_group_queries(tc, rng, T.parse_dump(line.split(" || ")[0]))
                    except Exception:
                        pass
        if "data" in want:
            for tc in cases:
                tc.queries += ["data", "zero"]
        if "export" in want:
            for tc in cases:
                r = rng.below(3)
                tc.queries += ["setrhs", "export"] if r == 0 else (["setrhs"] + moves(tc, rng) + ["rebuild", "export"] if r == 1 else ["setrhs", "export"] + moves(tc, rng) + ["rebuild", "export", "data"])
        if "rebuild" in want:
            for tc in cases:
                tc.queries += ["setrhs"]
                for cyc in range(rng.range(1, 3)):
                    tc.queries += moves(tc, rng) + ["rebuild", "data", "zero"]
        texts = [tc.text() for tc in cases]

        def canon(c, line):
            # model prints '-' for queries it does not decide
            parts = line.split(" || ")
            tcq = c.split(" | ")[1:]
            out = [parts[0]]
            for q, r in zip(tcq, parts[1:]):
                out.append("-" if q.split()[0] in ("data", "zero", "cv") else r)
            return out

        def canon_unused(c, line):
            out = []
            return out

        def oracle(c, line):
            tc = T.parse_case(c)
            parts = line.split(" || ")
            try:
                dump = T.parse_dump(parts[0])
            except Exception as e:
                return "unparsable dump: %s" % e
            if "structure" in want:
                m = T.oracle_structure(tc, dump)
                if m: return "structure: " + m
            if "placement" in want:
                m = T.oracle_placement(tc, dump)
                if m: return "placement: " + m
            cur = T.TreeCase(tc.d, tc.per, tc.H, tc.B, tc.mode, [list(p) for p in tc.nums])
            rhs_set = False
            for q, r in zip(tc.queries, parts[1:]):
                qt = q.split()
                k = qt[0]
                if k == "setrhs":
                    rhs_set = True
                elif k == "mv":
                    cur.nums[int(qt[1])] = [int(x) for x in qt[2:2 + tc.d]]
                    if r.strip() != "moved=1": return "move: " + r
                elif k == "rebuild":
                    try:
                        dump = T.parse_dump(r)
                    except Exception as e:
                        return "unparsable dump after rebuild: %s" % e
                    m = T.oracle_structure(cur, dump)
                    if m: return "rebuild structure: " + m
                    m = T.oracle_placement(cur, dump)
                    if m: return "rebuild placement: " + m
                elif k == "data" and ("data" in want or "rebuild" in want):
                    m = T.oracle_data(cur, r, rhs_set)
                    if m: return "data: " + m
                elif k == "zero" and ("data" in want or "rebuild" in want):
                    if r.strip() != "nonzero=0": return "cells not zero: " + r
                elif k == "export" and "export" in want:
                    m = T.oracle_export(cur, r)
                    if m: return "export: " + m
                elif "lookup" in want and k in ("fc", "fl", "ei", "ep", "li"):
                    m = T.oracle_lookup(tc, dump, q, r)
                    if m: return "lookup: " + m
            return None

        def nontrivial(c, line):
            try:
                return T.nontrivial(T.parse_dump(line.split(" || ")[0]))
            except Exception:
                return False

        vlib.differential(rep, binary, texts, sdir, "tree", canon=canon, oracle=oracle, nontrivial=nontrivial, model_cases=[T.model_text(x) for x in texts],
                          clause=lambda c: "tree:d%s:mode%s" % (c.split()[1], c.split()[5]))
        # the automatic block size overridden by the TBFMM_BLOCK_SIZE environment variable (documented; C08's quantifier)
        if hc > 0 and "structure" in want:
            for envB in (1, 3, 100):
                ecases = []
                for tc in T.gen_random(rng, 25 if tier == "quick" else 400, 200):
                    tc.B = -hc
                    ecases.append(tc.text())
                def eoracle(c, line, envB=envB):
                    tc = T.parse_case(c); tc.B = envB
                    try:
                        dump = T.parse_dump(line.split(" || ")[0])
                    except Exception as e:
                        return "unparsable dump: %s" % e
                    m = T.oracle_structure(tc, dump) or T.oracle_placement(tc, dump)
                    return ("with TBFMM_BLOCK_SIZE=%d: %s" % (envB, m)) if m else None
                def mtext(x, envB=envB):
                    f = x.split(); f[4] = str(envB); return " ".join(f)
                vlib.differential(rep, binary, ecases, sdir, "env%d" % envB, canon=canon, oracle=eoracle, model_cases=[mtext(x) for x in ecases],
                                  clause=lambda c: "tree:env-block-size", impl_env=dict(vlib.SAN_ENV, TBFMM_BLOCK_SIZE=str(envB)))
        rep.coverage["rule"] = ("occupancy-exhaustive small trees (every non-empty subset of leaves x every block size x both grouping modes) + random structured trees "
                                "(d=1..4, uniform/clustered/corner/single-leaf/faces/lattice, B in {1,2,3,5,8,n/2,n,n+1,1000,1e7}); non-trivial = height>=3 and >=2 groups at some level; distinct by case text. "
                                "exhaustive family: %d cases" % nexh)
        rep.count("exhaustive_cases", nexh)
        if extra:
            extra(rep, sdir)
        return rep.finish()
    finally:
        vlib.cleanup(sdir)
