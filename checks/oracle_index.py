"""Independent brute-force statement of the grid hierarchy (Python big ints),
written from the property text, not from the C++ or the Coq model."""
import itertools


_SPREAD = {}


def _spread(x, d):
    """bits of x moved to positions k*d (memoised)"""
    key = (x, d)
    r = _SPREAD.get(key)
    if r is None:
        r = 0
        k = 0
        y = x
        while y:
            if y & 1:
                r |= 1 << (k * d)
            y >>= 1
            k += 1
        if len(_SPREAD) < 2000000:
            _SPREAD[key] = r
    return r


def box(coords, d):
    idx = 0
    for j in range(d):
        idx |= _spread(coords[j], d) << (d - 1 - j)
    return idx


def box_slow(coords, d):
    idx = 0
    nb = max([c.bit_length() for c in coords] + [0])
    for k in range(nb):
        for j in range(d):
            if (coords[j] >> k) & 1:
                idx |= 1 << (k * d + (d - 1 - j))
    return idx


def unbox(idx, d):
    coords = [0] * d
    k = 0
    while idx >> (k * d):
        for j in range(d):
            if (idx >> (k * d + (d - 1 - j))) & 1:
                coords[j] |= 1 << k
        k += 1
    return coords


def enc(rel, base, off):
    v = 0
    for r in rel:
        v = v * base + (r + off)
    return v


def dec(code, d, base, off):
    out = [0] * d
    for k in range(d):
        out[d - 1 - k] = code % base - off
        code //= base
    return out


_OFFS7 = {}


def _offsets7(d):
    if d not in _OFFS7:
        _OFFS7[d] = [(o, enc(o, 7, 3)) for o in itertools.product(range(-3, 4), repeat=d) if not all(abs(x) <= 1 for x in o)]
    return _OFFS7[d]


def ilist(idx, l, d, per):
    """fast version of ilist_def (same definition; offsets and bit spreading precomputed)"""
    if (per and l < 1) or (not per and l < 2):
        return []
    c = unbox(idx, d)
    ch = [x >> 1 for x in c]
    n = 1 << l
    res = []
    rng = range(d)
    for o, code in _offsets7(d):
        ok = True
        u = [0] * d
        for j in rng:
            x = c[j] + o[j]
            dj = (x >> 1) - ch[j]
            if dj > 1 or dj < -1:
                ok = False
                break
            if per:
                x %= n
            elif x < 0 or x >= n:
                ok = False
                break
            u[j] = x
        if ok:
            res.append((box(u, d), code))
    res.sort()
    return res


def ilist_def(idx, l, d, per):
    """multiset of (source index, code): children of the parent's neighbours (wrapped when periodic,
    clipped otherwise) that are not adjacent to the cell; code from the true (unwrapped) offset."""
    if (per and l < 1) or (not per and l < 2):
        return []
    c = unbox(idx, d)
    n = 1 << l
    res = []
    for o in itertools.product(range(-3, 4), repeat=d):
        if all(abs(x) <= 1 for x in o):
            continue
        u = [c[j] + o[j] for j in range(d)]
        if any(abs((u[j] // 2) - (c[j] // 2)) > 1 for j in range(d)):
            continue
        if per:
            w = [x % n for x in u]
        else:
            if any(x < 0 or x >= n for x in u):
                continue
            w = u
        res.append((box(w, d), enc(o, 7, 3)))
    return sorted(res)


def lexpos(o):
    for x in o:
        if x != 0:
            return x > 0
    return False


def nlist(idx, l, d, per, upper):
    c = unbox(idx, d)
    n = 1 << l
    res = []
    for o in itertools.product(range(-1, 2), repeat=d):
        if all(x == 0 for x in o):
            continue
        u = [c[j] + o[j] for j in range(d)]
        if per:
            w = [x % n for x in u]
        else:
            if any(x < 0 or x >= n for x in u):
                continue
            w = u
        if upper and not lexpos(o):
            continue
        res.append((box(w, d), enc(o, 3, 1)))
    return sorted(res)
