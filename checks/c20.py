"""C20 — direct particle-particle routines implement the pairwise law, symmetrically.
 1. proofs (coq/Properties/Properties_C20.v): laws of the generic model in exact (real) arithmetic,
 2. correspondence: the SAME generic Gallina term instantiated on Coq's SpecFloat (IEEE binary64/binary32), extracted, must be
    BIT-IDENTICAL to the C++ routines (built with -ffp-contract=off, no -march=native) on the same bit patterns,
 3. oracle: independent 60-digit decimal evaluation of sum q_j/r and q_i q_j (x_j-x_i)/r^3; results must match to rounding."""
import sys, os, struct
from decimal import Decimal, getcontext
sys.path.insert(0, os.path.join(os.path.dirname(__file__), "..", "tools"))
import vlib
from checks import common

getcontext().prec = 60


def bits64(x): return struct.unpack("Q", struct.pack("d", x))[0]
def bits32(x): return struct.unpack("I", struct.pack("f", x))[0]
def from64(b): return struct.unpack("d", struct.pack("Q", b))[0]
def from32(b): return struct.unpack("f", struct.pack("I", b))[0]


def gen_particles(rng, n, fmt, scale_exp, spread_exp, signs):
    ps = []
    for _ in range(n):
        p = []
        for _ in range(3):
            v = (rng.unit() - 0.5) * 2.0 ** spread_exp + 2.0 ** scale_exp * (1 if rng.below(2) else -1) * rng.unit()
            p.append(v)
        q = (rng.unit() + 0.01) * (2.0 ** rng.range(-3, 3))
        if signs and rng.below(2): q = -q
        p.append(q)
        if fmt == 32:
            p = [from32(bits32(v)) for v in p]
        ps.append(p)
    return ps


def words(ps, fmt):
    f = bits64 if fmt == 64 else bits32
    return " ".join(str(f(v)) for p in ps for v in p)


def gen_cases(tier, rng):
    cases = []
    counts = [0, 1, 2, 3, 4, 5, 7, 8, 9, 15, 16, 17, 31, 32, 33] if tier == "quick" else list(range(0, 70)) + [127, 128, 129, 255, 256, 257, 499, 500]
    reps = 1 if tier == "quick" else 2
    for fmt in (64, 32):
        for routine in ("remote", "mutual", "inner"):
            for _ in range(reps):
                for nt in counts:
                    ns = rng.choice(counts) if routine != "inner" else 0
                    if tier == "quick" and ns * nt > 600: ns = rng.choice([0, 1, 3, 8])
                    if ns * nt > 30000: ns = rng.choice([1, 2, 5, 16, 33])
                    se = rng.choice([-40, -20, -3, 0, 0, 3, 20, 40]) if fmt == 64 else rng.choice([-20, -3, 0, 0, 3, 20])
                    sp = se + rng.choice([-8, -2, 0, 0, 2])
                    signs = rng.below(2)
                    src = gen_particles(rng, ns, fmt, se, sp, signs)
                    tgt = gen_particles(rng, nt, fmt, se, sp, signs)
                    allp = [tuple(p[:3]) for p in src + tgt]
                    if len(set(allp)) != len(allp):
                        continue
                    r0 = 0 if rng.below(3) else (bits64(0.375) if fmt == 64 else bits32(0.375))
                    cases.append("p2p %d %s %d %d %d %s %s" % (fmt, routine, ns, nt, r0, words(src, fmt), words(tgt, fmt)))
    # block boundaries of larger loops (64 / 128 / 256-wide blocking or unrolling), every routine, both sides
    big = [63, 64, 65, 127, 128, 129, 255, 256, 257] if tier == "quick" else [63, 64, 65, 127, 128, 129, 255, 256, 257, 511, 512, 513, 767, 768, 769]
    for k, n in enumerate(big):
        fmt = (64, 32)[k % 2] if tier == "quick" else None
        for f in ((fmt,) if fmt else (64, 32)):
            se = rng.choice([-3, 0, 3]); sp = se + rng.choice([-2, 0, 2])
            tgt = gen_particles(rng, n, f, se, sp, 1)
            if len(set(tuple(p[:3]) for p in tgt)) == len(tgt):
                cases.append("p2p %d inner 0 %d 0 %s" % (f, n, words(tgt, f)))
            for routine in ("remote", "mutual"):
                for ns, nt in ((n, rng.choice([1, 2, 3])), (rng.choice([1, 2, 3]), n)):
                    src = gen_particles(rng, ns, f, se, sp, 1); tg2 = gen_particles(rng, nt, f, se, sp, 1)
                    allp = [tuple(p[:3]) for p in src + tg2]
                    if len(set(allp)) == len(allp):
                        cases.append("p2p %d %s %d %d 0 %s %s" % (f, routine, ns, nt, words(src, f), words(tg2, f)))
    return cases


def reference(src, tgt, self_excl):
    """60-digit reference: for each target i: (Fx,Fy,Fz,pot) and the sums of absolute term values"""
    out = []
    S = [[Decimal(v) for v in p] for p in src]
    T = [[Decimal(v) for v in p] for p in tgt]
    for i, t in enumerate(T):
        acc = [Decimal(0)] * 4
        mag = [Decimal(0)] * 4
        for j, s in enumerate(S):
            if self_excl and i == j:
                continue
            d = [s[k] - t[k] for k in range(3)]
            r2 = d[0] * d[0] + d[1] * d[1] + d[2] * d[2]
            inv = 1 / r2.sqrt()
            inv3 = inv / r2
            for k in range(3):
                term = t[3] * s[3] * d[k] * inv3
                acc[k] += term; mag[k] += abs(term)
            acc[3] += s[3] * inv; mag[3] += abs(s[3] * inv)
        out.append((acc, mag))
    return out


def check_close(got, ref, n, u, what, r0):
    for i, ((acc, mag), g) in enumerate(zip(ref, got)):
        for k in range(4):
            exp = acc[k] + Decimal(r0)
            tol = Decimal(8 * (n + 2)) * Decimal(u) * (mag[k] + abs(Decimal(r0))) + Decimal(1e-300)
            if not (abs(Decimal(g[k]) - exp) <= tol):
                return "%s particle %d component %d: got %r, pairwise law gives %s (tolerance %s)" % (what, i, k, g[k], +exp, +tol)
    return None


def oracle(c, line):
    t = c.split()
    fmt, routine, ns, nt, r0b = int(t[1]), t[2], int(t[3]), int(t[4]), int(t[5])
    dec = from64 if fmt == 64 else from32
    u = 2.0 ** -53 if fmt == 64 else 2.0 ** -24
    w = [dec(int(x)) for x in t[6:]]
    src = [w[4 * i:4 * i + 4] for i in range(ns)]
    tgt = [w[4 * ns + 4 * i:4 * ns + 4 * i + 4] for i in range(nt)]
    r0 = dec(r0b)
    a_, _, b_ = line.partition("|")
    parts = [a_, b_]
    tg = [dec(int(x)) for x in parts[0].split()]
    trhs = [tg[4 * i:4 * i + 4] for i in range(nt)]
    if any(x != x or x in (float("inf"), float("-inf")) for x in tg):
        return "non-finite result"
    if routine == "inner":
        m = check_close(trhs, reference(tgt, tgt, True), nt, u, "inner", r0)
        if m: return m
        return None
    m = check_close(trhs, reference(src, tgt, False), ns, u, routine + " target", r0)
    if m: return m
    if routine == "mutual":
        sg = [dec(int(x)) for x in parts[1].split()]
        srhs = [sg[4 * i:4 * i + 4] for i in range(ns)]
        m = check_close(srhs, reference(tgt, src, False), nt, u, "mutual source", r0)
        if m: return m
    return None


def run(tier, seed):
    rep = vlib.Report("C20", tier, seed, "proof")
    sdir = vlib.scratch("C20")
    try:
        common.proof_part(rep, "Properties_C20", extra_trusted=["Coq stdlib Floats.SpecFloat as the definition of IEEE-754 binary64/binary32 arithmetic (pure Gallina, no axioms)",
                                                               "g++ -O1 -ffp-contract=off on x86-64 SSE2 conforming to IEEE-754 for + - * / sqrt"])
        common.proof_part_more(rep, "Properties_C20e", extra_trusted=["Flocq (user-contrib) for the binary64 instance of the standard model; Classical_Prop.classic through Flocq"])
        binary, err = vlib.build_harness("h_p2p")
        if not binary:
            rep.violation(dict(kind="build", clause="h_p2p", has_input=True), "harness h_p2p does not compile: " + err[-600:], dict(stderr=err))
            return rep.finish()
        rng = vlib.Rng(seed).fork("c20")
        cases = gen_cases(tier, rng)
        vlib.differential(rep, binary, cases, sdir, "p2p", oracle=oracle, canon=lambda c, l: l.split(), nontrivial=lambda c, i: int(c.split()[4]) >= 2,
                          clause=lambda c: "p2p:%s:%s" % (c.split()[1], c.split()[2]))
        rep.coverage["rule"] = ("routines {GenericFullRemote, FullMutual, GenericInner} x {double, float} x counts around SIMD-width multiples (0,1,2,3,4,5,7,8,9,15,16,17,31,32,33; thorough up to 500) and around 64/128/256-wide blocks (63..257; thorough ..769) on either side "
                                "x separations 2^-40..2^40 x charges of either sign x zero/non-zero initial accumulators; bit-identity with the SpecFloat instance of the Gallina model + 60-digit reference; non-trivial = >= 2 targets")
        return rep.finish()
    finally:
        vlib.cleanup(sdir)
