from checks import numcheck
def run(tier, seed):
    return numcheck.run_num("C04", 0, "rotation", tier, seed)
