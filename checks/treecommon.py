"""Shared by C06/C07/C13/C16/C17: tree case generation, dump parsing, brute-force oracles."""
import re, itertools, os, sys
sys.path.insert(0, os.path.join(os.path.dirname(__file__), "..", "tools"))
from checks import oracle_index as O


def parse_dump(s):
    """'H=3 | L0: [f l n: c..] .. | P: [f l nl np: (i n off: p..) ..]' -> dict"""
    parts = [p.strip() for p in s.split(" | ")]
    H = int(parts[0][2:])
    levels = []
    pg = []
    for p in parts[1:]:
        name, body = p.split(":", 1)
        if name.startswith("L"):
            groups = []
            for m in re.finditer(r"\[(-?\d+) (-?\d+) (-?\d+):([^\]]*)\]", body):
                groups.append(dict(first=int(m.group(1)), last=int(m.group(2)), n=int(m.group(3)),
                                   cells=[int(x) for x in m.group(4).split()]))
            levels.append(groups)
        elif name == "P":
            for m in re.finditer(r"\[(-?\d+) (-?\d+) (-?\d+) (-?\d+):([^\]]*)\]", body):
                leaves = []
                for lm in re.finditer(r"\((-?\d+) (-?\d+) (-?\d+):([^)]*)\)", m.group(5)):
                    leaves.append(dict(index=int(lm.group(1)), n=int(lm.group(2)), off=int(lm.group(3)),
                                       parts=[int(x) for x in lm.group(4).split()]))
                pg.append(dict(first=int(m.group(1)), last=int(m.group(2)), nl=int(m.group(3)), np=int(m.group(4)), leaves=leaves))
    return dict(H=H, levels=levels, pgroups=pg)


class TreeCase:
    def __init__(self, d, per, H, B, mode, nums):
        self.d, self.per, self.H, self.B, self.mode, self.nums = d, per, H, B, mode, nums
        self.queries = []

    @property
    def N(self):
        return len(self.nums)

    def coords(self):
        lim = 1 << (self.H - 1)
        return [[min(n // 16, lim - 1) for n in p] for p in self.nums]

    def leaf_indices(self):
        return [O.box(c, self.d) for c in self.coords()]

    def text(self):
        s = "tree %d %d %d %d %d %d %s" % (self.d, self.per, self.H, self.B, self.mode, self.N,
                                          " ".join(str(x) for p in self.nums for x in p))
        for q in self.queries:
            s += " | " + q
        return s


def parse_case(text):
    t = text.split(" | ")
    h = t[0].split()
    d, per, H, B, mode, N = (int(x) for x in h[1:7])
    nums = [int(x) for x in h[7:]]
    tc = TreeCase(d, per, H, B, mode, [nums[k * d:(k + 1) * d] for k in range(N)])
    tc.queries = t[1:]
    if B < 0:
        tc.B = auto_block_size(tc, -B)
    return tc


def auto_block_size(tc, hc):
    """TbfBlockSizeFinder::Estimate: max(1, #occupied leaves / (2 * hardware threads)) - the documented automatic block size"""
    return max(1, len(set(tc.leaf_indices())) // (2 * hc))


def model_text(text):
    """the same case with the automatic block size (B < 0 = -hardware threads) replaced by its value, for the model"""
    h = text.split(" | ")
    f = h[0].split()
    if int(f[4]) < 0:
        f[4] = str(parse_case(text).B)
        h[0] = " ".join(f)
    return " | ".join(h)


def oracle_structure(tc, dump):
    """C07 clauses, from the dump alone + the expected leaf set."""
    d, H, B, mode = tc.d, tc.H, tc.B, tc.mode
    T = dump
    if T["H"] != H:
        return "height %d != %d" % (T["H"], H)
    leafset = sorted(set(tc.leaf_indices()))
    for l, groups in enumerate(T["levels"]):
        allc = []
        for g in groups:
            if g["n"] == 0 or not g["cells"]:
                return "empty group at level %d" % l
            if g["n"] != len(g["cells"]) or g["first"] != g["cells"][0] or g["last"] != g["cells"][-1]:
                return "level %d group header (%d,%d,%d) does not match content %s" % (l, g["first"], g["last"], g["n"], g["cells"][:6])
            if (not mode or l == H - 1) and g["n"] > B:
                return "level %d group of %d cells exceeds block size %d" % (l, g["n"], B)
            allc += g["cells"]
        if any(a >= b for a, b in zip(allc, allc[1:])):
            return "level %d cells not strictly increasing: %s" % (l, allc[:12])
        T["levels"][l] = groups
        g_all = allc
        if l == H - 1:
            if g_all != leafset:
                return "leaf level cells %s != occupied leaves %s" % (g_all[:10], leafset[:10])
        groups_cells = g_all
        T.setdefault("flat", {})[l] = groups_cells
    for l in range(H - 1):
        exp = sorted(set(c >> d for c in T["flat"][l + 1]))
        if T["flat"][l] != exp:
            return "level %d cells %s are not the parents %s of level %d" % (l, T["flat"][l][:10], exp[:10], l + 1)
    # leaf cell groups <-> particle groups
    lg = T["levels"][H - 1] if H >= 1 else []
    if len(lg) != len(T["pgroups"]):
        return "%d leaf cell groups vs %d particle groups" % (len(lg), len(T["pgroups"]))
    for g, pg in zip(lg, T["pgroups"]):
        if [lf["index"] for lf in pg["leaves"]] != g["cells"]:
            return "particle group leaves %s != cell group %s" % ([lf["index"] for lf in pg["leaves"]][:8], g["cells"][:8])
        if pg["first"] != g["first"] or pg["last"] != g["last"] or pg["nl"] != g["n"]:
            return "particle group header mismatch"
        off = 0
        for lf in pg["leaves"]:
            if lf["off"] != off or lf["n"] != len(lf["parts"]):
                return "leaf %d offset/count (%d,%d) inconsistent (expected offset %d, %d particles listed)" % (lf["index"], lf["off"], lf["n"], off, len(lf["parts"]))
            off += lf["n"]
        if pg["np"] != off:
            return "particle group count %d != %d" % (pg["np"], off)
    return None


def oracle_placement(tc, dump):
    """C06 combinatorial clauses: every particle once, in the leaf of its position."""
    idx = tc.leaf_indices()
    seen = {}
    for pg in dump["pgroups"]:
        for lf in pg["leaves"]:
            for p in lf["parts"]:
                if p in seen:
                    return "particle %d stored twice" % p
                seen[p] = lf["index"]
    if sorted(seen) != list(range(tc.N)):
        missing = sorted(set(range(tc.N)) - set(seen))
        return "particles missing from the tree: %s" % missing[:10]
    for p, li in seen.items():
        if li != idx[p]:
            return "particle %d (grid %s) stored in leaf %d, its box is leaf %d" % (p, tc.coords()[p], li, idx[p])
    return None


def hexd(v):
    return float(v).hex()


def expected_data(tc):
    """what 'data' must print per particle: leaf index, position bits, extra values, zero rhs"""
    scale = 16.0 * float(1 << (tc.H - 1))
    out = {}
    idx = tc.leaf_indices()
    for i, p in enumerate(tc.nums):
        vals = [n / scale for n in p] + [i * 10 + e + 0.25 for e in range(2)]
        out[i] = (idx[i], vals)
    return out


def parse_data(s):
    # "dup=0 0=56:0x..:0x..:r0,0 1=..."
    toks = s.split()
    dup = int(toks[0].split("=")[1])
    rows = {}
    for t in toks[1:]:
        k, v = t.split("=", 1)
        f = v.split(":")
        rows[int(k)] = (int(f[0]), [float.fromhex(x) for x in f[1:-1]], f[-1])
    return dup, rows


def oracle_export(tc, s):
    toks = s.split()
    if toks[0] != "E" or not toks[-1].startswith("bad="):
        return "unparsable export: " + s[:80]
    for k, tok in enumerate(toks[1:-1]):
        i, v = tok.split("=")
        if v != "%s:%s" % (i, i):
            return "entry %s holds data/results of particles %s" % (i, v)
    if len(toks) - 2 != tc.N:
        return "%d entries for %d particles" % (len(toks) - 2, tc.N)
    if toks[-1] != "bad=0":
        return "exported values differ from the stored ones (%s)" % toks[-1]
    return None


def oracle_data(tc, s, rhs_set=False):
    dup, rows = parse_data(s)
    if dup:
        return "%d particles stored twice" % dup
    exp = expected_data(tc)
    if sorted(rows) != sorted(exp):
        return "stored particle indices differ from the input: missing %s" % sorted(set(exp) - set(rows))[:8]
    for i, (li, vals) in exp.items():
        gli, gv, rhs = rows[i]
        if gli != li:
            return "particle %d in leaf %d, expected %d" % (i, gli, li)
        if [x.hex() for x in gv] != [float(x).hex() for x in vals]:
            return "particle %d data %s != input %s" % (i, gv, vals)
        erhs = "r%d,%d" % (1000 + 7 * i, -3 - 11 * i) if rhs_set else "r0,0"
        if rhs != erhs:
            return "particle %d result values %s, expected %s" % (i, rhs, erhs)
    return None


def oracle_lookup(tc, dump, q, res):
    """C16: brute-force answer of one query on the dumped tree."""
    t = q.split()
    d = tc.d
    def fmt(x):
        return "none" if x is None else " ".join(str(v) for v in x) if isinstance(x, tuple) else str(x)
    exp = None
    if t[0] == "fc":
        l, i = int(t[1]), int(t[2])
        for gi, g in enumerate(dump["levels"][l]):
            if i in g["cells"]:
                exp = (gi, g["cells"].index(i))
    elif t[0] == "fl":
        i = int(t[1])
        for gi, g in enumerate(dump["pgroups"]):
            li = [lf["index"] for lf in g["leaves"]]
            if i in li:
                exp = (gi, li.index(i))
    elif t[0] == "ei":
        l, g, i = int(t[1]), int(t[2]), int(t[3])
        cells = dump["levels"][l][g]["cells"]
        exp = cells.index(i) if i in cells else None
    elif t[0] == "li":
        g, i = int(t[1]), int(t[2])
        cells = [lf["index"] for lf in dump["pgroups"][g]["leaves"]]
        exp = cells.index(i) if i in cells else None
    elif t[0] == "ep":
        l, g, p = int(t[1]), int(t[2]), int(t[3])
        cells = dump["levels"][l][g]["cells"]
        ks = [k for k, c in enumerate(cells) if (c >> d) == p]
        exp = ks[0] if ks else None
    else:
        return None
    if fmt(exp) != res.strip():
        return "query `%s` returned `%s`, the tree says `%s`" % (q, res.strip(), fmt(exp))
    return None


# ---------------------------------------------------------------------------
def gen_positions(rng, d, H, N, kind):
    L = H - 1
    lim = 16 << L
    pts = []
    if kind == "uniform":
        pts = [[rng.below(lim) for _ in range(d)] for _ in range(N)]
    elif kind == "cluster":
        centers = [[rng.below(lim) for _ in range(d)] for _ in range(rng.range(1, 3))]
        spread = max(1, lim >> rng.range(1, 4))
        for _ in range(N):
            c = rng.choice(centers)
            pts.append([min(lim - 1, max(0, x + rng.range(-spread, spread))) for x in c])
    elif kind == "corner":
        sub = max(16, lim >> rng.range(1, max(1, L)))
        pts = [[rng.below(sub) for _ in range(d)] for _ in range(N)]
    elif kind == "single":
        c = [rng.below(1 << L) for _ in range(d)]
        pts = [[x * 16 + rng.below(16) for x in c] for _ in range(N)]
    elif kind == "faces":
        for _ in range(N):
            p = []
            for _ in range(d):
                k = rng.below(4)
                if k == 0: p.append(0)
                elif k == 1: p.append(lim)            # upper box face (clamped)
                elif k == 2: p.append(16 * rng.below(1 << L))   # on a cell face
                else: p.append(rng.below(lim))
            pts.append(p)
    elif kind == "lattice":
        pts = [[16 * rng.below(1 << L) + 8 for _ in range(d)] for _ in range(N)]
    elif kind == "gaps":
        # runs of consecutive leaves along the Morton curve separated by gaps that leave whole parents (and grand-parents) empty:
        # group boundaries then cut a parent's children while the next parent(s) do not exist
        nl = 1 << (d * L); ch = 1 << d
        idx = rng.below(ch); leaves = []
        while idx < nl and len(leaves) < max(N, 1):
            run = rng.range(1, ch + 2)
            for _ in range(run):
                if idx < nl and len(leaves) < max(N, 1): leaves.append(idx)
                idx += 1
            g = rng.below(5)
            if g == 1: idx = (idx // ch + 2) * ch + rng.below(ch)               # the next parent is empty
            elif g == 2: idx = (idx // ch + 1 + rng.range(1, 3)) * ch            # one to three empty parents, resume on a parent boundary
            elif g == 3: idx = (idx // (ch * ch) + 2) * ch * ch + rng.below(ch)  # an empty grand-parent
            elif g == 4: idx += rng.range(1, ch)
        if not leaves: leaves = [rng.below(nl)]
        pts = [[16 * x + rng.below(16) for x in O.unbox(i, d)] for i in leaves]
    return pts


KINDS = ["uniform", "cluster", "corner", "single", "faces", "lattice", "gaps"]


def gen_exhaustive(tier):
    """every non-empty subset of leaves x every B in 1..#leaves+1 x both modes (small trees)"""
    confs = [(1, 2), (1, 3), (2, 2), (1, 4), (3, 2)] if tier == "quick" else [(1, 2), (1, 3), (2, 2), (1, 4), (3, 2), (4, 2), (2, 3)]
    for d, H in confs:
        nl = 1 << (d * (H - 1))
        subsets = range(1, 1 << nl)
        if nl > 8:
            # sample: low-popcount + stride
            step = 1 if tier != "quick" else 97
            subsets = range(1, 1 << nl, step if nl <= 16 else 104729)
        for mask in subsets:
            leaves = [i for i in range(nl) if (mask >> i) & 1]
            nums = [[c * 16 + 8 for c in O.unbox(i, d)] for i in leaves]
            Bs = range(1, nl + 2) if nl <= 8 else [1, 2, 3, 5, nl]
            for B in Bs:
                for mode in (0, 1):
                    yield TreeCase(d, 0, H, B, mode, nums)


# deepest leaf level used by the "deep sparse tree" family: inside the proved index guard (Index/OverflowDefs.v: 62, 29, 18, 11)
# and below 31 because the library computes level-sized quantities with int shifts (1 << level): heights >= 32 are the known
# finding D16, exercised by a dedicated family of C15 only
DEEP_L = {1: 30, 2: 29, 3: 18, 4: 11}


def gen_cutgap(rng):
    """directed shape: a block size B > 16 that is not a multiple of 2^d, a first run of leaves that fills whole parents and is cut
    by the first group boundary inside a parent, then at least one completely empty parent, then a second run longer than B:
    the second cell group starts with the tail of a parent already present in the first parent group, the next parent does not
    exist, and parents beyond it do (the situation of one-group-per-parent upper levels on sparse trees)"""
    d = rng.choice([1, 2, 2, 3, 3])
    ch = 1 << d
    H = {1: rng.range(7, 9), 2: rng.range(4, 6), 3: rng.range(4, 5)}[d]
    nl = 1 << (d * (H - 1))
    while True:
        B = rng.range(17, 33)
        if B % ch: break
    start = rng.below(3) * ch
    run1 = ((B + ch - 1) // ch) * ch + rng.below(2) * ch
    gap = rng.range(1, 4) * ch
    run2 = B + rng.range(1, 2 * ch)
    leaves = list(range(start, start + run1)) + list(range(start + run1 + gap, min(nl, start + run1 + gap + run2)))
    if rng.below(3) == 0:      # a few holes in the second run (not in its first parent)
        leaves = [x for x in leaves if x < start + run1 + gap + ch or rng.below(6) != 0]
    nums = [[16 * x + rng.below(16) for x in O.unbox(i, d)] for i in leaves]
    rng.shuffle(nums)
    return TreeCase(d, rng.below(2) if d <= 3 else 0, H, B, 1 if rng.below(4) else 0, nums)


def gen_random(rng, n, maxN, dims=(1, 2, 3, 4), Hmax=None, deep=True, kinds=None):
    Hmax = Hmax or {1: 7, 2: 6, 3: 5, 4: 4}
    for k in range(n):
        if kinds is None and k % 16 == 15:
            tc = gen_cutgap(rng)
            if tc.d in dims and tc.H <= max(Hmax[tc.d], 5) + 3:
                yield tc
                continue
        d = rng.choice(dims)
        H = rng.range(1 if rng.below(10) == 0 else 2, Hmax[d])
        N = rng.choice([1, 2, 3, rng.range(4, 30), rng.range(30, maxN)])
        kind = rng.choice(kinds or KINDS)
        if deep and rng.below(9) == 0:
            # deep, sparse tree: few particles, many levels (Dim * level beyond 31 bits)
            H = rng.range(Hmax[d] + 1, DEEP_L[d] + 1)
            N = rng.choice([1, 2, 3, rng.range(4, 24)])
            kind = rng.choice(["uniform", "cluster", "corner", "single", "faces"])
        nums = gen_positions(rng, d, H, N, kind)
        nleaves = len(set(tuple(min(x // 16, (1 << (H - 1)) - 1) for x in p) for p in nums))
        B = rng.choice([1, 2, 3, 5, 8, max(1, nleaves // 2), nleaves, nleaves + 1, 1000, 10000000])
        if kind == "gaps" and nleaves > 20 and rng.below(3) != 0: B = rng.range(9, min(40, nleaves - 1))     # groups of more than 16 cells that are not alone
        yield TreeCase(d, rng.below(2), H, B, rng.below(2), nums)


def nontrivial(dump):
    return any(len(g) >= 2 for g in dump["levels"]) and dump["H"] >= 3
