from checks import treecheck
def run(tier, seed):
    return treecheck.run_tree_property("C07", "Properties_C07", tier, seed, set("structure,placement".split(",")))
