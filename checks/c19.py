"""C19 — every documented template configuration builds and satisfies the core guarantees.
'Instantiates without compile error' is not expressible in a Gallina model (see DESIGN.md); this half is decided by compiling one
translation unit per configuration point (harness/c19_config.cpp) from /repo's working tree; each compiled unit then checks the
exactly-once count (C01), construction (C06) and move/rebuild/execute (C13) for that configuration under ASan/UBSan with
assertions on.  The generic theorems (C01/C06/C07/C13 property files: every dimension d >= 1, every block size, both orderings of
the Morton family) are what 'like the default configuration' rests on; they are re-checked here as obligations."""
import sys, os, subprocess, itertools, time, hashlib
from concurrent.futures import ThreadPoolExecutor
sys.path.insert(0, os.path.join(os.path.dirname(__file__), "..", "tools"))
import vlib
from checks import common

FLAGS = ["-std=c++17", "-O1", "-g", "-UNDEBUG", "-fopenmp", "-fsanitize=address,undefined", "-fno-sanitize-recover=all"]


def configs(tier, rng):
    full = []
    for dim in (1, 2, 3, 4):
        for real in ("float", "double"):
            for order in (0, 1, 2):
                if order == 2 and dim != 3: continue
                for autob in (0, 1):
                    for ex in (0, 1, 2):
                        full.append(dict(DIM=dim, REALT=real, DATAT=real, ORDER=order, NRHS=1, AUTOB=autob, EXEC=ex))
    extra = [dict(DIM=3, REALT="float", DATAT="double", ORDER=0, NRHS=1, AUTOB=0, EXEC=0),
             dict(DIM=2, REALT="float", DATAT="double", ORDER=1, NRHS=1, AUTOB=1, EXEC=0),
             dict(DIM=3, REALT="double", DATAT="float", ORDER=0, NRHS=1, AUTOB=0, EXEC=0),
             dict(DIM=3, REALT="double", DATAT="double", ORDER=0, NRHS=0, AUTOB=0, EXEC=0),
             dict(DIM=2, REALT="float", DATAT="float", ORDER=0, NRHS=0, AUTOB=1, EXEC=0),
             dict(DIM=4, REALT="double", DATAT="float", ORDER=1, NRHS=1, AUTOB=0, EXEC=0)]
    if tier != "quick":
        return full + extra
    # quick: every dimension, both reals, all orderings, both block-size modes, all executors appear at least once
    base = [dict(DIM=1, REALT="float", DATAT="float", ORDER=0, NRHS=1, AUTOB=1, EXEC=0),
            dict(DIM=2, REALT="double", DATAT="double", ORDER=0, NRHS=1, AUTOB=0, EXEC=0),
            dict(DIM=2, REALT="double", DATAT="double", ORDER=1, NRHS=1, AUTOB=1, EXEC=2),
            dict(DIM=3, REALT="double", DATAT="double", ORDER=2, NRHS=1, AUTOB=0, EXEC=0),
            dict(DIM=3, REALT="float", DATAT="float", ORDER=1, NRHS=1, AUTOB=0, EXEC=1),
            dict(DIM=4, REALT="double", DATAT="double", ORDER=0, NRHS=1, AUTOB=1, EXEC=0),
            dict(DIM=4, REALT="float", DATAT="float", ORDER=1, NRHS=1, AUTOB=0, EXEC=0),
            dict(DIM=1, REALT="double", DATAT="double", ORDER=1, NRHS=1, AUTOB=0, EXEC=1),
            dict(DIM=2, REALT="float", DATAT="float", ORDER=0, NRHS=1, AUTOB=0, EXEC=2)]
    picks = [rng.choice(full) for _ in range(3)]
    return base + extra[:4] + picks


def cfg_name(c):
    return "d%d_%s_%s_o%d_r%d_b%d_e%d" % (c["DIM"], c["REALT"], c["DATAT"], c["ORDER"], c["NRHS"], c["AUTOB"], c["EXEC"])


def build_and_run(c, sdir):
    name = cfg_name(c)
    exe = os.path.join(sdir, name)
    cmd = ["g++"] + FLAGS + ["-D%s=%s" % kv for kv in c.items()] + ["-I" + os.path.join(vlib.REPO, "src"), os.path.join(vlib.ROOT, "harness", "c19_config.cpp"), "-o", exe]
    p = subprocess.run(cmd, capture_output=True, text=True)
    if p.returncode != 0:
        errs = [l for l in p.stderr.split("\n") if "error" in l]
        return name, "compile", (errs[0] if errs else p.stderr[-300:])[:400], " ".join(cmd)
    try:
        r = subprocess.run([exe], capture_output=True, text=True, timeout=600, env=dict(vlib.SAN_ENV, OMP_NUM_THREADS="4"))
    except subprocess.TimeoutExpired:
        return name, "run", "timeout", " ".join(cmd)
    os.remove(exe)
    if r.returncode != 0 or "OK" not in r.stdout:
        return name, "run", (r.stdout.strip().split("\n")[-1] if r.stdout.strip() else "") + " " + vlib.summarize_stderr(r.stderr, r.returncode), " ".join(cmd)
    return name, "ok", "", " ".join(cmd)


def selector_rt_check(sdir):
    """the selector header with the runtimes really enabled (mock runtimes), instantiated and run"""
    out = []
    for name, defs in (("starpu+specx+openmp", ["-fopenmp", "-DTBF_USE_OPENMP", "-DTBF_USE_SPECX", "-DTBF_USE_STARPU"]),
                       ("specx+openmp", ["-fopenmp", "-DTBF_USE_OPENMP", "-DTBF_USE_SPECX"]),
                       ("starpu", ["-DTBF_USE_STARPU"]), ("openmp", ["-fopenmp", "-DTBF_USE_OPENMP"]), ("none", [])):
        exe = os.path.join(sdir, "sel_" + name.replace("+", "_"))
        cmd = ["g++"] + FLAGS + defs + ["-I" + os.path.join(vlib.REPO, "src"), "-I" + os.path.join(vlib.ROOT, "harness"), "-I" + os.path.join(vlib.ROOT, "harness", "mockrt"),
                                        os.path.join(vlib.ROOT, "harness", "c19_selector_rt.cpp"), "-o", exe]
        p = subprocess.run(cmd, capture_output=True, text=True)
        if p.returncode != 0:
            errs = [l for l in p.stderr.split("\n") if "error" in l]
            out.append((name, "selector with %s does not compile: %s" % (name, (errs[0] if errs else p.stderr[-300:])[:300]), " ".join(cmd)))
            continue
        r = subprocess.run([exe], capture_output=True, text=True, timeout=600, env=vlib.SAN_ENV)
        if r.returncode != 0 or not r.stdout.startswith("OK"):
            out.append((name, "selected executor (%s) fails: %s %s" % (name, r.stdout.strip()[:120], vlib.summarize_stderr(r.stderr, r.returncode)), " ".join(cmd)))
        else:
            out.append((name, None, r.stdout.strip()))
    return out


def selector_check():
    """the algorithm selector header with OpenMP, Specx and StarPU all defined (preprocessed with empty stub runtimes)"""
    cmd = ["g++", "-std=c++17", "-E", "-fopenmp", "-I" + os.path.join(vlib.REPO, "src"), "-I" + os.path.join(vlib.ROOT, "harness", "stubs"),
           os.path.join(vlib.ROOT, "harness", "c19_selector.cpp")]
    p = subprocess.run(cmd, capture_output=True, text=True)
    if p.returncode != 0:
        return "selector header does not preprocess: " + p.stderr[-300:]
    want = ["TbfOpenmpAlgorithm", "TbfOpenmpAlgorithmTsm", "TbfSmSpecxAlgorithm", "TbfSmSpecxAlgorithmTsm", "TbfSmStarpuAlgorithm", "TbfSmStarpuAlgorithmTsm"]
    import re
    missing = [w for w in want if not re.search(r"^class %s\b" % w, p.stdout, flags=re.M)]
    if missing:
        return "with OpenMP+Specx+StarPU enabled the selector refers to %s but the header defining it is dropped (include guard clash)" % missing
    return None


def run(tier, seed):
    rep = vlib.Report("C19", tier, seed, "other")
    sdir = vlib.scratch("C19")
    try:
        # the generic theorems this property leans on
        obligations = 0
        for pf in ("Properties_C01", "Properties_C06", "Properties_C07", "Properties_C13"):
            st = vlib.proof_status(pf)
            obligations += len(st["theorems"])
            if not st["compiled"]:
                rep.violation(dict(kind="proof", clause=pf), "generic theorems of %s no longer check" % pf, dict(theorem_file=pf, log=st["log"][-2000:]))
        rng = vlib.Rng(seed).fork("c19")
        cfgs = configs(tier, rng)
        t0 = time.time()
        with ThreadPoolExecutor(max_workers=vlib.NPROC) as ex:
            results = list(ex.map(lambda c: build_and_run(c, sdir), cfgs))
        for (name, status, msg, cmd), c in zip(results, cfgs):
            rep.evaluations += 1
            rep.nontrivial.add(name)
            if status == "compile":
                rep.violation(dict(kind="compile", clause="instantiates", has_input=True, dim=c["DIM"], order=c["ORDER"]),
                              "configuration %s does not compile: %s" % (name, msg), dict(config=c, command=cmd, first_error=msg))
            elif status == "run":
                rep.violation(dict(kind="oracle", clause="core-guarantees", has_input=True, dim=c["DIM"], order=c["ORDER"]),
                              "configuration %s fails its C01/C06/C13 check: %s" % (name, msg), dict(config=c, command=cmd, output=msg))
        m = selector_check()
        rep.evaluations += 1
        if m:
            rep.violation(dict(kind="compile", clause="selector-all-runtimes", has_input=True), m, dict(command="g++ -E harness/c19_selector.cpp"))
        sel = selector_rt_check(sdir)
        for name, msg, info in sel:
            rep.evaluations += 1
            if msg:
                rep.violation(dict(kind="compile", clause="selector-runtime:" + name, has_input=True), msg, dict(command=info))
        rep.coverage["selector_runs"] = ["%s: %s" % (n, i if not m else "FAIL") for n, m, i in sel]
        rep.sample(dict(config=cfgs[0], result=results[0][1]))
        rep.sample(dict(config=cfgs[-1], result=results[-1][1]))
        rep.coverage["explanation"] = ("'instantiates without compile error' cannot be stated about a Gallina model; it is decided by compiling %d translation units (dimension 1..4 x float/double x Morton/periodic/Hilbert(3D) x "
                                       "automatic/explicit block size x sequential/OpenMP/target-source, data type != coordinate type, zero result values) from /repo and running in each the exactly-once, construction and "
                                       "move/rebuild/execute checks under ASan/UBSan; plus the selector header with OpenMP+Specx+StarPU all defined (preprocessed with stubs, and compiled + run on the mock runtimes for five macro combinations). The 'satisfies C01/C06/C13 like the default' half rests on the theorems of "
                                       "Properties_C01/C06/C07/C13 (%d obligations re-checked), which are generic in the dimension, block size and grouping mode." % (len(cfgs), obligations))
        rep.coverage["rule"] = "one TU per configuration point; non-trivial = every TU (each has 300 particles, height 4-5, a move of a third of the particles, two executions)"
        rep.coverage["configs"] = [r[0] + ":" + r[1] for r in results]
        rep.coverage["compile_wall_s"] = round(time.time() - t0, 1)
        return rep.finish()
    finally:
        vlib.cleanup(sdir)
