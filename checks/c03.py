"""C03 — task-parallel executors equal the sequential one under every legal schedule.
The real TbfOpenmpAlgorithm is compiled with -fopenmp and linked against harness/mock_gomp.hpp, which records every GOMP_task
(argument block copied as libgomp does, dependence arrays, priority) and executes the tasks in a seeded linear extension of the
dependence order (immediate, all-deferred FIFO/LIFO, random, priority, priority-inverted) on scheduler-chosen worker ids, under
ASan with detect_stack_use_after_return.  Oracles: final values = exactly-once closed form; elementary interactions = the
sequential model's; every task touches only buffers it declared, with a write mode when it writes."""
import sys, os, re
from collections import Counter
sys.path.insert(0, os.path.join(os.path.dirname(__file__), "..", "tools"))
import vlib
from checks import common, treecommon as T, algocommon as A, c09

POLICIES = {0: "immediate", 1: "fifo-deferred", 2: "lifo-deferred", 3: "random", 4: "priority-inverted", 5: "priority"}
OMPFLAGS = ["-fopenmp", "-DTBF_USE_OPENMP"]


def group_maps(dump):
    """cell -> group number per level; leaf -> particle group number"""
    cg = []
    for groups in dump["levels"]:
        m = {}
        for gi, g in enumerate(groups):
            for c in g["cells"]:
                m[c] = gi
        cg.append(m)
    pg = {}
    for gi, g in enumerate(dump["pgroups"]):
        for lf in g["leaves"]:
            pg[lf["index"]] = gi
    return cg, pg


def footprint(c, cg, pg, L):
    """(reads, writes) buffer names of one kernel call"""
    r, w = set(), set()
    if c.op == "P2M":
        r.add("D%d" % pg[c.tgt]); w.add("M%d.%d" % (L, cg[L][c.tgt]))
    elif c.op == "M2M":
        w.add("M%d.%d" % (c.level, cg[c.level][c.tgt]))
        for a, _, _ in c.srcs: r.add("M%d.%d" % (c.level + 1, cg[c.level + 1][a]))
    elif c.op == "M2L":
        w.add("L%d.%d" % (c.level, cg[c.level][c.tgt]))
        for a, _, _ in c.srcs: r.add("M%d.%d" % (c.level, cg[c.level][a]))
    elif c.op == "L2L":
        r.add("L%d.%d" % (c.level, cg[c.level][c.tgt]))
        for a, _, _ in c.srcs: w.add("L%d.%d" % (c.level + 1, cg[c.level + 1][a]))
    elif c.op == "L2P":
        r.add("L%d.%d" % (L, cg[L][c.tgt])); r.add("D%d" % pg[c.tgt]); w.add("R%d" % pg[c.tgt])
    elif c.op == "P2P":
        r.add("D%d" % pg[c.src]); r.add("D%d" % pg[c.tgt]); w.add("R%d" % pg[c.src]); w.add("R%d" % pg[c.tgt])
    elif c.op == "P2PInner":
        r.add("D%d" % pg[c.tgt]); w.add("R%d" % pg[c.tgt])
    return r, w


def footprint_tsm(c, cgs, pgs, cgt, pgt, L):
    r, w = set(), set()
    if c.op == "P2M":
        r.add("DS%d" % pgs[c.tgt]); w.add("M%d.%d" % (L, cgs[L][c.tgt]))
    elif c.op == "M2M":
        w.add("M%d.%d" % (c.level, cgs[c.level][c.tgt]))
        for a, _, _ in c.srcs: r.add("M%d.%d" % (c.level + 1, cgs[c.level + 1][a]))
    elif c.op == "M2L":
        w.add("L%d.%d" % (c.level, cgt[c.level][c.tgt]))
        for a, _, _ in c.srcs: r.add("M%d.%d" % (c.level, cgs[c.level][a]))
    elif c.op == "L2L":
        r.add("L%d.%d" % (c.level, cgt[c.level][c.tgt]))
        for a, _, _ in c.srcs: w.add("L%d.%d" % (c.level + 1, cgt[c.level + 1][a]))
    elif c.op == "L2P":
        r.add("L%d.%d" % (L, cgt[L][c.tgt])); r.add("DT%d" % pgt[c.tgt]); w.add("R%d" % pgt[c.tgt])
    elif c.op == "P2PTsm":
        r.add("DS%d" % pgs[c.src]); r.add("DT%d" % pgt[c.tgt]); w.add("R%d" % pgt[c.tgt])
    return r, w


def parse_decl(part):
    decl = {}
    for tok in part.split()[1:]:
        seq, prio, worker, deps = tok.split(":", 3)
        ins, outs, mtx = set(), set(), set()
        for dd in deps.split(","):
            if not dd: continue
            kind, buf = dd.split("@")
            if buf == "?": return None, "task %s declares a dependence on an address that is no group buffer" % seq
            (ins if kind == "in" else outs).add(buf)
            if kind == "mtx": mtx.add(buf)
        decl[int(seq)] = (ins, outs, int(worker), mtx)
    return decl, None


def check_footprints(trace, decl, fp):
    cur = None
    for line_ in trace:
        if line_.startswith("@task"):
            cur = int(line_.split()[1]); continue
        if line_.startswith("@spawn"): continue
        cl = A.parse_call(line_)
        if cl.op == "--": continue
        if cur is None: return "kernel call outside any task: " + line_[:60]
        r, w = fp(cl)
        ins, outs = decl[cur][0], decl[cur][1]
        if not w <= outs:
            return "task %d writes %s without declaring it (declared writes %s)" % (cur, sorted(w - outs), sorted(outs))
        if not r <= (ins | outs):
            return "task %d reads %s without declaring it (declared %s)" % (cur, sorted(r - ins - outs), sorted(ins | outs))
    return None


def parse_graph(part):
    """G seq:parent:p1,p2 ...  ->  {seq: (parent, [preds])}"""
    g = {}
    for tok in part.split()[1:]:
        seq, parent, preds = tok.split(":")
        g[int(seq)] = (int(parent), [int(x) for x in preds.split(",") if x])
    return g


def check_conflicts(trace, decl, graph, fp, limit=700):
    """Every two tasks that touch one buffer, at least one of them writing, must be ordered by the dependence graph the runtime
    derived from the declarations (edges between SIBLING tasks only; a child inherits what precedes its parent), or be
    mutually exclusive (both declare the buffer in commute mode and are siblings)."""
    if len(graph) > limit:
        return None
    # footprints per task, split at spawn markers for parent tasks
    foot = {}            # seq -> list of (r, w, spawned_before: set of children created before this call)
    spawned = {}
    cur = None
    for line_ in trace:
        if line_.startswith("@task"):
            cur = int(line_.split()[1]); continue
        if line_.startswith("@spawn"):
            spawned.setdefault(cur, set()).add(int(line_.split()[1])); continue
        cl = A.parse_call(line_)
        if cl.op == "--" or cur is None: continue
        r, w = fp(cl)
        foot.setdefault(cur, []).append((r, w, frozenset(spawned.get(cur, ()))))
    seqs = sorted(graph)
    idx = {s_: i for i, s_ in enumerate(seqs)}
    # ancestors-before: bitset of tasks that complete before task s starts
    before = {}
    children = {}
    for s_ in seqs:
        par, preds = graph[s_]
        b = 0
        for p_ in preds:
            if p_ in idx: b |= before.get(p_, 0) | (1 << idx[p_])
        if par in idx:
            b |= before.get(par, 0)          # what precedes the parent precedes the child (the parent itself only partly)
            children.setdefault(par, []).append(s_)
        before[s_] = b
    def ancestor_chain(s_):
        out = []
        while graph[s_][0] in graph:
            out.append((graph[s_][0], s_)); s_ = graph[s_][0]
        return out
    touched = {}
    for s_, lst in foot.items():
        for r, w, _ in lst:
            for b_ in r: touched.setdefault(b_, set()).add(s_)
            for b_ in w: touched.setdefault(b_, set()).add(s_)
    for buf, ts in touched.items():
        ts = sorted(ts)
        for i in range(len(ts)):
            for j in range(i + 1, len(ts)):
                a, b = ts[i], ts[j]
                wa = any(buf in w for _, w, _ in foot[a]); wb = any(buf in w for _, w, _ in foot[b])
                if not (wa or wb): continue
                if (before[b] >> idx[a]) & 1 or (before[a] >> idx[b]) & 1: continue
                # ancestor / descendant: the ancestor's calls made before it created the branch are ordered
                anc = dict((x, via) for x, via in ancestor_chain(b))
                if a in anc:
                    via = anc[a]
                    late = [(r, w) for r, w, sp in foot[a] if via in sp and (buf in w or (buf in r and wb))]
                    if not late: continue
                anc = dict((x, via) for x, via in ancestor_chain(a))
                if b in anc:
                    via = anc[b]
                    late = [(r, w) for r, w, sp in foot[b] if via in sp and (buf in w or (buf in r and wa))]
                    if not late: continue
                # mutual exclusion: both commute on buf and siblings
                ma = buf in decl[a][3] if len(decl[a]) > 3 else False
                mb = buf in decl[b][3] if len(decl[b]) > 3 else False
                if ma and mb and graph[a][0] == graph[b][0]: continue
                return ("tasks %d and %d both touch %s (%s) but the declared dependences neither order them nor make them mutually exclusive "
                        "(parents %d and %d)" % (a, b, buf, "write/write" if wa and wb else "read/write", graph[a][0], graph[b][0]))
    return None


def tsm_case_text(base, policy, Tn, sseed):
    """base is an exectsm case (c09.case_text); periodic flag kept at 0"""
    t = base.split()
    return "execomptsm " + " ".join(t[1:7]) + " %d %d %d " % (policy, Tn, sseed) + " ".join(t[7:])


def tsm_model_text(c):
    t = c.split()
    return "exectsm " + " ".join(t[1:7]) + " " + " ".join(t[10:])


def run_tsm(rep, binary, tier, seed, sdir, rt, nbases, nrand):
    rng = vlib.Rng(seed).fork("c03tsm" + rt)
    bases = c09.gen_cases("quick", rng)
    rng.shuffle(bases) if hasattr(rng, "shuffle") else None
    bases = [b for b in bases if int(b.split()[1]) <= 3][:nbases]
    cases = []
    for b in bases:
        scheds = [(0, 1, 0), (1, rng.choice([1, 2, 8]), 0), (2, rng.choice([2, 3, 8]), 0), (4, 4, 0), (5, 16, 0)]
        scheds += [(3, rng.choice([1, 2, 3, 8, 16]), rng.below(1 << 30)) for _ in range(nrand)]
        for pol, Tn, ss in scheds:
            cases.append(tsm_case_text(b, pol, Tn, ss))
    stats = Counter()

    def canon(c, line):
        if line.startswith(("ABORT", "MODEL", "?")):
            return line
        parts = line.split(" || ")
        calls = [A.parse_call(x) for x in A.split_trace(parts[2]) if not x.startswith("@")]
        return (parts[0], parts[1], sorted(A.elementary(calls).items()))

    def oracle(c, line):
        t = c.split()
        parts = line.split(" || ")
        m = c09.tsm_oracle(tsm_model_text(c), parts, trace_filter=lambda x: not x.startswith("@"))
        if m: return "target/source run under schedule %s, %s workers: %s" % (POLICIES[int(t[7])], t[8], m)
        decl, m = parse_decl(parts[4])
        if m: return m
        S, Tg, stop, flags = c09.parse_case(tsm_model_text(c))
        cgs, pgs = group_maps(T.parse_dump(parts[0]))
        cgt, pgt = group_maps(T.parse_dump(parts[1]))
        fp = lambda cl: footprint_tsm(cl, cgs, pgs, cgt, pgt, S.H - 1)
        m = check_footprints(A.split_trace(parts[2]), decl, fp)
        if m: return m
        if len(parts) > 6:
            m = check_conflicts(A.split_trace(parts[2]), decl, parse_graph(parts[6]), fp)
            if m: return m
        stats[POLICIES[int(t[7])]] += 1
        return None

    vlib.differential(rep, binary, cases, sdir, rt + "tsm", canon=canon, oracle=oracle, model_cases=[tsm_model_text(c) for c in cases],
                      nontrivial=lambda c, i: " M2L " in i and " P2PTsm " in i and i.count("@task") > 6,
                      clause=lambda c: rt + "tsm:%s" % POLICIES[int(c.split()[7])],
                      abort_fields=lambda c, i: dict(executor=rt + "-tsm", lifetime=("stack-use-after" in i)))
    rep.coverage["schedules_%s_tsm" % rt] = dict(stats)


def case_text(tc, stop, flags, policy, Tn, sseed):
    return "execomp %d %d %d %d %d %d %d %d %d %d %s %d %s" % (tc.d, tc.per, tc.H, tc.B, tc.mode, stop, policy, Tn, sseed, len(flags),
                                                              " ".join(map(str, flags)), tc.N, " ".join(str(x) for p in tc.nums for x in p))


def model_text(c):
    t = c.split()
    return "exec " + " ".join(t[1:7]) + " " + " ".join(t[10:])


RUNTIMES = [
    # name, harness name, flags, defines, include dirs, share of the case budget
    ("omp", "h_sched", OMPFLAGS, [], [], 1.0),
    ("specx", "h_sched_specx", [], ["RT_SPECX", "TBF_USE_SPECX"], ["mockrt"], 0.75),
    ("starpu", "h_sched_starpu", [], ["RT_STARPU", "TBF_USE_STARPU"], ["mockrt"], 0.75),
]


def run_single(rep, binary, tier, seed, sdir, rt, ntrees, nrand):
    rng = vlib.Rng(seed).fork("c03" + ("" if rt == "omp" else rt))
    cases = []
    for tc in T.gen_random(rng, ntrees, 120 if tier == "quick" else 800, dims=(1, 2, 3), Hmax={1: 7, 2: 5, 3: 5}):
        # a quarter of the trees use the periodic ordering (wrapping lists inside the box, upper level 1 as the library does)
        tc.per = 1 if (rng.below(4) == 0 and tc.H >= 2) else 0
        stop = rng.choice([2, 2, 0, 1])
        if tc.per: stop = 1
        flags = rng.choice([[63], [63], [63], [6, 9, 48], [2, 4, 8, 16, 33]])
        scheds = [(0, 1, 0), (1, rng.choice([1, 2, 3, 8, 16]), 0), (2, rng.choice([2, 3, 8]), 0), (4, 4, 0), (5, 16, 0)]
        scheds += [(3, rng.choice([1, 2, 3, 8, 16]), rng.below(1 << 30)) for _ in range(nrand)]
        for pol, Tn, ss in scheds:
            cases.append(case_text(tc, stop, flags, pol, Tn, ss))
    stats = Counter()

    def canon(c, line):
        if line.startswith(("ABORT", "MODEL", "?")):
            return line
        parts = line.split(" || ")
        calls = [A.parse_call(x) for x in A.split_trace(parts[1]) if not x.startswith("@")]
        return (parts[0], sorted(A.elementary(calls).items()))

    def oracle(c, line):
        t = c.split()
        tc = A.parse_exec_case(model_text(c))
        parts = line.split(" || ")
        dump = T.parse_dump(parts[0])
        trace = A.split_trace(parts[1])
        calls = [A.parse_call(x) for x in trace if not x.startswith("@")]
        m = A.oracle_c02(tc, [x for x in calls if x.op != "--"])
        if m: return "arguments: " + m
        R, C = {}, {}
        for tok in parts[2].split()[1:]:
            k, v = tok.split("="); R[int(k)] = int(v)
        for tok in parts[3].split()[1:]:
            k, v = tok.split("="); lv, idx = k.split("/"); a, b = v.split(","); C[(int(lv), int(idx))] = (int(a), int(b))
        s = max(0, tc.stop)
        m = A.oracle_c01_values(tc, R, C, s)
        if m: return "values differ from the sequential result under schedule %s, %s workers: %s" % (POLICIES[int(t[7])], t[8], m)
        # declared dependences cover what each task touches
        decl, m = parse_decl(parts[4])
        if m: return m
        cg, pg = group_maps(dump)
        fp = lambda cl: footprint(cl, cg, pg, tc.H - 1)
        m = check_footprints(trace, decl, fp)
        if m: return m
        if len(parts) > 6:
            m = check_conflicts(trace, decl, parse_graph(parts[6]), fp)
            if m: return m
        stats[POLICIES[int(t[7])]] += 1
        return None

    vlib.differential(rep, binary, cases, sdir, rt, canon=canon, oracle=oracle, model_cases=[model_text(c) for c in cases],
                      nontrivial=lambda c, i: " M2L " in i and i.count("@task") > 8,
                      clause=lambda c: "%s:%s" % (rt, POLICIES[int(c.split()[7])]),
                      abort_fields=lambda c, i: dict(executor=rt, lifetime=("stack-use-after" in i)))
    rep.coverage["schedules" if rt == "omp" else "schedules_" + rt] = dict(stats)


def run(tier, seed):
    rep = vlib.Report("C03", tier, seed, "proof")
    sdir = vlib.scratch("C03")
    try:
        common.proof_part(rep, "Properties_C03", extra_trusted=["harness/mock_sched.hpp + mock_gomp.hpp: reading of the GOMP task ABI and of the OpenMP 4.5/5.0 depend semantics (sibling scope, in/out/mutexinoutset)",
                                                               "harness/mockrt/Legacy/SpRuntime.hpp, harness/mockrt/starpu.h: API-compatible mocks of the Specx / StarPU subsets tbfmm uses (access modes -> the same dependence order)",
                                                               "C++ DRF-SC (true parallelism reduced to interleavings for data-race-free programs)"])
        from concurrent.futures import ThreadPoolExecutor
        with ThreadPoolExecutor(max_workers=3) as ex:
            built = list(ex.map(lambda r: vlib.build_harness(r[1], extra_flags=r[2], sources=["h_sched.cpp"], defines=r[3], includes=r[4]), RUNTIMES))
        for (rt, hname, flags, defines, incs, share), (binary, err) in zip(RUNTIMES, built):
            if not binary:
                rep.violation(dict(kind="build", clause=hname, has_input=True), "harness %s does not compile: %s" % (hname, err[-600:]), dict(stderr=err))
                continue
            ntrees = int((28 if tier == "quick" else 220) * share)
            nrand = 3 if tier == "quick" else int(16 * share)
            run_single(rep, binary, tier, seed, sdir, rt, ntrees, nrand)
            run_tsm(rep, binary, tier, seed, sdir, rt, int((24 if tier == "quick" else 120) * share), 2 if tier == "quick" else int(8 * share))
        rep.coverage["rule"] = ("real TbfOpenmpAlgorithm(Tsm) on the mock GOMP runtime, real TbfSmSpecxAlgorithm(Tsm) and TbfSmStarpuAlgorithm(Tsm) on API-compatible mock runtimes: per tree the schedules "
                                "immediate, all-deferred FIFO, LIFO, priority, priority-inverted and random linear extensions (commute groups unordered), worker counts 1,2,3,8,16, full and staged flag sets; "
                                "trees d=1..3; oracles: values/trace = sequential, declared accesses cover each task's footprint, every conflicting pair of tasks ordered or mutually exclusive; "
                                "non-trivial = M2L present and more than 8 tasks")
        return rep.finish()
    finally:
        vlib.cleanup(sdir)
