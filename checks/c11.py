"""C11 — space-filling-curve index algebra.
 1. proofs: coq/Properties/Properties_C11.v (re-checked by coqc),
 2. correspondence: extracted model vs real TbfMortonSpaceIndex/TbfHilbertSpaceIndex (harness/h_index.cpp),
 3. oracle: brute force from the property text (checks/oracle_index.py) on the implementation's outputs."""
import sys, os, itertools
sys.path.insert(0, os.path.join(os.path.dirname(__file__), "..", "tools"))
import vlib
from checks import oracle_index as O

# levels for the exhaustive sweep: d -> max level (quick, thorough)
EXH = {1: (8, 12), 2: (4, 6), 3: (3, 4), 4: (2, 3)}
# largest level with no signed-overflow/invalid-shift UB in the index code (see C15 / known finding D8)
SAFE_LEVEL = {1: 30, 2: 29, 3: 18, 4: 11}


def parse_recs(s):
    # "I (t s p c) (..) E (..)" -> (sorted I, sorted E)
    body_i, body_e = s[2:].split(" E", 1)
    def rr(b):
        out = []
        for part in b.replace("(", " ").split(")"):
            t = part.split()
            if len(t) == 4:
                out.append(tuple(int(x) for x in t))
        return sorted(out)
    return rr(body_i), rr(body_e)


def canon(c, line):
    op = c.split()[0]
    if op in ("ilist", "nlist", "hilist", "hnlist"):
        return sorted(line.split(), key=int) if not line.startswith(("ABORT", "?", "MODEL")) else line
    if op in ("iblock", "nblock", "hiblock", "hnblock") and line.startswith("I"):
        return parse_recs(line)
    return line


def oracle(c, line):
    t = c.split()
    op = t[0]
    try:
        if op == "box":
            d = int(t[1]); co = [int(x) for x in t[2:]]
            if int(line) != O.box(co, d): return "box%s=%s, definition gives %d" % (co, line, O.box(co, d))
        elif op == "unbox":
            d = int(t[1]); i = int(t[2])
            if [int(x) for x in line.split()] != O.unbox(i, d): return "unbox(%d)=%s, definition gives %s" % (i, line, O.unbox(i, d))
        elif op == "parent":
            d = int(t[1]); i = int(t[2])
            exp = O.box([x // 2 for x in O.unbox(i, d)], d)
            if int(line) != exp: return "parent(%d)=%s but the containing cell is %d" % (i, line, exp)
        elif op == "ccode":
            d = int(t[1]); i = int(t[2])
            bits = [x % 2 for x in O.unbox(i, d)]
            exp = sum(b << (d - 1 - j) for j, b in enumerate(bits))
            if int(line) != exp: return "child code %s, octant is %d" % (line, exp)
        elif op == "child":
            d = int(t[1]); p = int(t[2]); cc = int(t[3])
            bits = [(cc >> (d - 1 - j)) & 1 for j in range(d)]
            exp = O.box([2 * x + b for x, b in zip(O.unbox(p, d), bits)], d)
            if int(line) != exp: return "child(%d,%d)=%s, geometric child is %d" % (p, cc, line, exp)
        elif op in ("enc7", "enc3"):
            rel = [int(x) for x in t[2:]]
            exp = O.enc(rel, 7 if op == "enc7" else 3, 3 if op == "enc7" else 1)
            if int(line) != exp: return "%s%s=%s expected %d" % (op, rel, line, exp)
        elif op in ("dec7", "dec3"):
            d = int(t[1]); code = int(t[2])
            exp = O.dec(code, d, 7 if op == "dec7" else 3, 3 if op == "dec7" else 1)
            if [int(x) for x in line.split()] != exp: return "%s(%d)=%s expected %s" % (op, code, line, exp)
        elif op == "ilist":
            d, per, l, i = int(t[1]), int(t[2]), int(t[3]), int(t[4])
            exp = sorted(s for s, _ in O.ilist(i, l, d, per))
            got = sorted(int(x) for x in line.split())
            if got != exp: return "interaction list of %d at level %d: got %d entries, definition %d; diff %s" % (i, l, len(got), len(exp), sorted(set(got) ^ set(exp))[:8])
        elif op == "nlist":
            d, per, l, up, i = int(t[1]), int(t[2]), int(t[3]), int(t[4]), int(t[5])
            exp = sorted(s for s, _ in O.nlist(i, l, d, per, up))
            got = sorted(int(x) for x in line.split())
            if got != exp: return "neighbour list of %d at level %d: got %s, definition %s" % (i, l, got[:10], exp[:10])
        elif op in ("iblock", "nblock"):
            isI = op == "iblock"
            d, per, l = int(t[1]), int(t[2]), int(t[3])
            if isI:
                ts, n = int(t[4]), int(t[5]); cells = [int(x) for x in t[6:6 + n]]; up = 0
            else:
                up, ts, n = int(t[4]), int(t[5]), int(t[6]); cells = [int(x) for x in t[7:7 + n]]
            gi, ge = parse_recs(line)
            ei, ee = [], []
            for pos, cidx in enumerate(cells):
                lst = O.ilist(cidx, l, d, per) if isI else O.nlist(cidx, l, d, per, up)
                for s, code in lst:
                    rec = (cidx, s, pos, code)
                    if cells[0] <= s <= cells[-1]:
                        if (not ts) or s in cells:
                            ei.append(rec)
                    else:
                        ee.append(rec)
            if gi != sorted(ei): return "in-group records differ from definition: %s" % (sorted(set(gi) ^ set(ei))[:6])
            if ge != sorted(ee): return "out-of-group records differ from definition: %s" % (sorted(set(ge) ^ set(ee))[:6])
    except ValueError as e:
        return "unparsable output %r (%s)" % (line[:80], e)
    return None


def cell_cmds(d, l, i, pers=(0, 1)):
    cs = ["unbox %d %d" % (d, i), "box %d %s" % (d, " ".join(map(str, O.unbox(i, d)))),
          "parent %d %d" % (d, i), "ccode %d %d" % (d, i)]
    for per in pers:
        cs.append("ilist %d %d %d %d" % (d, per, l, i))
        for up in (0, 1):
            cs.append("nlist %d %d %d %d %d" % (d, per, l, up, i))
    return cs


def gen_cases(tier, rng):
    cases = []
    ti = 0 if tier == "quick" else 1
    for d in (1, 2, 3, 4):
        for l in range(0, EXH[d][ti] + 1):
            for i in range(1 << (d * l)):
                cases += cell_cmds(d, l, i)
        # children
        for p in range(min(1 << (d * 2), 64)):
            for cc in range(1 << d):
                cases.append("child %d %d %d" % (d, p, cc))
        # codes: exhaustive for 3^d; 7^d exhaustive for d<=3, sampled for d=4
        for o in itertools.product(range(-1, 2), repeat=d):
            cases.append("enc3 %d %s" % (d, " ".join(map(str, o))))
        for code in range(3 ** d):
            cases.append("dec3 %d %d" % (d, code))
        offs = list(itertools.product(range(-3, 4), repeat=d))
        if d == 4 and tier == "quick":
            offs = [rng.choice(offs) for _ in range(300)]
        for o in offs:
            cases.append("enc7 %d %s" % (d, " ".join(map(str, o))))
        codes = range(7 ** d) if (d < 4 or tier != "quick") else [rng.below(7 ** d) for _ in range(300)]
        for code in codes:
            cases.append("dec7 %d %d" % (d, code))
    # random cells up to the guard
    nrand = 150 if tier == "quick" else 20000
    for d in (1, 2, 3, 4):
        for _ in range(nrand):
            l = rng.range(0, SAFE_LEVEL[d])
            coords = []
            for j in range(d):
                kind = rng.below(6)
                if kind == 0: coords.append(0)
                elif kind == 1: coords.append((1 << l) - 1)
                elif kind == 2: coords.append(min((1 << l) - 1, rng.below(4)))
                else: coords.append(rng.below(1 << l))
            i = O.box(coords, d)
            cases += cell_cmds(d, l, i)
            cases.append("child %d %d %d" % (d, O.box([c // 2 for c in coords], d), rng.below(1 << d)))
    # block builders: random sorted subsets of a level as groups
    nblk = 120 if tier == "quick" else 6000
    for _ in range(nblk):
        d = rng.range(1, 4)
        lmax = {1: 7, 2: 4, 3: 3, 4: 2}[d]
        l = rng.range(0, lmax)
        ncell = 1 << (d * l)
        dens = rng.choice([0.1, 0.3, 0.6, 1.0])
        allc = [c for c in range(ncell) if rng.unit() < dens] or [rng.below(ncell)]
        # a group = contiguous slice of the sorted occupied cells
        a = rng.below(len(allc)); b = rng.range(a, min(len(allc) - 1, a + rng.choice([0, 1, 3, 8, 30])))
        cells = allc[a:b + 1]
        per = rng.below(2); ts = rng.below(2); up = rng.below(2)
        cases.append("iblock %d %d %d %d %d %s" % (d, per, l, ts, len(cells), " ".join(map(str, cells))))
        cases.append("nblock %d %d %d %d %d %d %s" % (d, per, l, up, ts, len(cells), " ".join(map(str, cells))))
    return cases


# ---- Hilbert ordering (dimension 3): automaton tables are regenerated from the source (Tie A); the oracle works on the
# implementation's own coordinate maps: it first collects unbox of every index of the level from the run itself.
def gen_hilbert(tier, rng):
    cases = []
    for H in ((2, 3, 4) if tier == "quick" else (2, 3, 4, 5)):
        for l in range(0, H):
            ncell = 1 << (3 * l)
            idxs = range(ncell) if ncell <= 512 else [rng.below(ncell) for _ in range(300)]
            for i in idxs:
                cases.append("hunbox %d %d" % (H, i))
                cases.append("hparent %d %d" % (H, i))
                cases.append("hccode %d %d" % (H, i))
                if ncell <= 64 or rng.below(6) == 0:
                    cases.append("hilist %d %d %d %d" % (H, rng.below(2), l, i))
                    cases.append("hnlist %d %d %d %d %d" % (H, rng.below(2), l, rng.below(2), i))
        L = H - 1
        for _ in range(40):
            co = [rng.below(1 << L) for _ in range(3)]
            cases.append("hbox %d %s" % (H, " ".join(map(str, co))))
    # deep trees (indices beyond 2^31): coordinate <-> index at the leaf level, child codes, leaf-level neighbour lists
    for H in ((9, 12, 13, 17, 19) if tier == "quick" else (8, 9, 10, 11, 12, 13, 14, 15, 16, 17, 18, 19)):
        L = H - 1
        for _ in range(30 if tier == "quick" else 400):
            co = [rng.choice([rng.below(1 << L), (1 << L) - 1, (1 << (L - 1)) + rng.below(3) - 1]) for _ in range(3)]
            cases.append("hbox %d %s" % (H, " ".join(map(str, co))))
            i = rng.below(1 << (3 * L))
            cases.append("hunbox %d %d" % (H, i))
            cases.append("hccode %d %d" % (H, i))
            if rng.below(3) == 0:
                cases.append("hnlist %d %d %d %d %d" % (H, rng.below(2), L, rng.below(2), i))
    return cases


def hilbert_oracles(rep, cases, impl):
    """round trip and parent containment, from the implementation's own answers"""
    unb, par = {}, {}
    for c, i in zip(cases, impl):
        t = c.split()
        if i.startswith("ABORT"): continue
        if t[0] == "hunbox": unb[(int(t[1]), int(t[2]))] = [int(x) for x in i.split()]
        elif t[0] == "hparent": par[(int(t[1]), int(t[2]))] = int(i)
    # bijection at the leaf level (exhaustive levels only)
    byH = {}
    for (H, i), co in unb.items():
        byH.setdefault(H, {})[i] = co
    for H, m in byH.items():
        L = H - 1
        leaf = {i: co for i, co in m.items() if i < (1 << (3 * L))}
        if len(leaf) == (1 << (3 * L)):
            if len(set(tuple(v) for v in leaf.values())) != len(leaf) or any(max(v) >= (1 << L) or min(v) < 0 for v in leaf.values()):
                rep.violation(dict(kind="oracle", clause="hilbert-bijection", has_input=True), "Hilbert height %d: index -> coordinates is not a bijection onto the leaf grid" % H, dict(H=H))
    # parent geometrically contains the child: unbox(parent i) = unbox(i) / 2, at every level of every height
    for (H, i), p in par.items():
        if (H, i) in unb and (H, p) in unb and i > 0:
            child, parent = unb[(H, i)], unb[(H, p)]
            # only meaningful when i is read at a level l >= 1; every index i >= 8^(l-1) of level l has p at level l-1
            if parent != [x // 2 for x in child]:
                lvl = max(1, (i.bit_length() + 2) // 3)
                rep.violation(dict(kind="oracle", clause="hilbert-parent-containment", has_input=True, ordering="hilbert"),
                              "Hilbert ordering, height %d: parent(%d) = %d has coordinates %s, the cell containing %s is %s" % (H, i, p, parent, child, [x // 2 for x in child]),
                              dict(H=H, index=i, parent=p, unbox_child=child, unbox_parent=parent))


def nontrivial(c, i):
    op = c.split()[0]
    if op in ("ilist", "nlist"):
        return len(i.split()) > 0
    if op in ("iblock", "nblock"):
        return "(" in i
    return True


def run(tier, seed):
    rep = vlib.Report("C11", tier, seed, "proof")
    sdir = vlib.scratch("C11")
    try:
        from checks import common
        common.proof_part(rep, "Properties_C11")
        binary, err = vlib.build_harness("h_index")
        if not binary:
            rep.violation(dict(kind="build", clause="h_index", has_input=True), "harness h_index does not compile: " + err[-400:], dict(stderr=err))
            return rep.finish()
        rng = vlib.Rng(seed).fork("c11")
        cases = gen_cases(tier, rng)
        # shard for parallelism
        vlib.differential(rep, binary, cases, sdir, "index", canon=canon, oracle=oracle, nontrivial=nontrivial,
                          clause=lambda c: c.split()[0] + ":d" + c.split()[1] + (":per" + c.split()[2] if c.split()[0] in ("ilist", "nlist", "iblock", "nblock") else ""))
        hbin = binary
        hcases = gen_hilbert(tier, rng)
        himpl, hmodel = vlib.differential(rep, hbin, hcases, sdir, "hilbert", canon=canon, nontrivial=lambda c, i: True,
                                          clause=lambda c: "hilbert:" + c.split()[0], batch=10 ** 9)     # index outputs are short: one batch
        hilbert_oracles(rep, hcases, himpl)
        # per-group neighbour lists of the Hilbert ordering (the builder the executors use), both filters: the records of a group must
        # be exactly the per-cell lists (checked against the model above) of its cells, split into in-range / out-of-range sources
        gb = []
        for _ in range(60 if tier == "quick" else 1500):
            H = rng.choice([3, 4, 4]); l = rng.range(1, H - 1); per = rng.below(2)
            ncell = 1 << (3 * l)
            k = rng.range(2, min(14, ncell))
            start = rng.below(max(1, ncell - 3 * k))
            cells = sorted(set(start + rng.below(3 * k) for _ in range(k)))
            cells = [x for x in cells if x < ncell]
            for up in (0, 1):
                for ts in (0, 1):
                    gb.append(("hnblock %d %d %d %d %d %d %s" % (H, per, l, up, ts, len(cells), " ".join(map(str, cells))), cells, H, per, l, up, ts))
        percell = sorted(set("hnlist %d %d %d %d %d" % (H, per, l, up, c) for _, cells, H, per, l, up, ts in gb for c in cells))
        pq = os.path.join(sdir, "hblock.cases"); vlib.write_cases(pq, [g[0] for g in gb] + percell)
        outq = vlib.run_impl(hbin, pq)
        lists = {}
        for c, o in zip(percell, outq[len(gb):]):
            lists[c] = [int(x) for x in o.split()] if not o.startswith(("ABORT", "?")) else None
        for (c, cells, H, per, l, up, ts), o in zip(gb, outq[:len(gb)]):
            rep.evaluations += 1
            if not o.startswith("I"):
                rep.violation(dict(kind="abort", clause="hilbert:hnblock", has_input=True), "Hilbert per-group neighbour list failed on `%s`: %s" % (c, o[:120]), dict(case=c, impl=o))
                continue
            gi, ge = parse_recs(o)
            ei, ee = [], []
            ok = True
            for pos, cidx in enumerate(cells):
                lst = lists.get("hnlist %d %d %d %d %d" % (H, per, l, up, cidx))
                if lst is None: ok = False; break
                for s_ in lst:
                    if cells[0] <= s_ <= cells[-1]:
                        if (not ts) or s_ in cells: ei.append((cidx, s_, pos))
                    else:
                        ee.append((cidx, s_, pos))
            if not ok: continue
            g3i = sorted((a, b, p_) for a, b, p_, _ in gi); g3e = sorted((a, b, p_) for a, b, p_, _ in ge)
            if g3i != sorted(ei) or g3e != sorted(ee):
                diff = sorted(set(g3i + g3e) ^ set(ei + ee))[:6]
                rep.violation(dict(kind="oracle", clause="hilbert:hnblock", has_input=True, ordering="hilbert"),
                              "Hilbert per-group neighbour list (upper filter %d, self-inclusion test %d) differs from the per-cell lists of its cells on `%s`: (target, source, position) %s" % (up, ts, c[:120], diff),
                              dict(case=c, impl=o, differing=diff))
        rep.count("cases:hilbert-hnblock", len(gb))
        rep.coverage["rule"] = ("exhaustive: every cell of levels 0..%s (d=1..4) x {unbox,box,parent,child code, interaction list (periodic/not), neighbour list (periodic/not x upper filter)}; all codes; "
                                "random cells up to the UB-free level %s; random groups for the block builders. non-trivial = non-empty list / any scalar query; distinct by case text" % ({d: EXH[d][0 if tier == 'quick' else 1] for d in EXH}, SAFE_LEVEL))
        rep.coverage["exhaustive"] = False
        return rep.finish()
    finally:
        vlib.cleanup(sdir)
