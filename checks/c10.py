"""C10 — periodic mode: one contribution from every image in the repetition cube.
Real four-step periodic sequence (TbfAlgorithm with periodic Morton lists + TbfAlgorithmPeriodicTopTree) with the image-aware
TraceKernel (a displacement by sigma box widths multiplies a value by chi(sigma)) vs the extracted model `periodic_run`;
oracle: closed form  rhs[p] = W * prod_dim(sum_{sigma=lo..hi} r_dim^sigma) - w(p)  over the interval the library reports."""
import sys, os
from collections import Counter
sys.path.insert(0, os.path.join(os.path.dirname(__file__), "..", "tools"))
import vlib
from checks import common, treecommon as T, algocommon as A, oracle_index as O

R = [0x9E3779B97F4A7C15 | 1, 0xC2B2AE3D27D4EB4F | 1, 0x165667B19E3779F9 | 1, 0x27D4EB2F165667C5 | 1]
M = A.M64


def chi1(dim, s):
    return pow(R[dim], s, 1 << 64) if s >= 0 else pow(pow(R[dim], -1, 1 << 64), -s, 1 << 64)


def expected_interval(k):
    if k == -1: return (-1, 1, 3)
    if k == 0: return (-3, 3, 7)
    n = 6 * (1 << k)
    return (-(n // 2), n // 2 - 1, n)


def case_text(d, H, B, mode, k, stop, nums):
    return "execper %d %d %d %d %d %d %d %s" % (d, H, B, mode, k, stop, len(nums), " ".join(str(x) for p in nums for x in p))


def parse_case(c):
    t = c.split()
    d, H, B, mode, k, stop, N = (int(x) for x in t[1:8])
    nums = [int(x) for x in t[8:]]
    return T.TreeCase(d, 1, H, B, mode, [nums[j * d:(j + 1) * d] for j in range(N)]), k, stop


def case_text_tsm(d, H, B, mode, k, stop, snums, tnums):
    return "execpertsm %d %d %d %d %d %d %d %s %d %s" % (d, H, B, mode, k, stop, len(snums), " ".join(str(x) for p in snums for x in p),
                                                         len(tnums), " ".join(str(x) for p in tnums for x in p))


def parse_case_tsm(c):
    t = c.split()
    d, H, B, mode, k, stop, ns = (int(x) for x in t[1:8])
    sn = [int(x) for x in t[8:8 + ns * d]]
    nt = int(t[8 + ns * d])
    tn = [int(x) for x in t[9 + ns * d:]]
    S = T.TreeCase(d, 1, H, B, mode, [sn[j * d:(j + 1) * d] for j in range(ns)])
    Tg = T.TreeCase(d, 1, H, B, mode, [tn[j * d:(j + 1) * d] for j in range(nt)])
    return S, Tg, k, stop


def canon_line(x):
    """impl or model call line -> canonical tuple"""
    c = A.parse_call(x) if not x.startswith("T") else None
    if c is None:
        head, _, rest = x.partition(" : ")
        h = head.split()
        return (h[0], int(h[1]), tuple(sorted(rest.split())))
    if c.op == "--":
        return None
    tag = c.extra.get("t")
    if tag and int(tag.split("/")[0]) >= 100:
        # top-tree call as seen by the kernel
        kinds = set("real" if (lv is not None and lv < 100) else "virt" for _, _, lv in c.srcs)
        if c.op == "M2M":
            if kinds == {"real"}: return ("TM2M_base", c.level, tuple(sorted("%d,%d" % (a, code) for a, code, _ in c.srcs)))
            return ("TM2M", c.level, tuple(sorted(str(code) for _, code, _ in c.srcs)))
        if c.op == "M2L":
            return ("TM2L", c.level, tuple(sorted(str(code) for _, code, _ in c.srcs)))
        if c.op == "L2L":
            if kinds == {"real"}: return ("TL2L_base", c.level, tuple(sorted("%d,%d" % (a, code) for a, code, _ in c.srcs)))
            return ("TL2L", c.level, tuple(sorted(str(code) for _, code, _ in c.srcs)))
    return ("R", A.canon_call(c))


def gen_cases(tier, rng):
    cases = []
    n = 150 if tier == "quick" else 8000
    maxN = 60 if tier == "quick" else 600
    for _ in range(n):
        d = rng.choice([1, 2, 2, 3, 3])
        H = rng.range(2, {1: 6, 2: 4, 3: 4}[d])
        N = rng.choice([1, 2, rng.range(3, 12), rng.range(12, maxN)])
        nums = T.gen_positions(rng, d, H, N, rng.choice(T.KINDS))   # 'faces' puts particles on the wrap-around faces
        nl = len(set(tuple(min(x // 16, (1 << (H - 1)) - 1) for x in p) for p in nums))
        B = rng.choice([1, 2, 3, 5, max(1, nl // 2), nl, 1000])
        k = rng.choice([-1, 0, 1, 2, 3, 4, 5] if d < 3 else [-1, 0, 1, 2, 3])
        cases.append(case_text(d, H, B, rng.below(2), k, 1, nums))
    return cases


def per_family(rep, binary, cases, sdir, tag="per"):
    """the four-step periodic sequence (sequential executor + top tree) on `cases`: model differential + independent oracle;
    shared with C02 (operator arguments of the top tree)"""

    def canon(c, line):
        if line.startswith(("ABORT", "MODEL", "?")):
            return line
        parts = line.split(" || ")
        calls = Counter(x for x in (canon_line(l) for l in A.split_trace(parts[1])) if x is not None)
        return (parts[0], sorted(calls.items(), key=repr), parts[-1].strip())

    def oracle(c, line):
        tc, k, stop = parse_case(c)
        parts = line.split(" || ")
        dd = T.parse_dump(parts[0])
        m = T.oracle_structure(tc, dd) or T.oracle_placement(tc, dd)
        if m: return "tree: " + m
        iv = parts[-1].split()
        lo, hi, nrep = expected_interval(k)
        if iv[0] != "I" or [int(x) for x in iv[1:4]] != [lo, hi, nrep] or len(iv) > 4:
            return "reported repetition interval %s, expected [%d,%d] x%d" % (" ".join(iv[1:]), lo, hi, nrep)
        # arguments of the regular (periodic-list) calls
        calls = [A.parse_call(x) for x in A.split_trace(parts[1])]
        reg = [cl for cl in calls if not (cl.extra.get("t") and int(cl.extra["t"].split("/")[0]) >= 100)]
        m = A.oracle_c02(tc, reg)
        if m: return "arguments: " + m
        # top-tree calls: tags consistent with the level argument
        for cl in calls:
            t = cl.extra.get("t")
            if t and int(t.split("/")[0]) >= 100:
                if int(t.split("/")[0]) != 100 + cl.level:
                    return "top-tree %s called with level %d on the virtual cell of level %d" % (cl.op, cl.level, int(t.split("/")[0]) - 100)
                for a, code, lv in cl.srcs:
                    exp = {"M2M": 100 + cl.level + 1, "M2L": 100 + cl.level, "L2L": 100 + cl.level + 1}[cl.op]
                    if lv is not None and lv >= 100 and lv != exp:
                        return "top-tree %s at level %d received the virtual cell of level %d" % (cl.op, cl.level, lv - 100)
                    if lv is not None and lv < 100 and lv != 1:
                        return "top-tree %s received a real cell of level %d" % (cl.op, lv)
                    if lv is not None and lv < 100 and code != (a & ((1 << tc.d) - 1)):
                        return "top-tree %s links the real root to level-1 cell %d with child position code %d (its octant is %d)" % (cl.op, a, code, a & ((1 << tc.d) - 1))
                real = [a for a, _, lv in cl.srcs if lv is not None and lv < 100]
                if len(set(real)) != len(real):
                    return "top-tree %s received the same level-1 cell twice: %s" % (cl.op, real)
        # values: every particle image in the reported interval exactly once, except itself in the central box
        Rv = {}
        for tok in parts[2].split()[1:]:
            a, b = tok.split("="); Rv[int(a)] = int(b)
        S = 1
        for j in range(tc.d):
            S = (S * sum(chi1(j, s) for s in range(lo, hi + 1))) & M
        W = sum(A.weight(p) for p in range(tc.N)) & M
        for p in range(tc.N):
            exp = (W * S - A.weight(p)) & M
            if Rv.get(p) != exp:
                return "particle %d accumulated %s; one contribution from every image in [%d,%d]^%d except itself is %d" % (p, Rv.get(p), lo, hi, tc.d, exp)
        return None

    vlib.differential(rep, binary, cases, sdir, tag, canon=canon, oracle=oracle,
                      nontrivial=lambda c, i: "t=10" in i, clause=lambda c: "per:d%s:k%s" % (c.split()[1], c.split()[5]))


def run(tier, seed):
    rep = vlib.Report("C10", tier, seed, "proof")
    sdir = vlib.scratch("C10")
    try:
        common.proof_part(rep, "Properties_C10")
        binary, err = vlib.build_harness("h_algo_per", sources=["h_algo.cpp"], defines=["FAMILY_PER"])
        if not binary:
            rep.violation(dict(kind="build", clause="h_algo", has_input=True), "harness h_algo does not compile: " + err[-600:], dict(stderr=err))
            return rep.finish()
        rng = vlib.Rng(seed).fork("c10")
        # the position shifter handed to numerical kernels: TbfPeriodicShifter::Neighbor = image_shift (= img_shift of the theorem)
        ibin, ierr = vlib.build_harness("h_index")
        if ibin:
            pc = []
            for d, H in ((1, 2), (1, 3), (1, 4), (2, 2), (2, 3), (3, 2)):
                lim = 1 << (H - 1)
                import itertools
                for t in itertools.product(range(lim), repeat=d):
                    for code in range(3 ** d):
                        pc.append("pshift %d %d %d %s" % (d, H, code, " ".join(map(str, t))))
            for _ in range(300 if tier == "quick" else 20000):
                d = rng.choice([2, 3, 3, 4]); H = rng.range(2, {2: 12, 3: 9, 4: 6}[d]); lim = 1 << (H - 1)
                t = [rng.choice([0, lim - 1, rng.below(lim)]) for _ in range(d)]
                pc.append("pshift %d %d %d %s" % (d, H, rng.below(3 ** d), " ".join(map(str, t))))

            def shift_oracle(c, line):
                f = c.split(); d, H, code = int(f[1]), int(f[2]), int(f[3]); t = [int(x) for x in f[4:]]
                o = []; cc = code
                for _ in range(d): o.append(cc % 3 - 1); cc //= 3
                o = o[::-1]
                exp = [(a + b) // (1 << (H - 1)) for a, b in zip(t, o)]
                got = line.split()
                if [int(x) for x in got[1:]] != exp: return "shift %s, the image is displaced by %s boxes" % (got[1:], exp)
                if got[0] != "need=%d" % (1 if any(exp) else 0): return "NeedToShift = %s for displacement %s" % (got[0], exp)
                return None
            vlib.differential(rep, ibin, pc, sdir, "pshift", oracle=shift_oracle, clause=lambda c: "pshift:d" + c.split()[1],
                              nontrivial=lambda c, i: "need=1" in i)
        cases = gen_cases(tier, rng)
        per_family(rep, binary, cases, sdir)
        # ---- target/source variant with TbfAlgorithmPeriodicTopTreeTsm ----
        tcases = []
        for _ in range(60 if tier == "quick" else 3000):
            d = rng.choice([1, 2, 2, 3])
            H = rng.range(2, {1: 5, 2: 4, 3: 3}[d])
            sn = T.gen_positions(rng, d, H, rng.choice([1, 3, rng.range(4, 40)]), rng.choice(T.KINDS))
            tn = T.gen_positions(rng, d, H, rng.choice([1, 3, rng.range(4, 40)]), rng.choice(T.KINDS))
            k = rng.choice([-1, 0, 1, 2, 3] if d < 3 else [-1, 0, 1, 2])
            tcases.append(case_text_tsm(d, H, rng.choice([1, 2, 5, 1000]), rng.below(2), k, 1, sn, tn))

        def canon_tsm(c, line):
            if line.startswith(("ABORT", "MODEL", "?")):
                return line
            parts = line.split(" || ")
            calls = Counter(x for x in (canon_line(l) for l in A.split_trace(parts[2])) if x is not None)
            return (parts[0], parts[1], sorted(calls.items(), key=repr), parts[-1].strip())

        def oracle_tsm(c, line):
            S, Tg, k, stop = parse_case_tsm(c)
            parts = line.split(" || ")
            lo, hi, nrep = expected_interval(k)
            calls = [A.parse_call(x) for x in A.split_trace(parts[2])]
            for cl in calls:
                t = cl.extra.get("t")
                if t and int(t.split("/")[0]) >= 100:
                    if int(t.split("/")[0]) != 100 + cl.level:
                        return "top-tree %s called with level %d on the virtual cell of level %d" % (cl.op, cl.level, int(t.split("/")[0]) - 100)
                    for a, code, lv in cl.srcs:
                        if cl.op in ("M2M", "L2L") and lv is not None and lv >= 100 and not (0 <= code < (1 << S.d)):
                            return "top-tree %s at level %d received child position code %d" % (cl.op, cl.level, code)
            Rv = {}
            for tok in parts[3].split()[1:]:
                a, b = tok.split("="); Rv[int(a)] = int(b)
            Sx = 1
            for j in range(S.d):
                Sx = (Sx * sum(chi1(j, s) for s in range(lo, hi + 1))) & M
            W = sum(A.weight(p) for p in range(S.N)) & M
            for p in range(Tg.N):
                if Rv.get(p) != (W * Sx) & M:
                    return "target %d accumulated %s; one contribution from every source image in [%d,%d]^%d is %d" % (p, Rv.get(p), lo, hi, S.d, (W * Sx) & M)
            return None
        vlib.differential(rep, binary, tcases, sdir, "pertsm", canon=canon_tsm, oracle=oracle_tsm, nontrivial=lambda c, i: "t=10" in i,
                          clause=lambda c: "pertsm:d%s:k%s" % (c.split()[1], c.split()[5]))
        rep.coverage["rule"] = ("four-step periodic sequence, sequential executor + top tree, image-aware additive kernel; d=1..3, heights 2..6, extra levels -1..5 (d=3: -1..3), "
                                "particles uniform/clustered/on wrap-around faces/lattice, all block sizes, both modes; non-trivial = top tree active (k>=0)")
        return rep.finish()
    finally:
        vlib.cleanup(sdir)
