from checks import treecheck
def run(tier, seed):
    return treecheck.run_tree_property("C16", "Properties_C16", tier, seed, set("lookup".split(",")))
