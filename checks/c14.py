"""C14 — group buffers are self-describing flat memory.
 1. proofs (coq/Properties/Properties_C14.v) about the layout model Mem/LayoutDefs.v,
 2. correspondence: model vs real TbfMemoryBlock on reset / move / copy+view sequences (harness/h_mem.cpp),
    and copy+view of every group buffer of real trees (harness/h_tree.cpp, query cv),
 3. oracle: bounds / disjointness / alignment / trailer placement recomputed from the printed offsets."""
import sys, os
sys.path.insert(0, os.path.join(os.path.dirname(__file__), "..", "tools"))
import vlib
from checks import common, treecommon as T

A = 64
LAYOUTS = {
    0: ["S:24", "V:32"], 1: ["V:8"], 2: ["V:1"], 3: ["S:32", "V:40", "V:8", "R:8:5"], 4: ["R:4:3"], 5: ["R:128:2"],
    6: ["C:8:4"], 7: ["C:1:7", "V:12"], 8: ["V:4096", "S:1"], 9: ["S:1", "C:2:3", "V:12", "R:64:2"], 10: ["R:16:1", "R:8:1"],
}


def kind(s):
    f = s.split(":")
    return f[0], int(f[1]), (int(f[2]) if len(f) > 2 else 1)


def leading(sz, n):
    return ((sz * n + A - 1) // A) * A


def block_bytes(k, n):
    t, sz, rows = kind(k)
    if t in ("S", "V"): return leading(sz, n)
    if t == "R": return rows * leading(sz, n)
    return n * leading(sz, rows)


def aimed_count(rng, k):
    t, sz, rows = kind(k)
    if t == "S": return 1
    c = rng.below(8)
    per = max(1, A // sz) if sz <= A else 1
    if c == 0: return 0
    if c == 1: return 1
    if c == 2: return per * rng.range(1, 6)            # row ends exactly on an alignment boundary
    if c == 3: return per * rng.range(1, 6) + 1        # one element past
    if c == 4: return max(0, per * rng.range(1, 6) - 1)
    if c == 5: return rng.range(2, 40)
    if c == 6: return rng.range(100, 1500 if sz <= 64 else 20)
    return rng.range(1000, 10000) if sz <= 16 else rng.range(1, 12)


def gen_cases(tier, rng):
    cases = []
    n = 400 if tier == "quick" else 20000
    for _ in range(n):
        lid = rng.choice(sorted(LAYOUTS))
        ks = LAYOUTS[lid]
        ops = []
        nops = rng.range(1, 6)
        for j in range(nops):
            sizes = [aimed_count(rng, k) for k in ks]
            if j > 0 and rng.below(3) == 0:
                sizes = [max(1 if kind(k)[0] == "S" else 0, s // rng.range(2, 9)) for k, s in zip(ks, sizes)]   # shrink -> buffer reuse
            ops.append("R " + " ".join(map(str, sizes)))
            r = rng.below(6)
            if r == 0: ops.append("M")
            if r == 1: ops.append("A")
            if r <= 3: ops.append("V")
            if r in (2, 4): ops.append("F")          # applyToAllElements visits every element of every block once
            if r == 5: ops.append(rng.choice(["B", "b"]) ); ops.append("V")      # move-assignment into an object that already owns another buffer
        ops.append("V")
        cases.append("mem %d %d %s %s" % (lid, len(ks), " ".join(ks), " ".join(ops)))
    return cases


def oracle(c, line):
    t = c.split()
    nb = int(t[2]); ks = t[3:3 + nb]
    ops = []
    i = 3 + nb
    while i < len(t):
        if t[i] == "R":
            ops.append(("R", [int(x) for x in t[i + 1:i + 1 + nb]])); i += 1 + nb
        else:
            ops.append((t[i], None)); i += 1
    outs = line.split(" || ")
    if len(outs) != len(ops):
        return "expected %d results, got %d" % (len(ops), len(outs))
    cur = None
    for (op, sizes), o in zip(ops, outs):
        f = dict(x.split("=", 1) for x in o.replace("acc= ", "acc=").split(" ") if "=" in x and not x[0].isdigit())
        if op == "R":
            alloc = int(f["alloc"])
            tr = [int(x) for x in f["trailer"].split(",")]
            offs, items = tr[:nb], tr[nb:]
            if items != sizes:
                return "trailer item counts %s != requested %s" % (items, sizes)
            end = 0
            for k, n, off in zip(ks, sizes, offs):
                if off % A: return "block offset %d not aligned" % off
                if off < end: return "block at %d overlaps the previous one ending at %d" % (off, end)
                end = off + block_bytes(k, n)
            if end > alloc - 16 * nb:
                return "blocks end at %d, beyond the trailer start %d (alloc %d)" % (end, alloc - 16 * nb, alloc)
            cur = (alloc, sizes, offs)
        acc = o.split("acc=")[1].split(" same=")[0].split() if "acc=" in o else []
        if cur and acc:
            alloc, sizes_c, offs_c = cur
            for a in acc:
                b, i_, r, off = (int(x) for x in a.split(":"))
                tk, sz, rows = kind(ks[b])
                lo = offs_c[b]; hi = lo + block_bytes(ks[b], sizes_c[b])
                if not (lo <= off and off + sz <= hi):
                    return "accessor %s: bytes [%d,%d) outside its block [%d,%d)" % (a, off, off + sz, lo, hi)
        if op == "F":
            exp = sum((1 if kind(k)[0] == "S" else n * (kind(k)[2] if kind(k)[0] in "RC" else 1)) for k, n in zip(ks, cur[1])) if cur else None
            if not o.startswith("each ") or not o.endswith("same=1") or (exp is not None and f.get("n") != str(exp)):
                return "applyToAllElements visited %s elements (same addresses as the viewers: %s), the blocks hold %s" % (f.get("n"), o.split("same=")[-1], exp)
        if op == "V" and not o.endswith("same=1"):
            return "a byte copy viewed through the raw-memory constructor differs from the original: " + o[-80:]
    return None


def run(tier, seed):
    rep = vlib.Report("C14", tier, seed, "proof")
    sdir = vlib.scratch("C14")
    try:
        common.proof_part(rep, "Properties_C14")
        binary, err = vlib.build_harness("h_mem")
        if not binary:
            rep.violation(dict(kind="build", clause="h_mem", has_input=True), "harness h_mem does not compile: " + err[-600:], dict(stderr=err))
            return rep.finish()
        rng = vlib.Rng(seed).fork("c14")
        cases = gen_cases(tier, rng)
        vlib.differential(rep, binary, cases, sdir, "mem", oracle=oracle, nontrivial=lambda c, i: c.count(" R ") >= 2,
                          clause=lambda c: "mem:layout" + c.split()[1])
        # group buffers of real trees
        tbin, err = vlib.build_harness("h_tree")
        if not tbin:
            rep.violation(dict(kind="build", clause="h_tree", has_input=True), "harness h_tree does not compile: " + err[-600:], dict(stderr=err))
            return rep.finish()
        tcases = []
        for tc in T.gen_random(rng, 150 if tier == "quick" else 5000, 300 if tier == "quick" else 3000):
            tc.queries = ["cv"]
            tcases.append(tc.text())

        def tcanon(c, line):
            return line.split(" || ")[0]

        def toracle(c, line):
            r = line.split(" || ")[-1]
            if "bad=0" not in r:
                return "group buffers copied and re-viewed differ from the original: " + r
            return None
        vlib.differential(rep, tbin, tcases, sdir, "groups", canon=tcanon, oracle=toracle, nontrivial=lambda c, i: "groups=" in i,
                          clause=lambda c: "groupview:d" + c.split()[1])
        rep.coverage["rule"] = ("11 block layouts (1..4 sub-blocks; scalar/vector/multi-row/multi-column kinds; element sizes 1,2,4,8,12,16,24,32,40,64,128,4096) x random op sequences "
                                "(reset with counts aimed at alignment boundaries: 0, 1, k*64/sz, +-1, up to 1e4; shrink-then-reuse; move construct/assign; copy+view); "
                                "plus copy+view of every cell/particle group buffer of random trees d=1..4. non-trivial = >= 2 resets (buffer reuse possible) / any tree")
        return rep.finish()
    finally:
        vlib.cleanup(sdir)
