import os, sys
sys.path.insert(0, os.path.join(os.path.dirname(__file__), "..", "tools"))
import vlib

TRUSTED = [
    "Coq 8.16.1 kernel (coqc), including vm_compute; no native_compute",
    "extraction with ExtrOcamlBasic only (Extract Inductive bool/option/unit/list/prod/sumbool/sumor); OCaml 4.13.1",
    "hand-written ocaml/zio.ml + ocaml/driver.ml (decimal I/O, command dispatch)",
    "C++ harness sources under /verif/harness, g++ 12.2, ASan/UBSan as observers",
    "python drivers under /verif/checks and /verif/tools (case generation, canonicalisation, oracle)",
]


def proof_part_more(rep, prop_file, extra_trusted=()):
    """A second property file of the same property: adds its obligations/axioms to what proof_part recorded."""
    st = vlib.proof_status(prop_file)
    n = len(st["theorems"])
    ok = st["compiled"] and not st["bad_axioms"] and not st["missing_print_assumptions"]
    rep.coverage["obligations"] = rep.coverage.get("obligations", 0) + n
    rep.coverage["discharged"] = rep.coverage.get("discharged", 0) + (n if ok else 0)
    rep.coverage["checker_cmd"] = rep.coverage.get("checker_cmd", "") + " ; Properties/%s.vo" % prop_file
    rep.coverage["trusted_base"] = rep.coverage.get("trusted_base", []) + list(extra_trusted) + ["axioms per theorem of %s (Print Assumptions): " % prop_file + "; ".join("%s: %s" % (t, ", ".join(a) if a else "closed") for t, a in sorted(st["axioms"].items()))]
    rep.coverage["theorems"] = rep.coverage.get("theorems", []) + st["theorems"]
    if not st["compiled"]:
        import re
        m = re.search(r'File "\./([^"]+)", line (\d+)', st["log"])
        where = "%s:%s" % (m.group(1), m.group(2)) if m else "?"
        rep.violation(dict(kind="proof", clause="coqc"), "proof obligations of %s no longer check (first error at %s)" % (prop_file, where),
                      dict(theorem_file=prop_file, first_error=where, log=st["log"][-3000:]))
    for b in st["bad_axioms"]:
        rep.violation(dict(kind="proof", clause="axiom"), "non-whitelisted axiom: " + b, dict(axiom=b))
    for t in st["missing_print_assumptions"]:
        if st["compiled"]:
            rep.violation(dict(kind="proof", clause="print-assumptions"), "theorem %s has no Print Assumptions" % t, dict(theorem=t))
    return st


def proof_part(rep, prop_file, extra_trusted=()):
    """Re-checks the proofs of one property file and records obligations."""
    bad = vlib.scan_forbidden()
    for b in bad:
        rep.violation(dict(kind="proof", clause="forbidden-vernacular"), "forbidden vernacular in development: " + b, dict(where=b))
    ok, log = vlib.coq_build()
    st = vlib.proof_status(prop_file)
    n = len(st["theorems"])
    discharged = n if st["compiled"] else 0
    rep.coverage["obligations"] = n
    rep.coverage["discharged"] = discharged if not st["bad_axioms"] and not st["missing_print_assumptions"] else 0
    rep.coverage["checker_cmd"] = "cd /verif/coq && make -k Properties/%s.vo  (coqc 8.16.1, full .vo build)" % prop_file
    rep.coverage["trusted_base"] = TRUSTED + list(extra_trusted) + ["axioms per theorem (Print Assumptions): " + "; ".join("%s: %s" % (t, ", ".join(a) if a else "closed") for t, a in sorted(st["axioms"].items()))]
    rep.coverage["theorems"] = st["theorems"]
    if not st["compiled"]:
        # which theorem? take the first error location
        import re
        m = re.search(r'File "\./([^"]+)", line (\d+)', st["log"])
        where = "%s:%s" % (m.group(1), m.group(2)) if m else "?"
        rep.violation(dict(kind="proof", clause="coqc"), "proof obligations of %s no longer check (first error at %s)" % (prop_file, where),
                      dict(theorem_file=prop_file, first_error=where, log=st["log"][-3000:]))
    for b in st["bad_axioms"]:
        rep.violation(dict(kind="proof", clause="axiom"), "non-whitelisted axiom: " + b, dict(axiom=b))
    for t in st["missing_print_assumptions"]:
        if st["compiled"]:
            rep.violation(dict(kind="proof", clause="print-assumptions"), "theorem %s has no Print Assumptions" % t, dict(theorem=t))
    return st
