from checks import treecheck
def run(tier, seed):
    return treecheck.run_tree_property("C06", "Properties_C06", tier, seed, set("placement,data".split(",")))
