from checks import treecheck, locate
import vlib


def run(tier, seed):
    def extra(rep, sdir):
        locate.run_float_part(rep, tier, seed, sdir)
    return treecheck.run_tree_property("C06", "Properties_C06", tier, seed, set("placement,data".split(",")), extra=extra)
