from checks import treecheck, locate, common
import vlib


def run(tier, seed):
    def extra(rep, sdir):
        common.proof_part_more(rep, "Properties_C06f", extra_trusted=["Flocq 4 (user-contrib) and Coq's classical real numbers: ClassicalDedekindReals.sig_not_dec, sig_forall_dec, FunctionalExtensionality.functional_extensionality_dep, Classical_Prop.classic"])
        locate.run_float_part(rep, tier, seed, sdir)
    return treecheck.run_tree_property("C06", "Properties_C06", tier, seed, set("placement,data".split(",")), extra=extra)
