from checks import numcheck
def run(tier, seed):
    return numcheck.run_num("C05", 1, "uniform", tier, seed)
