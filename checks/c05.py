"""C05 - uniform interpolation kernel.  Accuracy: measured (checks/numcheck.py).  Proved + tied here: the one-dimensional building
block (FUnifRoots: equispaced roots, Lagrange polynomials in the product form, derivatives) is modelled exactly over Q
(coq/Num/UnifDefs.v), compared with the C++ values within rounding, and the laws that make P2M / M2M conserve the charge
(interpolation property, partition of unity for orders 2..8) are theorems (coq/Num/UnifProofs.v, Properties_C05)."""
import os
from fractions import Fraction
from checks import numcheck
import vlib

TOL = {64: (4e-15, 1e-13, 4e-13), 32: (2e-7, 8e-6, 8e-5)}      # roots, L, dL: 8-12 x the largest deviation measured on the pinned tree


def coq_caps():
    """the caps of Num/UnifCauchy.v (Definition unif_cap), read from the Coq source so that the run-time check uses the theorem's numbers"""
    import re
    txt = open(os.path.join(vlib.COQ, "Num", "UnifCauchy.v")).read()
    body = txt[txt.index("Definition unif_cap"):]
    body = body[:body.index("end.")]
    return {int(a): Fraction(int(b), int(c)) for a, b, c in re.findall(r"(\d+)%nat\s*=>\s*(\d+)#(\d+)", body)}


def unif_part(rep, sdir, rng):
    caps = coq_caps()
    binary, err = vlib.build_harness("h_unif")
    if not binary:
        rep.violation(dict(kind="build", clause="h_unif", has_input=True), "harness h_unif does not compile: " + err[-400:], dict(stderr=err))
        return
    cases = []
    for real in (64, 32):
        for order in range(2, 9):
            xs = [(-1, 1), (1, 1), (0, 1), (1, 3), (-9, 10)] + [(rng.range(-1000, 1000), 1000) for _ in range(30)] + [(2 * m - (order - 1), order - 1) for m in range(order)]
            for a, b in xs:
                cases.append("unif %d %d %d %d" % (real, order, a, b))

    def canon(c, line):
        return "-"            # compared numerically by the oracle below, not textually

    model = {}
    mp = os.path.join(sdir, "unif.m"); vlib.write_cases(mp, cases)
    for c, m in zip(cases, vlib.run_model(mp)):
        model[c] = m

    def oracle(c, line):
        real, order = int(c.split()[1]), int(c.split()[2])
        m = model.get(c, "")
        if "|" not in m: return "model gave no answer: " + m[:80]
        ip = [[float(x) for x in part.split()] for part in line.split("|")]
        ex = [[Fraction(x) for x in part.split()] for part in m.split("|")]
        names = ("root", "L", "dL")
        for k in range(3):
            if len(ip[k]) != order or len(ex[k]) != order: return "%d values for order %d" % (len(ip[k]), order)
            for n, (u, v) in enumerate(zip(ip[k], ex[k])):
                if abs(Fraction(u) - v) > Fraction(TOL[real][k]) * max(1, abs(v)):
                    return "%s_%d = %.17g, the exact value is %s = %.17g" % (names[k], n, u, v, float(v))
        # partition of unity and zero derivative sum, on the implementation's own values
        if abs(sum(ip[1]) - 1) > 50 * TOL[real][1]: return "sum of the Lagrange polynomials = %.17g" % sum(ip[1])
        if abs(sum(ip[2])) > 50 * TOL[real][2] * max(1, max(abs(x) for x in ip[2])): return "sum of the derivatives = %.3g" % sum(ip[2])
        # C05_cauchy_identity / C05_cauchy_truncation_bound on the implementation's own roots and polynomial values: a source at x in the
        # cell [-1,1] seen from a well-separated target d >= 3 through the interpolation weights
        x = Fraction(int(c.split()[3]), int(c.split()[4]))
        if abs(x) <= 1 and order in caps:
            for dd in (Fraction(3), Fraction(7, 2), Fraction(5), Fraction(40)):
                got = sum(Fraction(l) / (dd - Fraction(r)) for r, l in zip(ip[0], ip[1]))
                W = lambda t: __import__("math").prod((t - r) for r in ex[0])
                predicted = (1 - W(x) / W(dd)) / (dd - x)
                slack = Fraction(50 * TOL[real][1]) * order / (dd - 1)
                if abs(got - predicted) > slack:
                    return "interpolated Cauchy kernel at x=%s, d=%s is %.17g, the identity of C05_cauchy_identity gives %.17g" % (x, dd, float(got), float(predicted))
                if abs(got - 1 / (dd - x)) > caps[order] / (dd - x) + slack:
                    return "interpolated Cauchy kernel at x=%s, d=%s is off by %.3g, more than the proved cap %s of its value" % (x, dd, float(abs(got - 1 / (dd - x))), caps[order])
        return None
    vlib.differential(rep, binary, cases, sdir, "unif", canon=canon, oracle=oracle, model_cases=cases, nontrivial=lambda c, i: True,
                      clause=lambda c: "unif:order%s:%s" % (c.split()[2], c.split()[1]))


def run(tier, seed):
    props = ("Properties_C05",) if os.path.exists(os.path.join(vlib.COQ, "Properties", "Properties_C05.v")) else ()
    return numcheck.run_num("C05", 1, "uniform", tier, seed, extra=unif_part, extra_props=props)
