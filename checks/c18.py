"""C18 — interaction counters report the true number of elementary interactions.
Real TbfInteractionCounter<TraceKernel> copies (one per flag mask, as per-worker copies would be) merged with Counters::Reduce in
both orders vs the model (count_trace / merge_counters); oracle: counts recomputed from the tree definition and from the
implementation's own trace; wrapped kernel results must equal the unwrapped exactly-once values."""
import sys, os
from collections import Counter
sys.path.insert(0, os.path.join(os.path.dirname(__file__), "..", "tools"))
import vlib
from checks import common, treecommon as T, algocommon as A, oracle_index as O

SPLITS = [[63], [7, 56], [56, 7], [2, 4, 8, 16, 32, 1], [1, 2, 4, 8, 16, 32], [6, 9, 48], [3, 12, 48], [62, 1], [32, 16, 8, 4, 2, 1]]


def expected_counts(tc, s):
    d, H = tc.d, tc.H
    L = H - 1
    lp = A.leaf_particles(tc)
    cells = {L: sorted(lp)}
    for l in range(L - 1, -1, -1):
        cells[l] = sorted(set(c >> d for c in cells[l + 1]))
    nl = len(lp)
    active = H > s
    links = sum(len(cells[l + 1]) for l in range(s, H - 1))
    m2l = 0
    for l in range(s, H):
        cs = set(cells[l])
        for c in cells[l]:
            m2l += sum(1 for src, _ in O.ilist(c, l, d, tc.per) if src in cs)
    p2p = 0
    for c in lp:
        for src, _ in O.nlist(c, L, d, tc.per, True):
            if src in lp:
                p2p += len(lp[src]) * len(lp[c])
    inner = sum(len(v) * len(v) - len(v) for v in lp.values())
    return [nl if active else 0, links, m2l, links, nl if active else 0, p2p, inner]


def run(tier, seed):
    rep = vlib.Report("C18", tier, seed, "proof")
    sdir = vlib.scratch("C18")
    try:
        common.proof_part(rep, "Properties_C18")
        binary, err = vlib.build_harness("h_algo_cnt", sources=["h_algo.cpp"], defines=["FAMILY_CNT"])
        if not binary:
            rep.violation(dict(kind="build", clause="h_algo", has_input=True), "harness h_algo does not compile: " + err[-600:], dict(stderr=err))
            return rep.finish()
        rng = vlib.Rng(seed).fork("c18")
        cases = []
        n = 260 if tier == "quick" else 4000
        for tc in T.gen_random(rng, n, 150 if tier == "quick" else 1500, dims=(1, 2, 3), Hmax={1: 7, 2: 5, 3: 5}):
            stop = rng.choice([2, 2, 0, 1, 3])
            masks = rng.choice(SPLITS)
            cases.append("execcnt %d 0 %d %d %d %d %d %s %d %s" % (tc.d, tc.H, tc.B, tc.mode, stop, len(masks), " ".join(map(str, masks)), tc.N,
                                                                  " ".join(str(x) for p in tc.nums for x in p)))

        def fields(line):
            parts = line.split(" || ")
            return parts

        def canon(c, line):
            if line.startswith(("ABORT", "MODEL", "?")):
                return line
            p = fields(line)
            calls = [A.parse_call(x) for x in A.split_trace(p[1])]
            return (p[0], sorted(A.elementary(calls).items()), p[2], p[3], p[4])

        def oracle(c, line):
            t = c.split()
            d, per, H, B, mode, stop, nf = (int(x) for x in t[1:8])
            masks = [int(x) for x in t[8:8 + nf]]
            N = int(t[8 + nf]); nums = [int(x) for x in t[9 + nf:]]
            tc = T.TreeCase(d, per, H, B, mode, [nums[k * d:(k + 1) * d] for k in range(N)])
            s = max(0, stop)
            p = fields(line)
            F = [int(x) for x in p[3].split()[1:]]
            Bk = [int(x) for x in p[4].split()[1:]]
            exp = expected_counts(tc, s)
            names = ["P2M", "M2M", "M2L", "L2L", "L2P", "P2P", "P2PInner"]
            for nm, a, b, e in zip(names, F, Bk, exp):
                if a != e:
                    return "merged %s counter = %d, the tree implies %d" % (nm, a, e)
                if b != e:
                    return "merged (reverse order) %s counter = %d, the tree implies %d" % (nm, b, e)
            # from the implementation's own trace
            calls = [A.parse_call(x) for x in A.split_trace(p[1])]
            el = A.elementary(calls)
            tr = [sum(v for k, v in el.items() if k[0] == "P2M"), sum(v for k, v in el.items() if k[0] == "M2M"),
                  sum(v for k, v in el.items() if k[0] == "M2L"), sum(v for k, v in el.items() if k[0] == "L2L"),
                  sum(v for k, v in el.items() if k[0] == "L2P"),
                  sum(v * len(k[5]) * len(k[6]) for k, v in el.items() if k[0] == "P2P"),
                  sum(v * (len(k[5]) ** 2 - len(k[5])) for k, v in el.items() if k[0] == "P2PInner")]
            if tr != F:
                return "counters %s differ from the calls actually made %s" % (F, tr)
            # wrapped kernel results unchanged (full far+near coverage by the masks)
            R = {}
            for tok in p[5].split()[1:]:
                a, b = tok.split("="); R[int(a)] = int(b)
            if s <= 2 and masks not in ([56, 7], [32, 16, 8, 4, 2, 1]):   # value clause only for histories in dependency order
                tot = sum(A.weight(q) for q in range(tc.N)) & A.M64
                for q in range(tc.N):
                    if R.get(q) != (tot - A.weight(q)) & A.M64:
                        return "wrapping the kernel changed the results: particle %d has %s" % (q, R.get(q))
            return None

        vlib.differential(rep, binary, cases, sdir, "cnt", canon=canon, oracle=oracle,
                          nontrivial=lambda c, i: " M2M " in i and int(c.split()[7]) >= 2, clause=lambda c: "cnt:d%s:split%s" % (c.split()[1], c.split()[7]))
        # target/source executor with the counter kernel (TbfInteractionCounter::P2PTsm, D10): counters = those of the model
        # (theorem tsm_counts_spec), both merge orders, wrapped results unchanged (every target = sum over all sources)
        from checks import c09
        tcases = []
        for b in c09.gen_cases("quick", rng)[: (60 if tier == "quick" else 600)]:
            f = b.split()
            if int(f[1]) > 3 or int(f[2]) != 0: continue
            masks = rng.choice([[63], [62, 1], [6, 8, 48, 1], [2, 4, 8, 16, 32, 1]])
            nf = int(f[7])
            tcases.append("execcnttsm " + " ".join(f[1:7]) + " %d %s " % (len(masks), " ".join(map(str, masks))) + " ".join(f[8 + nf:]))

        def tcanon(c, line):
            if line.startswith(("ABORT", "MODEL", "?")):
                return line
            p = line.split(" || ")
            calls = [A.parse_call(x) for x in A.split_trace(p[2])]
            return (p[0], p[1], sorted(A.elementary(calls).items()), p[3], p[4], p[5])

        def toracle(c, line):
            p = line.split(" || ")
            F = [int(x) for x in p[4].split()[1:]]; Bk = [int(x) for x in p[5].split()[1:]]
            if F != Bk: return "merge order changes the counters: %s vs %s" % (F, Bk)
            calls = [A.parse_call(x) for x in A.split_trace(p[2])]
            el = A.elementary(calls)
            tr = [sum(v for k, v in el.items() if k[0] == "P2M"), sum(v for k, v in el.items() if k[0] == "M2M"),
                  sum(v for k, v in el.items() if k[0] == "M2L"), sum(v for k, v in el.items() if k[0] == "L2L"),
                  sum(v for k, v in el.items() if k[0] == "L2P"),
                  sum(v * len(k[5]) * len(k[6]) for k, v in el.items() if k[0] == "P2PTsm"), 0]
            if tr != F: return "counters %s differ from the calls actually made %s" % (F, tr)
            t = c.split(); nf = int(t[7])
            S, Tg, stop, flags = c09.parse_case("exectsm " + " ".join(t[1:7]) + " 1 63 " + " ".join(t[8 + nf:]))
            if max(0, stop) <= 2:
                R = {}
                for tok in p[6].split()[1:]:
                    k, v = tok.split("="); R[int(k)] = int(v)
                tot = sum(A.weight(q) for q in range(S.N)) & A.M64
                for q in range(Tg.N):
                    if R.get(q) != tot: return "wrapping the kernel changed the results: target %d has %s" % (q, R.get(q))
            return None
        vlib.differential(rep, binary, tcases, sdir, "cnttsm", canon=tcanon, oracle=toracle, nontrivial=lambda c, i: " P2PTsm " in i and " M2L " in i,
                          clause=lambda c: "cnttsm:d%s" % c.split()[1])
        # the real per-worker partition: the task executors (OpenMP, Specx, StarPU on the mock runtimes of C03) with one counter
        # kernel per worker under seeded schedules; merged counters must be those of the sequential model
        from checks import c03
        from concurrent.futures import ThreadPoolExecutor
        with ThreadPoolExecutor(max_workers=3) as ex:
            built = list(ex.map(lambda r: vlib.build_harness(r[1], extra_flags=r[2], sources=["h_sched.cpp"], defines=r[3], includes=r[4]), c03.RUNTIMES))
        for (rt, hname, flags, defines, incs, share), (sbin, serr) in zip(c03.RUNTIMES, built):
            if not sbin:
                rep.violation(dict(kind="build", clause=hname, has_input=True), "harness %s does not compile: %s" % (hname, serr[-400:]), dict(stderr=serr))
                continue
            rcases, mcases = [], []
            nrt = int((40 if tier == "quick" else 300) * share)
            for tc in T.gen_random(rng, nrt, 120 if tier == "quick" else 800, dims=(1, 2, 3), Hmax={1: 7, 2: 5, 3: 5}):
                stop = rng.choice([2, 2, 0, 1])
                for pol, Tn, ss in [(rng.choice([1, 2, 4, 5]), rng.choice([2, 3, 8, 16]), 0), (3, rng.choice([1, 2, 3, 8, 16]), rng.below(1 << 30))]:
                    nums = " ".join(str(x) for p in tc.nums for x in p)
                    rcases.append("execcntrt %d 0 %d %d %d %d %d %d %d %d %s" % (tc.d, tc.H, tc.B, tc.mode, stop, pol, Tn, ss, tc.N, nums))
                    mcases.append("execcnt %d 0 %d %d %d %d 1 63 %d %s" % (tc.d, tc.H, tc.B, tc.mode, stop, tc.N, nums))

            def rcanon(c, line):
                if line.startswith(("ABORT", "MODEL", "?")):
                    return line
                p = fields(line)
                calls = [A.parse_call(x) for x in A.split_trace(p[1])]
                return (p[0], sorted(A.elementary(calls).items()), p[3], p[4])      # per-worker split (K) depends on the schedule

            def roracle(c, line):
                t = c.split()
                mc = "execcnt %s 1 63 %s" % (" ".join(t[1:7]), " ".join(t[10:]))
                m = oracle(mc, line)
                if m: return "under schedule policy %s, %s workers: %s" % (t[7], t[8], m)
                p = fields(line)
                ks = [[int(x) for x in part.split()] for part in p[2][2:].split(" | ")]
                if len(ks) < int(t[8]) and rt != "starpu":
                    return "%d kernel copies for %s workers" % (len(ks), t[8])
                return None
            vlib.differential(rep, sbin, rcases, sdir, "cnt" + rt, canon=rcanon, oracle=roracle, model_cases=mcases,
                              nontrivial=lambda c, i: " M2M " in i and i.split(" || ")[2].count("|") >= 1,
                              clause=lambda c: "cnt%s:d%s" % (rt, c.split()[1]))
        rep.coverage["rule"] = "random trees d=1..3 x stop levels x 9 ways of splitting the operators over separate counter-kernel copies (merged forward and backward); non-trivial = >= 2 copies merged and M2M present; plus the per-worker copies of the real task executors (OpenMP / Specx / StarPU on mock runtimes) under seeded schedules"
        return rep.finish()
    finally:
        vlib.cleanup(sdir)
