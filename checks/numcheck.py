"""C04 / C05 — rotation and uniform kernels against the direct sum.  NOT a proof of the accuracy clause (see DESIGN.md): the
truncation error of the spherical-harmonic / Lagrange-FFT operators is measured against an independent long-double direct sum,
with tolerance bands calibrated on the pinned tree (x4 safety).  What IS proved and re-checked here: exactly-once (C01) reduces
the global error to per-pair errors and makes the result independent of grouping/executor in exact arithmetic (C08, C03), and the
direct-sum law itself (C20)."""
import sys, os, subprocess, time
from concurrent.futures import ThreadPoolExecutor
sys.path.insert(0, os.path.join(os.path.dirname(__file__), "..", "tools"))
import vlib

# calibrated on the pinned tree (max over heights 3..7, unit and shifted/scaled boxes, charges of either sign), times 4
BANDS = {
    0: {4: (3e-3, 1.2e-1), 6: (9e-4, 4e-2), 8: (4e-4, 1.5e-2), 12: (6e-5, 3.5e-3)},
    1: {3: (3.5e-3, 1e-1), 4: (8e-4, 4e-2), 5: (9e-5, 6e-3), 6: (1.4e-5, 1.5e-3), 7: (2e-6, 3.5e-4), 8: (3.5e-7, 7e-5)},
}
# per-height bands for the plain double-precision scenarios: 4 x the maximum over 10 random scenarios per (kernel, order, height)
# measured on the pinned tree by tools/calibrate_num.py (heights 3..6; height 7 uses 2 x the height-6 entry)
BANDS_H = {
    0: {
        4: {3: (0.0034, 0.026), 4: (0.0032, 0.032), 5: (0.0024, 0.045), 6: (0.0024, 0.083)},
        6: {3: (0.00091, 0.011), 4: (0.0008, 0.015), 5: (0.00088, 0.022), 6: (0.00094, 0.046)},
        8: {3: (0.00054, 0.0066), 4: (0.0004, 0.0066), 5: (0.00027, 0.0093), 6: (0.00026, 0.016)},
        12: {3: (6.1e-05, 0.0011), 4: (8.2e-05, 0.0019), 5: (0.00011, 0.0032), 6: (8.3e-05, 0.015)},
    },
    1: {
        3: {3: (0.0037, 0.024), 4: (0.0034, 0.042), 5: (0.0032, 0.037), 6: (0.0032, 0.083)},
        4: {3: (0.0012, 0.01), 4: (0.00099, 0.013), 5: (0.0008, 0.013), 6: (0.00091, 0.022)},
        5: {3: (0.00011, 0.0021), 4: (0.0001, 0.0021), 5: (8.6e-05, 0.0035), 6: (6.1e-05, 0.004)},
        6: {3: (1.9e-05, 0.0003), 4: (1.4e-05, 0.00035), 5: (9.3e-06, 0.00062), 6: (1e-05, 0.0011)},
        7: {3: (1.9e-06, 0.0001), 4: (2.4e-06, 0.00014), 5: (1.6e-06, 0.00018), 6: (1.6e-06, 0.00043)},
        8: {3: (6.6e-07, 2.2e-05), 4: (5.1e-07, 3.2e-05), 5: (5e-07, 4.6e-05), 6: (4.2e-07, 0.00015)},
    },
}
# well-separated sparse scenario (place = 64: one particle near the centre of each level-2 cell of {0,2}^3): the truncation error is
# negligible, what is measured is the accuracy of the translation operators; maxima over 144 scenarios on the pinned tree x 4
# (rotation kernel: x 100 above the rounding floor, the measured values are 1e-15 .. 5e-10)
BANDS_SPARSE = {
    0: {4: (4e-11, 6e-8), 6: (1e-12, 1e-11), 8: (1e-12, 1e-11), 12: (1e-12, 1e-11)},
    1: {3: (4.6e-4, 1.4e-1), 4: (4.7e-3, 1.2e-2), 5: (7.3e-6, 2.2e-3), 6: (1.2e-5, 2.1e-5), 7: (9.3e-8, 2.7e-5), 8: (2.9e-7, 1.3e-6)},
}
FLOOR = {"double": (1e-13, 1e-12), "float": (2e-5, 2e-4)}       # direct sum only (heights <= 2)
# rounding floor of the far field in the working precision (deep trees, high orders: the truncation error is below it);
# measured on the pinned tree in float: potential <= 4.1e-6, force <= 1.6e-3 at heights 6..7, orders 7..8 (x5)
FARFLOOR = {"double": (1e-13, 1e-12), "float": (2e-5, 8e-3)}
FLAGS = ["-std=c++17", "-O2", "-g", "-UNDEBUG", "-fopenmp", "-ffp-contract=off"]


def build(kernel, param, real, sdir):
    name = "h_num_k%d_%d_%s" % (kernel, param, real)
    key = vlib.repo_src_hash([os.path.join(vlib.ROOT, "harness", "h_num.cpp"), os.path.join(vlib.ROOT, "harness", "common.hpp"), name])
    out = os.path.join(vlib.BUILD, "%s-%s" % (name, key))
    if os.path.exists(out):
        return out, None
    for f in os.listdir(vlib.BUILD):
        if f.startswith(name + "-"):
            try: os.remove(os.path.join(vlib.BUILD, f))
            except OSError: pass
    cmd = ["g++"] + FLAGS + ["-DKERNEL=%d" % kernel, "-DPARAM=%d" % param, "-DREALT=%s" % real, "-I" + os.path.join(vlib.REPO, "src"),
                             "-I" + os.path.join(vlib.ROOT, "harness"), os.path.join(vlib.ROOT, "harness", "h_num.cpp"), "-o", out + ".tmp", "-lfftw3", "-lfftw3f"]
    p = subprocess.run(cmd, capture_output=True, text=True)
    if p.returncode != 0:
        return None, p.stderr[-1500:]
    os.replace(out + ".tmp", out)
    return out, None


def scenarios(tier, rng):
    sc = []
    boxes = [(0.5, 0.5, 0.5, 1.0), (3.1, -2.7, 0.4, 2.3), (-1.5, 0.25, 10.0, 0.37)]
    hmax = 6 if tier == "quick" else 7
    for H in range(1, hmax + 1):
        N = {1: 40, 2: 100, 3: 300, 4: 800, 5: 1500, 6: 2200, 7: 3000}[H]
        box = boxes[H % 3]
        sc.append(dict(H=H, B=rng.choice([7, 30, 100]), mode=rng.below(2), ex=0, N=N, seed=rng.below(1000), box=box, charge=H % 2, fam=None))
    # grouping / executor family on one deep tree: results must agree to rounding
    Hf, Nf, seedf, boxf = 5, 1200, rng.below(1000), boxes[1]
    for B, mode, ex in [(50, 0, 0), (3, 0, 0), (50, 1, 0), (10000000, 0, 0), (17, 1, 1), (50, 0, 1)]:
        sc.append(dict(H=Hf, B=B, mode=mode, ex=ex, N=Nf, seed=seedf, box=boxf, charge=1, fam="g"))
    # linearity in the charges (C04: "unchanged to rounding by ... splitting the charges linearly"): the same positions with charge
    # sets A, B and A+B; the potentials (checksum) of A+B must be the sum of those of A and B
    Hl, Nl, seedl = 5, 1000, rng.below(1000)
    for cm in (2, 3, 4):
        sc.append(dict(H=Hl, B=40, mode=0, ex=0, N=Nl, seed=seedl, box=boxes[1], charge=cm, fam="lin"))
    # special positions (C04: "points on cell faces, cell centres and cell axes"): place = bitmask understood by h_num
    # (1 polar axis, 2 x axis, 4 y axis, 8 exact cell centre, 16 cell face, 32 cell edge); dyadic and non-dyadic boxes
    for H, place, box in [(4, 6, boxes[0]), (4, 48, boxes[0]), (3, 1, boxes[0]), (4, 8, boxes[0]), (4, 48, boxes[1]), (5, 54, boxes[2])]:
        sc.append(dict(H=H, B=rng.choice([7, 30]), mode=rng.below(2), ex=0, N=500, seed=rng.below(1000), box=box, charge=1, fam=None, place=place))
    # charge conservation of the upward pass (P2M + M2M): at every level the multipole weights sum to the total charge
    # (uniform kernel: partition of unity of the Lagrange polynomials, Properties_C05; rotation kernel: the monopole term)
    for H, chg in [(5, 1), (4, 0), (6, 1)] + ([(7, 1), (3, 0)] if tier != "quick" else []):
        sc.append(dict(H=H, B=rng.choice([3, 30, 10000000]), mode=rng.below(2), ex=0, N=900, seed=rng.below(1000), box=boxes[H % 3], charge=chg, fam=None, cons=True))
    # polynomial exactness of the uniform kernel's interpolation operators (kernel 1 only; h_num answers ?unknown otherwise)
    for H, chg in [(5, 1), (4, 0)] + ([(6, 1), (3, 1)] if tier != "quick" else []):
        sc.append(dict(H=H, B=rng.choice([3, 30, 10000000]), mode=rng.below(2), ex=0, N=700, seed=rng.below(1000), box=boxes[(H + 1) % 3], charge=chg, fam=None, exact=True))
    # target/source variant (C05: "target/source and periodic variants"): separate particle sets, targets against the sum over sources
    for H, rel, ex in [(4, 0, 0), (5, 1, 0), (4, 2, 1), (5, 3, 0)] + ([(6, 1, 1), (3, 0, 0), (6, 3, 0)] if tier != "quick" else []):
        sc.append(dict(H=H, B=rng.choice([7, 30, 10000000]), mode=rng.below(2), ex=ex, N=300, Ns=700, seed=rng.below(1000), box=boxes[(H + rel) % 3], charge=1, fam=None, rel=rel))
    # well-separated sparse particles near level-2 cell centres: accuracy of the translation operators themselves
    for H in ((4, 6) if tier == "quick" else (4, 5, 6, 7)):
        sc.append(dict(H=H, B=rng.choice([1, 3, 10]), mode=rng.below(2), ex=0, N=8, seed=rng.below(1000), box=boxes[H % 3], charge=1, fam=None, place=64))
    # periodic variant (C04/C10: "numerical kernels match the explicit sum over those images"): four-step sequence with k extra
    # levels against the explicit long-double image sum over the interval the library reports
    pk = [(2, -1), (2, 0), (3, 1), (4, 0), (3, -1)] + ([(4, 2), (2, 2), (5, 1)] if tier != "quick" else [(3, 2)])
    for H, k in pk:
        sc.append(dict(H=H, B=rng.choice([3, 10, 1000]), mode=rng.below(2), ex=0, N=60 if k >= 2 else 90, seed=rng.below(1000), box=boxes[(H + k) % 3], charge=(H + k) % 2, fam=None, k=k))
    return sc


def cmdline(s):
    if "exact" in s:
        return "nume %d %d %d %d %d %r %r %r %r %d" % (s["H"], s["B"], s["mode"], s["N"], s["seed"], s["box"][0], s["box"][1], s["box"][2], s["box"][3], s["charge"])
    if "cons" in s:
        return "numc %d %d %d %d %d %r %r %r %r %d" % (s["H"], s["B"], s["mode"], s["N"], s["seed"], s["box"][0], s["box"][1], s["box"][2], s["box"][3], s["charge"])
    if "rel" in s:
        return "numt %d %d %d %d %d %d %d %r %r %r %r %d %d" % (s["H"], s["B"], s["mode"], s["ex"], s["Ns"], s["N"], s["seed"], s["box"][0], s["box"][1], s["box"][2], s["box"][3], s["charge"], s["rel"])
    if "k" in s:
        return "nump %d %d %d %d %d %d %r %r %r %r %d" % (s["H"], s["B"], s["mode"], s["k"], s["N"], s["seed"], s["box"][0], s["box"][1], s["box"][2], s["box"][3], s["charge"])
    return "num %d %d %d %d %d %d %r %r %r %r %d%s" % (s["H"], s["B"], s["mode"], s["ex"], s["N"], s["seed"], s["box"][0], s["box"][1], s["box"][2], s["box"][3], s["charge"],
                                                     (" %d" % s["place"]) if "place" in s else "")


def parse(line):
    return dict(x.split("=") for x in line.split())


def run_num(pid, kernel, kname, tier, seed, extra=None, extra_props=()):
    rep = vlib.Report(pid, tier, seed, "other")
    sdir = vlib.scratch(pid)
    try:
        # the proved facts this property leans on
        n_obl = 0
        for pf in ("Properties_C01", "Properties_C08", "Properties_C20") + tuple(extra_props):
            st = vlib.proof_status(pf)
            n_obl += len(st["theorems"])
            if not st["compiled"]:
                rep.violation(dict(kind="proof", clause=pf), "theorems of %s no longer check" % pf, dict(theorem_file=pf, log=st["log"][-2000:]))
        rng = vlib.Rng(seed).fork(pid)
        if tier == "quick":
            params = {0: [(4, "double"), (8, "double"), (4, "float")], 1: [(3, "double"), (5, "double"), (3, "float"), (7, "float")]}[kernel]
        else:
            params = {0: [(p, r) for p in (4, 6, 8, 12) for r in ("double", "float")], 1: [(p, r) for p in (3, 4, 5, 6, 7, 8) for r in ("double", "float")]}[kernel]
        sc = scenarios(tier, rng)
        with ThreadPoolExecutor(max_workers=min(len(params), vlib.NPROC)) as ex:
            bins = list(ex.map(lambda pr: build(kernel, pr[0], pr[1], sdir), params))
        results = {}
        casefile = os.path.join(sdir, "num.cases")
        vlib.write_cases(casefile, [cmdline(s) for s in sc])

        def runone(b):
            return vlib.run_impl(b, casefile, timeout=1500, env=dict(os.environ, OMP_NUM_THREADS="4"))
        with ThreadPoolExecutor(max_workers=min(len(params), 8)) as ex:
            outs = list(ex.map(lambda be: runone(be[0]) if be[0] else None, bins))
        for (param, real), (b, err), out in zip(params, bins, outs):
            if not b:
                rep.violation(dict(kind="build", clause="h_num", has_input=True), "%s kernel order %d (%s) does not compile: %s" % (kname, param, real, err[-300:]), dict(stderr=err))
                continue
            bp, bf = BANDS[kernel][param]
            fp, ff = FLOOR[real]
            bp, bf = max(bp, FARFLOOR[real][0]), max(bf, FARFLOOR[real][1])
            fam = []
            lin = {}
            for s, line in zip(sc, out):
                rep.evaluations += 1
                case = "%s order=%d %s: %s" % (kname, param, real, cmdline(s))
                where = ""
                if "place" in s:
                    dyadic = (s["box"] == (0.5, 0.5, 0.5, 1.0))
                    where = ":" + {1: "polar-axis", 8: "cell-centre", 64: "sparse"}.get(s["place"], "face-edge-axis" + ("" if dyadic else "-nondyadic"))
                if line.startswith("ABORT"):
                    rep.violation(dict(kind="abort", clause="num" + where, has_input=True), "aborted on " + case + ": " + line, dict(case=case, impl=line)); continue
                if "exact" in s:
                    if kernel != 1 or line.startswith("?"): continue
                    r = parse(line)
                    if real == "double":
                        for key, lim, what in (("dip", 1e-12, "the first moments of the multipoles of some level differ from those of the particles (P2M / M2M do not reproduce linear functions)"),
                                               ("pot", 1e-11, "L2L + L2P do not reproduce a linear local field in the potentials"),
                                               ("frc", 1e-7, "L2L + L2P do not reproduce the gradient of a linear local field")):
                            if not (float(r[key]) <= lim):
                                rep.violation(dict(kind="oracle", clause="exactness:" + key, has_input=True), "%s: relative deviation %s > %.0e on %s" % (what, r[key], lim, case), dict(case=case, impl=line))
                    continue
                r = parse(line)
                if "cons" in s:
                    lim = 1e-12 if real == "double" else 2e-5
                    if not (float(r["cons"]) <= lim):
                        rep.violation(dict(kind="oracle", clause="charge-conservation", has_input=True),
                                      "the multipoles of some level do not sum to the total charge (relative deviation %s > %.0e) on %s" % (r["cons"], lim, case), dict(case=case, impl=line))
                    continue
                rep.nontrivial.add(case) if s["H"] >= 4 else None
                if r["finite"] != "1" or int(r["count"]) != s["N"]:
                    rep.violation(dict(kind="oracle", clause="finite" + where, has_input=True), "non-finite or missing results on " + case, dict(case=case, impl=line))
                    if not where or int(r["count"]) != s["N"]: continue      # special positions: still check what is finite (NaN never raises the maxima)
                ep, ef = float(r["epot"]), float(r["efrc"])
                lim_p, lim_f = (fp, ff) if (s["H"] <= 2 and "k" not in s) else (bp, bf)
                if real == "double" and s["H"] >= 3 and not any(x in s for x in ("place", "k", "rel", "cons")) and param in BANDS_H[kernel]:
                    hb = BANDS_H[kernel][param]
                    hp, hf = hb.get(s["H"], tuple(2 * x for x in hb[6]))
                    lim_p, lim_f = min(lim_p, hp), min(lim_f, hf)
                if s.get("place") == 64:
                    if real != "double" or param not in BANDS_SPARSE[kernel]:
                        results[(param, real, cmdline(s))] = (ep, ef)
                        continue
                    lim_p, lim_f = BANDS_SPARSE[kernel][param]
                elif "place" in s and s["H"] > 2:
                    # particles on cell faces / edges sit at the worst-case geometry of the expansions (|x - centre| maximal):
                    # the bands, calibrated on random positions, are widened by 4 for these scenarios
                    lim_p, lim_f = 4 * lim_p, 4 * lim_f
                if ep > lim_p or ef > lim_f:
                    rep.violation(dict(kind="oracle", clause="accuracy", has_input=True),
                                  "normalised error (potential %.3e, force %.3e) above the order-%d band (%.1e, %.1e) on %s" % (ep, ef, param, lim_p, lim_f, case), dict(case=case, impl=line))
                results[(param, real, cmdline(s))] = (ep, ef)
                if s["fam"] == "g": fam.append((case, float(r["cpot"])))
                if s["fam"] == "lin": lin[s["charge"]] = (case, float(r["cpot"]))
            if len(lin) == 3:
                a, b, ab = lin[2][1], lin[3][1], lin[4][1]
                scale = abs(a) + abs(b) + abs(ab) + 1e-300
                if abs(ab - (a + b)) > (1e-10 if real == "double" else 3e-4) * scale:
                    rep.violation(dict(kind="oracle", clause="linearity", has_input=True),
                                  "potentials are not linear in the charges: checksum(A+B) = %.17g, checksum(A) + checksum(B) = %.17g on %s" % (ab, a + b, lin[4][0]), dict(case=lin[4][0]))
            # invariance to grouping / executor (to rounding)
            if fam:
                ref = fam[0][1]
                tol = 1e-10 if real == "double" else 2e-4
                for case, v in fam[1:]:
                    if abs(v - ref) > tol * max(1.0, abs(ref)):
                        rep.violation(dict(kind="oracle", clause="grouping-invariance", has_input=True),
                                      "potentials differ beyond rounding between groupings/executors (checksum %.17g vs %.17g): %s vs %s" % (v, ref, case, fam[0][0]), dict(case_a=fam[0][0], case_b=case))
        # the error shrinks as the order grows (same scenario, same real type), heights >= 3
        byreal = {}
        for (param, real, c), (ep, ef) in results.items():
            byreal.setdefault((real, c), []).append((param, ep))
        for (real, c), lst in byreal.items():
            lst.sort()
            if int(c.split()[1]) < 3 or real == "float": continue
            if c.split()[0] == "num" and len(c.split()) > 12 and c.split()[12] == "64": continue     # sparse scenario: not truncation-dominated
            for (p1, e1), (p2, e2) in zip(lst, lst[1:]):
                # "shrinks as the order grows" is a statement about the truncation error: below 1e-7 (double) the differences
                # between consecutive orders are within the noise of the interpolation-node conditioning / summation order
                if e2 > e1 * 1.05 + 1e-13 and e2 > 1e-7:
                    rep.violation(dict(kind="oracle", clause="monotone-in-order", has_input=True),
                                  "%s: error grows with the order: order %d -> %.3e, order %d -> %.3e on `%s`" % (kname, p1, e1, p2, e2, c), dict(case=c))
        rep.sample(dict(case=cmdline(sc[3]), result=outs[0][3] if outs[0] else None))
        rep.sample(dict(case=cmdline(sc[-1]), result=outs[0][-1] if outs[0] else None))
        rep.coverage["explanation"] = ("Accuracy of the %s kernel is MEASURED, not proved: %d (order, real type) builds x %d scenarios (heights 1..%d, unit/shifted/scaled boxes, charges of either sign, groupings, "
                                       "sequential and OpenMP executors) against an independent long-double direct sum; bands calibrated on the pinned tree x4. No Gallina model of the %s operators exists "
                                       "(DESIGN.md: C04/C05); the proved parts re-checked here (%d obligations) are exactly-once (C01), grouping independence (C08) and the direct-sum law (C20)."
                                       % (kname, len(params), len(sc), max(s["H"] for s in sc), kname, n_obl))
        rep.coverage["rule"] = "scenario = (height, block size, mode, executor, N, seed, box, charge mode); non-trivial = height >= 4 (multi-level translations)"
        rep.coverage["bands"] = {str(k): v for k, v in BANDS[kernel].items()}
        if extra: extra(rep, sdir, rng)
        return rep.finish()
    finally:
        vlib.cleanup(sdir)
