from checks import algocheck
def run(tier, seed):
    return algocheck.run_algo_property("C08", "Properties_C08", tier, seed, set("c08,c02".split(",")))
