"""C15 — no out-of-bounds, use-after-lifetime or undefined behaviour on any valid input.
What the Coq development carries (re-checked here): no internal assertion can fire (C01/C09 no_assert theorems over every tree
satisfying the invariant), stack arrays are never over-filled (capacity theorems), accessors stay in their buffers (C14), no dead
capture in task bodies (C03 descriptors), and the exact guard under which the index bit loop stays inside 64-bit signed range
(Index/OverflowProofs.v).  What it cannot carry - addresses, heap lifetimes, leaks, compiler behaviour - is OBSERVED: every harness
family is run here under ASan + LSan + UBSan with assertions on; any report is a violation with the case as replay."""
import sys, os, re, subprocess
sys.path.insert(0, os.path.join(os.path.dirname(__file__), "..", "tools"))
import vlib
from checks import common, treecommon as T, algocommon as A, treecheck, c03, c09, c10, c11

GUARD = {1: 62, 2: 29, 3: 18, 4: 11}     # largest level with box_guard d l = true (Index/OverflowDefs.v)


def assert_sites():
    out = {}
    src = os.path.join(vlib.REPO, "src")
    for dp, dn, fn in os.walk(src):
        for f in fn:
            if f.endswith(".hpp"):
                p = os.path.join(dp, f)
                n = len(re.findall(r"\bassert\s*\(", open(p, errors="replace").read()))
                if n: out[os.path.relpath(p, src)] = n
    return out


def run(tier, seed):
    rep = vlib.Report("C15", tier, seed, "other")
    sdir = vlib.scratch("C15")
    try:
        # proved obligations
        n_obl = 0
        for pf in ("Properties_C15", "Properties_C01", "Properties_C09", "Properties_C14", "Properties_C03"):
            st = vlib.proof_status(pf)
            n_obl += len(st["theorems"])
            if not st["compiled"]:
                rep.violation(dict(kind="proof", clause=pf), "obligations of %s no longer check" % pf, dict(theorem_file=pf, log=st["log"][-2000:]))
        rng = vlib.Rng(seed).fork("c15")
        quick = tier == "quick"
        families = 0

        def noalarm(c, line):
            return None
        # 1. trees: construction, lookups, data, copy/view, export, move/rebuild cycles
        tbin, err = vlib.build_harness("h_tree")
        if tbin:
            cases = []
            for tc in T.gen_random(rng, 150 if quick else 2000, 300 if quick else 1200):
                treecheck.add_lookup_queries(tc, rng)
                tc.queries += ["data", "zero", "cv", "setrhs", "export"] + treecheck.moves(tc, rng) + ["rebuild", "export", "data"]
                cases.append(tc.text())
            vlib.differential(rep, tbin, cases, sdir, "tree", canon=lambda c, l: l.split(" || ")[0], clause=lambda c: "tree"); families += 1
            # 1b. heights >= 32 (only reachable in 1-D inside the index guard): the library computes 1 << level in int (known finding D16)
            hc = []
            for H in (32, 33, 40, 46):
                tc = T.TreeCase(1, 0, H, rng.choice([1, 3, 10000000]), rng.below(2), T.gen_positions(rng, 1, H, rng.range(1, 6), "uniform"))
                tc.queries = ["data"]
                hc.append(tc.text())
            p = os.path.join(sdir, "tall.cases"); vlib.write_cases(p, hc)
            for c, i in zip(hc, vlib.run_impl(tbin, p)):
                rep.evaluations += 1
                if i.startswith("ABORT") and "ubsan" in i and ("shift" in i or "overflow" in i):
                    rep.violation(dict(kind="abort", clause="height-beyond-int-shift", has_input=True),
                                  "a tree of height %s (1-D, indices fit 63 bits) hits an int-typed shift: %s" % (c.split()[3], i), dict(case=c, impl=i))
                elif i.startswith("ABORT"):
                    rep.violation(dict(kind="abort", clause="tall-tree", has_input=True), "tall 1-D tree aborted on `%s`: %s" % (c[:120], i), dict(case=c, impl=i))
            families += 1
        # 2. sequential executor incl. periodic lists, all stop levels and flag histories
        ebin, err = vlib.build_harness("h_algo_exec", sources=["h_algo.cpp"], defines=["FAMILY_EXEC"])
        if ebin:
            cases = []
            for tc in T.gen_random(rng, 120 if quick else 2000, 200 if quick else 800, Hmax={1: 8, 2: 6, 3: 5, 4: 4}):
                cases.append(A.ExecCase(tc.d, tc.per, tc.H, tc.B, tc.mode, tc.nums, rng.choice([2, 0, 1, 3, tc.H, -1]), rng.choice([[63], [6, 9, 48], [1], [8, 2, 4]]), rb=rng.below(4) == 0).text())
            vlib.differential(rep, ebin, cases, sdir, "exec", canon=lambda c, l: l.split(" || ")[0], clause=lambda c: "exec"); families += 1
        # 3. target/source, 4. periodic top tree, 5. OpenMP under deferred schedules (lifetimes!)
        sbin, err = vlib.build_harness("h_algo_tsm", sources=["h_algo.cpp"], defines=["FAMILY_TSM"])
        if sbin:
            cases = c09.gen_cases("quick", rng)[:80 if quick else 260]
            vlib.differential(rep, sbin, cases, sdir, "tsm", canon=lambda c, l: l.split(" || ")[0], clause=lambda c: "tsm"); families += 1
        pbin, err = vlib.build_harness("h_algo_per", sources=["h_algo.cpp"], defines=["FAMILY_PER"])
        if pbin:
            cases = c10.gen_cases("quick", rng)[:50 if quick else 150]
            vlib.differential(rep, pbin, cases, sdir, "per", canon=lambda c, l: l.split(" || ")[0], clause=lambda c: "per"); families += 1
        obin, err = vlib.build_harness("h_sched", extra_flags=c03.OMPFLAGS)
        if obin:
            cases = []
            for tc in T.gen_random(rng, 25 if quick else 250, 100, dims=(1, 2, 3), Hmax={1: 7, 2: 5, 3: 5}):
                tc.per = 0
                for pol in (1, 2, 3, 4):
                    cases.append(c03.case_text(tc, rng.choice([2, 0, 1]), [63], pol, rng.choice([1, 2, 3, 8, 16]), rng.below(1 << 30)))
            vlib.differential(rep, obin, cases, sdir, "omp", canon=lambda c, l: l.split(" || ")[0], model_cases=[c03.model_text(c) for c in cases],
                              clause=lambda c: "omp"); families += 1
        # 6. index API incl. the guard boundary of the bit loop
        ibin, err = vlib.build_harness("h_index")
        if ibin:
            cases, mcases = [], []
            for d in (1, 2, 3, 4):
                for l in (GUARD[d] - 1, GUARD[d]):
                    if l > 62: continue
                    for _ in range(6):
                        co = [rng.choice([(1 << l) - 1, rng.below(1 << l), 0]) for _ in range(d)]
                        cases.append("box %d %s" % (d, " ".join(map(str, co)))); mcases.append(cases[-1])
            vlib.differential(rep, ibin, cases, sdir, "guard-inside", model_cases=mcases, clause=lambda c: "index-inside-guard"); families += 1
            # beyond the guard, indices that still fit 62 bits: the model predicts the overflow (box_safe), UBSan observes it
            bcases, bm = [], []
            for d in (2, 3, 4):
                l = GUARD[d] + 1
                co = [(1 << l) - 1] * d
                bcases.append("box %d %s" % (d, " ".join(map(str, co)))); bm.append("boxsafe %d %s" % (d, " ".join(map(str, co))))
            p = os.path.join(sdir, "beyond.cases"); vlib.write_cases(p, bcases)
            impl = vlib.run_impl(ibin, p)
            pm = os.path.join(sdir, "beyond.m"); vlib.write_cases(pm, bm)
            model = vlib.run_model(pm)
            for c, i, m in zip(bcases, impl, model):
                rep.evaluations += 1
                d = int(c.split()[1])
                if m.strip() == "unsafe" and i.startswith("ABORT") and "ubsan" in i:
                    rep.violation(dict(kind="abort", clause="index-overflow-beyond-guard", has_input=True),
                                  "getIndexFromBoxPos overflows a signed 64-bit intermediate on `%s` (level %d, index fits 62 bits): %s" % (c, GUARD[d] + 1, i), dict(case=c, impl=i, model=m))
                elif m.strip() == "safe" and i.startswith("ABORT"):
                    rep.violation(dict(kind="abort", clause="index-inside-guard", has_input=True), "unexpected abort inside the proved guard on `%s`: %s" % (c, i), dict(case=c, impl=i))
                elif m.strip() == "unsafe" and not i.startswith("ABORT"):
                    rep.count("overflow_predicted_but_not_observed")
            families += 1
        # 7. the numerical kernels (rotation P=4, uniform order 3) under the sanitizers: single tree, OpenMP, target/source, periodic
        def build_num(kp):
            kernel, param = kp
            name = "h_num_san_k%d_%d" % (kernel, param)
            key = vlib.repo_src_hash([os.path.join(vlib.ROOT, "harness", "h_num.cpp"), os.path.join(vlib.ROOT, "harness", "common.hpp"), name])
            out = os.path.join(vlib.BUILD, "%s-%s" % (name, key))
            if os.path.exists(out): return out, None
            for f in os.listdir(vlib.BUILD):
                if f.startswith(name + "-") and not f.endswith(".tmp"):
                    try: os.remove(os.path.join(vlib.BUILD, f))
                    except OSError: pass
            tmp = "%s.%d.tmp" % (out, os.getpid())
            cmd = ["g++", "-std=c++17", "-O1", "-g", "-UNDEBUG", "-fopenmp", "-ffp-contract=off", "-fsanitize=address,undefined", "-fno-sanitize-recover=all",
                   "-ftrivial-auto-var-init=pattern", "-DKERNEL=%d" % kernel, "-DPARAM=%d" % param, "-DREALT=double", "-I" + os.path.join(vlib.REPO, "src"),
                   "-I" + os.path.join(vlib.ROOT, "harness"), os.path.join(vlib.ROOT, "harness", "h_num.cpp"), "-o", tmp, "-lfftw3", "-lfftw3f"]
            p = subprocess.run(cmd, capture_output=True, text=True)
            if p.returncode != 0: return None, p.stderr[-800:]
            os.replace(tmp, out)
            return out, None
        from concurrent.futures import ThreadPoolExecutor
        with ThreadPoolExecutor(max_workers=2) as ex:
            nb = list(ex.map(build_num, [(0, 4), (1, 3)]))
        ncases = ["num 3 10 0 0 200 3 0.5 0.5 0.5 1.0 1", "num 4 7 1 0 300 4 3.1 -2.7 0.4 2.3 1", "num 4 7 0 1 300 5 0.5 0.5 0.5 1.0 0",
                  "numt 4 10 0 0 200 150 3 0.5 0.5 0.5 1.0 1 1", "numt 3 3 1 1 120 90 8 3.1 -2.7 0.4 2.3 1 0", "nump 3 10 0 1 60 4 0.5 0.5 0.5 1.0 1",
                  "nump 2 10 0 -1 40 4 0.5 0.5 0.5 1.0 1", "nump 3 3 1 0 50 9 3.1 -2.7 0.4 2.3 0", "num 1 10 0 0 30 3 0.5 0.5 0.5 1.0 1", "num 2 10 0 0 50 3 0.5 0.5 0.5 1.0 1",
                  "num 5 30 0 0 600 11 -1.5 0.25 10.0 0.37 1 6"]
        for (kname, (nbin, nerr)) in zip(("rotation", "uniform"), nb):
            if not nbin:
                rep.violation(dict(kind="build", clause="h_num_san", has_input=True), "sanitized %s kernel harness does not compile: %s" % (kname, nerr[-300:]), dict(stderr=nerr))
                continue
            pn = os.path.join(sdir, "num_%s.cases" % kname); vlib.write_cases(pn, ncases)
            for c, i in zip(ncases, vlib.run_impl(nbin, pn, env=dict(vlib.SAN_ENV, OMP_NUM_THREADS="4"))):
                rep.evaluations += 1
                if i.startswith("ABORT"):
                    rep.violation(dict(kind="abort", clause="numeric:" + kname, has_input=True), "%s kernel aborted under the sanitizers on `%s`: %s" % (kname, c, i), dict(case=c, impl=i))
            families += 1
        # 8. the flat memory blocks: reset / move / move-assignment into an owner / byte-copy views / for-each (lifetimes, ownership)
        mbin, err = vlib.build_harness("h_mem")
        if mbin:
            from checks import c14
            cases = c14.gen_cases("quick", rng)[:200 if quick else 400]
            vlib.differential(rep, mbin, cases, sdir, "mem", clause=lambda c: "mem"); families += 1
        sites = assert_sites()
        rep.coverage["explanation"] = ("Proved part: %d obligations re-checked (no internal assertion of the modelled executors/builders can fire on any tree satisfying the invariant; stack-array capacities; accessor bounds; "
                                       "task captures; overflow guard of the index bit loop with its refutation beyond the guard). Observed part (cannot be carried by a model: addresses, lifetimes, leaks): %d harness families "
                                       "run under ASan+LSan+UBSan with assertions enabled; any report is a violation. assert sites in src: %d in %d files; those of the modelled files are mirrored as CAssert ids in the model, "
                                       "those of the numerical kernels are exercised (not modelled) by the sanitized numeric family." % (n_obl, families, sum(sites.values()), len(sites)))
        rep.coverage["assert_sites"] = sites
        rep.coverage["rule"] = "union of the input spaces of C01/C06/C09/C10/C13/C03 (smaller counts) + index guard boundary; non-trivial = every case; distinct by text"
        rep.nontrivial = set(range(rep.evaluations))
        return rep.finish()
    finally:
        vlib.cleanup(sdir)
