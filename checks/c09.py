"""C09 — target/source mode: each target gets each source exactly once, nothing else."""
import sys, os
from collections import Counter
sys.path.insert(0, os.path.join(os.path.dirname(__file__), "..", "tools"))
import vlib
from checks import common, treecommon as T, algocommon as A, oracle_index as O


def case_text(d, per, H, B, mode, stop, flags, snums, tnums):
    return "exectsm %d %d %d %d %d %d %d %s %d %s %d %s" % (d, per, H, B, mode, stop, len(flags), " ".join(map(str, flags)),
            len(snums), " ".join(str(x) for p in snums for x in p), len(tnums), " ".join(str(x) for p in tnums for x in p))


def parse_case(c):
    t = c.split()
    d, per, H, B, mode, stop, nf = (int(x) for x in t[1:8])
    flags = [int(x) for x in t[8:8 + nf]]
    i = 8 + nf
    ns = int(t[i]); i += 1
    sn = [int(x) for x in t[i:i + ns * d]]; i += ns * d
    nt = int(t[i]); i += 1
    tn = [int(x) for x in t[i:i + nt * d]]
    S = T.TreeCase(d, per, H, B, mode, [sn[k * d:(k + 1) * d] for k in range(ns)])
    Tg = T.TreeCase(d, per, H, B, mode, [tn[k * d:(k + 1) * d] for k in range(nt)])
    return S, Tg, stop, flags


def gen_cases(tier, rng):
    cases = []
    n = 260 if tier == "quick" else 8000
    maxN = 150 if tier == "quick" else 1500
    for _ in range(n):
        d = rng.choice([1, 2, 3, 3, 4])
        H = rng.range(2, {1: 7, 2: 5, 3: 5, 4: 3}[d])
        rel = rng.below(9)
        ks = rng.choice(T.KINDS); kt = rng.choice(T.KINDS)
        Ns = rng.choice([1, 2, rng.range(3, 20), rng.range(20, maxN)])
        Nt = rng.choice([1, 2, rng.range(3, 20), rng.range(20, maxN)])
        sn = T.gen_positions(rng, d, H, Ns, ks)
        tn = T.gen_positions(rng, d, H, Nt, kt)
        lim = 16 << (H - 1)
        if rel == 0:   # disjoint halves
            sn = [[x // 2 for x in p[:1]] + p[1:] for p in sn]; tn = [[lim // 2 + x // 2 for x in p[:1]] + p[1:] for p in tn]
        elif rel == 1:  # identical positions
            tn = [list(p) for p in sn]
        elif rel == 2:  # one side in a single leaf
            tn = T.gen_positions(rng, d, H, Nt, "single")
        elif rel == 3:
            sn = T.gen_positions(rng, d, H, Ns, "single")
        elif rel >= 7:
            # source and target groups with the same first leaf, last leaf and leaf count but different interiors,
            # sharing some interior leaves at different positions inside their groups
            nleaf = 1 << (d * (H - 1))
            if nleaf >= 8:
                blocks = rng.range(1, 3)
                per = rng.range(3, 6)
                S_l, T_l = [], []
                span = nleaf // blocks
                ok = span >= per + 3
                for b in range(blocks if ok else 0):
                    pool = list(range(b * span, (b + 1) * span))
                    rng.shuffle(pool)
                    pick = sorted(pool[:min(len(pool), 2 * per)])
                    lo, hi, mid = pick[0], pick[-1], pick[1:-1]
                    if len(mid) < 2: ok = False; break
                    rng.shuffle(mid)
                    k = min(per - 2, len(mid) - 1)
                    shared = mid[0]
                    a = mid[1:1 + k - 1] if k > 1 else []
                    bq = list(reversed(mid))[:k - 1] if k > 1 else []
                    S_l += [lo, hi, shared] + a
                    T_l += [lo, hi, shared] + bq
                if ok:
                    def pts(leaves, n):
                        out = []
                        leaves = sorted(set(leaves))
                        for i in range(max(n, len(leaves))):
                            c = O.unbox(leaves[i % len(leaves)], d)
                            out.append([16 * x + rng.below(16) for x in c])
                        return out
                    sn = pts(S_l, min(Ns, 3 * len(S_l))); tn = pts(T_l, min(Nt, 3 * len(T_l)))
        nl = len(set(tuple(min(x // 16, (1 << (H - 1)) - 1) for x in p) for p in sn + tn))
        B = rng.choice([1, 2, 3, 5, 8, max(1, nl // 2), nl, 1000, 10000000])
        if rel >= 7 and rng.below(4) != 0:
            B = max(1, len(set(tuple(x // 16 for x in p) for p in sn)) // rng.choice([1, 1, 2, 3]))
        stop = rng.choice([2, 2, 2, 0, 1])
        flags = rng.choice([[63], [63], [63], [6, 8, 48, 1], [2, 4, 8, 16, 32, 1], [30, 33], [6, 9, 48], [1, 2, 4, 8, 16, 32], [14, 16, 33]])
        per = 1 if (d <= 3 and rng.below(6) == 0) else 0       # periodic ordering inside the box: upper level 1 as the library uses it
        if per: stop = 1
        cases.append(case_text(d, per, H, B, rng.below(2), stop, flags, sn, tn))
    return cases


def tsm_oracle(c, parts, trace_filter=lambda x: True):
    """parts = [dumpSource, dumpTarget, trace, R...]; shared with the OpenMP target/source runs of C03"""
    S, Tg, stop, flags = parse_case(c)
    for who, tc, dump in (("source", S, parts[0]), ("target", Tg, parts[1])):
        dd = T.parse_dump(dump)
        m = T.oracle_structure(tc, dd) or T.oracle_placement(tc, dd)
        if m: return "%s tree: %s" % (who, m)
    calls = [A.parse_call(x) for x in A.split_trace(parts[2]) if trace_filter(x)]
    m = A.oracle_c02(Tg, calls, lp_src=A.leaf_particles(S), lp_tgt=A.leaf_particles(Tg))
    if m: return "arguments: " + m
    for cl in calls:
        if cl.op in ("P2P", "P2PInner"):
            return "target/source run performed a mutual/inner interaction: " + cl.op
    R = {}
    for tok in parts[3].split()[1:]:
        k, v = tok.split("="); R[int(k)] = int(v)
    images = 3 ** S.d if S.per else 1       # periodic lists from level 1 down: every source once per adjacent copy of the box
    runs = 2 if c.startswith("exectsmrb") else 1      # exectsmrb: one full execution before the move + rebuild; its results must be preserved
    tot = (runs * images * sum(A.weight(p) for p in range(S.N))) & A.M64
    if sorted(R) != list(range(Tg.N)):
        return "results for targets %s" % sorted(R)[:10]
    for p in range(Tg.N):
        if R[p] != tot:
            return "target %d accumulated %d, one contribution from every source%s is %d" % (p, R[p], " image of the 3^d adjacent copies" if S.per else "", tot)
    # free-kernel replay: each source exactly once per target
    if S.N * Tg.N <= 6000:
        mult, loc, rhs = {}, {}, {p: Counter() for p in range(Tg.N)}
        L = S.H - 1
        for cl in calls:
            if cl.op == "P2M": mult.setdefault((L, cl.tgt), Counter()).update(cl.tparts)
            elif cl.op == "M2M":
                for a, _, _ in cl.srcs: mult.setdefault((cl.level, cl.tgt), Counter()).update(mult.get((cl.level + 1, a), Counter()))
            elif cl.op == "M2L":
                for a, _, _ in cl.srcs: loc.setdefault((cl.level, cl.tgt), Counter()).update(mult.get((cl.level, a), Counter()))
            elif cl.op == "L2L":
                for a, _, _ in cl.srcs: loc.setdefault((cl.level + 1, a), Counter()).update(loc.get((cl.level, cl.tgt), Counter()))
            elif cl.op == "L2P":
                for p in cl.tparts: rhs[p].update(loc.get((L, cl.tgt), Counter()))
            elif cl.op == "P2PTsm":
                for p in cl.tparts: rhs[p].update(cl.sparts)
        for p in range(Tg.N):
            for q in range(S.N):
                if rhs[p].get(q, 0) != images:
                    return "target %d received source %d %d times" % (p, q, rhs[p].get(q, 0))
    return None


def run(tier, seed):
    rep = vlib.Report("C09", tier, seed, "proof")
    sdir = vlib.scratch("C09")
    try:
        common.proof_part(rep, "Properties_C09")
        binary, err = vlib.build_harness("h_algo_tsm", sources=["h_algo.cpp"], defines=["FAMILY_TSM"])
        if not binary:
            rep.violation(dict(kind="build", clause="h_algo", has_input=True), "harness h_algo does not compile: " + err[-600:], dict(stderr=err))
            return rep.finish()
        rng = vlib.Rng(seed).fork("c09")
        cases = gen_cases(tier, rng)

        def split(line):
            parts = line.split(" || ")
            return parts

        def canon(c, line):
            if line.startswith(("ABORT", "MODEL", "?")):
                return line
            parts = split(line)
            calls = [A.parse_call(x) for x in A.split_trace(parts[2])]
            return (parts[0], parts[1], sorted(A.elementary(calls).items()))

        def oracle(c, line):
            return tsm_oracle(c, split(line))

        # the same runs reached through TbfTreeTsm::rebuild(): built from displaced positions, executed, every particle of both
        # trees moved in place to its final position, rebuilt - then executed as before (full executions only)
        rbc = []
        for cc in cases:
            f = cc.split()
            if f[7:9] == ["1", "63"] and len(rbc) < (80 if tier == "quick" else 2000):
                rbc.append("exectsmrb " + " ".join(f[1:]))
        allc = cases + rbc
        vlib.differential(rep, binary, allc, sdir, "tsm", canon=canon, oracle=oracle, model_cases=[x.replace("exectsmrb ", "exectsm ", 1) for x in allc],
                          nontrivial=lambda c, i: " M2L " in i and " P2PTsm " in i, clause=lambda c: ("tsmrb:d" if c.startswith("exectsmrb") else "tsm:d") + c.split()[1])
        rep.coverage["rule"] = ("sequential target/source executor with the TraceKernel (also on trees moved + rebuilt through TbfTreeTsm::rebuild after a first execution); independent source/target distributions (disjoint halves, identical positions, one side in a single leaf, "
                                "single particle either side, uniform/clustered/faces/lattice), d=1..4, heights 2..7, block sizes incl. 1, n/2, n, 1e7, both modes, stop 0..2; non-trivial = M2L and P2PTsm both present")
        return rep.finish()
    finally:
        vlib.cleanup(sdir)
