from checks import algocheck
def run(tier, seed):
    return algocheck.run_algo_property("C12", "Properties_C12", tier, seed, set("c12".split(",")))
