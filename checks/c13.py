from checks import treecheck
def run(tier, seed):
    return treecheck.run_tree_property("C13", "Properties_C13", tier, seed, set("rebuild".split(",")))
