from checks import algocheck
def run(tier, seed):
    return algocheck.run_algo_property("C01", "Properties_C01", tier, seed, set("c01,c02".split(",")))
