from checks import treecheck
def run(tier, seed):
    return treecheck.run_tree_property("C17", "Properties_C17", tier, seed, set("export".split(",")))
