"""Generic driver for the executor-level properties (C01, C02, C08, C12): harness h_algo (real TbfAlgorithm +
TraceKernel) vs extracted model `execute`, plus independent oracles on the implementation's trace and values."""
import sys, os, hashlib
from collections import Counter
sys.path.insert(0, os.path.join(os.path.dirname(__file__), "..", "tools"))
import vlib
from checks import treecommon as T, algocommon as A, common

HIST = [  # C12: partitions of the full flag set in dependency order (P2P anywhere)
    [63], [6, 8, 48, 1], [2, 4, 8, 16, 32, 1], [1, 2, 4, 8, 16, 32], [6, 9, 48], [7, 8, 16, 32], [2, 5, 8, 48], [14, 49], [2, 4, 8, 17, 32], [30, 33],
]
SINGLE = [1, 2, 4, 8, 16, 32]


def gen_exec_cases(tier, rng, want, pid="C01"):
    cases = []
    quick = tier == "quick"
    # small exhaustive occupancies (thinned), all stops
    k = 0
    res = {"C01": 0, "C02": 1, "C08": 2, "C12": 3}.get(pid, 0)
    for tc in T.gen_exhaustive(tier):
        k += 1
        if quick and k % 23 != 0:
            continue
        if not quick and k % 4 != res:      # the four algorithm checks share the exhaustive occupancies: one residue class each
            continue
        for stop in (0, 1, 2):
            if quick and (k + stop) % 3 != 0:
                continue
            cases.append(A.ExecCase(tc.d, 0, tc.H, tc.B, tc.mode, tc.nums, stop, [63]))
    nrand = 220 if quick else 1500
    maxN = 200 if quick else 800
    Hmax = {1: 8, 2: 6, 3: 5, 4: 4} if quick else {1: 10, 2: 7, 3: 6, 4: 4}
    for tc in T.gen_random(rng, nrand, maxN, Hmax=Hmax):
        stop = rng.choice([2, 2, 2, 0, 1, 3, tc.H - 1, tc.H, -1])
        cases.append(A.ExecCase(tc.d, 0, tc.H, tc.B, tc.mode, tc.nums, stop, [63]))
    return cases


def run_algo_property(pid, prop_file, tier, seed, want, level="proof"):
    rep = vlib.Report(pid, tier, seed, level)
    sdir = vlib.scratch(pid)
    try:
        common.proof_part(rep, prop_file)
        binary, err = vlib.build_harness("h_algo_exec", sources=["h_algo.cpp"], defines=["FAMILY_EXEC"])
        if not binary:
            rep.violation(dict(kind="build", clause="h_algo", has_input=True), "harness h_algo does not compile: " + err[-600:], dict(stderr=err))
            return rep.finish()
        rng = vlib.Rng(seed).fork(pid)
        cases = gen_exec_cases(tier, rng, want, pid)
        ph = os.path.join(sdir, "hc.cases"); vlib.write_cases(ph, ["hc"])
        try:
            hc = int(vlib.run_impl(binary, ph)[0])
        except Exception:
            hc = 0
        groups = []   # C08 / C12 families: lists of case positions that must agree with each other
        if "c08" in want:
            nfam = 40 if tier == "quick" else 150
            fam_trees = list(T.gen_random(rng, nfam - nfam // 3, 120 if tier == "quick" else 800, Hmax={1: 7, 2: 5, 3: 5, 4: 3}))
            # a third of the families on Morton runs with empty parents between them (sparse upper levels)
            fam_trees += list(T.gen_random(rng, nfam // 3, 120 if tier == "quick" else 800, dims=(1, 2, 2, 3), Hmax={1: 8, 2: 5, 3: 4, 4: 3}, deep=False, kinds=["gaps"]))
            cut = [T.gen_cutgap(rng) for _ in range(6 if tier == "quick" else 60)]
            fam_trees += cut
            for tc in fam_trees:
                nl = len(set(tc.leaf_indices()))
                Bs = sorted(set([1, 2, 3, 5, 7, max(1, nl // 2), nl, nl + 1, 10000000]))
                if nl <= 9: Bs = sorted(set(list(range(1, nl + 2)) + [10000000]))
                if nl > 24: Bs = sorted(set(Bs + [17, rng.range(18, min(40, nl - 1))]))     # groups of more than 16 cells that are not alone
                if tc.B > 16 and tc.B < nl: Bs = sorted(set(Bs + [tc.B]))
                if hc > 0: Bs = Bs + [-hc]          # the automatic block size
                fam = []
                for B in Bs:
                    for mode in (0, 1):
                        fam.append(len(cases)); cases.append(A.ExecCase(tc.d, 0, tc.H, B, mode, tc.nums, 2, [63]))
                        if rng.below(4) == 0:   # the same grouping reached through rebuild()
                            fam.append(len(cases)); cases.append(A.ExecCase(tc.d, 0, tc.H, B, mode, tc.nums, 2, [63], rb=True))
                groups.append(("grouping", fam))
        if "c12" in want:
            nfam = 30 if tier == "quick" else 120
            for tc in T.gen_random(rng, nfam, 100 if tier == "quick" else 500, Hmax={1: 7, 2: 5, 3: 5, 4: 3}):
                stop = rng.choice([2, 2, 0, 1, 3])
                fam = []
                for h in HIST:
                    fam.append(len(cases)); cases.append(A.ExecCase(tc.d, 0, tc.H, tc.B, tc.mode, tc.nums, stop, h))
                groups.append(("history", fam))
                for f in SINGLE:
                    cases.append(A.ExecCase(tc.d, 0, tc.H, tc.B, tc.mode, tc.nums, stop, [f]))
                for st in range(0, tc.H + 1):
                    cases.append(A.ExecCase(tc.d, 0, tc.H, tc.B, tc.mode, tc.nums, st, [63]))
        texts = [c.text() for c in cases]
        stats = Counter()

        def canon(c, line):
            if line.startswith(("ABORT", "MODEL", "?")):
                return line
            dump, trace, R, C = A.split_exec_output(line)
            calls = [A.parse_call(x) for x in trace]
            return (dump, sorted(A.elementary(calls).items()), sum(1 for x in calls if x.op == "--"))

        def oracle(c, line):
            tc = A.parse_exec_case(c)
            dump, trace, R, C = A.split_exec_output(line)
            calls = [A.parse_call(x) for x in trace]
            s = max(0, tc.stop)
            full = tc.flags == [63]
            if "c02" in want or "c01" in want:
                m = A.oracle_c02(tc, calls)
                if m: return "arguments: " + m
            if "c01" in want and full:
                m = A.oracle_c01_values(tc, R, C, s)
                if m: return "values: " + m
                if s <= 2 and tc.N <= 400:
                    m = A.oracle_c01_pairs(tc, calls)
                    if m: return "pairs: " + m
            if "c12" in want:
                m = oracle_c12(tc, trace, calls, R, C)
                if m: return "flags: " + m
            return None

        def nontrivial(c, line):
            return " M2L " in line and " M2M " in line and line.count("[") > 6

        famof = {}
        for gi, (kind, fam) in enumerate(groups):
            for k in fam: famof[k] = gi
        sigs = {}
        seqstat = [0]

        def post(k, c, i, m):
            # exact batched sequence agreement (diagnostic only)
            if not i.startswith("ABORT"):
                ti = [A.canon_call(A.parse_call(x)) for x in A.split_trace(i.split(" || ")[1])] if " || " in i else []
                tm = [A.canon_call(A.parse_call(x)) for x in A.split_trace(m.split(" || ")[1])] if " || " in m else []
                if ti == tm: seqstat[0] += 1
            if k in famof and not i.startswith("ABORT"):
                dump, trace, R, C = A.split_exec_output(i)
                calls = [A.parse_call(x) for x in trace]
                sig = (sorted(A.elementary(calls).items()), sorted(R.items()), sorted(C.items()))
                sigs[k] = tuple(hashlib.sha256(repr(x).encode()).hexdigest() for x in sig)

        vlib.differential(rep, binary, texts, sdir, "exec", canon=canon, oracle=oracle, nontrivial=nontrivial, model_cases=[A.exec_model_text(x) for x in texts],
                          clause=lambda c: "%s:d%s" % (c.split()[0], c.split()[1]), post=post)
        rep.count("exact_batched_sequence_agreement", seqstat[0])
        # families: every member must agree with the first one (implementation against itself)
        for kind, fam in groups:
            ref = None
            for k in fam:
                if k not in sigs: continue
                sig = sigs[k]
                if ref is None:
                    ref = (k, sig)
                elif sig != ref[1]:
                    what = "elementary interactions" if sig[0] != ref[1][0] else ("particle results" if sig[1] != ref[1][1] else "cell expansions")
                    rep.violation(dict(kind="oracle", clause=kind + "-independence", has_input=True),
                                  "%s differ between `%s` and `%s`" % (what, texts[ref[0]][:150], texts[k][:150]),
                                  dict(case_a=texts[ref[0]], case_b=texts[k], differs=what))
            rep.count("families:" + kind)
        if pid == "C02":
            # the periodic top tree's operator arguments (levels, virtual cells, child position codes of the real level-1 cells)
            from checks import c10
            pbin, perr = vlib.build_harness("h_algo_per", sources=["h_algo.cpp"], defines=["FAMILY_PER"])
            if not pbin:
                rep.violation(dict(kind="build", clause="h_algo_per", has_input=True), "harness h_algo (periodic) does not compile: " + perr[-400:], dict(stderr=perr))
            else:
                c10.per_family(rep, pbin, c10.gen_cases("quick", rng)[: (70 if tier == "quick" else 150)] if tier == "quick" else c10.gen_cases("thorough", rng)[:1500], sdir, tag="c02per")
        if "c12" in want:
            # the target/source executor: every single flag, staged histories, every upper level 0..height (+1)
            from checks import c09
            tbin, terr = vlib.build_harness("h_algo_tsm", sources=["h_algo.cpp"], defines=["FAMILY_TSM"])
            if not tbin:
                rep.violation(dict(kind="build", clause="h_algo_tsm", has_input=True), "harness h_algo (TSM) does not compile: " + terr[-400:], dict(stderr=terr))
            else:
                tcases = []
                for b in c09.gen_cases("quick", rng)[: (40 if tier == "quick" else 400)]:
                    f = b.split()
                    d, H = int(f[1]), int(f[3])
                    if d > 3: continue
                    nf = int(f[7]); tail = " ".join(f[8 + nf:])
                    for st in range(0, H + 2):
                        tcases.append("exectsm %s %d 1 63 %s" % (" ".join(f[1:6]), st, tail))
                    st = rng.choice([0, 1, 2, H - 1, H])
                    for fl in SINGLE:
                        tcases.append("exectsm %s %d 1 %d %s" % (" ".join(f[1:6]), st, fl, tail))
                    for h in HIST:
                        tcases.append("exectsm %s %d %d %s %s" % (" ".join(f[1:6]), st, len(h), " ".join(map(str, h)), tail))

                def tcanon(c, line):
                    if line.startswith(("ABORT", "MODEL", "?")):
                        return line
                    parts = line.split(" || ")
                    calls = [A.parse_call(x) for x in A.split_trace(parts[2])]
                    return (parts[0], parts[1], sorted(A.elementary(calls).items()))

                def toracle(c, line):
                    t = c.split(); H, stop, nf = int(t[3]), int(t[6]), int(t[7])
                    flags = [int(x) for x in t[8:8 + nf]]
                    s0 = max(0, stop)
                    parts = line.split(" || ")
                    seg = 0; cur = set()
                    for x in A.split_trace(parts[2]):
                        cl = A.parse_call(x)
                        if cl.op == "--":
                            allowed = set()
                            for bit, ops in OPS_OF.items():
                                if flags[seg] & bit: allowed |= ops
                            allowed |= ({"P2PTsm"} if flags[seg] & 1 else set())
                            if not cur <= allowed: return "execute(flags=%d) invoked %s" % (flags[seg], sorted(cur - allowed))
                            cur = set(); seg += 1; continue
                        cur.add(cl.op)
                        if cl.op in ("M2M", "M2L", "L2L") and cl.level < s0: return "%s applied at level %d above the upper working level %d" % (cl.op, cl.level, s0)
                        if cl.op in ("P2M", "L2P") and not (H > s0): return "%s applied although the upper working level %d is not below the height %d" % (cl.op, s0, H)
                    return None
                vlib.differential(rep, tbin, tcases, sdir, "tsmflags", canon=tcanon, oracle=toracle, nontrivial=lambda c, i: " M2L " in i,
                                  clause=lambda c: "tsmflags:d%s" % c.split()[1])
        if "c12" in want:
            # the periodic top tree (single and target/source) called with single flags and flag histories: each flag triggers only
            # its own top-tree operator (P2M / L2P / P2P trigger nothing there)
            from checks import c10
            pbin, perr = vlib.build_harness("h_algo_per", sources=["h_algo.cpp"], defines=["FAMILY_PER"])
            if not pbin:
                rep.violation(dict(kind="build", clause="h_algo_per", has_input=True), "harness h_algo (periodic) does not compile: " + perr[-400:], dict(stderr=perr))
            else:
                pcases = []
                base = c10.gen_cases("quick", rng)[: (25 if tier == "quick" else 150)]
                for b in base:
                    f = b.split()        # execper d H B mode k stop N nums
                    if int(f[5]) < 0: f[5] = str(rng.range(0, 2))
                    hists = [[x] for x in SINGLE] + [[63]] + [rng.choice(HIST) for _ in range(2)] + [[2, 32], [4, 16, 8], [32, 2, 1]]
                    for h in hists:
                        pcases.append("exectop %s %d %s %s" % (" ".join(f[1:7]), len(h), " ".join(map(str, h)), " ".join(f[7:])))
                for _ in range(12 if tier == "quick" else 100):
                    d = rng.choice([1, 2, 2, 3]); H = rng.range(2, {1: 5, 2: 4, 3: 3}[d])
                    sn = T.gen_positions(rng, d, H, rng.choice([1, 3, rng.range(4, 30)]), rng.choice(T.KINDS))
                    tn = T.gen_positions(rng, d, H, rng.choice([1, 3, rng.range(4, 30)]), rng.choice(T.KINDS))
                    k = rng.choice([0, 1, 2])
                    for h in [[x] for x in SINGLE] + [[63], rng.choice(HIST)]:
                        pcases.append("exectoptsm %d %d %d %d %d 1 %d %s %d %s %d %s" % (d, H, rng.choice([1, 2, 5, 1000]), rng.below(2), k, len(h), " ".join(map(str, h)),
                                      len(sn), " ".join(str(x) for p in sn for x in p), len(tn), " ".join(str(x) for p in tn for x in p)))

                def pcanon(c, line):
                    if line.startswith(("ABORT", "MODEL", "?")):
                        return line
                    parts = line.split(" || ")
                    calls = Counter(x for x in (c10.canon_line(l) for l in A.split_trace(parts[-1])) if x is not None)
                    return (parts[:-1], sorted(calls.items(), key=repr))

                def poracle(c, line):
                    t = c.split(); nf = int(t[7]); flags = [int(x) for x in t[8:8 + nf]]
                    parts = line.split(" || ")
                    seg = -1; cur = set()        # segment -1 = the real upward pass
                    for x in A.split_trace(parts[-1]):
                        cl = A.parse_call(x)
                        if cl.op == "--":
                            if seg >= 0:
                                allowed = set(op for bit, op in ((4, "M2M"), (8, "M2L"), (16, "L2L")) if flags[seg] & bit)
                                if not cur <= allowed:
                                    return "top-tree execute(flags=%d) invoked %s" % (flags[seg], sorted(cur - allowed))
                            cur = set(); seg += 1; continue
                        if seg >= 0: cur.add(cl.op)
                    return None
                vlib.differential(rep, pbin, pcases, sdir, "topflags", canon=pcanon, oracle=poracle, nontrivial=lambda c, i: "t=10" in i,
                                  clause=lambda c: "topflags:%s:d%s" % (c.split()[0], c.split()[1]))
        rep.coverage["rule"] = ("executions of the real sequential executor with the TraceKernel on: thinned occupancy-exhaustive small trees x stop level 0..2; random structured trees d=1..4 "
                                "(heights up to %s) x block sizes x both modes x stop levels; %s. non-trivial = trace has M2M and M2L and >6 groups; distinct by case text"
                                % ({1: 8, 2: 6, 3: 5, 4: 4} if tier == "quick" else {1: 10, 2: 7, 3: 6, 4: 4}, "+ grouping families (same input, all block sizes x modes)" if "c08" in want else "") )
        return rep.finish()
    finally:
        vlib.cleanup(sdir)


OPS_OF = {1: {"P2P", "P2PInner"}, 2: {"P2M"}, 4: {"M2M"}, 8: {"M2L"}, 16: {"L2L"}, 32: {"L2P"}}


def oracle_c12(tc, trace, calls, R, C):
    """each flag triggers only its own operator and writes only its outputs; nothing above the upper level"""
    s = max(0, tc.stop)
    seg = 0
    prev = None
    cur_ops = set()
    for line, c in zip(trace, calls):
        if c.op == "--":
            f = tc.flags[seg]
            allowed = set()
            for bit, ops in OPS_OF.items():
                if f & bit: allowed |= ops
            if not cur_ops <= allowed:
                return "execute(flags=%d) invoked %s" % (f, sorted(cur_ops - allowed))
            snap = dict(x.split("=") for x in line.split()[1:])
            if prev is not None or True:
                p = prev or dict(r=None, m=None, l=None)
                if prev is not None:
                    if snap["r"] != p["r"] and not (f & (1 | 32)): return "flags=%d changed particle results" % f
                    if snap["m"] != p["m"] and not (f & (2 | 4)): return "flags=%d changed multipoles" % f
                    if snap["l"] != p["l"] and not (f & (8 | 16)): return "flags=%d changed locals" % f
            prev = snap
            cur_ops = set(); seg += 1
            continue
        cur_ops.add(c.op)
        if c.op in ("M2M", "L2L", "M2L") and c.level < s:
            return "%s applied at level %d above the upper working level %d" % (c.op, c.level, s)
        if c.op in ("P2M", "L2P") and tc.H - 1 < s:
            return "%s applied at the leaf level %d, above the upper working level %d" % (c.op, tc.H - 1, s)
    return None
