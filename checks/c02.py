from checks import algocheck
def run(tier, seed):
    return algocheck.run_algo_property("C02", "Properties_C02", tier, seed, set("c02".split(",")))
