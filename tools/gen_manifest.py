#!/usr/bin/env python3
"""Generates MANIFEST.json from the table below (kept in one place so that it stays valid)."""
import json, os
ROOT = os.path.dirname(os.path.dirname(os.path.abspath(__file__)))
CLAIMED = {
 "C11": dict(level="proof", ref="DESIGN.md §6 C11",
   text="Theorems (Coq 8.16, generic in the dimension) about an executable Gallina model of the Morton index code; the model is extracted and run against the real TbfMortonSpaceIndex/TbfHilbertSpaceIndex on exhaustive small grids and random deep cells, and the implementation's outputs are checked against a brute-force statement of the property.",
   note="Trusted: Coq kernel, extraction (ExtrOcamlBasic), OCaml driver, C++ harness h_index, python generators/oracle. Modelled by hand, tied by correspondence on every run.",
   technique="Coq proof of index algebra + extracted-model differential test + brute-force oracle"),
 "C07": dict(level="proof", ref="DESIGN.md §6 C07",
   text="Theorems about the executable Gallina model of TbfParticleSorter / TbfTree's constructor (tree invariant tree_ok, decided by tree_okb); the extracted model is run against the real constructor on occupancy-exhaustive small trees and random trees in dimensions 1..4 and the dumped structure is re-checked by an independent oracle.",
   note="Trusted: Coq kernel, extraction, OCaml driver, harness h_tree, python generators/oracle. std::sort modelled by a merge sort (comparisons are made up to the order of particles inside a leaf).",
   technique="Coq proof of tree invariant + extracted-model differential test + oracle"),
 "C16": dict(level="proof", ref="DESIGN.md §6 C16",
   text="Theorems (all trees satisfying the invariant, all query indices) about the Gallina model of lower_bound_indexes, the in-group lookups and findGroupWithCell/Leaf; extracted model run against the real lookups with present/absent/gap/out-of-range queries; answers re-checked by brute force on the dumped tree.",
   note="Trusted: Coq kernel, extraction, OCaml driver, harness h_tree, python generators/oracle. std::lower_bound over groups modelled by the same binary-search loop.",
   technique="Coq proof of lookup correctness + extracted-model differential test + oracle"),
 "C06": dict(level="proof", ref="DESIGN.md §6 C06",
   text="Theorems about the Gallina model of the constructor (every particle once, in the leaf of its index); extracted model vs real constructor; stored data compared bit for bit with the input, initial rhs/cells checked zero.",
   note="Trusted: as C07. The floating-point position->coordinate step is modelled separately (see DESIGN.md C06); dyadic boxes here.",
   technique="Coq proof + extracted-model differential test + bit-exact data oracle"),
}
NOT_YET = {}
ALL = ["C%02d" % i for i in range(1, 21)]
checks = []
for pid in ALL:
    if pid in CLAIMED:
        c = CLAIMED[pid]
        checks.append(dict(property_id=pid, quick_cmd="./check %s --tier quick" % pid, thorough_cmd="./check %s --tier thorough" % pid,
                           evidence_file="evidence/%s.json" % pid, replay_cmd_template="./check %s --replay {path}" % pid,
                           engine="coq-model", level_claimed=dict(category=c["level"], text=c["text"], design_ref=c["ref"]),
                           level_note=c["note"], technique=c["technique"]))
na = [dict(property_id=p, reason=NOT_YET.get(p, "check not built yet in this round (see DESIGN.md §9 Log); will be claimed when its model, theorems and correspondence exist"))
      for p in ALL if p not in CLAIMED]
m = dict(version=1,
         setup_cmd="tools/setup.sh",
         hooks=dict(guard="TBFMM_VERIF", enable="no source hook is needed: harnesses include /repo/src headers directly (-I/repo/src); the guard name is reserved",
                    baseline_off_cmd="cmake --build /repo/_build && ctest --test-dir /repo/_build -j8 --timeout 900", source_commits=[], add_only=True),
         engines=[dict(name="coq-model", path="coq/", serves_properties=sorted(CLAIMED), kind_free_text="Coq 8.16 development: executable Gallina model + theorems; extracted to OCaml (ocaml/driver) for the correspondence check against C++ harnesses (harness/*.cpp) built from /repo/src")],
         checks=checks, not_applicable=na,
         notes="Every check: (1) re-checks the property's Coq theorems, (2) runs extracted model and implementation on the same generated cases, (3) evaluates an independent oracle on the implementation's outputs. See DESIGN.md.")
json.dump(m, open(os.path.join(ROOT, "MANIFEST.json"), "w"), indent=1)
print("claimed:", sorted(CLAIMED))
