#!/usr/bin/env python3
"""Generates MANIFEST.json from the table below (kept in one place so that it stays valid)."""
import json, os
ROOT = os.path.dirname(os.path.dirname(os.path.abspath(__file__)))
CLAIMED = {
 "C11": dict(level="proof", ref="DESIGN.md §6 C11",
   text="Theorems (Coq 8.16, generic in the dimension) about an executable Gallina model of the Morton index code; the model is extracted and run against the real TbfMortonSpaceIndex/TbfHilbertSpaceIndex on exhaustive small grids and random deep cells, and the implementation's outputs are checked against a brute-force statement of the property.",
   note="Trusted: Coq kernel, extraction (ExtrOcamlBasic), OCaml driver, C++ harness h_index, python generators/oracle. Modelled by hand, tied by correspondence on every run.",
   technique="Coq proof of index algebra + extracted-model differential test + brute-force oracle"),
 "C07": dict(level="proof", ref="DESIGN.md §6 C07",
   text="Theorems about the executable Gallina model of TbfParticleSorter / TbfTree's constructor (tree invariant tree_ok, decided by tree_okb); the extracted model is run against the real constructor on occupancy-exhaustive small trees and random trees in dimensions 1..4 and the dumped structure is re-checked by an independent oracle.",
   note="Trusted: Coq kernel, extraction, OCaml driver, harness h_tree, python generators/oracle. std::sort modelled by a merge sort (comparisons are made up to the order of particles inside a leaf).",
   technique="Coq proof of tree invariant + extracted-model differential test + oracle"),
 "C16": dict(level="proof", ref="DESIGN.md §6 C16",
   text="Theorems (all trees satisfying the invariant, all query indices) about the Gallina model of lower_bound_indexes, the in-group lookups and findGroupWithCell/Leaf; extracted model run against the real lookups with present/absent/gap/out-of-range queries; answers re-checked by brute force on the dumped tree.",
   note="Trusted: Coq kernel, extraction, OCaml driver, harness h_tree, python generators/oracle. std::lower_bound over groups modelled by the same binary-search loop.",
   technique="Coq proof of lookup correctness + extracted-model differential test + oracle"),
 "C06": dict(level="proof", ref="DESIGN.md §6 C06",
   text="Theorems about the Gallina model of the constructor (every particle once, in the leaf of its index); extracted model vs real constructor; stored data compared bit for bit with the input, initial rhs/cells checked zero.",
   note="Trusted: as C07. The floating-point position->coordinate step is modelled separately (see DESIGN.md C06); dyadic boxes here.",
   technique="Coq proof + extracted-model differential test + bit-exact data oracle"),
 "C01": dict(level="proof", ref="DESIGN.md §6 C01",
   text="Executable Gallina model of the sequential executor at group level (every cursor loop, binary search and batching step) with theorems that it refines a per-cell specification and that the specification is exactly-once; the extracted model is run against the real TbfAlgorithm (TraceKernel: exactly additive uint64 kernel recording every call) on the tree the implementation built; values and traces are re-checked by brute-force oracles.",
   note="Trusted: Coq kernel, extraction, OCaml driver, harness h_algo + trace_kernel.hpp, python generators/oracles. std::sort / lower_bound / upper_bound modelled by their ISO specifications.",
   technique="Coq refinement proof (group-level executor -> per-cell spec -> exactly once) + extracted-model trace differential + value oracle"),
 "C02": dict(level="proof", ref="DESIGN.md §6 C02",
   text="Every call of the model's trace is shown geometrically consistent (theorems on the index algebra + refinement); the real executor's calls are recorded as received (level, codes, header coordinates, particle indices, cell identity tags) and re-validated from coordinates alone.",
   note="As C01. Sequential executor with Morton / periodic Morton orderings here; task executors share the wrappers (C03).",
   technique="Coq proof + extracted-model trace differential + per-call geometric oracle"),
 "C08": dict(level="proof", ref="DESIGN.md §6 C08",
   text="Corollary of the refinement theorem: the multiset of elementary interactions does not mention block size or grouping mode. Implementation side: the same input is executed under every block size and both modes; elementary multisets, particle results and cell expansions must be pairwise identical and equal to the model's.",
   note="As C01.", technique="Coq proof (grouping-independent spec) + family differential test"),
 "C12": dict(level="proof", ref="DESIGN.md §6 C12",
   text="Model of execute(flags) with the if-chain of the source; staged histories are run on implementation and model; per-call state digests decide the write-set clauses; levels of all calls are checked against the upper working level.",
   note="As C01.", technique="Coq proof + history differential test + write-set oracle"),
 "C14": dict(level="proof", ref="DESIGN.md §6 C14",
   text="Theorems about the byte-offset model of TbfMemoryBlock and its four sub-block kinds (accessor in block, blocks disjoint and aligned, trailer inside the allocation in every state reachable by resets, trailer round trip); the extracted model is compared with the real blocks on reset/move/copy+view sequences and every group buffer of real trees is copied and re-viewed.",
   note="Trusted: Coq kernel, extraction, OCaml driver, harnesses h_mem / h_tree, python oracle. Memory is modelled as 8-byte trailer words addressed by byte offset; element payload bytes are compared by the harness (digest), not modelled.",
   technique="Coq proof of layout arithmetic + extracted-model differential test + copy/view oracle"),
 "C09": dict(level="proof", ref="DESIGN.md §6 C09",
   text="Executable Gallina model of the sequential target/source executor (two trees; lists built on target groups, mapped onto source groups; one-sided direct interactions) run against the real TbfAlgorithmTsm with the TraceKernel for independent source/target distributions and staged histories; every target must hold every source exactly once (value and free-kernel replay oracles). Shared wrappers/drivers are covered by the C01 refinement theorems.",
   note="As C01. The TSM-specific composition theorem is not yet proved (DESIGN.md log); OpenMP-TSM is covered in C03.",
   technique="Coq model (shared proved wrappers) + extracted-model trace differential + exactly-once oracle"),
 "C13": dict(level="proof", ref="DESIGN.md §6 C13",
   text="Theorems: rebuild on edited positions yields a tree satisfying the full invariant with every particle kept once under its original index in the leaf of its new position, for any move/rebuild history; an execution afterwards is exactly-once. Implementation: random displacement histories (moves emptying/creating leaves, changing group counts), repeated cycles; structure, placement, data bits and preserved results are checked.",
   note="As C07. rebuild() duplicates the constructor's code; it is modelled by the constructor model and tied by correspondence.",
   technique="Coq proof + extracted-model differential on move/rebuild histories + oracle"),
 "C17": dict(level="proof", ref="DESIGN.md §6 C17",
   text="Theorem export_spec (entry i = values of particle i, any value count, any ordering) about the model of the export loops, plus the refutation of the pre-repair index expression; implementation: real getAllParticlesData/Rhs under ASan before/after rebuild, identity and bit-exact value checks.",
   note="As C07. The defect found (transposed indexing, out of bounds) is repaired by a fix: commit and listed as fixed in known_findings.json.",
   technique="Coq proof + differential test under ASan"),
}
NOT_YET = {}
ALL = ["C%02d" % i for i in range(1, 21)]
checks = []
for pid in ALL:
    if pid in CLAIMED:
        c = CLAIMED[pid]
        checks.append(dict(property_id=pid, quick_cmd="./check %s --tier quick" % pid, thorough_cmd="./check %s --tier thorough" % pid,
                           evidence_file="evidence/%s.json" % pid, replay_cmd_template="./check %s --replay {path}" % pid,
                           engine="coq-model", level_claimed=dict(category=c["level"], text=c["text"], design_ref=c["ref"]),
                           level_note=c["note"], technique=c["technique"]))
na = [dict(property_id=p, reason=NOT_YET.get(p, "check not built yet in this round (see DESIGN.md §9 Log); will be claimed when its model, theorems and correspondence exist"))
      for p in ALL if p not in CLAIMED]
m = dict(version=1,
         setup_cmd="tools/setup.sh",
         hooks=dict(guard="TBFMM_VERIF", enable="no source hook is needed: harnesses include /repo/src headers directly (-I/repo/src); the guard name is reserved",
                    baseline_off_cmd="cmake --build /repo/_build && ctest --test-dir /repo/_build -j8 --timeout 900", source_commits=[], add_only=True),
         engines=[dict(name="coq-model", path="coq/", serves_properties=sorted(CLAIMED), kind_free_text="Coq 8.16 development: executable Gallina model + theorems; extracted to OCaml (ocaml/driver) for the correspondence check against C++ harnesses (harness/*.cpp) built from /repo/src")],
         checks=checks, not_applicable=na,
         notes="Every check: (1) re-checks the property's Coq theorems, (2) runs extracted model and implementation on the same generated cases, (3) evaluates an independent oracle on the implementation's outputs. See DESIGN.md.")
json.dump(m, open(os.path.join(ROOT, "MANIFEST.json"), "w"), indent=1)
print("claimed:", sorted(CLAIMED))
