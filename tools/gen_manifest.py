#!/usr/bin/env python3
"""Generates MANIFEST.json from the table below (kept in one place so that it stays valid)."""
import json, os
ROOT = os.path.dirname(os.path.dirname(os.path.abspath(__file__)))
CLAIMED = {
 "C11": dict(level="proof", ref="DESIGN.md §6 C11",
   text="Theorems (Coq 8.16, generic in the dimension) about an executable Gallina model of the Morton index code; the model is extracted and run against the real TbfMortonSpaceIndex/TbfHilbertSpaceIndex on exhaustive small grids and random deep cells, and the implementation's outputs are checked against a brute-force statement of the property.",
   note="Trusted: Coq kernel, extraction (ExtrOcamlBasic), OCaml driver, C++ harness h_index, python generators/oracle. Modelled by hand, tied by correspondence on every run.",
   technique="Coq proof of index algebra + extracted-model differential test + brute-force oracle"),
}
NOT_YET = {}
ALL = ["C%02d" % i for i in range(1, 21)]
checks = []
for pid in ALL:
    if pid in CLAIMED:
        c = CLAIMED[pid]
        checks.append(dict(property_id=pid, quick_cmd="./check %s --tier quick" % pid, thorough_cmd="./check %s --tier thorough" % pid,
                           evidence_file="evidence/%s.json" % pid, replay_cmd_template="./check %s --replay {path}" % pid,
                           engine="coq-model", level_claimed=dict(category=c["level"], text=c["text"], design_ref=c["ref"]),
                           level_note=c["note"], technique=c["technique"]))
na = [dict(property_id=p, reason=NOT_YET.get(p, "check not built yet in this round (see DESIGN.md §9 Log); will be claimed when its model, theorems and correspondence exist"))
      for p in ALL if p not in CLAIMED]
m = dict(version=1,
         setup_cmd="tools/setup.sh",
         hooks=dict(guard="TBFMM_VERIF", enable="no source hook is needed: harnesses include /repo/src headers directly (-I/repo/src); the guard name is reserved",
                    baseline_off_cmd="cmake --build /repo/_build && ctest --test-dir /repo/_build -j8 --timeout 900", source_commits=[], add_only=True),
         engines=[dict(name="coq-model", path="coq/", serves_properties=sorted(CLAIMED), kind_free_text="Coq 8.16 development: executable Gallina model + theorems; extracted to OCaml (ocaml/driver) for the correspondence check against C++ harnesses (harness/*.cpp) built from /repo/src")],
         checks=checks, not_applicable=na,
         notes="Every check: (1) re-checks the property's Coq theorems, (2) runs extracted model and implementation on the same generated cases, (3) evaluates an independent oracle on the implementation's outputs. See DESIGN.md.")
json.dump(m, open(os.path.join(ROOT, "MANIFEST.json"), "w"), indent=1)
print("claimed:", sorted(CLAIMED))
