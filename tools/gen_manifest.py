#!/usr/bin/env python3
"""Generates MANIFEST.json from the table below (kept in one place so that it stays valid)."""
import json, os
ROOT = os.path.dirname(os.path.dirname(os.path.abspath(__file__)))
CLAIMED = {
 "C11": dict(level="proof", ref="DESIGN.md §6 C11",
   text="Theorems (Coq 8.16, generic in the dimension) about an executable Gallina model of the Morton index code; the model is extracted and run against the real TbfMortonSpaceIndex/TbfHilbertSpaceIndex on exhaustive small grids and random deep cells, and the implementation's outputs are checked against a brute-force statement of the property.",
   note="Trusted: Coq kernel, extraction (ExtrOcamlBasic), OCaml driver, C++ harness h_index, python generators/oracle. Modelled by hand, tied by correspondence on every run.",
   technique="Coq proof of index algebra + extracted-model differential test + brute-force oracle"),
 "C07": dict(level="proof", ref="DESIGN.md §6 C07",
   text="Theorems about the executable Gallina model of TbfParticleSorter / TbfTree's constructor (tree invariant tree_ok, decided by tree_okb); the extracted model is run against the real constructor on occupancy-exhaustive small trees and random trees in dimensions 1..4 and the dumped structure is re-checked by an independent oracle.",
   note="Trusted: Coq kernel, extraction, OCaml driver, harness h_tree, python generators/oracle. std::sort modelled by a merge sort (comparisons are made up to the order of particles inside a leaf).",
   technique="Coq proof of tree invariant + extracted-model differential test + oracle"),
 "C16": dict(level="proof", ref="DESIGN.md §6 C16",
   text="Theorems (all trees satisfying the invariant, all query indices) about the Gallina model of lower_bound_indexes, the in-group lookups and findGroupWithCell/Leaf; extracted model run against the real lookups with present/absent/gap/out-of-range queries; answers re-checked by brute force on the dumped tree.",
   note="Trusted: Coq kernel, extraction, OCaml driver, harness h_tree, python generators/oracle. std::lower_bound over groups modelled by the same binary-search loop.",
   technique="Coq proof of lookup correctness + extracted-model differential test + oracle"),
 "C06": dict(level="proof", ref="DESIGN.md §6 C06",
   text="Theorems about the Gallina model of the constructor (every particle once, in the leaf of its index); extracted model vs real constructor; stored data compared bit for bit with the input, initial rhs/cells checked zero.",
   note="Trusted: as C07. The floating-point position->coordinate step is modelled separately (see DESIGN.md C06); dyadic boxes here.",
   technique="Coq proof + extracted-model differential test + bit-exact data oracle"),
 "C01": dict(level="proof", ref="DESIGN.md §6 C01",
   text="Executable Gallina model of the sequential executor at group level (every cursor loop, binary search and batching step) with theorems that it refines a per-cell specification and that the specification is exactly-once; the extracted model is run against the real TbfAlgorithm (TraceKernel: exactly additive uint64 kernel recording every call) on the tree the implementation built; values and traces are re-checked by brute-force oracles.",
   note="Trusted: Coq kernel, extraction, OCaml driver, harness h_algo + trace_kernel.hpp, python generators/oracles. std::sort / lower_bound / upper_bound modelled by their ISO specifications.",
   technique="Coq refinement proof (group-level executor -> per-cell spec -> exactly once) + extracted-model trace differential + value oracle"),
 "C02": dict(level="proof", ref="DESIGN.md §6 C02",
   text="Every call of the model's trace is shown geometrically consistent (theorems on the index algebra + refinement); the real executor's calls are recorded as received (level, codes, header coordinates, particle indices, cell identity tags) and re-validated from coordinates alone.",
   note="As C01. Sequential executor with Morton / periodic Morton orderings here; task executors share the wrappers (C03).",
   technique="Coq proof + extracted-model trace differential + per-call geometric oracle"),
 "C08": dict(level="proof", ref="DESIGN.md §6 C08",
   text="Corollary of the refinement theorem: the multiset of elementary interactions does not mention block size or grouping mode. Implementation side: the same input is executed under every block size and both modes; elementary multisets, particle results and cell expansions must be pairwise identical and equal to the model's.",
   note="As C01.", technique="Coq proof (grouping-independent spec) + family differential test"),
 "C12": dict(level="proof", ref="DESIGN.md §6 C12",
   text="Model of execute(flags) with the if-chain of the source; staged histories are run on implementation and model; per-call state digests decide the write-set clauses; levels of all calls are checked against the upper working level.",
   note="As C01.", technique="Coq proof + history differential test + write-set oracle"),
 "C14": dict(level="proof", ref="DESIGN.md §6 C14",
   text="Theorems about the byte-offset model of TbfMemoryBlock and its four sub-block kinds (accessor in block, blocks disjoint and aligned, trailer inside the allocation in every state reachable by resets, trailer round trip); the extracted model is compared with the real blocks on reset/move/copy+view sequences and every group buffer of real trees is copied and re-viewed.",
   note="Trusted: Coq kernel, extraction, OCaml driver, harnesses h_mem / h_tree, python oracle. Memory is modelled as 8-byte trailer words addressed by byte offset; element payload bytes are compared by the harness (digest), not modelled.",
   technique="Coq proof of layout arithmetic + extracted-model differential test + copy/view oracle"),
 "C09": dict(level="proof", ref="DESIGN.md §6 C09",
   text="Executable Gallina model of the sequential target/source executor (two trees; lists built on target groups, mapped onto source groups; one-sided direct interactions) run against the real TbfAlgorithmTsm with the TraceKernel for independent source/target distributions and staged histories; every target must hold every source exactly once (value and free-kernel replay oracles). Shared wrappers/drivers are covered by the C01 refinement theorems.",
   note="As C01. The TSM-specific composition theorem is not yet proved (DESIGN.md log); OpenMP-TSM is covered in C03.",
   technique="Coq model (shared proved wrappers) + extracted-model trace differential + exactly-once oracle"),
 "C13": dict(level="proof", ref="DESIGN.md §6 C13",
   text="Theorems: rebuild on edited positions yields a tree satisfying the full invariant with every particle kept once under its original index in the leaf of its new position, for any move/rebuild history; an execution afterwards is exactly-once. Implementation: random displacement histories (moves emptying/creating leaves, changing group counts), repeated cycles; structure, placement, data bits and preserved results are checked.",
   note="As C07. rebuild() duplicates the constructor's code; it is modelled by the constructor model and tied by correspondence.",
   technique="Coq proof + extracted-model differential on move/rebuild histories + oracle"),
 "C17": dict(level="proof", ref="DESIGN.md §6 C17",
   text="Theorem export_spec (entry i = values of particle i, any value count, any ordering) about the model of the export loops, plus the refutation of the pre-repair index expression; implementation: real getAllParticlesData/Rhs under ASan before/after rebuild, identity and bit-exact value checks.",
   note="As C07. The defect found (transposed indexing, out of bounds) is repaired by a fix: commit and listed as fixed in known_findings.json.",
   technique="Coq proof + differential test under ASan"),
 "C03": dict(level="proof", ref="DESIGN.md §6 C03",
   text="Theorems: determinism of every legal schedule for task lists whose bodies touch only declared locations; the OpenMP task model (same loops as the sequential model, tasks declaring whole-group buffers) is well-formed for every tree satisfying the invariant and performs the sequential calls, hence equals the sequential executor and is exactly-once under every legal schedule. The task submission sites (depend clauses, firstprivate lists, body references, lambda context) are regenerated from the source on every run and re-checked (descriptor theorem). The real executors run under a mock GOMP runtime over deferred FIFO/LIFO/priority/random schedules with ASan stack-use-after-return detection.",
   note="Trusted: Coq kernel; tools/translate_omp.py (regex reading of the pragmas); harness/mock_gomp.hpp (GOMP ABI, OpenMP 4.5 dependence semantics); C++ DRF-SC; extraction/driver/harness. Specx/StarPU executors: not exercised (runtimes absent); covered at source-text level only by the include-guard check of C19.",
   technique="Coq proof (schedule determinism + task model refinement) + descriptors regenerated from source + mock-runtime schedule search"),
 "C10": dict(level="other", ref="DESIGN.md §6 C10",
   text="Executable Gallina model of the periodic four-step sequence (periodic Morton lists inside the box + the top tree's literal call sequence, repetition interval formulas), extracted and compared call by call with the real TbfAlgorithm + TbfAlgorithmPeriodicTopTree; an image-aware exactly-additive kernel (a displacement by sigma boxes multiplies by chi(sigma)) makes every image distinguishable and the final values are compared with the closed form over the interval the library reports. The list theorems (C11, periodic wrap), refinement theorems (per = true) and no-assert theorems cover the in-box part; the image-counting theorem for the top tree (window telescope) is not proved.",
   note="level other: the periodic exactly-once statement over images is validated by correspondence + closed-form oracle for k=-1..5, d=1..3, not by a Coq theorem (DESIGN.md log).",
   technique="Coq model + extracted-model call differential + image-aware closed-form oracle"),
 "C18": dict(level="proof", ref="DESIGN.md §6 C18",
   text="Theorems: counters are a function of the multiset of elementary interactions; any partition of the calls over kernel copies merged in any order gives the counters of the whole run; the counters of a full run equal those implied by the tree (independent of block size/mode), with explicit values; masks partitioning the operators in any order merge to the full counters. Implementation: real TbfInteractionCounter copies merged with Counters::Reduce forward/backward vs model and vs counts recomputed from the tree.",
   note="As C01. OpenMP per-worker copies: the merge theorem covers any partition; the real OpenMP executor with the counter kernel is exercised in C03's harness family only for results.",
   technique="Coq proof + extracted-model differential + recount oracle"),
 "C19": dict(level="other", ref="DESIGN.md §6 C19",
   text="'Instantiates without compile error' is decided by compiling one translation unit per configuration point from /repo (dimension x real type x ordering x block-size mode x executor, data type != coordinate type, zero result values) and the selector header with all runtimes enabled; each compiled unit runs the C01/C06/C13 checks under sanitizers. 'Like the default configuration' rests on the theorems of C01/C06/C07/C13, generic in dimension/block size/mode.",
   note="Compilation is outside what a Gallina model can express (DESIGN.md).", technique="compile matrix + generic Coq theorems"),
 "C20": dict(level="proof", ref="DESIGN.md §6 C20",
   text="The three scalar routines are one generic Gallina term over an abstract arithmetic. Real-number instance: theorems pair_law, remote_law, mutual_split, contrib_antisym, inner_law (exact arithmetic, distinct positions). IEEE instances (Coq SpecFloat binary64/binary32, extracted) must be BIT-IDENTICAL to the C++ on every case, which pins the C++ operation structure to the term the laws are about; results also match a 60-digit reference to rounding.",
   note="Axioms: classical reals of Coq's stdlib (sig_forall_dec, sig_not_dec, functional_extensionality_dep). Rounding-error bound itself is measured (tolerance 8(n+2)u), not proved. Vectorised path absent in this build.",
   technique="Coq proof over reals + bit-exact SpecFloat differential + extended-precision oracle"),
}
NOT_YET = {}
ALL = ["C%02d" % i for i in range(1, 21)]
checks = []
for pid in ALL:
    if pid in CLAIMED:
        c = CLAIMED[pid]
        checks.append(dict(property_id=pid, quick_cmd="./check %s --tier quick" % pid, thorough_cmd="./check %s --tier thorough" % pid,
                           evidence_file="evidence/%s.json" % pid, replay_cmd_template="./check %s --replay {path}" % pid,
                           engine="coq-model", level_claimed=dict(category=c["level"], text=c["text"], design_ref=c["ref"]),
                           level_note=c["note"], technique=c["technique"]))
na = [dict(property_id=p, reason=NOT_YET.get(p, "check not built yet in this round (see DESIGN.md §9 Log); will be claimed when its model, theorems and correspondence exist"))
      for p in ALL if p not in CLAIMED]
m = dict(version=1,
         setup_cmd="tools/setup.sh",
         hooks=dict(guard="TBFMM_VERIF", enable="no source hook is needed: harnesses include /repo/src headers directly (-I/repo/src); the guard name is reserved",
                    baseline_off_cmd="cmake --build /repo/_build && ctest --test-dir /repo/_build -j8 --timeout 900", source_commits=[], add_only=True),
         engines=[dict(name="coq-model", path="coq/", serves_properties=sorted(CLAIMED), kind_free_text="Coq 8.16 development: executable Gallina model + theorems; extracted to OCaml (ocaml/driver) for the correspondence check against C++ harnesses (harness/*.cpp) built from /repo/src")],
         checks=checks, not_applicable=na,
         notes="Every check: (1) re-checks the property's Coq theorems, (2) runs extracted model and implementation on the same generated cases, (3) evaluates an independent oracle on the implementation's outputs. See DESIGN.md.")
json.dump(m, open(os.path.join(ROOT, "MANIFEST.json"), "w"), indent=1)
print("claimed:", sorted(CLAIMED))
