#!/bin/bash
# usage: tools/confirm_seed.sh <out-dir with patch.diff demo.cpp meta.json> <name> [tests...]
# Confirms a seeded change in a fresh scratch worktree: patch applies, demo passes on HEAD and fails with the
# patch, the listed unit tests (default: a representative subset) still build and pass with the patch.
OUT=$1; NAME=$2; shift 2
TESTS=${@:-utest-morton utest-hilbert utest-content utest-testkernel utest-testkernel-tsm utest-testkernel-periodic utest-testkernel-interactioncounter utest-p2p}
WT=/tmp/confirm-$NAME
LOG=/tmp/confirm-$NAME.log
rm -rf $WT; git -C /repo worktree prune; git -C /repo worktree add --detach $WT HEAD -q || exit 2
{
echo "== demo on unmodified tree"
g++ -std=c++17 -O2 -fopenmp $DEMOFLAGS -I$WT/src $OUT/demo.cpp -o $WT/demo0 -lfftw3 -lfftw3f 2>&1 | tail -3
( cd $WT && timeout 600 ./demo0 > /dev/null 2>&1 ); echo "demo_unmodified_exit=$?"
git -C $WT apply $OUT/patch.diff || echo "PATCH-DOES-NOT-APPLY"
echo "== demo on modified tree"
g++ -std=c++17 -O2 -fopenmp $DEMOFLAGS -I$WT/src $OUT/demo.cpp -o $WT/demo1 -lfftw3 -lfftw3f 2>&1 | tail -3
( cd $WT && timeout 600 ./demo1 > /dev/null 2>&1 ); echo "demo_modified_exit=$?"
for t in $TESTS; do
  g++ -std=c++17 -O2 -DNDEBUG -fopenmp -DTBF_USE_OPENMP -DTBF_USE_FFTW -I$WT/src -I$WT/unit-tests $WT/unit-tests/$t.cpp -o $WT/$t -lfftw3 -lfftw3f > $WT/$t.build 2>&1 || echo "test $t BUILD-FAILED"
  ( cd $WT && timeout 1500 ./$t > /dev/null 2>&1 ); echo "test $t exit=$?"
done
} > $LOG 2>&1
git -C /repo worktree remove --force $WT
echo "confirm $NAME done: $(grep -c 'exit=0' $LOG) zero exits; $(grep demo_ $LOG | tr '\n' ' ')"
