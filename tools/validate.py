#!/usr/bin/env python3
"""Validates MANIFEST.json and evidence files against the schemas (uses the tooling venv if needed)."""
import json, sys, os, subprocess
ROOT = os.path.dirname(os.path.dirname(os.path.abspath(__file__)))
try:
    import jsonschema
except ImportError:
    if os.environ.get("VERIF_VALIDATE_REEXEC"):
        sys.exit("jsonschema not available")
    os.environ["VERIF_VALIDATE_REEXEC"] = "1"
    py = "/opt/veriftools/pyvenv/bin/python3"
    os.execv(py, [py, os.path.abspath(__file__)] + sys.argv[1:])
ok = True
def val(path, schema):
    global ok
    try:
        jsonschema.validate(json.load(open(path)), json.load(open(schema)))
        print("valid:", path)
    except Exception as e:
        ok = False
        print("INVALID:", path, str(e)[:300])
val(os.path.join(ROOT, "MANIFEST.json"), "/root/.vp/MANIFEST.schema.json")
for f in sorted(os.listdir(os.path.join(ROOT, "evidence"))):
    if f.endswith(".json"):
        val(os.path.join(ROOT, "evidence", f), "/root/.vp/EVIDENCE.schema.json")
# beyond the schema: a committed evidence file must come from a quiet run on the real tree
man = json.load(open(os.path.join(ROOT, "MANIFEST.json")))
levels = {c["property_id"]: c["level_claimed"]["category"] for c in man.get("checks", [])}
for f in sorted(os.listdir(os.path.join(ROOT, "evidence"))):
    if not f.endswith(".json"): continue
    e = json.load(open(os.path.join(ROOT, "evidence", f)))
    pid = e.get("property_id"); cov = e.get("coverage", {})
    problems = []
    if e.get("violations"): problems.append("%s violations recorded" % e["violations"])
    if levels.get(pid) != e.get("level"): problems.append("level %s, manifest claims %s" % (e.get("level"), levels.get(pid)))
    if e.get("level") == "proof" and not (cov.get("obligations", 0) >= 1 and cov.get("discharged") == cov.get("obligations")):
        problems.append("discharged %s of %s obligations" % (cov.get("discharged"), cov.get("obligations")))
    if e.get("tier") != "quick" or e.get("seed") != 1: problems.append("tier %s seed %s (commit the quick / seed 1 run)" % (e.get("tier"), e.get("seed")))
    if problems:
        ok = False
        print("NOT COMMITTABLE:", f, "; ".join(problems))
sys.exit(0 if ok else 1)
