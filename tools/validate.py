#!/usr/bin/env python3
"""Validates MANIFEST.json and evidence files against the schemas (uses the tooling venv if needed)."""
import json, sys, os, subprocess
ROOT = os.path.dirname(os.path.dirname(os.path.abspath(__file__)))
try:
    import jsonschema
except ImportError:
    if os.environ.get("VERIF_VALIDATE_REEXEC"):
        sys.exit("jsonschema not available")
    os.environ["VERIF_VALIDATE_REEXEC"] = "1"
    py = "/opt/veriftools/pyvenv/bin/python3"
    os.execv(py, [py, os.path.abspath(__file__)] + sys.argv[1:])
ok = True
def val(path, schema):
    global ok
    try:
        jsonschema.validate(json.load(open(path)), json.load(open(schema)))
        print("valid:", path)
    except Exception as e:
        ok = False
        print("INVALID:", path, str(e)[:300])
val(os.path.join(ROOT, "MANIFEST.json"), "/root/.vp/MANIFEST.schema.json")
for f in sorted(os.listdir(os.path.join(ROOT, "evidence"))):
    if f.endswith(".json"):
        val(os.path.join(ROOT, "evidence", f), "/root/.vp/EVIDENCE.schema.json")
sys.exit(0 if ok else 1)
