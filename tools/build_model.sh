#!/bin/bash
# Builds the Coq development (full .vo), extracts the model and compiles the OCaml driver.
# Usage: tools/build_model.sh [make targets...]
set -e
cd "$(dirname "$0")/.."
ROOT=$(pwd)
# Tie A: regenerate the source-derived Coq files from /repo's current working tree (rewritten only when they change)
python3 tools/translate_omp.py > /dev/null
python3 tools/translate_hilbert.py > /dev/null
python3 tools/translate_specx.py > /dev/null
python3 tools/translate_starpu.py > /dev/null
cd coq
if [ ! -f Makefile ] || [ _CoqProject -nt Makefile ]; then
  coq_makefile -f _CoqProject -o Makefile > /dev/null
fi
timeout 3000 make -k -j16 "$@" 2>&1
cd "$ROOT/ocaml"
# extraction (writes model.ml / model.mli in cwd)
if [ ! -f model.ml ] || [ -n "$(find ../coq -name '*Defs.vo' -newer model.ml -print -quit)" ] || [ ../coq/Extract/Extract.v -nt model.ml ]; then
  timeout 600 coqc -Q ../coq Tbfmm ../coq/Extract/Extract.v > /dev/null
fi
if [ ! -f driver ] || [ model.ml -nt driver ] || [ driver.ml -nt driver ] || [ zio.ml -nt driver ]; then
  ocamlfind ocamlopt -O3 -w -a -package str model.mli model.ml zio.ml driver.ml -o driver 2>/dev/null || \
  ocamlfind ocamlopt -w -a model.mli model.ml zio.ml driver.ml -o driver
fi
