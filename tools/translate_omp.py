#!/usr/bin/env python3
"""Tie A (regeneration): reads the OpenMP task submission sites of
   /repo/src/algorithms/openmp/tbfopenmpalgorithm.hpp and tbfopenmpalgorithmtsm.hpp and emits coq/Gen/OmpTasksGen.v:
   per site: the wrapper it calls with its group arguments, the depend clauses resolved to (mode, buffer kind, group
   variable), the firstprivate list, the free identifiers of the task body, whether the site is inside a lambda.
   Also the order of the if-chain in execute().  Purely textual (regex); its reading of the source is in the trusted base and
   the generated file is small enough to be read."""
import re, sys, os

REPO = os.environ.get("VERIF_REPO", "/repo")
ROOT = os.path.dirname(os.path.dirname(os.path.abspath(__file__)))
FILES = [("omp", "src/algorithms/openmp/tbfopenmpalgorithm.hpp"), ("omptsm", "src/algorithms/openmp/tbfopenmpalgorithmtsm.hpp")]
ACCESSOR_KIND = {"getDataPtr": "KData", "getRhsPtr": "KRhs", "getMultipolePtr": "KMult", "getLocalPtr": "KLoc"}
KEYWORDS = {"std", "move", "delete", "omp_get_thread_num", "const", "auto", "this", "true", "false", "long", "int"}


def strip_comments(s):
    s = re.sub(r"//[^\n]*", "", s)
    return re.sub(r"/\*.*?\*/", "", s, flags=re.S)


def find_body(text, pos):
    """text[pos] is just after the pragma line; returns (body, end) of the following {...} block"""
    i = text.index("{", pos)
    depth = 0
    j = i
    while True:
        if text[j] == "{": depth += 1
        elif text[j] == "}":
            depth -= 1
            if depth == 0: break
        j += 1
    return text[i + 1:j], j + 1


def enclosing_function(text, pos):
    """name of the member function template containing pos, and whether pos is inside a [&] lambda of that function"""
    fm = None
    for m in re.finditer(r"void\s+(\w+)\s*\(\s*TreeClass&\s+inTree\s*\)\s*\{", text):
        if m.start() < pos: fm = m
    name = fm.group(1) if fm else "?"
    seg = text[fm.end():pos] if fm else ""
    # inside a lambda iff an opened "[&](" ... "{" has not been closed before pos
    in_lambda = False
    for lm in re.finditer(r"\[&\]\s*\([^)]*\)\s*\{", seg):
        depth = 1
        k = lm.end()
        while k < len(seg) and depth > 0:
            if seg[k] == "{": depth += 1
            elif seg[k] == "}": depth -= 1
            k += 1
        if depth > 0: in_lambda = True
    return name, in_lambda


def resolve(text, upto, var):
    """ptr_X -> (object variable, kind) by reading the two preceding assignments"""
    seg = text[:upto]
    m = None
    for m_ in re.finditer(r"%s\s*=\s*reinterpret_cast<[^>]*>\(\s*&\s*(\w+)\s*\[0\]\s*\)" % re.escape(var), seg):
        m = m_
    if not m: return ("?", "KUnknown")
    inner = m.group(1)
    a = None
    for a_ in re.finditer(r"\b%s\s*=\s*(\w+)\s*(?:->|\.)\s*(\w+)\s*\(\s*\)" % re.escape(inner), seg):
        a = a_
    if not a: return ("?", "KUnknown")
    return (a.group(1), ACCESSOR_KIND.get(a.group(2), "KUnknown"))


def obj_alias(text, upto, obj):
    """groupSrc / groupTarget (lambda parameters) are also known as groupSrcPtr / groupTargetPtr = &groupSrc"""
    seg = text[:upto]
    al = None
    for m in re.finditer(r"(\w+)\s*=\s*&\s*%s\s*;" % re.escape(obj), seg):
        al = m.group(1)
    return al


def parse_sites(tag, path):
    raw = open(os.path.join(REPO, path)).read()
    text = strip_comments(raw)
    sites = []
    for m in re.finditer(r"#pragma\s+omp\s+task\b([^\n]*)\n", text):
        clauses = m.group(1)
        line = raw[:raw.find(m.group(0).strip()[:60])].count("\n") + 1 if m.group(0).strip()[:60] in raw else 0
        deps = []
        for dm in re.finditer(r"depend\(\s*(\w+)\s*:\s*([^)]*)\)", clauses):
            mode = dm.group(1)
            for op in dm.group(2).split(","):
                v = re.match(r"\s*(\w+)\s*\[0\]\s*", op)
                var = v.group(1) if v else op.strip()
                obj, kind = resolve(text, m.start(), var)
                deps.append((mode, kind, obj))
        fp = []
        fm = re.search(r"firstprivate\(([^)]*)\)", clauses)
        if fm: fp = [x.strip() for x in fm.group(1).split(",") if x.strip()]
        default_shared = "default(shared)" in clauses
        body, _ = find_body(text, m.end())
        calls = re.findall(r"(?:kernelWrapper\s*\.|kernelWrapperPtr\s*->)\s*(\w+)\s*\(([^;]*)\)\s*;", body)
        wrappers = []
        for name, args in calls:
            objs = re.findall(r"\*\s*(\w+)", re.sub(r"std::move\([^)]*\)", "", args))
            wrappers.append((name, objs))
        # free identifiers of the body
        ids = set()
        for im in re.finditer(r"(?<![\w.>])([A-Za-z_]\w*)\b", body):
            nm = im.group(1)
            prev = body[:im.start()].rstrip()
            if prev.endswith(".") or prev.endswith("->") or prev.endswith("::"): continue
            if nm in KEYWORDS: continue
            ids.add(nm)
        fn, in_lambda = enclosing_function(text, m.start())
        # normalise object names through their pointer aliases
        ndeps = []
        for mode, kind, obj in deps:
            al = obj_alias(text, m.start(), obj)
            ndeps.append((mode, kind, al or obj))
        sites.append(dict(tag=tag, fn=fn, line=line, in_lambda=in_lambda, deps=ndeps, firstprivate=fp, default_shared=default_shared,
                          wrappers=wrappers, refs=sorted(ids)))
    # if-chain order of execute()
    em = re.search(r"void\s+execute\s*\(.*?\{(.*?)#pragma\s+omp\s+taskwait", text, flags=re.S)
    order = re.findall(r"TbfAlgorithmUtils::Tbf(\w+)\s*\)\s*\{\s*(\w+)\(inTree\)", em.group(1)) if em else []
    return sites, order


def coq_str(s):
    return '"%s"' % s


def emit():
    out = ["(* GENERATED by tools/translate_omp.py from /repo/src/algorithms/openmp/*.hpp - do not edit.",
           "   One record per `#pragma omp task` site. *)",
           "From Coq Require Import List String ZArith.", "Import ListNotations.", "Local Open Scope string_scope.", "",
           "Inductive gkind := KData | KRhs | KMult | KLoc | KUnknown.",
           "Inductive gmode := MIn | MOut | MInout | MCommute | MOther.",
           "Record site := { s_exec : string; s_fn : string; s_in_lambda : bool; s_default_shared : bool;",
           "                 s_deps : list (gmode * gkind * string); s_firstprivate : list string;",
           "                 s_wrappers : list (string * list string); s_refs : list string }.", ""]
    modes = {"in": "MIn", "out": "MOut", "inout": "MInout", "commute": "MCommute"}
    allsites = []
    orders = {}
    for tag, path in FILES:
        sites, order = parse_sites(tag, path)
        orders[tag] = order
        allsites += sites
    out.append("Definition omp_sites : list site := [")
    rows = []
    for s in allsites:
        deps = "; ".join("(%s, %s, %s)" % (modes.get(m, "MOther"), k, coq_str(o)) for m, k, o in s["deps"])
        wr = "; ".join("(%s, [%s])" % (coq_str(n), "; ".join(coq_str(a) for a in args)) for n, args in s["wrappers"])
        rows.append("  {| s_exec := %s; s_fn := %s; s_in_lambda := %s; s_default_shared := %s;\n     s_deps := [%s];\n     s_firstprivate := [%s];\n     s_wrappers := [%s];\n     s_refs := [%s] |}"
                    % (coq_str(s["tag"]), coq_str(s["fn"]), "true" if s["in_lambda"] else "false", "true" if s["default_shared"] else "false",
                       deps, "; ".join(coq_str(x) for x in s["firstprivate"]), wr, "; ".join(coq_str(x) for x in s["refs"])))
    out.append(";\n".join(rows))
    out.append("].")
    out.append("")
    for tag, order in orders.items():
        out.append("Definition %s_execute_order : list (string * string) := [%s]." % (tag, "; ".join("(%s, %s)" % (coq_str(a), coq_str(b)) for a, b in order)))
    return "\n".join(out) + "\n"


if __name__ == "__main__":
    txt = emit()
    dst = os.path.join(ROOT, "coq", "Gen", "OmpTasksGen.v")
    os.makedirs(os.path.dirname(dst), exist_ok=True)
    old = open(dst).read() if os.path.exists(dst) else None
    if old != txt:
        open(dst, "w").write(txt)
        print("regenerated", dst)
    else:
        print("unchanged", dst)
