#!/usr/bin/env python3
"""Tie A (regeneration) for the Specx executors: reads every `runtime.task(...)` submission of
   /repo/src/algorithms/smspecx/tbfsmspecxalgorithm.hpp and tbfsmspecxalgorithmtsm.hpp and emits coq/Gen/SpecxTasksGen.v with
   one `site` record (the record type of Gen/OmpTasksGen.v) per submission:
     s_deps          SpRead / SpWrite / SpCommutativeWrite(*obj.getXPtr())  ->  (MIn / MOut / MCommute, kind of X, obj)
     s_firstprivate  what the task's callable owns or may keep a reference to: by-value captures (incl. init-captures), and
                     by-reference captures of names that are themselves REFERENCES to tree objects (declared `auto& x = ...` /
                     `const auto& x = ...` in the enclosing function, or reference parameters of the enclosing callback) - a
                     by-reference capture of a local VALUE (e.g. a loop counter) is NOT listed, so a body that uses it fails
                     the descriptor theorem;
     s_in_lambda     true iff the callable does not capture `this` (then members are not reachable from the task);
     s_wrappers      kernelWrapper.<Op>(...) calls of the body with their group-object arguments in order;
     s_refs          free identifiers of the body.
   Purely textual (regex + bracket matching); its reading of the source is in the trusted base and the generated file is small."""
import re, sys, os

REPO = os.environ.get("VERIF_REPO", "/repo")
ROOT = os.path.dirname(os.path.dirname(os.path.abspath(__file__)))
FILES = [("specx", "src/algorithms/smspecx/tbfsmspecxalgorithm.hpp"), ("specxtsm", "src/algorithms/smspecx/tbfsmspecxalgorithmtsm.hpp")]
ACCESSOR_KIND = {"getDataPtr": "KData", "getRhsPtr": "KRhs", "getMultipolePtr": "KMult", "getLocalPtr": "KLoc"}
DEPMODE = {"SpRead": "MIn", "SpWrite": "MOut", "SpCommutativeWrite": "MCommute"}
KEYWORDS = {"std", "move", "const", "auto", "this", "true", "false", "long", "int", "unsigned", "char", "SpUtils", "GetThreadId", "static_cast", "size_t"}


def strip_comments(s):
    s = re.sub(r"//[^\n]*", "", s)
    return re.sub(r"/\*.*?\*/", "", s, flags=re.S)


def match_close(text, i, open_ch, close_ch):
    depth = 0
    j = i
    while True:
        if text[j] == open_ch: depth += 1
        elif text[j] == close_ch:
            depth -= 1
            if depth == 0: return j
        j += 1


def split_top(s):
    """split at top-level commas (parentheses, brackets, braces, angle brackets of templates ignored)"""
    out, depth, cur = [], 0, ""
    for ch in s:
        if ch in "([{": depth += 1
        elif ch in ")]}": depth -= 1
        if ch == "," and depth == 0:
            out.append(cur.strip()); cur = ""
        else:
            cur += ch
    if cur.strip(): out.append(cur.strip())
    return out


def reference_names(text, upto, fn_start):
    """names visible at `upto` that are references to longer-lived objects"""
    seg = text[fn_start:upto]
    names = set()
    for m in re.finditer(r"(?:const\s+)?auto\s*&\s*(\w+)\s*=", seg):
        names.add(m.group(1))
    # reference parameters of an enclosing callback lambda
    for m in re.finditer(r"\[&\]\s*\(([^)]*)\)\s*\{", seg):
        for prm in m.group(1).split(","):
            pm = re.match(r"\s*(?:const\s+)?auto\s*&\s*(\w+)\s*$", prm)
            if pm: names.add(pm.group(1))
    return names


def parse_sites(tag, path):
    raw = open(os.path.join(REPO, path)).read()
    text = strip_comments(raw)
    sites = []
    for m in re.finditer(r"\bruntime\s*\.\s*task\s*\(", text):
        lp = m.end() - 1
        rp = match_close(text, lp, "(", ")")
        args = split_top(text[lp + 1:rp])
        fm = None
        for f_ in re.finditer(r"void\s+(\w+)\s*\(\s*SpTaskGraph[^)]*\)\s*\{", text):
            if f_.start() < m.start(): fm = f_
        fn = fm.group(1) if fm else "?"
        refs_ok = reference_names(text, m.start(), fm.end() if fm else 0)
        deps, lam = [], None
        for a in args:
            dm = re.match(r"(SpRead|SpWrite|SpCommutativeWrite)\s*\(\s*\*\s*(\w+)\s*(?:\.|->)\s*(\w+)\s*\(\s*\)\s*\)$", a)
            if dm:
                deps.append((DEPMODE[dm.group(1)], ACCESSOR_KIND.get(dm.group(3), "KUnknown"), dm.group(2)))
            elif a.startswith("SpPriority"):
                continue
            elif a.startswith("["):
                lam = a
            else:
                deps.append(("MOther", "KUnknown", a[:40]))
        owned, has_this = [], False
        body, params = "", ""
        if lam:
            ce = match_close(lam, 0, "[", "]")
            for cap in split_top(lam[1:ce]):
                if cap == "this": has_this = True
                elif cap in ("&", "="): has_this = True; owned.append("*default*" + cap)
                elif cap.startswith("&"):
                    nm = cap[1:].strip()
                    if nm in refs_ok: owned.append(nm)
                else:
                    owned.append(re.match(r"(\w+)", cap).group(1))
            ps = lam.index("(", ce); pe = match_close(lam, ps, "(", ")")
            params = lam[ps + 1:pe]
            bs = lam.index("{", pe); be = match_close(lam, bs, "{", "}")
            body = lam[bs + 1:be]
        wrappers = []
        for name, wargs in re.findall(r"kernelWrapper\s*\.\s*(\w+)\s*\(([^;]*)\)\s*;", body):
            objs = [a for a in split_top(wargs) if re.fullmatch(r"\w+", a) and a in owned and a in refs_ok]
            wrappers.append((name, objs))
        ids = set()
        pnames = set(re.findall(r"(\w+)\s*(?:,|$)", params))
        for im in re.finditer(r"(?<![\w.>])([A-Za-z_]\w*)\b", body):
            nm = im.group(1)
            prev = body[:im.start()].rstrip()
            if prev.endswith(".") or prev.endswith("->") or prev.endswith("::"): continue
            if nm in KEYWORDS or nm in pnames: continue
            ids.add(nm)
        sites.append(dict(tag=tag, fn=fn, in_lambda=not has_this, deps=deps, firstprivate=owned, wrappers=wrappers, refs=sorted(ids)))
    return sites


def coq_str(s):
    return '"%s"' % s


def emit():
    out = ["(* GENERATED by tools/translate_specx.py from /repo/src/algorithms/smspecx/*.hpp - do not edit.",
           "   One record per `runtime.task(...)` submission (record type of Gen/OmpTasksGen.v). *)",
           "From Coq Require Import List String ZArith.", "From Tbfmm Require Import Gen.OmpTasksGen.", "Import ListNotations.", "Local Open Scope string_scope.", ""]
    allsites = []
    for tag, path in FILES:
        allsites += parse_sites(tag, path)
    out.append("Definition specx_sites : list site := [")
    rows = []
    for s in allsites:
        deps = "; ".join("(%s, %s, %s)" % (m, k, coq_str(o)) for m, k, o in s["deps"])
        wr = "; ".join("(%s, [%s])" % (coq_str(n), "; ".join(coq_str(a) for a in args)) for n, args in s["wrappers"])
        rows.append("  {| s_exec := %s; s_fn := %s; s_in_lambda := %s; s_default_shared := false;\n     s_deps := [%s];\n     s_firstprivate := [%s];\n     s_wrappers := [%s];\n     s_refs := [%s] |}"
                    % (coq_str(s["tag"]), coq_str(s["fn"]), "true" if s["in_lambda"] else "false", deps,
                       "; ".join(coq_str(x) for x in s["firstprivate"]), wr, "; ".join(coq_str(x) for x in s["refs"])))
    out.append(";\n".join(rows))
    out.append("].")
    return "\n".join(out) + "\n"


if __name__ == "__main__":
    txt = emit()
    dst = os.path.join(ROOT, "coq", "Gen", "SpecxTasksGen.v")
    old = open(dst).read() if os.path.exists(dst) else None
    if old != txt:
        open(dst, "w").write(txt)
        print("regenerated", dst)
    else:
        print("unchanged", dst)
