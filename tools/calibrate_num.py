#!/usr/bin/env python3
"""Calibration of the per-(kernel, order, height) error bands of checks/numcheck.py on the CURRENT tree (run it on the pinned tree
only; the result is pasted into numcheck.BANDS_H by hand, it is never computed at check time)."""
import sys, os, subprocess, json
sys.path.insert(0, os.path.join(os.path.dirname(__file__)))
sys.path.insert(0, os.path.join(os.path.dirname(__file__), ".."))
import vlib
from checks import numcheck
from concurrent.futures import ThreadPoolExecutor

def main():
    sdir = vlib.scratch("calib")
    rng = vlib.Rng(12345)
    boxes = [(0.5, 0.5, 0.5, 1.0), (3.1, -2.7, 0.4, 2.3), (-1.5, 0.25, 10.0, 0.37)]
    out = {}
    jobs = [(k, p) for k, ps in ((0, (4, 6, 8, 12)), (1, (3, 4, 5, 6, 7, 8))) for p in ps]
    def one(job):
        k, p = job
        b, err = numcheck.build(k, p, "double", sdir)
        if not b: return job, None
        cases = []
        r = vlib.Rng(1000 * k + p)
        sparse = len(sys.argv) > 1 and sys.argv[1] == "sparse"
        for H in ((4, 5, 6) if sparse else (3, 4, 5, 6)):
            N = 24 if sparse else {3: 300, 4: 800, 5: 1500, 6: 2200}[H]
            for rep in range(10):
                box = boxes[r.below(3)]
                cases.append((H, "num %d %d %d 0 %d %d %r %r %r %r %d" % (H, r.choice([7, 30, 100]), r.below(2), N, r.below(100000), box[0], box[1], box[2], box[3], r.below(2))))
        path = os.path.join(sdir, "c_%d_%d.cases" % (k, p))
        vlib.write_cases(path, [c for _, c in cases])
        res = vlib.run_impl(b, path, timeout=3000, env=dict(os.environ, OMP_NUM_THREADS="2"))
        tab = {}
        for (H, c), line in zip(cases, res):
            if line.startswith("ABORT"): continue
            d = dict(x.split("=") for x in line.split())
            e = tab.setdefault(H, [0.0, 0.0])
            e[0] = max(e[0], float(d["epot"])); e[1] = max(e[1], float(d["efrc"]))
        return job, tab
    with ThreadPoolExecutor(max_workers=5) as ex:
        for job, tab in ex.map(one, jobs):
            out["%d:%d" % job] = tab
            print(job, tab, flush=True)
    json.dump(out, open("/tmp/calib_num_%s.json" % ("sparse" if len(sys.argv) > 1 else "dense"), "w"), indent=1)

main()
