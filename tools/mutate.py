#!/usr/bin/env python3
"""Self-audit of the machinery by first-order mutants (NOT a check, not registered in MANIFEST.json; results go to stdout).
usage: tools/mutate.py <seed> <count> [file-substring]   (run from /verif; applies each mutant to /repo's working tree and restores it)
For each mutant: one token of a core source file is changed (relational operator, +-1, && / ||, == / !=), the quick checks
anchored on that file are run, and the mutant is reported as CAUGHT (some check exits 1) or SURVIVED.  A survivor is either an
equivalent mutant (the property still holds) or a blind spot - to be judged by hand; blind spots are turned into generators."""
import os, random, re, subprocess, sys, shutil, tempfile

REPO = os.environ.get("VERIF_REPO", "/repo")
FILES = {
    "src/core/tbftree.hpp": ["C07", "C06", "C13", "C16", "C17", "C01"],
    "src/core/tbfcellscontainer.hpp": ["C07", "C16", "C14", "C01"],
    "src/core/tbfparticlescontainer.hpp": ["C06", "C16", "C14", "C17", "C01"],
    "src/core/tbfparticlesorter.hpp": ["C06", "C07", "C13"],
    "src/core/tbfinteraction.hpp": ["C11", "C02", "C01"],
    "src/core/tbftreetsm.hpp": ["C09", "C07"],
    "src/spacial/tbfmortonspaceindex.hpp": ["C11", "C10", "C06"],
    "src/spacial/tbfspacialconfiguration.hpp": ["C06", "C15", "C10"],
    "src/algorithms/sequential/tbfalgorithm.hpp": ["C01", "C02", "C12", "C08"],
    "src/algorithms/sequential/tbfalgorithmtsm.hpp": ["C09", "C02", "C12"],
    "src/algorithms/periodic/tbfalgorithmperiodictoptree.hpp": ["C10", "C02"],
    "src/algorithms/openmp/tbfopenmpalgorithm.hpp": ["C03", "C15", "C18"],
    "src/algorithms/openmp/tbfopenmpalgorithmtsm.hpp": ["C03", "C09"],
    "src/algorithms/tbfalgorithmutils.hpp": ["C01", "C16", "C03", "C09"],
    "src/algorithms/tbfblocksizefinder.hpp": ["C07", "C19"],
    "src/containers/tbfmemoryblock.hpp": ["C14", "C15"],
    "src/containers/tbfmemorymultirvector.hpp": ["C14", "C15"],
    "src/kernels/counterkernels/tbfinteractioncounter.hpp": ["C18"],
    "src/kernels/P2P/FP2PR.hpp": ["C20", "C04"],
    "src/kernels/unifkernel/FUnifRoots.hpp": ["C05"],
    "src/algorithms/sequential/tbfgroupkernelinterface.hpp": ["C01", "C02", "C09", "C08"],
    "src/algorithms/periodic/tbfalgorithmperiodictoptreetsm.hpp": ["C10", "C12"],
    "src/utils/tbfutils.hpp": ["C14", "C11", "C06"],
    "src/utils/tbfperiodicshifter.hpp": ["C10", "C04"],
    "src/spacial/tbfhilbertspaceindex.hpp": ["C11"],
    "src/containers/tbfvectorview.hpp": ["C14", "C01"],
}
SUBS = [(r"(?<![<>=!\-+*/&|])<(?![<=>])", "<="), (r"<=", "<"), (r"(?<![<>=!\-])>(?![>=])", ">="), (r">=", ">"), (r"==", "!="), (r"!=", "=="),
        (r"&&", "||"), (r"\|\|", "&&"), (r"\+ ?1\b", "+ 0"), (r"- ?1\b", "- 0"), (r"\b0\b", "1")]


def sites(text):
    out = []
    lines = text.split("\n")
    in_comment = False
    depth_assert = 0
    for ln, line in enumerate(lines):
        s = line.strip()
        if depth_assert > 0 or "assert(" in s or "assert (" in s:
            # skip whole (possibly multi-line) assertions
            part = line if depth_assert > 0 else line[line.index("assert"):]
            depth_assert += part.count("(") - part.count(")")
            if depth_assert < 0: depth_assert = 0
            continue
        if s.startswith("//") or s.startswith("#") or s.startswith("*") or s.startswith("/*") or "template" in s or "assert" in s or "static_assert" in s or "include" in s:
            continue
        if "std::cout" in s or "std::cerr" in s or "operator<<" in s: continue
        code = line.split("//")[0]
        for pat, rep in SUBS:
            for m in re.finditer(pat, code):
                before = code[:m.start()]
                if pat == r"&&" and re.search(r"[A-Za-z0-9_>]$", before): continue            # rvalue reference, not a conjunction
                if pat.startswith("(?<![<>=!\\-+*/&|])<") and re.search(r"(_cast|optional|array|vector|pair|tuple|reference_wrapper|function|unique_ptr|numeric_limits|is_same|conditional|enable_if|decay|declval|remove_\w+)\s*$", before): continue
                # skip template angle brackets heuristically: '<' followed by a type-like token and a later '>' on the line
                if pat.startswith("(?<![<>=!\\-+*/&|])<") and re.search(r"[A-Za-z_:]\s*$", code[:m.start()]) and ">" in code[m.end():] and not re.search(r"\b(if|for|while|return)\b", code[:m.start()]):
                    continue
                if pat.startswith("(?<![<>=!\\-])>") and ("<" in code[:m.start()]) and not re.search(r"\b(if|for|while|return)\b", code[:m.start()]):
                    continue
                out.append((ln, m.start(), m.end(), pat, rep))
    return out


def main():
    seed, count = int(sys.argv[1]), int(sys.argv[2])
    filt = sys.argv[3] if len(sys.argv) > 3 else ""
    rng = random.Random(seed)
    files = [f for f in FILES if filt in f]
    save = tempfile.mkdtemp(prefix="mut-ev.")
    shutil.copytree("evidence", os.path.join(save, "evidence"))
    try:
        for k in range(count):
            f = rng.choice(files)
            path = os.path.join(REPO, f)
            text = open(path).read()
            ss = sites(text)
            if not ss: continue
            ln, a, b, pat, rep = rng.choice(ss)
            lines = text.split("\n")
            old = lines[ln]
            new = old[:a] + re.sub(pat, rep, old[a:b]) + old[b:]
            if new == old: continue
            lines[ln] = new
            open(path, "w").write("\n".join(lines))
            verdict, who = "SURVIVED", ""
            try:
                for cid in FILES[f]:
                    try:
                        r = subprocess.run(["./check", cid, "--tier", "quick"], capture_output=True, text=True, timeout=1500)
                        code, out = r.returncode, r.stdout
                    except subprocess.TimeoutExpired:
                        code, out = 1, "VIOLATION timeout"
                    if code != 0:
                        v = [l for l in out.split("\n") if l.startswith("VIOLATION")]
                        verdict, who = ("BUILD " if "does not compile" in out else "CAUGHT"), cid + ": " + (v[0][:160] if v else "exit %d" % code)
                        break
            finally:
                open(path, "w").write(text)
            print("%s %s:%d  `%s` -> `%s`  %s" % (verdict, f, ln + 1, old.strip()[:110], new.strip()[:110], who), flush=True)
    finally:
        subprocess.run(["git", "-C", REPO, "checkout", "--", "src"])
        shutil.rmtree("evidence", ignore_errors=True)
        shutil.move(os.path.join(save, "evidence"), "evidence")
        shutil.rmtree(save, ignore_errors=True)


if __name__ == "__main__":
    main()
