"""Shared machinery of the /verif checks: building harnesses from /repo's working
tree, running implementation and model on the same case files, proof status
collection, evidence / replay / known-finding handling."""
import hashlib, json, os, re, subprocess, sys, time, shutil, random

ROOT = os.path.dirname(os.path.dirname(os.path.abspath(__file__)))
REPO = os.environ.get("VERIF_REPO", "/repo")
BUILD = os.path.join(ROOT, "build")
COQ = os.path.join(ROOT, "coq")
NPROC = os.cpu_count() or 4

CXXFLAGS = ["-std=c++17", "-O1", "-g", "-UNDEBUG", "-fsanitize=address,undefined",
            "-fno-sanitize-recover=all", "-ffp-contract=off", "-fno-omit-frame-pointer",
            "-ftrivial-auto-var-init=pattern"]   # uninitialised automatic variables get a recognisable garbage pattern

os.makedirs(BUILD, exist_ok=True)


# ----------------------------------------------------------------------------
# splitmix64: every random choice of a run derives from VERIF_SEED through this
class Rng:
    def __init__(self, seed):
        self.s = seed & 0xFFFFFFFFFFFFFFFF

    def next(self):
        self.s = (self.s + 0x9E3779B97F4A7C15) & 0xFFFFFFFFFFFFFFFF
        z = self.s
        z = ((z ^ (z >> 30)) * 0xBF58476D1CE4E5B9) & 0xFFFFFFFFFFFFFFFF
        z = ((z ^ (z >> 27)) * 0x94D049BB133111EB) & 0xFFFFFFFFFFFFFFFF
        return z ^ (z >> 31)

    def below(self, n):
        return self.next() % n if n > 0 else 0

    def range(self, lo, hi):  # inclusive
        return lo + self.below(hi - lo + 1)

    def choice(self, l):
        return l[self.below(len(l))]

    def unit(self):
        return (self.next() >> 11) / float(1 << 53)

    def shuffle(self, l):
        for i in range(len(l) - 1, 0, -1):
            j = self.below(i + 1)
            l[i], l[j] = l[j], l[i]

    def fork(self, tag):
        h = hashlib.sha256(("%d:%s" % (self.s, tag)).encode()).digest()
        return Rng(int.from_bytes(h[:8], "little"))


def seed_from_env():
    try:
        return int(os.environ.get("VERIF_SEED", "1"))
    except ValueError:
        return 1


# ----------------------------------------------------------------------------
def repo_src_hash(extra=()):
    h = hashlib.sha256()
    src = os.path.join(REPO, "src")
    for dp, dn, fn in sorted(os.walk(src)):
        dn.sort()
        for f in sorted(fn):
            p = os.path.join(dp, f)
            h.update(p.encode())
            with open(p, "rb") as fh:
                h.update(fh.read())
    for p in extra:
        h.update(p.encode())
        if os.path.isfile(p):
            with open(p, "rb") as fh:
                h.update(fh.read())
    return h.hexdigest()[:20]


def build_harness(name, extra_flags=(), sources=None, link=(), compiler="g++", defines=(), includes=()):
    """Compiles harness/<name>.cpp against /repo/src's *current* content.  The
    binary is cached under build/ keyed by a hash of every file of /repo/src, the
    harness sources and the flags, so an edit of the repository always rebuilds."""
    hdir = os.path.join(ROOT, "harness")
    srcs = [os.path.join(hdir, s) for s in (sources or [name + ".cpp"])]
    deps = srcs + [os.path.join(hdir, f) for f in sorted(os.listdir(hdir)) if f.endswith(".hpp")]
    for inc in includes:
        for dp, _, fs in sorted(os.walk(os.path.join(hdir, inc))):
            deps += [os.path.join(dp, f) for f in sorted(fs)]
    flags = CXXFLAGS + list(extra_flags) + ["-D" + d for d in defines]
    key = repo_src_hash(deps + [" ".join(flags), " ".join(link), compiler])
    out = os.path.join(BUILD, "%s-%s" % (name, key))
    if os.path.exists(out):
        return out, None
    # drop stale binaries of the same harness
    for f in os.listdir(BUILD):
        if f.startswith(name + "-") and not f.endswith(".tmp"):
            try:
                os.remove(os.path.join(BUILD, f))
            except OSError:
                pass
    tmp = "%s.%d.tmp" % (out, os.getpid())      # several checks may build the same harness at the same time
    cmd = [compiler] + flags + ["-I" + os.path.join(REPO, "src"), "-I" + hdir] + ["-I" + os.path.join(hdir, i) for i in includes] + srcs + ["-o", tmp] + list(link)
    t0 = time.time()
    p = subprocess.run(cmd, capture_output=True, text=True)
    if p.returncode != 0:
        return None, p.stderr[-4000:]
    os.replace(tmp, out)
    return out, None


SAN_ENV = dict(os.environ, ASAN_OPTIONS="detect_stack_use_after_return=1:abort_on_error=0:exitcode=66:detect_leaks=1",
               UBSAN_OPTIONS="print_stacktrace=1:halt_on_error=1", LSAN_OPTIONS="exitcode=67")


def _nonempty_lines(path):
    with open(path) as fh:
        return [l.rstrip("\n") for l in fh if l.strip()]


def run_impl(binary, casefile, timeout=2400, env=None, args=()):
    """Runs the harness over the case file.  A case on which the process aborts
    (assert, sanitizer, signal) yields the line 'ABORT: <reason>' and the run
    resumes with the next case."""
    cases = _nonempty_lines(casefile)
    out = []
    skip = 0
    env = env or SAN_ENV
    while skip < len(cases):
        try:
            p = subprocess.run([binary, casefile, str(skip)] + list(args), capture_output=True, text=True,
                               timeout=timeout, env=env)
            rc, so, se = p.returncode, p.stdout, p.stderr
        except subprocess.TimeoutExpired as e:
            rc, so, se = -999, (e.stdout or b"").decode() if isinstance(e.stdout, bytes) else (e.stdout or ""), "timeout"
        lines = so.split("\n")
        if lines and lines[-1] == "":
            lines.pop()
        # a trailing partial line (no newline) cannot happen: harness prints whole lines
        out.extend(lines)
        skip = len(out)
        if rc == 0 and skip >= len(cases):
            break
        if skip >= len(cases) and rc != 0:
            # failure after the last case (e.g. leak report at exit): attribute to the run
            out.append("ABORT-AT-EXIT: " + summarize_stderr(se, rc))
            break
        if rc == 0:
            # fewer lines than cases without failure: harness bug; do not loop forever
            out.extend(["ABORT: harness produced no output"] * (len(cases) - skip))
            break
        out.append("ABORT: " + summarize_stderr(se, rc))
        skip = len(out)
    return out


def summarize_stderr(se, rc):
    se = se or ""
    m = re.search(r"Assertion `(.*?)' failed", se)
    if m:
        loc = re.search(r"([\w./-]+\.hpp:\d+)", se)
        return "assert(%s) at %s" % (m.group(1), os.path.basename(loc.group(1)) if loc else "?")
    m = re.search(r"ERROR: AddressSanitizer: ([\w-]+)", se)
    if m:
        loc = re.findall(r"(/repo/src/[\w./-]+:\d+)", se)
        return "asan %s at %s" % (m.group(1), loc[0] if loc else "?")
    m = re.search(r"runtime error: (.*)", se)
    if m:
        loc = re.search(r"([\w./-]+\.hpp:\d+)", se)
        return "ubsan %s at %s" % (m.group(1)[:80], os.path.basename(loc.group(1)) if loc else "?")
    if "LeakSanitizer" in se:
        return "lsan leak"
    return "rc=%s %s" % (rc, se.strip().split("\n")[-1][:120] if se.strip() else "")


def _run_model_one(drv, casefile, cases, timeout):
    """one driver process over `cases` (already written to casefile); restarts after a crash of the driver"""
    def _unlimit():
        import resource
        try:
            resource.setrlimit(resource.RLIMIT_STACK, (resource.RLIM_INFINITY, resource.RLIM_INFINITY))
        except Exception:
            try:
                soft, hard = resource.getrlimit(resource.RLIMIT_STACK)
                resource.setrlimit(resource.RLIMIT_STACK, (hard, hard))
            except Exception:
                pass
    out = []
    cur = casefile
    start = 0
    while start < len(cases):
        try:
            p = subprocess.run([drv, cur], capture_output=True, text=True, timeout=timeout, preexec_fn=_unlimit)
            lines = p.stdout.split("\n"); rc = p.returncode; err = p.stderr
        except subprocess.TimeoutExpired as e:
            so = e.stdout.decode() if isinstance(e.stdout, bytes) else (e.stdout or "")
            lines = so.split("\n")[:-1] if so else []
            if lines and not so.endswith("\n"): pass
            rc = -1; err = "model driver timed out after %ds on one case" % timeout
        if lines and lines[-1] == "":
            lines.pop()
        out += lines
        if rc == 0 or len(lines) >= len(cases) - start:
            break
        out.append("MODEL-ERROR: " + err.strip()[-300:])
        start = len(out)
        cur = casefile + ".rest"
        with open(cur, "w") as fh:
            fh.write("\n".join(cases[start:]) + "\n")
    return out[:len(cases)] + ["MODEL-ERROR: missing output"] * max(0, len(cases) - len(out))


def run_model(casefile, timeout=1200, shard=150):
    """Runs the extracted model over the case file: sharded over up to NPROC/2 driver processes (the extracted functions are
    not tail-recursive - unlimited stack - and quadratic in places; a case on which the driver dies yields one MODEL-ERROR line)."""
    drv = os.path.join(ROOT, "ocaml", "driver")
    cases = _nonempty_lines(casefile)
    if len(cases) <= shard:
        return _run_model_one(drv, casefile, cases, timeout)
    from concurrent.futures import ThreadPoolExecutor
    chunks = [cases[k:k + shard] for k in range(0, len(cases), shard)]
    files = []
    for k, ch in enumerate(chunks):
        f = "%s.m%d" % (casefile, k)
        with open(f, "w") as fh:
            fh.write("\n".join(ch) + "\n")
        files.append(f)
    with ThreadPoolExecutor(max_workers=max(2, NPROC // 2)) as ex:
        outs = list(ex.map(lambda fc: _run_model_one(drv, fc[0], fc[1], timeout), zip(files, chunks)))
    return [l for o in outs for l in o]


# ----------------------------------------------------------------------------
# Coq side
FORBIDDEN = re.compile(r"\b(Admitted|admit|Axiom|Parameter|Conjecture|Admit Obligations|Unset Guard Checking|bypass_check|Unset Positivity|Unset Universe Checking)\b")

AXIOM_WHITELIST = [
    "functional_extensionality_dep", "propositional_extensionality", "proof_irrelevance", "classic",
    "ClassicalDedekindReals.sig_forall_dec", "ClassicalDedekindReals.sig_not_dec", "sig_forall_dec", "sig_not_dec",
    "eq_rect_eq", "JMeq_eq", "constructive_definite_description", "constructive_indefinite_description",
    "FunctionalExtensionality.functional_extensionality_dep", "Classical_Prop.classic",
    "Eqdep.Eq_rect_eq.eq_rect_eq", "ClassicalEpsilon.constructive_indefinite_description",
]


def scan_forbidden():
    bad = []
    for dp, dn, fn in os.walk(COQ):
        for f in fn:
            if f.endswith(".v"):
                p = os.path.join(dp, f)
                with open(p) as fh:
                    txt = fh.read()
                txt_nc = re.sub(r"\(\*.*?\*\)", "", txt, flags=re.S)
                for m in FORBIDDEN.finditer(txt_nc):
                    bad.append("%s: %s" % (os.path.relpath(p, COQ), m.group(1)))
    return bad


class _CoqLock:
    """Several checks may run at the same time: everything that runs make / coqc / extraction in coq/ and ocaml/ is serialised
    (otherwise one process deletes a .vo another is reading, or captures no Print Assumptions output because a concurrent make
    rebuilt the file first)."""
    def __enter__(self):
        import fcntl
        os.makedirs(BUILD, exist_ok=True)
        self.fh = open(os.path.join(BUILD, "coq.lock"), "w")
        fcntl.flock(self.fh, fcntl.LOCK_EX)
        return self

    def __exit__(self, *a):
        import fcntl
        fcntl.flock(self.fh, fcntl.LOCK_UN)
        self.fh.close()


def coq_build(targets=()):
    """(Re)builds the development with make -k.  Returns (ok, log)."""
    with _CoqLock():
        p = subprocess.run([os.path.join(ROOT, "tools", "build_model.sh")] + list(targets), capture_output=True, text=True)
    return p.returncode == 0, p.stdout + p.stderr


def proof_status(prop_file):
    """Compiles Properties/<prop_file>.v (and what it depends on) and parses the
    Print Assumptions output.  Returns dict(theorems=[...], ok=bool, axioms={thm:[..]}, log=str)."""
    rel = "Properties/%s.vo" % prop_file
    src = os.path.join(COQ, "Properties", prop_file + ".v")
    with open(src) as fh:
        txt = fh.read()
    txt_nc = re.sub(r"\(\*.*?\*\)", "", txt, flags=re.S)
    theorems = re.findall(r"^\s*(?:Theorem|Lemma|Corollary)\s+(\w+)", txt_nc, flags=re.M)
    examples = re.findall(r"^\s*Example\s+(\w+)", txt_nc, flags=re.M)
    # force recompilation of the property file so that its output is captured
    vo = os.path.join(COQ, rel)
    with _CoqLock():
        if os.path.exists(vo):
            os.remove(vo)
        p = subprocess.run(["make", "-k", "-j%d" % NPROC, rel], cwd=COQ, capture_output=True, text=True)
        log = p.stdout + p.stderr
        ok = p.returncode == 0 and os.path.exists(vo)
    axioms = {}
    cur = None
    closed = 0
    # output of "Print Assumptions thm." : either "Closed under the global context" or "Axioms:" + list
    chunks = re.split(r"(?=Closed under the global context|Axioms:)", log)
    assum = []
    for ch in chunks:
        if ch.startswith("Closed under the global context"):
            assum.append([])
        elif ch.startswith("Axioms:"):
            names = re.findall(r"^([A-Za-z_][\w.']*)\s*:", ch[len("Axioms:"):], flags=re.M)
            assum.append(names)
    pa = re.findall(r"Print Assumptions\s+(\w+)", txt_nc)
    for k, name in enumerate(pa):
        if k < len(assum):
            axioms[name] = assum[k]
    bad_ax = []
    for name, axs in axioms.items():
        for a in axs:
            if a not in AXIOM_WHITELIST and a.split(".")[-1] not in AXIOM_WHITELIST:
                bad_ax.append("%s depends on %s" % (name, a))
    need_pa = re.findall(r"^\s*(?:Theorem|Corollary)\s+(\w+)", txt_nc, flags=re.M)
    missing_pa = [t for t in need_pa if t not in axioms]
    return dict(theorems=theorems + examples, ok=ok and not bad_ax and not missing_pa,
                compiled=ok, axioms=axioms, bad_axioms=bad_ax, missing_print_assumptions=missing_pa, log=log[-6000:])


# ----------------------------------------------------------------------------
def load_known_findings():
    p = os.path.join(ROOT, "known_findings.json")
    if not os.path.exists(p):
        return []
    with open(p) as fh:
        return json.load(fh)["findings"]


class Report:
    """Collects what a check did and writes evidence / replays / verdict lines."""

    def __init__(self, pid, tier, seed, level):
        self.pid, self.tier, self.seed, self.level = pid, tier, seed, level
        self.t0 = time.time()
        self.coverage = {}
        self.assumptions = []
        self.violations = []     # dicts: key fields + description + replay payload
        self.known_hits = {}
        self.samples = []
        self.evaluations = 0
        self.nontrivial = set()
        self.counters = {}
        self.known = [k for k in load_known_findings() if k["property"] == pid and k.get("status") == "known"]

    def count(self, name, n=1):
        self.counters[name] = self.counters.get(name, 0) + n

    def sample(self, s, limit=6):
        if len(self.samples) < limit:
            self.samples.append(s)

    def violation(self, fields, what, payload):
        """fields: dict used to match known-finding keys; what: one-line text."""
        for k in self.known:
            if all(str(fields.get(a)) == str(b) for a, b in k["key"].items()):
                self.known_hits.setdefault(k["id"], dict(k=k, n=0, example=what))["n"] += 1
                return
        self.violations.append(dict(fields=fields, what=what, payload=payload))

    def finish(self, extra_cov=None):
        wall = time.time() - self.t0
        cov = dict(self.coverage)
        cov.setdefault("evaluations", self.evaluations)
        cov.setdefault("distinct_nontrivial", len(self.nontrivial))
        cov.setdefault("samples", self.samples if self.samples else ["(none)"])
        cov["counters"] = self.counters
        if extra_cov:
            cov.update(extra_cov)
        cov["known_findings_hit"] = {kid: v["n"] for kid, v in self.known_hits.items()}
        ev = dict(property_id=self.pid, tier=self.tier, seed=self.seed, level=self.level, coverage=cov,
                  assumptions=self.assumptions, wall_s=round(wall, 2), violations=len(self.violations))
        os.makedirs(os.path.join(ROOT, "evidence"), exist_ok=True)
        with open(os.path.join(ROOT, "evidence", self.pid + ".json"), "w") as fh:
            json.dump(ev, fh, indent=1, sort_keys=True)
        for kid, v in sorted(self.known_hits.items()):
            print("KNOWN-FINDING: property=%s %s [%s] (%d cases this run, e.g. %s)" %
                  (self.pid, v["k"]["what"], kid, v["n"], v["example"][:160]))
        if not self.violations:
            print("OK property=%s tier=%s seed=%d wall=%.1fs evaluations=%d" % (self.pid, self.tier, self.seed, wall, cov["evaluations"]))
            return 0
        os.makedirs(os.path.join(ROOT, "replays"), exist_ok=True)
        # group: one VIOLATION line per distinct 'fields' signature (at most 5), first payload as replay
        seen = {}
        for v in self.violations:
            sig = json.dumps(v["fields"], sort_keys=True)
            seen.setdefault(sig, []).append(v)
        n = 0
        for sig, vs in seen.items():
            h = hashlib.sha256((sig + vs[0]["what"]).encode()).hexdigest()[:10]
            path = os.path.join(ROOT, "replays", "%s-%s.json" % (self.pid, h))
            with open(path, "w") as fh:
                json.dump(dict(property=self.pid, fields=vs[0]["fields"], what=vs[0]["what"], count=len(vs),
                               replay=vs[0]["payload"], seed=self.seed, tier=self.tier,
                               more=[x["what"] for x in vs[1:6]]), fh, indent=1)
            suffix = " no-failing-input-found" if vs[0]["fields"].get("kind") in ("proof", "correspondence-only") and not vs[0]["fields"].get("has_input") else ""
            print("VIOLATION property=%s replay=%s%s" % (self.pid, path, suffix))
            print("  # " + vs[0]["what"][:300])
            n += 1
            if n >= 8:
                break
        return 1


def write_cases(path, lines):
    os.makedirs(os.path.dirname(path), exist_ok=True)
    with open(path, "w") as fh:
        for l in lines:
            fh.write(l + "\n")


def scratch(pid):
    d = os.path.join(BUILD, "run-" + pid + "-%d" % os.getpid())
    os.makedirs(d, exist_ok=True)
    return d


def cleanup(d):
    shutil.rmtree(d, ignore_errors=True)


def differential(rep, binary, cases, sdir, tag, canon=None, oracle=None, clause=None, nontrivial=None,
                 abort_fields=None, impl_args=(), model_cases=None, impl_env=None, post=None, batch=1200):
    """Batched front end of _differential: big case lists are processed `batch` cases at a time so that the outputs of the
    implementation and of the model (long traces) never sit in memory all at once.  post(k, case, impl_line, model_line) is
    called for every case (k = position in `cases`) - callers keep what they need.  Returns (impl, model) only when everything
    fitted in one batch, else (None, None)."""
    if len(cases) <= batch:
        return _differential(rep, binary, cases, sdir, tag, canon, oracle, clause, nontrivial, abort_fields, impl_args, model_cases, impl_env, post, 0)
    for b0 in range(0, len(cases), batch):
        _differential(rep, binary, cases[b0:b0 + batch], sdir, tag, canon, oracle, clause, nontrivial, abort_fields, impl_args,
                      model_cases[b0:b0 + batch] if model_cases is not None else None, impl_env, post, b0)
    return None, None


def _differential(rep, binary, cases, sdir, tag, canon=None, oracle=None, clause=None, nontrivial=None,
                  abort_fields=None, impl_args=(), model_cases=None, impl_env=None, post=None, base=0):
    """Runs implementation and extracted model on the same cases.
    canon(case, line) -> canonical form; oracle(case, impl_line) -> None | message (property-level, independent);
    clause(case) -> name of the clause (for known-finding keys)."""
    path = os.path.join(sdir, tag + ".cases")
    write_cases(path, cases)
    impl = run_impl(binary, path, args=impl_args, env=impl_env)
    if model_cases is not None:
        mpath = os.path.join(sdir, tag + ".mcases")
        write_cases(mpath, model_cases)
    else:
        mpath = path
    model = run_model(mpath)
    canon = canon or (lambda c, l: l)
    if len(impl) > len(cases) and impl[-1].startswith("ABORT-AT-EXIT"):
        # failure reported when the process exits (typically LeakSanitizer): find one case that reproduces it alone
        reason = impl[-1]
        culprit = None
        probe = os.path.join(sdir, tag + ".probe")
        for k, c in enumerate(cases[:60]):
            write_cases(probe, [c])
            o = run_impl(binary, probe, args=impl_args, env=impl_env)
            if len(o) > 1 and o[-1].startswith("ABORT-AT-EXIT"):
                culprit = c; reason = o[-1]; break
        f = dict(kind="abort", clause="at-exit", reason=re.sub(r"\d+", "N", reason[:60]), has_input=culprit is not None)
        if abort_fields:
            f.update(abort_fields(culprit or cases[0], reason))
        rep.violation(f, "implementation fails at process exit (%s)%s" % (reason, (" on case `%s`" % culprit[:200]) if culprit else " (no single case of the first 60 reproduces it alone)"),
                      dict(case=culprit, cases_file_head=cases[:5], impl=reason))
        impl = impl[:len(cases)]
    if len(impl) < len(cases):
        impl += ["ABORT: missing output"] * (len(cases) - len(impl))
    if len(model) < len(cases):
        model += ["MODEL-ERROR: missing output"] * (len(cases) - len(model))
    agree = 0
    for k, c in enumerate(cases):
        rep.evaluations += 1
        i, m = impl[k], model[k]
        if post: post(base + k, c, i, m)
        cl = clause(c) if clause else c.split()[0]
        if nontrivial and nontrivial(c, i):
            rep.nontrivial.add(hashlib.sha256(c.encode()).hexdigest()[:16])
        if i.startswith("ABORT"):
            f = dict(kind="abort", clause=cl, reason=re.sub(r"\d+", "N", i[:60]), has_input=True)
            if abort_fields:
                f.update(abort_fields(c, i))
            rep.violation(f, "implementation aborted on case `%s`: %s" % (c[:200], i), dict(case=c, impl=i, model=m))
            continue
        try:
            om = oracle(c, i) if oracle else None
        except Exception as e:        # output the oracle cannot read is a finding about the implementation's output, never a crash of the check
            om = "the implementation's output is not of the expected form (%s: %s): %s" % (type(e).__name__, e, i[:160])
        if om:
            rep.violation(dict(kind="oracle", clause=cl, has_input=True),
                          "oracle clause %s fails on `%s`: %s" % (cl, c[:200], om[:300]), dict(case=c, impl=i, model=m, oracle=om))
            continue
        try:
            same = canon(c, i) == canon(c, m)
        except Exception:
            same = (i == m)
        if not same:
            rep.violation(dict(kind="correspondence", clause=cl, has_input=True),
                          "model and implementation differ on `%s`: impl=%s model=%s" % (c[:200], i[:200], m[:200]),
                          dict(case=c, impl=i, model=m))
            continue
        agree += 1
    rep.count("agree:" + tag, agree)
    rep.count("cases:" + tag, len(cases))
    if cases and base == 0:
        rep.sample(dict(case=cases[0][:200], impl=impl[0][:200]))
        rep.sample(dict(case=cases[len(cases) // 2][:200], impl=impl[len(cases) // 2][:200]))
    return impl, model
