#!/bin/bash
# MANIFEST.setup_cmd: clean full build of the Coq development, extraction, OCaml driver.
set -e
cd "$(dirname "$0")/.."
rm -rf build ocaml/model.ml ocaml/model.mli ocaml/driver ocaml/*.cm* ocaml/*.o
find coq -name '*.vo' -o -name '*.vok' -o -name '*.vos' -o -name '*.glob' -o -name '.*.aux' | xargs -r rm -f
rm -f coq/Makefile coq/Makefile.conf coq/.Makefile.d
mkdir -p build
tools/build_model.sh > build/setup.log 2>&1 || { tail -40 build/setup.log; exit 1; }
test -x ocaml/driver
echo "setup ok"
