#!/bin/bash
# usage: tools/try_seed.sh <patch.diff> <check ids...> : applies a seeded change to /repo, runs the quick checks, reverts.
P=$(realpath $1); shift
git -C /repo apply "$P" || { echo "patch does not apply"; exit 2; }
for id in "$@"; do
  echo "== $id"; timeout 1800 ./check $id --tier quick 2>&1 | grep -E "^(VIOLATION|KNOWN|OK|  #)" | head -8
done
git -C /repo checkout -- . 
git -C /repo status --short | head -3
