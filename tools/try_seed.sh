#!/bin/bash
# usage: tools/try_seed.sh <patch.diff> <check ids...> : applies a seeded change to /repo, runs the quick checks, reverts.
# The evidence files and replays written while the change is applied are discarded (evidence must come from the real tree).
P=$(realpath $1); shift
cd "$(dirname "$0")/.."
SAVE=$(mktemp -d /tmp/try-seed-ev.XXXXXX)
cp -a evidence "$SAVE/evidence"
git -C /repo apply "$P" || { echo "patch does not apply"; rm -rf "$SAVE"; exit 2; }
for id in "$@"; do
  echo "== $id"; timeout 1800 ./check $id --tier quick 2>&1 | grep -E "^(VIOLATION|KNOWN|OK|  #)" | head -8
done
git -C /repo checkout -- .
rm -rf evidence; mv "$SAVE/evidence" evidence; rm -rf "$SAVE"
git -C /repo status --short | grep -v "_build" | head -3
