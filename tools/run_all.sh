#!/bin/bash
# usage: tools/run_all.sh [quick|thorough] [ids...] : runs the checks (4 at a time) on /repo as it is and prints one line each
TIER=${1:-quick}; shift
IDS=${@:-C01 C02 C03 C04 C05 C06 C07 C08 C09 C10 C11 C12 C13 C14 C15 C16 C17 C18 C19 C20}
cd "$(dirname "$0")/.."
L=/tmp/run_all.$$; mkdir -p $L
for id in $IDS; do echo $id; done | xargs -P 4 -I{} sh -c "./check {} --tier $TIER > $L/{}.log 2>&1; echo \"{} exit=\$? \$(grep -E '^(OK|VIOLATION|KNOWN)' $L/{}.log | head -3 | cut -c1-150 | tr '\n' '|')\""
