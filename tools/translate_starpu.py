#!/usr/bin/env python3
"""Tie A (regeneration) for the StarPU executors: reads
     - every `starpu_insert_task(&<codelet>, ...)` of tbfsmstarpualgorithm.hpp / tbfsmstarpualgorithmtsm.hpp
       (packed STARPU_VALUE arguments, the (access mode, handle) pairs in buffer order),
     - the codelet initialisations (`<codelet>.cpu_funcs[0] = &TbfSmStarpuCallbacks::<Callback><...>`, nbuffers, modes[i]),
     - the callbacks of tbfsmstarpucallbacks.hpp (which buffer feeds which constructor argument of which group view, the
       starpu_codelet_unpack_args list, the kernelWrapper calls),
   and emits coq/Gen/StarpuTasksGen.v: one `site` record per insertion (record type of Gen/OmpTasksGen.v; buffer i becomes the
   dependence (mode declared at the insertion, kind of the constructor slot it feeds, view object)), plus per insertion the
   codelet's own modes, nbuffers and the pack / unpack arities.  Purely textual; its reading of the source is trusted."""
import re, sys, os

REPO = os.environ.get("VERIF_REPO", "/repo")
ROOT = os.path.dirname(os.path.dirname(os.path.abspath(__file__)))
ALGOS = [("starpu", "src/algorithms/smstarpu/tbfsmstarpualgorithm.hpp"), ("starputsm", "src/algorithms/smstarpu/tbfsmstarpualgorithmtsm.hpp")]
CALLBACKS = "src/algorithms/smstarpu/tbfsmstarpucallbacks.hpp"
CELL_SLOT = {0: "KUnknown", 2: "KMult", 4: "KLoc"}      # (data, size, multipole, size, local, size); slot 0 = symbolic block
PART_SLOT = {0: "KData", 2: "KRhs"}                       # (data, size, rhs, size)


def strip_comments(s):
    s = re.sub(r"//[^\n]*", "", s)
    return re.sub(r"/\*.*?\*/", "", s, flags=re.S)


def match_close(text, i, open_ch, close_ch):
    depth, j = 0, i
    while True:
        if text[j] == open_ch: depth += 1
        elif text[j] == close_ch:
            depth -= 1
            if depth == 0: return j
        j += 1


def split_top(s):
    out, depth, cur = [], 0, ""
    for ch in s:
        if ch in "([{": depth += 1
        elif ch in ")]}": depth -= 1
        if ch == "," and depth == 0:
            out.append(cur.strip()); cur = ""
        else:
            cur += ch
    if cur.strip(): out.append(cur.strip())
    return out


def mode_of(expr):
    e = re.sub(r"\s+", "", expr)
    if e == "STARPU_R": return "MIn"
    if e in ("STARPU_W", "STARPU_RW"): return "MOut"
    if "STARPU_COMMUTE" in e and "STARPU_RW" in e: return "MCommute"
    return "MOther"


def parse_callbacks():
    text = strip_comments(open(os.path.join(REPO, CALLBACKS)).read())
    cbs = {}
    for m in re.finditer(r"static\s+void\s+(\w+)\s*\(\s*void\s*\*\s*buffers\s*\[\s*\]\s*,\s*void\s*\*\s*cl_arg\s*\)\s*\{", text):
        bs = m.end() - 1
        be = match_close(text, bs, "{", "}")
        body = text[bs + 1:be]
        var_buf = {}
        for vm in re.finditer(r"(\w+)\s*=\s*\(\s*unsigned\s+char\s*\*\s*\)\s*STARPU_VARIABLE_GET_PTR\s*\(\s*buffers\s*\[\s*(\d+)\s*\]\s*\)", body):
            var_buf[vm.group(1)] = int(vm.group(2))
        buf = {}       # index -> (obj, kind)
        objs = []
        for om in re.finditer(r"(?:const\s+)?(Cell|Particle)ContainerClass\w*\s+(\w+)\s*\(([^;]*)\)\s*;", body):
            fam, obj, args = om.group(1), om.group(2), split_top(om.group(3))
            objs.append(obj)
            slots = CELL_SLOT if fam == "Cell" else PART_SLOT
            for pos, a in enumerate(args):
                if a in var_buf and pos in slots:
                    buf[var_buf[a]] = (obj, slots[pos])
        um = re.search(r"starpu_codelet_unpack_args\s*\(\s*cl_arg\s*,([^;]*)\)\s*;", body)
        unpack = [re.sub(r"^&\s*", "", a) for a in split_top(um.group(1))] if um else []
        wrappers = []
        for name, wargs in re.findall(r"kernelWrapper\s*\.\s*(\w+)\s*\(([^;]*)\)\s*;", body):
            wrappers.append((name, [a for a in split_top(wargs) if a in objs]))
        ids = set()
        for name, wargs in re.findall(r"kernelWrapper\s*\.\s*(\w+)\s*\(([^;]*)\)\s*;", body):
            for im in re.finditer(r"(?<![\w.>:])([A-Za-z_]\w*)\b", wargs):
                nm = im.group(1)
                prev = wargs[:im.start()].rstrip()
                if prev.endswith(".") or prev.endswith("->") or prev.endswith("::"): continue
                if nm in ("starpu_worker_get_id",): continue
                ids.add(nm)
        cbs[m.group(1)] = dict(buf=buf, unpack=unpack, wrappers=wrappers, refs=sorted(ids), objs=objs, nvars=len(var_buf))
    return cbs


def parse_algo(tag, path, cbs):
    text = strip_comments(open(os.path.join(REPO, path)).read())
    codelets = {}
    for m in re.finditer(r"(\w+)\s*\.\s*cpu_funcs\s*\[\s*0\s*\]\s*=\s*&\s*TbfSmStarpuCallbacks\s*::\s*(\w+)", text):
        codelets.setdefault(m.group(1), {})["cb"] = m.group(2)
    for m in re.finditer(r"(\w+)\s*\.\s*nbuffers\s*=\s*(\d+)\s*;", text):
        codelets.setdefault(m.group(1), {})["nbuffers"] = int(m.group(2))
    for m in re.finditer(r"(\w+)\s*\.\s*modes\s*\[\s*(\d+)\s*\]\s*=\s*([^;]*);", text):
        codelets.setdefault(m.group(1), {}).setdefault("modes", {})[int(m.group(2))] = mode_of(m.group(3))
    sites = []
    for m in re.finditer(r"\bstarpu_insert_task\s*\(", text):
        lp = m.end() - 1
        rp = match_close(text, lp, "(", ")")
        args = split_top(text[lp + 1:rp])
        cl = re.sub(r"^&\s*", "", args[0])
        fm = None
        for f_ in re.finditer(r"void\s+(\w+)\s*\(\s*TreeClass\s*&\s*inTree[^)]*\)\s*\{", text):
            if f_.start() < m.start(): fm = f_
        fn = fm.group(1) if fm else "?"
        k, packed, modes = 1, 0, []
        terminated = False
        while k < len(args):
            a = args[k]
            if a == "STARPU_VALUE": packed += 1; k += 3
            elif a in ("STARPU_PRIORITY", "STARPU_NAME"): k += 2
            elif a == "0": terminated = True; k += 1
            elif "STARPU_R" in a or "STARPU_W" in a: modes.append(mode_of(a)); k += 2
            else: modes.append("MOther"); k += 2
        info = codelets.get(cl, {})
        cb = cbs.get(info.get("cb", "?"), dict(buf={}, unpack=[], wrappers=[], refs=[], objs=[], nvars=-1))
        deps = []
        for i, md in enumerate(modes):
            obj, kind = cb["buf"].get(i, ("?", "KUnknown"))
            deps.append((md, kind, obj))
        cmodes = [info.get("modes", {}).get(i, "MOther") for i in range(info.get("nbuffers", 0))]
        sites.append(dict(tag=tag, fn=fn, codelet=cl, cb=info.get("cb", "?"), deps=deps, firstprivate=cb["unpack"] + cb["objs"], wrappers=cb["wrappers"],
                          refs=cb["refs"], cmodes=cmodes, nbuffers=info.get("nbuffers", -1), packed=packed, unpacked=len(cb["unpack"]),
                          terminated=terminated, nvars=cb["nvars"]))
    return sites


def coq_str(s):
    return '"%s"' % s


def emit():
    cbs = parse_callbacks()
    out = ["(* GENERATED by tools/translate_starpu.py from /repo/src/algorithms/smstarpu/*.hpp - do not edit.",
           "   One record per starpu_insert_task (record type of Gen/OmpTasksGen.v): buffer i = (mode at the insertion, kind of the",
           "   group-view constructor slot the callback feeds it to, view object). *)",
           "From Coq Require Import List String ZArith.", "From Tbfmm Require Import Gen.OmpTasksGen.", "Import ListNotations.", "Local Open Scope string_scope.", "",
           "(* per insertion: codelet, callback, the codelet's own modes, nbuffers, #STARPU_VALUE packed, #unpacked, 0-terminated, #buffers the callback reads *)",
           "Record starpu_meta := { sm_codelet : string; sm_callback : string; sm_modes : list gmode; sm_nbuffers : nat; sm_packed : nat;",
           "                        sm_unpacked : nat; sm_terminated : bool; sm_cb_buffers : nat }.", ""]
    allsites = []
    for tag, path in ALGOS:
        allsites += parse_algo(tag, path, cbs)
    rows, metas = [], []
    for s in allsites:
        deps = "; ".join("(%s, %s, %s)" % (m, k, coq_str(o)) for m, k, o in s["deps"])
        wr = "; ".join("(%s, [%s])" % (coq_str(n), "; ".join(coq_str(a) for a in args)) for n, args in s["wrappers"])
        rows.append("  {| s_exec := %s; s_fn := %s; s_in_lambda := false; s_default_shared := false;\n     s_deps := [%s];\n     s_firstprivate := [%s];\n     s_wrappers := [%s];\n     s_refs := [%s] |}"
                    % (coq_str(s["tag"]), coq_str(s["fn"]), deps, "; ".join(coq_str(x) for x in s["firstprivate"]), wr, "; ".join(coq_str(x) for x in s["refs"])))
        metas.append("  {| sm_codelet := %s; sm_callback := %s; sm_modes := [%s]; sm_nbuffers := %d; sm_packed := %d; sm_unpacked := %d; sm_terminated := %s; sm_cb_buffers := %d |}"
                     % (coq_str(s["codelet"]), coq_str(s["cb"]), "; ".join(s["cmodes"]), max(0, s["nbuffers"]), s["packed"], s["unpacked"],
                        "true" if s["terminated"] else "false", max(0, s["nvars"])))
    out.append("Definition starpu_sites : list site := [")
    out.append(";\n".join(rows))
    out.append("].")
    out.append("")
    out.append("Definition starpu_metas : list starpu_meta := [")
    out.append(";\n".join(metas))
    out.append("].")
    return "\n".join(out) + "\n"


if __name__ == "__main__":
    txt = emit()
    dst = os.path.join(ROOT, "coq", "Gen", "StarpuTasksGen.v")
    old = open(dst).read() if os.path.exists(dst) else None
    if old != txt:
        open(dst, "w").write(txt)
        print("regenerated", dst)
    else:
        print("unchanged", dst)
