(* Extraction of the executable model to OCaml.
   Directives used: exactly those of ExtrOcamlBasic (bool, option, unit, list,
   prod, sumbool, sumor -> OCaml types).  No Extract Constant of our own;
   Z / positive / nat stay Coq inductives. *)
From Coq Require Extraction ExtrOcamlBasic.
From Tbfmm Require Import Base.Prelude Base.Search Index.OverflowDefs Index.HilbertDefs Index.MortonDefs Tree.GroupDefs Index.ListsDefs Tree.BuildDefs Tree.ExportDefs Exec.ExecDefs Exec.CounterDefs Exec.ExecTsmDefs Exec.ExecPeriodicDefs Exec.ImageDefs Mem.LayoutDefs Num.P2PDefs Num.P2PSF Num.UnifDefs Float.LocateDefs.
From Coq Require Import QArith.
Extraction Blacklist List String Int.
Set Extraction KeepSingleton.
Extraction "model.ml"
  Z.add Z.mul Z.sub Z.div_eucl Z.compare Z.of_nat Z.to_nat
  h_unbox h_box h_parent h_child_code h_ilist_cell h_nlist_cell h2m m2h
  box_safe box_guard box unbox box_opt unbox_opt parent child_code child upper_bound
  enc7 enc3 dec7 dec3 image_shift need_shift
  unif_root unif_L unif_dL Qred
  ilist_cell nlist_cell ilist_block nlist_block self_block
  mk_cgroup elem_from_index elem_from_parent lower_bound_opt
  build find_cell find_leaf cg_find cg_find_parent pg_find
  locate1 locate1_ndebug full_remote full_mutual inner sf_ops sf_of_bits bits_of_sf
  count_trace merge_counters reduce execute execute_tsm periodic_run periodic_run_tsm repetition_interval nb_repetitions export_get rebuild
  reset init_header elem_offset offsets total mb_empty rows_of elem_size block_bytes.
