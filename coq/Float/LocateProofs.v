(* Proofs about the executable IEEE model Float/LocateDefs.v (binary64: prec = 53, emax = 1024).
   1. Bridge: Flocq's BinarySingleNaN operations (mode_NE) and Coq's SpecFloat operations compute the same spec_float
      (proofs replicated from Flocq.IEEE754.PrimFloat, without the primitive-float axioms).
   2. locate1_in_grid: whenever the library's assertion 0 <= rel <= width passes, the coordinate lies in [0, 2^(H-1)-1].
   Only the standard-library real-number axioms used by Flocq/Reals appear (see Print Assumptions at the end). *)
From Coq Require Import ZArith Bool Reals Lia Lra Floats.SpecFloat.
From Flocq Require Import Core Mult_error IEEE754.BinarySingleNaN.
From Tbfmm Require Import Float.LocateDefs.
Local Open Scope Z_scope.

Section Bridge.
Variable prec emax : Z.
Context (prec_gt_0_ : Prec_gt_0 prec).
Context (prec_lt_emax_ : Prec_lt_emax prec emax).

Lemma round_nearest_even_equiv s m l :
  round_nearest_even m l = choice_mode mode_NE s m l.
Proof.
case l; [reflexivity|intro c].
case c; [ | reflexivity..].
now simpl; unfold Round.cond_incr; case Z.even.
Qed.

Lemma binary_round_aux_equiv sx mx ex lx :
  SpecFloat.binary_round_aux prec emax sx mx ex lx
  = binary_round_aux prec emax mode_NE sx mx ex lx.
Proof.
unfold SpecFloat.binary_round_aux, binary_round_aux.
set (mrse' := shr_fexp _ _ _ _ _).
case mrse'; intros mrs' e'; simpl.
now rewrite (round_nearest_even_equiv sx).
Qed.

Lemma binary_round_equiv s m e :
  SpecFloat.binary_round prec emax s m e =
  binary_round prec emax mode_NE s m e.
Proof.
unfold SpecFloat.binary_round, binary_round, shl_align_fexp.
set (mez := shl_align _ _ _); case mez as [mz ez].
apply binary_round_aux_equiv.
Qed.

Lemma binary_normalize_equiv m e szero :
  SpecFloat.binary_normalize prec emax m e szero
  = B2SF (binary_normalize prec emax prec_gt_0_ prec_lt_emax_ mode_NE m e szero).
Proof.
case m as [ | p | p].
- now simpl.
- simpl; rewrite B2SF_SF2B; apply binary_round_equiv.
- simpl; rewrite B2SF_SF2B; apply binary_round_equiv.
Qed.

Lemma sf_mult_bridge_gen : forall x y : binary_float prec emax,
  B2SF (Bmult mode_NE x y) = SFmul prec emax (B2SF x) (B2SF y).
Proof.
intros x y. symmetry.
case x as [sx|sx| |sx mx ex Bx];
  case y as [sy|sy| |sy my ey By]; [now trivial.. | ].
simpl.
rewrite B2SF_SF2B.
apply binary_round_aux_equiv.
Qed.

Lemma sf_plus_bridge_gen : forall x y : binary_float prec emax,
  B2SF (Bplus mode_NE x y) = SFadd prec emax (B2SF x) (B2SF y).
Proof.
intros x y. symmetry.
case x as [sx|sx| |sx mx ex Bx];
  case y as [sy|sy| |sy my ey By];
  [now (trivial || simpl; case Bool.eqb).. | ].
apply binary_normalize_equiv.
Qed.

Lemma sf_minus_bridge_gen : forall x y : binary_float prec emax,
  B2SF (Bminus mode_NE x y) = SFsub prec emax (B2SF x) (B2SF y).
Proof.
intros x y. symmetry.
case x as [sx|sx| |sx mx ex Bx];
  case y as [sy|sy| |sy my ey By];
  [now (trivial || simpl; case Bool.eqb).. | ].
simpl.
unfold Zminus.
rewrite <- cond_Zopp_negb.
apply binary_normalize_equiv.
Qed.

Lemma sf_div_bridge_gen : forall x y : binary_float prec emax,
  B2SF (Bdiv mode_NE x y) = SFdiv prec emax (B2SF x) (B2SF y).
Proof.
intros x y. symmetry.
case x as [sx|sx| |sx mx ex Bx];
  case y as [sy|sy| |sy my ey By];
  [now (trivial || simpl; case Bool.eqb).. | ].
simpl.
rewrite B2SF_SF2B.
set (melz := SFdiv_core_binary _ _ _ _ _ _).
case melz as [[mz ez] lz].
apply binary_round_aux_equiv.
Qed.
End Bridge.

Global Instance Hprec64 : Prec_gt_0 53 := eq_refl _.
Global Instance Hmax64 : Prec_lt_emax 53 1024 := eq_refl _.

Lemma sf_div_bridge : forall x y : binary_float 53 1024, B2SF (Bdiv mode_NE x y) = SFdiv 53 1024 (B2SF x) (B2SF y).
Proof. apply sf_div_bridge_gen. Qed.
Lemma sf_plus_bridge : forall x y : binary_float 53 1024, B2SF (Bplus mode_NE x y) = SFadd 53 1024 (B2SF x) (B2SF y).
Proof. apply sf_plus_bridge_gen. Qed.
Lemma sf_minus_bridge : forall x y : binary_float 53 1024, B2SF (Bminus mode_NE x y) = SFsub 53 1024 (B2SF x) (B2SF y).
Proof. apply sf_minus_bridge_gen. Qed.
Lemma sf_mult_bridge : forall x y : binary_float 53 1024, B2SF (Bmult mode_NE x y) = SFmul 53 1024 (B2SF x) (B2SF y).
Proof. apply sf_mult_bridge_gen. Qed.

(* ---------- real-number facts about binary64 ---------- *)
Local Open Scope R_scope.
Notation fexp64 := (FLT_exp (-1074) 53).
Notation F64 := (generic_format radix2 fexp64).
Notation rnd64 := (round radix2 fexp64 ZnearestE).

Local Instance fexp64_valid : Valid_exp fexp64 := FLT_exp_valid (-1074) 53.

Lemma pred_ratio : forall w, F64 w -> bpow radix2 (-1021) <= w ->
  pred radix2 fexp64 w <= w * (1 - bpow radix2 (-53)).
Proof.
intros w Fw Hw.
assert (Hw0 : 0 < w) by (generalize (bpow_gt_0 radix2 (-1021)); lra).
rewrite pred_eq_pos by lra.
unfold pred_pos.
destruct (mag radix2 w) as [e He]; cbn [mag_val].
assert (Hn : w <> 0) by lra.
specialize (He Hn). rewrite Rabs_pos_eq in He by lra.
assert (He1 : (-1021 < e)%Z).
{ apply (lt_bpow radix2). lra. }
case Req_bool_spec; intros Heq.
- unfold FLT_exp. rewrite Z.max_l by lia.
  replace (e - 1 - 53)%Z with (e - 1 + -53)%Z by ring.
  rewrite bpow_plus. rewrite <- Heq. lra.
- rewrite ulp_neq_0 by exact Hn.
  unfold cexp. rewrite (mag_unique radix2 w e) by (rewrite Rabs_pos_eq; lra).
  unfold FLT_exp. rewrite Z.max_l by lia.
  replace (e - 53)%Z with (e + -53)%Z by ring.
  rewrite bpow_plus.
  assert (Hb53 : 0 < bpow radix2 (-53)) by apply bpow_gt_0.
  assert (Hm : w * bpow radix2 (-53) <= bpow radix2 e * bpow radix2 (-53)).
  { apply Rmult_le_compat_r; lra. }
  lra.
Qed.

Lemma F64_bpow : forall k : Z, (-1074 <= k)%Z -> F64 (bpow radix2 k).
Proof.
intros k Hk. apply generic_format_bpow. unfold FLT_exp. lia.
Qed.

Lemma quot_bound : forall r w (k : Z), F64 r -> F64 w -> (0 <= k)%Z ->
  bpow radix2 (-1021) <= w -> 0 <= r < w ->
  0 <= rnd64 (r / (w * bpow radix2 (-k))) <= bpow radix2 k - bpow radix2 (k - 53).
Proof.
intros r w k Fr Fw Hk Hw Hr.
assert (Hw0 : 0 < w) by (generalize (bpow_gt_0 radix2 (-1021)); lra).
assert (Hb : 0 < bpow radix2 k) by apply bpow_gt_0.
assert (Hb53 : 0 < bpow radix2 (-53)) by apply bpow_gt_0.
assert (Hq : r / (w * bpow radix2 (-k)) = r / w * bpow radix2 k).
{ rewrite bpow_opp. field. split; lra. }
rewrite Hq.
assert (Hp : r <= w * (1 - bpow radix2 (-53))).
{ apply Rle_trans with (2 := pred_ratio w Fw Hw).
  apply pred_ge_gt; auto with typeclass_instances; lra. }
assert (Hrw : 0 <= r / w <= 1 - bpow radix2 (-53)).
{ split.
  - apply Rmult_le_pos; [lra|]. left. now apply Rinv_0_lt_compat.
  - apply Rmult_le_reg_r with w; [lra|]. unfold Rdiv. rewrite Rmult_assoc, Rinv_l by lra. lra. }
assert (Hy : bpow radix2 k - bpow radix2 (k - 53) = pred radix2 fexp64 (bpow radix2 k)).
{ rewrite pred_bpow. unfold FLT_exp. rewrite Z.max_l by lia. reflexivity. }
split.
- apply round_ge_generic; auto with typeclass_instances.
  apply generic_format_0. apply Rmult_le_pos; lra.
- apply round_le_generic; auto with typeclass_instances.
  + rewrite Hy. apply generic_format_pred; auto with typeclass_instances.
    apply F64_bpow. lia.
  + replace (k - 53)%Z with (-53 + k)%Z by ring. rewrite bpow_plus.
    assert (Hm : r / w * bpow radix2 k <= (1 - bpow radix2 (-53)) * bpow radix2 k).
    { apply Rmult_le_compat_r; lra. }
    lra.
Qed.

(* ---------- binary64 floats ---------- *)
Notation b64 := (binary_float 53 1024).

Lemma B2R_F64 : forall x : b64, F64 (B2R x).
Proof. intros x. apply (generic_format_B2R 53 1024 x). Qed.

Lemma p2_bounded : forall k : Z, (-1022 <= k <= 1023)%Z ->
  SpecFloat.bounded 53 1024 4503599627370496 (k - 52) = true.
Proof.
intros k Hk. unfold SpecFloat.bounded, canonical_mantissa.
apply andb_true_intro; split.
- apply Zeq_bool_true.
  change (Z.pos (digits2_pos 4503599627370496)) with 53%Z.
  unfold SpecFloat.fexp, SpecFloat.emin. lia.
- apply Zle_bool_true. lia.
Qed.

Definition p2 (k : Z) (Hk : (-1022 <= k <= 1023)%Z) : b64 :=
  B754_finite false 4503599627370496 (k - 52) (p2_bounded k Hk).

Lemma p2_SF : forall k Hk, B2SF (p2 k Hk) = sf_of_Z_pow2 53 k.
Proof. reflexivity. Qed.

Lemma p2_R : forall k Hk, B2R (p2 k Hk) = bpow radix2 k.
Proof.
intros k Hk. unfold p2, B2R, F2R; cbn [Fnum Fexp cond_Zopp].
change (IZR (Z.pos 4503599627370496)) with (bpow radix2 52).
rewrite <- bpow_plus. f_equal. ring.
Qed.

Lemma bpow_lt_emax : forall k : Z, (k < 1024)%Z -> Rabs (bpow radix2 k) < bpow radix2 1024.
Proof.
intros k Hk. rewrite Rabs_pos_eq by apply bpow_ge_0. now apply bpow_lt.
Qed.

(* 1 / 2^k is exact *)
Lemma inv_p2 : forall k Hk, (0 <= k <= 1021)%Z ->
  B2R (Bdiv mode_NE (p2 0 ltac:(lia)) (p2 k Hk)) = bpow radix2 (- k) /\
  is_finite (Bdiv mode_NE (p2 0 ltac:(lia)) (p2 k Hk)) = true.
Proof.
intros k Hk Hk'.
generalize (Bdiv_correct 53 1024 _ _ mode_NE (p2 0 ltac:(lia)) (p2 k Hk)).
rewrite !p2_R.
assert (Hq : bpow radix2 0 / bpow radix2 k = bpow radix2 (-k)).
{ rewrite bpow_opp. simpl. unfold Rdiv. ring. }
rewrite Hq.
change (round radix2 (SpecFloat.fexp 53 1024) (round_mode mode_NE)) with rnd64.
rewrite round_generic; auto with typeclass_instances.
2: apply F64_bpow; lia.
rewrite Rlt_bool_true by (apply bpow_lt_emax; lia).
intros HH. destruct HH as [H1 [H2 _]].
- apply Rgt_not_eq, bpow_gt_0.
- split; [exact H1 | exact H2].
Qed.

Lemma leaf_width_B : forall (H : Z) (width : b64), (1 <= H <= 60)%Z ->
  is_finite width = true ->
  bpow radix2 (-900) <= B2R width <= bpow radix2 900 ->
  exists lw : b64, B2SF lw = leaf_width 53 1024 H (B2SF width) /\
     B2R lw = B2R width * bpow radix2 (- (H - 1)) /\ is_finite lw = true.
Proof.
intros H width HH Fw Hw.
assert (Hk : (-1022 <= H - 1 <= 1023)%Z) by lia.
destruct (inv_p2 (H - 1) Hk ltac:(lia)) as [I1 I2].
set (inv := Bdiv mode_NE (p2 0 ltac:(lia)) (p2 (H - 1) Hk)) in *.
exists (Bmult mode_NE width inv).
split.
{ unfold leaf_width, sf_one. rewrite <- (p2_SF 0 ltac:(lia)), <- (p2_SF (H - 1) Hk).
  rewrite <- sf_div_bridge, <- sf_mult_bridge. reflexivity. }
generalize (Bmult_correct 53 1024 _ _ mode_NE width inv).
rewrite I1, I2, Fw.
change (round radix2 (SpecFloat.fexp 53 1024) (round_mode mode_NE)) with rnd64.
assert (Hw0 : 0 < B2R width) by (generalize (bpow_gt_0 radix2 (-900)); lra).
assert (Hm : (-900 < mag radix2 (B2R width))%Z).
{ apply mag_gt_bpow. rewrite Rabs_pos_eq; lra. }
rewrite round_generic; auto with typeclass_instances.
2:{ apply mult_bpow_exact_FLT. apply B2R_F64. lia. }
rewrite Rlt_bool_true.
- intros [H1 [H2 _]]. split; assumption.
- rewrite Rabs_pos_eq.
  2:{ apply Rmult_le_pos; [lra | apply bpow_ge_0]. }
  apply Rle_lt_trans with (bpow radix2 900 * bpow radix2 (- (H - 1))).
  + apply Rmult_le_compat_r; [apply bpow_ge_0 | lra].
  + rewrite <- bpow_plus. apply bpow_lt. lia.
Qed.

Theorem leaf_width_exact : forall (H : Z) (width : b64), (1 <= H <= 60)%Z ->
  is_finite width = true ->
  bpow radix2 (-900) <= B2R width <= bpow radix2 900 ->
  SF2R radix2 (leaf_width 53 1024 H (B2SF width)) = B2R width * bpow radix2 (- (H - 1)).
Proof.
intros H width HH Fw Hw.
destruct (leaf_width_B H width HH Fw Hw) as [lw [L1 [L2 _]]].
rewrite <- L1, SF2R_B2SF. exact L2.
Qed.

(* ---------- truncation ---------- *)
Lemma Some_inj_Z : forall a b : Z, Some a = Some b -> a = b.
Proof. intros a b E. congruence. Qed.

Lemma sf_trunc_bound : forall (q : b64) (k z : Z), (0 <= k)%Z ->
  0 <= B2R q < bpow radix2 k ->
  sf_trunc (B2SF q) = Some z -> (0 <= z <= 2 ^ k - 1)%Z.
Proof.
intros q k z Hk Hq.
assert (Hp : (0 < 2 ^ k)%Z) by (apply Z.pow_pos_nonneg; lia).
destruct q as [s|s| |s m e Hb]; unfold B2SF, sf_trunc; try discriminate.
{ intros Hz. apply Some_inj_Z in Hz. lia. }
cbn [B2R] in Hq.
destruct s.
{ exfalso. destruct Hq as [Hq _]. revert Hq. apply Rlt_not_le.
  apply F2R_lt_0. simpl. lia. }
cbn [cond_Zopp] in Hq. unfold F2R in Hq; cbn [Fnum Fexp] in Hq.
destruct Hq as [_ Hq].
rewrite <- (IZR_Zpower radix2 k Hk) in Hq. change (radix2 ^ k)%Z with (2 ^ k)%Z in Hq.
destruct (Z.leb_spec 0 e) as [He|He]; intros Hz; apply Some_inj_Z in Hz; subst z.
- assert (0 <= Z.pos m * 2 ^ e)%Z by (apply Z.mul_nonneg_nonneg; [lia | apply Z.pow_nonneg; lia]).
  rewrite <- (IZR_Zpower radix2 e He), <- mult_IZR in Hq. change (radix2 ^ e)%Z with (2 ^ e)%Z in Hq.
  apply lt_IZR in Hq. lia.
- assert (Hpe : (0 < 2 ^ (- e))%Z) by (apply Z.pow_pos_nonneg; lia).
  assert (Hd : (Z.pos m / 2 ^ (- e) < 2 ^ k)%Z).
  { apply Z.div_lt_upper_bound; [exact Hpe|].
    apply lt_IZR. rewrite mult_IZR.
    assert (He' : (0 <= - e)%Z) by lia.
    change (2 ^ (- e))%Z with (radix2 ^ (- e))%Z.
    rewrite (IZR_Zpower radix2 (- e) He').
    apply Rmult_lt_reg_r with (bpow radix2 e); [apply bpow_gt_0|].
    rewrite (Rmult_comm (bpow radix2 (- e))), Rmult_assoc, <- bpow_plus.
    replace (- e + e)%Z with 0%Z by ring. simpl (bpow radix2 0). lra. }
  assert (0 <= Z.pos m / 2 ^ (- e))%Z by (apply Z.div_pos; lia).
  lia.
Qed.

(* ---------- the model on binary_float ---------- *)
Definition mhalf64 : b64 := @B754_finite 53 1024 true 4503599627370496 (-53) eq_refl.

Lemma box_corner_B : forall center width : b64,
  exists cb : b64, B2SF cb = box_corner 53 1024 (B2SF center) (B2SF width).
Proof.
intros center width. unfold box_corner.
replace (SFdiv 53 1024 (SFopp (sf_one 53)) (SFadd 53 1024 (sf_one 53) (sf_one 53)))
  with (B2SF mhalf64) by (vm_compute; reflexivity).
rewrite <- sf_mult_bridge, <- sf_plus_bridge. eexists; reflexivity.
Qed.

Definition locate1_B (H : Z) (cb lw width pos : b64) : loc_result :=
  let r := Bminus mode_NE pos cb in
  if negb ((Bleb (B754_zero false) r && Bleb r width)%bool) then LocAssert
  else if Beqb r width then LocCoord (2 ^ (H - 1) - 1)
  else match sf_trunc (B2SF (Bdiv mode_NE r lw)) with
       | Some k => LocCoord k
       | None => LocUndefined
       end.

Lemma locate1_as_B : forall H (center width pos cb lw : b64),
  B2SF cb = box_corner 53 1024 (B2SF center) (B2SF width) ->
  B2SF lw = leaf_width 53 1024 H (B2SF width) ->
  locate1 53 1024 H (B2SF center) (B2SF width) (B2SF pos) = locate1_B H cb lw width pos.
Proof.
intros H center width pos cb lw Hc Hl.
unfold locate1, locate1_B. rewrite <- Hc, <- Hl.
rewrite <- sf_minus_bridge, <- sf_div_bridge. reflexivity.
Qed.

Lemma Rle_bool_le : forall x y : R, Rle_bool x y = true -> x <= y.
Proof. intros x y. case Rle_bool_spec; [tauto | discriminate]. Qed.

Lemma assert_finite : forall r width : b64, is_finite width = true ->
  (Bleb (B754_zero false) r && Bleb r width)%bool = true -> is_finite r = true.
Proof.
intros r width Fw.
destruct r as [s|s| |s m e Hb]; try reflexivity.
- destruct s.
  + discriminate.
  + destruct width as [s'|s'| |s' m' e' Hb']; try discriminate; destruct s'; discriminate.
- discriminate.
Qed.

Theorem locate1_in_grid : forall H (center width pos : b64),
  (1 <= H <= 60)%Z ->
  is_finite center = true -> is_finite pos = true -> is_finite width = true ->
  bpow radix2 (-900) <= B2R width <= bpow radix2 900 ->
  forall k, locate1 53 1024 H (B2SF center) (B2SF width) (B2SF pos) = LocCoord k ->
  (0 <= k <= 2 ^ (H - 1) - 1)%Z.
Proof.
intros H center width pos HH Fc Fp Fw Hw k.
destruct (box_corner_B center width) as [cb Hcb].
destruct (leaf_width_B H width HH Fw Hw) as [lw [L1 [L2 L3]]].
rewrite (locate1_as_B H center width pos cb lw Hcb L1).
unfold locate1_B.
set (r := Bminus mode_NE pos cb).
assert (Hp : (0 < 2 ^ (H - 1))%Z) by (apply Z.pow_pos_nonneg; lia).
destruct ((Bleb (B754_zero false) r && Bleb r width)%bool) eqn:Ha; cbn [negb]; [|discriminate].
assert (Fr : is_finite r = true) by (apply (assert_finite r width Fw Ha)).
apply andb_prop in Ha. destruct Ha as [Ha1 Ha2].
rewrite Bleb_correct in Ha1, Ha2 by (assumption || reflexivity).
apply Rle_bool_le in Ha1. apply Rle_bool_le in Ha2.
cbn [B2R] in Ha1.
rewrite Beqb_correct by assumption.
case Req_bool_spec; intros Hne.
{ intros [= <-]. lia. }
assert (Hw0 : 0 < B2R width) by (generalize (bpow_gt_0 radix2 (-900)); lra).
assert (Hw' : bpow radix2 (-1021) <= B2R width).
{ apply Rle_trans with (2 := proj1 Hw). apply bpow_le. lia. }
destruct (quot_bound (B2R r) (B2R width) (H - 1) (B2R_F64 r) (B2R_F64 width) ltac:(lia) Hw' ltac:(lra))
  as [Q1 Q2].
rewrite <- L2 in Q1, Q2.
generalize (Bdiv_correct 53 1024 _ _ mode_NE r lw).
change (round radix2 (SpecFloat.fexp 53 1024) (round_mode mode_NE)) with rnd64.
assert (Hb53 : 0 < bpow radix2 (H - 1 - 53)) by apply bpow_gt_0.
rewrite Rlt_bool_true.
2:{ rewrite Rabs_pos_eq by exact Q1.
    apply Rle_lt_trans with (1 := Q2).
    apply Rlt_trans with (bpow radix2 (H - 1)); [lra | apply bpow_lt; lia]. }
intros HD. destruct HD as [D1 _].
{ rewrite L2. apply Rgt_not_eq. apply Rmult_lt_0_compat; [lra | apply bpow_gt_0]. }
destruct (sf_trunc (B2SF (Bdiv mode_NE r lw))) as [z|] eqn:Hz; [|discriminate].
intros [= <-].
apply (sf_trunc_bound (Bdiv mode_NE r lw) (H - 1) z ltac:(lia)); [|exact Hz].
rewrite D1. lra.
Qed.

Print Assumptions sf_div_bridge.
Print Assumptions sf_plus_bridge.
Print Assumptions sf_minus_bridge.
Print Assumptions sf_mult_bridge.
Print Assumptions leaf_width_exact.
Print Assumptions locate1_in_grid.

(* ====================================================================================================== *)
(* Generalisation over (prec, emax), and the binary32 instance.                                            *)
(* Side conditions: Prec_gt_0 prec, Prec_lt_emax prec emax, 3 <= emax.                                     *)
(* ====================================================================================================== *)
Section Generic.
Variable prec emax : Z.
Context (prec_gt_0_ : Prec_gt_0 prec).
Context (prec_lt_emax_ : Prec_lt_emax prec emax).
Hypothesis Hemax3 : (3 <= emax)%Z.

Local Notation eming := (3 - emax - prec)%Z.
Local Notation fexpg := (FLT_exp (3 - emax - prec) prec).
Local Notation Fg := (generic_format radix2 (FLT_exp (3 - emax - prec) prec)).
Local Notation rndg := (round radix2 (FLT_exp (3 - emax - prec) prec) ZnearestE).
Local Notation bf := (binary_float prec emax).

Lemma prec_pos_g : (0 < prec)%Z.
Proof. exact prec_gt_0_. Qed.

Lemma pred_ratio_g : forall w, Fg w -> bpow radix2 (eming + prec) <= w ->
  pred radix2 fexpg w <= w * (1 - bpow radix2 (- prec)).
Proof.
intros w Fw Hw.
assert (Hw0 : 0 < w) by (generalize (bpow_gt_0 radix2 (eming + prec)); lra).
rewrite pred_eq_pos by lra.
unfold pred_pos.
destruct (mag radix2 w) as [e He]; cbn [mag_val].
assert (Hn : w <> 0) by lra.
specialize (He Hn). rewrite Rabs_pos_eq in He by lra.
assert (He1 : (eming + prec < e)%Z).
{ apply (lt_bpow radix2). lra. }
case Req_bool_spec; intros Heq.
- unfold FLT_exp. rewrite Z.max_l by lia.
  replace (e - 1 - prec)%Z with (e - 1 + - prec)%Z by ring.
  rewrite bpow_plus. rewrite <- Heq. lra.
- rewrite ulp_neq_0 by exact Hn.
  unfold cexp. rewrite (mag_unique radix2 w e) by (rewrite Rabs_pos_eq; lra).
  unfold FLT_exp. rewrite Z.max_l by lia.
  replace (e - prec)%Z with (e + - prec)%Z by ring.
  rewrite bpow_plus.
  assert (Hbp : 0 < bpow radix2 (- prec)) by apply bpow_gt_0.
  assert (Hm : w * bpow radix2 (- prec) <= bpow radix2 e * bpow radix2 (- prec)).
  { apply Rmult_le_compat_r; lra. }
  lra.
Qed.

Lemma F_bpow_g : forall k : Z, (eming <= k)%Z -> Fg (bpow radix2 k).
Proof.
intros k Hk. apply generic_format_bpow. unfold FLT_exp. generalize prec_pos_g. lia.
Qed.

Lemma quot_bound_g : forall r w (k : Z), Fg r -> Fg w -> (0 <= k)%Z ->
  bpow radix2 (eming + prec) <= w -> 0 <= r < w ->
  0 <= rndg (r / (w * bpow radix2 (-k))) <= bpow radix2 k - bpow radix2 (k - prec).
Proof.
intros r w k Fr Fw Hk Hw Hr.
assert (Hw0 : 0 < w) by (generalize (bpow_gt_0 radix2 (eming + prec)); lra).
assert (Hb : 0 < bpow radix2 k) by apply bpow_gt_0.
assert (Hbp : 0 < bpow radix2 (- prec)) by apply bpow_gt_0.
assert (Hq : r / (w * bpow radix2 (-k)) = r / w * bpow radix2 k).
{ rewrite bpow_opp. field. split; lra. }
rewrite Hq.
assert (Hp : r <= w * (1 - bpow radix2 (- prec))).
{ apply Rle_trans with (2 := pred_ratio_g w Fw Hw).
  apply pred_ge_gt; auto with typeclass_instances; lra. }
assert (Hrw : 0 <= r / w <= 1 - bpow radix2 (- prec)).
{ split.
  - apply Rmult_le_pos; [lra|]. left. now apply Rinv_0_lt_compat.
  - apply Rmult_le_reg_r with w; [lra|]. unfold Rdiv. rewrite Rmult_assoc, Rinv_l by lra. lra. }
assert (Hy : bpow radix2 k - bpow radix2 (k - prec) = pred radix2 fexpg (bpow radix2 k)).
{ rewrite pred_bpow. unfold FLT_exp. rewrite Z.max_l by lia. reflexivity. }
split.
- apply round_ge_generic; auto with typeclass_instances.
  apply generic_format_0. apply Rmult_le_pos; lra.
- apply round_le_generic; auto with typeclass_instances.
  + rewrite Hy. apply generic_format_pred; auto with typeclass_instances.
    apply F_bpow_g. generalize prec_pos_g. lia.
  + replace (k - prec)%Z with (- prec + k)%Z by ring. rewrite bpow_plus.
    assert (Hm : r / w * bpow radix2 k <= (1 - bpow radix2 (- prec)) * bpow radix2 k).
    { apply Rmult_le_compat_r; lra. }
    lra.
Qed.

Lemma B2R_Fg : forall x : bf, Fg (B2R x).
Proof. intros x. apply (generic_format_B2R prec emax x). Qed.

Lemma pow2_prec_pos : (0 < 2 ^ (prec - 1))%Z.
Proof. apply Z.pow_pos_nonneg; [lia | generalize prec_pos_g; lia]. Qed.

Lemma p2_bounded_g : forall k : Z, (eming + prec - 1 <= k <= emax - 1)%Z ->
  SpecFloat.bounded prec emax (Z.to_pos (2 ^ (prec - 1))) (k - (prec - 1)) = true.
Proof.
intros k Hk. unfold SpecFloat.bounded, canonical_mantissa.
assert (Hd : Z.pos (SpecFloat.digits2_pos (Z.to_pos (2 ^ (prec - 1)))) = prec).
{ rewrite Zpos_digits2_pos. rewrite Z2Pos.id by exact pow2_prec_pos.
  change 2%Z with (radix_val radix2) at 1.
  rewrite Zdigits_Zpower by (generalize prec_pos_g; lia). ring. }
apply andb_true_intro; split.
- apply Zeq_bool_true. rewrite Hd.
  unfold SpecFloat.fexp, SpecFloat.emin. lia.
- apply Zle_bool_true. lia.
Qed.

Definition p2g (k : Z) (Hk : (eming + prec - 1 <= k <= emax - 1)%Z) : bf :=
  B754_finite false (Z.to_pos (2 ^ (prec - 1))) (k - (prec - 1)) (p2_bounded_g k Hk).

Lemma p2g_SF : forall k Hk, B2SF (p2g k Hk) = sf_of_Z_pow2 prec k.
Proof. reflexivity. Qed.

Lemma p2g_R : forall k Hk, B2R (p2g k Hk) = bpow radix2 k.
Proof.
intros k Hk. unfold p2g, B2R, F2R; cbn [Fnum Fexp cond_Zopp].
rewrite Z2Pos.id by exact pow2_prec_pos.
change 2%Z with (radix_val radix2).
rewrite IZR_Zpower by (generalize prec_pos_g; lia).
rewrite <- bpow_plus. f_equal. ring.
Qed.

Lemma p2g_finite : forall k Hk, is_finite (p2g k Hk) = true.
Proof. reflexivity. Qed.

Lemma bpow_lt_emax_g : forall k : Z, (k < emax)%Z -> Rabs (bpow radix2 k) < bpow radix2 emax.
Proof.
intros k Hk. rewrite Rabs_pos_eq by apply bpow_ge_0. now apply bpow_lt.
Qed.

Lemma zero_range_g : (eming + prec - 1 <= 0 <= emax - 1)%Z.
Proof. lia. Qed.

Lemma inv_p2g : forall k Hk, (0 <= k <= - eming)%Z ->
  B2R (Bdiv mode_NE (p2g 0 zero_range_g) (p2g k Hk)) = bpow radix2 (- k) /\
  is_finite (Bdiv mode_NE (p2g 0 zero_range_g) (p2g k Hk)) = true.
Proof.
intros k Hk Hk'.
generalize (Bdiv_correct prec emax _ _ mode_NE (p2g 0 zero_range_g) (p2g k Hk)).
rewrite !p2g_R.
assert (Hq : bpow radix2 0 / bpow radix2 k = bpow radix2 (-k)).
{ rewrite bpow_opp. simpl. unfold Rdiv. ring. }
rewrite Hq.
change (round radix2 (SpecFloat.fexp prec emax) (round_mode mode_NE)) with rndg.
rewrite round_generic; auto with typeclass_instances.
2: apply F_bpow_g; lia.
rewrite Rlt_bool_true by (apply bpow_lt_emax_g; lia).
intros HH. destruct HH as [H1 [H2 _]].
- apply Rgt_not_eq, bpow_gt_0.
- split; [exact H1 | exact H2].
Qed.

Lemma leaf_width_Bg : forall (H wlo whi : Z) (width : bf),
  (1 <= H < emax)%Z -> (eming + prec + (H - 1) <= wlo)%Z -> (whi < emax)%Z ->
  is_finite width = true ->
  bpow radix2 wlo <= B2R width <= bpow radix2 whi ->
  exists lw : bf, B2SF lw = leaf_width prec emax H (B2SF width) /\
     B2R lw = B2R width * bpow radix2 (- (H - 1)) /\ is_finite lw = true.
Proof.
intros H wlo whi width HH Hlo Hhi Fw Hw.
assert (Hpp := prec_pos_g).
assert (Hk : (eming + prec - 1 <= H - 1 <= emax - 1)%Z) by lia.
destruct (inv_p2g (H - 1) Hk ltac:(lia)) as [I1 I2].
set (inv := Bdiv mode_NE (p2g 0 zero_range_g) (p2g (H - 1) Hk)) in *.
exists (Bmult mode_NE width inv).
split.
{ unfold leaf_width, sf_one. rewrite <- (p2g_SF 0 zero_range_g), <- (p2g_SF (H - 1) Hk).
  rewrite <- (sf_div_bridge_gen prec emax _ _), <- (sf_mult_bridge_gen prec emax _ _). reflexivity. }
generalize (Bmult_correct prec emax _ _ mode_NE width inv).
rewrite I1, I2, Fw.
change (round radix2 (SpecFloat.fexp prec emax) (round_mode mode_NE)) with rndg.
assert (Hw0 : 0 < B2R width) by (generalize (bpow_gt_0 radix2 wlo); lra).
assert (Hm : (wlo < mag radix2 (B2R width))%Z).
{ apply mag_gt_bpow. rewrite Rabs_pos_eq; lra. }
rewrite round_generic; auto with typeclass_instances.
2:{ apply mult_bpow_exact_FLT. apply B2R_Fg. lia. }
rewrite Rlt_bool_true.
- intros [H1 [H2 _]]. split; assumption.
- rewrite Rabs_pos_eq.
  2:{ apply Rmult_le_pos; [lra | apply bpow_ge_0]. }
  apply Rle_lt_trans with (bpow radix2 whi * bpow radix2 (- (H - 1))).
  + apply Rmult_le_compat_r; [apply bpow_ge_0 | lra].
  + rewrite <- bpow_plus. apply bpow_lt. lia.
Qed.

Theorem leaf_width_exact_gen : forall (H wlo whi : Z) (width : bf),
  (1 <= H < emax)%Z -> (eming + prec + (H - 1) <= wlo)%Z -> (whi < emax)%Z ->
  is_finite width = true ->
  bpow radix2 wlo <= B2R width <= bpow radix2 whi ->
  SF2R radix2 (leaf_width prec emax H (B2SF width)) = B2R width * bpow radix2 (- (H - 1)).
Proof.
intros H wlo whi width HH Hlo Hhi Fw Hw.
destruct (leaf_width_Bg H wlo whi width HH Hlo Hhi Fw Hw) as [lw [L1 [L2 _]]].
rewrite <- L1, SF2R_B2SF. exact L2.
Qed.

Lemma sf_trunc_bound_g : forall (q : bf) (k z : Z), (0 <= k)%Z ->
  0 <= B2R q < bpow radix2 k ->
  sf_trunc (B2SF q) = Some z -> (0 <= z <= 2 ^ k - 1)%Z.
Proof.
intros q k z Hk Hq.
assert (Hp : (0 < 2 ^ k)%Z) by (apply Z.pow_pos_nonneg; lia).
destruct q as [s|s| |s m e Hb]; unfold B2SF, sf_trunc; try discriminate.
{ intros Hz. apply Some_inj_Z in Hz. lia. }
cbn [B2R] in Hq.
destruct s.
{ exfalso. destruct Hq as [Hq _]. revert Hq. apply Rlt_not_le.
  apply F2R_lt_0. simpl. lia. }
cbn [cond_Zopp] in Hq. unfold F2R in Hq; cbn [Fnum Fexp] in Hq.
destruct Hq as [_ Hq].
rewrite <- (IZR_Zpower radix2 k Hk) in Hq. change (radix2 ^ k)%Z with (2 ^ k)%Z in Hq.
destruct (Z.leb_spec 0 e) as [He|He]; intros Hz; apply Some_inj_Z in Hz; subst z.
- assert (0 <= Z.pos m * 2 ^ e)%Z by (apply Z.mul_nonneg_nonneg; [lia | apply Z.pow_nonneg; lia]).
  rewrite <- (IZR_Zpower radix2 e He), <- mult_IZR in Hq. change (radix2 ^ e)%Z with (2 ^ e)%Z in Hq.
  apply lt_IZR in Hq. lia.
- assert (Hpe : (0 < 2 ^ (- e))%Z) by (apply Z.pow_pos_nonneg; lia).
  assert (Hd : (Z.pos m / 2 ^ (- e) < 2 ^ k)%Z).
  { apply Z.div_lt_upper_bound; [exact Hpe|].
    apply lt_IZR. rewrite mult_IZR.
    assert (He' : (0 <= - e)%Z) by lia.
    change (2 ^ (- e))%Z with (radix2 ^ (- e))%Z.
    rewrite (IZR_Zpower radix2 (- e) He').
    apply Rmult_lt_reg_r with (bpow radix2 e); [apply bpow_gt_0|].
    rewrite (Rmult_comm (bpow radix2 (- e))), Rmult_assoc, <- bpow_plus.
    replace (- e + e)%Z with 0%Z by ring. simpl (bpow radix2 0). lra. }
  assert (0 <= Z.pos m / 2 ^ (- e))%Z by (apply Z.div_pos; lia).
  lia.
Qed.

Lemma B2SF_Bopp_g : forall x : bf, B2SF (Bopp x) = SFopp (B2SF x).
Proof. intros [s|s| |s m e Hb]; reflexivity. Qed.

Lemma box_corner_Bg : forall center width : bf,
  exists cb : bf, B2SF cb = box_corner prec emax (B2SF center) (B2SF width).
Proof.
intros center width. unfold box_corner, sf_one.
rewrite <- (p2g_SF 0 zero_range_g).
rewrite <- B2SF_Bopp_g.
rewrite <- (sf_plus_bridge_gen prec emax _ _ (p2g 0 zero_range_g)).
rewrite <- (sf_div_bridge_gen prec emax _ _).
rewrite <- (sf_mult_bridge_gen prec emax _ _).
rewrite <- (sf_plus_bridge_gen prec emax _ _).
eexists; reflexivity.
Qed.

Definition locate1_Bg (H : Z) (cb lw width pos : bf) : loc_result :=
  let r := Bminus mode_NE pos cb in
  if negb (Bleb (B754_zero false) r && Bleb r width)%bool then LocAssert
  else if Beqb r width then LocCoord (2 ^ (H - 1) - 1)
  else match sf_trunc (B2SF (Bdiv mode_NE r lw)) with
       | Some k => LocCoord k
       | None => LocUndefined
       end.

Lemma locate1_as_Bg : forall H (center width pos cb lw : bf),
  B2SF cb = box_corner prec emax (B2SF center) (B2SF width) ->
  B2SF lw = leaf_width prec emax H (B2SF width) ->
  locate1 prec emax H (B2SF center) (B2SF width) (B2SF pos) = locate1_Bg H cb lw width pos.
Proof.
intros H center width pos cb lw Hc Hl.
unfold locate1, locate1_Bg. rewrite <- Hc, <- Hl.
rewrite <- (sf_minus_bridge_gen prec emax _ _), <- (sf_div_bridge_gen prec emax _ _). reflexivity.
Qed.

Lemma assert_finite_g : forall r width : bf, is_finite width = true ->
  (Bleb (B754_zero false) r && Bleb r width)%bool = true -> is_finite r = true.
Proof.
intros r width Fw.
destruct r as [s|s| |s m e Hb]; try reflexivity.
- destruct s.
  + discriminate.
  + destruct width as [s'|s'| |s' m' e' Hb']; try discriminate; destruct s'; discriminate.
- discriminate.
Qed.

Theorem locate1_in_grid_gen : forall (H wlo whi : Z) (center width pos : bf),
  (1 <= H < emax)%Z -> (eming + prec + (H - 1) <= wlo)%Z -> (whi < emax)%Z ->
  is_finite center = true -> is_finite pos = true -> is_finite width = true ->
  bpow radix2 wlo <= B2R width <= bpow radix2 whi ->
  forall k, locate1 prec emax H (B2SF center) (B2SF width) (B2SF pos) = LocCoord k ->
  (0 <= k <= 2 ^ (H - 1) - 1)%Z.
Proof.
intros H wlo whi center width pos HH Hlo Hhi Fc Fp Fw Hw k.
assert (Hpp := prec_pos_g).
destruct (box_corner_Bg center width) as [cb Hcb].
destruct (leaf_width_Bg H wlo whi width HH Hlo Hhi Fw Hw) as [lw [L1 [L2 L3]]].
rewrite (locate1_as_Bg H center width pos cb lw Hcb L1).
unfold locate1_Bg.
set (r := Bminus mode_NE pos cb).
assert (Hp : (0 < 2 ^ (H - 1))%Z) by (apply Z.pow_pos_nonneg; lia).
destruct (Bleb (B754_zero false) r && Bleb r width)%bool eqn:Ha; cbn [negb]; [|discriminate].
assert (Fr : is_finite r = true) by (apply (assert_finite_g r width Fw Ha)).
apply andb_prop in Ha. destruct Ha as [Ha1 Ha2].
rewrite Bleb_correct in Ha1, Ha2 by (assumption || reflexivity).
apply Rle_bool_le in Ha1. apply Rle_bool_le in Ha2.
cbn [B2R] in Ha1.
rewrite Beqb_correct by assumption.
case Req_bool_spec; intros Hne.
{ intros Hz. assert (k = 2 ^ (H - 1) - 1)%Z by congruence. lia. }
assert (Hw0 : 0 < B2R width) by (generalize (bpow_gt_0 radix2 wlo); lra).
assert (Hw' : bpow radix2 (eming + prec) <= B2R width).
{ apply Rle_trans with (2 := proj1 Hw). apply bpow_le. lia. }
destruct (quot_bound_g (B2R r) (B2R width) (H - 1) (B2R_Fg r) (B2R_Fg width) ltac:(lia) Hw' ltac:(lra))
  as [Q1 Q2].
rewrite <- L2 in Q1, Q2.
generalize (Bdiv_correct prec emax _ _ mode_NE r lw).
change (round radix2 (SpecFloat.fexp prec emax) (round_mode mode_NE)) with rndg.
assert (Hb53 : 0 < bpow radix2 (H - 1 - prec)) by apply bpow_gt_0.
rewrite Rlt_bool_true.
2:{ rewrite Rabs_pos_eq by exact Q1.
    apply Rle_lt_trans with (1 := Q2).
    apply Rlt_trans with (bpow radix2 (H - 1)); [lra | apply bpow_lt; lia]. }
intros HD. destruct HD as [D1 _].
{ rewrite L2. apply Rgt_not_eq. apply Rmult_lt_0_compat; [lra | apply bpow_gt_0]. }
destruct (sf_trunc (B2SF (Bdiv mode_NE r lw))) as [z|] eqn:Hz; [|discriminate].
intros Hk. assert (k = z) by congruence. subst z.
apply (sf_trunc_bound_g (Bdiv mode_NE r lw) (H - 1) k ltac:(lia)); [|exact Hz].
rewrite D1. lra.
Qed.

End Generic.

(* ---------- binary32 instance (prec = 24, emax = 128) ---------- *)
Global Instance Hprec32 : Prec_gt_0 24 := eq_refl _.
Global Instance Hmax32 : Prec_lt_emax 24 128 := eq_refl _.

Lemma sf_div_bridge32 : forall x y : binary_float 24 128,
  B2SF (Bdiv mode_NE x y) = SFdiv 24 128 (B2SF x) (B2SF y).
Proof. apply sf_div_bridge_gen. Qed.
Lemma sf_minus_bridge32 : forall x y : binary_float 24 128,
  B2SF (Bminus mode_NE x y) = SFsub 24 128 (B2SF x) (B2SF y).
Proof. apply sf_minus_bridge_gen. Qed.
Lemma sf_plus_bridge32 : forall x y : binary_float 24 128,
  B2SF (Bplus mode_NE x y) = SFadd 24 128 (B2SF x) (B2SF y).
Proof. apply sf_plus_bridge_gen. Qed.
Lemma sf_mult_bridge32 : forall x y : binary_float 24 128,
  B2SF (Bmult mode_NE x y) = SFmul 24 128 (B2SF x) (B2SF y).
Proof. apply sf_mult_bridge_gen. Qed.

Theorem leaf_width_exact32 : forall (H : Z) (width : binary_float 24 128), (1 <= H <= 30)%Z ->
  is_finite width = true ->
  bpow radix2 (-90) <= B2R width <= bpow radix2 90 ->
  SF2R radix2 (leaf_width 24 128 H (B2SF width)) = B2R width * bpow radix2 (- (H - 1)).
Proof.
intros H width HH Fw Hw.
apply (leaf_width_exact_gen 24 128 Hprec32 Hmax32 ltac:(lia) H (-90) 90 width); (lia || assumption).
Qed.

Theorem locate1_in_grid32 : forall H (center width pos : binary_float 24 128),
  (1 <= H <= 30)%Z ->
  is_finite center = true -> is_finite pos = true -> is_finite width = true ->
  (bpow radix2 (-90) <= B2R width <= bpow radix2 90)%R ->
  forall k, locate1 24 128 H (B2SF center) (B2SF width) (B2SF pos) = LocCoord k ->
  (0 <= k <= 2 ^ (H - 1) - 1)%Z.
Proof.
intros H center width pos HH Fc Fp Fw Hw.
apply (locate1_in_grid_gen 24 128 Hprec32 Hmax32 ltac:(lia) H (-90) 90 center width pos); (lia || assumption).
Qed.

(* the binary64 theorem is also an instance of the generic one (sanity check of the side conditions) *)
Lemma locate1_in_grid64_from_gen : forall H (center width pos : binary_float 53 1024),
  (1 <= H <= 60)%Z ->
  is_finite center = true -> is_finite pos = true -> is_finite width = true ->
  (bpow radix2 (-900) <= B2R width <= bpow radix2 900)%R ->
  forall k, locate1 53 1024 H (B2SF center) (B2SF width) (B2SF pos) = LocCoord k ->
  (0 <= k <= 2 ^ (H - 1) - 1)%Z.
Proof.
intros H center width pos HH Fc Fp Fw Hw.
apply (locate1_in_grid_gen 53 1024 Hprec64 Hmax64 ltac:(lia) H (-900) 900 center width pos); (lia || assumption).
Qed.

Print Assumptions sf_div_bridge32.
Print Assumptions sf_minus_bridge32.
Print Assumptions leaf_width_exact32.
Print Assumptions locate1_in_grid_gen.
Print Assumptions locate1_in_grid32.

(* ====================================================================================================== *)
(* Containment up to one rounding of the quotient (generic, then binary64 / binary32).                     *)
(* ====================================================================================================== *)
From Flocq Require Import Relative.

Section GenericContain.
Variable prec emax : Z.
Context (prec_gt_0_ : Prec_gt_0 prec).
Context (prec_lt_emax_ : Prec_lt_emax prec emax).
Hypothesis Hemax3 : (3 <= emax)%Z.

Local Notation eming := (3 - emax - prec)%Z.
Local Notation fexpg := (FLT_exp (3 - emax - prec) prec).
Local Notation Fg := (generic_format radix2 (FLT_exp (3 - emax - prec) prec)).
Local Notation rndg := (round radix2 (FLT_exp (3 - emax - prec) prec) ZnearestE).
Local Notation bf := (binary_float prec emax).

(* truncation of a non-negative float: z <= x < z + 1 *)
Lemma sf_trunc_floor_g : forall (q : bf) (z : Z), 0 <= B2R q ->
  sf_trunc (B2SF q) = Some z -> IZR z <= B2R q < IZR z + 1.
Proof.
intros q z Hq.
destruct q as [s|s| |s m e Hb]; unfold B2SF, sf_trunc; try discriminate.
{ intros Hz. apply Some_inj_Z in Hz. subst z. simpl. lra. }
cbn [B2R] in Hq |- *.
destruct s.
{ exfalso. revert Hq. apply Rlt_not_le. apply F2R_lt_0. simpl. lia. }
cbn [cond_Zopp]. unfold F2R; cbn [Fnum Fexp].
destruct (Z.leb_spec 0 e) as [He|He]; intros Hz; apply Some_inj_Z in Hz; subst z.
- rewrite mult_IZR. change 2%Z with (radix_val radix2). rewrite (IZR_Zpower radix2 e He). lra.
- assert (He' : (0 <= - e)%Z) by lia.
  assert (Hpe : (0 < 2 ^ (- e))%Z) by (apply Z.pow_pos_nonneg; lia).
  set (d := (2 ^ (- e))%Z) in *.
  assert (Hd : IZR d = bpow radix2 (- e)).
  { unfold d. change 2%Z with (radix_val radix2). now rewrite IZR_Zpower. }
  assert (Hdm := Z.div_mod (Z.pos m) d ltac:(lia)).
  assert (Hr := Z.mod_pos_bound (Z.pos m) d Hpe).
  set (z := (Z.pos m / d)%Z) in *.
  assert (Hlo : (z * d <= Z.pos m)%Z) by lia.
  assert (Hhi : (Z.pos m < (z + 1) * d)%Z) by lia.
  apply IZR_le in Hlo. apply IZR_lt in Hhi.
  rewrite mult_IZR, Hd in Hlo. rewrite mult_IZR, plus_IZR, Hd in Hhi.
  assert (Hbe : 0 < bpow radix2 e) by apply bpow_gt_0.
  assert (Hone : bpow radix2 (- e) * bpow radix2 e = 1).
  { rewrite <- bpow_plus. replace (- e + e)%Z with 0%Z by ring. reflexivity. }
  split.
  + replace (IZR z) with (IZR z * bpow radix2 (- e) * bpow radix2 e) by (rewrite Rmult_assoc, Hone; ring).
    apply Rmult_le_compat_r; lra.
  + replace (IZR z + 1) with ((IZR z + 1) * bpow radix2 (- e) * bpow radix2 e) by (rewrite Rmult_assoc, Hone; ring).
    apply Rmult_lt_compat_r; lra.
Qed.

(* core: either the edge case, or k = floor (fl (rel / lw)) *)
Lemma locate1_round_gen : forall (H wlo whi : Z) (center width pos : bf),
  (1 <= H < emax)%Z -> (eming + prec + (H - 1) <= wlo)%Z -> (whi < emax)%Z ->
  is_finite center = true -> is_finite pos = true -> is_finite width = true ->
  bpow radix2 wlo <= B2R width <= bpow radix2 whi ->
  forall k, locate1 prec emax H (B2SF center) (B2SF width) (B2SF pos) = LocCoord k ->
  let rel := SF2R radix2 (SFsub prec emax (B2SF pos) (box_corner prec emax (B2SF center) (B2SF width))) in
  let lw := B2R width * bpow radix2 (- (H - 1)) in
  (rel = B2R width /\ k = (2 ^ (H - 1) - 1)%Z) \/
  (0 <= rel < B2R width /\ (0 <= k)%Z /\ IZR k <= rndg (rel / lw) < IZR k + 1).
Proof.
intros H wlo whi center width pos HH Hlo Hhi Fc Fp Fw Hw k Hloc rel lw.
assert (Hpp := prec_pos_g prec prec_gt_0_).
assert (Hgrid := locate1_in_grid_gen prec emax prec_gt_0_ prec_lt_emax_ Hemax3
                   H wlo whi center width pos HH Hlo Hhi Fc Fp Fw Hw k Hloc).
revert Hloc.
destruct (box_corner_Bg prec emax prec_gt_0_ prec_lt_emax_ Hemax3 center width) as [cb Hcb].
destruct (leaf_width_Bg prec emax prec_gt_0_ prec_lt_emax_ Hemax3 H wlo whi width HH Hlo Hhi Fw Hw)
  as [lwb [L1 [L2 L3]]].
rewrite (locate1_as_Bg prec emax prec_gt_0_ prec_lt_emax_ H center width pos cb lwb Hcb L1).
unfold locate1_Bg.
assert (Hrel : rel = B2R (Bminus mode_NE pos cb)).
{ unfold rel. rewrite <- Hcb, <- (sf_minus_bridge_gen prec emax _ _). apply SF2R_B2SF. }
clearbody rel.
set (r := Bminus mode_NE pos cb) in *.
destruct (Bleb (B754_zero false) r && Bleb r width)%bool eqn:Ha; cbn [negb]; [|discriminate].
assert (Fr : is_finite r = true) by (apply (assert_finite_g prec emax r width Fw Ha)).
apply andb_prop in Ha. destruct Ha as [Ha1 Ha2].
rewrite Bleb_correct in Ha1, Ha2 by (assumption || reflexivity).
apply Rle_bool_le in Ha1. apply Rle_bool_le in Ha2.
cbn [B2R] in Ha1.
rewrite Beqb_correct by assumption.
case Req_bool_spec; intros Hne.
{ intros Hz. left. split; [congruence | congruence]. }
right.
assert (Hw0 : 0 < B2R width) by (generalize (bpow_gt_0 radix2 wlo); lra).
assert (Hw' : bpow radix2 (eming + prec) <= B2R width).
{ apply Rle_trans with (2 := proj1 Hw). apply bpow_le. lia. }
destruct (quot_bound_g prec emax prec_gt_0_ Hemax3 (B2R r) (B2R width) (H - 1)
            (B2R_Fg prec emax r) (B2R_Fg prec emax width) ltac:(lia) Hw' ltac:(lra))
  as [Q1 Q2].
fold lw in Q1, Q2.
revert Hloc.
generalize (Bdiv_correct prec emax _ _ mode_NE r lwb).
change (round radix2 (SpecFloat.fexp prec emax) (round_mode mode_NE)) with rndg.
rewrite L2. fold lw.
assert (Hb53 : 0 < bpow radix2 (H - 1 - prec)) by apply bpow_gt_0.
rewrite Rlt_bool_true.
2:{ rewrite Rabs_pos_eq by exact Q1.
    apply Rle_lt_trans with (1 := Q2).
    apply Rlt_trans with (bpow radix2 (H - 1)); [lra | apply bpow_lt; lia]. }
intros HD. destruct HD as [D1 _].
{ unfold lw. apply Rgt_not_eq. apply Rmult_lt_0_compat; [lra | apply bpow_gt_0]. }
destruct (sf_trunc (B2SF (Bdiv mode_NE r lwb))) as [z|] eqn:Hz; [|discriminate].
intros Hk. assert (k = z) by congruence. subst z.
rewrite Hrel.
split; [lra|]. split; [lia|].
rewrite <- D1.
apply sf_trunc_floor_g; [rewrite D1; exact Q1 | exact Hz].
Qed.

Theorem locate1_contains_gen : forall (H wlo whi : Z) (center width pos : bf),
  (1 <= H < emax)%Z -> (eming + prec + (H - 1) <= wlo)%Z -> (whi < emax)%Z ->
  is_finite center = true -> is_finite pos = true -> is_finite width = true ->
  bpow radix2 wlo <= B2R width <= bpow radix2 whi ->
  forall k, locate1 prec emax H (B2SF center) (B2SF width) (B2SF pos) = LocCoord k ->
  let rel := SF2R radix2 (SFsub prec emax (B2SF pos) (box_corner prec emax (B2SF center) (B2SF width))) in
  let lw := B2R width * bpow radix2 (- (H - 1)) in
  (rel = B2R width /\ k = (2 ^ (H - 1) - 1)%Z) \/
  (IZR k * (1 - bpow radix2 (- prec)) <= rel / lw < (IZR k + 1) * (1 + bpow radix2 (- prec))).
Proof.
intros H wlo whi center width pos HH Hlo Hhi Fc Fp Fw Hw k Hloc rel lw.
assert (Hpp := prec_pos_g prec prec_gt_0_).
destruct (locate1_round_gen H wlo whi center width pos HH Hlo Hhi Fc Fp Fw Hw k Hloc)
  as [E | [Hrel [Hk0 Hfl]]]; [left; exact E | right].
fold rel lw in Hrel, Hfl.
set (q := rel / lw) in *.
assert (Hw0 : 0 < B2R width) by (generalize (bpow_gt_0 radix2 wlo); lra).
assert (Hlw0 : 0 < lw) by (unfold lw; apply Rmult_lt_0_compat; [lra | apply bpow_gt_0]).
assert (Hq0 : 0 <= q).
{ unfold q. apply Rmult_le_pos; [lra | left; now apply Rinv_0_lt_compat]. }
assert (Hu : 0 < bpow radix2 (- prec)) by apply bpow_gt_0.
assert (Hu1 : bpow radix2 (- prec) < 1).
{ change 1 with (bpow radix2 0). apply bpow_lt. lia. }
assert (Hk0' : 0 <= IZR k) by (apply IZR_le; exact Hk0).
destruct (Rlt_or_le q (bpow radix2 (eming + prec - 1))) as [Hsmall | Hnorm].
- (* quotient below the normal range: fl(q) < 1, k = 0 *)
  assert (Hb1 : bpow radix2 (eming + prec - 1) < 1).
  { change 1 with (bpow radix2 0). apply bpow_lt. lia. }
  assert (Hfq : rndg q <= bpow radix2 (eming + prec - 1)).
  { apply round_le_generic; auto with typeclass_instances.
    - apply (F_bpow_g prec emax prec_gt_0_). lia.
    - lra. }
  assert (Hk : k = 0%Z).
  { assert (IZR k < 1) by lra. apply lt_IZR in H0. lia. }
  subst k. simpl (IZR 0). split; lra.
- assert (Herr := relative_error_N_FLT_round radix2 eming prec Hpp (fun x => negb (Z.even x)) q).
  change (Znearest (fun x : Z => negb (Z.even x))) with ZnearestE in Herr.
  rewrite (Rabs_pos_eq q) in Herr by exact Hq0.
  specialize (Herr Hnorm).
  assert (Hfq0 : 0 <= rndg q) by lra.
  rewrite (Rabs_pos_eq (rndg q)) in Herr by exact Hfq0.
  assert (Hub : / 2 * bpow radix2 (- prec + 1) = bpow radix2 (- prec)).
  { rewrite bpow_plus. simpl (bpow radix2 1). lra. }
  rewrite Hub in Herr.
  set (u := bpow radix2 (- prec)) in *.
  set (fq := rndg q) in *.
  assert (Hlo1 : fq - q <= u * fq) by (apply Rle_trans with (2 := Herr); apply Rle_abs).
  assert (Hhi1 : q - fq <= u * fq).
  { apply Rle_trans with (2 := Herr). rewrite <- Rabs_Ropp. 
    replace (- (fq - q)) with (q - fq) by ring. apply Rle_abs. }
  assert (HA : IZR k * (1 - u) <= fq * (1 - u)) by (apply Rmult_le_compat_r; lra).
  assert (HB : fq * (1 + u) < (IZR k + 1) * (1 + u)) by (apply Rmult_lt_compat_r; lra).
  split; lra.
Qed.

(* exact case: the quotient is representable (e.g. dyadic boxes): k is exactly the floor of rel / lw *)
Theorem locate1_contains_exact_gen : forall (H wlo whi : Z) (center width pos : bf),
  (1 <= H < emax)%Z -> (eming + prec + (H - 1) <= wlo)%Z -> (whi < emax)%Z ->
  is_finite center = true -> is_finite pos = true -> is_finite width = true ->
  bpow radix2 wlo <= B2R width <= bpow radix2 whi ->
  forall k, locate1 prec emax H (B2SF center) (B2SF width) (B2SF pos) = LocCoord k ->
  let rel := SF2R radix2 (SFsub prec emax (B2SF pos) (box_corner prec emax (B2SF center) (B2SF width))) in
  let lw := B2R width * bpow radix2 (- (H - 1)) in
  Fg (rel / lw) ->
  (rel = B2R width /\ k = (2 ^ (H - 1) - 1)%Z) \/ (IZR k <= rel / lw < IZR k + 1).
Proof.
intros H wlo whi center width pos HH Hlo Hhi Fc Fp Fw Hw k Hloc rel lw Fq.
destruct (locate1_round_gen H wlo whi center width pos HH Hlo Hhi Fc Fp Fw Hw k Hloc)
  as [E | [Hrel [Hk0 Hfl]]]; [left; exact E | right].
fold rel lw in Hfl.
rewrite round_generic in Hfl; auto with typeclass_instances.
Qed.

End GenericContain.

(* ---------- instances ---------- *)
Theorem locate1_contains64 : forall H (center width pos : binary_float 53 1024),
  (1 <= H <= 60)%Z ->
  is_finite center = true -> is_finite pos = true -> is_finite width = true ->
  (bpow radix2 (-900) <= B2R width <= bpow radix2 900)%R ->
  forall k, locate1 53 1024 H (B2SF center) (B2SF width) (B2SF pos) = LocCoord k ->
  let rel := SF2R radix2 (SFsub 53 1024 (B2SF pos) (box_corner 53 1024 (B2SF center) (B2SF width))) in
  let lw := (B2R width * bpow radix2 (-(H-1)))%R in
  (rel = B2R width /\ k = 2 ^ (H - 1) - 1)%Z \/
  (IZR k * (1 - bpow radix2 (-53)) <= rel / lw < (IZR k + 1) * (1 + bpow radix2 (-53)))%R.
Proof.
intros H center width pos HH Fc Fp Fw Hw k Hloc.
apply (locate1_contains_gen 53 1024 Hprec64 Hmax64 ltac:(lia) H (-900) 900 center width pos);
  (lia || assumption).
Qed.

Theorem locate1_contains_exact64 : forall H (center width pos : binary_float 53 1024),
  (1 <= H <= 60)%Z ->
  is_finite center = true -> is_finite pos = true -> is_finite width = true ->
  (bpow radix2 (-900) <= B2R width <= bpow radix2 900)%R ->
  forall k, locate1 53 1024 H (B2SF center) (B2SF width) (B2SF pos) = LocCoord k ->
  let rel := SF2R radix2 (SFsub 53 1024 (B2SF pos) (box_corner 53 1024 (B2SF center) (B2SF width))) in
  let lw := (B2R width * bpow radix2 (-(H-1)))%R in
  generic_format radix2 (FLT_exp (-1074) 53) (rel / lw) ->
  (rel = B2R width /\ k = 2 ^ (H - 1) - 1)%Z \/ (IZR k <= rel / lw < IZR k + 1)%R.
Proof.
intros H center width pos HH Fc Fp Fw Hw k Hloc.
apply (locate1_contains_exact_gen 53 1024 Hprec64 Hmax64 ltac:(lia) H (-900) 900 center width pos);
  (lia || assumption).
Qed.

Theorem locate1_contains32 : forall H (center width pos : binary_float 24 128),
  (1 <= H <= 30)%Z ->
  is_finite center = true -> is_finite pos = true -> is_finite width = true ->
  (bpow radix2 (-90) <= B2R width <= bpow radix2 90)%R ->
  forall k, locate1 24 128 H (B2SF center) (B2SF width) (B2SF pos) = LocCoord k ->
  let rel := SF2R radix2 (SFsub 24 128 (B2SF pos) (box_corner 24 128 (B2SF center) (B2SF width))) in
  let lw := (B2R width * bpow radix2 (-(H-1)))%R in
  (rel = B2R width /\ k = 2 ^ (H - 1) - 1)%Z \/
  (IZR k * (1 - bpow radix2 (-24)) <= rel / lw < (IZR k + 1) * (1 + bpow radix2 (-24)))%R.
Proof.
intros H center width pos HH Fc Fp Fw Hw k Hloc.
apply (locate1_contains_gen 24 128 Hprec32 Hmax32 ltac:(lia) H (-90) 90 center width pos);
  (lia || assumption).
Qed.

Theorem locate1_contains_exact32 : forall H (center width pos : binary_float 24 128),
  (1 <= H <= 30)%Z ->
  is_finite center = true -> is_finite pos = true -> is_finite width = true ->
  (bpow radix2 (-90) <= B2R width <= bpow radix2 90)%R ->
  forall k, locate1 24 128 H (B2SF center) (B2SF width) (B2SF pos) = LocCoord k ->
  let rel := SF2R radix2 (SFsub 24 128 (B2SF pos) (box_corner 24 128 (B2SF center) (B2SF width))) in
  let lw := (B2R width * bpow radix2 (-(H-1)))%R in
  generic_format radix2 (FLT_exp (-149) 24) (rel / lw) ->
  (rel = B2R width /\ k = 2 ^ (H - 1) - 1)%Z \/ (IZR k <= rel / lw < IZR k + 1)%R.
Proof.
intros H center width pos HH Fc Fp Fw Hw k Hloc.
apply (locate1_contains_exact_gen 24 128 Hprec32 Hmax32 ltac:(lia) H (-90) 90 center width pos);
  (lia || assumption).
Qed.

Print Assumptions locate1_contains_gen.
Print Assumptions locate1_contains_exact_gen.
Print Assumptions locate1_contains64.
Print Assumptions locate1_contains_exact64.
Print Assumptions locate1_contains32.
Print Assumptions locate1_contains_exact32.
