(* Executable IEEE model (Coq SpecFloat) of position -> grid coordinate:
   TbfSpacialConfiguration constructor (src/spacial/tbfspacialconfiguration.hpp:22-29: boxCorner, leaf widths) and
   getTreeCoordinate / getIndexFromPosition (src/spacial/tbfmortonspaceindex.hpp:28-35, 58-66), per dimension. *)
From Coq Require Import ZArith List Floats.SpecFloat.
From Tbfmm Require Import Num.P2PDefs Num.P2PSF.
Import ListNotations.
Local Open Scope Z_scope.

Section Locate.
Variable prec emax : Z.

Definition sf_of_Z_pow2 (k : Z) : spec_float :=    (* 2^k as a float, |k| small *)
  S754_finite false (Z.to_pos (2 ^ (prec - 1))) (k - (prec - 1)).
Definition sf_one : spec_float := sf_of_Z_pow2 0.
Definition sf_mhalf : spec_float := SFopp (sf_of_Z_pow2 (-1)).

(* static_cast<long>(x): truncation toward zero of a finite float (None for inf / nan: UB in C++) *)
Definition sf_trunc (x : spec_float) : option Z :=
  match x with
  | S754_zero _ => Some 0
  | S754_finite s m e =>
      let v := if 0 <=? e then Zpos m * 2 ^ e else Zpos m / 2 ^ (- e) in
      Some (if s then - v else v)
  | _ => None
  end.

(* boxCorner = center + width * (-(1)/2) ; leafWidth = width * (1 / (1 << (H-1))) *)
Definition box_corner (center width : spec_float) : spec_float :=
  SFadd prec emax center (SFmul prec emax width (SFdiv prec emax (SFopp sf_one) (SFadd prec emax sf_one sf_one))).
Definition leaf_width (H : Z) (width : spec_float) : spec_float :=
  SFmul prec emax width (SFdiv prec emax sf_one (sf_of_Z_pow2 (H - 1))).

Inductive loc_result := LocCoord (k : Z) | LocAssert | LocUndefined.

(* getTreeCoordinate(pos - corner): assert(0 <= rel <= width); rel == width -> last cell; else (long)(rel / leafWidth) *)
Definition locate1 (H : Z) (center width pos : spec_float) : loc_result :=
  let rel := SFsub prec emax pos (box_corner center width) in
  let zero := S754_zero false in
  if negb (SFleb zero rel && SFleb rel width) then LocAssert
  else if SFeqb rel width then LocCoord (2 ^ (H - 1) - 1)
  else match sf_trunc (SFdiv prec emax rel (leaf_width H width)) with
       | Some k => LocCoord k
       | None => LocUndefined
       end.

(* what the NDEBUG build computes (no assertion): used to show where an out-of-grid coordinate appears *)
Definition locate1_ndebug (H : Z) (center width pos : spec_float) : loc_result :=
  let rel := SFsub prec emax pos (box_corner center width) in
  if SFeqb rel width then LocCoord (2 ^ (H - 1) - 1)
  else match sf_trunc (SFdiv prec emax rel (leaf_width H width)) with
       | Some k => LocCoord k
       | None => LocUndefined
       end.

End Locate.
