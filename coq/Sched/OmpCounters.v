(* Interaction counters under the OpenMP executors: every worker thread owns one counter kernel, a task increments the
   counters of the worker that happens to run it, and at the end the per-worker counters are merged with Reduce.
   Whatever the assignment of tasks to workers and whatever the merge order, the merged counters are those of the
   sequential run.  Nothing here changes a definition of the model. *)
From Tbfmm Require Import Base.Prelude Base.Search Index.MortonDefs Tree.GroupDefs Index.ListsDefs Tree.BuildDefs
  Tree.Invariant Exec.ExecDefs Exec.ExecTsmDefs Exec.CounterDefs Exec.CounterProofs Spec.Elem Spec.Corollaries
  Sched.TaskDefs Sched.OmpDefs Sched.OmpTsmDefs Sched.OmpProofs Sched.OmpTsmProofs.
From Coq Require Import Sorting.Permutation ZifyBool Zify.
Local Open Scope Z_scope.

Notation na := (filter nonassert).

(* tasks of worker w under an assignment a : nat (task position in submission order) -> nat (worker id) *)
Definition worker_calls (ts : list task) (a : nat -> nat) (w : nat) : list call :=
  flat_map (fun it => if Nat.eqb (a (fst it)) w then tk_calls (snd it) else []) (combine (seq 0 (length ts)) ts).

(* ------------------------------------------------------------------ *)
(* 0. validation by computation (before proving)                       *)
(* ------------------------------------------------------------------ *)
Definition oc_t2 := build (parent 2) 3 3 true [0;3;3;5;9;10;15;12].
Definition oc_t2b := build (parent 2) 3 2 false [1;3;6;6;11;14;15].
Definition oc_t3 := build (parent 3) 4 2 false [5;5;63;0;9;12;9;300;301;511].

Definition oc_merged d per stop t (a : nat -> nat) (W : nat) : counters :=
  merge_counters (map (fun w => count_trace (worker_calls (omp_tasks d per stop 63 t) a w)) (seq 0 W)).
Definition oc_merged_tsm d per stop src tgt (a : nat -> nat) (W : nat) : counters :=
  merge_counters (map (fun w => count_trace (worker_calls (omp_tsm_tasks d per stop 63 src tgt) a w)) (seq 0 W)).

Example omp_worker_counters_examples :
  (* round robin over 3 workers; a single worker; 5 and 7 workers some of which are idle *)
  oc_merged 2 false 2 oc_t2 (fun i => Nat.modulo i 3) 3 = count_trace (execute 2 false 2 63 oc_t2)
  /\ oc_merged 2 true 0 oc_t2 (fun _ => 0%nat) 1 = count_trace (execute 2 true 0 63 oc_t2)
  /\ oc_merged 2 false (-1) oc_t2b (fun i => Nat.modulo (i * i + 1) 4) 5 = count_trace (execute 2 false (-1) 63 oc_t2b)
  /\ oc_merged 3 false 2 oc_t3 (fun i => Nat.modulo i 3) 3 = count_trace (execute 3 false 2 63 oc_t3)
  /\ oc_merged 3 true 0 oc_t3 (fun i => Nat.modulo (7 * i) 5) 7 = count_trace (execute 3 true 0 63 oc_t3)
  /\ oc_merged_tsm 2 false 2 oc_t2 oc_t2b (fun i => Nat.modulo i 3) 3 = count_trace (execute_tsm 2 false 2 63 oc_t2 oc_t2b)
  /\ oc_merged_tsm 2 true (-1) oc_t2 oc_t2b (fun i => Nat.modulo (i * i) 4) 5
     = count_trace (execute_tsm 2 true (-1) 63 oc_t2 oc_t2b)
  /\ oc_merged_tsm 2 true 1 oc_t2b oc_t2 (fun _ => 0%nat) 1 = count_trace (execute_tsm 2 true 1 63 oc_t2b oc_t2).
Proof. vm_compute. repeat split; reflexivity. Qed.

(* the hypothesis "every task runs on one of the merged workers" is needed: with workers 0..2 used and only 0..1 merged,
   counts are lost *)
Example omp_worker_counters_needs_range :
  oc_merged 2 false 2 oc_t2 (fun i => Nat.modulo i 3) 2 <> count_trace (execute 2 false 2 63 oc_t2).
Proof. vm_compute. discriminate. Qed.

(* ------------------------------------------------------------------ *)
(* 1. counters ignore assertion records                                *)
(* ------------------------------------------------------------------ *)
Lemma count_trace_cons c tr : count_trace (c :: tr) = reduce (cval c) (count_trace tr).
Proof. change (c :: tr) with ([c] ++ tr). rewrite count_trace_app. reflexivity. Qed.

Lemma count_trace_na : forall tr, count_trace (na tr) = count_trace tr.
Proof.
  induction tr as [|c tr IH]; [reflexivity|].
  rewrite (count_trace_cons c tr).
  destruct c; cbn [filter nonassert]; try (rewrite count_trace_cons, IH; reflexivity).
  rewrite IH. change (cval (CAssert id)) with counters0. rewrite reduce_0_l. reflexivity.
Qed.

(* ------------------------------------------------------------------ *)
(* 2. merging the copies of the workers                                *)
(* ------------------------------------------------------------------ *)
Lemma merge_map_reduce {A} (f g : A -> counters) : forall l,
  merge_counters (map (fun x => reduce (f x) (g x)) l) = reduce (merge_counters (map f l)) (merge_counters (map g l)).
Proof.
  induction l as [|x l IH]; cbn [map].
  - rewrite merge_nil, reduce_0_l. reflexivity.
  - rewrite !merge_cons, IH. cfields.
Qed.

Lemma merge_map_zero {A} : forall l : list A, merge_counters (map (fun _ => counters0) l) = counters0.
Proof.
  induction l as [|x l IH]; cbn [map]; [reflexivity|]. rewrite merge_cons, IH, reduce_0_l. reflexivity.
Qed.

(* exactly one worker of s .. s+len-1 receives the body x of a task assigned to worker k *)
Lemma merge_single (x : list call) (k : nat) : forall len s,
  merge_counters (map (fun w => count_trace (if Nat.eqb k w then x else [])) (seq s len))
  = if (Nat.leb s k && Nat.ltb k (s + len))%bool then count_trace x else counters0.
Proof.
  induction len as [|len IH]; intros s; cbn [seq map].
  - rewrite merge_nil. destruct (Nat.leb_spec s k), (Nat.ltb_spec k (s + 0)); cbn [andb]; try reflexivity. lia.
  - rewrite merge_cons, IH.
    destruct (Nat.eqb_spec k s) as [E|E].
    + subst s. destruct (Nat.leb_spec (S k) k); [lia|]. cbn [andb]. rewrite reduce_0_r.
      destruct (Nat.leb_spec k k), (Nat.ltb_spec k (k + S len)); cbn [andb]; try reflexivity; lia.
    + rewrite count_trace_nil, reduce_0_l.
      destruct (Nat.leb_spec (S s) k), (Nat.ltb_spec k (S s + len)), (Nat.leb_spec s k), (Nat.ltb_spec k (s + S len));
        cbn [andb]; try reflexivity; lia.
Qed.

(* the same with the task positions starting at n *)
Definition worker_calls_from (n : nat) (ts : list task) (a : nat -> nat) (w : nat) : list call :=
  flat_map (fun it => if Nat.eqb (a (fst it)) w then tk_calls (snd it) else []) (combine (seq n (length ts)) ts).

Lemma worker_calls_from_0 ts a w : worker_calls ts a w = worker_calls_from 0 ts a w.
Proof. reflexivity. Qed.

Lemma worker_calls_from_cons n t ts a w :
  worker_calls_from n (t :: ts) a w = (if Nat.eqb (a n) w then tk_calls t else []) ++ worker_calls_from (S n) ts a w.
Proof. reflexivity. Qed.

Lemma merge_workers_from (a : nat -> nat) (W : nat) : forall ts n,
  (forall i, (n <= i < n + length ts)%nat -> (a i < W)%nat) ->
  merge_counters (map (fun w => count_trace (worker_calls_from n ts a w)) (seq 0 W))
  = count_trace (flat_map tk_calls ts).
Proof.
  induction ts as [|t ts IH]; intros n Ha.
  - cbn [flat_map]. rewrite count_trace_nil. apply (merge_map_zero (seq 0 W)).
  - cbn [flat_map]. rewrite count_trace_app.
    rewrite (map_ext _ (fun w => reduce (count_trace (if Nat.eqb (a n) w then tk_calls t else []))
                                        (count_trace (worker_calls_from (S n) ts a w)))).
    2:{ intros w. rewrite worker_calls_from_cons, count_trace_app. reflexivity. }
    rewrite merge_map_reduce, merge_single, IH.
    + assert (Hn : (a n < W)%nat) by (apply Ha; cbn [length]; lia).
      destruct (Nat.leb_spec 0 (a n)), (Nat.ltb_spec (a n) (0 + W)); cbn [andb]; try reflexivity; lia.
    + intros i Hi. apply Ha. cbn [length]. lia.
Qed.

(* any list of tasks, any assignment to the workers 0 .. W-1 *)
Theorem merge_workers : forall ts (a : nat -> nat) (W : nat),
  (forall i, (i < length ts)%nat -> (a i < W)%nat) ->
  merge_counters (map (fun w => count_trace (worker_calls ts a w)) (seq 0 W)) = count_trace (flat_map tk_calls ts).
Proof.
  intros ts a W Ha. rewrite (map_ext _ (fun w => count_trace (worker_calls_from 0 ts a w))) by reflexivity.
  apply merge_workers_from. intros i Hi. apply Ha. lia.
Qed.

(* the same with the workers' copies merged in any order *)
Lemma merge_workers_any_order ts (a : nat -> nat) (W : nat) ws :
  (forall i, (i < length ts)%nat -> (a i < W)%nat) -> Permutation ws (seq 0 W) ->
  merge_counters (map (fun w => count_trace (worker_calls ts a w)) ws) = count_trace (flat_map tk_calls ts).
Proof.
  intros Ha Hp. rewrite <- (merge_workers ts a W Ha). apply merge_any_order. apply Permutation_map. exact Hp.
Qed.

(* ------------------------------------------------------------------ *)
(* 3. the task bodies count as the sequential run                      *)
(* ------------------------------------------------------------------ *)
Lemma omp_bodies_counters d per stop t :
  count_trace (flat_map tk_calls (omp_tasks d per stop 63 t)) = count_trace (execute d per stop 63 t).
Proof.
  rewrite <- count_trace_na, omp_calls, count_trace_na. unfold execute. cbv zeta.
  change (has 63 F_P2M) with true. change (has 63 F_M2M) with true. change (has 63 F_M2L) with true.
  change (has 63 F_L2L) with true. change (has 63 F_P2P) with true. change (has 63 F_L2P) with true. cbv iota.
  set (s := Z.max 0 stop).
  rewrite !(count_trace_app (pass_P2M s t)), !(count_trace_app (pass_M2M d s t)),
    !(count_trace_app (pass_M2L d per s t)), !(count_trace_app (pass_L2L d s t)).
  rewrite (count_trace_app (pass_P2P d per t)), (count_trace_app (pass_L2P s t)), (reduce_comm (count_trace (pass_P2P d per t))).
  reflexivity.
Qed.

Lemma omp_tsm_bodies_counters d per stop src tgt :
  count_trace (flat_map tk_calls (omp_tsm_tasks d per stop 63 src tgt)) = count_trace (execute_tsm d per stop 63 src tgt).
Proof.
  rewrite <- count_trace_na, omp_tsm_calls, count_trace_na. unfold execute_tsm. cbv zeta.
  change (has 63 F_P2M) with true. change (has 63 F_M2M) with true. change (has 63 F_M2L) with true.
  change (has 63 F_L2L) with true. change (has 63 F_P2P) with true. change (has 63 F_L2P) with true. cbv iota.
  set (s := Z.max 0 stop).
  rewrite !(count_trace_app (pass_P2M s src)), !(count_trace_app (pass_M2M d s src)),
    !(count_trace_app (tsm_pass_M2L d per s src tgt)), !(count_trace_app (pass_L2L d s tgt)).
  rewrite (count_trace_app (tsm_pass_P2P d per src tgt)), (count_trace_app (pass_L2P s tgt)),
    (reduce_comm (count_trace (tsm_pass_P2P d per src tgt))).
  reflexivity.
Qed.

(* ------------------------------------------------------------------ *)
(* 4. the theorems                                                     *)
(* ------------------------------------------------------------------ *)
Theorem omp_worker_counters : forall d per stop t (a : nat -> nat) (W : nat),
  (forall i, (i < length (omp_tasks d per stop 63 t))%nat -> (a i < W)%nat) ->
  merge_counters (map (fun w => count_trace (worker_calls (omp_tasks d per stop 63 t) a w)) (seq 0 W))
  = count_trace (execute d per stop 63 t).
Proof. intros d per stop t a W Ha. rewrite (merge_workers _ a W Ha). apply omp_bodies_counters. Qed.

Theorem omp_worker_counters_any_order : forall d per stop t (a : nat -> nat) (W : nat) (ws : list nat),
  (forall i, (i < length (omp_tasks d per stop 63 t))%nat -> (a i < W)%nat) ->
  Permutation ws (seq 0 W) ->
  merge_counters (map (fun w => count_trace (worker_calls (omp_tasks d per stop 63 t) a w)) ws)
  = count_trace (execute d per stop 63 t).
Proof. intros d per stop t a W ws Ha Hp. rewrite (merge_workers_any_order _ a W ws Ha Hp). apply omp_bodies_counters. Qed.

Theorem omp_tsm_worker_counters : forall d per stop src tgt (a : nat -> nat) (W : nat),
  (forall i, (i < length (omp_tsm_tasks d per stop 63 src tgt))%nat -> (a i < W)%nat) ->
  merge_counters (map (fun w => count_trace (worker_calls (omp_tsm_tasks d per stop 63 src tgt) a w)) (seq 0 W))
  = count_trace (execute_tsm d per stop 63 src tgt).
Proof. intros d per stop src tgt a W Ha. rewrite (merge_workers _ a W Ha). apply omp_tsm_bodies_counters. Qed.

Theorem omp_tsm_worker_counters_any_order : forall d per stop src tgt (a : nat -> nat) (W : nat) (ws : list nat),
  (forall i, (i < length (omp_tsm_tasks d per stop 63 src tgt))%nat -> (a i < W)%nat) ->
  Permutation ws (seq 0 W) ->
  merge_counters (map (fun w => count_trace (worker_calls (omp_tsm_tasks d per stop 63 src tgt) a w)) ws)
  = count_trace (execute_tsm d per stop 63 src tgt).
Proof.
  intros d per stop src tgt a W ws Ha Hp. rewrite (merge_workers_any_order _ a W ws Ha Hp). apply omp_tsm_bodies_counters.
Qed.

(* the merged counters are the numbers implied by the tree alone *)
Corollary omp_worker_counters_spec : forall d per H B mode s t idx (a : nat -> nat) (W : nat) (ws : list nat),
  (0 < d)%nat -> 1 <= H ->
  tree_ok (parent d) H B mode t -> particles_ok idx t ->
  Forall (fun i => 0 <= i < 2 ^ ((H - 1) * dz d)) idx -> idx <> [] ->
  (forall i, (i < length (omp_tasks d per s 63 t))%nat -> (a i < W)%nat) ->
  Permutation ws (seq 0 W) ->
  merge_counters (map (fun w => count_trace (worker_calls (omp_tasks d per s 63 t) a w)) ws)
  = count_elems (spec_all d per s H (leaf_table t)).
Proof.
  intros d per H B mode s t idx a W ws Hd HH Hok Hpart Hrange Hne Ha Hp.
  rewrite (omp_worker_counters_any_order d per s t a W ws Ha Hp).
  exact (counts_spec d per H B mode s t idx Hd HH Hok Hpart Hrange Hne).
Qed.

Corollary omp_worker_counters_values : forall d per H B mode s t idx (a : nat -> nat) (W : nat) (ws : list nat),
  (0 < d)%nat -> 1 <= H ->
  tree_ok (parent d) H B mode t -> particles_ok idx t ->
  Forall (fun i => 0 <= i < 2 ^ ((H - 1) * dz d)) idx -> idx <> [] ->
  (forall i, (i < length (omp_tasks d per s 63 t))%nat -> (a i < W)%nat) ->
  Permutation ws (seq 0 W) ->
  let k := merge_counters (map (fun w => count_trace (worker_calls (omp_tasks d per s 63 t) a w)) ws) in
  let s' := Z.max 0 s in
  c_p2m k = (if s' <? H then zlen (leaf_table t) else 0) /\ c_l2p k = c_p2m k /\ c_m2m k = c_l2l k /\
  c_m2m k = zsum (map (fun l => zlen (cells_from d (Z.to_nat (H - 1 - (l + 1))) (map fst (leaf_table t)))) (zrange s' (H - 2))) /\
  c_inner k = zsum (map (fun ip => zlen (snd ip) * zlen (snd ip) - zlen (snd ip)) (leaf_table t)).
Proof.
  intros d per H B mode s t idx a W ws Hd HH Hok Hpart Hrange Hne Ha Hp. cbv zeta.
  rewrite (omp_worker_counters_any_order d per s t a W ws Ha Hp).
  exact (counts_values d per H B mode s t idx Hd HH Hok Hpart Hrange Hne).
Qed.

Print Assumptions count_trace_na.
Print Assumptions merge_workers.
Print Assumptions omp_worker_counters.
Print Assumptions omp_worker_counters_any_order.
Print Assumptions omp_tsm_worker_counters.
Print Assumptions omp_tsm_worker_counters_any_order.
Print Assumptions omp_worker_counters_spec.
Print Assumptions omp_worker_counters_values.
