(* Task graphs: what a task may touch (its declared dependences), legal schedules, and the descriptor check applied to the
   task sites regenerated from the source (Gen/OmpTasksGen.v). *)
From Tbfmm Require Import Base.Prelude Exec.ExecDefs Spec.Kernel Gen.OmpTasksGen.
From Coq Require String.
Import String.StringSyntax.
Local Open Scope Z_scope.

(* abstract memory locations of the free-kernel state *)
Inductive loc := LMult (l c : Z) | LLoc (l c : Z) | LRhs (p : Z).

Definition loc_eqb (a b : loc) : bool :=
  match a, b with
  | LMult l c, LMult l' c' => (l =? l') && (c =? c')
  | LLoc l c, LLoc l' c' => (l =? l') && (c =? c')
  | LRhs p, LRhs p' => p =? p'
  | _, _ => false
  end.

(* what one kernel call reads / writes (L = leaf level).  Particle symbolic data are never written by any call. *)
Definition call_reads (L : Z) (c : call) : list loc :=
  match c with
  | CP2M _ _ => []
  | CM2M l _ ch => map (fun cc => LMult (l + 1) (fst cc)) ch
  | CM2L l _ sr => map (fun sc => LMult l (fst sc)) sr
  | CL2L l p _ => [LLoc l p]
  | CL2P leaf _ => [LLoc L leaf]
  | _ => []
  end.
Definition call_writes (L : Z) (c : call) : list loc :=
  match c with
  | CP2M leaf _ => [LMult L leaf]
  | CM2M l p _ => [LMult l p]
  | CM2L l t _ => [LLoc l t]
  | CL2L l _ ch => map (fun cc => LLoc (l + 1) (fst cc)) ch
  | CL2P _ parts => map LRhs parts
  | CP2P _ _ _ sp tp => map LRhs tp ++ map LRhs sp
  | CP2PTsm _ _ _ _ tp => map LRhs tp
  | CP2PInner _ parts => map LRhs parts
  | CAssert _ => []
  end.

Definition lmem (x : loc) (l : list loc) : bool := existsb (loc_eqb x) l.

(* a task: declared read-only and read-write location sets, and the kernel calls its body performs *)
Record task := { tk_in : list loc; tk_out : list loc; tk_calls : list call }.

(* the body touches only what the task declared *)
Definition task_wf (L : Z) (t : task) : Prop :=
  forall c, In c (tk_calls t) ->
    (forall x, In x (call_writes L c) -> lmem x (tk_out t) = true) /\
    (forall x, In x (call_reads L c) -> lmem x (tk_in t) = true \/ lmem x (tk_out t) = true).

(* two tasks conflict when one declares a write to something the other declares (read or write) *)
Definition conflictb (t u : task) : bool :=
  existsb (fun x => lmem x (tk_in u) || lmem x (tk_out u)) (tk_out t)
  || existsb (fun x => lmem x (tk_in t) || lmem x (tk_out t)) (tk_out u).

(* a schedule = an order of execution given as a list of submission indices; legal = a permutation of 0..n-1 in which every
   pair of conflicting tasks keeps its submission order (what depend(in/inout) guarantees; with mutexinoutset the runtime
   may also swap two commute-writers, which for additive kernels is covered by [st_eq], see Sched/Determinism.v) *)
Fixpoint pos_in (x : nat) (l : list nat) : nat :=
  match l with [] => O | y :: r => if Nat.eqb x y then O else S (pos_in x r) end.
Definition legal (ts : list task) (sigma : list nat) : Prop :=
  Permutation.Permutation sigma (seq 0 (length ts)) /\
  forall i j, (i < j < length ts)%nat -> conflictb (nth i ts {| tk_in := []; tk_out := []; tk_calls := [] |})
                                                  (nth j ts {| tk_in := []; tk_out := []; tk_calls := [] |}) = true ->
              (pos_in i sigma < pos_in j sigma)%nat.
Definition run_schedule (L : Z) (ts : list task) (sigma : list nat) (s : st) : st :=
  run L (flat_map (fun i => tk_calls (nth i ts {| tk_in := []; tk_out := []; tk_calls := [] |})) sigma) s.

(* ---------------- descriptor check on the regenerated task sites ---------------- *)
Local Open Scope string_scope.
Notation string := String.string.
Inductive access := Rd | Wr.
(* what each group-kernel-interface wrapper touches, by argument position (from Exec: P2M reads particle data writes leaf
   multipoles; M2M reads lower multipoles writes upper multipoles; ...) *)
Definition wrapper_footprint (w : string) : list (access * gkind * nat) :=
  if String.eqb w "P2M" then [(Rd, KData, 0%nat); (Wr, KMult, 1%nat)]
  else if String.eqb w "M2M" then [(Rd, KMult, 0%nat); (Wr, KMult, 1%nat)]
  else if String.eqb w "M2LBetweenGroups" then [(Wr, KLoc, 0%nat); (Rd, KMult, 1%nat)]
  else if String.eqb w "M2LInGroup" then [(Rd, KMult, 0%nat); (Wr, KLoc, 0%nat)]
  else if String.eqb w "L2L" then [(Rd, KLoc, 0%nat); (Wr, KLoc, 1%nat)]
  else if String.eqb w "L2P" then [(Rd, KLoc, 0%nat); (Rd, KData, 1%nat); (Wr, KRhs, 1%nat)]
  else if String.eqb w "P2PBetweenGroups" then [(Rd, KData, 0%nat); (Rd, KData, 1%nat); (Wr, KRhs, 0%nat); (Wr, KRhs, 1%nat)]
  else if String.eqb w "P2PBetweenGroupsTsm" then [(Rd, KData, 0%nat); (Rd, KData, 1%nat); (Wr, KRhs, 1%nat)]
  else if String.eqb w "P2PInGroup" then [(Rd, KData, 0%nat); (Wr, KRhs, 0%nat)]
  else if String.eqb w "P2PInner" then [(Rd, KData, 0%nat); (Wr, KRhs, 0%nat)]
  else [(Wr, KUnknown, 0%nat)].

Definition gkind_eqb (a b : gkind) : bool :=
  match a, b with KData, KData | KRhs, KRhs | KMult, KMult | KLoc, KLoc => true | _, _ => false end.
Definition is_write_mode (m : gmode) : bool := match m with MOut | MInout | MCommute => true | _ => false end.
Definition is_known_mode (m : gmode) : bool := match m with MOther => false | _ => true end.
Definition smem (x : string) (l : list string) : bool := existsb (String.eqb x) l.

(* every buffer the wrapper writes is declared with a write mode, every buffer it reads is declared with some mode *)
Definition deps_cover (s : site) : bool :=
  forallb (fun wa =>
    let '(w, args) := wa in
    forallb (fun f =>
      let '(acc, kind, pos) := f in
      let obj := nth pos args "?" in
      existsb (fun dp => let '(m, k, o) := dp in
                 gkind_eqb k kind && String.eqb o obj && is_known_mode m &&
                 (match acc with Wr => is_write_mode m | Rd => true end)) (s_deps s))
      (wrapper_footprint w)) (s_wrappers s).

(* every identifier the task body refers to is copied at creation (firstprivate), or is a member reached through the
   method's own `this` - which is only sound outside a lambda (inside, `this` is reached through the closure object, a
   temporary of the enclosing pass that may be dead when the task runs) *)
Definition captures_ok (s : site) : bool :=
  forallb (fun r => smem r (s_firstprivate s) || (negb (s_in_lambda s) && smem r ["kernelWrapper"; "kernels"])) (s_refs s).

Definition site_ok (s : site) : bool :=
  deps_cover s && captures_ok s && negb (match s_wrappers s with [] => true | _ => false end).
