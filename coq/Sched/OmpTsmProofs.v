(* The task submission of the TARGET/SOURCE OpenMP executor (Sched/OmpTsmDefs.v) against the sequential target/source
   executor (Exec/ExecTsmDefs.v):
   1. the bodies of the submitted tasks are, pass by pass, the calls of the sequential passes (up to assertion markers, and
      literally on well-formed trees);
   2. run in submission order they compute the same state as the sequential executor (near field moved across L2P);
   3. every task touches only the locations it declared ([task_wf]);
   4. hence every legal schedule computes the sequential executor's state, and every target receives every source once. *)
From Tbfmm Require Import Base.Prelude Base.Search Index.MortonDefs Tree.GroupDefs Index.ListsDefs Tree.BuildDefs
  Tree.Invariant Tree.LookupProofs Exec.ExecDefs Exec.ExecTsmDefs Spec.Elem Spec.Kernel Spec.ExactlyOnce Spec.Flags
  Exec.RefineM2M Exec.RefineM2L Exec.RefineTsm Spec.ExactlyOnceTsm
  Sched.TaskDefs Sched.OmpDefs Sched.OmpTsmDefs Sched.Determinism Sched.OmpProofs.
From Coq Require Import Sorting.Sorted Sorting.Permutation ZifyBool.
Local Open Scope Z_scope.

Notation na := (filter nonassert).

(* ------------------------------------------------------------------ *)
(* 1. the tasks perform the sequential executor's calls                *)
(* ------------------------------------------------------------------ *)
Section Calls.
Variable d : nat.
Variable per : bool.

Lemma calls_tsm_M2L s src tgt : flat_map tk_calls (tsm_tasks_M2L d per s src tgt) = tsm_pass_M2L d per s src tgt.
Proof.
  unfold tsm_tasks_M2L, tsm_pass_M2L. rewrite fm_fm. apply flat_map_ext. intros l. cbv zeta.
  rewrite fm_fm. apply flat_map_ext. intros g.
  destruct (ilist_block d per l false g) as [internal external].
  rewrite fm_map. reflexivity.
Qed.

Lemma calls_tsm_P2P src tgt : flat_map tk_calls (tsm_tasks_P2P d per src tgt) = tsm_pass_P2P d per src tgt.
Proof.
  unfold tsm_tasks_P2P, tsm_pass_P2P. rewrite fm_fm. apply flat_map_ext. intros g.
  destruct (nlist_block d per (height tgt - 1) false false g) as [internal external].
  rewrite fm_map. reflexivity.
Qed.

(* the task bodies in submission order = the sequential passes in submission order, up to assertion records *)
Theorem omp_tsm_calls : forall stop flags src tgt,
  let s := Z.max 0 stop in
  na (flat_map tk_calls (omp_tsm_tasks d per stop flags src tgt)) =
  na ((if has flags F_P2M then pass_P2M s src else []) ++ (if has flags F_M2M then pass_M2M d s src else []) ++
      (if has flags F_M2L then tsm_pass_M2L d per s src tgt else []) ++ (if has flags F_L2L then pass_L2L d s tgt else []) ++
      (if has flags F_P2P then tsm_pass_P2P d per src tgt else []) ++ (if has flags F_L2P then pass_L2P s tgt else [])).
Proof.
  intros stop flags src tgt s. unfold omp_tsm_tasks. fold s.
  unfold tsm_tasks_P2M, tsm_tasks_M2M, tsm_tasks_L2L, tsm_tasks_L2P.
  rewrite !flat_map_app, !na_app.
  f_equal; [destruct (has flags F_P2M); [apply calls_P2M|reflexivity]|].
  f_equal; [destruct (has flags F_M2M); [apply calls_M2M|reflexivity]|].
  f_equal; [destruct (has flags F_M2L); [rewrite calls_tsm_M2L|]; reflexivity|].
  f_equal; [destruct (has flags F_L2L); [apply calls_L2L|reflexivity]|].
  f_equal; [destruct (has flags F_P2P); [rewrite calls_tsm_P2P|]; reflexivity|].
  destruct (has flags F_L2P); [rewrite calls_L2P|]; reflexivity.
Qed.

Corollary omp_tsm_calls_trace : forall stop flags src tgt,
  na (flat_map tk_calls (omp_tsm_tasks d per stop flags src tgt)) = na (tsm_submission_trace d per stop flags src tgt).
Proof. intros stop flags src tgt. apply omp_tsm_calls. Qed.

End Calls.

(* ------------------------------------------------------------------ *)
(* 2. the submission order computes the sequential executor's state    *)
(* ------------------------------------------------------------------ *)
Lemma in_p2ptsm_between src tgt view c : In c (p2p_between CP2PTsm src tgt view) -> op_flag c = 1 \/ op_flag c = 0.
Proof.
  unfold p2p_between. intros H. apply in_flat_map in H. destruct H as (x & _ & H).
  destruct (pg_find src (x_src x)) as [ks|]; [|destruct H].
  apply in_app_or in H. destruct H as [H|H].
  - right. destruct (pg_find tgt (x_tgt x)) as [k|].
    + apply in_if_assert in H. subst c. reflexivity.
    + destruct H as [H|[]]. subst c. reflexivity.
  - apply in_app_or in H. destruct H as [H|H]; [apply in_if_assert in H; subst c; right; reflexivity|].
    destruct H as [H|[]]. subst c. left. reflexivity.
Qed.

Lemma in_tsm_pass_P2P d per src tgt c : In c (tsm_pass_P2P d per src tgt) -> op_flag c = 1 \/ op_flag c = 0.
Proof.
  unfold tsm_pass_P2P. intros H. apply in_flat_map in H. destruct H as (g & _ & H).
  destruct (nlist_block d per (height tgt - 1) false false g) as [internal external].
  apply in_flat_map in H. destruct H as (gv & _ & H). apply in_p2ptsm_between in H. exact H.
Qed.

(* the near field of the target/source executor can be moved across the L2P of the target tree *)
Lemma tsm_near_swap d per L s src tgt :
  teq L (tsm_pass_P2P d per src tgt ++ pass_L2P s tgt) (pass_L2P s tgt ++ tsm_pass_P2P d per src tgt).
Proof. apply near_swap. intros c Hc. apply (in_tsm_pass_P2P d per src tgt c Hc). Qed.

Theorem omp_tsm_submission_equals_seq : forall d per L stop src tgt,
  st_eq (run L (flat_map tk_calls (omp_tsm_tasks d per stop 63 src tgt)) st0) (run L (execute_tsm d per stop 63 src tgt) st0).
Proof.
  intros d per L stop src tgt.
  rewrite <- (run_na L (flat_map tk_calls (omp_tsm_tasks d per stop 63 src tgt))). rewrite omp_tsm_calls. rewrite run_na.
  unfold execute_tsm.
  change (has 63 F_P2M) with true. change (has 63 F_M2M) with true. change (has 63 F_M2L) with true.
  change (has 63 F_L2L) with true. change (has 63 F_P2P) with true. change (has 63 F_L2P) with true. cbv iota.
  set (s := Z.max 0 stop).
  assert (Ht : teq L (pass_P2M s src ++ pass_M2M d s src ++ tsm_pass_M2L d per s src tgt ++ pass_L2L d s tgt
                      ++ tsm_pass_P2P d per src tgt ++ pass_L2P s tgt)
                     (pass_P2M s src ++ pass_M2M d s src ++ tsm_pass_M2L d per s src tgt ++ pass_L2L d s tgt
                      ++ pass_L2P s tgt ++ tsm_pass_P2P d per src tgt)).
  { apply teq_app; [apply teq_refl|]. apply teq_app; [apply teq_refl|]. apply teq_app; [apply teq_refl|].
    apply teq_app; [apply teq_refl|]. apply tsm_near_swap. }
  apply Ht. apply st_eq_refl.
Qed.

(* ------------------------------------------------------------------ *)
(* 3. every task touches only what it declared                         *)
(* ------------------------------------------------------------------ *)
(* P2PBetweenGroupsTsm writes the results of the TARGET group only *)
Lemma p2ptsm_between_cov L src tgt view c : In c (p2p_between CP2PTsm src tgt view) -> covered L [] (locs_rhs tgt) c.
Proof.
  unfold p2p_between. intros H. apply in_flat_map in H. destruct H as (x & _ & H).
  destruct (pg_find src (x_src x)) as [ks|]; [|destruct H].
  apply in_app_or in H. destruct H as [H|H].
  - destruct (pg_find tgt (x_tgt x)) as [k|].
    + apply in_if_assert in H. subst c. apply covered_assert.
    + destruct H as [<-|[]]. apply covered_assert.
  - apply in_app_or in H. destruct H as [H|H]; [apply in_if_assert in H; subst c; apply covered_assert|].
    destruct H as [<-|[]]. split; cbn [call_writes call_reads]; [|intros y []].
    intros y Hy. apply in_map_iff in Hy. destruct Hy as (p & <- & Hp). apply leaf_at_parts in Hp. exact Hp.
Qed.

Section WF.
Variable d : nat.
Variable per : bool.

Lemma wf_tsm_M2L L s src tgt : 0 <= s -> height src = height tgt ->
  Forall level_ok (t_levels src) -> Forall level_ok (t_levels tgt) ->
  Forall (task_wf L) (tsm_tasks_M2L d per s src tgt).
Proof.
  intros Hs HH Hslev Htlev. unfold tsm_tasks_M2L. apply Forall_forall. intros tk Htk.
  apply in_flat_map in Htk. destruct Htk as (l & Hl & Htk). apply in_zrange in Hl. cbv zeta in Htk.
  assert (Hsl : level_ok (levels_of src l)).
  { rewrite Forall_forall in Hslev. apply Hslev. unfold levels_of. apply znth_In. unfold height in *. lia. }
  set (sgroups := levels_of src l) in *.
  destruct Hsl as [Hgok Hsorted].
  destruct (lev_parts cgroup cg_cells cg_first cg_last cg_n sgroups Hgok Hsorted) as [Hgs _].
  rewrite Forall_forall in Hgok, Hgs.
  apply in_flat_map in Htk. destruct Htk as (g & Hg & Htk).
  rewrite ilist_block_false_eq in Htk.
  set (rc := recs cgroup cg_cells (ilist_cell d per l) g) in Htk.
  assert (Hrc : forall x, In x rc -> 0 <= x_tpos x < zlen (cg_cells g)).
  { intros x Hx. apply records_In in Hx. apply Hx. }
  apply task_wf_covered.
  apply in_map_iff in Htk. destruct Htk as (gv & <- & Hgv). cbn [tk_calls tk_in tk_out].
  apply mib_batches in Hgv. destruct Hgv as (Hsrc & Hincl & _).
  intros c Hc. apply (m2l_between_cov d L l g (fst gv) (snd gv)); [apply Hgok; exact Hsrc|apply Hgs; exact Hsrc| |exact Hc].
  intros x Hx. apply Hrc. apply Hincl in Hx. apply in_app_or in Hx.
  destruct Hx as [Hx|Hx]; apply filter_In in Hx; apply Hx.
Qed.

Lemma wf_tsm_P2P L src tgt : Forall (task_wf L) (tsm_tasks_P2P d per src tgt).
Proof.
  unfold tsm_tasks_P2P. apply Forall_forall. intros tk Htk.
  apply in_flat_map in Htk. destruct Htk as (g & _ & Htk).
  destruct (nlist_block d per (height tgt - 1) false false g) as [internal external].
  apply task_wf_covered.
  apply in_map_iff in Htk. destruct Htk as (gv & <- & _). cbn [tk_calls tk_in tk_out].
  intros c Hc. apply (p2ptsm_between_cov L (fst gv) g (snd gv)). exact Hc.
Qed.

End WF.

Theorem omp_tsm_tasks_wf : forall d per H Bs Bt ms mt stop flags src tgt idxs idxt,
  (0 < d)%nat -> 1 <= H -> tree_ok (parent d) H Bs ms src -> tree_ok (parent d) H Bt mt tgt ->
  particles_ok idxs src -> particles_ok idxt tgt ->
  Forall (task_wf (H - 1)) (omp_tsm_tasks d per stop flags src tgt).
Proof.
  intros d per H Bs Bt ms mt stop flags src tgt idxs idxt _ _ Hsok Htok _ _.
  destruct Hsok as (HHs & Hslev & _). destruct Htok as (HHt & Htlev & _).
  assert (EHs : H - 1 = height src - 1) by (unfold height; lia).
  assert (EHt : H - 1 = height tgt - 1) by (unfold height; lia).
  unfold omp_tsm_tasks, tsm_tasks_P2M, tsm_tasks_M2M, tsm_tasks_L2L, tsm_tasks_L2P. cbv zeta.
  apply Forall_app; split; [destruct (has flags F_P2M); [rewrite EHs; apply wf_P2M|constructor]|].
  apply Forall_app; split; [destruct (has flags F_M2M); [apply wf_M2M|constructor]|].
  apply Forall_app; split.
  { destruct (has flags F_M2L); [|constructor].
    apply wf_tsm_M2L; [lia|unfold height; lia|exact Hslev|exact Htlev]. }
  apply Forall_app; split; [destruct (has flags F_L2L); [apply wf_L2L|constructor]|].
  apply Forall_app; split; [destruct (has flags F_P2P); [apply wf_tsm_P2P|constructor]|].
  destruct (has flags F_L2P); [rewrite EHt; apply wf_L2P|constructor].
Qed.

(* ------------------------------------------------------------------ *)
(* 4. every legal schedule equals the sequential executor              *)
(* ------------------------------------------------------------------ *)
Theorem omp_tsm_equals_seq : forall d per H Bs Bt ms mt stop src tgt idxs idxt sigma,
  (0 < d)%nat -> 1 <= H -> tree_ok (parent d) H Bs ms src -> tree_ok (parent d) H Bt mt tgt ->
  particles_ok idxs src -> particles_ok idxt tgt ->
  legal (omp_tsm_tasks d per stop 63 src tgt) sigma ->
  st_eq (run_schedule (H - 1) (omp_tsm_tasks d per stop 63 src tgt) sigma st0)
        (run (H - 1) (execute_tsm d per stop 63 src tgt) st0).
Proof.
  intros d per H Bs Bt ms mt stop src tgt idxs idxt sigma Hd HH Hsok Htok Hsp Htp Hl.
  eapply st_eq_trans.
  - apply determinism; [exact (omp_tsm_tasks_wf d per H Bs Bt ms mt stop 63 src tgt idxs idxt Hd HH Hsok Htok Hsp Htp)|exact Hl].
  - rewrite run_submission_order. apply omp_tsm_submission_equals_seq.
Qed.

(* also when the runtime treats `commute` as mutexinoutset and swaps two writers of the same buffer *)
Theorem omp_tsm_equals_seq_commute : forall d per H Bs Bt ms mt stop src tgt idxs idxt sigma,
  (0 < d)%nat -> 1 <= H -> tree_ok (parent d) H Bs ms src -> tree_ok (parent d) H Bt mt tgt ->
  particles_ok idxs src -> particles_ok idxt tgt ->
  legal_commute (H - 1) (omp_tsm_tasks d per stop 63 src tgt) sigma ->
  st_eq (run_schedule (H - 1) (omp_tsm_tasks d per stop 63 src tgt) sigma st0)
        (run (H - 1) (execute_tsm d per stop 63 src tgt) st0).
Proof.
  intros d per H Bs Bt ms mt stop src tgt idxs idxt sigma Hd HH Hsok Htok Hsp Htp Hl.
  eapply st_eq_trans.
  - apply determinism_commute;
      [exact (omp_tsm_tasks_wf d per H Bs Bt ms mt stop 63 src tgt idxs idxt Hd HH Hsok Htok Hsp Htp)|exact Hl].
  - rewrite run_submission_order. apply omp_tsm_submission_equals_seq.
Qed.

(* ------------------------------------------------------------------ *)
(* 5. exactly once under every legal schedule                          *)
(* ------------------------------------------------------------------ *)
(* generalised: different block sizes / grouping modes; with the two "nothing else" clauses *)
Theorem omp_tsm_exactly_once_gen : forall d H Bs Bt ms mt s src tgt idxs idxt sigma, (0 < d)%nat -> 1 <= H ->
  tree_ok (parent d) H Bs ms src -> tree_ok (parent d) H Bt mt tgt -> particles_ok idxs src -> particles_ok idxt tgt ->
  Forall (fun i => 0 <= i < 2 ^ ((H - 1) * dz d)) idxs -> Forall (fun i => 0 <= i < 2 ^ ((H - 1) * dz d)) idxt -> s <= 2 ->
  legal (omp_tsm_tasks d false s 63 src tgt) sigma ->
  let st := run_schedule (H - 1) (omp_tsm_tasks d false s 63 src tgt) sigma st0 in
  (forall p q, 0 <= p < zlen idxt -> 0 <= q < zlen idxs -> reached st p q = 1%nat) /\
  (forall p q, ~ (0 <= q < zlen idxs) -> reached st p q = 0%nat) /\
  (forall p q, ~ (0 <= p < zlen idxt) -> reached st p q = 0%nat).
Proof.
  intros d H Bs Bt ms mt s src tgt idxs idxt sigma Hd HH Hsok Htok Hsp Htp Hsr Htr Hs Hl st.
  pose proof (omp_tsm_equals_seq d false H Bs Bt ms mt s src tgt idxs idxt sigma Hd HH Hsok Htok Hsp Htp Hl) as [_ [_ E]].
  destruct (tsm_exactly_once_gen d H Bs Bt ms mt s src tgt idxs idxt Hd HH Hsok Htok Hsp Htp Hsr Htr Hs) as (E1 & E2 & E3).
  unfold st, reached in *. repeat split; intros p q; rewrite E; [apply E1|apply E2|apply E3].
Qed.

Theorem omp_tsm_exactly_once : forall d H B mode s src tgt idxs idxt sigma, (0 < d)%nat -> 1 <= H ->
  tree_ok (parent d) H B mode src -> tree_ok (parent d) H B mode tgt -> particles_ok idxs src -> particles_ok idxt tgt ->
  Forall (fun i => 0 <= i < 2 ^ ((H - 1) * dz d)) idxs -> Forall (fun i => 0 <= i < 2 ^ ((H - 1) * dz d)) idxt ->
  idxs <> [] -> idxt <> [] -> s <= 2 ->
  legal (omp_tsm_tasks d false s 63 src tgt) sigma ->
  forall p q, 0 <= p < zlen idxt -> 0 <= q < zlen idxs ->
    reached (run_schedule (H - 1) (omp_tsm_tasks d false s 63 src tgt) sigma st0) p q = 1%nat.
Proof.
  intros d H B mode s src tgt idxs idxt sigma Hd HH Hsok Htok Hsp Htp Hsr Htr _ _ Hs Hl.
  exact (proj1 (omp_tsm_exactly_once_gen d H B B mode mode s src tgt idxs idxt sigma Hd HH Hsok Htok Hsp Htp Hsr Htr Hs Hl)).
Qed.

(* ------------------------------------------------------------------ *)
(* 6. unfiltered form on well-formed trees                             *)
(* ------------------------------------------------------------------ *)
(* on two well-formed trees the task bodies are literally the sequential passes, in submission order *)
Theorem omp_tsm_calls_exact : forall d per H Bs Bt ms mt stop flags src tgt, 1 <= H ->
  tree_ok (parent d) H Bs ms src -> tree_ok (parent d) H Bt mt tgt ->
  flat_map tk_calls (omp_tsm_tasks d per stop flags src tgt) = tsm_submission_trace d per stop flags src tgt.
Proof.
  intros d per H Bs Bt ms mt stop flags src tgt HH Hsok Htok.
  unfold omp_tsm_tasks, tsm_submission_trace, tsm_tasks_P2M, tsm_tasks_M2M, tsm_tasks_L2L, tsm_tasks_L2P.
  set (s := Z.max 0 stop). cbv zeta. rewrite !flat_map_app.
  assert (Hs : 0 <= s) by (unfold s; lia).
  f_equal; [destruct (has flags F_P2M); [apply (exact_P2M d H Bs ms src HH Hsok)|reflexivity]|].
  f_equal; [destruct (has flags F_M2M); [apply (exact_M2M d H Bs ms src Hsok); exact Hs|reflexivity]|].
  f_equal; [destruct (has flags F_M2L); [apply calls_tsm_M2L|reflexivity]|].
  f_equal; [destruct (has flags F_L2L); [apply (exact_L2L d H Bt mt tgt Htok); exact Hs|reflexivity]|].
  f_equal; [destruct (has flags F_P2P); [apply calls_tsm_P2P|reflexivity]|].
  destruct (has flags F_L2P); [apply calls_L2P|reflexivity].
Qed.

(* ------------------------------------------------------------------ *)
(* 7. the statements are not vacuous: a legal schedule other than the submission order *)
(* ------------------------------------------------------------------ *)
Notation task0 := {| tk_in := []; tk_out := []; tk_calls := [] |}.

(* boolean legality check and its soundness *)
Definition legalb (ts : list task) (sigma : list nat) : bool :=
  let n := length ts in
  list_eqb Nat.eqb (isort sigma) (seq 0 n) &&
  forallb (fun i => forallb (fun j =>
      negb ((i <? j)%nat && conflictb (nth i ts task0) (nth j ts task0)) || (pos_in i sigma <? pos_in j sigma)%nat)
    (seq 0 n)) (seq 0 n).

Lemma list_eqb_nat_eq : forall l1 l2 : list nat, list_eqb Nat.eqb l1 l2 = true -> l1 = l2.
Proof.
  induction l1 as [|a l1 IH]; intros [|b l2] H; cbn [list_eqb] in H; try discriminate; [reflexivity|].
  apply andb_prop in H. destruct H as [H1 H2]. apply Nat.eqb_eq in H1. subst b. f_equal. apply IH. exact H2.
Qed.

Lemma ins_perm x : forall l, Permutation (x :: l) (ins x l).
Proof.
  induction l as [|y l IH]; cbn [ins]; [apply Permutation_refl|].
  destruct (x <=? y)%nat; [apply Permutation_refl|].
  apply (perm_trans (perm_swap y x l)). apply perm_skip. exact IH.
Qed.

Lemma isort_is_perm : forall l, Permutation l (isort l).
Proof.
  induction l as [|x l IH]; [apply perm_nil|]. cbn [isort fold_right]. fold (isort l).
  apply (perm_trans (perm_skip x IH)). apply ins_perm.
Qed.

Lemma legalb_legal ts sigma : legalb ts sigma = true -> legal ts sigma.
Proof.
  unfold legalb. cbv zeta. intros H. apply andb_prop in H. destruct H as [Hp Hc]. split.
  - apply list_eqb_nat_eq in Hp. rewrite <- Hp. apply isort_is_perm.
  - intros i j Hij Hcf. rewrite forallb_forall in Hc.
    assert (Hi : In i (seq 0 (length ts))) by (apply in_seq; lia).
    assert (Hj : In j (seq 0 (length ts))) by (apply in_seq; lia).
    specialize (Hc i Hi). rewrite forallb_forall in Hc. specialize (Hc j Hj).
    rewrite Hcf in Hc. assert (Hlt : (i <? j)%nat = true) by (apply Nat.ltb_lt; lia). rewrite Hlt in Hc.
    cbn [andb negb orb] in Hc. apply Nat.ltb_lt in Hc. exact Hc.
Qed.

(* a small pair of trees (dimension 2, height 3): the schedule that runs the P2M tasks in reverse order (then everything else
   in submission order) is legal and differs from the submission order; the fully reversed order is not legal (an M2L task
   would run before the P2M task that produces the multipoles it reads); by [omp_tsm_exactly_once_gen] the legal schedule
   gives every target every source exactly once *)
Definition ex_src := build (parent 2) 3 3 true [0;3;3;5;9;10;15;12].
Definition ex_tgt := build (parent 2) 3 2 false [1;3;6;6;11;14;15].
Definition ex_tasks := omp_tsm_tasks 2 false 2 63 ex_src ex_tgt.
Definition ex_sigma : list nat :=
  rev (seq 0 (length (tsm_tasks_P2M 2 ex_src)))
  ++ seq (length (tsm_tasks_P2M 2 ex_src)) (length ex_tasks - length (tsm_tasks_P2M 2 ex_src)).

Example ex_tsm_legal :
  legal ex_tasks ex_sigma /\ ex_sigma <> seq 0 (length ex_tasks) /\ (2 <= length (tsm_tasks_P2M 2 ex_src))%nat
  /\ ~ legal ex_tasks (rev (seq 0 (length ex_tasks))).
Proof.
  split; [apply legalb_legal; vm_compute; reflexivity|]. split; [vm_compute; discriminate|]. split; [vm_compute; lia|].
  intros [_ Hc].
  (* task 0 (a P2M task) and a later task that conflicts with it *)
  assert (Hex : existsb (fun j => (0 <? j)%nat && conflictb (nth 0%nat ex_tasks task0) (nth j ex_tasks task0)
                                  && negb (pos_in 0%nat (rev (seq 0 (length ex_tasks))) <? pos_in j (rev (seq 0 (length ex_tasks))))%nat)
                        (seq 0 (length ex_tasks)) = true) by (vm_compute; reflexivity).
  apply existsb_exists in Hex. destruct Hex as (j & Hj & Hb). apply in_seq in Hj.
  apply andb_prop in Hb. destruct Hb as [Hb Hpos]. apply andb_prop in Hb. destruct Hb as [Hlt Hcf].
  apply Nat.ltb_lt in Hlt. specialize (Hc 0%nat j ltac:(lia) Hcf).
  apply negb_true_iff in Hpos. apply Nat.ltb_ge in Hpos. lia.
Qed.

Example ex_tsm_exactly_once : forall p q, 0 <= p < 7 -> 0 <= q < 8 ->
  reached (run_schedule 2 ex_tasks ex_sigma st0) p q = 1%nat.
Proof.
  intros p q Hp Hq.
  destruct (build_tree_ok 2 3 3 true [0;3;3;5;9;10;15;12] ltac:(lia) ltac:(lia) ltac:(discriminate)
              ltac:(repeat constructor; cbn; lia)) as (Hsok & Hsp).
  destruct (build_tree_ok 2 3 2 false [1;3;6;6;11;14;15] ltac:(lia) ltac:(lia) ltac:(discriminate)
              ltac:(repeat constructor; cbn; lia)) as (Htok & Htp).
  refine (proj1 (omp_tsm_exactly_once_gen 2 3 3 2 true false 2 ex_src ex_tgt _ _ ex_sigma ltac:(lia) ltac:(lia)
            Hsok Htok Hsp Htp _ _ ltac:(lia) (proj1 ex_tsm_legal)) p q _ _).
  - repeat constructor; cbn; lia.
  - repeat constructor; cbn; lia.
  - exact Hp.
  - exact Hq.
Qed.

Print Assumptions omp_tsm_calls.
Print Assumptions omp_tsm_calls_exact.
Print Assumptions omp_tsm_submission_equals_seq.
Print Assumptions omp_tsm_tasks_wf.
Print Assumptions omp_tsm_equals_seq.
Print Assumptions omp_tsm_equals_seq_commute.
Print Assumptions omp_tsm_exactly_once_gen.
Print Assumptions omp_tsm_exactly_once.
Print Assumptions legalb_legal.
Print Assumptions ex_tsm_legal.
Print Assumptions ex_tsm_exactly_once.
