(* Model of the task submission of TbfOpenmpAlgorithm (src/algorithms/openmp/tbfopenmpalgorithm.hpp):
   the same loops as the sequential executor (Exec/ExecDefs.v), each wrapper call wrapped in a task that declares
   depend(in: ...) / depend(commute: ...) on whole group buffers.  Buffers are represented by the locations they hold. *)
From Tbfmm Require Import Base.Prelude Base.Search Index.MortonDefs Tree.GroupDefs Index.ListsDefs Tree.BuildDefs
     Exec.ExecDefs Spec.Kernel Sched.TaskDefs.
Local Open Scope Z_scope.

Section Omp.
Variable d : nat.
Variable per : bool.
Notation par := (parent d).

(* getMultipolePtr / getLocalPtr / getRhsPtr of a group, as sets of locations *)
Definition locs_mult (l : Z) (g : cgroup) : list loc := map (LMult l) (cg_cells g).
Definition locs_loc (l : Z) (g : cgroup) : list loc := map (LLoc l) (cg_cells g).
Definition locs_rhs (g : pgroup) : list loc := map LRhs (flat_map lf_parts (pg_leaves g)).
(* particle symbolic data (getDataPtr) is never written by any task: its depend(in) clauses order nothing and are omitted *)

(* the (lower group, upper group) pairs visited by the two-cursor level loop, in order (same cursor logic as [staircase]) *)
Fixpoint staircase_visits (fuel : nat) (lowers uppers : list cgroup) : list (cgroup * cgroup) :=
  match fuel with
  | O => []
  | S f =>
      match uppers, lowers with
      | u :: urest, l :: lrest =>
          if par (cg_last l) <=? cg_last u then
            match lrest with
            | l2 :: _ => if cg_last u <? par (cg_first l2)
                         then (l, u) :: staircase_visits f lrest urest
                         else (l, u) :: staircase_visits f lrest uppers
            | [] => [(l, u)]
            end
          else (l, u) :: staircase_visits f lowers urest
      | _, _ => []
      end
  end.

Definition tasks_P2M (s : Z) (t : tree) : list task :=
  if s <? height t then
    map (fun cp => let '(cg, pg) := cp in
      {| tk_in := []; tk_out := locs_mult (height t - 1) cg;
         tk_calls := flat_map (fun cl => let '(c, lf) := cl in
                        (if lf_index lf =? c then [] else [CAssert 21]) ++ [CP2M c (lf_parts lf)])
                      (combine (cg_cells cg) (pg_leaves pg)) |})
      (combine (levels_of t (height t - 1)) (t_pgroups t))
  else [].

Definition tasks_M2M (s : Z) (t : tree) : list task :=
  flat_map (fun l =>
    let uppers := levels_of t l in let lowers := levels_of t (l + 1) in
    map (fun lu => {| tk_in := locs_mult (l + 1) (fst lu); tk_out := locs_mult l (snd lu);
                      tk_calls := sibling_wrapper d (CM2M l) (fst lu) (snd lu) |})
        (staircase_visits (staircase_fuel lowers uppers) lowers uppers))
    (rev (zrange s (height t - 2))).

Definition tasks_L2L (s : Z) (t : tree) : list task :=
  flat_map (fun l =>
    let uppers := levels_of t l in let lowers := levels_of t (l + 1) in
    map (fun lu => {| tk_in := locs_loc l (snd lu); tk_out := locs_loc (l + 1) (fst lu);
                      tk_calls := sibling_wrapper d (CL2L l) (fst lu) (snd lu) |})
        (staircase_visits (staircase_fuel lowers uppers) lowers uppers))
    (zrange s (height t - 2)).

Definition tasks_M2L (s : Z) (t : tree) : list task :=
  flat_map (fun l =>
    let groups := levels_of t l in
    flat_map (fun g =>
      let '(internal, external) := ilist_block d per l true g in
      map (fun gv => {| tk_in := locs_mult l (fst gv); tk_out := locs_loc l g;
                        tk_calls := m2l_between d l g (fst gv) (snd gv) |})
          (map_indexes_and_blocks cg_first cg_last external groups)
      ++ [{| tk_in := locs_mult l g; tk_out := locs_loc l g; tk_calls := m2l_in_group d l g internal |}]) groups)
    (zrange s (height t - 1)).

Definition tasks_P2P (t : tree) : list task :=
  let groups := t_pgroups t in
  flat_map (fun g =>
    let '(internal, external) := nlist_block d per (height t - 1) true true g in
    map (fun gv => {| tk_in := []; tk_out := locs_rhs (fst gv) ++ locs_rhs g;
                      tk_calls := p2p_between CP2P (fst gv) g (snd gv) |})
        (map_indexes_and_blocks pg_first pg_last external groups)
    ++ [{| tk_in := []; tk_out := locs_rhs g; tk_calls := p2p_in_group g internal ++ p2p_inner g |}]) groups.

Definition tasks_L2P (s : Z) (t : tree) : list task :=
  if s <? height t then
    map (fun cp => let '(cg, pg) := cp in
      {| tk_in := locs_loc (height t - 1) cg; tk_out := locs_rhs pg;
         tk_calls := flat_map (fun cl => let '(c, lf) := cl in
                        (if lf_index lf =? c then [] else [CAssert 229]) ++ [CL2P c (lf_parts lf)])
                      (combine (cg_cells cg) (pg_leaves pg)) |})
      (combine (levels_of t (height t - 1)) (t_pgroups t))
  else [].

(* execute(): submission order P2M, M2M, M2L, L2L, P2P, L2P (the near field is submitted BEFORE L2P here) *)
Definition omp_tasks (stop flags : Z) (t : tree) : list task :=
  let s := Z.max 0 stop in
  (if has flags F_P2M then tasks_P2M s t else [])
  ++ (if has flags F_M2M then tasks_M2M s t else [])
  ++ (if has flags F_M2L then tasks_M2L s t else [])
  ++ (if has flags F_L2L then tasks_L2L s t else [])
  ++ (if has flags F_P2P then tasks_P2P t else [])
  ++ (if has flags F_L2P then tasks_L2P s t else []).

End Omp.

(* the dependence clauses written above are those of the source: (mode, buffer kind, wrapper argument) per site,
   compared with the regenerated descriptors in Properties_C03.v *)
