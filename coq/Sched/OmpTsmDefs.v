(* Model of the task submission of TbfOpenmpAlgorithmTsm (src/algorithms/openmp/tbfopenmpalgorithmtsm.hpp), the
   TARGET/SOURCE task executor: the same loops as the sequential target/source executor (Exec/ExecTsmDefs.v), each wrapper
   call wrapped in a task that declares depend(in: ...) / depend(commute: ...) on whole group buffers.
   Locations: [LMult l c] = multipole of a SOURCE cell, [LLoc l c] = local of a TARGET cell, [LRhs p] = result of a TARGET
   particle (source particles have no result buffer in this model; particle symbolic data are never written and their
   depend(in) clauses are omitted, as in Sched/OmpDefs.v). *)
From Tbfmm Require Import Base.Prelude Base.Search Index.MortonDefs Tree.GroupDefs Index.ListsDefs Tree.BuildDefs
     Exec.ExecDefs Exec.ExecTsmDefs Spec.Kernel Sched.TaskDefs Sched.OmpDefs.
Local Open Scope Z_scope.

Section OmpTsm.
Variable d : nat.
Variable per : bool.

(* P2M (hpp:43-78): getLeafGroupsSource / getParticleGroupsSource; in: particle data (omitted), commute: leaf multipoles of
   the source leaf group; body = kernelWrapper.P2M.  Same site as the single-tree executor, on the source tree. *)
Definition tsm_tasks_P2M (s : Z) (src : tree) : list task := tasks_P2M s src.

(* M2M (hpp:80-121): getCellGroupsAtLevelSource(l) / (l+1), two-cursor loop; in: lower multipoles, commute: upper multipoles *)
Definition tsm_tasks_M2M (s : Z) (src : tree) : list task := tasks_M2M d s src.

(* M2L (hpp:123-167): for every level, for every TARGET group: getInteractionListForBlock(group, level, false);
   second ++ first (external ++ internal) mapped by TbfMapIndexesAndBlocks onto the SOURCE groups of the level; one task per
   source group hit: in: multipoles of that source group, commute: locals of the target group; body = M2LBetweenGroups.
   There is no in-group task. *)
Definition tsm_tasks_M2L (s : Z) (src tgt : tree) : list task :=
  flat_map (fun l =>
    let sgroups := levels_of src l in
    flat_map (fun g =>
      let '(internal, external) := ilist_block d per l false g in
      map (fun gv => {| tk_in := locs_mult l (fst gv); tk_out := locs_loc l g;
                        tk_calls := m2l_between d l g (fst gv) (snd gv) |})
          (map_indexes_and_blocks cg_first cg_last (external ++ internal) sgroups))
      (levels_of tgt l))
    (zrange s (height tgt - 1)).

(* L2L (hpp:169-210): getCellGroupsAtLevelTarget(l) / (l+1); in: upper locals, commute: lower locals *)
Definition tsm_tasks_L2L (s : Z) (tgt : tree) : list task := tasks_L2L d s tgt.

(* L2P (hpp:212-251): getLeafGroupsTarget / getParticleGroupsTarget; in: leaf locals (+ particle data), commute: rhs of the
   target particle group *)
Definition tsm_tasks_L2P (s : Z) (tgt : tree) : list task := tasks_L2P s tgt.

(* P2P (hpp:253-302): for every TARGET particle group: getNeighborListForBlock(group, H-1, false, false);
   second ++ first ++ getSelfListForBlock(group) mapped onto the SOURCE particle groups; one task per source group hit:
   in: data of both groups (omitted), commute: rhs of the TARGET group only; body = P2PBetweenGroupsTsm *)
Definition tsm_tasks_P2P (src tgt : tree) : list task :=
  flat_map (fun g =>
    let '(internal, external) := nlist_block d per (height tgt - 1) false false g in
    map (fun gv => {| tk_in := []; tk_out := locs_rhs g;
                      tk_calls := p2p_between CP2PTsm (fst gv) g (snd gv) |})
        (map_indexes_and_blocks pg_first pg_last (external ++ internal ++ self_block d g) (t_pgroups src)))
    (t_pgroups tgt).

(* execute() (hpp:330-360): submission order P2M, M2M, M2L, L2L, P2P, L2P (the near field is submitted BEFORE L2P, as in the
   single-tree task executor; the sequential target/source executor runs L2P before P2P) *)
Definition omp_tsm_tasks (stop flags : Z) (src tgt : tree) : list task :=
  let s := Z.max 0 stop in
  (if has flags F_P2M then tsm_tasks_P2M s src else [])
  ++ (if has flags F_M2M then tsm_tasks_M2M s src else [])
  ++ (if has flags F_M2L then tsm_tasks_M2L s src tgt else [])
  ++ (if has flags F_L2L then tsm_tasks_L2L s tgt else [])
  ++ (if has flags F_P2P then tsm_tasks_P2P src tgt else [])
  ++ (if has flags F_L2P then tsm_tasks_L2P s tgt else []).

(* the sequential passes in the order of submission (for comparison with the task bodies) *)
Definition tsm_submission_trace (stop flags : Z) (src tgt : tree) : list call :=
  let s := Z.max 0 stop in
  (if has flags F_P2M then pass_P2M s src else [])
  ++ (if has flags F_M2M then pass_M2M d s src else [])
  ++ (if has flags F_M2L then tsm_pass_M2L d per s src tgt else [])
  ++ (if has flags F_L2L then pass_L2L d s tgt else [])
  ++ (if has flags F_P2P then tsm_pass_P2P d per src tgt else [])
  ++ (if has flags F_L2P then pass_L2P s tgt else []).

End OmpTsm.

(* ---------------- validation by computation ---------------- *)
(* boolean version of [task_wf] *)
Definition task_wfb (L : Z) (t : task) : bool :=
  forallb (fun c => forallb (fun x => lmem x (tk_out t)) (call_writes L c)
                    && forallb (fun x => lmem x (tk_in t) || lmem x (tk_out t)) (call_reads L c)) (tk_calls t).

Definition not_assertb (c : call) : bool := match c with CAssert _ => false | _ => true end.

(* the checks run on one pair of trees: the task bodies in submission order are the sequential passes in submission order
   (literally, hence also after removing assertion records); no assertion record; every task is well-formed *)
Definition tsm_check (d : nat) (per : bool) (H stop : Z) (src tgt : tree) : Prop :=
  flat_map tk_calls (omp_tsm_tasks d per stop 63 src tgt) = tsm_submission_trace d per stop 63 src tgt
  /\ filter not_assertb (flat_map tk_calls (omp_tsm_tasks d per stop 63 src tgt))
     = filter not_assertb (tsm_submission_trace d per stop 63 src tgt)
  /\ forallb not_assertb (flat_map tk_calls (omp_tsm_tasks d per stop 63 src tgt)) = true
  /\ forallb (task_wfb (H - 1)) (omp_tsm_tasks d per stop 63 src tgt) = true.

Example omp_tsm_example_d3 :
  let src := build (parent 3) 4 2 false [5;5;63;0;9;12;9;300;301;511] in
  let tgt := build (parent 3) 4 3 true [7;63;64;65;300;2;2;100;448] in
  tsm_check 3 false 4 2 src tgt /\ tsm_check 3 true 4 0 src tgt.
Proof. vm_compute. repeat split; reflexivity. Qed.

Example omp_tsm_example_d1 :
  let src := build (parent 1) 4 2 false [0;1;1;3;6;7] in
  let tgt := build (parent 1) 4 1 true [2;3;4;4;7] in
  tsm_check 1 false 4 1 src tgt /\ tsm_check 1 true 4 0 src tgt.
Proof. vm_compute. repeat split; reflexivity. Qed.

Example omp_tsm_example_d2 :
  let src := build (parent 2) 3 3 true [0;3;3;5;9;10;15;12] in
  let tgt := build (parent 2) 3 2 false [1;3;6;6;11;14;15] in
  tsm_check 2 false 3 2 src tgt /\ tsm_check 2 true 3 (-1) src tgt
  /\ (let st := run 2 (flat_map tk_calls (omp_tsm_tasks 2 false 2 63 src tgt)) st0 in
      forallb (fun p => forallb (fun q => Nat.eqb (reached st p q) 1%nat) (zseq 8)) (zseq 7) = true).
Proof. vm_compute. repeat split; reflexivity. Qed.

(* the declared sets are needed: dropping the source multipoles from the M2L tasks' [in] makes the check fail *)
Example omp_tsm_wfb_not_vacuous :
  let src := build (parent 2) 3 3 true [0;3;3;5;9;10;15;12] in
  let tgt := build (parent 2) 3 2 false [1;3;6;6;11;14;15] in
  forallb (task_wfb 2) (map (fun t => {| tk_in := []; tk_out := tk_out t; tk_calls := tk_calls t |})
                            (tsm_tasks_M2L 2 false 2 src tgt)) = false
  /\ existsb (fun t => match tk_calls t with [] => false | _ => true end) (tsm_tasks_M2L 2 false 2 src tgt) = true
  /\ existsb (fun t => match tk_calls t with [] => false | _ => true end) (tsm_tasks_P2P 2 false src tgt) = true.
Proof. vm_compute. repeat split; reflexivity. Qed.
