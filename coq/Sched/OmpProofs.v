(* The task submission of the OpenMP executor (Sched/OmpDefs.v) against the sequential executor (Exec/ExecDefs.v):
   1. the bodies of the submitted tasks are, pass by pass, the calls of the sequential passes (up to the assertion markers);
   2. run in submission order they compute the same state as the sequential executor (near field moved across L2P);
   3. every task touches only the locations it declared ([task_wf]). *)
From Tbfmm Require Import Base.Prelude Base.Search Index.MortonDefs Tree.GroupDefs Index.ListsDefs Tree.BuildDefs
  Tree.Invariant Tree.LookupProofs Exec.ExecDefs Spec.Elem Spec.Kernel Spec.ExactlyOnce Spec.Flags
  Exec.RefineM2M Exec.RefineM2L Sched.TaskDefs Sched.OmpDefs.
From Coq Require Import Sorting.Sorted Sorting.Permutation ZifyBool.
Local Open Scope Z_scope.

(* ------------------------------------------------------------------ *)
(* 0. filtering the assertion markers                                  *)
(* ------------------------------------------------------------------ *)
Definition nonassert (c : call) : bool := match c with CAssert _ => false | _ => true end.
Notation na := (filter nonassert).

Lemma na_app a b : na (a ++ b) = na a ++ na b.
Proof. apply filter_app. Qed.

Lemma na_chk (b : bool) id : na (if b then [] else [CAssert id]) = [].
Proof. destruct b; reflexivity. Qed.

Lemma na_fm {A} (f : A -> list call) l : na (flat_map f l) = flat_map (fun a => na (f a)) l.
Proof. induction l as [|a l IH]; [reflexivity|]. cbn [flat_map]. rewrite na_app, IH. reflexivity. Qed.

Lemma na_fm_ext {A} (f g : A -> list call) l : (forall a, na (f a) = na (g a)) -> na (flat_map f l) = na (flat_map g l).
Proof. intros H. rewrite !na_fm. apply flat_map_ext. exact H. Qed.

(* ------------------------------------------------------------------ *)
(* 1. the tasks perform the sequential executor's calls                *)
(* ------------------------------------------------------------------ *)
Theorem staircase_as_visits : forall d fuel mk lowers uppers,
  na (staircase d fuel mk lowers uppers)
  = na (flat_map (fun lu => sibling_wrapper d mk (fst lu) (snd lu)) (staircase_visits d fuel lowers uppers)).
Proof.
  intros d. induction fuel as [|f IH]; intros mk lowers uppers; [reflexivity|].
  cbn [staircase staircase_visits].
  destruct uppers as [|u urest]; [reflexivity|]. destruct lowers as [|l lrest]; [reflexivity|].
  destruct (parent d (cg_last l) <=? cg_last u).
  - destruct lrest as [|l2 lr].
    + cbn [flat_map fst snd]. rewrite app_nil_r, na_app, na_chk. reflexivity.
    + destruct (cg_last u <? parent d (cg_first l2)); cbn [flat_map fst snd]; rewrite !na_app, na_chk, IH; reflexivity.
  - cbn [flat_map fst snd]. rewrite !na_app, na_chk, IH. reflexivity.
Qed.

Section Calls.
Variable d : nat.
Variable per : bool.

Lemma calls_P2M s t : na (flat_map tk_calls (tasks_P2M s t)) = na (pass_P2M s t).
Proof.
  unfold tasks_P2M, pass_P2M. destruct (s <? height t); [|reflexivity].
  rewrite na_app, na_chk. cbn [app]. rewrite fm_map. apply na_fm_ext. intros [cg pg].
  cbn [tk_calls]. rewrite na_app, na_chk. reflexivity.
Qed.

Lemma calls_L2P s t : flat_map tk_calls (tasks_L2P s t) = pass_L2P s t.
Proof.
  unfold tasks_L2P, pass_L2P. destruct (s <? height t); [|reflexivity].
  rewrite fm_map. apply flat_map_ext. intros [cg pg]. reflexivity.
Qed.

Lemma calls_M2M s t : na (flat_map tk_calls (tasks_M2M d s t)) = na (pass_M2M d s t).
Proof.
  unfold tasks_M2M, pass_M2M. rewrite fm_fm. apply na_fm_ext. intros l. cbv zeta.
  rewrite fm_map. cbn [tk_calls]. symmetry. apply staircase_as_visits.
Qed.

Lemma calls_L2L s t : na (flat_map tk_calls (tasks_L2L d s t)) = na (pass_L2L d s t).
Proof.
  unfold tasks_L2L, pass_L2L. rewrite fm_fm. apply na_fm_ext. intros l. cbv zeta.
  rewrite fm_map. cbn [tk_calls]. symmetry. apply staircase_as_visits.
Qed.

Lemma calls_M2L s t : flat_map tk_calls (tasks_M2L d per s t) = pass_M2L d per s t.
Proof.
  unfold tasks_M2L, pass_M2L. rewrite fm_fm. apply flat_map_ext. intros l. cbv zeta.
  rewrite fm_fm. apply flat_map_ext. intros g.
  destruct (ilist_block d per l true g) as [internal external].
  rewrite flat_map_app, fm_map. cbn [flat_map tk_calls]. rewrite app_nil_r. reflexivity.
Qed.

Lemma calls_P2P t : flat_map tk_calls (tasks_P2P d per t) = pass_P2P d per t.
Proof.
  unfold tasks_P2P, pass_P2P. cbv zeta. rewrite fm_fm. apply flat_map_ext. intros g.
  destruct (nlist_block d per (height t - 1) true true g) as [internal external].
  rewrite flat_map_app, fm_map. cbn [flat_map tk_calls]. rewrite app_nil_r. reflexivity.
Qed.

Theorem omp_calls : forall stop flags t,
  let s := Z.max 0 stop in
  na (flat_map tk_calls (omp_tasks d per stop flags t)) =
  na ((if has flags F_P2M then pass_P2M s t else []) ++ (if has flags F_M2M then pass_M2M d s t else []) ++
      (if has flags F_M2L then pass_M2L d per s t else []) ++ (if has flags F_L2L then pass_L2L d s t else []) ++
      (if has flags F_P2P then pass_P2P d per t else []) ++ (if has flags F_L2P then pass_L2P s t else [])).
Proof.
  intros stop flags t s. unfold omp_tasks. fold s.
  rewrite !flat_map_app, !na_app.
  f_equal; [destruct (has flags F_P2M); [apply calls_P2M|reflexivity]|].
  f_equal; [destruct (has flags F_M2M); [apply calls_M2M|reflexivity]|].
  f_equal; [destruct (has flags F_M2L); [rewrite calls_M2L|]; reflexivity|].
  f_equal; [destruct (has flags F_L2L); [apply calls_L2L|reflexivity]|].
  f_equal; [destruct (has flags F_P2P); [rewrite calls_P2P|]; reflexivity|].
  destruct (has flags F_L2P); [rewrite calls_L2P|]; reflexivity.
Qed.

End Calls.

(* ------------------------------------------------------------------ *)
(* 2. the submission order computes the sequential executor's state    *)
(* ------------------------------------------------------------------ *)
Lemma run_na L : forall tr s, run L (na tr) s = run L tr s.
Proof.
  induction tr as [|c tr IH]; intros s; [reflexivity|].
  change (run L (c :: tr) s) with (run L tr (step L s c)).
  destruct c; cbn [filter nonassert];
    try (match goal with |- run L (?c :: _) _ = _ => change (run L (c :: na tr) s) with (run L (na tr) (step L s c)) end; apply IH).
  cbn [step]. apply IH.
Qed.

Theorem omp_submission_equals_seq : forall d per L stop t,
  st_eq (run L (flat_map tk_calls (omp_tasks d per stop 63 t)) st0) (run L (execute d per stop 63 t) st0).
Proof.
  intros d per L stop t.
  rewrite <- (run_na L (flat_map tk_calls (omp_tasks d per stop 63 t))). rewrite omp_calls. rewrite run_na.
  unfold execute.
  change (has 63 F_P2M) with true. change (has 63 F_M2M) with true. change (has 63 F_M2L) with true.
  change (has 63 F_L2L) with true. change (has 63 F_P2P) with true. change (has 63 F_L2P) with true. cbv iota.
  set (s := Z.max 0 stop).
  assert (Ht : teq L (pass_P2M s t ++ pass_M2M d s t ++ pass_M2L d per s t ++ pass_L2L d s t ++ pass_P2P d per t ++ pass_L2P s t)
                     (pass_P2M s t ++ pass_M2M d s t ++ pass_M2L d per s t ++ pass_L2L d s t ++ pass_L2P s t ++ pass_P2P d per t)).
  { apply teq_app; [apply teq_refl|]. apply teq_app; [apply teq_refl|]. apply teq_app; [apply teq_refl|].
    apply teq_app; [apply teq_refl|]. apply near_swap.
    intros c Hc. apply (in_pass_P2P d per s t c) in Hc. destruct Hc as [Hc _]. exact Hc. }
  apply Ht. apply st_eq_refl.
Qed.

(* ------------------------------------------------------------------ *)
(* 3. every task touches only what it declared                         *)
(* ------------------------------------------------------------------ *)
Lemma loc_eqb_refl x : loc_eqb x x = true.
Proof. destruct x; cbn [loc_eqb]; rewrite ?Z.eqb_refl; reflexivity. Qed.

Lemma lmem_In x l : In x l -> lmem x l = true.
Proof. intros H. unfold lmem. apply existsb_exists. exists x. split; [exact H|apply loc_eqb_refl]. Qed.

(* the accesses of call [c] are inside the declared sets *)
Definition covered (L : Z) (tin tout : list loc) (c : call) : Prop :=
  (forall x, In x (call_writes L c) -> In x tout) /\ (forall x, In x (call_reads L c) -> In x tin \/ In x tout).

Lemma covered_assert L tin tout id : covered L tin tout (CAssert id).
Proof. split; intros x []. Qed.

Lemma task_wf_covered L t : (forall c, In c (tk_calls t) -> covered L (tk_in t) (tk_out t) c) -> task_wf L t.
Proof.
  intros H c Hc. destruct (H c Hc) as [Hw Hr]. split.
  - intros x Hx. apply lmem_In. apply Hw. exact Hx.
  - intros x Hx. destruct (Hr x Hx) as [Hi|Ho]; [left|right]; apply lmem_In; assumption.
Qed.

Lemma skipn_z_In {A} (x : A) n l : In x (skipn_z n l) -> In x l.
Proof. unfold skipn_z. intros H. rewrite <- (firstn_skipn (Z.to_nat n) l). apply in_or_app. right. exact H. Qed.

(* ---- M2M / L2L wrapper: parents come from the upper cells, children from the lower cells ---- *)
Lemma sibling_loop_members d mk : forall lower upper cur c,
  In c (sibling_loop d mk lower upper cur) ->
  (exists id, c = CAssert id) \/
  (exists p ch, c = mk p ch /\ In p upper /\ forall cc, In cc ch -> In (fst cc) lower \/ In cc cur).
Proof.
  induction lower as [|c0 lrest IH]; intros upper cur c H.
  - destruct upper as [|p urest]; [destruct H|]. cbn [sibling_loop] in H.
    destruct cur as [|x cur]; [destruct H|]. destruct H as [H|[]]. right. exists p, (rev (x :: cur)).
    split; [symmetry; exact H|]. split; [left; reflexivity|]. intros cc Hcc. right. apply in_rev. exact Hcc.
  - destruct upper as [|p urest]; [destruct H|]. cbn [sibling_loop] in H.
    assert (Hcur : forall cc, In cc (rev ((c0, child_code d c0) :: cur)) -> In (fst cc) (c0 :: lrest) \/ In cc cur).
    { intros cc Hcc. apply in_rev in Hcc. destruct Hcc as [<-|Hcc]; [left; left; reflexivity|right; exact Hcc]. }
    destruct lrest as [|c2 lr].
    + apply in_app_or in H. destruct H as [H|H]; [apply in_if_assert in H; left; eexists; exact H|].
      apply in_app_or in H. destruct H as [H|H]; [apply in_if_assert in H; left; eexists; exact H|].
      destruct H as [H|[]]. right. eexists _, _. split; [symmetry; exact H|]. split; [left; reflexivity|exact Hcur].
    + destruct (parent d c2 =? p).
      * apply in_app_or in H. destruct H as [H|H]; [apply in_if_assert in H; left; eexists; exact H|].
        apply in_app_or in H. destruct H as [H|H]; [apply in_if_assert in H; left; eexists; exact H|].
        apply IH in H. destruct H as [H|(p' & ch & Hc & Hp & Hch)]; [left; exact H|].
        right. exists p', ch. split; [exact Hc|]. split; [exact Hp|]. intros cc Hcc.
        destruct (Hch cc Hcc) as [H1|H1]; [left; right; exact H1|].
        destruct H1 as [<-|H1]; [left; left; reflexivity|right; exact H1].
      * apply in_app_or in H. destruct H as [H|H]; [apply in_if_assert in H; left; eexists; exact H|].
        apply in_app_or in H. destruct H as [H|H]; [apply in_if_assert in H; left; eexists; exact H|].
        destruct H as [H|H].
        { right. eexists _, _. split; [symmetry; exact H|]. split; [left; reflexivity|exact Hcur]. }
        apply in_app_or in H. destruct H as [H|H].
        -- destruct urest as [|p2 ur]; [destruct H|]. apply in_if_assert in H. left. eexists. exact H.
        -- apply IH in H. destruct H as [H|(p' & ch & Hc & Hp & Hch)]; [left; exact H|].
           right. exists p', ch. split; [exact Hc|]. split; [right; exact Hp|]. intros cc Hcc.
           destruct (Hch cc Hcc) as [H1|[]]. left. right. exact H1.
Qed.

Lemma sibling_wrapper_members d mk lo up c : In c (sibling_wrapper d mk lo up) ->
  (exists id, c = CAssert id) \/
  (exists p ch, c = mk p ch /\ In p (cg_cells up) /\ forall cc, In cc ch -> In (fst cc) (cg_cells lo)).
Proof.
  unfold sibling_wrapper. intros H.
  destruct (cg_find up _) as [ip|].
  - destruct (cg_find_parent _ lo _) as [ic|].
    + apply sibling_loop_members in H. destruct H as [H|(p & ch & Hc & Hp & Hch)]; [left; exact H|].
      right. exists p, ch. split; [exact Hc|]. split; [apply (skipn_z_In _ _ _ Hp)|].
      intros cc Hcc. destruct (Hch cc Hcc) as [H1|[]]. apply (skipn_z_In _ _ _ H1).
    + destruct H as [H|[]]. left. eexists. symmetry. exact H.
  - destruct H as [H|[]]. left. eexists. symmetry. exact H.
Qed.

Lemma m2m_task_cov d L l lo up c : In c (sibling_wrapper d (CM2M l) lo up) ->
  covered L (locs_mult (l + 1) lo) (locs_mult l up) c.
Proof.
  intros H. apply sibling_wrapper_members in H. destruct H as [(id & ->)|(p & ch & -> & Hp & Hch)]; [apply covered_assert|].
  split; cbn [call_writes call_reads].
  - intros x [<-|[]]. unfold locs_mult. apply in_map. exact Hp.
  - intros x Hx. left. apply in_map_iff in Hx. destruct Hx as (cc & <- & Hcc). unfold locs_mult. apply in_map. apply Hch. exact Hcc.
Qed.

Lemma l2l_task_cov d L l lo up c : In c (sibling_wrapper d (CL2L l) lo up) ->
  covered L (locs_loc l up) (locs_loc (l + 1) lo) c.
Proof.
  intros H. apply sibling_wrapper_members in H. destruct H as [(id & ->)|(p & ch & -> & Hp & Hch)]; [apply covered_assert|].
  split; cbn [call_writes call_reads].
  - intros x Hx. apply in_map_iff in Hx. destruct Hx as (cc & <- & Hcc). unfold locs_loc. apply in_map. apply Hch. exact Hcc.
  - intros x [<-|[]]. left. unfold locs_loc. apply in_map. exact Hp.
Qed.

(* ---- M2L wrappers ---- *)
Lemma cg_find_In g i k : cgroup_ok g -> StronglySorted Z.lt (cg_cells g) -> cg_find g i = Some k -> In i (cg_cells g).
Proof. intros Hok Hs E. exact (gfind1_In cgroup cg_cells cg_first cg_last cg_n g i k Hok Hs E). Qed.

Lemma m2l_between_cov d L l g src view c :
  cgroup_ok src -> StronglySorted Z.lt (cg_cells src) ->
  (forall x, In x view -> 0 <= x_tpos x < zlen (cg_cells g)) ->
  In c (m2l_between d l g src view) -> covered L (locs_mult l src) (locs_loc l g) c.
Proof.
  intros Hok Hs Hpos H. unfold m2l_between in H. apply in_flat_map in H. destruct H as (run & Hrun & H).
  destruct run as [|x0 run]; [destruct H|].
  apply runs_props in Hrun. destruct Hrun as (_ & _ & Hseg). apply seg_incl in Hseg.
  cbv zeta in H.
  set (srcs := flat_map _ (x0 :: run)) in H.
  assert (Hsr : forall sc, In sc srcs -> In (fst sc) (cg_cells src)).
  { intros sc Hsc. unfold srcs in Hsc. apply in_flat_map in Hsc. destruct Hsc as (x & _ & Hx).
    destruct (cg_find src (x_src x)) as [k|] eqn:E; [|destruct Hx].
    destruct Hx as [<-|[]]. cbn [fst]. apply (cg_find_In src _ k Hok Hs E). }
  assert (Hcm : forall sr, (forall sc, In sc sr -> In (fst sc) (cg_cells src)) ->
            covered L (locs_mult l src) (locs_loc l g) (CM2L l (znth (cg_cells g) (x_tpos x0) (-1)) sr)).
  { intros sr Hsr'. split; cbn [call_writes call_reads].
    - intros x [<-|[]]. unfold locs_loc. apply in_map. apply znth_In. apply Hpos. apply Hseg. left. reflexivity.
    - intros x Hx. left. apply in_map_iff in Hx. destruct Hx as (sc & <- & Hsc). unfold locs_mult. apply in_map.
      apply Hsr'. exact Hsc. }
  clearbody srcs. destruct srcs as [|s0 S'].
  - apply in_if_assert in H. subst c. apply covered_assert.
  - apply in_app_or in H. destruct H as [H|H]; [apply in_if_assert in H; subst c; apply covered_assert|].
    apply in_app_or in H. destruct H as [H|H]; [apply in_if_assert in H; subst c; apply covered_assert|].
    destruct H as [<-|[]]. apply Hcm. exact Hsr.
Qed.

Lemma m2l_in_group_cov d L l g lst c :
  (forall x, In x lst -> 0 <= x_tpos x < zlen (cg_cells g) /\ In (x_src x) (cg_cells g)) ->
  In c (m2l_in_group d l g lst) -> covered L (locs_mult l g) (locs_loc l g) c.
Proof.
  intros Hlst H. unfold m2l_in_group in H. apply in_flat_map in H. destruct H as (run & Hrun & H).
  destruct run as [|x0 run]; [destruct H|].
  apply runs_props in Hrun. destruct Hrun as (_ & _ & Hseg). apply seg_incl in Hseg.
  apply in_app_or in H. destruct H as [H|H]; [apply in_if_assert in H; subst c; apply covered_assert|].
  apply in_app_or in H. destruct H as [H|H]; [apply in_if_assert in H; subst c; apply covered_assert|].
  apply in_app_or in H. destruct H as [H|H]; [apply in_if_assert in H; subst c; apply covered_assert|].
  destruct H as [<-|[]]. split; cbn [call_writes call_reads].
  - intros x [<-|[]]. unfold locs_loc. apply in_map. apply znth_In. apply Hlst. apply Hseg. left. reflexivity.
  - intros x Hx. left. apply in_map_iff in Hx. destruct Hx as (sc & <- & Hsc).
    apply in_map_iff in Hsc. destruct Hsc as (y & <- & Hy). cbn [fst]. unfold locs_mult. apply in_map.
    apply Hlst. apply Hseg. exact Hy.
Qed.

(* ---- P2P wrappers: a leaf reached by position is a leaf of the group or the empty dummy leaf ---- *)
Lemma leaf_at_parts g k p : In p (lf_parts (leaf_at g k)) -> In (LRhs p) (locs_rhs g).
Proof.
  unfold leaf_at. intros H.
  destruct (nth_in_or_default (Z.to_nat k) (pg_leaves g) {| lf_index := -1; lf_n := 0; lf_off := 0; lf_parts := [] |}) as [Hin|Hd].
  - unfold locs_rhs. apply in_map. apply in_flat_map. eexists. split; [exact Hin|exact H].
  - rewrite Hd in H. destruct H.
Qed.

Lemma p2p_call_cov L src tgt a b code ks kt :
  covered L [] (locs_rhs src ++ locs_rhs tgt) (CP2P a b code (lf_parts (leaf_at src ks)) (lf_parts (leaf_at tgt kt))).
Proof.
  split; cbn [call_writes call_reads]; [|intros x []].
  intros x Hx. apply in_app_or in Hx. apply in_or_app.
  destruct Hx as [Hx|Hx]; apply in_map_iff in Hx; destruct Hx as (p & <- & Hp); [right|left]; apply leaf_at_parts in Hp; exact Hp.
Qed.

Lemma p2p_between_cov L src tgt view c : In c (p2p_between CP2P src tgt view) ->
  covered L [] (locs_rhs src ++ locs_rhs tgt) c.
Proof.
  unfold p2p_between. intros H. apply in_flat_map in H. destruct H as (x & _ & H).
  destruct (pg_find src (x_src x)) as [ks|]; [|destruct H].
  apply in_app_or in H. destruct H as [H|H].
  - destruct (pg_find tgt (x_tgt x)) as [k|].
    + apply in_if_assert in H. subst c. apply covered_assert.
    + destruct H as [<-|[]]. apply covered_assert.
  - apply in_app_or in H. destruct H as [H|H]; [apply in_if_assert in H; subst c; apply covered_assert|].
    destruct H as [<-|[]]. apply p2p_call_cov.
Qed.

Lemma p2p_in_group_cov L g lst c : In c (p2p_in_group g lst) -> covered L [] (locs_rhs g) c.
Proof.
  unfold p2p_in_group. intros H. apply in_flat_map in H. destruct H as (x & _ & H).
  destruct (pg_find g (x_src x)) as [ks|].
  - apply in_app_or in H. destruct H as [H|H].
    + destruct (pg_find g (x_tgt x)) as [k|].
      * apply in_if_assert in H. subst c. apply covered_assert.
      * destruct H as [<-|[]]. apply covered_assert.
    + destruct H as [<-|[]]. destruct (p2p_call_cov L g g (lf_index (leaf_at g ks)) (lf_index (leaf_at g (x_tpos x))) (x_code x) ks (x_tpos x)) as [Hw Hr].
      split; [|intros y []]. intros y Hy. apply Hw in Hy. apply in_app_or in Hy. destruct Hy; assumption.
  - destruct H as [<-|[]]. apply covered_assert.
Qed.

Lemma p2p_inner_cov L g c : In c (p2p_inner g) -> covered L [] (locs_rhs g) c.
Proof.
  unfold p2p_inner. intros H. apply in_map_iff in H. destruct H as (lf & <- & Hlf).
  split; cbn [call_writes call_reads]; [|intros x []].
  intros x Hx. apply in_map_iff in Hx. destruct Hx as (p & <- & Hp). unfold locs_rhs. apply in_map.
  apply in_flat_map. exists lf. split; assumption.
Qed.

(* ---- the passes ---- *)
Section WF.
Variable d : nat.
Variable per : bool.

Lemma wf_P2M s t : Forall (task_wf (height t - 1)) (tasks_P2M s t).
Proof.
  unfold tasks_P2M. destruct (s <? height t); [|constructor].
  apply Forall_forall. intros tk Htk. apply in_map_iff in Htk. destruct Htk as ([cg pg] & <- & _).
  apply task_wf_covered. cbn [tk_calls tk_in tk_out]. intros c Hc.
  apply in_flat_map in Hc. destruct Hc as ([c0 lf] & Hin & Hc).
  apply in_app_or in Hc. destruct Hc as [Hc|Hc]; [apply in_if_assert in Hc; subst c; apply covered_assert|].
  destruct Hc as [<-|[]]. split; cbn [call_writes call_reads]; [|intros x []].
  intros x [<-|[]]. unfold locs_mult. apply in_map. apply (in_combine_l _ _ _ _ Hin).
Qed.

Lemma wf_L2P s t : Forall (task_wf (height t - 1)) (tasks_L2P s t).
Proof.
  unfold tasks_L2P. destruct (s <? height t); [|constructor].
  apply Forall_forall. intros tk Htk. apply in_map_iff in Htk. destruct Htk as ([cg pg] & <- & _).
  apply task_wf_covered. cbn [tk_calls tk_in tk_out]. intros c Hc.
  apply in_flat_map in Hc. destruct Hc as ([c0 lf] & Hin & Hc).
  apply in_app_or in Hc. destruct Hc as [Hc|Hc]; [apply in_if_assert in Hc; subst c; apply covered_assert|].
  destruct Hc as [<-|[]]. split; cbn [call_writes call_reads].
  - intros x Hx. apply in_map_iff in Hx. destruct Hx as (p & <- & Hp). unfold locs_rhs. apply in_map.
    apply in_flat_map. exists lf. split; [apply (in_combine_r _ _ _ _ Hin)|exact Hp].
  - intros x [<-|[]]. left. unfold locs_loc. apply in_map. apply (in_combine_l _ _ _ _ Hin).
Qed.

Lemma wf_M2M L s t : Forall (task_wf L) (tasks_M2M d s t).
Proof.
  unfold tasks_M2M. apply Forall_forall. intros tk Htk. apply in_flat_map in Htk. destruct Htk as (l & _ & Htk).
  cbv zeta in Htk. apply in_map_iff in Htk. destruct Htk as (lu & <- & _).
  apply task_wf_covered. cbn [tk_calls tk_in tk_out]. intros c Hc. apply (m2m_task_cov d). exact Hc.
Qed.

Lemma wf_L2L L s t : Forall (task_wf L) (tasks_L2L d s t).
Proof.
  unfold tasks_L2L. apply Forall_forall. intros tk Htk. apply in_flat_map in Htk. destruct Htk as (l & _ & Htk).
  cbv zeta in Htk. apply in_map_iff in Htk. destruct Htk as (lu & <- & _).
  apply task_wf_covered. cbn [tk_calls tk_in tk_out]. intros c Hc. apply (l2l_task_cov d). exact Hc.
Qed.

Lemma wf_M2L L s t : 0 <= s -> Forall level_ok (t_levels t) -> Forall (task_wf L) (tasks_M2L d per s t).
Proof.
  intros Hs Hlev. unfold tasks_M2L. apply Forall_forall. intros tk Htk.
  apply in_flat_map in Htk. destruct Htk as (l & Hl & Htk). apply in_zrange in Hl. cbv zeta in Htk.
  assert (Hlok : level_ok (levels_of t l)).
  { rewrite Forall_forall in Hlev. apply Hlev. unfold levels_of. apply znth_In. unfold height in Hl. lia. }
  set (groups := levels_of t l) in *.
  destruct Hlok as [Hgok Hsorted].
  destruct (lev_parts cgroup cg_cells cg_first cg_last cg_n groups Hgok Hsorted) as [Hgs _].
  rewrite Forall_forall in Hgok, Hgs.
  apply in_flat_map in Htk. destruct Htk as (g & Hg & Htk).
  rewrite ilist_block_eq in Htk.
  set (rc := recs cgroup cg_cells (ilist_cell d per l) g) in Htk.
  assert (Hrc : forall x, In x rc -> 0 <= x_tpos x < zlen (cg_cells g)).
  { intros x Hx. apply records_In in Hx. apply Hx. }
  apply task_wf_covered.
  apply in_app_or in Htk. destruct Htk as [Htk|Htk].
  - apply in_map_iff in Htk. destruct Htk as (gv & <- & Hgv). cbn [tk_calls tk_in tk_out].
    apply mib_batches in Hgv. destruct Hgv as (Hsrc & Hincl & _).
    intros c Hc. apply (m2l_between_cov d L l g (fst gv) (snd gv)); [apply Hgok; exact Hsrc|apply Hgs; exact Hsrc| |exact Hc].
    intros x Hx. apply Hrc. apply Hincl in Hx. apply filter_In in Hx. apply Hx.
  - destruct Htk as [<-|[]]. cbn [tk_calls tk_in tk_out]. intros c Hc.
    apply (m2l_in_group_cov d L l g (filter (pin cgroup cg_cells cg_first cg_last cg_n g) rc) c); [|exact Hc].
    intros x Hx. apply filter_In in Hx. destruct Hx as [Hx Hpin]. split; [apply Hrc; exact Hx|].
    unfold pin in Hpin. apply andb_prop in Hpin. destruct Hpin as [_ Hf].
    destruct (gfind1 cgroup cg_cells cg_n g (x_src x)) as [k|] eqn:E; [|discriminate].
    apply (gfind1_In cgroup cg_cells cg_first cg_last cg_n g _ k (Hgok g Hg) (Hgs g Hg) E).
Qed.

Lemma wf_P2P L t : Forall (task_wf L) (tasks_P2P d per t).
Proof.
  unfold tasks_P2P. cbv zeta. apply Forall_forall. intros tk Htk.
  apply in_flat_map in Htk. destruct Htk as (g & _ & Htk).
  destruct (nlist_block d per (height t - 1) true true g) as [internal external].
  apply task_wf_covered.
  apply in_app_or in Htk. destruct Htk as [Htk|Htk].
  - apply in_map_iff in Htk. destruct Htk as (gv & <- & _). cbn [tk_calls tk_in tk_out].
    intros c Hc. apply (p2p_between_cov L (fst gv) g (snd gv)). exact Hc.
  - destruct Htk as [<-|[]]. cbn [tk_calls tk_in tk_out]. intros c Hc.
    apply in_app_or in Hc. destruct Hc as [Hc|Hc]; [apply (p2p_in_group_cov L g internal)|apply p2p_inner_cov]; exact Hc.
Qed.

End WF.

Theorem omp_tasks_wf : forall d per H B mode stop flags t idx,
  (0 < d)%nat -> 1 <= H -> tree_ok (parent d) H B mode t -> particles_ok idx t ->
  Forall (task_wf (H - 1)) (omp_tasks d per stop flags t).
Proof.
  intros d per H B mode stop flags t idx _ _ Hok _. destruct Hok as (HH & Hlev & _).
  assert (EH : H - 1 = height t - 1) by (unfold height; lia). rewrite EH. unfold omp_tasks. cbv zeta.
  apply Forall_app; split; [destruct (has flags F_P2M); [apply wf_P2M|constructor]|].
  apply Forall_app; split; [destruct (has flags F_M2M); [apply wf_M2M|constructor]|].
  apply Forall_app; split; [destruct (has flags F_M2L); [apply wf_M2L; [lia|exact Hlev]|constructor]|].
  apply Forall_app; split; [destruct (has flags F_L2L); [apply wf_L2L|constructor]|].
  apply Forall_app; split; [destruct (has flags F_P2P); [apply wf_P2P|constructor]|].
  destruct (has flags F_L2P); [apply wf_L2P|constructor].
Qed.

(* ------------------------------------------------------------------ *)
(* 4. unfiltered forms on well-formed levels                           *)
(* ------------------------------------------------------------------ *)
Lemma na_id tr : no_assert tr -> na tr = tr.
Proof.
  intros H. apply filter_all. intros a Ha. destruct a; try reflexivity. exfalso. apply (H id Ha).
Qed.

(* every call of the visited wrappers is a call of the sequential driver *)
Lemma visits_incl d mk : forall fuel lowers uppers,
  incl (flat_map (fun lu => sibling_wrapper d mk (fst lu) (snd lu)) (staircase_visits d fuel lowers uppers))
       (staircase d fuel mk lowers uppers).
Proof.
  induction fuel as [|f IH]; intros lowers uppers c Hc; [destruct Hc|].
  cbn [staircase staircase_visits] in *.
  destruct uppers as [|u urest]; [destruct Hc|]. destruct lowers as [|l lrest]; [destruct Hc|].
  destruct (parent d (cg_last l) <=? cg_last u).
  - destruct lrest as [|l2 lr].
    + cbn [flat_map fst snd] in Hc. rewrite app_nil_r in Hc. apply in_or_app. right. exact Hc.
    + destruct (cg_last u <? parent d (cg_first l2)); cbn [flat_map fst snd] in Hc;
        apply in_or_app; right; apply in_app_or in Hc; apply in_or_app;
        (destruct Hc as [Hc|Hc]; [left; exact Hc|right; apply IH; exact Hc]).
  - cbn [flat_map fst snd] in Hc. apply in_or_app. right. apply in_app_or in Hc. apply in_or_app.
    destruct Hc as [Hc|Hc]; [left; exact Hc|right; apply IH; exact Hc].
Qed.

Lemma staircase_as_visits_no_assert d fuel mk lowers uppers :
  no_assert (staircase d fuel mk lowers uppers) ->
  staircase d fuel mk lowers uppers
  = flat_map (fun lu => sibling_wrapper d mk (fst lu) (snd lu)) (staircase_visits d fuel lowers uppers).
Proof.
  intros Hna. rewrite <- (na_id _ Hna). rewrite staircase_as_visits. apply na_id.
  intros id Hin. apply (Hna id). apply (visits_incl d mk fuel lowers uppers). exact Hin.
Qed.

(* the unfiltered equality on well-formed consecutive levels (both instances of the driver) *)
Theorem staircase_as_visits_exact : forall d l lowers uppers,
  level_ok lowers -> level_ok uppers -> level_cells uppers = parents_of (parent d) (level_cells lowers) ->
  let fuel := staircase_fuel lowers uppers in
  staircase d fuel (CM2M l) lowers uppers
  = flat_map (fun lu => sibling_wrapper d (CM2M l) (fst lu) (snd lu)) (staircase_visits d fuel lowers uppers) /\
  staircase d fuel (CL2L l) lowers uppers
  = flat_map (fun lu => sibling_wrapper d (CL2L l) (fst lu) (snd lu)) (staircase_visits d fuel lowers uppers).
Proof.
  intros d l lowers uppers Hl Hu Hp fuel. split; apply staircase_as_visits_no_assert.
  - apply (staircase_m2m_exact_ordered d l lowers uppers Hl Hu Hp).
  - apply (staircase_l2l_exact_ordered d l lowers uppers Hl Hu Hp).
Qed.

Lemma combine_map_eq {A B C} (f : A -> C) (g : B -> C) : forall l1 l2, map f l1 = map g l2 ->
  forall a b, In (a, b) (combine l1 l2) -> f a = g b.
Proof.
  induction l1 as [|x l1 IH]; intros l2 E a b Hin; [destruct Hin|].
  destruct l2 as [|y l2]; [destruct Hin|]. cbn [map] in E. injection E as E1 E2.
  destruct Hin as [Hin|Hin]; [injection Hin as <- <-; exact E1|]. apply (IH l2 E2 a b Hin).
Qed.

Section Exact.
Variables (d : nat) (per : bool) (H B : Z) (mode : bool) (t : tree).
Hypothesis HH : 1 <= H.
Hypothesis Hok : tree_ok (parent d) H B mode t.

Lemma height_H : height t = H.
Proof. apply Hok. Qed.

Lemma level_ok_of l : 0 <= l < H -> level_ok (levels_of t l).
Proof.
  intros Hl. destruct Hok as (Hlen & Hlev & _). rewrite Forall_forall in Hlev. apply Hlev.
  unfold levels_of. apply znth_In. lia.
Qed.

Lemma exact_P2M s : flat_map tk_calls (tasks_P2M s t) = pass_P2M s t.
Proof.
  destruct Hok as (Hlen & Hlev & _ & Hleaf & Hpg & _).
  pose proof (level_ok_of (H - 1) ltac:(lia)) as [Hcg _]. unfold levels_of in Hcg.
  unfold tasks_P2M, pass_P2M. destruct (s <? height t); [|reflexivity].
  rewrite height_H. unfold levels_of.
  assert (E : zlen (znth (t_levels t) (H - 1) []) =? zlen (t_pgroups t) = true).
  { apply Z.eqb_eq. unfold zlen. f_equal. rewrite <- (map_length cg_cells), Hleaf. apply map_length. }
  rewrite E. cbn [app]. rewrite fm_map. apply fm_ext_in. intros [cg pg] Hin. cbn [tk_calls].
  pose proof (combine_map_eq cg_cells pg_indices _ _ Hleaf cg pg Hin) as Ecells.
  rewrite Forall_forall in Hcg, Hpg.
  destruct (Hcg cg (in_combine_l _ _ _ _ Hin)) as (_ & Hf & Hl & Hn).
  destruct (Hpg pg (in_combine_r _ _ _ _ Hin)) as (_ & Hf' & Hl' & Hn' & _).
  assert (E2 : (pg_first pg =? cg_first cg) && (pg_last pg =? cg_last cg) && (pg_nl pg =? cg_n cg) = true).
  { rewrite Hf, Hl, Hn, Hf', Hl', Hn', Ecells, <- (pg_indices_len pg), !Z.eqb_refl. reflexivity. }
  rewrite E2. reflexivity.
Qed.

Lemma exact_levels l : 0 <= l <= H - 2 ->
  let lowers := levels_of t (l + 1) in let uppers := levels_of t l in
  level_ok lowers /\ level_ok uppers /\ level_cells uppers = parents_of (parent d) (level_cells lowers).
Proof.
  intros Hl. cbv zeta. split; [apply level_ok_of; lia|]. split; [apply level_ok_of; lia|].
  destruct Hok as (_ & _ & Hpar & _). apply Hpar. lia.
Qed.

Lemma exact_M2M s : 0 <= s -> flat_map tk_calls (tasks_M2M d s t) = pass_M2M d s t.
Proof.
  intros Hs. unfold tasks_M2M, pass_M2M. rewrite fm_fm. apply fm_ext_in. intros l Hl. cbv zeta.
  apply in_rev in Hl. apply in_zrange in Hl. rewrite height_H in Hl.
  rewrite fm_map. cbn [tk_calls]. symmetry.
  destruct (exact_levels l ltac:(lia)) as (H1 & H2 & H3).
  apply (staircase_as_visits_exact d l _ _ H1 H2 H3).
Qed.

Lemma exact_L2L s : 0 <= s -> flat_map tk_calls (tasks_L2L d s t) = pass_L2L d s t.
Proof.
  intros Hs. unfold tasks_L2L, pass_L2L. rewrite fm_fm. apply fm_ext_in. intros l Hl. cbv zeta.
  apply in_zrange in Hl. rewrite height_H in Hl.
  rewrite fm_map. cbn [tk_calls]. symmetry.
  destruct (exact_levels l ltac:(lia)) as (H1 & H2 & H3).
  apply (staircase_as_visits_exact d l _ _ H1 H2 H3).
Qed.

(* on a well-formed tree the task bodies are literally the sequential passes (no filtering needed) *)
Theorem omp_calls_exact : forall stop flags,
  let s := Z.max 0 stop in
  flat_map tk_calls (omp_tasks d per stop flags t) =
  (if has flags F_P2M then pass_P2M s t else []) ++ (if has flags F_M2M then pass_M2M d s t else []) ++
  (if has flags F_M2L then pass_M2L d per s t else []) ++ (if has flags F_L2L then pass_L2L d s t else []) ++
  (if has flags F_P2P then pass_P2P d per t else []) ++ (if has flags F_L2P then pass_L2P s t else []).
Proof.
  intros stop flags s. unfold omp_tasks. fold s. rewrite !flat_map_app.
  assert (Hs : 0 <= s) by (unfold s; lia).
  f_equal; [destruct (has flags F_P2M); [apply exact_P2M|reflexivity]|].
  f_equal; [destruct (has flags F_M2M); [apply exact_M2M; exact Hs|reflexivity]|].
  f_equal; [destruct (has flags F_M2L); [apply calls_M2L|reflexivity]|].
  f_equal; [destruct (has flags F_L2L); [apply exact_L2L; exact Hs|reflexivity]|].
  f_equal; [destruct (has flags F_P2P); [apply calls_P2P|reflexivity]|].
  destruct (has flags F_L2P); [apply calls_L2P|reflexivity].
Qed.

End Exact.

Print Assumptions staircase_as_visits.
Print Assumptions staircase_as_visits_exact.
Print Assumptions omp_calls.
Print Assumptions omp_calls_exact.
Print Assumptions omp_submission_equals_seq.
Print Assumptions omp_tasks_wf.
