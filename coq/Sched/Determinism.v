(* Property C03, model level: every legal schedule of a well-formed task list computes the same state (up to
   [st_eq]) as the submission order.
   - frame / footprint lemmas of the additive kernel ([step_frame_loc], [step_reads_only]);
   - two calls commute when neither reads what the other writes ([step_commute_additive]; two writers of the same
     location commute because every call only appends: this is what covers OpenMP 5 `mutexinoutset`);
   - blocks of calls of two non conflicting well-formed tasks commute;
   - determinism by insertion sort of the schedule. *)
From Tbfmm Require Import Base.Prelude Exec.ExecDefs Spec.Elem Spec.Kernel Spec.ExactlyOnce Spec.Flags Sched.TaskDefs.
From Coq Require Import Sorting.Permutation.
Local Open Scope Z_scope.

(* ------------------------------------------------------------------ *)
(* 1. locations                                                        *)
(* ------------------------------------------------------------------ *)
Definition rd (s : st) (x : loc) : list Z :=
  match x with LMult l c => s_mult s l c | LLoc l c => s_loc s l c | LRhs p => s_rhs s p end.

Lemma st_eq_rd a b : st_eq a b <-> (forall x q, cnt (rd a x) q = cnt (rd b x) q).
Proof.
  split.
  - intros (HM & HL & HR) x q. destruct x as [l c|l c|p]; cbn [rd]; [apply HM|apply HL|apply HR].
  - intros H. split; [|split].
    + intros l x q. apply (H (LMult l x) q).
    + intros l x q. apply (H (LLoc l x) q).
    + intros p q. apply (H (LRhs p) q).
Qed.

Lemma loc_eqb_eq a b : loc_eqb a b = true -> a = b.
Proof.
  destruct a as [l c|l c|p]; destruct b as [l' c'|l' c'|p']; cbn [loc_eqb]; intros H; try discriminate.
  - apply andb_prop in H. destruct H as [H1 H2]. apply Z.eqb_eq in H1. apply Z.eqb_eq in H2. subst. reflexivity.
  - apply andb_prop in H. destruct H as [H1 H2]. apply Z.eqb_eq in H1. apply Z.eqb_eq in H2. subst. reflexivity.
  - apply Z.eqb_eq in H. subst. reflexivity.
Qed.

Lemma loc_eqb_refl a : loc_eqb a a = true.
Proof. destruct a as [l c|l c|p]; cbn [loc_eqb]; rewrite ?Z.eqb_refl; reflexivity. Qed.

Lemma lmem_In x l : lmem x l = true <-> In x l.
Proof.
  unfold lmem. rewrite existsb_exists. split.
  - intros (y & Hy & E). apply loc_eqb_eq in E. subst y. exact Hy.
  - intros H. exists x. split; [exact H|apply loc_eqb_refl].
Qed.

(* ------------------------------------------------------------------ *)
(* 2. frame: a call changes only what it writes                        *)
(* ------------------------------------------------------------------ *)
Lemma upd2_other f l i v l' i' : ~ (l' = l /\ i' = i) -> upd2 f l i v l' i' = f l' i'.
Proof.
  intros H. unfold upd2. destruct (Z.eqb_spec l' l) as [E1|E1]; [|reflexivity].
  destruct (Z.eqb_spec i' i) as [E2|E2]; [|reflexivity]. exfalso. apply H. split; assumption.
Qed.

Lemma upd1_other f p v p' : p' <> p -> upd1 f p v p' = f p'.
Proof. intros H. unfold upd1. destruct (Z.eqb_spec p' p) as [E|E]; [contradiction|reflexivity]. Qed.

Lemma upd_all_other : forall ps f v p, ~ In p ps -> upd_all f ps v p = f p.
Proof.
  unfold upd_all. induction ps as [|a ps IH]; intros f v p Hn; [reflexivity|].
  cbn [fold_left]. rewrite IH by (intros Hin; apply Hn; right; exact Hin).
  apply upd1_other. intros ->. apply Hn. left. reflexivity.
Qed.

Lemma fold_upd2_other (l0 : Z) (v : list Z) : forall (ch : list (Z * Z)) f l' x,
  ~ In (LLoc l' x) (map (fun cc => LLoc l0 (fst cc)) ch) ->
  fold_left (fun g cc => upd2 g l0 (fst cc) v) ch f l' x = f l' x.
Proof.
  induction ch as [|c ch IH]; intros f l' x Hn; [reflexivity|].
  cbn [fold_left]. rewrite IH by (intros Hin; apply Hn; right; exact Hin).
  apply upd2_other. intros [-> ->]. apply Hn. left. reflexivity.
Qed.

Lemma in_rhs p ps : In p ps -> In (LRhs p) (map LRhs ps).
Proof. intros H. apply (in_map LRhs) in H. exact H. Qed.

Theorem step_frame_loc : forall L s c x, ~ In x (call_writes L c) -> rd (step L s c) x = rd s x.
Proof.
  intros L s c x Hn.
  destruct c; destruct x as [l' i'|l' i'|p']; cbn [step rd s_mult s_loc s_rhs]; try reflexivity;
    cbn [call_writes] in Hn.
  - apply upd2_other. intros [-> ->]. apply Hn. left. reflexivity.
  - apply upd2_other. intros [-> ->]. apply Hn. left. reflexivity.
  - apply upd2_other. intros [-> ->]. apply Hn. left. reflexivity.
  - apply fold_upd2_other. exact Hn.
  - apply upd_all_other. intros Hin. apply Hn. apply in_rhs. exact Hin.
  - rewrite !upd_all_other; [reflexivity| |].
    + intros Hin. apply Hn. apply in_or_app. left. apply in_rhs. exact Hin.
    + intros Hin. apply Hn. apply in_or_app. right. apply in_rhs. exact Hin.
  - apply upd_all_other. intros Hin. apply Hn. apply in_rhs. exact Hin.
  - apply upd_all_other. intros Hin. apply Hn. apply in_rhs. exact Hin.
Qed.

(* ------------------------------------------------------------------ *)
(* 3. what a call adds depends only on what it reads                   *)
(* ------------------------------------------------------------------ *)
(* number of copies of q that call c, executed in state s, appends to location x *)
Definition delta (L : Z) (s : st) (c : call) (x : loc) (q : Z) : nat :=
  match x with
  | LMult l i => sumn (fun e => cm L s e l i q) (elems_of_call c)
  | LLoc l i => sumn (fun e => cl s e l i q) (elems_of_call c)
  | LRhs p => sumn (fun e => cr L s e p q) (elems_of_call c)
  end.

Lemma step_delta L s c x q : cnt (rd (step L s c) x) q = (cnt (rd s x) q + delta L s c x q)%nat.
Proof.
  destruct x as [l i|l i|p]; cbn [rd delta]; [apply step_mult|apply step_loc|apply step_rhs].
Qed.

Definition agree_on (xs : list loc) (s s' : st) : Prop :=
  forall x, In x xs -> forall q, cnt (rd s x) q = cnt (rd s' x) q.

Lemma delta_reads L s s' c x q : agree_on (call_reads L c) s s' -> delta L s c x q = delta L s' c x q.
Proof.
  intros H. unfold agree_on in H.
  destruct x as [l i|l i|p]; destruct c; cbn [delta elems_of_call]; rewrite ?sumn_map, ?sumn_cons, ?sumn_nil;
    cbn [cm cl cr fst snd]; try reflexivity.
  - (* M2M -> mult *)
    apply sumn_ext_in. intros cc Hcc. destruct ((l =? lvl) && (i =? parent)); [|reflexivity].
    apply (H (LMult (lvl + 1) (fst cc))). cbn [call_reads].
    apply (in_map (fun cc => LMult (lvl + 1) (fst cc))) in Hcc. exact Hcc.
  - (* M2L -> loc *)
    apply sumn_ext_in. intros sc Hsc. destruct ((l =? lvl) && (i =? tgt)); [|reflexivity].
    apply (H (LMult lvl (fst sc))). cbn [call_reads].
    apply (in_map (fun sc => LMult lvl (fst sc))) in Hsc. exact Hsc.
  - (* L2L -> loc *)
    apply sumn_ext_in. intros cc Hcc. destruct ((l =? lvl + 1) && (i =? fst cc)); [|reflexivity].
    apply (H (LLoc lvl parent)). cbn [call_reads]. left. reflexivity.
  - (* L2P -> rhs *)
    rewrite (H (LLoc L leaf)); [reflexivity|]. cbn [call_reads]. left. reflexivity.
Qed.

Lemma delta_nowrite L s c x q : ~ In x (call_writes L c) -> delta L s c x q = 0%nat.
Proof.
  intros Hn. pose proof (step_delta L s c x q) as H. rewrite (step_frame_loc L s c x Hn) in H. lia.
Qed.

Theorem step_reads_only : forall L s s' c,
  (forall x, In x (call_reads L c) -> forall q, count_occ Z.eq_dec (rd s x) q = count_occ Z.eq_dec (rd s' x) q) ->
  forall x q, (count_occ Z.eq_dec (rd (step L s c) x) q + count_occ Z.eq_dec (rd s' x) q
               = count_occ Z.eq_dec (rd (step L s' c) x) q + count_occ Z.eq_dec (rd s x) q)%nat.
Proof.
  intros L s s' c H x q.
  pose proof (step_delta L s c x q) as H1. pose proof (step_delta L s' c x q) as H2.
  pose proof (delta_reads L s s' c x q H) as H3. unfold cnt in H1, H2. lia.
Qed.

(* ------------------------------------------------------------------ *)
(* 4. commutation of two calls                                         *)
(* ------------------------------------------------------------------ *)
Definition calls_independent (L : Z) (a b : call) : Prop :=
  (forall x, In x (call_writes L a) -> ~ In x (call_writes L b) /\ ~ In x (call_reads L b)) /\
  (forall x, In x (call_writes L b) -> ~ In x (call_reads L a)).

(* weaker requirement: writers of a common location are allowed (every call only appends) *)
Definition calls_commutable (L : Z) (a b : call) : Prop :=
  (forall x, In x (call_writes L a) -> ~ In x (call_reads L b)) /\
  (forall x, In x (call_writes L b) -> ~ In x (call_reads L a)).

Lemma independent_commutable L a b : calls_independent L a b -> calls_commutable L a b.
Proof. intros [H1 H2]. split; [intros x Hx; apply (H1 x Hx)|exact H2]. Qed.

Lemma commutable_sym L a b : calls_commutable L a b -> calls_commutable L b a.
Proof. intros [H1 H2]. split; assumption. Qed.

Lemma step_agree_reads L s a b : (forall x, In x (call_writes L a) -> ~ In x (call_reads L b)) ->
  agree_on (call_reads L b) (step L s a) s.
Proof.
  intros H x Hx q. rewrite step_frame_loc; [reflexivity|]. intros Hw. apply (H x Hw). exact Hx.
Qed.

Theorem step_commute_additive : forall L s a b, calls_commutable L a b ->
  st_eq (step L (step L s a) b) (step L (step L s b) a).
Proof.
  intros L s a b [H1 H2]. apply st_eq_rd. intros x q.
  rewrite !step_delta.
  rewrite (delta_reads L (step L s a) s b x q (step_agree_reads L s a b H1)).
  rewrite (delta_reads L (step L s b) s a x q (step_agree_reads L s b a H2)).
  lia.
Qed.

Theorem step_commute : forall L s a b, calls_independent L a b ->
  st_eq (step L (step L s a) b) (step L (step L s b) a).
Proof. intros L s a b H. apply step_commute_additive. apply independent_commutable. exact H. Qed.

(* ------------------------------------------------------------------ *)
(* 5. commutation of blocks                                            *)
(* ------------------------------------------------------------------ *)
Section Blocks.
Variable L : Z.

Lemma teq_swap2 a b : calls_commutable L a b -> teq L [a; b] [b; a].
Proof.
  intros H s s' Hs. apply (st_eq_trans _ (step L (step L s b) a)).
  - apply (step_commute_additive L s a b H).
  - apply step_st_eq. apply step_st_eq. exact Hs.
Qed.

Lemma teq_call_block a : forall B, (forall b, In b B -> calls_commutable L a b) -> teq L (a :: B) (B ++ [a]).
Proof.
  induction B as [|b B IH]; intros H; [apply teq_refl|].
  apply (teq_trans L _ (b :: a :: B)).
  - apply (teq_app L [a; b] [b; a] B B); [|apply teq_refl]. apply teq_swap2. apply H. left. reflexivity.
  - apply (teq_app L [b] [b] (a :: B) (B ++ [a])); [apply teq_refl|]. apply IH. intros b' Hb'. apply H. right. exact Hb'.
Qed.

Lemma teq_blocks : forall A B, (forall a b, In a A -> In b B -> calls_commutable L a b) -> teq L (A ++ B) (B ++ A).
Proof.
  induction A as [|a A IH]; intros B H.
  - rewrite app_nil_r. apply teq_refl.
  - apply (teq_trans L _ (a :: B ++ A)).
    + apply (teq_app L [a] [a] (A ++ B) (B ++ A)); [apply teq_refl|].
      apply IH. intros a' b Ha' Hb. apply H; [right; exact Ha'|exact Hb].
    + change (a :: B ++ A) with ((a :: B) ++ A).
      replace (B ++ a :: A) with ((B ++ [a]) ++ A) by (rewrite <- app_assoc; reflexivity).
      apply teq_app; [|apply teq_refl]. apply teq_call_block. intros b Hb. apply H; [left; reflexivity|exact Hb].
Qed.

(* read-write conflicts only: a declared write of one task is declared read-only by the other, or is read by one of the
   calls of the other *)
Definition rw_conflictb (t u : task) : bool :=
  existsb (fun x => lmem x (tk_in u) || lmem x (flat_map (call_reads L) (tk_calls u))) (tk_out t)
  || existsb (fun x => lmem x (tk_in t) || lmem x (flat_map (call_reads L) (tk_calls t))) (tk_out u).

Lemma existsb_false_in {A} (f : A -> bool) l x : existsb f l = false -> In x l -> f x = false.
Proof.
  intros H Hin. destruct (f x) eqn:E; [|reflexivity].
  rewrite <- H. symmetry. apply existsb_exists. exists x. split; assumption.
Qed.

Lemma rw_half_commutable t u :
  task_wf L t ->
  existsb (fun x => lmem x (tk_in u) || lmem x (flat_map (call_reads L) (tk_calls u))) (tk_out t) = false ->
  forall a b, In a (tk_calls t) -> In b (tk_calls u) -> forall x, In x (call_writes L a) -> ~ In x (call_reads L b).
Proof.
  intros Hwf Hex a b Ha Hb x Hw Hr.
  destruct (Hwf a Ha) as [Hout _]. apply Hout in Hw. apply lmem_In in Hw.
  pose proof (existsb_false_in _ _ x Hex Hw) as Hf. cbv beta in Hf.
  apply orb_false_elim in Hf. destruct Hf as [_ Hf].
  assert (Ht : lmem x (flat_map (call_reads L) (tk_calls u)) = true).
  { apply lmem_In. apply in_flat_map. exists b. split; assumption. }
  rewrite Ht in Hf. discriminate.
Qed.

Theorem tasks_commute_additive : forall t u, task_wf L t -> task_wf L u -> rw_conflictb t u = false ->
  teq L (tk_calls t ++ tk_calls u) (tk_calls u ++ tk_calls t).
Proof.
  intros t u Ht Hu Hc. unfold rw_conflictb in Hc. apply orb_false_elim in Hc. destruct Hc as [Hc1 Hc2].
  apply teq_blocks. intros a b Ha Hb. split.
  - apply (rw_half_commutable t u Ht Hc1 a b Ha Hb).
  - apply (rw_half_commutable u t Hu Hc2 b a Hb Ha).
Qed.

(* no declared conflict => no read-write conflict (for well-formed tasks) *)
Lemma conflict_half t u : task_wf L u ->
  existsb (fun x => lmem x (tk_in u) || lmem x (tk_out u)) (tk_out t) = false ->
  existsb (fun x => lmem x (tk_in u) || lmem x (flat_map (call_reads L) (tk_calls u))) (tk_out t) = false.
Proof.
  intros Hu Hex.
  match goal with |- ?g = false => destruct g eqn:E end; [|reflexivity]. exfalso.
  apply existsb_exists in E. destruct E as (x & Hx & Hor).
  pose proof (existsb_false_in _ _ x Hex Hx) as Hf. cbv beta in Hf.
  apply orb_false_elim in Hf. destruct Hf as [Hf1 Hf2].
  apply orb_prop in Hor. destruct Hor as [Hor|Hor]; [rewrite Hor in Hf1; discriminate|].
  apply lmem_In in Hor. apply in_flat_map in Hor. destruct Hor as (b & Hb & Hr).
  destruct (Hu b Hb) as [_ Hrd]. destruct (Hrd x Hr) as [H|H]; [rewrite H in Hf1|rewrite H in Hf2]; discriminate.
Qed.

Lemma conflict_rw t u : task_wf L t -> task_wf L u -> conflictb t u = false -> rw_conflictb t u = false.
Proof.
  intros Ht Hu Hc. unfold conflictb in Hc. apply orb_false_elim in Hc. destruct Hc as [Hc1 Hc2].
  unfold rw_conflictb. rewrite (conflict_half t u Hu Hc1), (conflict_half u t Ht Hc2). reflexivity.
Qed.

End Blocks.

Theorem tasks_commute : forall L s t u, task_wf L t -> task_wf L u -> conflictb t u = false ->
  st_eq (run L (tk_calls t ++ tk_calls u) s) (run L (tk_calls u ++ tk_calls t) s).
Proof.
  intros L s t u Ht Hu Hc.
  apply (tasks_commute_additive L t u Ht Hu (conflict_rw L t u Ht Hu Hc)). apply st_eq_refl.
Qed.

(* ------------------------------------------------------------------ *)
(* 6. insertion sort on lists of task indices                          *)
(* ------------------------------------------------------------------ *)
Fixpoint ins (x : nat) (l : list nat) : list nat :=
  match l with
  | [] => [x]
  | y :: r => if (x <=? y)%nat then x :: l else y :: ins x r
  end.
Definition isort (l : list nat) : list nat := fold_right ins [] l.

Lemma in_ins y x : forall l, In y (ins x l) <-> y = x \/ In y l.
Proof.
  induction l as [|z l IH]; cbn [ins].
  - cbn [In]. intuition.
  - destruct (x <=? z)%nat; cbn [In]; [intuition|]. rewrite IH. intuition.
Qed.

Lemma in_isort y : forall l, In y (isort l) <-> In y l.
Proof.
  induction l as [|x l IH]; [reflexivity|]. cbn [isort fold_right]. fold (isort l).
  rewrite in_ins, IH. cbn [In]. intuition.
Qed.

Lemma ins_comm x y : forall l, ins x (ins y l) = ins y (ins x l).
Proof.
  induction l as [|z l IH].
  - cbn [ins]. destruct (Nat.leb_spec x y); destruct (Nat.leb_spec y x); try reflexivity; try lia.
    assert (x = y) by lia. subst. reflexivity.
  - cbn [ins]. destruct (Nat.leb_spec y z) as [Hyz|Hyz]; destruct (Nat.leb_spec x z) as [Hxz|Hxz]; cbn [ins].
    + destruct (Nat.leb_spec x y) as [Hxy|Hxy]; destruct (Nat.leb_spec y x) as [Hyx|Hyx]; try lia.
      * assert (x = y) by lia. subst. reflexivity.
      * destruct (Nat.leb_spec y z); [reflexivity|lia].
      * destruct (Nat.leb_spec x z); [reflexivity|lia].
    + destruct (Nat.leb_spec x y); [lia|]. destruct (Nat.leb_spec y z); [|lia].
      destruct (Nat.leb_spec x z); [lia|]. reflexivity.
    + destruct (Nat.leb_spec y x); [lia|]. destruct (Nat.leb_spec x z); [|lia].
      destruct (Nat.leb_spec y z); [lia|]. reflexivity.
    + destruct (Nat.leb_spec x z); [lia|]. destruct (Nat.leb_spec y z); [lia|]. rewrite IH. reflexivity.
Qed.

Lemma isort_perm l l' : Permutation l l' -> isort l = isort l'.
Proof.
  intros H. induction H as [|x l l' H IH|x y l|l l' l'' H1 IH1 H2 IH2].
  - reflexivity.
  - cbn [isort fold_right]. fold (isort l) (isort l'). rewrite IH. reflexivity.
  - cbn [isort fold_right]. fold (isort l). apply ins_comm.
  - rewrite IH1. exact IH2.
Qed.

Lemma isort_seq : forall n a, isort (seq a n) = seq a n.
Proof.
  induction n as [|n IH]; intros a; [reflexivity|].
  cbn [seq isort fold_right]. fold (isort (seq (S a) n)). rewrite IH.
  destruct n as [|n]; [reflexivity|]. cbn [seq ins].
  destruct (Nat.leb_spec a (S a)); [reflexivity|lia].
Qed.

(* ------------------------------------------------------------------ *)
(* 7. sorting a schedule                                               *)
(* ------------------------------------------------------------------ *)
Section Sorting.
Variable L : Z.
Variable n : nat.
Variable blk : nat -> list call.        (* the calls of task i *)
Variable cfi : nat -> nat -> bool.      (* conflict between tasks i < j *)
Hypothesis comm : forall i j, (i < j < n)%nat -> cfi i j = false -> teq L (blk j ++ blk i) (blk i ++ blk j).

Notation F := (flat_map blk).

(* conflicting pairs of the schedule keep their submission order *)
Definition ordered (sigma : list nat) : Prop :=
  forall i j, (i < j < n)%nat -> In i sigma -> In j sigma -> cfi i j = true -> (pos_in i sigma < pos_in j sigma)%nat.

Lemma ins_teq x : forall l, (x < n)%nat -> (forall y, In y l -> (y < x)%nat -> cfi y x = false) ->
  teq L (blk x ++ F l) (F (ins x l)).
Proof.
  induction l as [|y l IH]; intros Hx H.
  - cbn [ins flat_map]. apply teq_refl.
  - cbn [ins]. destruct (Nat.leb_spec x y) as [Hxy|Hxy]; [cbn [flat_map]; apply teq_refl|].
    cbn [flat_map]. rewrite app_assoc.
    apply (teq_trans L _ ((blk y ++ blk x) ++ F l)).
    + apply teq_app; [|apply teq_refl]. apply comm; [lia|]. apply H; [left; reflexivity|exact Hxy].
    + rewrite <- app_assoc. apply teq_app; [apply teq_refl|].
      apply IH; [exact Hx|]. intros z Hz Hzx. apply H; [right; exact Hz|exact Hzx].
Qed.

Lemma pos_in_tail x i r : i <> x -> pos_in i (x :: r) = S (pos_in i r).
Proof. intros H. cbn [pos_in]. destruct (Nat.eqb_spec i x) as [E|E]; [contradiction|reflexivity]. Qed.

Lemma pos_in_head x r : pos_in x (x :: r) = 0%nat.
Proof. cbn [pos_in]. rewrite Nat.eqb_refl. reflexivity. Qed.

Lemma sort_teq : forall sigma, NoDup sigma -> (forall i, In i sigma -> (i < n)%nat) -> ordered sigma ->
  teq L (F sigma) (F (isort sigma)).
Proof.
  induction sigma as [|x r IH]; intros Hnd Hlt Hord; [apply teq_refl|].
  inversion Hnd as [|x' r' Hnx Hnd']; subst.
  assert (Hord' : ordered r).
  { intros i j Hij Hi Hj Hc.
    pose proof (Hord i j Hij (or_intror Hi) (or_intror Hj) Hc) as Hp.
    rewrite !pos_in_tail in Hp by (intros ->; contradiction). lia. }
  cbn [flat_map isort fold_right]. fold (isort r).
  apply (teq_trans L _ (blk x ++ F (isort r))).
  - apply teq_app; [apply teq_refl|]. apply IH; [exact Hnd'| |exact Hord'].
    intros i Hi. apply Hlt. right. exact Hi.
  - apply ins_teq; [apply Hlt; left; reflexivity|].
    intros y Hy Hyx. apply (proj1 (in_isort y r)) in Hy.
    destruct (cfi y x) eqn:E; [|reflexivity]. exfalso.
    assert (Hxn : (x < n)%nat) by (apply Hlt; left; reflexivity).
    pose proof (Hord y x (conj Hyx Hxn) (or_intror Hy) (or_introl eq_refl) E) as Hp.
    rewrite pos_in_head in Hp. lia.
Qed.

Theorem sort_schedule sigma : Permutation sigma (seq 0 n) -> ordered sigma -> teq L (F sigma) (F (seq 0 n)).
Proof.
  intros Hp Hord.
  rewrite <- (isort_seq n 0%nat) at 1. rewrite <- (isort_perm _ _ Hp).
  apply sort_teq; [| |exact Hord].
  - apply (Permutation_NoDup (Permutation_sym Hp)). apply seq_NoDup.
  - intros i Hi. apply (Permutation_in _ Hp) in Hi. apply in_seq in Hi. lia.
Qed.

End Sorting.

(* ------------------------------------------------------------------ *)
(* 8. determinism                                                      *)
(* ------------------------------------------------------------------ *)
Notation task0 := {| tk_in := []; tk_out := []; tk_calls := [] |}.

(* schedules in which the runtime may additionally swap tasks whose only conflicts are write-write *)
Definition legal_commute (L : Z) (ts : list task) (sigma : list nat) : Prop :=
  Permutation sigma (seq 0 (length ts)) /\
  forall i j, (i < j < length ts)%nat -> rw_conflictb L (nth i ts task0) (nth j ts task0) = true ->
              (pos_in i sigma < pos_in j sigma)%nat.

Lemma wf_nth L ts i : Forall (task_wf L) ts -> task_wf L (nth i ts task0).
Proof.
  intros H. destruct (Nat.lt_ge_cases i (length ts)) as [Hi|Hi].
  - rewrite Forall_forall in H. apply H. apply nth_In. exact Hi.
  - rewrite nth_overflow by exact Hi. intros c [].
Qed.

Theorem determinism_commute : forall L ts sigma s, Forall (task_wf L) ts -> legal_commute L ts sigma ->
  st_eq (run_schedule L ts sigma s) (run_schedule L ts (seq 0 (length ts)) s).
Proof.
  intros L ts sigma s Hwf [Hp Hord]. unfold run_schedule.
  apply (sort_schedule L (length ts) (fun i => tk_calls (nth i ts task0))
           (fun i j => rw_conflictb L (nth i ts task0) (nth j ts task0))).
  - intros i j Hij Hc. apply tasks_commute_additive; [apply wf_nth; exact Hwf|apply wf_nth; exact Hwf|].
    unfold rw_conflictb in *. rewrite orb_comm. exact Hc.
  - exact Hp.
  - intros i j Hij _ _ Hc. apply Hord; assumption.
  - apply st_eq_refl.
Qed.

Lemma legal_legal_commute L ts sigma : Forall (task_wf L) ts -> legal ts sigma -> legal_commute L ts sigma.
Proof.
  intros Hwf [Hp Hord]. split; [exact Hp|]. intros i j Hij Hc. apply Hord; [exact Hij|].
  destruct (conflictb (nth i ts task0) (nth j ts task0)) eqn:E; [reflexivity|].
  rewrite (conflict_rw L _ _ (wf_nth L ts i Hwf) (wf_nth L ts j Hwf) E) in Hc. discriminate.
Qed.

Theorem determinism : forall L ts sigma s, Forall (task_wf L) ts -> legal ts sigma ->
  st_eq (run_schedule L ts sigma s) (run_schedule L ts (seq 0 (length ts)) s).
Proof.
  intros L ts sigma s Hwf Hl. apply determinism_commute; [exact Hwf|]. apply legal_legal_commute; assumption.
Qed.

Lemma flat_map_nth_seq {B} (g : task -> list B) : forall ts pre,
  flat_map (fun i => g (nth i (pre ++ ts) task0)) (seq (length pre) (length ts)) = flat_map g ts.
Proof.
  induction ts as [|t ts IH]; intros pre; [reflexivity|].
  cbn [length seq flat_map]. rewrite app_nth2 by lia. rewrite Nat.sub_diag. cbn [nth]. f_equal.
  specialize (IH (pre ++ [t])). rewrite <- app_assoc in IH. cbn [app] in IH.
  rewrite app_length in IH. cbn [length] in IH. rewrite Nat.add_1_r in IH. exact IH.
Qed.

Theorem run_submission_order : forall L ts s,
  run_schedule L ts (seq 0 (length ts)) s = run L (flat_map tk_calls ts) s.
Proof.
  intros L ts s. unfold run_schedule. pose proof (flat_map_nth_seq tk_calls ts []) as H.
  cbn [app length] in H. rewrite H. reflexivity.
Qed.

(* every legal schedule computes what the sequential replay of the submission order computes *)
Corollary legal_schedule_sequential : forall L ts sigma s, Forall (task_wf L) ts -> legal ts sigma ->
  st_eq (run_schedule L ts sigma s) (run L (flat_map tk_calls ts) s).
Proof. intros L ts sigma s Hwf Hl. rewrite <- run_submission_order. apply determinism; assumption. Qed.

(* ------------------------------------------------------------------ *)
(* 9. the statements are not vacuous                                   *)
(* ------------------------------------------------------------------ *)
(* leaf level 3: two P2M on leaves 0 and 1, then the M2M of their parent (cell 0 of level 2) *)
Definition ex_ts : list task :=
  [ {| tk_in := []; tk_out := [LMult 3 0]; tk_calls := [CP2M 0 [10; 11]] |};
    {| tk_in := []; tk_out := [LMult 3 1]; tk_calls := [CP2M 1 [12]] |};
    {| tk_in := [LMult 3 0; LMult 3 1]; tk_out := [LMult 2 0]; tk_calls := [CM2M 2 0 [(0, 0); (1, 1)]] |} ].

Lemma ex_wf : Forall (task_wf 3) ex_ts.
Proof.
  unfold ex_ts. repeat apply Forall_cons; [| | |apply Forall_nil]; intros c [<-|[]];
    (split; intros x Hx; cbn in Hx; [|try (left)]); repeat (destruct Hx as [<-|Hx]; [reflexivity|]); destruct Hx.
Qed.

Lemma small_cases (P : nat -> nat -> Prop) :
  P 0%nat 1%nat -> P 0%nat 2%nat -> P 1%nat 2%nat -> forall i j, (i < j < 3)%nat -> P i j.
Proof.
  intros H01 H02 H12 i j Hij.
  destruct i as [|[|i]]; destruct j as [|[|[|j]]]; try lia; assumption.
Qed.

(* the two P2M tasks may run in either order *)
Example ex_legal : legal ex_ts [1; 0; 2]%nat /\ [1; 0; 2]%nat <> seq 0 (length ex_ts).
Proof.
  split; [|discriminate]. split; [apply perm_swap|].
  apply (small_cases (fun i j => conflictb (nth i ex_ts task0) (nth j ex_ts task0) = true ->
                                 (pos_in i [1; 0; 2] < pos_in j [1; 0; 2])%nat)); vm_compute; intros H; try lia; discriminate.
Qed.

(* running the M2M before one of its producers is not legal *)
Example ex_illegal : ~ legal ex_ts [0; 2; 1]%nat.
Proof.
  intros [_ H]. assert (Hp := H 1%nat 2%nat ltac:(cbn; lia) eq_refl). vm_compute in Hp. lia.
Qed.

Example ex_determinism : forall s, st_eq (run_schedule 3 ex_ts [1; 0; 2]%nat s) (run 3 (flat_map tk_calls ex_ts) s).
Proof. intros s. apply legal_schedule_sequential; [exact ex_wf|apply ex_legal]. Qed.

(* the conclusion is a real constraint: the illegal order gives another state *)
Example ex_illegal_differs : ~ st_eq (run_schedule 3 ex_ts [0; 2; 1]%nat st0) (run 3 (flat_map tk_calls ex_ts) st0).
Proof.
  intros (HM & _ & _). specialize (HM 2 0 12). vm_compute in HM. discriminate.
Qed.

(* two commuting writers of the same particle results (mutexinoutset): P2PInner (task 0) and L2P (task 2) both add to
   the results of particles 1 and 2; L2P reads the local expansion written by the L2L of task 1.
   Swapping the two writers is not allowed by [legal] but allowed by [legal_commute]; L2P before L2L never is. *)
Definition ex_cw : list task :=
  [ {| tk_in := []; tk_out := [LRhs 1; LRhs 2]; tk_calls := [CP2PInner 1 [1; 2]] |};
    {| tk_in := [LLoc 2 0]; tk_out := [LLoc 3 1]; tk_calls := [CL2L 2 0 [(1, 1)]] |};
    {| tk_in := [LLoc 3 1]; tk_out := [LRhs 1; LRhs 2]; tk_calls := [CL2P 1 [1; 2]] |} ].

Lemma ex_cw_wf : Forall (task_wf 3) ex_cw.
Proof.
  unfold ex_cw. repeat apply Forall_cons; [| | |apply Forall_nil]; intros c [<-|[]];
    (split; intros x Hx; cbn in Hx; [|try (left)]); repeat (destruct Hx as [<-|Hx]; [reflexivity|]); destruct Hx.
Qed.

Example ex_cw_legal :
  ~ legal ex_cw [1; 2; 0]%nat /\ legal_commute 3 ex_cw [1; 2; 0]%nat /\ ~ legal_commute 3 ex_cw [2; 1; 0]%nat.
Proof.
  split; [|split].
  - intros [_ H]. assert (Hp := H 0%nat 2%nat ltac:(cbn; lia) eq_refl). vm_compute in Hp. lia.
  - split.
    + apply (perm_trans (l' := [1; 0; 2]%nat)); [apply perm_skip; apply perm_swap|apply perm_swap].
    + apply (small_cases (fun i j => rw_conflictb 3 (nth i ex_cw task0) (nth j ex_cw task0) = true ->
                                     (pos_in i [1; 2; 0] < pos_in j [1; 2; 0])%nat)); vm_compute; intros H; try lia; discriminate.
  - intros [_ H]. assert (Hp := H 1%nat 2%nat ltac:(cbn; lia) eq_refl). vm_compute in Hp. lia.
Qed.

Example ex_cw_determinism : forall s,
  st_eq (run_schedule 3 ex_cw [1; 2; 0]%nat s) (run_schedule 3 ex_cw (seq 0 (length ex_cw)) s).
Proof. intros s. apply determinism_commute; [exact ex_cw_wf|apply ex_cw_legal]. Qed.

Print Assumptions step_frame_loc.
Print Assumptions step_reads_only.
Print Assumptions step_commute.
Print Assumptions step_commute_additive.
Print Assumptions tasks_commute.
Print Assumptions tasks_commute_additive.
Print Assumptions determinism.
Print Assumptions determinism_commute.
Print Assumptions run_submission_order.
Print Assumptions ex_legal.
Print Assumptions ex_cw_legal.
