(* Proofs about the bulk export model and rebuild (Tree/ExportDefs.v): properties C17 and C13. *)
From Tbfmm Require Import Base.Prelude Base.Search Tree.GroupDefs Tree.BuildDefs Tree.Invariant Tree.ExportDefs
  Tree.BuildProofs.
From Coq Require Import Sorting.Permutation ZifyBool.
Local Open Scope Z_scope.

(* sanity runs of the model *)
Definition ex_idx : list Z := [5; 5; 63; 0; 9; 12; 9].
Definition ex_tree : tree := build (fun x => x / 8) 3 2 false ex_idx.
Example export_example :
  map (fun i => map (fun v => export_get Z (-1) (fun i v => 10 * i + v) 3 ex_tree i v) (zseq 3)) (zseq 7)
  = map (fun i => map (fun v => 10 * i + v) (zseq 3)) (zseq 7).
Proof. vm_compute. reflexivity. Qed.

(* ------------------------------------------------------------------ *)
(* lookup_write                                                        *)
(* ------------------------------------------------------------------ *)

Lemma lookup_write_all : forall (V : Type) (ws : list (Z * Z * V)) i v acc x,
    (forall y, In (i, v, y) ws -> y = x) ->
    (acc = x \/ exists y, In (i, v, y) ws) ->
    lookup_write V ws i v acc = x.
Proof.
  intros V ws i v. induction ws as [|w r IH]; intros acc x Hall Hex.
  - cbn [lookup_write]. destruct Hex as [Hacc|[y Hy]]; [exact Hacc|destruct Hy].
  - destruct w as [[i' v'] y']. cbn [lookup_write].
    destruct ((i' =? i) && (v' =? v)) eqn:Hm.
    + apply andb_true_iff in Hm. destruct Hm as [Hi Hv].
      apply Z.eqb_eq in Hi. apply Z.eqb_eq in Hv. subst i' v'.
      apply IH.
      * intros y Hy. apply Hall. right. exact Hy.
      * left. apply Hall. left. reflexivity.
    + apply IH.
      * intros y Hy. apply Hall. right. exact Hy.
      * destruct Hex as [Hacc|[y Hy]]; [left; exact Hacc|].
        destruct Hy as [Heq|Hy]; [|right; exists y; exact Hy].
        inversion Heq; subst i' v' y'. rewrite !Z.eqb_refl in Hm. discriminate Hm.
Qed.

(* ------------------------------------------------------------------ *)
(* the writes of the export loops                                      *)
(* ------------------------------------------------------------------ *)

Lemma In_export_writes : forall (V : Type) (input : Z -> Z -> V) nv t i v y,
    In (i, v, y) (export_writes V input nv t) <->
    exists lf p, In lf (all_leaves t) /\ 0 <= p < lf_n lf /\ 0 <= v < nv
                 /\ znth (lf_parts lf) p (-1) = i /\ y = input i v.
Proof.
  intros V input nv t i v y. unfold export_writes. rewrite in_flat_map. split.
  - intros [lf [Hlf Hin]]. apply in_flat_map in Hin. destruct Hin as [v0 [Hv0 Hin]].
    apply in_map_iff in Hin. destruct Hin as [p [Heq Hp]].
    apply In_zseq in Hv0. apply In_zseq in Hp. unfold stored in Heq.
    inversion Heq; subst. exists lf, p. repeat split; try lia; assumption.
  - intros [lf [p [Hlf [Hp [Hv [Hi Hy]]]]]]. exists lf. split; [exact Hlf|].
    apply in_flat_map. exists v. split; [apply In_zseq; exact Hv|].
    apply in_map_iff. exists p. split; [|apply In_zseq; exact Hp].
    unfold stored. rewrite Hi, Hy. reflexivity.
Qed.

(* every write to (i, v) carries input i v *)
Lemma export_writes_value : forall (V : Type) (input : Z -> Z -> V) nv t i v y,
    In (i, v, y) (export_writes V input nv t) -> y = input i v.
Proof.
  intros V input nv t i v y Hin. apply In_export_writes in Hin.
  destruct Hin as [lf [p [_ [_ [_ [_ Hy]]]]]]. exact Hy.
Qed.

Lemma offsets_ok_lens : forall ls off, offsets_ok off ls -> Forall (fun lf => lf_n lf = zlen (lf_parts lf)) ls.
Proof.
  induction ls as [|lf r IH]; intros off Hoff; [constructor|].
  cbn [offsets_ok] in Hoff. destruct Hoff as [_ [Hn [_ Hr]]].
  constructor; [exact Hn|]. eapply IH. exact Hr.
Qed.

Lemma all_leaves_lens : forall t, Forall pgroup_ok (t_pgroups t) ->
    Forall (fun lf => lf_n lf = zlen (lf_parts lf)) (all_leaves t).
Proof.
  intros t Hpg. unfold all_leaves. apply Forall_forall. intros lf Hlf.
  apply in_flat_map in Hlf. destruct Hlf as [g [Hg Hlf]].
  rewrite Forall_forall in Hpg. specialize (Hpg g Hg).
  destruct Hpg as [_ [_ [_ [_ [_ Hoff]]]]].
  apply offsets_ok_lens in Hoff. rewrite Forall_forall in Hoff. apply Hoff. exact Hlf.
Qed.

Lemma In_znth : forall (l : list Z) x d, In x l -> exists p, 0 <= p < zlen l /\ znth l p d = x.
Proof.
  intros l x d Hin. destruct (In_nth l x d Hin) as [n [Hn Hnth]].
  exists (Z.of_nat n). split; [unfold zlen; lia|].
  rewrite znth_nth by lia. rewrite Nat2Z.id. exact Hnth.
Qed.

(* at least one write to (i, v) *)
Lemma export_writes_exists : forall (V : Type) (input : Z -> Z -> V) nv t idx i v,
    particles_ok idx t -> Forall pgroup_ok (t_pgroups t) -> 0 <= i < zlen idx -> 0 <= v < nv ->
    exists y, In (i, v, y) (export_writes V input nv t).
Proof.
  intros V input nv t idx i v [Hperm _] Hpg Hi Hv.
  assert (Hin : In i (flat_map lf_parts (all_leaves t))).
  { eapply Permutation_in; [apply Permutation_sym; exact Hperm|]. apply In_zseq. exact Hi. }
  apply in_flat_map in Hin. destruct Hin as [lf [Hlf Hip]].
  destruct (In_znth _ _ (-1) Hip) as [p [Hp Hz]].
  pose proof (all_leaves_lens t Hpg) as Hlens. rewrite Forall_forall in Hlens.
  specialize (Hlens lf Hlf). cbv beta in Hlens.
  exists (input i v). apply In_export_writes. exists lf, p.
  split; [exact Hlf|]. split; [lia|]. split; [exact Hv|]. split; [exact Hz|reflexivity].
Qed.

(* ------------------------------------------------------------------ *)
(* C17                                                                 *)
(* ------------------------------------------------------------------ *)

Theorem export_spec : forall (V : Type) (dflt : V) (input : Z -> Z -> V) nv t idx i v,
    particles_ok idx t -> Forall pgroup_ok (t_pgroups t) -> 0 <= i < zlen idx -> 0 <= v < nv ->
    export_get V dflt input nv t i v = input i v.
Proof.
  intros V dflt input nv t idx i v Hpart Hpg Hi Hv. unfold export_get.
  apply lookup_write_all.
  - intros y Hy. eapply export_writes_value. exact Hy.
  - right. eapply export_writes_exists; eassumption.
Qed.

Theorem export_spec_build : forall (V : Type) (dflt : V) (input : Z -> Z -> V) nv par H B mode idx i v,
    (forall a b, a <= b -> par a <= par b) -> (forall a, 0 <= a -> 0 <= par a) ->
    1 <= H -> 1 <= B -> idx <> [] -> Forall (fun c => 0 <= c) idx -> 0 <= i < zlen idx -> 0 <= v < nv ->
    export_get V dflt input nv (build par H B mode idx) i v = input i v.
Proof.
  intros V dflt input nv par H B mode idx i v Hmono Hpnn HH HB Hne Hnn Hi Hv.
  apply export_spec with (idx := idx).
  - apply build_particles; assumption.
  - pose proof (build_ok par H B mode idx Hmono Hpnn HH HB Hne Hnn) as Hok.
    destruct Hok as [_ [_ [_ [_ [Hpg _]]]]]. exact Hpg.
  - exact Hi.
  - exact Hv.
Qed.

(* the index expression of the pinned commit (transposed) is wrong *)
Theorem export_transposed_refuted : exists (t : tree) (i v : Z),
    lookup_write Z (export_writes_transposed Z (fun i v => 10 * i + v) 3 t) i v (-1) <> 10 * i + v
    /\ 0 <= i < 2 /\ 0 <= v < 3.
Proof.
  exists (build (fun x => x / 8) 2 10 false [1; 6]), 0, 1.
  split; [vm_compute; discriminate|]. lia.
Qed.

(* ------------------------------------------------------------------ *)
(* C13                                                                 *)
(* ------------------------------------------------------------------ *)

Theorem rebuild_ok : forall par H B mode idx', (forall a b, a <= b -> par a <= par b) -> (forall a, 0 <= a -> 0 <= par a) ->
    1 <= H -> 1 <= B -> idx' <> [] -> Forall (fun c => 0 <= c) idx' ->
    tree_ok par H B mode (rebuild par H B mode idx') /\ particles_ok idx' (rebuild par H B mode idx').
Proof.
  intros par H B mode idx' Hmono Hpnn HH HB Hne Hnn. unfold rebuild. split.
  - apply build_ok; assumption.
  - apply build_particles; assumption.
Qed.

Theorem rebuild_cycles : forall par H B mode (hist : list (list Z)), (forall a b, a <= b -> par a <= par b) -> (forall a, 0 <= a -> 0 <= par a) ->
    1 <= H -> 1 <= B -> Forall (fun idx' => idx' <> [] /\ Forall (fun c => 0 <= c) idx') hist ->
    Forall (fun idx' => tree_ok par H B mode (rebuild par H B mode idx') /\ particles_ok idx' (rebuild par H B mode idx')) hist.
Proof.
  intros par H B mode hist Hmono Hpnn HH HB Hhist.
  induction Hhist as [|idx' r [Hne Hnn] _ IH]; constructor.
  - apply rebuild_ok; assumption.
  - exact IH.
Qed.

Print Assumptions export_spec.
Print Assumptions export_spec_build.
Print Assumptions export_transposed_refuted.
Print Assumptions rebuild_ok.
Print Assumptions rebuild_cycles.
