(* The tree invariant (content of property C07), as a Prop and as an executable boolean. *)
From Tbfmm Require Import Base.Prelude Base.Search Tree.GroupDefs Tree.BuildDefs.
From Coq Require Import Sorting.Sorted.
Local Open Scope Z_scope.

Definition cgroup_ok (g : cgroup) : Prop :=
  cg_cells g <> [] /\ cg_first g = hd_or (cg_cells g) 0 /\ cg_last g = last_or (cg_cells g) 0
  /\ cg_n g = zlen (cg_cells g).

Definition level_cells (gs : list cgroup) : list Z := flat_map cg_cells gs.

(* groups non-empty, headers match content, indices strictly increasing across consecutive groups *)
Definition level_ok (gs : list cgroup) : Prop :=
  Forall cgroup_ok gs /\ StronglySorted Z.lt (level_cells gs).

Definition parents_of (par : Z -> Z) (cells : list Z) : list Z := dedup_adj (map par cells).

Fixpoint offsets_ok (off : Z) (ls : list leaf) : Prop :=
  match ls with
  | [] => True
  | lf :: r => lf_off lf = off /\ lf_n lf = zlen (lf_parts lf) /\ 1 <= lf_n lf /\ offsets_ok (off + lf_n lf) r
  end.

Definition pgroup_ok (g : pgroup) : Prop :=
  pg_leaves g <> [] /\ pg_first g = hd_or (pg_indices g) 0 /\ pg_last g = last_or (pg_indices g) 0
  /\ pg_nl g = zlen (pg_leaves g) /\ pg_np g = zsum (map lf_n (pg_leaves g)) /\ offsets_ok 0 (pg_leaves g).

Definition tree_ok (par : Z -> Z) (H B : Z) (mode : bool) (t : tree) : Prop :=
  zlen (t_levels t) = H
  /\ Forall level_ok (t_levels t)
  /\ (forall l, 0 <= l < H - 1 ->
        level_cells (znth (t_levels t) l []) = parents_of par (level_cells (znth (t_levels t) (l + 1) [])))
  /\ map cg_cells (znth (t_levels t) (H - 1) []) = map pg_indices (t_pgroups t)
  /\ Forall pgroup_ok (t_pgroups t)
  /\ Forall (fun g => cg_n g <= B) (znth (t_levels t) (H - 1) [])
  /\ (mode = false -> Forall (Forall (fun g => cg_n g <= B)) (t_levels t)).

(* where the particles are: every input particle exactly once, in the leaf of its index *)
Definition all_leaves (t : tree) : list leaf := flat_map pg_leaves (t_pgroups t).
Definition particles_ok (idx : list Z) (t : tree) : Prop :=
  Permutation.Permutation (flat_map lf_parts (all_leaves t)) (zseq (zlen idx))
  /\ Forall (fun lf => Forall (fun p => znth idx p (-1) = lf_index lf) (lf_parts lf)) (all_leaves t).

(* ---- executable version ---- *)
Definition cgroup_okb (g : cgroup) : bool :=
  negb (zlen (cg_cells g) =? 0) && (cg_first g =? hd_or (cg_cells g) 0) && (cg_last g =? last_or (cg_cells g) 0)
  && (cg_n g =? zlen (cg_cells g)).

Definition level_okb (gs : list cgroup) : bool := forallb cgroup_okb gs && strict_incb (level_cells gs).

Fixpoint offsets_okb (off : Z) (ls : list leaf) : bool :=
  match ls with
  | [] => true
  | lf :: r => (lf_off lf =? off) && (lf_n lf =? zlen (lf_parts lf)) && (1 <=? lf_n lf) && offsets_okb (off + lf_n lf) r
  end.

Definition pgroup_okb (g : pgroup) : bool :=
  negb (zlen (pg_leaves g) =? 0) && (pg_first g =? hd_or (pg_indices g) 0) && (pg_last g =? last_or (pg_indices g) 0)
  && (pg_nl g =? zlen (pg_leaves g)) && (pg_np g =? zsum (map lf_n (pg_leaves g))) && offsets_okb 0 (pg_leaves g).

Definition zlist_eqb := list_eqb Z.eqb.

Definition tree_okb (par : Z -> Z) (H B : Z) (mode : bool) (t : tree) : bool :=
  (zlen (t_levels t) =? H)
  && forallb level_okb (t_levels t)
  && forallb (fun l => zlist_eqb (level_cells (znth (t_levels t) l []))
                                 (parents_of par (level_cells (znth (t_levels t) (l + 1) []))))
             (zseq (H - 1))
  && list_eqb zlist_eqb (map cg_cells (znth (t_levels t) (H - 1) [])) (map pg_indices (t_pgroups t))
  && forallb pgroup_okb (t_pgroups t)
  && forallb (fun g => cg_n g <=? B) (znth (t_levels t) (H - 1) [])
  && (mode || forallb (forallb (fun g => cg_n g <=? B)) (t_levels t)).
