(* Proofs about the tree constructor model (Tree/BuildDefs.v) and the tree invariant (Tree/Invariant.v):
   tree_okb_spec, level_up_ok, build_ok, build_particles, build_leaf_set. *)
From Tbfmm Require Import Base.Prelude Base.Search Tree.GroupDefs Tree.BuildDefs Tree.Invariant.
From Coq Require Import Sorting.Sorted Sorting.Permutation Sorting.Mergesort ZifyBool.
Local Open Scope Z_scope.


(* ------------------------------------------------------------------ *)
(* Part 1: the boolean checker                                         *)
(* ------------------------------------------------------------------ *)

Lemma zlen_nil : forall A, zlen (@nil A) = 0.
Proof. reflexivity. Qed.

Lemma zlen_cons : forall A (x : A) l, zlen (x :: l) = 1 + zlen l.
Proof. intros A x l. unfold zlen. cbn [length]. lia. Qed.

Lemma zlen_nonneg : forall A (l : list A), 0 <= zlen l.
Proof. intros A l. unfold zlen. lia. Qed.

Lemma zlen_app : forall A (l1 l2 : list A), zlen (l1 ++ l2) = zlen l1 + zlen l2.
Proof. intros A l1 l2. unfold zlen. rewrite app_length. lia. Qed.

Lemma zlen_zero_iff : forall A (l : list A), zlen l = 0 <-> l = [].
Proof.
  intros A l. destruct l as [|x r].
  - split; reflexivity.
  - rewrite zlen_cons. pose proof (zlen_nonneg A r) as Hr. split; [lia|discriminate].
Qed.

Lemma forallb_Forall : forall A (f : A -> bool) (P : A -> Prop) l,
  (forall x, f x = true <-> P x) -> (forallb f l = true <-> Forall P l).
Proof.
  intros A f P l Hf. induction l as [|x r IH].
  - cbn. split; [constructor|reflexivity].
  - cbn [forallb]. rewrite andb_true_iff, IH, Hf. split.
    + intros [H1 H2]. constructor; assumption.
    + intros HF. inversion HF; subst. split; assumption.
Qed.

Lemma list_eqb_spec : forall A (eqb : A -> A -> bool),
  (forall a b, eqb a b = true <-> a = b) ->
  forall l1 l2, list_eqb eqb l1 l2 = true <-> l1 = l2.
Proof.
  intros A eqb Heq l1. induction l1 as [|a r1 IH]; intros l2; destruct l2 as [|b r2]; cbn [list_eqb].
  - split; reflexivity.
  - split; discriminate.
  - split; discriminate.
  - rewrite andb_true_iff, Heq, IH. split.
    + intros [H1 H2]. subst. reflexivity.
    + intros H. inversion H. split; reflexivity.
Qed.

Lemma zlist_eqb_spec : forall l1 l2, zlist_eqb l1 l2 = true <-> l1 = l2.
Proof. apply list_eqb_spec. intros a b. apply Z.eqb_eq. Qed.

Lemma SSorted_lt_cons2 : forall x y r,
  StronglySorted Z.lt (x :: y :: r) <-> x < y /\ StronglySorted Z.lt (y :: r).
Proof.
  intros x y r. split.
  - intros HS. inversion HS as [|a l HS' HF]; subst. inversion HF; subst. split; assumption.
  - intros [Hxy HS]. constructor; [assumption|].
    inversion HS as [|a l HS' HF]; subst. constructor; [assumption|].
    eapply Forall_impl; [|exact HF]. intros a Ha. cbv beta in Ha. lia.
Qed.

Lemma strict_incb_spec : forall l, strict_incb l = true <-> StronglySorted Z.lt l.
Proof.
  induction l as [|x r IH].
  - cbn. split; [constructor|reflexivity].
  - destruct r as [|y r'].
    + cbn. split; [intros _; constructor; constructor|reflexivity].
    + change (strict_incb (x :: y :: r')) with ((x <? y) && strict_incb (y :: r')).
      rewrite andb_true_iff, IH, SSorted_lt_cons2, Z.ltb_lt. reflexivity.
Qed.

Lemma cgroup_okb_spec : forall g, cgroup_okb g = true <-> cgroup_ok g.
Proof.
  intros g. unfold cgroup_okb, cgroup_ok.
  rewrite !andb_true_iff, negb_true_iff, !Z.eqb_eq, Z.eqb_neq, zlen_zero_iff. tauto.
Qed.

Lemma level_okb_spec : forall gs, level_okb gs = true <-> level_ok gs.
Proof.
  intros gs. unfold level_okb, level_ok.
  rewrite andb_true_iff, strict_incb_spec, (forallb_Forall _ _ cgroup_ok) by apply cgroup_okb_spec.
  reflexivity.
Qed.

Lemma offsets_okb_spec : forall ls off, offsets_okb off ls = true <-> offsets_ok off ls.
Proof.
  induction ls as [|lf r IH]; intros off.
  - cbn. tauto.
  - cbn [offsets_okb offsets_ok]. rewrite !andb_true_iff, !Z.eqb_eq, Z.leb_le, IH. tauto.
Qed.

Lemma pgroup_okb_spec : forall g, pgroup_okb g = true <-> pgroup_ok g.
Proof.
  intros g. unfold pgroup_okb, pgroup_ok.
  rewrite !andb_true_iff, negb_true_iff, !Z.eqb_eq, Z.eqb_neq, zlen_zero_iff, offsets_okb_spec. tauto.
Qed.

Lemma In_zrange : forall lo hi x, In x (zrange lo hi) <-> lo <= x <= hi.
Proof.
  intros lo hi x. unfold zrange. rewrite in_map_iff. split.
  - intros [k [Hk Hin]]. apply in_seq in Hin. lia.
  - intros Hx. exists (Z.to_nat (x - lo)). split; [lia|]. apply in_seq. lia.
Qed.

Lemma In_zseq : forall n x, In x (zseq n) <-> 0 <= x < n.
Proof. intros n x. unfold zseq. rewrite In_zrange. lia. Qed.

Lemma forallb_zseq : forall (f : Z -> bool) n,
  forallb f (zseq n) = true <-> (forall l, 0 <= l < n -> f l = true).
Proof.
  intros f n. rewrite forallb_forall. split.
  - intros Hf l Hl. apply Hf. apply In_zseq. exact Hl.
  - intros Hf l Hl. apply Hf. apply In_zseq. exact Hl.
Qed.

Lemma sizes_okb_spec : forall B gs,
  forallb (fun g => cg_n g <=? B) gs = true <-> Forall (fun g => cg_n g <= B) gs.
Proof. intros B gs. apply forallb_Forall. intros g. apply Z.leb_le. Qed.

Theorem tree_okb_spec : forall par H B mode t, 0 <= H ->
  (tree_okb par H B mode t = true <-> tree_ok par H B mode t).
Proof.
  intros par H B mode t HH. unfold tree_okb, tree_ok.
  rewrite !andb_true_iff, Z.eqb_eq.
  rewrite (forallb_Forall _ _ level_ok) by apply level_okb_spec.
  rewrite forallb_zseq.
  rewrite (list_eqb_spec _ zlist_eqb zlist_eqb_spec).
  rewrite (forallb_Forall _ _ pgroup_ok) by apply pgroup_okb_spec.
  rewrite sizes_okb_spec.
  assert (Hm : (mode || forallb (forallb (fun g => cg_n g <=? B)) (t_levels t)) = true
               <-> (mode = false -> Forall (Forall (fun g => cg_n g <= B)) (t_levels t))).
  { rewrite <- (forallb_Forall _ (forallb (fun g => cg_n g <=? B))) by (intros x; apply sizes_okb_spec).
    destruct mode; cbn [orb]; split; intros; try reflexivity; try discriminate; auto. }
  rewrite Hm.
  assert (Hp : (forall l, 0 <= l < H - 1 ->
                  zlist_eqb (level_cells (znth (t_levels t) l []))
                            (parents_of par (level_cells (znth (t_levels t) (l + 1) []))) = true)
               <-> (forall l, 0 <= l < H - 1 ->
                  level_cells (znth (t_levels t) l []) = parents_of par (level_cells (znth (t_levels t) (l + 1) [])))).
  { split; intros Hf l Hl; apply zlist_eqb_spec; apply Hf; exact Hl. }
  rewrite Hp. tauto.
Qed.


(* ------------------------------------------------------------------ *)
(* Part 2: one level up                                                *)
(* ------------------------------------------------------------------ *)

(* dedup relative to a previous value *)
Fixpoint ddp (prev : Z) (l : list Z) : list Z :=
  match l with
  | [] => []
  | x :: r => if prev =? x then ddp prev r else x :: ddp x r
  end.

Lemma last_or_dflt : forall A (l : list A) d d', l <> [] -> last_or l d = last_or l d'.
Proof.
  intros A l d d'. induction l as [|x r IH]; intros Hne; [congruence|].
  destruct r as [|y r']; [reflexivity|].
  change (last_or (y :: r') d = last_or (y :: r') d'). apply IH. discriminate.
Qed.

Lemma last_or_cons : forall A (x : A) l d, last_or (x :: l) d = last_or l x.
Proof.
  intros A x l d. destruct l as [|y r]; [reflexivity|].
  change (last_or (y :: r) d = last_or (y :: r) x). apply last_or_dflt. discriminate.
Qed.

Lemma last_or_app : forall A (l1 l2 : list A) d, last_or (l1 ++ l2) d = last_or l2 (last_or l1 d).
Proof.
  intros A l1. induction l1 as [|x r IH]; intros l2 d.
  - reflexivity.
  - change ((x :: r) ++ l2) with (x :: (r ++ l2)). rewrite !last_or_cons. apply IH.
Qed.

Lemma ddp_app : forall l1 l2 p, ddp p (l1 ++ l2) = ddp p l1 ++ ddp (last_or l1 p) l2.
Proof.
  induction l1 as [|x r IH]; intros l2 p.
  - reflexivity.
  - change ((x :: r) ++ l2) with (x :: (r ++ l2)). cbn [ddp]. rewrite last_or_cons.
    destruct (Z.eqb_spec p x) as [He|Hn].
    + subst x. apply IH.
    + rewrite IH. reflexivity.
Qed.

Lemma dedup_adj_cons : forall r x, dedup_adj (x :: r) = x :: ddp x r.
Proof.
  induction r as [|y r' IH]; intros x.
  - reflexivity.
  - change (dedup_adj (x :: y :: r')) with (if x =? y then dedup_adj (y :: r') else x :: dedup_adj (y :: r')).
    rewrite IH. cbn [ddp]. destruct (Z.eqb_spec x y) as [He|Hn].
    + subst y. reflexivity.
    + reflexivity.
Qed.

Lemma dedup_adj_ddp : forall l p, hd_or l (p + 1) <> p -> dedup_adj l = ddp p l.
Proof.
  intros l p Hp. destruct l as [|x r]; [reflexivity|].
  rewrite dedup_adj_cons. cbn [ddp]. cbn [hd_or] in Hp.
  destruct (Z.eqb_spec p x) as [He|Hn]; [congruence|reflexivity].
Qed.

Lemma last_or_ddp : forall l p, last_or (ddp p l) p = last_or l p.
Proof.
  induction l as [|x r IH]; intros p.
  - reflexivity.
  - cbn [ddp]. destruct (Z.eqb_spec p x) as [He|Hn].
    + subst x. rewrite IH, last_or_cons. reflexivity.
    + rewrite !last_or_cons. apply IH.
Qed.

Lemma In_ddp : forall l p y, In y (ddp p l) -> In y l.
Proof.
  induction l as [|x r IH]; intros p y Hy.
  - exact Hy.
  - cbn [ddp] in Hy. destruct (p =? x).
    + right. eapply IH. exact Hy.
    + destruct Hy as [Hy|Hy]; [left; exact Hy|right; eapply IH; exact Hy].
Qed.

Lemma In_dedup_adj : forall l y, In y (dedup_adj l) -> In y l.
Proof.
  intros l y Hy. destruct l as [|x r]; [exact Hy|].
  rewrite dedup_adj_cons in Hy. destruct Hy as [Hy|Hy]; [left; exact Hy|right; eapply In_ddp; exact Hy].
Qed.

Lemma ddp_sorted : forall l p, StronglySorted Z.le (p :: l) ->
  StronglySorted Z.lt (ddp p l) /\ Forall (fun y => p < y) (ddp p l).
Proof.
  induction l as [|x r IH]; intros p HS.
  - cbn. split; constructor.
  - inversion HS as [|a l' HS1 HF1]; subst. inversion HF1 as [|a l' Hpx HFr]; subst.
    inversion HS1 as [|a l' HSr HFx]; subst.
    cbn [ddp]. destruct (Z.eqb_spec p x) as [He|Hn].
    + subst x. apply IH. exact HS1.
    + destruct (IH x HS1) as [IH1 IH2]. split.
      * constructor; assumption.
      * constructor; [lia|]. eapply Forall_impl; [|exact IH2]. intros a Ha. cbv beta in Ha. lia.
Qed.

Lemma dedup_adj_sorted : forall l, StronglySorted Z.le l -> StronglySorted Z.lt (dedup_adj l).
Proof.
  intros l HS. destruct l as [|x r]; [constructor|].
  rewrite dedup_adj_cons. destruct (ddp_sorted r x HS) as [H1 H2]. constructor; assumption.
Qed.

Lemma SSorted_map_mono : forall (par : Z -> Z) l, (forall a b, a <= b -> par a <= par b) ->
  StronglySorted Z.lt l -> StronglySorted Z.le (map par l).
Proof.
  intros par l Hm HS. induction HS as [|x r HSr IH HF].
  - constructor.
  - cbn [map]. constructor; [exact IH|]. apply Forall_forall. intros y Hy.
    apply in_map_iff in Hy. destruct Hy as [c [Hc Hin]]. subst y.
    rewrite Forall_forall in HF. apply Hm. specialize (HF c Hin). lia.
Qed.

Lemma SSorted_le_last : forall A R L, StronglySorted Z.le (L :: A ++ R) -> StronglySorted Z.le (last_or A L :: R).
Proof.
  induction A as [|x A' IH]; intros R L HS.
  - exact HS.
  - rewrite last_or_cons. apply IH. cbn [app] in HS. inversion HS; subst. assumption.
Qed.

Lemma SSorted_le_drop : forall A R L, StronglySorted Z.le (L :: A ++ R) -> StronglySorted Z.le (L :: R).
Proof.
  intros A R L HS. inversion HS as [|a l HS1 HF]; subst. constructor.
  - clear HF HS. induction A as [|x A' IH]; [exact HS1|]. apply IH. cbn [app] in HS1. inversion HS1; subst. assumption.
  - apply Forall_app in HF. tauto.
Qed.

Lemma level_cells_app : forall a b, level_cells (a ++ b) = level_cells a ++ level_cells b.
Proof. intros a b. unfold level_cells. apply flat_map_app. Qed.

Lemma level_cells_cons : forall g r, level_cells (g :: r) = cg_cells g ++ level_cells r.
Proof. reflexivity. Qed.

Lemma level_cells_rev_cons : forall g a, level_cells (rev (g :: a)) = level_cells (rev a) ++ cg_cells g.
Proof. intros g a. cbn [rev]. rewrite level_cells_app. cbn. rewrite app_nil_r. reflexivity. Qed.

Lemma cg_cells_mk : forall l, cg_cells (mk_cgroup l) = l.
Proof. intros l. destruct l; reflexivity. Qed.

Lemma cg_n_mk : forall l, cg_n (mk_cgroup l) = zlen l.
Proof. intros l. destruct l; reflexivity. Qed.

Lemma cgroup_ok_mk : forall l, l <> [] -> cgroup_ok (mk_cgroup l).
Proof.
  intros l Hl. destruct l as [|c r]; [congruence|].
  unfold cgroup_ok. cbn [mk_cgroup cg_cells cg_first cg_last cg_n hd_or]. repeat split. discriminate.
Qed.

Section LevelUp.
Variable par : Z -> Z.

(* ---- default mode ---- *)
Lemma up_split_cells : forall B cells prev cur_rev out_rev,
  level_cells (up_split par B cells prev cur_rev out_rev)
  = level_cells (rev out_rev) ++ rev cur_rev ++ ddp prev (map par cells).
Proof.
  intros B. induction cells as [|c r IH]; intros prev cur_rev out_rev.
  - cbn [up_split map ddp]. rewrite app_nil_r. destruct cur_rev as [|q a].
    + cbn [rev]. rewrite app_nil_r. reflexivity.
    + rewrite level_cells_rev_cons, cg_cells_mk. reflexivity.
  - cbn [up_split map ddp]. destruct (prev =? par c).
    + apply IH.
    + destruct (zlen (par c :: cur_rev) =? B).
      * rewrite IH, level_cells_rev_cons, cg_cells_mk. cbn [rev app]. rewrite <- !app_assoc. reflexivity.
      * rewrite IH. cbn [rev]. rewrite <- !app_assoc. reflexivity.
Qed.

Lemma up_split_Forall : forall (P : cgroup -> Prop) B,
  (forall l, l <> [] -> zlen l <= B -> P (mk_cgroup l)) ->
  forall cells prev cur_rev out_rev,
  Forall P out_rev -> zlen cur_rev < B ->
  Forall P (up_split par B cells prev cur_rev out_rev).
Proof.
  intros P B HP. induction cells as [|c r IH]; intros prev cur_rev out_rev Hout Hcur.
  - cbn [up_split]. apply Forall_rev. destruct cur_rev as [|q a]; [exact Hout|].
    constructor; [|exact Hout]. apply HP.
    + intros Hr. apply (f_equal (@length Z)) in Hr. rewrite rev_length in Hr. discriminate.
    + unfold zlen in *. rewrite rev_length. lia.
  - cbn [up_split]. destruct (prev =? par c).
    + apply IH; assumption.
    + destruct (Z.eqb_spec (zlen (par c :: cur_rev)) B) as [He|Hn].
      * apply IH.
        -- constructor; [|exact Hout]. apply HP.
           ++ intros Hr. apply (f_equal (@length Z)) in Hr. rewrite rev_length in Hr. discriminate.
           ++ unfold zlen in *. rewrite rev_length. lia.
        -- rewrite zlen_nil. rewrite zlen_cons in He. pose proof (zlen_nonneg _ cur_rev). lia.
      * apply IH; [exact Hout|]. rewrite zlen_cons in *. lia.
Qed.

(* ---- one group per parent mode ---- *)
Lemma parents_dedup_cons : forall cells q a,
  parents_dedup par cells (q :: a) = rev (q :: a) ++ ddp q (map par cells).
Proof.
  induction cells as [|c r IH]; intros q a.
  - cbn [parents_dedup map ddp]. rewrite app_nil_r. reflexivity.
  - cbn [parents_dedup map ddp]. destruct (q =? par c).
    + apply IH.
    + rewrite IH. cbn [rev]. rewrite <- !app_assoc. reflexivity.
Qed.

Lemma parents_dedup_nil : forall cells, parents_dedup par cells [] = dedup_adj (map par cells).
Proof.
  intros cells. destruct cells as [|c r]; [reflexivity|].
  cbn [parents_dedup map]. rewrite parents_dedup_cons, dedup_adj_cons. reflexivity.
Qed.

Lemma skip_le_ddp : forall cells lim, Forall (fun c => lim <= par c) cells ->
  dedup_adj (map par (skip_le par lim cells)) = ddp lim (map par cells).
Proof.
  induction cells as [|c r IH]; intros lim HF.
  - reflexivity.
  - inversion HF as [|a l Hc HFr]; subst. cbn [skip_le map ddp].
    destruct (Z.leb_spec (par c) lim) as [Hle|Hgt].
    + assert (He : lim = par c) by lia. rewrite <- He, Z.eqb_refl. apply IH. exact HFr.
    + destruct (Z.eqb_spec lim (par c)) as [He|Hn]; [lia|].
      cbn [map]. apply dedup_adj_cons.
Qed.

Lemma Forall_map_iff : forall A B (f : A -> B) (P : B -> Prop) l, Forall P (map f l) <-> Forall (fun x => P (f x)) l.
Proof. intros. apply Forall_map. Qed.

Lemma up_per_group_spec : forall lower out_rev,
  Forall cgroup_ok out_rev ->
  StronglySorted Z.le (last_or (level_cells (rev out_rev)) (-1) :: map par (level_cells lower)) ->
  Forall (fun c => 0 <= par c) (level_cells lower) ->
  level_cells (up_per_group par lower out_rev)
    = level_cells (rev out_rev) ++ ddp (last_or (level_cells (rev out_rev)) (-1)) (map par (level_cells lower))
  /\ Forall cgroup_ok (up_per_group par lower out_rev).
Proof.
  induction lower as [|g r IH]; intros out_rev Hout HS Hnn.
  - cbn [up_per_group level_cells flat_map map ddp]. rewrite app_nil_r. split; [reflexivity|].
    apply Forall_rev. exact Hout.
  - set (L := last_or (level_cells (rev out_rev)) (-1)) in *.
    rewrite level_cells_cons, map_app in HS. rewrite level_cells_cons in Hnn.
    apply Forall_app in Hnn. destruct Hnn as [Hnng Hnnr].
    set (cells := match out_rev with [] => cg_cells g | u :: _ => skip_le par (cg_last u) (cg_cells g) end).
    assert (Hps : parents_dedup par cells [] = ddp L (map par (cg_cells g))).
    { rewrite parents_dedup_nil. subst cells. destruct out_rev as [|u a].
      - subst L. cbn [rev level_cells flat_map last_or]. apply dedup_adj_ddp.
        destruct (cg_cells g) as [|c cs]; cbn [map hd_or]; [lia|].
        inversion Hnng; subst. lia.
      - assert (HL : cg_last u = L).
        { subst L. rewrite level_cells_rev_cons, last_or_app.
          inversion Hout as [|x l Hu Ha]; subst. destruct Hu as [Hne [_ [Hlast _]]].
          rewrite Hlast. apply last_or_dflt. exact Hne. }
        rewrite HL. apply skip_le_ddp.
        inversion HS as [|x l HS1 HF]; subst. apply Forall_app in HF. destruct HF as [HF _].
        rewrite Forall_map in HF. exact HF. }
    cbn [up_per_group]. fold cells. rewrite Hps.
    rewrite level_cells_cons, map_app, ddp_app.
    destruct (ddp L (map par (cg_cells g))) as [|p ps] eqn:Hd.
    + assert (HL' : last_or (map par (cg_cells g)) L = L).
      { rewrite <- last_or_ddp, Hd. reflexivity. }
      rewrite HL'. cbn [app]. apply IH.
      * exact Hout.
      * fold L. eapply SSorted_le_drop. exact HS.
      * exact Hnnr.
    + assert (HL' : last_or (level_cells (rev (mk_cgroup (p :: ps) :: out_rev))) (-1) = last_or (map par (cg_cells g)) L).
      { rewrite level_cells_rev_cons, last_or_app, cg_cells_mk. fold L. rewrite <- Hd. apply last_or_ddp. }
      destruct (IH (mk_cgroup (p :: ps) :: out_rev)) as [IH1 IH2].
      * constructor; [|exact Hout]. apply cgroup_ok_mk. discriminate.
      * rewrite HL'. apply SSorted_le_last. exact HS.
      * exact Hnnr.
      * split; [|exact IH2]. rewrite IH1, HL', level_cells_rev_cons, cg_cells_mk, <- app_assoc. reflexivity.
Qed.

Hypothesis par_mono : forall a b, a <= b -> par a <= par b.
Hypothesis par_nonneg : forall a, 0 <= a -> 0 <= par a.

Lemma parents_of_facts : forall cells, StronglySorted Z.lt cells -> Forall (fun c => 0 <= c) cells ->
  StronglySorted Z.lt (parents_of par cells) /\ Forall (fun c => 0 <= c) (parents_of par cells)
  /\ parents_of par cells = ddp (-1) (map par cells).
Proof.
  intros cells HS Hnn. unfold parents_of.
  assert (Hp : Forall (fun c => 0 <= c) (map par cells)).
  { apply Forall_map_iff. eapply Forall_impl; [|exact Hnn]. intros a Ha. apply par_nonneg. exact Ha. }
  split; [|split].
  - apply dedup_adj_sorted. apply SSorted_map_mono; assumption.
  - apply Forall_forall. intros y Hy. apply In_dedup_adj in Hy. rewrite Forall_forall in Hp. apply Hp. exact Hy.
  - apply dedup_adj_ddp. destruct (map par cells) as [|x r]; cbn [hd_or]; [lia|]. inversion Hp; subst. lia.
Qed.

Theorem level_up_ok_in : forall mode B lower,
  1 <= B -> level_ok lower -> Forall (fun c => 0 <= c) (level_cells lower) ->
  let up := level_up par mode B lower in
  level_ok up /\ level_cells up = parents_of par (level_cells lower) /\ (mode = false -> Forall (fun g => cg_n g <= B) up)
  /\ Forall (fun c => 0 <= c) (level_cells up).
Proof.
  intros mode B lower HB [Hgs HS] Hnn up.
  destruct (parents_of_facts (level_cells lower) HS Hnn) as [PS [Pnn Pdd]].
  assert (Hmain : Forall cgroup_ok up /\ level_cells up = parents_of par (level_cells lower)
                  /\ (mode = false -> Forall (fun g => cg_n g <= B) up)).
  { subst up. unfold level_up. destruct mode.
    - destruct (up_per_group_spec lower []) as [H1 H2].
      + constructor.
      + cbn [rev level_cells flat_map last_or]. constructor.
        * apply SSorted_map_mono; assumption.
        * apply Forall_map_iff. eapply Forall_impl; [|exact Hnn]. intros a Ha. cbv beta.
          pose proof (par_nonneg a Ha). lia.
      + eapply Forall_impl; [|exact Hnn]. intros a Ha. apply par_nonneg. exact Ha.
      + split; [exact H2|]. split; [|discriminate]. rewrite H1, Pdd. reflexivity.
    - assert (HF : Forall (fun g => cgroup_ok g /\ cg_n g <= B)
                     (up_split par B (flat_map cg_cells lower) (-1) [] [])).
      { apply up_split_Forall.
        - intros l Hl Hlen. split; [apply cgroup_ok_mk; exact Hl|]. rewrite cg_n_mk. exact Hlen.
        - constructor.
        - rewrite zlen_nil. lia. }
      split; [|split].
      + eapply Forall_impl; [|exact HF]. intros a [Ha1 Ha2]. exact Ha1.
      + rewrite up_split_cells. cbn [rev level_cells flat_map app]. rewrite Pdd. reflexivity.
      + intros _. eapply Forall_impl; [|exact HF]. intros a [Ha1 Ha2]. exact Ha2. }
  destruct Hmain as [M1 [M2 M3]].
  split; [split; [exact M1|rewrite M2; exact PS]|].
  split; [exact M2|]. split; [exact M3|]. rewrite M2. exact Pnn.
Qed.
End LevelUp.

Theorem level_up_ok : forall par mode B lower, (forall a b, a <= b -> par a <= par b) -> (forall a, 0 <= a -> 0 <= par a) ->
    1 <= B -> level_ok lower -> Forall (fun c => 0 <= c) (level_cells lower) ->
    let up := level_up par mode B lower in
    level_ok up /\ level_cells up = parents_of par (level_cells lower) /\ (mode = false -> Forall (fun g => cg_n g <= B) up)
    /\ Forall (fun c => 0 <= c) (level_cells up).
Proof. intros par mode B lower Hm Hn. apply level_up_ok_in; assumption. Qed.


(* ------------------------------------------------------------------ *)
(* Part 3: leaves (run-length encoding) and the particle groups        *)
(* ------------------------------------------------------------------ *)

Lemma znth_nth : forall A (l : list A) i d, 0 <= i -> znth l i d = nth (Z.to_nat i) l d.
Proof. intros A l i d Hi. unfold znth. destruct (Z.ltb_spec i 0); [lia|reflexivity]. Qed.

Lemma znth_cons : forall A (x : A) l j d, 0 <= j -> znth (x :: l) (j + 1) d = znth l j d.
Proof.
  intros A x l j d Hj. rewrite !znth_nth by lia.
  replace (Z.to_nat (j + 1)) with (S (Z.to_nat j)) by lia. reflexivity.
Qed.

Lemma znth_0 : forall A (x : A) l d, znth (x :: l) 0 d = x.
Proof. reflexivity. Qed.

Lemma znth_app_r : forall A (l1 l2 : list A) k d, 0 <= k -> znth (l1 ++ l2) (zlen l1 + k) d = znth l2 k d.
Proof.
  intros A l1 l2 k d Hk. pose proof (zlen_nonneg _ l1) as H1. rewrite !znth_nth by lia.
  replace (Z.to_nat (zlen l1 + k)) with (length l1 + Z.to_nat k)%nat by (unfold zlen; lia).
  apply app_nth2_plus.
Qed.

Lemma znth_app_l : forall A (l1 l2 : list A) k d, 0 <= k < zlen l1 -> znth (l1 ++ l2) k d = znth l1 k d.
Proof.
  intros A l1 l2 k d Hk. rewrite !znth_nth by lia. apply app_nth1. unfold zlen in Hk. lia.
Qed.

Lemma znth_map : forall A B (f : A -> B) (l : list A) i d, znth (map f l) i (f d) = f (znth l i d).
Proof. intros A B f l i d. unfold znth. destruct (i <? 0); [reflexivity|]. apply map_nth. Qed.

Lemma znth_last : forall A (l : list A) d d', l <> [] -> znth l (zlen l - 1) d' = last_or l d.
Proof.
  intros A l d d'. induction l as [|x r IH]; intros Hne; [congruence|].
  destruct r as [|y r'].
  - reflexivity.
  - change (last_or (x :: y :: r') d) with (last_or (y :: r') d). rewrite <- IH by discriminate.
    rewrite (zlen_cons _ x). replace (1 + zlen (y :: r') - 1) with ((zlen (y :: r') - 1) + 1) by lia.
    apply znth_cons. rewrite zlen_cons. pose proof (zlen_nonneg _ r'). lia.
Qed.

Lemma hd_or_map : forall A B (f : A -> B) l d, hd_or (map f l) (f d) = f (hd_or l d).
Proof. intros A B f l d. destruct l; reflexivity. Qed.

Lemma zlen_map : forall A B (f : A -> B) l, zlen (map f l) = zlen l.
Proof. intros. unfold zlen. rewrite map_length. reflexivity. Qed.

Lemma zlen_firstn_z : forall A (l : list A) n, 0 <= n <= zlen l -> zlen (firstn_z n l) = n.
Proof. intros A l n Hn. unfold zlen, firstn_z in *. rewrite firstn_length. lia. Qed.

Lemma zlen_skipn_z : forall A (l : list A) n, 0 <= n <= zlen l -> zlen (skipn_z n l) = zlen l - n.
Proof. intros A l n Hn. unfold zlen, skipn_z in *. rewrite skipn_length. lia. Qed.

Lemma firstn_skipn_z : forall A (l : list A) n, firstn_z n l ++ skipn_z n l = l.
Proof. intros. apply firstn_skipn. Qed.

Lemma map_fst_combine : forall A B (l1 : list A) (l2 : list B), length l1 = length l2 -> map fst (combine l1 l2) = l1.
Proof.
  intros A B l1. induction l1 as [|a r IH]; intros l2 Hl; destruct l2 as [|b r2]; try discriminate; [reflexivity|].
  cbn [combine map fst]. f_equal. apply IH. cbn in Hl. lia.
Qed.

Lemma map_snd_combine : forall A B (l1 : list A) (l2 : list B), length l1 = length l2 -> map snd (combine l1 l2) = l2.
Proof.
  intros A B l1. induction l1 as [|a r IH]; intros l2 Hl; destruct l2 as [|b r2]; try discriminate; [reflexivity|].
  cbn [combine map snd]. f_equal. apply IH. cbn in Hl. lia.
Qed.

Lemma zsum_app : forall l1 l2, zsum (l1 ++ l2) = zsum l1 + zsum l2.
Proof. induction l1 as [|x r IH]; intros l2; cbn [zsum app]; [lia|]. rewrite IH. lia. Qed.

(* converse membership for dedup *)
Lemma In_ddp_conv : forall l p y, In y l -> y = p \/ In y (ddp p l).
Proof.
  induction l as [|x r IH]; intros p y Hy; [contradiction|].
  cbn [ddp]. destruct (Z.eqb_spec p x) as [He|Hn].
  - destruct Hy as [Hy|Hy]; [left; congruence|]. apply IH. exact Hy.
  - destruct Hy as [Hy|Hy]; [right; left; exact Hy|].
    destruct (IH x y Hy) as [H1|H1]; [right; left; congruence|right; right; exact H1].
Qed.

Lemma In_dedup_adj_iff : forall l y, In y (dedup_adj l) <-> In y l.
Proof.
  intros l y. split; [apply In_dedup_adj|].
  intros Hy. destruct l as [|x r]; [contradiction|]. rewrite dedup_adj_cons.
  destruct Hy as [Hy|Hy]; [left; exact Hy|].
  destruct (In_ddp_conv r x y Hy) as [H1|H1]; [left; congruence|right; exact H1].
Qed.

(* ---- run-length encoding ---- *)
Definition expand (bl : list (Z * Z)) : list Z :=
  flat_map (fun kn => repeat (fst kn) (Z.to_nat (snd kn))) bl.

Lemma expand_cons : forall kn r, expand (kn :: r) = repeat (fst kn) (Z.to_nat (snd kn)) ++ expand r.
Proof. reflexivity. Qed.

Lemma expand_app : forall a b, expand (a ++ b) = expand a ++ expand b.
Proof. intros. unfold expand. apply flat_map_app. Qed.

Lemma length_expand : forall bl, Forall (fun kn => 1 <= snd kn) bl ->
  Z.of_nat (length (expand bl)) = zsum (map snd bl).
Proof.
  induction bl as [|kn r IH]; intros HF; [reflexivity|].
  inversion HF; subst. rewrite expand_cons, app_length, repeat_length. cbn [map zsum].
  rewrite Nat2Z.inj_add, IH by assumption. lia.
Qed.

Lemma In_expand : forall bl x, In x (expand bl) -> In x (map fst bl).
Proof.
  induction bl as [|kn r IH]; intros x Hx; [contradiction|].
  rewrite expand_cons in Hx. apply in_app_or in Hx. destruct Hx as [Hx|Hx].
  - left. apply repeat_spec in Hx. congruence.
  - right. apply IH. exact Hx.
Qed.

Fixpoint rle_from (k n : Z) (ps : list (Z * Z)) : list (Z * Z) :=
  match ps with
  | [] => [(k, n)]
  | (k', _) :: r => if k =? k' then rle_from k (n + 1) r else (k, n) :: rle_from k' 1 r
  end.

Lemma rle_loop_from : forall ps k0 n0 a, rle_loop ps ((k0, n0) :: a) = rev a ++ rle_from k0 n0 ps.
Proof.
  induction ps as [|[k o] r IH]; intros k0 n0 a.
  - reflexivity.
  - cbn [rle_loop rle_from]. destruct (k0 =? k).
    + apply IH.
    + rewrite IH. cbn [rev]. rewrite <- app_assoc. reflexivity.
Qed.

Lemma leaves_of_cons : forall k o r, leaves_of ((k, o) :: r) = rle_from k 1 r.
Proof. intros k o r. unfold leaves_of. cbn [rle_loop]. rewrite rle_loop_from. reflexivity. Qed.

Lemma repeat_snoc : forall A (x : A) n, repeat x n ++ [x] = repeat x (S n).
Proof. intros A x n. induction n as [|n IH]; [reflexivity|]. cbn [repeat app]. rewrite IH. reflexivity. Qed.

Lemma rle_from_expand : forall ps k n, 0 <= n ->
  expand (rle_from k n ps) = repeat k (Z.to_nat n) ++ map fst ps.
Proof.
  induction ps as [|[k' o] r IH]; intros k n Hn.
  - cbn [rle_from map]. rewrite expand_cons. reflexivity.
  - cbn [rle_from map fst]. destruct (Z.eqb_spec k k') as [He|Hne].
    + subst k'. rewrite IH by lia. replace (Z.to_nat (n + 1)) with (S (Z.to_nat n)) by lia.
      rewrite <- repeat_snoc, <- app_assoc. reflexivity.
    + rewrite expand_cons, IH by lia. reflexivity.
Qed.

Lemma rle_from_keys : forall ps k n, map fst (rle_from k n ps) = k :: ddp k (map fst ps).
Proof.
  induction ps as [|[k' o] r IH]; intros k n.
  - reflexivity.
  - cbn [rle_from map fst ddp]. destruct (k =? k').
    + apply IH.
    + cbn [map fst]. rewrite IH. reflexivity.
Qed.

Lemma rle_from_counts : forall ps k n, 1 <= n -> Forall (fun kn => 1 <= snd kn) (rle_from k n ps).
Proof.
  induction ps as [|[k' o] r IH]; intros k n Hn.
  - constructor; [exact Hn|constructor].
  - cbn [rle_from]. destruct (k =? k').
    + apply IH. lia.
    + constructor; [exact Hn|]. apply IH. lia.
Qed.

Lemma leaves_of_facts : forall ps,
  expand (leaves_of ps) = map fst ps /\ map fst (leaves_of ps) = dedup_adj (map fst ps)
  /\ Forall (fun kn => 1 <= snd kn) (leaves_of ps).
Proof.
  intros ps. destruct ps as [|[k o] r].
  - cbn. repeat split. constructor.
  - rewrite leaves_of_cons. split; [|split].
    + rewrite rle_from_expand by lia. reflexivity.
    + rewrite rle_from_keys. cbn [map fst]. rewrite dedup_adj_cons. reflexivity.
    + apply rle_from_counts. lia.
Qed.

(* ---- leaves of one group ---- *)
Fixpoint spec_leaves (bl ps : list (Z * Z)) (off : Z) : list leaf :=
  match bl with
  | [] => []
  | kn :: r => {| lf_index := fst kn; lf_n := snd kn; lf_off := off; lf_parts := map snd (firstn_z (snd kn) ps) |}
                 :: spec_leaves r (skipn_z (snd kn) ps) (off + snd kn)
  end.

Fixpoint chain_ne (ci : Z) (bl : list (Z * Z)) : Prop :=
  match bl with
  | [] => True
  | kn :: r => fst kn <> ci /\ 1 <= snd kn /\ chain_ne (fst kn) r
  end.

Lemma chain_ne_of_sorted : forall bl ci, StronglySorted Z.lt (ci :: map fst bl) ->
  Forall (fun kn => 1 <= snd kn) bl -> chain_ne ci bl.
Proof.
  induction bl as [|kn r IH]; intros ci HS HF; [exact I|].
  cbn [map] in HS. apply SSorted_lt_cons2 in HS. destruct HS as [Hlt HS]. inversion HF; subst.
  cbn [chain_ne]. split; [lia|]. split; [assumption|]. apply IH; assumption.
Qed.

Lemma scan_spec : forall leafIdx ps m bl pos cur ci cn co cp_rev done_rev,
  map fst ps = repeat ci m ++ expand bl ->
  chain_ne ci bl ->
  (forall j, 0 <= j < zlen bl -> leafIdx (cur + 1 + j) = fst (znth bl j (0, 0))) ->
  leaves_scan leafIdx ps pos cur ci cn co cp_rev done_rev
  = rev done_rev ++
    {| lf_index := ci; lf_n := cn + Z.of_nat m; lf_off := co; lf_parts := rev cp_rev ++ map snd (firstn m ps) |}
      :: spec_leaves bl (skipn m ps) (pos + Z.of_nat m).
Proof.
  intros leafIdx. induction ps as [|[k orig] r IH]; intros m bl pos cur ci cn co cp_rev done_rev Hkeys Hch Hidx.
  - cbn [map] in Hkeys. symmetry in Hkeys. apply app_eq_nil in Hkeys. destruct Hkeys as [Hm Hbl].
    destruct m as [|m']; [|discriminate].
    destruct bl as [|kn bl'].
    + cbn [leaves_scan spec_leaves rev firstn map skipn]. rewrite app_nil_r, Z.add_0_r. reflexivity.
    + exfalso. rewrite expand_cons in Hbl. apply app_eq_nil in Hbl. destruct Hbl as [Hb _].
      destruct Hch as [_ [Hn _]]. replace (Z.to_nat (snd kn)) with (S (Z.to_nat (snd kn - 1))) in Hb by lia.
      discriminate.
  - destruct m as [|m'].
    + destruct bl as [|kn bl'].
      * cbn in Hkeys. discriminate.
      * destruct Hch as [Hne [Hn Hch']]. rewrite expand_cons in Hkeys. cbn [repeat app] in Hkeys.
        remember (Z.to_nat (snd kn - 1)) as m' eqn:Hm'.
        replace (Z.to_nat (snd kn)) with (S m') in Hkeys by lia.
        cbn [map fst repeat app] in Hkeys. injection Hkeys as Hk Hrest. subst k.
        cbn [leaves_scan]. destruct (Z.eqb_spec (fst kn) ci) as [He|_]; [contradiction|].
        assert (Hci : leafIdx (cur + 1) = fst kn).
        { specialize (Hidx 0). rewrite Z.add_0_r in Hidx. rewrite Hidx; [reflexivity|].
          rewrite zlen_cons. pose proof (zlen_nonneg _ bl'). lia. }
        rewrite Hci.
        rewrite (IH m' bl').
        -- cbn [rev spec_leaves firstn skipn map]. rewrite <- app_assoc. cbn [app].
           rewrite app_nil_r, !Z.add_0_r.
           unfold firstn_z, skipn_z. replace (Z.to_nat (snd kn)) with (S m') by lia.
           cbn [firstn skipn map snd].
           replace (1 + Z.of_nat m') with (snd kn) by lia.
           replace (pos + 1 + Z.of_nat m') with (pos + snd kn) by lia. reflexivity.
        -- exact Hrest.
        -- exact Hch'.
        -- intros j Hj. replace (cur + 1 + 1 + j) with (cur + 1 + (j + 1)) by lia.
           rewrite Hidx; [|rewrite zlen_cons; lia]. rewrite znth_cons by lia. reflexivity.
    + cbn [repeat app map fst] in Hkeys. injection Hkeys as Hk Hrest. subst k.
      cbn [leaves_scan]. rewrite Z.eqb_refl.
      rewrite (IH m' bl) by assumption.
      cbn [firstn skipn map snd rev]. rewrite <- app_assoc. cbn [app].
      replace (cn + 1 + Z.of_nat m') with (cn + Z.of_nat (S m')) by lia.
      replace (pos + 1 + Z.of_nat m') with (pos + Z.of_nat (S m')) by lia. reflexivity.
Qed.

Definition leaf_pairs (lf : leaf) : list (Z * Z) := map (pair (lf_index lf)) (lf_parts lf).

Lemma map_pair_snd : forall k (l : list (Z * Z)), Forall (fun p => fst p = k) l -> map (pair k) (map snd l) = l.
Proof.
  intros k l HF. induction HF as [|[a b] r Ha HFr IH]; [reflexivity|].
  cbn [map snd]. cbn [fst] in Ha. subst a. rewrite IH. reflexivity.
Qed.

Lemma spec_leaves_facts : forall bl ps off,
  map fst ps = expand bl -> Forall (fun kn => 1 <= snd kn) bl ->
  map lf_index (spec_leaves bl ps off) = map fst bl
  /\ map lf_n (spec_leaves bl ps off) = map snd bl
  /\ offsets_ok off (spec_leaves bl ps off)
  /\ flat_map leaf_pairs (spec_leaves bl ps off) = ps.
Proof.
  induction bl as [|kn r IH]; intros ps off Hkeys HF.
  - cbn [spec_leaves map flat_map offsets_ok]. repeat split.
    destruct ps; [reflexivity|discriminate].
  - inversion HF as [|x l Hn HFr]; subst. rewrite expand_cons in Hkeys.
    set (n := Z.to_nat (snd kn)) in *.
    assert (Hf : map fst (firstn n ps) = repeat (fst kn) n).
    { rewrite <- firstn_map, Hkeys, firstn_app, repeat_length, Nat.sub_diag. cbn [firstn].
      rewrite app_nil_r. apply firstn_all2. rewrite repeat_length. lia. }
    assert (Hs : map fst (skipn n ps) = expand r).
    { rewrite <- skipn_map, Hkeys, skipn_app, repeat_length, Nat.sub_diag. cbn [skipn].
      rewrite skipn_all2 by (rewrite repeat_length; lia). reflexivity. }
    destruct (IH (skipn_z (snd kn) ps) (off + snd kn) Hs HFr) as [I1 [I2 [I3 I4]]].
    cbn [spec_leaves map flat_map offsets_ok lf_index lf_n lf_off lf_parts].
    split; [rewrite I1; reflexivity|]. split; [rewrite I2; reflexivity|]. split.
    + split; [reflexivity|]. split; [|split; [exact Hn|exact I3]].
      rewrite zlen_map. unfold zlen, firstn_z. fold n.
      apply (f_equal (@length Z)) in Hf. rewrite map_length, repeat_length in Hf. lia.
    + rewrite I4. unfold leaf_pairs. cbn [lf_index lf_parts]. rewrite map_pair_snd.
      * apply firstn_skipn.
      * unfold firstn_z. fold n. apply Forall_forall. intros p Hp.
        assert (Hin : In (fst p) (map fst (firstn n ps))) by (apply in_map; exact Hp).
        rewrite Hf in Hin. apply repeat_spec in Hin. exact Hin.
Qed.

Lemma zlen_spec_leaves : forall bl ps off, zlen (spec_leaves bl ps off) = zlen bl.
Proof.
  induction bl as [|kn r IH]; intros ps off; [reflexivity|].
  cbn [spec_leaves]. rewrite !zlen_cons, IH. reflexivity.
Qed.


(* ------------------------------------------------------------------ *)
(* Part 4: mk_pgroup and split_in_groups                                *)
(* ------------------------------------------------------------------ *)

Lemma skipn_z_app : forall A (l1 l2 : list A), skipn_z (zlen l1) (l1 ++ l2) = l2.
Proof.
  intros A l1 l2. unfold skipn_z, zlen. rewrite Nat2Z.id, skipn_app, Nat.sub_diag, skipn_all. reflexivity.
Qed.

Lemma firstn_z_app : forall A (l1 l2 : list A), firstn_z (zlen l1) (l1 ++ l2) = l1.
Proof.
  intros A l1 l2. unfold firstn_z, zlen. rewrite Nat2Z.id, firstn_app, Nat.sub_diag, firstn_all. cbn [firstn].
  apply app_nil_r.
Qed.

Lemma znth_map_fst : forall (l : list (Z * Z)) i, znth (map fst l) i 0 = fst (znth l i (0, 0)).
Proof. intros l i. apply (znth_map _ _ fst l i (0, 0)). Qed.

Lemma last_or_map : forall A B (f : A -> B) l d, last_or (map f l) (f d) = f (last_or l d).
Proof.
  intros A B f l d. induction l as [|x r IH]; [reflexivity|].
  destruct r as [|y r']; [reflexivity|]. exact IH.
Qed.

Lemma last_or_map_fst : forall (l : list (Z * Z)), last_or (map fst l) 0 = fst (last_or l (0, 0)).
Proof. intros l. apply (last_or_map _ _ fst l (0, 0)). Qed.

Lemma zseq_0 : zseq 0 = [].
Proof. reflexivity. Qed.

Lemma mk_pgroup_spec : forall leaves ps dl bl rl dp bp rp,
  leaves = dl ++ bl ++ rl -> ps = dp ++ bp ++ rp -> bl <> [] ->
  map fst bp = expand bl -> StronglySorted Z.lt (map fst bl) -> Forall (fun kn => 1 <= snd kn) bl ->
  mk_pgroup leaves ps {| gp_firstCell := zlen dl; gp_nbCells := zlen bl; gp_firstPart := zlen dp; gp_nbParts := zlen bp |}
  = {| pg_first := hd_or (map fst bl) 0; pg_last := last_or (map fst bl) 0; pg_nl := zlen bl; pg_np := zlen bp;
       pg_leaves := spec_leaves bl bp 0 |}.
Proof.
  intros leaves ps dl bl rl dp bp rp Hl Hp Hne Hkeys HS HF.
  unfold mk_pgroup. cbn [gp_firstCell gp_nbCells gp_firstPart gp_nbParts]. cbv zeta.
  assert (Hmy : firstn_z (zlen bp) (skipn_z (zlen dp) ps) = bp).
  { rewrite Hp, skipn_z_app, firstn_z_app. reflexivity. }
  rewrite Hmy.
  assert (Hidx : forall k, 0 <= k < zlen bl -> fst (znth leaves (zlen dl + k) (0, 0)) = fst (znth bl k (0, 0))).
  { intros k Hk. rewrite Hl, znth_app_r by lia. rewrite znth_app_l by lia. reflexivity. }
  destruct bl as [|kn bl']; [congruence|]. clear Hne.
  assert (Hlen : 0 <= zlen bl') by apply zlen_nonneg.
  inversion HF as [|x l Hn HF']; subst x l.
  assert (H0 : fst (znth leaves (zlen dl + 0) (0, 0)) = fst kn).
  { rewrite Hidx; [reflexivity|]. rewrite zlen_cons. lia. }
  rewrite H0.
  rewrite (scan_spec _ bp (Z.to_nat (snd kn)) bl').
  - cbn [rev app firstn skipn].
    replace (0 + Z.of_nat (Z.to_nat (snd kn))) with (snd kn) by lia.
    change (spec_leaves (kn :: bl') bp 0) with
      ({| lf_index := fst kn; lf_n := snd kn; lf_off := 0; lf_parts := map snd (firstn_z (snd kn) bp) |}
         :: spec_leaves bl' (skipn_z (snd kn) bp) (0 + snd kn)).
    unfold firstn_z at 1. unfold skipn_z at 1.
    replace (0 + snd kn) with (snd kn) by lia.
    set (sc := _ :: spec_leaves bl' _ _).
    assert (Hsc : zlen sc = zlen (kn :: bl')).
    { subst sc. rewrite !zlen_cons, zlen_spec_leaves. reflexivity. }
    rewrite Hsc, Z.sub_diag, zseq_0. cbn [map]. rewrite app_nil_r.
    f_equal.
    rewrite Hidx by (rewrite zlen_cons; lia).
    change (fst kn :: map fst bl') with (map fst (kn :: bl')).
    rewrite last_or_map_fst. f_equal. apply znth_last. discriminate.
  - rewrite Hkeys, expand_cons. reflexivity.
  - apply chain_ne_of_sorted; assumption.
  - intros j Hj. replace (zlen dl + (0 + 1 + j)) with (zlen dl + (j + 1)) by lia.
    rewrite Hidx by (rewrite zlen_cons; lia). rewrite znth_cons by lia. reflexivity.
Qed.

Lemma spec_pgroup_ok : forall bl bp,
  bl <> [] -> map fst bp = expand bl -> Forall (fun kn => 1 <= snd kn) bl ->
  let g := {| pg_first := hd_or (map fst bl) 0; pg_last := last_or (map fst bl) 0; pg_nl := zlen bl; pg_np := zlen bp;
              pg_leaves := spec_leaves bl bp 0 |} in
  pgroup_ok g /\ pg_indices g = map fst bl /\ flat_map leaf_pairs (pg_leaves g) = bp.
Proof.
  intros bl bp Hne Hkeys HF g.
  destruct (spec_leaves_facts bl bp 0 Hkeys HF) as [F1 [F2 [F3 F4]]].
  assert (Hi : pg_indices g = map fst bl) by exact F1.
  split; [|split; [exact Hi|exact F4]].
  unfold pgroup_ok. rewrite Hi. subst g. cbn [pg_first pg_last pg_nl pg_np pg_leaves].
  split.
  { intros Hnil. apply (f_equal (@zlen leaf)) in Hnil. rewrite zlen_spec_leaves, zlen_nil in Hnil.
    apply zlen_zero_iff in Hnil. contradiction. }
  split; [reflexivity|]. split; [reflexivity|]. split; [rewrite zlen_spec_leaves; reflexivity|].
  split; [|exact F3].
  rewrite F2, <- length_expand by assumption. rewrite <- Hkeys, map_length. reflexivity.
Qed.

Lemma count_lt_app : forall lim p1 p2, Forall (fun p => fst p < lim) p1 ->
  match p2 with [] => True | p :: _ => lim <= fst p end ->
  count_lt lim (p1 ++ p2) = zlen p1.
Proof.
  intros lim p1 p2 HF Hp2. induction HF as [|[k o] r Hk HFr IH].
  - cbn [app]. rewrite zlen_nil. destruct p2 as [|[k o] r]; [reflexivity|].
    cbn [count_lt]. cbn [fst] in Hp2. destruct (Z.ltb_spec k lim); [lia|reflexivity].
  - cbn [app count_lt]. cbn [fst] in Hk. destruct (Z.ltb_spec k lim); [|lia]. rewrite IH, zlen_cons. reflexivity.
Qed.

Lemma SSorted_lt_app : forall l1 l2, StronglySorted Z.lt (l1 ++ l2) ->
  StronglySorted Z.lt l1 /\ StronglySorted Z.lt l2 /\ (forall x y, In x l1 -> In y l2 -> x < y).
Proof.
  induction l1 as [|a r IH]; intros l2 HS.
  - cbn [app] in HS. split; [constructor|]. split; [exact HS|]. intros x y Hx. contradiction.
  - cbn [app] in HS. inversion HS as [|x l HS' HFa]; subst. destruct (IH l2 HS') as [I1 [I2 I3]].
    apply Forall_app in HFa. destruct HFa as [Fa1 Fa2]. split; [constructor; assumption|]. split; [exact I2|].
    intros x y [Hx|Hx] Hy.
    + subst x. rewrite Forall_forall in Fa2. apply Fa2. exact Hy.
    + apply I3; assumption.
Qed.

Lemma SSorted_lt_le_last : forall l d x, StronglySorted Z.lt l -> In x l -> x <= last_or l d.
Proof.
  induction l as [|a r IH]; intros d x HS Hx; [contradiction|].
  inversion HS as [|y l HS' HFa]; subst. rewrite last_or_cons. destruct Hx as [Hx|Hx].
  - subst x. destruct r as [|b r']; [cbn; lia|].
    assert (Hb : In (last_or (b :: r') a) (b :: r')).
    { clear. revert b. induction r' as [|c r'' IH]; intros b; [left; reflexivity|].
      change (last_or (b :: c :: r'') a) with (last_or (c :: r'') a). right. apply IH. }
    rewrite Forall_forall in HFa. specialize (HFa _ Hb). lia.
  - rewrite (last_or_dflt _ r a d) by (intros Hr; subst r; contradiction). apply IH; assumption.
Qed.

Lemma split_loop_spec : forall B leaves ps, 1 <= B ->
  forall ng g dl rl dp rp,
  leaves = dl ++ rl -> ps = dp ++ rp -> zlen dl = g * B ->
  map fst rp = expand rl -> StronglySorted Z.lt (map fst rl) -> Forall (fun kn => 1 <= snd kn) rl ->
  (Z.of_nat ng - 1) * B < zlen rl <= Z.of_nat ng * B ->
  let pgs := map (mk_pgroup leaves ps) (split_loop ng g B leaves ps (zlen dp)) in
  Forall pgroup_ok pgs /\ flat_map pg_indices pgs = map fst rl
  /\ Forall (fun pg => zlen (pg_indices pg) <= B) pgs
  /\ flat_map leaf_pairs (flat_map pg_leaves pgs) = rp.
Proof.
  intros B leaves ps HB. induction ng as [|k IH]; intros g dl rl dp rp Hl Hp Hdl Hkeys HS HF Hng.
  - assert (Hz : zlen rl = 0) by (pose proof (zlen_nonneg _ rl); lia).
    apply zlen_zero_iff in Hz. subst rl. cbn [expand flat_map] in Hkeys.
    destruct rp; [|discriminate]. cbn. repeat split; constructor.
  - assert (Hpos : 1 <= zlen rl).
    { assert (0 <= Z.of_nat k * B) by (apply Z.mul_nonneg_nonneg; lia). lia. }
    set (c := Z.min B (zlen rl)).
    assert (Hcdef : c = Z.min B (zlen rl)) by reflexivity. clearbody c.
    set (bl := firstn_z c rl). set (rl' := skipn_z c rl).
    assert (Erl : rl = bl ++ rl') by (symmetry; apply firstn_skipn_z).
    assert (Hbl : zlen bl = c) by (apply zlen_firstn_z; lia).
    assert (Hrl' : zlen rl' = zlen rl - c) by (apply zlen_skipn_z; lia).
    clearbody bl rl'.
    assert (Hne : bl <> []) by (intros Hn; rewrite Hn, zlen_nil in Hbl; lia).
    assert (HFb : Forall (fun kn => 1 <= snd kn) bl /\ Forall (fun kn => 1 <= snd kn) rl').
    { apply Forall_app. rewrite <- Erl. exact HF. }
    destruct HFb as [HFb HFr].
    set (np := zsum (map snd bl)).
    assert (Hnp : Z.of_nat (length (expand bl)) = np) by (apply length_expand; exact HFb).
    set (bp := firstn_z np rp). set (rp' := skipn_z np rp).
    assert (Erp : rp = bp ++ rp') by (symmetry; apply firstn_skipn_z).
    assert (Hkeys2 : map fst rp = expand bl ++ expand rl') by (rewrite Hkeys, Erl at 1; apply expand_app).
    assert (Hkb : map fst bp = expand bl).
    { unfold bp, firstn_z. rewrite <- firstn_map, Hkeys2, firstn_app.
      replace (Z.to_nat np - length (expand bl))%nat with 0%nat by lia. cbn [firstn]. rewrite app_nil_r.
      apply firstn_all2. lia. }
    assert (Hkr : map fst rp' = expand rl').
    { unfold rp', skipn_z. rewrite <- skipn_map, Hkeys2, skipn_app.
      replace (Z.to_nat np - length (expand bl))%nat with 0%nat by lia. cbn [skipn].
      rewrite skipn_all2 by lia. reflexivity. }
    clearbody bp rp'.
    assert (Hbp : zlen bp = np).
    { unfold zlen. rewrite <- (map_length fst), Hkb. exact Hnp. }
    rewrite Erl, map_app in HS. destruct (SSorted_lt_app _ _ HS) as [HSb [HSr Hcross]].
    (* one step of the loop *)
    cbn [split_loop map]. cbv zeta.
    assert (Hnl : zlen leaves = g * B + zlen rl) by (rewrite Hl, zlen_app; lia).
    assert (Hc : Z.min ((g + 1) * B) (zlen leaves) - g * B = c) by lia.
    rewrite Hc.
    assert (Hlim : fst (znth leaves (g * B + c - 1) (0, 0)) = last_or (map fst bl) 0).
    { replace (g * B + c - 1) with (zlen dl + (c - 1)) by lia.
      rewrite Hl, znth_app_r by lia. rewrite Erl, znth_app_l by lia.
      rewrite last_or_map_fst. f_equal. rewrite <- Hbl. apply znth_last. exact Hne. }
    rewrite Hlim.
    assert (Hrest : skipn (Z.to_nat (zlen dp)) ps = rp).
    { rewrite Hp. apply skipn_z_app. }
    rewrite Hrest.
    assert (Hcnt : count_lt (last_or (map fst bl) 0 + 1) rp = np).
    { rewrite Erp, <- Hbp. apply count_lt_app.
      - apply Forall_forall. intros p Hp'.
        assert (Hin : In (fst p) (map fst bl)).
        { apply In_expand. rewrite <- Hkb. apply in_map. exact Hp'. }
        pose proof (SSorted_lt_le_last _ 0 _ HSb Hin). lia.
      - destruct rp' as [|p0 rp'']; [exact I|].
        destruct rl' as [|kn rl'']; [discriminate|].
        inversion HFr as [|x l Hn1 HFr']; subst x l. rewrite expand_cons in Hkr.
        replace (Z.to_nat (snd kn)) with (S (Z.to_nat (snd kn - 1))) in Hkr by lia.
        cbn [map repeat app] in Hkr. injection Hkr as Hk0 _. rewrite Hk0.
        assert (Hlast : In (last_or (map fst bl) 0) (map fst bl)).
        { destruct (map fst bl) as [|b r'] eqn:Hm.
          - apply map_eq_nil in Hm. contradiction.
          - clear. revert b. induction r' as [|c' r'' IH']; intros b; [left; reflexivity|].
            change (last_or (b :: c' :: r'') 0) with (last_or (c' :: r'') 0). right. apply IH'. }
        specialize (Hcross _ (fst kn) Hlast (or_introl eq_refl)). lia. }
    rewrite Hcnt.
    replace {| gp_firstCell := g * B; gp_nbCells := c; gp_firstPart := zlen dp; gp_nbParts := np |}
      with {| gp_firstCell := zlen dl; gp_nbCells := zlen bl; gp_firstPart := zlen dp; gp_nbParts := zlen bp |}
      by (rewrite Hdl, Hbl, Hbp; reflexivity).
    rewrite (mk_pgroup_spec leaves ps dl bl rl' dp bp rp');
      [|rewrite Hl, Erl; reflexivity|rewrite Hp, Erp; reflexivity|exact Hne|exact Hkb|exact HSb|exact HFb].
    destruct (spec_pgroup_ok bl bp Hne Hkb HFb) as [G1 [G2 G3]].
    set (grp := {| pg_first := hd_or (map fst bl) 0; pg_last := last_or (map fst bl) 0; pg_nl := zlen bl;
                   pg_np := zlen bp; pg_leaves := spec_leaves bl bp 0 |}) in *.
    assert (Htail : let pgs := map (mk_pgroup leaves ps) (split_loop k (g + 1) B leaves ps (zlen dp + np)) in
                    Forall pgroup_ok pgs /\ flat_map pg_indices pgs = map fst rl'
                    /\ Forall (fun pg => zlen (pg_indices pg) <= B) pgs
                    /\ flat_map leaf_pairs (flat_map pg_leaves pgs) = rp').
    { destruct (Z.leb_spec (zlen rl) B) as [Hle|Hgt].
      - assert (Hk : k = 0%nat) by nia. subst k. cbn [split_loop map].
        assert (Hz : zlen rl' = 0) by lia. apply zlen_zero_iff in Hz. rewrite Hz in *.
        cbn [expand flat_map] in Hkr. destruct rp'; [|discriminate]. cbn. repeat split; constructor.
      - replace (zlen dp + np) with (zlen (dp ++ bp)) by (rewrite zlen_app; lia).
        apply (IH (g + 1) (dl ++ bl) rl' (dp ++ bp) rp').
        + rewrite Hl, Erl, app_assoc. reflexivity.
        + rewrite Hp, Erp, app_assoc. reflexivity.
        + rewrite zlen_app. lia.
        + exact Hkr.
        + exact HSr.
        + exact HFr.
        + lia. }
    destruct Htail as [T1 [T2 [T3 T4]]].
    split; [constructor; assumption|]. split.
    + cbn [flat_map]. rewrite T2, G2, Erl, map_app. reflexivity.
    + split.
      * constructor; [|exact T3]. rewrite G2, zlen_map. lia.
      * cbn [flat_map]. rewrite flat_map_app, T4, G3. symmetry. exact Erp.
Qed.


(* ------------------------------------------------------------------ *)
(* Part 5: the whole constructor                                       *)
(* ------------------------------------------------------------------ *)

Lemma length_zseq : forall n, 0 <= n -> length (zseq n) = Z.to_nat n.
Proof. intros n Hn. unfold zseq, zrange. rewrite map_length, seq_length. lia. Qed.

Lemma nth_map_lt : forall A B (f : A -> B) l i d d', (i < length l)%nat -> nth i (map f l) d = f (nth i l d').
Proof.
  intros A B f l i d d' Hi. rewrite nth_indep with (d' := f d') by (rewrite map_length; exact Hi). apply map_nth.
Qed.

Lemma nth_zseq : forall n i d, (i < Z.to_nat n)%nat -> nth i (zseq n) d = Z.of_nat i.
Proof.
  intros n i d Hi. unfold zseq, zrange.
  rewrite (nth_map_lt _ _ _ _ _ _ 0%nat) by (rewrite seq_length; lia).
  rewrite seq_nth by lia. lia.
Qed.

Lemma length_zseq_zlen : forall A (l : list A), length l = length (zseq (zlen l)).
Proof. intros A l. rewrite length_zseq by apply zlen_nonneg. unfold zlen. lia. Qed.

Lemma In_combine_zseq : forall idx k p, In (k, p) (combine idx (zseq (zlen idx))) -> znth idx p (-1) = k.
Proof.
  intros idx k p Hin. apply (In_nth _ _ (0, 0)) in Hin. destruct Hin as [i [Hi Hnth]].
  rewrite combine_length, <- length_zseq_zlen, Nat.min_id in Hi.
  rewrite combine_nth in Hnth by apply length_zseq_zlen.
  injection Hnth as Hk Hp. rewrite nth_zseq in Hp by (unfold zlen; lia). subst p.
  rewrite znth_nth by lia. rewrite Nat2Z.id. rewrite <- Hk. apply nth_indep. exact Hi.
Qed.

Lemma SSorted_map_fst : forall l : list (Z * Z),
  StronglySorted (fun x y => is_true (fst x <=? fst y)) l -> StronglySorted Z.le (map fst l).
Proof.
  intros l HS. induction HS as [|x r HSr IH HF].
  - constructor.
  - cbn [map]. constructor; [exact IH|]. apply Forall_map. eapply Forall_impl; [|exact HF].
    intros a Ha. cbv beta in Ha. apply Z.leb_le. exact Ha.
Qed.

Lemma sort_particles_facts : forall idx,
  Permutation (combine idx (zseq (zlen idx))) (sort_particles idx)
  /\ StronglySorted Z.le (map fst (sort_particles idx)).
Proof.
  intros idx. unfold sort_particles. split.
  - apply PSort.Permuted_sort.
  - apply SSorted_map_fst. apply Sorted_StronglySorted.
    + intros x y z Hxy Hyz. unfold is_true in *. rewrite Z.leb_le in *. lia.
    + apply PSort.Sorted_sort.
Qed.

Definition pgs_of (B : Z) (idx : list Z) : list pgroup :=
  let ps := sort_particles idx in
  let leaves := leaves_of ps in
  map (mk_pgroup leaves ps) (split_in_groups B leaves ps).

Lemma pgs_of_facts : forall B idx, 1 <= B ->
  let ps := sort_particles idx in
  let pgs := pgs_of B idx in
  Forall pgroup_ok pgs /\ flat_map pg_indices pgs = dedup_adj (map fst ps)
  /\ Forall (fun pg => zlen (pg_indices pg) <= B) pgs
  /\ flat_map leaf_pairs (flat_map pg_leaves pgs) = ps.
Proof.
  intros B idx HB ps pgs. subst pgs. unfold pgs_of. fold ps.
  destruct (sort_particles_facts idx) as [_ HSps]. fold ps in HSps.
  destruct (leaves_of_facts ps) as [L1 [L2 L3]].
  set (leaves := leaves_of ps) in *.
  unfold split_in_groups. destruct (Z.leb_spec B 0) as [Hb|_]; [lia|]. cbv zeta.
  set (q := (zlen leaves + B - 1) / B).
  assert (Hq : (q - 1) * B < zlen leaves <= q * B).
  { pose proof (Z.div_mod (zlen leaves + B - 1) B ltac:(lia)) as Hdm.
    pose proof (Z.mod_pos_bound (zlen leaves + B - 1) B ltac:(lia)) as Hmb. fold q in Hdm. nia. }
  assert (Hq0 : 0 <= q).
  { pose proof (zlen_nonneg _ leaves). apply Z.div_pos; lia. }
  pose proof (split_loop_spec B leaves ps HB (Z.to_nat q) 0 [] leaves [] ps eq_refl eq_refl) as Hsp.
  change (zlen (@nil (Z * Z))) with 0 in Hsp. rewrite <- L2.
  apply Hsp.
  - reflexivity.
  - symmetry. exact L1.
  - rewrite L2. apply dedup_adj_sorted. exact HSps.
  - exact L3.
  - rewrite Z2Nat.id by lia. exact Hq.
Qed.

Lemma build_pgroups : forall par H B mode idx, idx <> [] -> t_pgroups (build par H B mode idx) = pgs_of B idx.
Proof.
  intros par H B mode idx Hne. destruct idx as [|i0 r]; [congruence|].
  unfold build, pgs_of. destruct (H <=? 0); reflexivity.
Qed.

Definition leaf_level (B : Z) (idx : list Z) : list cgroup := map (fun g => mk_cgroup (pg_indices g)) (pgs_of B idx).

Lemma build_levels : forall par H B mode idx, idx <> [] -> 1 <= H ->
  t_levels (build par H B mode idx)
  = levels_above par (Z.to_nat (H - 1)) mode B (leaf_level B idx) [leaf_level B idx].
Proof.
  intros par H B mode idx Hne HH. destruct idx as [|i0 r]; [congruence|].
  unfold build, leaf_level, pgs_of. destruct (Z.leb_spec H 0); [lia|]. reflexivity.
Qed.

Lemma map_snd_pair : forall (k : Z) (l : list Z), map snd (map (pair k) l) = l.
Proof. intros k l. rewrite map_map. cbn [snd]. apply map_id. Qed.

Lemma flat_map_parts : forall L, flat_map lf_parts L = map snd (flat_map leaf_pairs L).
Proof.
  induction L as [|lf r IH]; [reflexivity|].
  cbn [flat_map]. rewrite map_app, <- IH. unfold leaf_pairs. rewrite map_snd_pair. reflexivity.
Qed.

Theorem build_particles : forall par H B mode idx, 1 <= H -> 1 <= B -> idx <> [] -> Forall (fun c => 0 <= c) idx ->
    particles_ok idx (build par H B mode idx).
Proof.
  intros par H B mode idx HH HB Hne Hnn. unfold particles_ok, all_leaves.
  rewrite build_pgroups by exact Hne.
  destruct (pgs_of_facts B idx HB) as [_ [_ [_ P4]]].
  destruct (sort_particles_facts idx) as [Hperm _].
  split.
  - rewrite flat_map_parts, P4.
    apply Permutation_trans with (map snd (combine idx (zseq (zlen idx)))).
    + apply Permutation_map. apply Permutation_sym. exact Hperm.
    + rewrite map_snd_combine by apply length_zseq_zlen. apply Permutation_refl.
  - apply Forall_forall. intros lf Hlf. apply Forall_forall. intros p Hp.
    apply In_combine_zseq. eapply Permutation_in; [apply Permutation_sym; exact Hperm|].
    rewrite <- P4. apply in_flat_map. exists lf. split; [exact Hlf|].
    unfold leaf_pairs. apply in_map. exact Hp.
Qed.

Lemma keys_of_sorted : forall idx i, In i (map fst (sort_particles idx)) <-> In i idx.
Proof.
  intros idx i. destruct (sort_particles_facts idx) as [Hperm _].
  assert (E : map fst (combine idx (zseq (zlen idx))) = idx) by (apply map_fst_combine, length_zseq_zlen).
  split; intros Hi.
  - rewrite <- E. eapply Permutation_in; [apply Permutation_map, Permutation_sym; exact Hperm|exact Hi].
  - eapply Permutation_in; [apply Permutation_map; exact Hperm|rewrite E; exact Hi].
Qed.

Theorem build_leaf_set : forall par H B mode idx, 1 <= H -> 1 <= B -> idx <> [] -> Forall (fun c => 0 <= c) idx ->
    forall i, In i (flat_map pg_indices (t_pgroups (build par H B mode idx))) <-> In i idx.
Proof.
  intros par H B mode idx HH HB Hne Hnn i. rewrite build_pgroups by exact Hne.
  destruct (pgs_of_facts B idx HB) as [_ [P2 _]]. rewrite P2, In_dedup_adj_iff. apply keys_of_sorted.
Qed.

(* ---- upper levels ---- *)
Fixpoint parent_chain (par : Z -> Z) (ls : list (list cgroup)) : Prop :=
  match ls with
  | [] => True
  | a :: r => match r with [] => True | b :: _ => level_cells a = parents_of par (level_cells b) end
              /\ parent_chain par r
  end.

Definition good_levels (par : Z -> Z) (mode : bool) (B : Z) (ls : list (list cgroup)) : Prop :=
  Forall level_ok ls /\ Forall (fun l => Forall (fun c => 0 <= c) (level_cells l)) ls
  /\ parent_chain par ls /\ (mode = false -> Forall (Forall (fun g => cg_n g <= B)) ls).

Lemma levels_above_spec : forall par mode B,
  (forall a b, a <= b -> par a <= par b) -> (forall a, 0 <= a -> 0 <= par a) -> 1 <= B ->
  forall n lower acc, good_levels par mode B (lower :: acc) ->
  let r := levels_above par n mode B lower (lower :: acc) in
  good_levels par mode B r /\ zlen r = Z.of_nat n + zlen (lower :: acc) /\ last_or r [] = last_or (lower :: acc) [].
Proof.
  intros par mode B Hmono Hnn HB. induction n as [|k IH]; intros lower acc Hgood.
  - cbn [levels_above]. split; [exact Hgood|]. split; [lia|reflexivity].
  - cbn [levels_above]. cbv zeta.
    destruct Hgood as [G1 [G2 [G3 G4]]].
    inversion G1 as [|x l Hlok G1']; subst x l. inversion G2 as [|x l Hlnn G2']; subst x l.
    destruct (level_up_ok par mode B lower Hmono Hnn HB Hlok Hlnn) as [U1 [U2 [U3 U4]]].
    set (up := level_up par mode B lower) in *.
    destruct (IH up (lower :: acc)) as [I1 [I2 I3]].
    + split; [constructor; assumption|]. split; [constructor; assumption|]. split.
      * cbn [parent_chain]. split; [exact U2|exact G3].
      * intros Hm. constructor; [apply U3; exact Hm|apply G4; exact Hm].
    + split; [exact I1|]. split.
      * rewrite I2, (zlen_cons _ up). lia.
      * rewrite I3. reflexivity.
Qed.

Lemma parent_chain_znth : forall par ls, parent_chain par ls ->
  forall l, 0 <= l < zlen ls - 1 ->
  level_cells (znth ls l []) = parents_of par (level_cells (znth ls (l + 1) [])).
Proof.
  intros par. induction ls as [|a r IH]; intros Hch l Hl.
  - rewrite zlen_nil in Hl. lia.
  - destruct Hch as [Hh Ht]. rewrite zlen_cons in Hl.
    destruct (Z.eq_dec l 0) as [H0|Hn0].
    + subst l. destruct r as [|b r']; [rewrite zlen_nil in Hl; lia|]. exact Hh.
    + replace l with ((l - 1) + 1) by lia. rewrite !znth_cons by lia. apply IH; [exact Ht|lia].
Qed.

Theorem build_ok : forall par H B mode idx, (forall a b, a <= b -> par a <= par b) -> (forall a, 0 <= a -> 0 <= par a) ->
    1 <= H -> 1 <= B -> idx <> [] -> Forall (fun c => 0 <= c) idx ->
    tree_ok par H B mode (build par H B mode idx).
Proof.
  intros par H B mode idx Hmono Hpnn HH HB Hne Hnn.
  unfold tree_ok. rewrite build_pgroups, build_levels by assumption.
  destruct (pgs_of_facts B idx HB) as [P1 [P2 [P3 P4]]].
  destruct (sort_particles_facts idx) as [_ HSps].
  set (pgs := pgs_of B idx) in *. set (ps := sort_particles idx) in *.
  assert (Hcells : level_cells (leaf_level B idx) = dedup_adj (map fst ps)).
  { rewrite <- P2. unfold leaf_level, level_cells. fold pgs. rewrite flat_map_concat_map, map_map.
    rewrite flat_map_concat_map. f_equal. apply map_ext. intros g. apply cg_cells_mk. }
  assert (Hsz : Forall (fun g => cg_n g <= B) (leaf_level B idx)).
  { unfold leaf_level. fold pgs. apply Forall_map. eapply Forall_impl; [|exact P3].
    intros g Hg. cbv beta in *. rewrite cg_n_mk. exact Hg. }
  assert (Hgood : good_levels par mode B [leaf_level B idx]).
  { split; [|split; [|split]].
    - constructor; [|constructor]. split.
      + unfold leaf_level. fold pgs. apply Forall_map. eapply Forall_impl; [|exact P1].
        intros g Hg. cbv beta. apply cgroup_ok_mk. destruct Hg as [Hg _]. unfold pg_indices.
        intros Hm. apply map_eq_nil in Hm. contradiction.
      + rewrite Hcells. apply dedup_adj_sorted. exact HSps.
    - constructor; [|constructor]. rewrite Hcells. apply Forall_forall. intros c Hc.
      apply (proj1 (In_dedup_adj_iff _ _)) in Hc. apply (proj1 (keys_of_sorted _ _)) in Hc.
      rewrite Forall_forall in Hnn. apply Hnn. exact Hc.
    - cbn [parent_chain]. tauto.
    - intros _. constructor; [exact Hsz|constructor]. }
  destruct (levels_above_spec par mode B Hmono Hpnn HB (Z.to_nat (H - 1)) (leaf_level B idx) [] Hgood) as [[G1 [G2 [G3 G4]]] [HL Hlast]].
  set (lv := levels_above par (Z.to_nat (H - 1)) mode B (leaf_level B idx) [leaf_level B idx]) in *.
  assert (Hlen : zlen lv = H).
  { rewrite HL, zlen_cons, zlen_nil. lia. }
  assert (Hleaf : znth lv (H - 1) [] = leaf_level B idx).
  { rewrite <- Hlen. rewrite (znth_last _ lv [] []).
    - rewrite Hlast. reflexivity.
    - intros Hnil. rewrite Hnil, zlen_nil in Hlen. lia. }
  split; [exact Hlen|]. split; [exact G1|]. split.
  { intros l Hl. apply parent_chain_znth; [exact G3|lia]. }
  rewrite Hleaf. split.
  { unfold leaf_level. fold pgs. rewrite map_map. apply map_ext. intros g. apply cg_cells_mk. }
  split; [exact P1|]. split; [exact Hsz|exact G4].
Qed.

Print Assumptions tree_okb_spec.
Print Assumptions level_up_ok.
Print Assumptions build_ok.
Print Assumptions build_particles.
Print Assumptions build_leaf_set.
