(* Group containers as the algorithms see them: headers + sorted cell / leaf
   indices, and the in-group lookups
   (src/core/tbfcellscontainer.hpp:92-107,243-296, tbfparticlescontainer.hpp:31-44,308-333). *)
From Tbfmm Require Import Base.Prelude Base.Search.
Local Open Scope Z_scope.

(* ContainerHeader {startingSpaceIndex, endingSpaceIndex, nbCells} + CellHeader.spaceIndex[] *)
Record cgroup := { cg_first : Z; cg_last : Z; cg_n : Z; cg_cells : list Z }.

(* constructor from a vector of indices (tbfcellscontainer.hpp:74-108) *)
Definition mk_cgroup (cells : list Z) : cgroup :=
  match cells with
  | [] => {| cg_first := 0; cg_last := 0; cg_n := 0; cg_cells := [] |}
  | c :: _ => {| cg_first := c; cg_last := last_or cells 0; cg_n := zlen cells; cg_cells := cells |}
  end.

(* LeafHeader {spaceIndex, nbParticles, offSet}; the particle original indices of the leaf *)
Record leaf := { lf_index : Z; lf_n : Z; lf_off : Z; lf_parts : list Z }.

Record pgroup := { pg_first : Z; pg_last : Z; pg_nl : Z; pg_np : Z; pg_leaves : list leaf }.

Definition pg_indices (g : pgroup) : list Z := map lf_index (pg_leaves g).

(* getElementFromSpacialIndex: lower_bound_indexes(0, n, idx, cell[it] < idx), then == test *)
Definition elem_from_index (cells : list Z) (n : Z) (i : Z) : option Z :=
  let k := lower_bound_indexes 0 n (fun it => znth cells it 0 <? i) in
  if k =? n then None
  else if znth cells k 0 =? i then Some k else None.

(* getElementFromParentIndex: same with parent(cell[it]) < p *)
Definition elem_from_parent (par : Z -> Z) (cells : list Z) (n : Z) (p : Z) : option Z :=
  let k := lower_bound_indexes 0 n (fun it => par (znth cells it 0) <? p) in
  if k =? n then None
  else if par (znth cells k 0) =? p then Some k else None.

Definition cg_find (g : cgroup) (i : Z) : option Z := elem_from_index (cg_cells g) (cg_n g) i.
Definition cg_find_parent (par : Z -> Z) (g : cgroup) (p : Z) : option Z :=
  elem_from_parent par (cg_cells g) (cg_n g) p.
Definition pg_find (g : pgroup) (i : Z) : option Z := elem_from_index (pg_indices g) (pg_nl g) i.
