(* Executable model of the bulk export functions and of rebuild
   (src/core/tbftree.hpp:275-305, 307-431). *)
From Tbfmm Require Import Base.Prelude Tree.GroupDefs Tree.BuildDefs Tree.Invariant.
Local Open Scope Z_scope.

Section Export.
Variable V : Type.
Variable dflt : V.

(* what the group constructor stored for the particle at position p of a leaf, component v:
   particlesDataViewer.getItem(idxPart, idxValue) = inParticlePositions[originalParticleIdx][idxValue] *)
Definition stored (input : Z -> Z -> V) (lf : leaf) (p v : Z) : V := input (znth (lf_parts lf) p (-1)) v.

(* getAllParticlesData / getAllParticlesRhs: the writes, in program order, as (slot, component, value):
     for each leaf, for idxValue, for idxPart:  out[particleIndexes[idxPart]][idxValue] = ptr[idxValue][idxPart] *)
Definition export_writes (input : Z -> Z -> V) (nv : Z) (t : tree) : list (Z * Z * V) :=
  flat_map (fun lf =>
    flat_map (fun v => map (fun p => (znth (lf_parts lf) p (-1), v, stored input lf p v)) (zseq (lf_n lf)))
             (zseq nv))
    (all_leaves t).

(* the output array is value-initialised; the last write to a (slot, component) wins *)
Fixpoint lookup_write (ws : list (Z * Z * V)) (i v : Z) (acc : V) : V :=
  match ws with
  | [] => acc
  | (i', v', x) :: r => lookup_write r i v (if (i' =? i) && (v' =? v) then x else acc)
  end.
Definition export_get (input : Z -> Z -> V) (nv : Z) (t : tree) (i v : Z) : V :=
  lookup_write (export_writes input nv t) i v dflt.

(* the index expression as it was before the repair (tbftree.hpp:283 at the pinned commit): out[idxValue][particleIndex] *)
Definition export_writes_transposed (input : Z -> Z -> V) (nv : Z) (t : tree) : list (Z * Z * V) :=
  map (fun w => let '(i, v, x) := w in (v, i, x)) (export_writes input nv t).

End Export.

(* rebuild(): gather data and rhs by original index, clear, run the constructor's logic on the current
   positions, scatter rhs back.  [idx'] = leaf index of the CURRENT (edited) position of every particle. *)
Definition rebuild (par : Z -> Z) (H B : Z) (mode : bool) (idx' : list Z) : tree := build par H B mode idx'.
