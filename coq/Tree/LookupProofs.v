(* Correctness of the lookups: the binary search lower_bound_indexes, the in-group lookups
   (elem_from_index / elem_from_parent) and the tree-level lookups find_cell / find_leaf (C16). *)
From Tbfmm Require Import Base.Prelude Base.Search Tree.GroupDefs Tree.BuildDefs Tree.Invariant.
From Coq Require Import Sorting.Sorted ZifyBool.
Local Open Scope Z_scope.

(* ------------------------------------------------------------------ *)
(* 1. lower_bound                                                      *)
(* ------------------------------------------------------------------ *)

Lemma half_lt_pow : forall c P, 0 < c -> c < 2 * P -> c / 2 < P /\ c - (c / 2 + 1) < P.
Proof. intros c P Hc HP. Z.div_mod_to_equations. lia. Qed.

Lemma lb_loop_total : forall fuel comp first count,
  count < 2 ^ Z.of_nat fuel -> lower_bound_loop fuel comp first count <> None.
Proof.
  induction fuel as [|f IH]; intros comp first count Hc; cbn [lower_bound_loop].
  - destruct (count >? 0) eqn:E; [|discriminate].
    change (2 ^ Z.of_nat 0) with 1 in Hc. lia.
  - destruct (count >? 0) eqn:E; [|discriminate].
    rewrite Nat2Z.inj_succ, Z.pow_succ_r in Hc by lia.
    assert (Hpos : 0 < count) by lia.
    destruct (half_lt_pow count (2 ^ Z.of_nat f) Hpos Hc) as [H1 H2].
    destruct (comp (first + count / 2)); apply IH; assumption.
Qed.

Theorem lower_bound_total : forall first last comp, lower_bound_opt first last comp <> None.
Proof.
  intros first last comp. unfold lower_bound_opt, lb_fuel.
  set (c := last - first).
  destruct (Z_lt_le_dec 0 c) as [Hpos|Hle].
  - apply lb_loop_total.
    rewrite Nat2Z.inj_succ, Z2Nat.id by apply Z.log2_nonneg.
    apply (Z.log2_spec c Hpos).
  - cbn [lower_bound_loop]. destruct (c >? 0) eqn:E; [lia|discriminate].
Qed.

Lemma half_bounds : forall c, 0 < c -> 0 <= c / 2 /\ c / 2 < c.
Proof. intros c Hc. Z.div_mod_to_equations. lia. Qed.

(* range of the result: no hypothesis on the predicate *)
Lemma lb_loop_range : forall fuel comp first count r,
  0 <= count -> lower_bound_loop fuel comp first count = Some r -> first <= r <= first + count.
Proof.
  induction fuel as [|f IH]; intros comp first count r Hc Hr; cbn [lower_bound_loop] in Hr.
  - destruct (count >? 0) eqn:E; [discriminate|]. injection Hr as <-. lia.
  - destruct (count >? 0) eqn:E; [|injection Hr as <-; lia].
    assert (Hpos : 0 < count) by lia.
    destruct (half_bounds count Hpos) as [H1 H2].
    destruct (comp (first + count / 2)); apply IH in Hr; lia.
Qed.

Lemma lb_loop_spec : forall fuel comp first count r,
  0 <= count ->
  (forall i j, first <= i -> i <= j -> j < first + count -> comp j = true -> comp i = true) ->
  lower_bound_loop fuel comp first count = Some r ->
  first <= r <= first + count /\
  (forall i, first <= i < r -> comp i = true) /\
  (forall i, r <= i < first + count -> comp i = false).
Proof.
  induction fuel as [|f IH]; intros comp first count r Hc Hmono Hr; cbn [lower_bound_loop] in Hr.
  - destruct (count >? 0) eqn:E; [discriminate|]. injection Hr as <-.
    split; [lia|]. split; intros i Hi; lia.
  - destruct (count >? 0) eqn:E.
    2:{ injection Hr as <-. split; [lia|]. split; intros i Hi; lia. }
    assert (Hpos : 0 < count) by lia.
    destruct (half_bounds count Hpos) as [H1 H2].
    set (step := count / 2) in *.
    destruct (comp (first + step)) eqn:Eit.
    + apply IH in Hr; [| lia |].
      2:{ intros i j Hi Hij Hj Hcj. apply (Hmono i j); lia || assumption. }
      destruct Hr as (Hrange & Htrue & Hfalse).
      split; [lia|]. split.
      * intros i Hi. destruct (Z_lt_le_dec i (first + step + 1)) as [Hlt|Hge].
        -- apply (Hmono i (first + step)); lia || assumption.
        -- apply Htrue. lia.
      * intros i Hi. apply Hfalse. lia.
    + apply IH in Hr; [| lia |].
      2:{ intros i j Hi Hij Hj Hcj. apply (Hmono i j); lia || assumption. }
      destruct Hr as (Hrange & Htrue & Hfalse).
      split; [lia|]. split.
      * intros i Hi. apply Htrue. lia.
      * intros i Hi. destruct (Z_lt_le_dec i (first + step)) as [Hlt|Hge].
        -- apply Hfalse. lia.
        -- destruct (comp i) eqn:Ei; [|reflexivity].
           rewrite (Hmono (first + step) i) in Eit; [discriminate| lia | lia | lia | assumption].
Qed.

Lemma lower_bound_range : forall first last comp, first <= last ->
  first <= lower_bound_indexes first last comp <= last.
Proof.
  intros first last comp Hle. unfold lower_bound_indexes.
  destruct (lower_bound_opt first last comp) as [r|] eqn:E; [|lia].
  unfold lower_bound_opt in E. apply lb_loop_range in E; lia.
Qed.

Theorem lower_bound_spec : forall first last comp, first <= last ->
  (forall i j, first <= i -> i <= j -> j < last -> comp j = true -> comp i = true) ->
  let r := lower_bound_indexes first last comp in
  first <= r <= last /\ (forall i, first <= i < r -> comp i = true) /\ (forall i, r <= i < last -> comp i = false).
Proof.
  intros first last comp Hle Hmono r. subst r. unfold lower_bound_indexes.
  destruct (lower_bound_opt first last comp) as [r|] eqn:E.
  2:{ exfalso. exact (lower_bound_total first last comp E). }
  unfold lower_bound_opt in E. apply lb_loop_spec in E; [| lia |].
  - replace (first + (last - first)) with last in E by lia. exact E.
  - intros i j Hi Hij Hj Hcj. apply (Hmono i j); lia || assumption.
Qed.

(* ------------------------------------------------------------------ *)
(* 2. znth / zlen bridging and sorted lists                            *)
(* ------------------------------------------------------------------ *)

Lemma zlen_nonneg : forall A (l : list A), 0 <= zlen l.
Proof. intros A l. unfold zlen. lia. Qed.

Lemma znth_nat : forall A (l : list A) i d, 0 <= i -> znth l i d = nth (Z.to_nat i) l d.
Proof. intros A l i d Hi. unfold znth. destruct (i <? 0) eqn:E; [lia|reflexivity]. Qed.

Lemma znth_In : forall A (l : list A) i d, 0 <= i < zlen l -> In (znth l i d) l.
Proof.
  intros A l i d Hi. unfold zlen in Hi. rewrite znth_nat by lia. apply nth_In. lia.
Qed.

Lemma In_znth : forall A (l : list A) x d, In x l -> exists k, 0 <= k < zlen l /\ znth l k d = x.
Proof.
  intros A l x d Hin. destruct (In_nth l x d Hin) as (n & Hn & Hx).
  exists (Z.of_nat n). unfold zlen. split; [lia|].
  rewrite znth_nat by lia. rewrite Nat2Z.id. exact Hx.
Qed.

Lemma znth_nth_error : forall A (l : list A) i d, 0 <= i < zlen l ->
  nth_error l (Z.to_nat i) = Some (znth l i d).
Proof.
  intros A l i d Hi. unfold zlen in Hi. rewrite znth_nat by lia. apply nth_error_nth'. lia.
Qed.

Lemma nth_error_znth : forall A (l : list A) i d a, 0 <= i ->
  nth_error l (Z.to_nat i) = Some a -> 0 <= i < zlen l /\ znth l i d = a.
Proof.
  intros A l i d a Hi Ha. split.
  - assert (Hlt : (Z.to_nat i < length l)%nat) by (apply nth_error_Some; congruence).
    unfold zlen. lia.
  - rewrite znth_nat by lia. apply nth_error_nth. exact Ha.
Qed.

Lemma sorted_nth_lt : forall l, StronglySorted Z.lt l ->
  forall a b, (a < b)%nat -> (b < length l)%nat -> nth a l 0 < nth b l 0.
Proof.
  intros l Hs. induction Hs as [|x r Hs IH Hall]; intros a b Hab Hb.
  - cbn in Hb. lia.
  - destruct b as [|b]; [lia|]. cbn [length] in Hb.
    destruct a as [|a]; cbn [nth].
    + rewrite Forall_forall in Hall. apply Hall. apply nth_In. lia.
    + apply IH; lia.
Qed.

Lemma sorted_znth_lt : forall l a b, StronglySorted Z.lt l ->
  0 <= a -> a < b -> b < zlen l -> znth l a 0 < znth l b 0.
Proof.
  intros l a b Hs Ha Hab Hb. unfold zlen in Hb. rewrite !znth_nat by lia.
  apply sorted_nth_lt; [assumption| lia | lia].
Qed.

Lemma sorted_znth_le : forall l a b, StronglySorted Z.lt l ->
  0 <= a -> a <= b -> b < zlen l -> znth l a 0 <= znth l b 0.
Proof.
  intros l a b Hs Ha Hab Hb. destruct (Z.eq_dec a b) as [->|Hne]; [lia|].
  apply Z.lt_le_incl. apply sorted_znth_lt; assumption || lia.
Qed.

(* ------------------------------------------------------------------ *)
(* 3. in-group lookups                                                 *)
(* ------------------------------------------------------------------ *)

Section InGroup.
Variable par : Z -> Z.
Hypothesis par_mono : forall a b, a <= b -> par a <= par b.
Variable cells : list Z.
Hypothesis cells_sorted : StronglySorted Z.lt cells.
Variable p : Z.

Let f (k : Z) : Z := par (znth cells k 0).
Let n := zlen cells.
Let r := lower_bound_indexes 0 n (fun it => par (znth cells it 0) <? p).

Lemma f_mono : forall a b, 0 <= a -> a <= b -> b < n -> f a <= f b.
Proof.
  intros a b Ha Hab Hb. unfold f. apply par_mono. apply sorted_znth_le; assumption.
Qed.

Lemma r_spec : 0 <= r <= n /\ (forall i, 0 <= i < r -> f i < p) /\ (forall i, r <= i < n -> p <= f i).
Proof.
  assert (Hn : 0 <= n) by apply zlen_nonneg.
  assert (Hmono : forall i j, 0 <= i -> i <= j -> j < n ->
            (par (znth cells j 0) <? p) = true -> (par (znth cells i 0) <? p) = true).
  { intros i j Hi Hij Hj Hc. pose proof (f_mono i j Hi Hij Hj) as Hf. unfold f in Hf. lia. }
  pose proof (lower_bound_spec 0 n _ Hn Hmono) as Hspec. cbv zeta in Hspec. fold r in Hspec.
  destruct Hspec as (Hrange & Htrue & Hfalse).
  split; [exact Hrange|]. split.
  - intros i Hi. specialize (Htrue i Hi). unfold f. lia.
  - intros i Hi. specialize (Hfalse i Hi). unfold f. lia.
Qed.

Lemma efp_unfold : elem_from_parent par cells n p =
  if r =? n then None else if f r =? p then Some r else None.
Proof. reflexivity. Qed.

Lemma efp_some : forall k,
  elem_from_parent par cells n p = Some k <->
  (0 <= k < n /\ f k = p /\ forall k', 0 <= k' < k -> f k' <> p).
Proof.
  intros k. rewrite efp_unfold. destruct r_spec as (Hrange & Hlow & Hhigh). split.
  - intros H. destruct (r =? n) eqn:E1; [discriminate|].
    destruct (f r =? p) eqn:E2; [|discriminate]. injection H as <-.
    split; [lia|]. split; [lia|]. intros k' Hk'. specialize (Hlow k' Hk'). lia.
  - intros (Hk & Hfk & Hfirst).
    assert (Hrk : r = k).
    { destruct (Z_lt_le_dec k r) as [Hlt|Hge].
      - assert (Hk' : 0 <= k < r) by lia. specialize (Hlow k Hk'). lia.
      - destruct (Z.eq_dec r k) as [Heq|Hne]; [exact Heq|]. exfalso.
        assert (Hr' : 0 <= r < k) by lia. apply (Hfirst r Hr').
        assert (Hrn : r <= r < n) by lia. specialize (Hhigh r Hrn).
        pose proof (f_mono r k ltac:(lia) ltac:(lia) ltac:(lia)) as Hm. lia. }
    rewrite Hrk. destruct (k =? n) eqn:E1; [lia|].
    destruct (f k =? p) eqn:E2; [reflexivity|lia].
Qed.

Lemma efp_none : elem_from_parent par cells n p = None <-> ~ In p (map par cells).
Proof.
  split.
  - intros Hnone Hin. apply in_map_iff in Hin. destruct Hin as (x & Hpx & Hx).
    destruct (In_znth _ cells x 0 Hx) as (j & Hj & Hjx). fold n in Hj.
    assert (Hfj : f j = p) by (unfold f; rewrite Hjx; exact Hpx).
    rewrite efp_unfold in Hnone. destruct r_spec as (Hrange & Hlow & Hhigh).
    assert (Hrj : r <= j).
    { destruct (Z_lt_le_dec j r) as [Hlt|Hge]; [|exact Hge].
      assert (Hj' : 0 <= j < r) by lia. specialize (Hlow j Hj'). lia. }
    destruct (r =? n) eqn:E1; [lia|].
    assert (Hrn : r <= r < n) by lia. specialize (Hhigh r Hrn).
    pose proof (f_mono r j ltac:(lia) Hrj ltac:(lia)) as Hm.
    destruct (f r =? p) eqn:E2; [discriminate|lia].
  - intros Hnin. destruct (elem_from_parent par cells n p) as [k|] eqn:E; [|reflexivity].
    exfalso. apply Hnin. apply efp_some in E. destruct E as (Hk & Hfk & _).
    rewrite <- Hfk. unfold f. apply in_map. apply znth_In. exact Hk.
Qed.
End InGroup.

Theorem elem_from_parent_some : forall par cells p k, (forall a b, a <= b -> par a <= par b) -> StronglySorted Z.lt cells ->
  (elem_from_parent par cells (zlen cells) p = Some k <->
   (0 <= k < zlen cells /\ par (znth cells k 0) = p /\ forall k', 0 <= k' < k -> par (znth cells k' 0) <> p)).
Proof. intros par cells p k Hmono Hs. exact (efp_some par Hmono cells Hs p k). Qed.

Theorem elem_from_parent_none : forall par cells p, (forall a b, a <= b -> par a <= par b) -> StronglySorted Z.lt cells ->
  (elem_from_parent par cells (zlen cells) p = None <-> ~ In p (map par cells)).
Proof. intros par cells p Hmono Hs. exact (efp_none par Hmono cells Hs p). Qed.

Lemma elem_from_index_as_parent : forall cells n i,
  elem_from_index cells n i = elem_from_parent (fun x => x) cells n i.
Proof. reflexivity. Qed.

Theorem elem_from_index_some : forall cells i k, StronglySorted Z.lt cells ->
  (elem_from_index cells (zlen cells) i = Some k <-> (0 <= k < zlen cells /\ znth cells k 0 = i)).
Proof.
  intros cells i k Hs. rewrite elem_from_index_as_parent.
  rewrite (elem_from_parent_some (fun x => x) cells i k (fun a b H => H) Hs). split.
  - intros (Hk & Hik & _). split; assumption.
  - intros (Hk & Hik). split; [exact Hk|]. split; [exact Hik|].
    intros k' Hk'. pose proof (sorted_znth_lt cells k' k Hs ltac:(lia) ltac:(lia) ltac:(lia)) as Hlt. lia.
Qed.

Theorem elem_from_index_none : forall cells i, StronglySorted Z.lt cells ->
  (elem_from_index cells (zlen cells) i = None <-> ~ In i cells).
Proof.
  intros cells i Hs. rewrite elem_from_index_as_parent.
  rewrite (elem_from_parent_none (fun x => x) cells i (fun a b H => H) Hs).
  rewrite map_id. reflexivity.
Qed.

(* ------------------------------------------------------------------ *)
(* 4. generic two-stage lookup: groups of strictly increasing indices  *)
(* ------------------------------------------------------------------ *)

Lemma ss_app : forall l1 l2, StronglySorted Z.lt (l1 ++ l2) ->
  StronglySorted Z.lt l1 /\ StronglySorted Z.lt l2 /\ (forall x y, In x l1 -> In y l2 -> x < y).
Proof.
  induction l1 as [|a l1 IH]; intros l2 Hs.
  - cbn [app] in Hs. split; [constructor|]. split; [exact Hs|]. intros x y Hx. destruct Hx.
  - cbn [app] in Hs. apply StronglySorted_inv in Hs. destruct Hs as [Hs Hall].
    destruct (IH l2 Hs) as (H1 & H2 & H3). rewrite Forall_forall in Hall.
    split.
    + constructor; [exact H1|]. rewrite Forall_forall. intros x Hx. apply Hall. apply in_or_app. left. exact Hx.
    + split; [exact H2|]. intros x y Hx Hy. destruct Hx as [<-|Hx].
      * apply Hall. apply in_or_app. right. exact Hy.
      * apply H3; assumption.
Qed.

Lemma last_or_In : forall (l : list Z) d, l <> [] -> In (last_or l d) l.
Proof.
  induction l as [|a l IH]; intros d Hne; [congruence|].
  destruct l as [|b l]; [left; reflexivity|].
  right. change (last_or (a :: b :: l) d) with (last_or (b :: l) d). apply IH. discriminate.
Qed.

Lemma hd_or_In : forall (l : list Z) d, l <> [] -> In (hd_or l d) l.
Proof. intros l d Hne. destruct l as [|a l]; [congruence|]. left. reflexivity. Qed.

Lemma sorted_le_last : forall l x, StronglySorted Z.lt l -> In x l -> x <= last_or l 0.
Proof.
  intros l x Hs. induction Hs as [|a r Hs IH Hall]; intros Hx; [destruct Hx|].
  destruct r as [|b r].
  - destruct Hx as [<-|[]]. cbn. lia.
  - change (last_or (a :: b :: r) 0) with (last_or (b :: r) 0).
    destruct Hx as [<-|Hx].
    + rewrite Forall_forall in Hall. apply Z.lt_le_incl. apply Hall. apply last_or_In. discriminate.
    + apply IH. exact Hx.
Qed.

Lemma sorted_hd_le : forall l x, StronglySorted Z.lt l -> In x l -> hd_or l 0 <= x.
Proof.
  intros l x Hs Hx. destruct Hs as [|a r Hs Hall]; [destruct Hx|].
  cbn [hd_or]. destruct Hx as [<-|Hx]; [lia|].
  rewrite Forall_forall in Hall. apply Z.lt_le_incl. apply Hall. exact Hx.
Qed.

Section Grouped.
Variable A : Type.
Variables (idx : A -> list Z) (gfst glst gn : A -> Z).

Definition gok (a : A) : Prop :=
  idx a <> [] /\ gfst a = hd_or (idx a) 0 /\ glst a = last_or (idx a) 0 /\ gn a = zlen (idx a).

Definition gfind (gs : list A) (i : Z) : option (Z * Z) :=
  let g := find_group (map glst gs) i in
  if g =? zlen gs then None else
  match nth_error gs (Z.to_nat g) with
  | None => None
  | Some grp =>
    if (gfst grp <=? i) && (i <=? glst grp) then
      match elem_from_index (idx grp) (gn grp) i with Some k => Some (g, k) | None => None end
    else None
  end.

Lemma group_sorted : forall gs, StronglySorted Z.lt (flat_map idx gs) ->
  forall g a, nth_error gs g = Some a -> StronglySorted Z.lt (idx a).
Proof.
  induction gs as [|a0 gs IH]; intros Hs g a Ha.
  - destruct g; discriminate.
  - cbn [flat_map] in Hs. apply ss_app in Hs. destruct Hs as (H1 & H2 & H3).
    destruct g as [|g]; cbn [nth_error] in Ha.
    + injection Ha as <-. exact H1.
    + exact (IH H2 g a Ha).
Qed.

Lemma group_sep : forall gs, StronglySorted Z.lt (flat_map idx gs) ->
  forall g1 g2 a1 a2, (g1 < g2)%nat -> nth_error gs g1 = Some a1 -> nth_error gs g2 = Some a2 ->
  forall x y, In x (idx a1) -> In y (idx a2) -> x < y.
Proof.
  induction gs as [|a0 gs IH]; intros Hs g1 g2 a1 a2 Hlt H1 H2 x y Hx Hy.
  - destruct g1; discriminate.
  - cbn [flat_map] in Hs. apply ss_app in Hs. destruct Hs as (Hs1 & Hs2 & Hs3).
    destruct g2 as [|g2]; [lia|]. cbn [nth_error] in H2.
    destruct g1 as [|g1]; cbn [nth_error] in H1.
    + injection H1 as <-. apply Hs3; [exact Hx|].
      apply in_flat_map. exists a2. split; [|exact Hy]. exact (nth_error_In _ _ H2).
    + apply (IH Hs2 g1 g2 a1 a2); assumption || lia.
Qed.

Variable gs : list A.
Hypothesis gs_ok : Forall gok gs.
Hypothesis gs_sorted : StronglySorted Z.lt (flat_map idx gs).
Variable i : Z.

Let lasts := map glst gs.
Let ng := zlen gs.
Let r := find_group lasts i.

Lemma nth_group : forall g, 0 <= g < ng ->
  exists a, nth_error gs (Z.to_nat g) = Some a /\ znth lasts g 0 = glst a /\ gok a
            /\ StronglySorted Z.lt (idx a).
Proof.
  intros g Hg. unfold ng, zlen in Hg.
  destruct (nth_error gs (Z.to_nat g)) as [a|] eqn:E.
  2:{ exfalso. apply nth_error_None in E. lia. }
  exists a. split; [reflexivity|]. split.
  - unfold lasts. rewrite znth_nat by lia. apply nth_error_nth.
    apply map_nth_error. exact E.
  - split.
    + rewrite Forall_forall in gs_ok. apply gs_ok. exact (nth_error_In _ _ E).
    + exact (group_sorted gs gs_sorted _ a E).
Qed.

Lemma lasts_len : zlen lasts = ng.
Proof. unfold lasts, ng, zlen. rewrite map_length. reflexivity. Qed.

Lemma lasts_mono : forall a b, 0 <= a -> a <= b -> b < ng -> znth lasts a 0 <= znth lasts b 0.
Proof.
  intros a b Ha Hab Hb. destruct (Z.eq_dec a b) as [->|Hne]; [lia|].
  destruct (nth_group a ltac:(lia)) as (ga & Ea & -> & (Hne1 & _ & Hl1 & _) & _).
  destruct (nth_group b ltac:(lia)) as (gb & Eb & -> & (Hne2 & _ & Hl2 & _) & _).
  apply Z.lt_le_incl. rewrite Hl1, Hl2.
  apply (group_sep gs gs_sorted (Z.to_nat a) (Z.to_nat b) ga gb); try assumption; try lia.
  - apply last_or_In. exact Hne1.
  - apply last_or_In. exact Hne2.
Qed.

Lemma fg_spec : 0 <= r <= ng /\ (forall g, 0 <= g < r -> znth lasts g 0 < i)
                /\ (forall g, r <= g < ng -> i <= znth lasts g 0).
Proof.
  assert (Hn : 0 <= zlen lasts) by apply zlen_nonneg.
  assert (Hmono : forall a b, 0 <= a -> a <= b -> b < zlen lasts ->
            (znth lasts b 0 <? i) = true -> (znth lasts a 0 <? i) = true).
  { intros a b Ha Hab Hb Hc. rewrite lasts_len in Hb. pose proof (lasts_mono a b Ha Hab Hb). lia. }
  pose proof (lower_bound_spec 0 (zlen lasts) _ Hn Hmono) as Hspec. cbv zeta in Hspec.
  change (lower_bound_indexes 0 (zlen lasts) (fun it => znth lasts it 0 <? i)) with r in Hspec.
  rewrite lasts_len in Hspec. destruct Hspec as (Hrange & Htrue & Hfalse).
  split; [exact Hrange|]. split.
  - intros g Hg. specialize (Htrue g Hg). lia.
  - intros g Hg. specialize (Hfalse g Hg). lia.
Qed.

Lemma gfind_unfold : gfind gs i =
  if r =? ng then None else
  match nth_error gs (Z.to_nat r) with
  | None => None
  | Some grp =>
    if (gfst grp <=? i) && (i <=? glst grp) then
      match elem_from_index (idx grp) (gn grp) i with Some k => Some (r, k) | None => None end
    else None
  end.
Proof. reflexivity. Qed.

Lemma gfind_some : forall g k,
  gfind gs i = Some (g, k) <->
  exists a, nth_error gs (Z.to_nat g) = Some a /\ 0 <= g /\ 0 <= k < zlen (idx a) /\ znth (idx a) k 0 = i.
Proof.
  intros g k. rewrite gfind_unfold. destruct fg_spec as (Hrange & Hlow & Hhigh). split.
  - intros H. destruct (r =? ng) eqn:E1; [discriminate|].
    destruct (nth_group r ltac:(lia)) as (a & Ea & _ & (_ & _ & _ & Hn) & Hsa).
    rewrite Ea in H.
    destruct ((gfst a <=? i) && (i <=? glst a)); [|discriminate].
    rewrite Hn in H.
    destruct (elem_from_index (idx a) (zlen (idx a)) i) as [k0|] eqn:E2; [|discriminate].
    injection H as <- <-. apply (elem_from_index_some _ _ _ Hsa) in E2.
    exists a. split; [exact Ea|]. split; [lia|]. exact E2.
  - intros (a & Ea & Hg0 & Hk & Hki).
    destruct (nth_error_znth _ gs g a a Hg0 Ea) as (Hg & _). fold ng in Hg.
    destruct (nth_group g Hg) as (a' & Ea' & Hla & (Hne & Hf & Hl & Hn) & Hsa).
    rewrite Ea in Ea'. injection Ea' as <-.
    assert (Hin : In i (idx a)) by (rewrite <- Hki; apply znth_In; exact Hk).
    assert (Hile : i <= glst a) by (rewrite Hl; apply sorted_le_last; assumption).
    assert (Hfle : gfst a <= i) by (rewrite Hf; apply sorted_hd_le; assumption).
    assert (Hrg : r = g).
    { destruct (Z_lt_le_dec g r) as [Hlt|Hge].
      - assert (Hg' : 0 <= g < r) by lia. specialize (Hlow g Hg'). lia.
      - destruct (Z.eq_dec r g) as [Heq|Hneq]; [exact Heq|]. exfalso.
        assert (Hr' : r <= r < ng) by lia. specialize (Hhigh r Hr').
        destruct (nth_group r ltac:(lia)) as (b & Eb & Hlb & (Hneb & _ & Hlb' & _) & _).
        assert (Hlt : glst b < i).
        { apply (group_sep gs gs_sorted (Z.to_nat r) (Z.to_nat g) b a); try assumption; try lia.
          rewrite Hlb'. apply last_or_In. exact Hneb. }
        lia. }
    rewrite Hrg. destruct (g =? ng) eqn:E1; [lia|]. rewrite Ea.
    destruct ((gfst a <=? i) && (i <=? glst a)) eqn:E2; [|lia].
    rewrite Hn. destruct (elem_from_index_some (idx a) i k Hsa) as [_ Hes].
    rewrite (Hes (conj Hk Hki)). reflexivity.
Qed.

Lemma gfind_none : gfind gs i = None <-> ~ In i (flat_map idx gs).
Proof.
  split.
  - intros Hnone Hin. apply in_flat_map in Hin. destruct Hin as (a & Ha & Hia).
    destruct (In_nth_error _ _ Ha) as (g & Eg).
    destruct (In_znth _ (idx a) i 0 Hia) as (k & Hk & Hki).
    assert (Hs : gfind gs i = Some (Z.of_nat g, k)).
    { apply gfind_some. exists a. rewrite Nat2Z.id. split; [exact Eg|]. split; [lia|]. split; assumption. }
    congruence.
  - intros Hnin. destruct (gfind gs i) as [[g k]|] eqn:E; [|reflexivity].
    exfalso. apply Hnin. apply gfind_some in E. destruct E as (a & Ea & _ & Hk & Hki).
    apply in_flat_map. exists a. split; [exact (nth_error_In _ _ Ea)|].
    rewrite <- Hki. apply znth_In. exact Hk.
Qed.

Lemma gfind_group_range : 0 <= r <= ng.
Proof. exact (proj1 fg_spec). Qed.
End Grouped.

(* ------------------------------------------------------------------ *)
(* 5. tree-level lookups (C16)                                         *)
(* ------------------------------------------------------------------ *)

Lemma find_cell_as_gfind : forall t level i,
  find_cell t level i = gfind cgroup cg_cells cg_first cg_last cg_n (znth (t_levels t) level []) i.
Proof.
  intros t level i. unfold find_cell, gfind. cbv zeta.
  set (groups := znth (t_levels t) level []).
  set (g := find_group (map cg_last groups) i).
  destruct (g =? zlen groups) eqn:E; [reflexivity|].
  assert (Hg : 0 <= g <= zlen (map cg_last groups)).
  { unfold g, find_group. apply lower_bound_range. apply zlen_nonneg. }
  assert (Hlen : zlen (map cg_last groups) = zlen groups) by (unfold zlen; rewrite map_length; reflexivity).
  rewrite (znth_nth_error _ groups g (mk_cgroup [])) by lia. reflexivity.
Qed.

Theorem find_cell_some : forall t level i g k, 0 <= level < zlen (t_levels t) -> level_ok (znth (t_levels t) level []) ->
  (find_cell t level i = Some (g, k) <->
   (0 <= g < zlen (znth (t_levels t) level []) /\
    0 <= k < zlen (cg_cells (znth (znth (t_levels t) level []) g (mk_cgroup []))) /\
    znth (cg_cells (znth (znth (t_levels t) level []) g (mk_cgroup []))) k 0 = i)).
Proof.
  intros t level i g k _ [Hok Hs]. rewrite find_cell_as_gfind.
  set (groups := znth (t_levels t) level []) in *.
  rewrite (gfind_some cgroup cg_cells cg_first cg_last cg_n groups Hok Hs i g k). split.
  - intros (a & Ea & Hg0 & Hk & Hki).
    destruct (nth_error_znth _ groups g (mk_cgroup []) a Hg0 Ea) as (Hg & ->).
    split; [exact Hg|]. split; assumption.
  - intros (Hg & Hk & Hki). exists (znth groups g (mk_cgroup [])).
    split; [apply znth_nth_error; exact Hg|]. split; [lia|]. split; assumption.
Qed.

Theorem find_cell_none : forall t level i, 0 <= level < zlen (t_levels t) -> level_ok (znth (t_levels t) level []) ->
  (find_cell t level i = None <-> ~ In i (level_cells (znth (t_levels t) level []))).
Proof.
  intros t level i _ [Hok Hs]. rewrite find_cell_as_gfind.
  exact (gfind_none cgroup cg_cells cg_first cg_last cg_n _ Hok Hs i).
Qed.

Lemma pg_indices_len : forall grp, zlen (pg_indices grp) = zlen (pg_leaves grp).
Proof. intros grp. unfold pg_indices, zlen. rewrite map_length. reflexivity. Qed.

Lemma pgroup_ok_gok : forall grp, pgroup_ok grp -> gok pgroup pg_indices pg_first pg_last pg_nl grp.
Proof.
  intros grp (Hne & Hf & Hl & Hn & _). unfold gok.
  split.
  - unfold pg_indices. intros Hm. apply map_eq_nil in Hm. exact (Hne Hm).
  - split; [exact Hf|]. split; [exact Hl|]. rewrite pg_indices_len. exact Hn.
Qed.

Lemma find_leaf_as_gfind : forall t i,
  find_leaf t i = gfind pgroup pg_indices pg_first pg_last pg_nl (t_pgroups t) i.
Proof. reflexivity. Qed.

Theorem find_leaf_some : forall t i g k, Forall pgroup_ok (t_pgroups t) -> StronglySorted Z.lt (flat_map pg_indices (t_pgroups t)) ->
  (find_leaf t i = Some (g, k) <->
   exists grp, nth_error (t_pgroups t) (Z.to_nat g) = Some grp /\ 0 <= g /\ 0 <= k < zlen (pg_leaves grp) /\ znth (pg_indices grp) k 0 = i).
Proof.
  intros t i g k Hok Hs. rewrite find_leaf_as_gfind.
  assert (Hok' : Forall (gok pgroup pg_indices pg_first pg_last pg_nl) (t_pgroups t)).
  { eapply Forall_impl; [|exact Hok]. exact pgroup_ok_gok. }
  rewrite (gfind_some pgroup pg_indices pg_first pg_last pg_nl _ Hok' Hs i g k). split.
  - intros (a & Ea & Hg0 & Hk & Hki). exists a. rewrite <- pg_indices_len. repeat split; assumption || lia.
  - intros (a & Ea & Hg0 & Hk & Hki). exists a. rewrite pg_indices_len. repeat split; assumption || lia.
Qed.

Theorem find_leaf_none : forall t i, Forall pgroup_ok (t_pgroups t) -> StronglySorted Z.lt (flat_map pg_indices (t_pgroups t)) ->
  (find_leaf t i = None <-> ~ In i (flat_map pg_indices (t_pgroups t))).
Proof.
  intros t i Hok Hs. rewrite find_leaf_as_gfind.
  assert (Hok' : Forall (gok pgroup pg_indices pg_first pg_last pg_nl) (t_pgroups t)).
  { eapply Forall_impl; [|exact Hok]. exact pgroup_ok_gok. }
  exact (gfind_none pgroup pg_indices pg_first pg_last pg_nl _ Hok' Hs i).
Qed.

Print Assumptions lower_bound_total.
Print Assumptions lower_bound_spec.
Print Assumptions elem_from_index_some.
Print Assumptions elem_from_index_none.
Print Assumptions elem_from_parent_some.
Print Assumptions elem_from_parent_none.
Print Assumptions find_cell_some.
Print Assumptions find_cell_none.
Print Assumptions find_leaf_some.
Print Assumptions find_leaf_none.
