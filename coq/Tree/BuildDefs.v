(* Executable model of tree construction:
   TbfParticleSorter (src/core/tbfparticlesorter.hpp:22-46,135-171),
   TbfParticlesContainer group constructor (src/core/tbfparticlescontainer.hpp:84-138),
   TbfTree constructor (src/core/tbftree.hpp:36-136). *)
From Tbfmm Require Import Base.Prelude Base.Search Tree.GroupDefs.
From Coq Require Import Sorting.Mergesort Orders.
Local Open Scope Z_scope.

(* std::sort by key .first (std::sort leaves the order of equal keys unspecified;
   the model uses a merge sort, and every comparison with the implementation is
   made up to the order of particles inside a leaf). *)
Module PairOrder <: TotalLeBool.
  Definition t := (Z * Z)%type.
  Definition leb (x y : t) := fst x <=? fst y.
  Theorem leb_total : forall a1 a2, leb a1 a2 = true \/ leb a2 a1 = true.
  Proof. intros a1 a2. unfold leb. destruct (Z.leb_spec (fst a1) (fst a2)); [left|right]; [reflexivity|]. apply Z.leb_le. lia. Qed.
End PairOrder.
Module PSort := Sort PairOrder.

(* particleIndexes: (leaf index, original position), sorted by leaf index *)
Definition sort_particles (idx : list Z) : list (Z * Z) :=
  PSort.sort (combine idx (zseq (zlen idx))).

(* leaves: run-length encoding (index, count) of the sorted keys *)
Fixpoint rle_loop (ps : list (Z * Z)) (acc_rev : list (Z * Z)) : list (Z * Z) :=
  match ps with
  | [] => rev acc_rev
  | (k, _) :: r =>
      match acc_rev with
      | (k0, n0) :: a => if k0 =? k then rle_loop r ((k0, n0 + 1) :: a) else rle_loop r ((k, 1) :: acc_rev)
      | [] => rle_loop r [(k, 1)]
      end
  end.
Definition leaves_of (ps : list (Z * Z)) : list (Z * Z) := rle_loop ps [].

(* GroupProperty *)
Record gprop := { gp_firstCell : Z; gp_nbCells : Z; gp_firstPart : Z; gp_nbParts : Z }.

(* number of leading particles whose key is < lim *)
Fixpoint count_lt (lim : Z) (ps : list (Z * Z)) : Z :=
  match ps with
  | [] => 0
  | (k, _) :: r => if k <? lim then 1 + count_lt lim r else 0
  end.

(* splitInGroups *)
Fixpoint split_loop (ng : nat) (g : Z) (B : Z) (leaves ps : list (Z * Z)) (firstPart : Z) : list gprop :=
  match ng with
  | O => []
  | S k =>
      let nbLeaves := zlen leaves in
      let firstCell := g * B in
      let nbCells := Z.min ((g + 1) * B) nbLeaves - firstCell in
      let lim := fst (znth leaves (firstCell + nbCells - 1) (0, 0)) + 1 in
      let rest := skipn (Z.to_nat firstPart) ps in
      let nbp := count_lt lim rest in
      {| gp_firstCell := firstCell; gp_nbCells := nbCells; gp_firstPart := firstPart; gp_nbParts := nbp |}
        :: split_loop k (g + 1) B leaves ps (firstPart + nbp)
  end.

Definition split_in_groups (B : Z) (leaves ps : list (Z * Z)) : list gprop :=
  if B <=? 0 then [] else
  let nbGroups := (zlen leaves + B - 1) / B in
  split_loop (Z.to_nat nbGroups) 0 B leaves ps 0.

(* TbfParticlesContainer(groupProperty, positions, converter): leaf headers by scanning the group's particles.
   state: finished leaves (reversed), current leaf (index, nb, off, parts reversed), current leaf number *)
Fixpoint leaves_scan (leafIdx : Z -> Z) (ps : list (Z * Z)) (pos : Z) (cur : Z)
         (ci cn co : Z) (cp_rev : list Z) (done_rev : list leaf) : list leaf :=
  match ps with
  | [] => rev ({| lf_index := ci; lf_n := cn; lf_off := co; lf_parts := rev cp_rev |} :: done_rev)
  | (k, orig) :: r =>
      if k =? ci then leaves_scan leafIdx r (pos + 1) cur ci (cn + 1) co (orig :: cp_rev) done_rev
      else leaves_scan leafIdx r (pos + 1) (cur + 1) (leafIdx (cur + 1)) 1 pos [orig]
             ({| lf_index := ci; lf_n := cn; lf_off := co; lf_parts := rev cp_rev |} :: done_rev)
  end.

Definition firstn_z {A} (n : Z) (l : list A) := firstn (Z.to_nat n) l.
Definition skipn_z {A} (n : Z) (l : list A) := skipn (Z.to_nat n) l.

Definition mk_pgroup (leaves ps : list (Z * Z)) (gp : gprop) : pgroup :=
  let leafIdx := fun k => fst (znth leaves (gp_firstCell gp + k) (0, 0)) in
  let myps := firstn_z (gp_nbParts gp) (skipn_z (gp_firstPart gp) ps) in
  let scanned := leaves_scan leafIdx myps 0 0 (leafIdx 0) 0 0 [] [] in
  (* leaves of the group that the scan did not reach stay zero-initialised *)
  let nreached := zlen scanned in
  let pad := map (fun _ => {| lf_index := 0; lf_n := 0; lf_off := 0; lf_parts := [] |})
                 (zseq (gp_nbCells gp - nreached)) in
  {| pg_first := leafIdx 0; pg_last := leafIdx (gp_nbCells gp - 1);
     pg_nl := gp_nbCells gp; pg_np := gp_nbParts gp; pg_leaves := scanned ++ pad |}.

(* ---- upper levels (tbftree.hpp:84-135) ---- *)
Section Levels.
Variable par : Z -> Z.     (* spaceSystem.getParentIndex *)

(* default mode: groups of exactly B parents, cut across lower-group boundaries *)
Fixpoint up_split (B : Z) (cells : list Z) (prev : Z) (cur_rev : list Z) (out_rev : list cgroup) : list cgroup :=
  match cells with
  | [] => rev (match cur_rev with [] => out_rev | _ => mk_cgroup (rev cur_rev) :: out_rev end)
  | c :: r =>
      let p := par c in
      if prev =? p then up_split B r prev cur_rev out_rev
      else
        let cur' := p :: cur_rev in
        if zlen cur' =? B then up_split B r p [] (mk_cgroup (rev cur') :: out_rev)
        else up_split B r p cur' out_rev
  end.

(* one-group-per-parent mode *)
Fixpoint skip_le (lim : Z) (cells : list Z) : list Z :=
  match cells with
  | [] => []
  | c :: r => if par c <=? lim then skip_le lim r else cells
  end.

Fixpoint parents_dedup (cells : list Z) (cur_rev : list Z) : list Z :=
  match cells with
  | [] => rev cur_rev
  | c :: r =>
      let p := par c in
      match cur_rev with
      | q :: _ => if q =? p then parents_dedup r cur_rev else parents_dedup r (p :: cur_rev)
      | [] => parents_dedup r [p]
      end
  end.

Fixpoint up_per_group (lower : list cgroup) (out_rev : list cgroup) : list cgroup :=
  match lower with
  | [] => rev out_rev
  | g :: r =>
      let cells := match out_rev with
                   | [] => cg_cells g
                   | u :: _ => skip_le (cg_last u) (cg_cells g)
                   end in
      let ps := parents_dedup cells [] in
      match ps with
      | [] => up_per_group r out_rev
      | _ => up_per_group r (mk_cgroup ps :: out_rev)
      end
  end.

Definition level_up (mode : bool) (B : Z) (lower : list cgroup) : list cgroup :=
  if mode then up_per_group lower []
  else up_split B (flat_map cg_cells lower) (-1) [] [].

(* levels H-2 .. 0 above the leaf level; result ordered level 0 first *)
Fixpoint levels_above (n : nat) (mode : bool) (B : Z) (lower : list cgroup) (acc : list (list cgroup)) : list (list cgroup) :=
  match n with
  | O => acc
  | S k => let up := level_up mode B lower in levels_above k mode B up (up :: acc)
  end.
End Levels.

Record tree := { t_levels : list (list cgroup); t_pgroups : list pgroup }.

(* TbfTree constructor: [idx] = leaf index of every input particle, H = tree height, B = block size *)
Definition build (par : Z -> Z) (H : Z) (B : Z) (mode : bool) (idx : list Z) : tree :=
  match idx with
  | [] => {| t_levels := repeat [] (Z.to_nat H); t_pgroups := [] |}
  | _ =>
      let ps := sort_particles idx in
      let leaves := leaves_of ps in
      let gps := split_in_groups B leaves ps in
      let pgs := map (mk_pgroup leaves ps) gps in
      if H <=? 0 then {| t_levels := []; t_pgroups := pgs |} else
      let leafLevel := map (fun g => mk_cgroup (pg_indices g)) pgs in
      {| t_levels := levels_above par (Z.to_nat (H - 1)) mode B leafLevel [leafLevel]; t_pgroups := pgs |}
  end.

(* ---- lookups (tbftree.hpp:194-237) ---- *)
Definition find_group (lasts : list Z) (i : Z) : Z :=
  lower_bound_indexes 0 (zlen lasts) (fun it => znth lasts it 0 <? i).

Definition find_cell (t : tree) (level : Z) (i : Z) : option (Z * Z) :=
  let groups := znth (t_levels t) level [] in
  let g := find_group (map cg_last groups) i in
  if g =? zlen groups then None else
  let grp := znth groups g (mk_cgroup []) in
  if (cg_first grp <=? i) && (i <=? cg_last grp) then
    match cg_find grp i with Some k => Some (g, k) | None => None end
  else None.

Definition find_leaf (t : tree) (i : Z) : option (Z * Z) :=
  let groups := t_pgroups t in
  let g := find_group (map pg_last groups) i in
  if g =? zlen groups then None else
  match nth_error groups (Z.to_nat g) with
  | None => None
  | Some grp =>
    if (pg_first grp <=? i) && (i <=? pg_last grp) then
      match pg_find grp i with Some k => Some (g, k) | None => None end
    else None
  end.
