(* Rounding clause of the direct P2P property, ACCUMULATION on the actual IEEE binary64 computation:
   remote_one b64 b64_ops srcs t (rhs0 ...) (Flocq operations = the SpecFloat instance that is executed against the C++)
   is, read through B2R, the computation in g64_ops (Num/P2PError.v) as long as no addition overflows; with at most
   2^26 sources and the input ranges of b64_inputs_ok nothing overflows, so MAIN B of Num/P2PError.v applies.
   No axiom is declared here. *)
From Coq Require Import List Reals Lra Psatz Lia Arith ZArith.
From Flocq Require Import Core Relative Plus_error IEEE754.BinarySingleNaN.
From Coq Require Import Floats.SpecFloat.
From Tbfmm Require Import Num.P2PDefs Num.P2PReal Num.P2PSF Float.LocateProofs Num.P2PError.
Import ListNotations.
Local Open Scope R_scope.

(* ---------------------------------------------------------------------------------------------------------------- *)
(* Part 1: addition whose exact result may be zero, subnormal or normal *)

Lemma grnd_small : forall r, Rabs r < bpow radix2 (-1022) -> grnd r = r.
Proof.
  intros r H. unfold grnd. destruct (Rle_dec _ _) as [H1|H1]; [lra | reflexivity].
Qed.

Lemma tr_add_any : forall X Y a b, tr X a -> tr Y b -> Rabs (a + b) < bpow radix2 1023 ->
  tr (Bplus mode_NE X Y) (o_add g64_ops a b).
Proof.
  intros X Y a b TX TY Hlt.
  destruct (Rle_or_lt (bpow radix2 (-1022)) (Rabs (a + b))) as [Hn|Hs].
  - apply tr_add; [exact TX | exact TY | right; split; assumption].
  - destruct TX as [Fx <-]. destruct TY as [Fy <-].
    cbn [g64_ops o_add]. rewrite (grnd_small _ Hs).
    assert (Hf : F64 (B2R X + B2R Y)).
    { apply (FLT_format_plus_small radix2 (-1074) 53); [apply B2R_F64 | apply B2R_F64 |].
      change (53 + -1074)%Z with (-1021)%Z.
      apply Rle_trans with (bpow radix2 (-1022)); [lra | apply bpow_le; lia]. }
    assert (Hr : rnd64 (B2R X + B2R Y) = B2R X + B2R Y)
      by (apply round_generic; [auto with typeclass_instances | exact Hf]).
    generalize (Bplus_correct 53 1024 _ _ mode_NE X Y Fx Fy).
    change (round radix2 (SpecFloat.fexp 53 1024) (round_mode mode_NE)) with rnd64.
    rewrite Hr. rewrite Rlt_bool_true.
    + intros (H1 & H2 & _). split; assumption.
    + apply Rlt_trans with (1 := Hs). apply bpow_lt; lia.
Qed.


(* ---------------------------------------------------------------------------------------------------------------- *)
(* Part 2a: b64_pair_g64 of Num/P2PError.v together with the magnitudes of the g64 results (same range reasoning) *)

Theorem b64_pair_g64_mag : forall s t : part b64, b64_inputs_ok s t ->
  let '(fx, fy, fz, inv) := pair b64 b64_ops s t in
  let '(gx, gy, gz, ginv) := pair R g64_ops (partR_of s) (partR_of t) in
  (tr fx gx /\ tr fy gy /\ tr fz gz /\ tr inv ginv) /\
  zr (-963) 960 gx /\ zr (-963) 960 gy /\ zr (-963) 960 gz /\ pr (-161) 160 ginv.
Proof.
  intros [xs ys zs vs] [xt yt zt vt] Hok. unfold b64_inputs_ok, partR_of in Hok. cbn [p_x p_y p_z p_v] in Hok.
  destruct Hok as ((Fxs & Fys & Fzs & Fvs) & (Fxt & Fyt & Fzt & Fvt) & (HX & HY & HZ) & Hap & Hvs & Hvt).
  unfold apart, d2 in Hap. cbn [p_x p_y p_z] in Hap.
  unfold pair, partR_of. cbn [p_x p_y p_z p_v].
  cbn [b64_ops o_add o_sub o_mul o_div o_sqrt o_one].
  set (dx := o_sub g64_ops (B2R xs) (B2R xt)). set (DX := Bminus mode_NE xs xt).
  set (dy := o_sub g64_ops (B2R ys) (B2R yt)). set (DY := Bminus mode_NE ys yt).
  set (dz := o_sub g64_ops (B2R zs) (B2R zt)). set (DZ := Bminus mode_NE zs zt).
  assert (Tdx : tr DX dx) by (apply tr_sub; [apply tr_in; assumption .. | apply (zr_nz _ _ _ HX); lia]).
  assert (Tdy : tr DY dy) by (apply tr_sub; [apply tr_in; assumption .. | apply (zr_nz _ _ _ HY); lia]).
  assert (Tdz : tr DZ dz) by (apply tr_sub; [apply tr_in; assumption .. | apply (zr_nz _ _ _ HZ); lia]).
  assert (Zdx : zr (-160) 160 dx) by (apply g_sub_zr; [exact HX | lia | lia]).
  assert (Zdy : zr (-160) 160 dy) by (apply g_sub_zr; [exact HY | lia | lia]).
  assert (Zdz : zr (-160) 160 dz) by (apply g_sub_zr; [exact HZ | lia | lia]).
  set (sxx := o_mul g64_ops dx dx). set (SXX := Bmult mode_NE DX DX).
  set (syy := o_mul g64_ops dy dy). set (SYY := Bmult mode_NE DY DY).
  set (szz := o_mul g64_ops dz dz). set (SZZ := Bmult mode_NE DZ DZ).
  assert (Txx : tr SXX sxx)
    by (apply tr_mul; [assumption .. | apply (zr_nz (-320) 320); [apply (zr_mul (-160) 160 (-160) 160); assumption | lia | lia]]).
  assert (Tyy : tr SYY syy)
    by (apply tr_mul; [assumption .. | apply (zr_nz (-320) 320); [apply (zr_mul (-160) 160 (-160) 160); assumption | lia | lia]]).
  assert (Tzz : tr SZZ szz)
    by (apply tr_mul; [assumption .. | apply (zr_nz (-320) 320); [apply (zr_mul (-160) 160 (-160) 160); assumption | lia | lia]]).
  assert (Nxx : nzr (-320) 320 sxx) by (apply (g_sq_nzr (-160) 160); [assumption | lia | lia]).
  assert (Nyy : nzr (-320) 320 syy) by (apply (g_sq_nzr (-160) 160); [assumption | lia | lia]).
  assert (Nzz : nzr (-320) 320 szz) by (apply (g_sq_nzr (-160) 160); [assumption | lia | lia]).
  set (s1 := o_add g64_ops sxx syy). set (S1 := Bplus mode_NE SXX SYY).
  assert (T1 : tr S1 s1)
    by (apply tr_add; [assumption .. | apply (nzr_nz (-320) 321); [apply (nzr_add (-320) 320); assumption | lia | lia]]).
  assert (N1 : nzr (-320) 321 s1) by (apply (g_add_nzr (-320) 320); [assumption | assumption | lia | lia]).
  set (s2 := o_add g64_ops s1 szz). set (S2 := Bplus mode_NE S1 SZZ).
  assert (Nzz' : nzr (-320) 321 szz) by (apply (nzr_weaken (-320) 320); [assumption | lia]).
  assert (T2 : tr S2 s2)
    by (apply tr_add; [assumption .. | apply (nzr_nz (-320) 322); [apply (nzr_add (-320) 321); assumption | lia | lia]]).
  assert (N2 : nzr (-320) 322 s2) by (apply (g_add_nzr (-320) 321); [assumption | assumption | lia | lia]).
  assert (Hs2 : s2 <> 0).
  { intro E0. unfold s2 in E0. apply g_add_eq0 in E0.
    destruct N1 as [P1 _]. destruct Nzz as [P3 _].
    assert (E1 : s1 = 0) by lra. assert (E3 : szz = 0) by lra.
    unfold s1 in E1. apply g_add_eq0 in E1.
    destruct Nxx as [Pxx _]. destruct Nyy as [Pyy _].
    assert (Exx : sxx = 0) by lra. assert (Eyy : syy = 0) by lra.
    unfold sxx in Exx. apply g_sq_eq0 in Exx. unfold dx in Exx. apply g_sub_eq0 in Exx.
    unfold syy in Eyy. apply g_sq_eq0 in Eyy. unfold dy in Eyy. apply g_sub_eq0 in Eyy.
    unfold szz in E3. apply g_sq_eq0 in E3. unfold dz in E3. apply g_sub_eq0 in E3.
    rewrite Exx, Eyy, E3 in Hap. simpl in Hap. lra. }
  assert (P2 : pr (-320) 322 s2) by (apply nzr_pr; assumption).
  set (isd0 := o_div g64_ops (o_one g64_ops) s2). set (ISD0 := Bdiv mode_NE b64_one S2).
  assert (T0 : tr ISD0 isd0).
  { apply tr_div; [apply tr_one | exact T2 | exact Hs2 |].
    apply (pr_nz (-322) 320); [apply (pr_inv (-320) 322 s2 P2) | lia | lia]. }
  assert (P0 : pr (-322) 320 isd0) by (apply (g_inv_pr (-320) 322); [exact P2 | lia | lia]).
  set (inv := o_sqrt g64_ops isd0). set (INV := Bsqrt mode_NE ISD0).
  assert (Ti : tr INV inv) by (apply tr_sqrt; [exact T0 | left; apply (pr_pos _ _ _ P0)]).
  assert (Pi : pr (-161) 160 inv) by (apply (g_sqrt_pr (-161) 160); [exact P0 | lia | lia]).
  set (isd1 := o_mul g64_ops isd0 inv). set (ISD1 := Bmult mode_NE ISD0 INV).
  assert (TI1 : tr ISD1 isd1).
  { apply tr_mul; [assumption .. |].
    apply (pr_nz (-483) 480); [apply (pr_mul (-322) 320 (-161) 160); assumption | lia | lia]. }
  assert (PI1 : pr (-483) 480 isd1) by (apply (g_mul_pr (-322) 320 (-161) 160); [assumption | assumption | lia | lia]).
  set (vv := o_mul g64_ops (B2R vt) (B2R vs)). set (VV := Bmult mode_NE vt vs).
  assert (Tv : tr VV vv).
  { apply tr_mul; [apply tr_in; assumption .. |].
    apply (zr_nz (-320) 320); [apply (zr_mul (-160) 160 (-160) 160); assumption | lia | lia]. }
  assert (Zv : zr (-320) 320 vv) by (apply (g_mul_zr (-160) 160 (-160) 160); [assumption | assumption | lia | lia]).
  set (isd2 := o_mul g64_ops isd1 vv). set (ISD2 := Bmult mode_NE ISD1 VV).
  assert (ZI1 : zr (-483) 480 isd1) by (apply pr_zr; exact PI1).
  assert (TI2 : tr ISD2 isd2).
  { apply tr_mul; [assumption .. |].
    apply (zr_nz (-803) 800); [apply (zr_mul (-483) 480 (-320) 320); assumption | lia | lia]. }
  assert (ZI2 : zr (-803) 800 isd2) by (apply (g_mul_zr (-483) 480 (-320) 320); [assumption | assumption | lia | lia]).
  split; [split; [|split; [|split]]; [| | | exact Ti] | split; [|split; [|split]]; [| | | exact Pi]].
  1-3: apply tr_mul; [assumption .. |];
       apply (zr_nz (-963) 960); [apply (zr_mul (-160) 160 (-803) 800); assumption | lia | lia].
  all: apply (g_mul_zr (-160) 160 (-803) 800); [assumption | assumption | lia | lia].
Qed.

Lemma zr_abs_le : forall lo hi r, zr lo hi r -> Rabs r <= bpow radix2 hi.
Proof.
  intros lo hi r [Z|[_ H]]; [|exact H]. rewrite Z, Rabs_R0. apply bpow_ge_0.
Qed.

(* ---------------------------------------------------------------------------------------------------------------- *)
(* Part 2b: the terms added to the four accumulators *)

Definition bterm_x (t s : part b64) : b64 := let '(dx, _, _, _) := pair b64 b64_ops s t in dx.
Definition bterm_y (t s : part b64) : b64 := let '(_, dy, _, _) := pair b64 b64_ops s t in dy.
Definition bterm_z (t s : part b64) : b64 := let '(_, _, dz, _) := pair b64 b64_ops s t in dz.
Definition bterm_p (t s : part b64) : b64 :=
  let '(_, _, _, inv) := pair b64 b64_ops s t in Bmult mode_NE inv (p_v _ s).

Notation Mterm := (bpow radix2 960).

(* a term: the IEEE value is the g64 value, and the g64 value is at most 2^960 in magnitude *)
Definition term_ok (B : b64) (g : R) : Prop := tr B g /\ Rabs g <= Mterm.

Lemma b64_terms_ok : forall s t : part b64, b64_inputs_ok s t ->
  term_ok (bterm_x t s) (term_x g64_ops (partR_of t) (partR_of s)) /\
  term_ok (bterm_y t s) (term_y g64_ops (partR_of t) (partR_of s)) /\
  term_ok (bterm_z t s) (term_z g64_ops (partR_of t) (partR_of s)) /\
  term_ok (bterm_p t s) (term_p g64_ops (partR_of t) (partR_of s)).
Proof.
  intros s t Hok. pose proof (b64_pair_g64_mag s t Hok) as H.
  unfold bterm_x, bterm_y, bterm_z, bterm_p, term_x, term_y, term_z, term_p.
  destruct (pair b64 b64_ops s t) as [[[fx fy] fz] inv].
  destruct (pair R g64_ops (partR_of s) (partR_of t)) as [[[gx gy] gz] ginv].
  destruct H as ((Tx & Ty & Tz & Ti) & Zx & Zy & Zz & Pi).
  destruct Hok as ((_ & _ & _ & Fvs) & _ & _ & _ & Hvs & _).
  unfold term_ok.
  split; [split; [exact Tx | apply (zr_abs_le (-963)); exact Zx]|].
  split; [split; [exact Ty | apply (zr_abs_le (-963)); exact Zy]|].
  split; [split; [exact Tz | apply (zr_abs_le (-963)); exact Zz]|].
  split.
  - apply tr_mul; [exact Ti | apply tr_in; exact Fvs |]. cbn [partR_of p_v].
    apply (zr_nz (-321) 320); [apply (zr_mul (-161) 160 (-160) 160); [apply pr_zr; exact Pi | exact Hvs] | lia | lia].
  - cbn [partR_of p_v].
    apply Rle_trans with (bpow radix2 320); [|apply bpow_le; lia].
    apply (zr_abs_le (-321)).
    apply (g_mul_zr (-161) 160 (-160) 160); [apply pr_zr; exact Pi | exact Hvs | lia | lia].
Qed.

(* ---------------------------------------------------------------------------------------------------------------- *)
(* Part 2c: numeric facts: 2^26 terms of magnitude 2^960, accumulated with rounding, stay below 2^988 *)

Lemma u64_val : u64 = / 9007199254740992.
Proof. simpl. reflexivity. Qed.

Lemma bpow28_val : bpow radix2 28 = 268435456.
Proof. simpl. reflexivity. Qed.

Lemma INR_le_2_26 : forall k : nat, (Z.of_nat k <= 2 ^ 26)%Z -> 0 <= INR k <= 67108864.
Proof.
  intros k H; split; [apply pos_INR|]. rewrite INR_IZR_INZ. apply IZR_le in H. exact H.
Qed.

Lemma Mterm_pos : 0 < Mterm.
Proof. apply bpow_gt_0. Qed.

Lemma below_overflow : forall k x, 0 <= k <= 67108864 -> Rabs x <= (2 * k + 1) * Mterm -> Rabs x < bpow radix2 1023.
Proof.
  intros k x Hk Hx. apply Rle_lt_trans with (1 := Hx).
  apply Rle_lt_trans with (bpow radix2 28 * Mterm).
  - apply Rmult_le_compat_r; [apply bpow_ge_0|]. rewrite bpow28_val. lra.
  - rewrite <- bpow_plus. apply bpow_lt. lia.
Qed.

Lemma grnd_acc_bound : forall k a b, 0 <= k <= 67108864 ->
  Rabs a <= k * (2 * Mterm) -> Rabs b <= Mterm -> Rabs (grnd (a + b)) <= (k + 1) * (2 * Mterm).
Proof.
  intros k a b Hk Ha Hb. pose proof Mterm_pos as HM.
  destruct (grnd_model (a + b)) as [e [He ->]]. rewrite Rabs_mult.
  assert (Hs : Rabs (a + b) <= (2 * k + 1) * Mterm) by (apply Rle_trans with (1 := Rabs_triang _ _); lra).
  assert (H1 : Rabs (1 + e) <= 1 + u64) by (apply Rabs_le_both in He; apply Rabs_le; lra).
  pose proof u64_range as Hu.
  apply Rle_trans with ((2 * k + 1) * Mterm * (1 + u64)).
  - apply Rmult_le_compat; try apply Rabs_pos; assumption.
  - assert (Hku : (2 * k + 1) * u64 <= 1).
    { rewrite u64_val. apply Rle_trans with (134217729 * / 9007199254740992); [|lra].
      apply Rmult_le_compat_r; lra. }
    nra.
Qed.

(* ---------------------------------------------------------------------------------------------------------------- *)
(* Part 2d: one accumulator *)

Definition baddterm (term : part b64 -> b64) (x : b64) (s : part b64) : b64 := Bplus mode_NE x (term s).

Lemma fold_tr : forall (termB : part b64 -> b64) (termG : partR -> R) (srcs : list (part b64)),
  Forall (fun s => term_ok (termB s) (termG (partR_of s))) srcs ->
  forall (k : nat) (A : b64) (G : R), tr A G -> Rabs G <= INR k * (2 * Mterm) ->
  (Z.of_nat (k + length srcs) <= 2 ^ 26)%Z ->
  tr (fold_left (baddterm termB) srcs A) (fold_left (addterm g64_ops termG) (map partR_of srcs) G) /\
  Rabs (fold_left (addterm g64_ops termG) (map partR_of srcs) G) <= INR (k + length srcs) * (2 * Mterm).
Proof.
  intros termB termG srcs HF; induction HF as [|s l Hs HF IH]; intros k A G HT HG Hk.
  - cbn [fold_left map length]. rewrite Nat.add_0_r. split; assumption.
  - cbn [fold_left map length] in *. rewrite Nat.add_succ_r in *.
    destruct Hs as [Ts Ms].
    assert (Hk' : 0 <= INR k <= 67108864) by (apply INR_le_2_26; lia).
    apply (IH (S k)).
    + unfold baddterm, addterm. apply tr_add_any; [exact HT | exact Ts |].
      apply (below_overflow (INR k)); [exact Hk'|].
      apply Rle_trans with (1 := Rabs_triang _ _). lra.
    + rewrite S_INR. unfold addterm. cbn [g64_ops o_add]. apply grnd_acc_bound; assumption.
    + exact Hk.
Qed.

Lemma tr_zero : tr (B754_zero false) 0.
Proof. split; reflexivity. Qed.

Lemma accum_tr : forall (termB : part b64 -> b64) (termG : partR -> R) (srcs : list (part b64)),
  Forall (fun s => term_ok (termB s) (termG (partR_of s))) srcs ->
  (Z.of_nat (length srcs) <= 2 ^ 26)%Z ->
  tr (Bplus mode_NE (B754_zero false) (fold_left (baddterm termB) srcs (B754_zero false)))
     (o_add g64_ops (o_zero g64_ops) (fold_left (addterm g64_ops termG) (map partR_of srcs) (o_zero g64_ops))).
Proof.
  intros termB termG srcs HF Hlen. cbn [g64_ops o_zero].
  destruct (fold_tr termB termG srcs HF 0 (B754_zero false) 0 tr_zero) as [HT HB].
  - rewrite Rabs_R0. simpl. lra.
  - exact Hlen.
  - cbn [Nat.add] in HB.
    pose proof (INR_le_2_26 _ Hlen) as Hn. pose proof Mterm_pos as HM.
    change (grnd (0 + fold_left (addterm g64_ops termG) (map partR_of srcs) 0))
      with (o_add g64_ops 0 (fold_left (addterm g64_ops termG) (map partR_of srcs) 0)).
    apply tr_add_any; [exact tr_zero | exact HT |].
    rewrite Rplus_0_l. apply (below_overflow (INR (length srcs))); [exact Hn|]. lra.
Qed.

(* ---------------------------------------------------------------------------------------------------------------- *)
(* Part 2e: the transfer for remote_one *)

Lemma b64_remote_proj : forall (srcs : list (part b64)) (t : part b64),
  let r := remote_one b64 b64_ops srcs t (rhs0 b64 b64_ops) in
  f_x _ r = Bplus mode_NE (B754_zero false) (fold_left (baddterm (bterm_x t)) srcs (B754_zero false)) /\
  f_y _ r = Bplus mode_NE (B754_zero false) (fold_left (baddterm (bterm_y t)) srcs (B754_zero false)) /\
  f_z _ r = Bplus mode_NE (B754_zero false) (fold_left (baddterm (bterm_z t)) srcs (B754_zero false)) /\
  f_p _ r = Bplus mode_NE (B754_zero false) (fold_left (baddterm (bterm_p t)) srcs (B754_zero false)).
Proof.
  intros srcs t. unfold remote_one. cbn [f_x f_y f_z f_p rhs0].
  repeat split; apply (f_equal (Bplus mode_NE (B754_zero false))).
  - apply (fold_left_proj _ _ _ _ (baddterm (bterm_x t)) (f_x b64)).
    intros a s; unfold baddterm, bterm_x; destruct (pair b64 b64_ops s t) as [[[? ?] ?] ?]; reflexivity.
  - apply (fold_left_proj _ _ _ _ (baddterm (bterm_y t)) (f_y b64)).
    intros a s; unfold baddterm, bterm_y; destruct (pair b64 b64_ops s t) as [[[? ?] ?] ?]; reflexivity.
  - apply (fold_left_proj _ _ _ _ (baddterm (bterm_z t)) (f_z b64)).
    intros a s; unfold baddterm, bterm_z; destruct (pair b64 b64_ops s t) as [[[? ?] ?] ?]; reflexivity.
  - apply (fold_left_proj _ _ _ _ (baddterm (bterm_p t)) (f_p b64)).
    intros a s; unfold baddterm, bterm_p; destruct (pair b64 b64_ops s t) as [[[? ?] ?] ?]; reflexivity.
Qed.

Theorem b64_remote_g64 : forall (srcs : list (part b64)) (t : part b64),
  Forall (fun s => b64_inputs_ok s t) srcs -> (Z.of_nat (length srcs) <= 2 ^ 26)%Z ->
  let r := remote_one b64 b64_ops srcs t (rhs0 b64 b64_ops) in
  let g := remote_one R g64_ops (map partR_of srcs) (partR_of t) (rhs0 R g64_ops) in
  tr (f_x _ r) (f_x _ g) /\ tr (f_y _ r) (f_y _ g) /\ tr (f_z _ r) (f_z _ g) /\ tr (f_p _ r) (f_p _ g).
Proof.
  intros srcs t HF Hlen r g.
  destruct (b64_remote_proj srcs t) as (Bx & By & Bz & Bp). fold r in Bx, By, Bz, Bp.
  destruct (remote_one_proj g64_ops (map partR_of srcs) (partR_of t)) as (Gx & Gy & Gz & Gp).
  fold g in Gx, Gy, Gz, Gp.
  rewrite Bx, By, Bz, Bp, Gx, Gy, Gz, Gp.
  split; [|split; [|split]]; (apply accum_tr; [|exact Hlen]); (eapply Forall_impl; [|exact HF]); intros s Hs;
    apply (b64_terms_ok s t Hs).
Qed.

(* ---------------------------------------------------------------------------------------------------------------- *)
(* Part 3: MAIN B on the actual IEEE binary64 computation *)

Lemma inputs_apart : forall (srcs : list (part b64)) (t : part b64),
  Forall (fun s => b64_inputs_ok s t) srcs -> Forall (fun s => apart s (partR_of t)) (map partR_of srcs).
Proof.
  intros srcs t HF. apply Forall_forall. intros sR Hin. apply in_map_iff in Hin. destruct Hin as [s [<- Hs]].
  rewrite Forall_forall in HF. destruct (HF s Hs) as (_ & _ & _ & Hap & _). exact Hap.
Qed.

Lemma side_cond : forall n, 0 <= n <= 67108864 -> (n + 16) * (n + 17) * u64 <= 1 /\ (n + 6) * (n + 7) * u64 <= 1.
Proof.
  intros n Hn. rewrite u64_val.
  assert (H1 : (n + 16) * (n + 17) <= 67108880 * 67108881) by (apply Rmult_le_compat; lra).
  assert (H2 : (n + 6) * (n + 7) <= (n + 16) * (n + 17)) by (apply Rmult_le_compat; lra).
  split; lra.
Qed.

Theorem b64_remote_error : forall (srcs : list (part b64)) (t : part b64),
  Forall (fun s => b64_inputs_ok s t) srcs -> (Z.of_nat (length srcs) <= 2 ^ 26)%Z ->
  let tR := partR_of t in let sR := map partR_of srcs in let n := INR (length srcs) in
  let r := remote_one b64 b64_ops srcs t (rhs0 b64 b64_ops) in
  (is_finite (f_x _ r) = true /\ is_finite (f_y _ r) = true /\ is_finite (f_z _ r) = true /\
   is_finite (f_p _ r) = true) /\
  Rabs (B2R (f_p _ r) - Rsum (map (fun s => p_v _ s / rdist s tR) sR))
    <= ((n + 7) * bpow radix2 (-53)) * Rsum (map (fun s => Rabs (p_v _ s) / rdist s tR) sR) /\
  Rabs (B2R (f_x _ r) - Rsum (map (fun s => f_x _ (contrib s tR)) sR))
    <= ((n + 17) * bpow radix2 (-53)) * Rsum (map (fun s => Rabs (f_x _ (contrib s tR))) sR) /\
  Rabs (B2R (f_y _ r) - Rsum (map (fun s => f_y _ (contrib s tR)) sR))
    <= ((n + 17) * bpow radix2 (-53)) * Rsum (map (fun s => Rabs (f_y _ (contrib s tR))) sR) /\
  Rabs (B2R (f_z _ r) - Rsum (map (fun s => f_z _ (contrib s tR)) sR))
    <= ((n + 17) * bpow radix2 (-53)) * Rsum (map (fun s => Rabs (f_z _ (contrib s tR))) sR).
Proof.
  intros srcs t HF Hlen tR sR n r.
  destruct (b64_remote_g64 srcs t HF Hlen) as ((Fx & Ex) & (Fy & Ey) & (Fz & Ez) & (Fp & Ep)).
  fold r in Fx, Ex, Fy, Ey, Fz, Ez, Fp, Ep. fold tR sR in Ex, Ey, Ez, Ep.
  pose proof (inputs_apart srcs t HF) as Hap. fold tR sR in Hap.
  assert (Hn : INR (length sR) = n) by (unfold sR, n; rewrite map_length; reflexivity).
  destruct (side_cond n (INR_le_2_26 _ Hlen)) as [Hc16 Hc6].
  pose proof (remote_potential_error u64 u64_range g64_ops g64_std_model sR tR Hap) as HP.
  pose proof (remote_force_error u64 u64_range g64_ops g64_std_model sR tR Hap) as HFo.
  cbv zeta in HP, HFo. rewrite Hn in HP, HFo.
  specialize (HP Hc6). specialize (HFo Hc16).
  rewrite Ex, Ey, Ez, Ep.
  split; [repeat split; assumption|]. split; [exact HP | exact HFo].
Qed.

(* ---------------------------------------------------------------------------------------------------------------- *)
(* Part 4: the SpecFloat computation of remote_one IS the Flocq computation, for all inputs *)

Definition sf_rhs (r : rhs b64) : rhs spec_float :=
  {| f_x := B2SF (f_x _ r); f_y := B2SF (f_y _ r); f_z := B2SF (f_z _ r); f_p := B2SF (f_p _ r) |}.

Definition bstep (t : part b64) (a : rhs b64) (s : part b64) : rhs b64 :=
  let '(dx, dy, dz, inv) := pair b64 b64_ops s t in
  {| f_x := o_add b64_ops (f_x _ a) dx; f_y := o_add b64_ops (f_y _ a) dy; f_z := o_add b64_ops (f_z _ a) dz;
     f_p := o_add b64_ops (f_p _ a) (o_mul b64_ops inv (p_v _ s)) |}.

Definition sstep (t : part spec_float) (a : rhs spec_float) (s : part spec_float) : rhs spec_float :=
  let '(dx, dy, dz, inv) := pair spec_float (sf_ops 53 1024) s t in
  {| f_x := o_add (sf_ops 53 1024) (f_x _ a) dx; f_y := o_add (sf_ops 53 1024) (f_y _ a) dy;
     f_z := o_add (sf_ops 53 1024) (f_z _ a) dz;
     f_p := o_add (sf_ops 53 1024) (f_p _ a) (o_mul (sf_ops 53 1024) inv (p_v _ s)) |}.

Lemma sf_step_bridge : forall (t : part b64) (a : rhs b64) (s : part b64),
  sstep (sf_part t) (sf_rhs a) (sf_part s) = sf_rhs (bstep t a s).
Proof.
  intros t a s. unfold sstep, bstep. rewrite sf_pair_bridge.
  destruct (pair b64 b64_ops s t) as [[[dx dy] dz] inv].
  unfold sf_rhs. cbn [f_x f_y f_z f_p sf_part p_v sf_ops b64_ops o_add o_mul].
  rewrite <- sf_mult_bridge, <- !sf_plus_bridge. reflexivity.
Qed.

Lemma sf_fold_bridge : forall (t : part b64) (srcs : list (part b64)) (a : rhs b64),
  fold_left (sstep (sf_part t)) (map sf_part srcs) (sf_rhs a) = sf_rhs (fold_left (bstep t) srcs a).
Proof.
  intros t srcs; induction srcs as [|s l IH]; intros a; cbn [map fold_left]; [reflexivity|].
  rewrite sf_step_bridge. apply IH.
Qed.

Theorem sf_remote_bridge : forall (srcs : list (part b64)) (t : part b64),
  let rs := remote_one spec_float (sf_ops 53 1024) (map sf_part srcs) (sf_part t) (rhs0 _ (sf_ops 53 1024)) in
  let r := remote_one b64 b64_ops srcs t (rhs0 b64 b64_ops) in
  f_x _ rs = B2SF (f_x _ r) /\ f_y _ rs = B2SF (f_y _ r) /\ f_z _ rs = B2SF (f_z _ r) /\ f_p _ rs = B2SF (f_p _ r).
Proof.
  intros srcs t.
  change (remote_one spec_float (sf_ops 53 1024) (map sf_part srcs) (sf_part t) (rhs0 _ (sf_ops 53 1024)))
    with (let acc := fold_left (sstep (sf_part t)) (map sf_part srcs) (sf_rhs (rhs0 b64 b64_ops)) in
          {| f_x := SFadd 53 1024 (S754_zero false) (f_x _ acc); f_y := SFadd 53 1024 (S754_zero false) (f_y _ acc);
             f_z := SFadd 53 1024 (S754_zero false) (f_z _ acc);
             f_p := SFadd 53 1024 (S754_zero false) (f_p _ acc) |}).
  change (remote_one b64 b64_ops srcs t (rhs0 b64 b64_ops))
    with (let acc := fold_left (bstep t) srcs (rhs0 b64 b64_ops) in
          {| f_x := Bplus mode_NE (B754_zero false) (f_x _ acc); f_y := Bplus mode_NE (B754_zero false) (f_y _ acc);
             f_z := Bplus mode_NE (B754_zero false) (f_z _ acc);
             f_p := Bplus mode_NE (B754_zero false) (f_p _ acc) |}).
  rewrite sf_fold_bridge. cbv zeta.
  set (acc := fold_left (bstep t) srcs (rhs0 b64 b64_ops)).
  cbn [f_x f_y f_z f_p sf_rhs].
  rewrite !sf_plus_bridge. repeat split; reflexivity.
Qed.

(* ---------------------------------------------------------------------------------------------------------------- *)
(* Part 5: MAIN B for the SpecFloat instance sf_ops 53 1024 that is executed bit for bit against the C++ *)

Theorem sf_remote_error : forall (srcs : list (part b64)) (t : part b64),
  Forall (fun s => b64_inputs_ok s t) srcs -> (Z.of_nat (length srcs) <= 2 ^ 26)%Z ->
  let tR := partR_of t in let sR := map partR_of srcs in let n := INR (length srcs) in
  let r := remote_one spec_float (sf_ops 53 1024) (map sf_part srcs) (sf_part t) (rhs0 _ (sf_ops 53 1024)) in
  (is_finite_SF (f_x _ r) = true /\ is_finite_SF (f_y _ r) = true /\ is_finite_SF (f_z _ r) = true /\
   is_finite_SF (f_p _ r) = true) /\
  Rabs (SF2R radix2 (f_p _ r) - Rsum (map (fun s => p_v _ s / rdist s tR) sR))
    <= ((n + 7) * bpow radix2 (-53)) * Rsum (map (fun s => Rabs (p_v _ s) / rdist s tR) sR) /\
  Rabs (SF2R radix2 (f_x _ r) - Rsum (map (fun s => f_x _ (contrib s tR)) sR))
    <= ((n + 17) * bpow radix2 (-53)) * Rsum (map (fun s => Rabs (f_x _ (contrib s tR))) sR) /\
  Rabs (SF2R radix2 (f_y _ r) - Rsum (map (fun s => f_y _ (contrib s tR)) sR))
    <= ((n + 17) * bpow radix2 (-53)) * Rsum (map (fun s => Rabs (f_y _ (contrib s tR))) sR) /\
  Rabs (SF2R radix2 (f_z _ r) - Rsum (map (fun s => f_z _ (contrib s tR)) sR))
    <= ((n + 17) * bpow radix2 (-53)) * Rsum (map (fun s => Rabs (f_z _ (contrib s tR))) sR).
Proof.
  intros srcs t HF Hlen tR sR n r.
  destruct (sf_remote_bridge srcs t) as (Bx & By & Bz & Bp). fold r in Bx, By, Bz, Bp.
  rewrite Bx, By, Bz, Bp. rewrite !is_finite_SF_B2SF, !SF2R_B2SF.
  exact (b64_remote_error srcs t HF Hlen).
Qed.

(* ---------------------------------------------------------------------------------------------------------------- *)
(* Part 6: the hypotheses are satisfiable: unit charges at (1,0,0) and (0,2,0), target with unit charge at the origin *)

Definition b64_zero : b64 := B754_zero false.
Definition b64_two : b64 := @B754_finite 53 1024 false 4503599627370496 (-51) eq_refl.

Lemma B2R_one : B2R b64_one = 1.
Proof. exact (proj2 tr_one). Qed.

Lemma B2R_two : B2R b64_two = 2.
Proof.
  unfold b64_two, B2R, F2R; cbn [Fnum Fexp cond_Zopp].
  change (IZR (Z.pos 4503599627370496)) with (bpow radix2 52).
  rewrite <- bpow_plus. reflexivity.
Qed.

Lemma B2R_zero : B2R b64_zero = 0.
Proof. reflexivity. Qed.

Lemma zr_one : zr (-160) 160 1.
Proof.
  right. rewrite Rabs_R1. change 1 with (bpow radix2 0). split; apply bpow_le; lia.
Qed.

Lemma zr_two : zr (-160) 160 2.
Proof.
  right. rewrite (Rabs_pos_eq 2) by lra. change 2 with (bpow radix2 1). split; apply bpow_le; lia.
Qed.

Lemma zr_zero : zr (-160) 160 0.
Proof. left; reflexivity. Qed.

Definition ex_s1 : part b64 := {| p_x := b64_one; p_y := b64_zero; p_z := b64_zero; p_v := b64_one |}.
Definition ex_s2 : part b64 := {| p_x := b64_zero; p_y := b64_two; p_z := b64_zero; p_v := b64_one |}.
Definition ex_t : part b64 := {| p_x := b64_zero; p_y := b64_zero; p_z := b64_zero; p_v := b64_one |}.

Lemma ex_ok1 : b64_inputs_ok ex_s1 ex_t.
Proof.
  unfold b64_inputs_ok, apart, d2, partR_of, ex_s1, ex_t. cbn [p_x p_y p_z p_v].
  rewrite B2R_one, B2R_zero. replace (1 - 0) with 1 by ring. replace (0 - 0) with 0 by ring.
  split; [repeat split|]. split; [repeat split|].
  split; [split; [exact zr_one | split; exact zr_zero]|].
  split; [lra|]. split; exact zr_one.
Qed.

Lemma ex_ok2 : b64_inputs_ok ex_s2 ex_t.
Proof.
  unfold b64_inputs_ok, apart, d2, partR_of, ex_s2, ex_t. cbn [p_x p_y p_z p_v].
  rewrite B2R_one, B2R_two, B2R_zero. replace (2 - 0) with 2 by ring. replace (0 - 0) with 0 by ring.
  split; [repeat split|]. split; [repeat split|].
  split; [split; [exact zr_zero | split; [exact zr_two | exact zr_zero]]|].
  split; [lra|]. split; exact zr_one.
Qed.

Lemma ex_inputs : Forall (fun s => b64_inputs_ok s ex_t) [ex_s1; ex_s2].
Proof. constructor; [exact ex_ok1 | constructor; [exact ex_ok2 | constructor]]. Qed.

Lemma ex_len : (Z.of_nat (length [ex_s1; ex_s2]) <= 2 ^ 26)%Z.
Proof. cbn [length]. lia. Qed.

(* the theorems at this instance (n = 2: potential within 9 * 2^-53, forces within 19 * 2^-53, relative to the sums of
   absolute values) *)
Definition ex_b64_bound := b64_remote_error [ex_s1; ex_s2] ex_t ex_inputs ex_len.
Definition ex_sf_bound := sf_remote_error [ex_s1; ex_s2] ex_t ex_inputs ex_len.

(* the value the executable SpecFloat model computes on it: force (1, 1/4, 0), potential 1/1 + 1/2 = 3/2 *)
Example ex_value :
  remote_one spec_float (sf_ops 53 1024) (map sf_part [ex_s1; ex_s2]) (sf_part ex_t) (rhs0 _ (sf_ops 53 1024)) =
  {| f_x := S754_finite false 4503599627370496 (-52); f_y := S754_finite false 4503599627370496 (-54);
     f_z := S754_zero false; f_p := S754_finite false 6755399441055744 (-52) |}.
Proof. vm_compute. reflexivity. Qed.

Print Assumptions tr_add_any.
Print Assumptions b64_remote_g64.
Print Assumptions b64_remote_error.
Print Assumptions sf_remote_bridge.
Print Assumptions sf_remote_error.
