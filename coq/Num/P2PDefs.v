(* Executable model of the scalar direct P2P routines of src/kernels/P2P/FP2PR.hpp
   (FullMutualScalar 90-155, GenericInnerScalar 275-314, GenericFullRemoteScalar 427-482),
   written ONCE over an abstract arithmetic, in the C++ operation order.  Instances: IEEE binary64 / binary32 through
   Coq's SpecFloat (Num/P2PSF.v, executed bit-exactly against the C++) and the real numbers (Num/P2PReal.v, laws). *)
From Coq Require Import List ZArith.
Import ListNotations.

Record ops (T : Type) := {
  o_add : T -> T -> T; o_sub : T -> T -> T; o_mul : T -> T -> T; o_div : T -> T -> T;
  o_sqrt : T -> T; o_zero : T; o_one : T }.
Arguments o_add {T}. Arguments o_sub {T}. Arguments o_mul {T}. Arguments o_div {T}.
Arguments o_sqrt {T}. Arguments o_zero {T}. Arguments o_one {T}.

Section P2P.
Variable T : Type.
Variable ar : ops T.
Notation "a + b" := (o_add ar a b). Notation "a - b" := (o_sub ar a b).
Notation "a * b" := (o_mul ar a b). Notation "a / b" := (o_div ar a b).

Record part := { p_x : T; p_y : T; p_z : T; p_v : T }.     (* position and physical value *)
Record rhs := { f_x : T; f_y : T; f_z : T; f_p : T }.      (* force and potential accumulators *)

Definition rhs0 : rhs := {| f_x := o_zero ar; f_y := o_zero ar; f_z := o_zero ar; f_p := o_zero ar |}.

(* the common pair computation: (dx', dy', dz', inv_distance) for source s seen from target t, charges product tv*sv *)
Definition pair (s t : part) : T * T * T * T :=
  let dx := p_x s - p_x t in
  let dy := p_y s - p_y t in
  let dz := p_z s - p_z t in
  let isd0 := o_one ar / ((dx * dx + dy * dy) + dz * dz) in
  let inv_distance := o_sqrt ar isd0 in
  let isd1 := isd0 * inv_distance in
  let isd2 := isd1 * (p_v t * p_v s) in
  (dx * isd2, dy * isd2, dz * isd2, inv_distance).

(* GenericFullRemoteScalar: local accumulators per target, added to the target's rhs at the end *)
Definition remote_one (srcs : list part) (t : part) (r : rhs) : rhs :=
  let acc := fold_left (fun a s =>
      let '(dx, dy, dz, inv) := pair s t in
      {| f_x := f_x a + dx; f_y := f_y a + dy; f_z := f_z a + dz; f_p := f_p a + inv * p_v s |}) srcs rhs0 in
  {| f_x := f_x r + f_x acc; f_y := f_y r + f_y acc; f_z := f_z r + f_z acc; f_p := f_p r + f_p acc |}.

Definition full_remote (srcs : list part) (tgts : list (part * rhs)) : list rhs :=
  map (fun tr => remote_one srcs (fst tr) (snd tr)) tgts.

(* FullMutualScalar: as remote for the targets; every source's rhs is updated in place inside the inner loop *)
Fixpoint mutual_inner (t : part) (srcs : list (part * rhs)) (acc : rhs) : list (part * rhs) * rhs :=
  match srcs with
  | [] => ([], acc)
  | (s, sr) :: rest =>
      let '(dx, dy, dz, inv) := pair s t in
      let acc' := {| f_x := f_x acc + dx; f_y := f_y acc + dy; f_z := f_z acc + dz; f_p := f_p acc + inv * p_v s |} in
      let sr' := {| f_x := f_x sr - dx; f_y := f_y sr - dy; f_z := f_z sr - dz; f_p := f_p sr + inv * p_v t |} in
      let '(rest', accf) := mutual_inner t rest acc' in
      ((s, sr') :: rest', accf)
  end.

Fixpoint full_mutual (srcs : list (part * rhs)) (tgts : list (part * rhs)) : list (part * rhs) * list rhs :=
  match tgts with
  | [] => (srcs, [])
  | (t, r) :: rest =>
      let '(srcs', acc) := mutual_inner t srcs rhs0 in
      let r' := {| f_x := f_x r + f_x acc; f_y := f_y r + f_y acc; f_z := f_z r + f_z acc; f_p := f_p r + f_p acc |} in
      let '(srcsf, rs) := full_mutual srcs' rest in
      (srcsf, r' :: rs)
  end.

(* GenericInnerScalar: for i < j, both sides updated in place *)
Fixpoint inner_row (ti : part) (ri : rhs) (later : list (part * rhs)) : rhs * list (part * rhs) :=
  match later with
  | [] => (ri, [])
  | (tj, rj) :: rest =>
      let '(dx, dy, dz, inv) := pair tj ti in
      let ri' := {| f_x := f_x ri + dx; f_y := f_y ri + dy; f_z := f_z ri + dz; f_p := f_p ri + inv * p_v tj |} in
      let rj' := {| f_x := f_x rj - dx; f_y := f_y rj - dy; f_z := f_z rj - dz; f_p := f_p rj + inv * p_v ti |} in
      let '(rif, rest') := inner_row ti ri' rest in
      (rif, (tj, rj') :: rest')
  end.

(* one unit of fuel per outer iteration (fuel = number of particles) *)
Fixpoint inner_loop (fuel : nat) (ps : list (part * rhs)) : list rhs :=
  match fuel with
  | O => []
  | S f =>
      match ps with
      | [] => []
      | (ti, ri) :: later =>
          let '(rif, later') := inner_row ti ri later in
          rif :: inner_loop f later'
      end
  end.
Definition inner (ps : list (part * rhs)) : list rhs := inner_loop (length ps) ps.

End P2P.
