(* Rounding clause of the direct P2P property for IEEE BINARY32 (prec 24, emax 128, u = 2^-24, normal range
   [2^-126, 2^127)): the port of the binary64-specific part of Num/P2PError.v (parts 4 and 5).
   The generic standard-model calculus (Section Calc of Num/P2PError.v: pair_potential_error, pair_force_error),
   the magnitude calculus zr / nzr / pr and the generic bridges are imported, not repeated.
     rnd32_model, b32_*_model     : IEEE binary32 operations round with relative error <= 2^-24 in the normal range
     grnd32, g32_ops              : real arithmetic that rounds to binary32 in the normal range; std_model 2^-24
     sf32_pair_bridge             : the SpecFloat instance sf_ops 24 128 (run bit for bit against the C++) IS the Flocq one
     b32_pair_g32                 : under b32_inputs_ok the Flocq evaluation of `pair` is the g32_ops evaluation
     b32_pair_error, sf32_pair_error : MAIN A for the actual binary32 computation (5u potential kernel, 16u forces)
   No axiom is declared here. *)
From Coq Require Import List Reals Lra Psatz Lia Arith ZArith Floats.SpecFloat.
From Flocq Require Import Core Relative IEEE754.BinarySingleNaN.
From Tbfmm Require Import Num.P2PDefs Num.P2PReal Num.P2PSF Float.LocateProofs Num.P2PError.
Import ListNotations.
Local Open Scope R_scope.

(* ---------------------------------------------------------------------------------------------------------------- *)
(* Part 4': IEEE binary32 (Flocq): in the normal range every operation rounds with relative error <= 2^-24 *)

Notation fexp32 := (FLT_exp (-149) 24).
Notation F32 := (generic_format radix2 fexp32).
Notation rnd32 := (round radix2 fexp32 ZnearestE).
Notation b32 := (binary_float 24 128).
Notation u32 := (bpow radix2 (-24)).

Local Instance fexp32_valid : Valid_exp fexp32 := FLT_exp_valid (-149) 24.

Lemma F32_bpow : forall k : Z, (-149 <= k)%Z -> F32 (bpow radix2 k).
Proof.
  intros k Hk. apply generic_format_bpow. unfold FLT_exp. lia.
Qed.

Lemma rnd32_model : forall r : R,
  bpow radix2 (-126) <= Rabs r < bpow radix2 127 ->
  Rabs (rnd32 r) < bpow radix2 128 /\
  exists e, Rabs e <= bpow radix2 (-24) /\ rnd32 r = r * (1 + e).
Proof.
  intros r [Hlo Hhi]. split.
  - apply Rle_lt_trans with (bpow radix2 127); [|apply bpow_lt; lia].
    apply abs_round_le_generic; auto with typeclass_instances.
    + apply F32_bpow; lia.
    + lra.
  - destruct (relative_error_N_FLT_ex radix2 (-149) 24 ltac:(lia) (fun x => negb (Z.even x)) r) as [e [He Hr]].
    + exact Hlo.
    + exists e; split; [|exact Hr].
      replace (bpow radix2 (-24)) with (/ 2 * bpow radix2 (- (24) + 1)); [exact He|].
      change (- (24) + 1)%Z with (-23)%Z.
      change (bpow radix2 (-24)) with (bpow radix2 (-1 + -23)).
      rewrite (bpow_plus radix2 (-1) (-23)). reflexivity.
Qed.

Theorem b32_add_model : forall x y : b32, is_finite x = true -> is_finite y = true ->
  bpow radix2 (-126) <= Rabs (B2R x + B2R y) < bpow radix2 127 ->
  is_finite (Bplus mode_NE x y) = true /\
  exists e, Rabs e <= u32 /\ B2R (Bplus mode_NE x y) = (B2R x + B2R y) * (1 + e).
Proof.
  intros x y Fx Fy Hr. destruct (rnd32_model _ Hr) as [Hov [e [He Hrn]]].
  generalize (Bplus_correct 24 128 _ _ mode_NE x y Fx Fy).
  change (round radix2 (SpecFloat.fexp 24 128) (round_mode mode_NE)) with rnd32.
  rewrite Rlt_bool_true by exact Hov. intros (H1 & H2 & _).
  split; [exact H2|]. exists e; split; [exact He|]. rewrite H1; exact Hrn.
Qed.

Theorem b32_sub_model : forall x y : b32, is_finite x = true -> is_finite y = true ->
  bpow radix2 (-126) <= Rabs (B2R x - B2R y) < bpow radix2 127 ->
  is_finite (Bminus mode_NE x y) = true /\
  exists e, Rabs e <= u32 /\ B2R (Bminus mode_NE x y) = (B2R x - B2R y) * (1 + e).
Proof.
  intros x y Fx Fy Hr. destruct (rnd32_model _ Hr) as [Hov [e [He Hrn]]].
  generalize (Bminus_correct 24 128 _ _ mode_NE x y Fx Fy).
  change (round radix2 (SpecFloat.fexp 24 128) (round_mode mode_NE)) with rnd32.
  rewrite Rlt_bool_true by exact Hov. intros (H1 & H2 & _).
  split; [exact H2|]. exists e; split; [exact He|]. rewrite H1; exact Hrn.
Qed.

Theorem b32_mul_model : forall x y : b32, is_finite x = true -> is_finite y = true ->
  bpow radix2 (-126) <= Rabs (B2R x * B2R y) < bpow radix2 127 ->
  is_finite (Bmult mode_NE x y) = true /\
  exists e, Rabs e <= u32 /\ B2R (Bmult mode_NE x y) = (B2R x * B2R y) * (1 + e).
Proof.
  intros x y Fx Fy Hr. destruct (rnd32_model _ Hr) as [Hov [e [He Hrn]]].
  generalize (Bmult_correct 24 128 _ _ mode_NE x y).
  change (round radix2 (SpecFloat.fexp 24 128) (round_mode mode_NE)) with rnd32.
  rewrite Rlt_bool_true by exact Hov. intros (H1 & H2 & _).
  split; [rewrite H2, Fx, Fy; reflexivity|]. exists e; split; [exact He|]. rewrite H1; exact Hrn.
Qed.

Theorem b32_div_model : forall x y : b32, is_finite x = true -> B2R y <> 0 ->
  bpow radix2 (-126) <= Rabs (B2R x / B2R y) < bpow radix2 127 ->
  is_finite (Bdiv mode_NE x y) = true /\
  exists e, Rabs e <= u32 /\ B2R (Bdiv mode_NE x y) = (B2R x / B2R y) * (1 + e).
Proof.
  intros x y Fx Hy Hr. destruct (rnd32_model _ Hr) as [Hov [e [He Hrn]]].
  generalize (Bdiv_correct 24 128 _ _ mode_NE x y Hy).
  change (round radix2 (SpecFloat.fexp 24 128) (round_mode mode_NE)) with rnd32.
  rewrite Rlt_bool_true by exact Hov. intros (H1 & H2 & _).
  split; [rewrite H2; exact Fx|]. exists e; split; [exact He|]. rewrite H1; exact Hrn.
Qed.

Theorem b32_sqrt_model : forall x : b32,
  bpow radix2 (-126) <= Rabs (sqrt (B2R x)) < bpow radix2 127 ->
  exists e, Rabs e <= u32 /\ B2R (Bsqrt mode_NE x) = sqrt (B2R x) * (1 + e).
Proof.
  intros x Hr. destruct (rnd32_model _ Hr) as [_ [e [He Hrn]]].
  destruct (Bsqrt_correct 24 128 _ _ mode_NE x) as (H1 & _).
  change (round radix2 (SpecFloat.fexp 24 128) (round_mode mode_NE)) with rnd32 in H1.
  exists e; split; [exact He|]. rewrite H1; exact Hrn.
Qed.

(* the square root of a positive binary32 number is in the normal range:
   2^-149 <= x < 2^128  gives  2^-75 <= sqrt x < 2^64 *)
Lemma sqrt_b32_range : forall x : b32, 0 < B2R x ->
  bpow radix2 (-126) <= Rabs (sqrt (B2R x)) < bpow radix2 127.
Proof.
  intros x Hp.
  assert (Hfs : is_finite_strict x = true).
  { destruct x as [s|s| |s m e Hb]; cbn [B2R] in Hp; try lra. reflexivity. }
  pose proof (abs_B2R_ge_emin 24 128 x Hfs) as Hlo.
  pose proof (abs_B2R_lt_emax 24 128 x) as Hhi.
  rewrite Rabs_pos_eq in Hlo, Hhi by lra.
  change (SpecFloat.emin 24 128) with (-149)%Z in Hlo.
  assert (Hlo' : bpow radix2 (2 * -75) <= B2R x).
  { apply Rle_trans with (2 := Hlo). apply bpow_le; lia. }
  change 128%Z with (2 * 64)%Z in Hhi.
  rewrite Rabs_pos_eq by apply sqrt_ge_0.
  split.
  - apply Rle_trans with (bpow radix2 (-75)); [apply bpow_le; lia|].
    rewrite <- (sqrt_bpow radix2 (-75)). apply sqrt_le_1_alt; exact Hlo'.
  - apply Rlt_le_trans with (bpow radix2 64); [|apply bpow_le; lia].
    rewrite <- (sqrt_bpow radix2 64). apply sqrt_lt_1_alt; split; [lra | exact Hhi].
Qed.

(* sqrt never leaves the normal range: the model holds for every binary32 input *)
Theorem b32_sqrt_model_all : forall x : b32,
  exists e, Rabs e <= u32 /\ B2R (Bsqrt mode_NE x) = sqrt (B2R x) * (1 + e).
Proof.
  intros x. destruct (Rle_or_lt (B2R x) 0) as [Hn|Hp].
  - destruct (Bsqrt_correct 24 128 _ _ mode_NE x) as (H1 & _).
    assert (Hs : sqrt (B2R x) = 0).
    { destruct Hn as [Hn|Hn]; [apply sqrt_neg_0; lra | rewrite Hn; apply sqrt_0]. }
    exists 0; split; [rewrite Rabs_R0; apply bpow_ge_0|].
    rewrite H1, Hs, round_0; [ring | auto with typeclass_instances].
  - apply b32_sqrt_model, sqrt_b32_range, Hp.
Qed.

(* the same statements for the SpecFloat operations that Num/P2PSF.v executes *)
Corollary sf32_add_model : forall x y : b32, is_finite x = true -> is_finite y = true ->
  bpow radix2 (-126) <= Rabs (B2R x + B2R y) < bpow radix2 127 ->
  exists e, Rabs e <= u32 /\
    SF2R radix2 (SpecFloat.SFadd 24 128 (B2SF x) (B2SF y)) = (SF2R radix2 (B2SF x) + SF2R radix2 (B2SF y)) * (1 + e).
Proof.
  intros x y Fx Fy Hr. rewrite <- sf_plus_bridge32, !SF2R_B2SF. apply (b32_add_model x y Fx Fy Hr).
Qed.

Corollary sf32_sub_model : forall x y : b32, is_finite x = true -> is_finite y = true ->
  bpow radix2 (-126) <= Rabs (B2R x - B2R y) < bpow radix2 127 ->
  exists e, Rabs e <= u32 /\
    SF2R radix2 (SpecFloat.SFsub 24 128 (B2SF x) (B2SF y)) = (SF2R radix2 (B2SF x) - SF2R radix2 (B2SF y)) * (1 + e).
Proof.
  intros x y Fx Fy Hr. rewrite <- sf_minus_bridge32, !SF2R_B2SF. apply (b32_sub_model x y Fx Fy Hr).
Qed.

Corollary sf32_mul_model : forall x y : b32, is_finite x = true -> is_finite y = true ->
  bpow radix2 (-126) <= Rabs (B2R x * B2R y) < bpow radix2 127 ->
  exists e, Rabs e <= u32 /\
    SF2R radix2 (SpecFloat.SFmul 24 128 (B2SF x) (B2SF y)) = (SF2R radix2 (B2SF x) * SF2R radix2 (B2SF y)) * (1 + e).
Proof.
  intros x y Fx Fy Hr. rewrite <- sf_mult_bridge32, !SF2R_B2SF. apply (b32_mul_model x y Fx Fy Hr).
Qed.

Corollary sf32_div_model : forall x y : b32, is_finite x = true -> B2R y <> 0 ->
  bpow radix2 (-126) <= Rabs (B2R x / B2R y) < bpow radix2 127 ->
  exists e, Rabs e <= u32 /\
    SF2R radix2 (SpecFloat.SFdiv 24 128 (B2SF x) (B2SF y)) = (SF2R radix2 (B2SF x) / SF2R radix2 (B2SF y)) * (1 + e).
Proof.
  intros x y Fx Hy Hr. rewrite <- sf_div_bridge32, !SF2R_B2SF. apply (b32_div_model x y Fx Hy Hr).
Qed.

(* ---------------------------------------------------------------------------------------------------------------- *)
(* Composition.  g32_ops rounds to nearest-even binary32 whenever the exact result is in the normal range and is
   exact otherwise; it satisfies the standard model with u = 2^-24 on ALL reals, so MAIN A and MAIN B apply to it,
   and it coincides with the IEEE operations on every operation whose exact result is zero or in the normal range. *)

Lemma u32_range : 0 <= u32 <= 1 / 1024.
Proof.
  split; [apply bpow_ge_0|].
  replace (1 / 1024) with (bpow radix2 (-10)) by (simpl; lra). apply bpow_le; lia.
Qed.

Definition grnd32 (r : R) : R :=
  if Rle_dec (bpow radix2 (-126)) (Rabs r) then
    if Rlt_dec (Rabs r) (bpow radix2 127) then rnd32 r else r
  else r.

Lemma grnd32_model : forall r, exists e, Rabs e <= u32 /\ grnd32 r = r * (1 + e).
Proof.
  intros r. unfold grnd32.
  assert (H0 : exists e, Rabs e <= u32 /\ r = r * (1 + e)).
  { exists 0; split; [rewrite Rabs_R0; apply bpow_ge_0 | ring]. }
  destruct (Rle_dec _ _) as [H1|H1]; [|exact H0].
  destruct (Rlt_dec _ _) as [H2|H2]; [|exact H0].
  apply (rnd32_model r (conj H1 H2)).
Qed.

Lemma grnd32_normal : forall r, bpow radix2 (-126) <= Rabs r < bpow radix2 127 -> grnd32 r = rnd32 r.
Proof.
  intros r [H1 H2]. unfold grnd32.
  destruct (Rle_dec _ _) as [H1'|H1']; [|contradiction].
  destruct (Rlt_dec _ _) as [H2'|H2']; [reflexivity|contradiction].
Qed.

Definition g32_ops : ops R :=
  {| o_add := fun a b => grnd32 (a + b); o_sub := fun a b => grnd32 (a - b); o_mul := fun a b => grnd32 (a * b);
     o_div := fun a b => grnd32 (a / b); o_sqrt := fun a => grnd32 (sqrt a); o_zero := 0; o_one := 1 |}.

Theorem g32_std_model : std_model u32 g32_ops.
Proof.
  unfold std_model; cbn [g32_ops o_add o_sub o_mul o_div o_sqrt o_zero o_one].
  repeat split; intros; apply grnd32_model.
Qed.

(* MAIN A and MAIN B instantiated at binary32 round-to-nearest-even (u = 2^-24) *)
Corollary g32_pair_error : forall s t, apart s t ->
  let '(fx, fy, fz, inv) := pair R g32_ops s t in
  Rabs (inv - / rdist s t) <= 5 * u32 * / rdist s t /\
  Rabs (fx - f_x _ (contrib s t)) <= 16 * u32 * Rabs (f_x _ (contrib s t)) /\
  Rabs (fy - f_y _ (contrib s t)) <= 16 * u32 * Rabs (f_y _ (contrib s t)) /\
  Rabs (fz - f_z _ (contrib s t)) <= 16 * u32 * Rabs (f_z _ (contrib s t)).
Proof.
  intros s t Hap.
  pose proof (pair_potential_error u32 u32_range g32_ops g32_std_model s t Hap) as H1.
  pose proof (pair_force_error u32 u32_range g32_ops g32_std_model s t Hap) as H2.
  destruct (pair R g32_ops s t) as [[[fx fy] fz] inv]. split; [exact H1 | exact H2].
Qed.

Corollary g32_remote_potential_error : forall srcs t, Forall (fun s => apart s t) srcs ->
  let n := INR (length srcs) in
  (n + 6) * (n + 7) * u32 <= 1 ->
  Rabs (f_p _ (remote_one R g32_ops srcs t (rhs0 R g32_ops)) - Rsum (map (fun s => p_v _ s / rdist s t) srcs))
  <= ((n + 7) * u32) * Rsum (map (fun s => Rabs (p_v _ s) / rdist s t) srcs).
Proof. intros srcs t HF. apply (remote_potential_error u32 u32_range g32_ops g32_std_model srcs t HF). Qed.

(* ================================================================================================================ *)
(* Part 5': the ACTUAL binary32 computation of `pair` (Flocq binary_float operations = the SpecFloat instance
   sf_ops 24 128 of Num/P2PSF.v, see sf32_pair_bridge) under magnitude conditions on the inputs *)

Lemma sf_sqrt_bridge32 : forall x : b32, B2SF (Bsqrt mode_NE x) = SFsqrt 24 128 (B2SF x).
Proof. apply sf_sqrt_bridge_gen. Qed.

(* ---- the binary32 instance of the abstract arithmetic ---- *)
Definition b32_one : b32 := @B754_finite 24 128 false 8388608 (-23) eq_refl.

Definition b32_ops : ops b32 :=
  {| o_add := Bplus mode_NE; o_sub := Bminus mode_NE; o_mul := Bmult mode_NE; o_div := Bdiv mode_NE;
     o_sqrt := Bsqrt mode_NE; o_zero := B754_zero false; o_one := b32_one |}.

Definition sf_part32 (p : part b32) : part spec_float :=
  {| p_x := B2SF (p_x _ p); p_y := B2SF (p_y _ p); p_z := B2SF (p_z _ p); p_v := B2SF (p_v _ p) |}.
Definition partR32_of (p : part b32) : partR :=
  {| p_x := B2R (p_x _ p); p_y := B2R (p_y _ p); p_z := B2R (p_z _ p); p_v := B2R (p_v _ p) |}.

(* the SpecFloat computation that is run against the C++ IS the Flocq computation, for all inputs *)
Theorem sf32_pair_bridge : forall s t : part b32,
  pair spec_float (sf_ops 24 128) (sf_part32 s) (sf_part32 t) =
  let '(fx, fy, fz, inv) := pair b32 b32_ops s t in (B2SF fx, B2SF fy, B2SF fz, B2SF inv).
Proof.
  intros s t. unfold pair, sf_part32.
  cbn [sf_ops b32_ops o_add o_sub o_mul o_div o_sqrt o_one p_x p_y p_z p_v].
  change (S754_finite false (Z.to_pos (2 ^ mw 24)) (- mw 24)) with (B2SF b32_one).
  rewrite <- !sf_minus_bridge32, <- !sf_mult_bridge32, <- !sf_plus_bridge32, <- sf_div_bridge32, <- sf_sqrt_bridge32.
  rewrite <- !sf_mult_bridge32. reflexivity.
Qed.

(* ---- zero or normal exact results ---- *)
Definition nz32 (r : R) : Prop := r = 0 \/ bpow radix2 (-126) <= Rabs r < bpow radix2 127.

Lemma grnd32_0 : grnd32 0 = 0.
Proof.
  unfold grnd32. destruct (Rle_dec _ _) as [H|H]; [|reflexivity].
  rewrite Rabs_R0 in H. pose proof (bpow_gt_0 radix2 (-126)). lra.
Qed.

Lemma grnd32_nz : forall r, nz32 r -> grnd32 r = rnd32 r /\ Rabs (rnd32 r) < bpow radix2 128.
Proof.
  intros r [Z|H].
  - subst r. rewrite grnd32_0, round_0 by auto with typeclass_instances.
    rewrite Rabs_R0. split; [reflexivity | apply bpow_gt_0].
  - split; [apply grnd32_normal, H | apply (rnd32_model r H)].
Qed.

Lemma grnd32_eq0 : forall r, grnd32 r = 0 -> r = 0.
Proof.
  intros r H. destruct (grnd32_model r) as [e [He Hr]]. rewrite Hr in H.
  pose proof u32_range as Hu. apply Rabs_le_both in He.
  destruct (Rmult_integral _ _ H) as [Z|Z]; [exact Z | lra].
Qed.

Lemma grnd32_nonneg : forall r, 0 <= r -> 0 <= grnd32 r.
Proof.
  intros r H. destruct (grnd32_model r) as [e [He ->]].
  pose proof u32_range as Hu. apply Rabs_le_both in He. apply Rmult_le_pos; lra.
Qed.

Lemma sqrt_b32_nz : forall x : b32, nz32 (sqrt (B2R x)).
Proof.
  intros x. destruct (Rle_or_lt (B2R x) 0) as [Hn|Hp].
  - left. destruct Hn as [Hn|Hn]; [apply sqrt_neg_0; lra | rewrite Hn; apply sqrt_0].
  - right. apply sqrt_b32_range, Hp.
Qed.

(* ---- transfer: X is finite and its real value is r ---- *)
Definition tr32 (X : b32) (r : R) : Prop := is_finite X = true /\ B2R X = r.

Lemma tr32_add : forall X Y a b, tr32 X a -> tr32 Y b -> nz32 (a + b) -> tr32 (Bplus mode_NE X Y) (o_add g32_ops a b).
Proof.
  intros X Y a b [Fx <-] [Fy <-] Hnz. cbn [g32_ops o_add]. destruct (grnd32_nz _ Hnz) as [-> Hov].
  generalize (Bplus_correct 24 128 _ _ mode_NE X Y Fx Fy).
  change (round radix2 (SpecFloat.fexp 24 128) (round_mode mode_NE)) with rnd32.
  rewrite Rlt_bool_true by exact Hov. intros (H1 & H2 & _). split; assumption.
Qed.

Lemma tr32_sub : forall X Y a b, tr32 X a -> tr32 Y b -> nz32 (a - b) -> tr32 (Bminus mode_NE X Y) (o_sub g32_ops a b).
Proof.
  intros X Y a b [Fx <-] [Fy <-] Hnz. cbn [g32_ops o_sub]. destruct (grnd32_nz _ Hnz) as [-> Hov].
  generalize (Bminus_correct 24 128 _ _ mode_NE X Y Fx Fy).
  change (round radix2 (SpecFloat.fexp 24 128) (round_mode mode_NE)) with rnd32.
  rewrite Rlt_bool_true by exact Hov. intros (H1 & H2 & _). split; assumption.
Qed.

Lemma tr32_mul : forall X Y a b, tr32 X a -> tr32 Y b -> nz32 (a * b) -> tr32 (Bmult mode_NE X Y) (o_mul g32_ops a b).
Proof.
  intros X Y a b [Fx <-] [Fy <-] Hnz. cbn [g32_ops o_mul]. destruct (grnd32_nz _ Hnz) as [-> Hov].
  generalize (Bmult_correct 24 128 _ _ mode_NE X Y).
  change (round radix2 (SpecFloat.fexp 24 128) (round_mode mode_NE)) with rnd32.
  rewrite Rlt_bool_true by exact Hov. intros (H1 & H2 & _).
  split; [rewrite H2, Fx, Fy; reflexivity | exact H1].
Qed.

Lemma tr32_div : forall X Y a b, tr32 X a -> tr32 Y b -> b <> 0 -> nz32 (a / b) ->
  tr32 (Bdiv mode_NE X Y) (o_div g32_ops a b).
Proof.
  intros X Y a b [Fx <-] [Fy <-] Hb Hnz. cbn [g32_ops o_div]. destruct (grnd32_nz _ Hnz) as [-> Hov].
  generalize (Bdiv_correct 24 128 _ _ mode_NE X Y Hb).
  change (round radix2 (SpecFloat.fexp 24 128) (round_mode mode_NE)) with rnd32.
  rewrite Rlt_bool_true by exact Hov. intros (H1 & H2 & _).
  split; [rewrite H2; exact Fx | exact H1].
Qed.

Lemma tr32_sqrt : forall X a, tr32 X a -> 0 <= a -> tr32 (Bsqrt mode_NE X) (o_sqrt g32_ops a).
Proof.
  intros X a [Fx <-] Ha. cbn [g32_ops o_sqrt]. destruct (grnd32_nz _ (sqrt_b32_nz X)) as [-> _].
  destruct (Bsqrt_correct 24 128 _ _ mode_NE X) as (H1 & H2 & _).
  change (round radix2 (SpecFloat.fexp 24 128) (round_mode mode_NE)) with rnd32 in H1.
  split; [|exact H1]. rewrite H2.
  destruct X as [s|s| |s m e Hb]; try discriminate Fx; [reflexivity|].
  destruct s; [|reflexivity]. exfalso. cbn [B2R] in Ha. revert Ha. apply Rlt_not_le.
  apply F2R_lt_0. simpl. lia.
Qed.

Lemma b32_one_R : B2R b32_one = 1.
Proof.
  unfold b32_one, B2R, F2R; cbn [Fnum Fexp cond_Zopp].
  change (IZR (Z.pos 8388608)) with (bpow radix2 23).
  rewrite <- bpow_plus. reflexivity.
Qed.

Lemma tr32_one : tr32 b32_one (o_one g32_ops).
Proof. split; [reflexivity|]. cbn [g32_ops o_one]. apply b32_one_R. Qed.

(* ---- magnitude calculus on the real side: zr, nzr, pr and their bound-free lemmas come from Num/P2PError.v;
        the lemmas that mention the normal range are restated for binary32 ---- *)

Lemma zr_nz32 : forall lo hi r, zr lo hi r -> (-126 <= lo)%Z -> (hi < 127)%Z -> nz32 r.
Proof.
  intros lo hi r [Z|[H1 H2]] Hlo Hhi; [left; exact Z | right].
  pose proof (bpow_le radix2 _ _ Hlo). pose proof (bpow_lt radix2 _ _ Hhi). lra.
Qed.

Lemma zr_grnd32 : forall lo hi r, zr lo hi r -> (-126 <= lo)%Z -> (hi < 127)%Z -> zr lo hi (grnd32 r).
Proof.
  intros lo hi r H Hlo Hhi. pose proof (zr_nz32 _ _ _ H Hlo Hhi) as Hnz.
  destruct H as [Z|[H1 H2]]; [left; rewrite Z; apply grnd32_0 | right].
  assert (Hlh : (lo <= hi)%Z) by (apply (le_bpow radix2); lra).
  destruct (grnd32_nz r Hnz) as [-> _]. split.
  - apply abs_round_ge_generic; auto with typeclass_instances. apply F32_bpow; lia.
  - apply abs_round_le_generic; auto with typeclass_instances. apply F32_bpow; lia.
Qed.

Lemma nzr_grnd32 : forall lo hi r, nzr lo hi r -> (-126 <= lo)%Z -> (hi < 127)%Z -> nzr lo hi (grnd32 r).
Proof. intros lo hi r [H0 H] Hlo Hhi; split; [apply grnd32_nonneg, H0 | apply zr_grnd32; assumption]. Qed.

Lemma nzr_nz32 : forall lo hi r, nzr lo hi r -> (-126 <= lo)%Z -> (hi < 127)%Z -> nz32 r.
Proof. intros lo hi r [_ H]; apply zr_nz32, H. Qed.

Lemma pr_nz32 : forall lo hi r, pr lo hi r -> (-126 <= lo)%Z -> (hi < 127)%Z -> nz32 r.
Proof. intros lo hi r H; apply zr_nz32, pr_zr, H. Qed.

Lemma pr_grnd32 : forall lo hi r, pr lo hi r -> (-126 <= lo)%Z -> (hi < 127)%Z -> pr lo hi (grnd32 r).
Proof.
  intros lo hi r H Hlo Hhi. destruct (grnd32_nz r (pr_nz32 _ _ _ H Hlo Hhi)) as [-> _].
  destruct H as [H1 H2].
  assert (Hlh : (lo <= hi)%Z) by (apply (le_bpow radix2); lra).
  split.
  - apply round_ge_generic; auto with typeclass_instances. apply F32_bpow; lia.
  - apply round_le_generic; auto with typeclass_instances. apply F32_bpow; lia.
Qed.

(* the operations of g32_ops on magnitudes *)
Lemma g32_sub_zr : forall lo hi a b, zr lo hi (a - b) -> (-126 <= lo)%Z -> (hi < 127)%Z ->
  zr lo hi (o_sub g32_ops a b).
Proof. intros; cbn [g32_ops o_sub]; apply zr_grnd32; assumption. Qed.

Lemma g32_mul_zr : forall l1 h1 l2 h2 a b, zr l1 h1 a -> zr l2 h2 b -> (-126 <= l1 + l2)%Z -> (h1 + h2 < 127)%Z ->
  zr (l1 + l2) (h1 + h2) (o_mul g32_ops a b).
Proof. intros; cbn [g32_ops o_mul]; apply zr_grnd32; [apply zr_mul|..]; assumption. Qed.

Lemma g32_sq_nzr : forall lo hi a, zr lo hi a -> (-126 <= lo + lo)%Z -> (hi + hi < 127)%Z ->
  nzr (lo + lo) (hi + hi) (o_mul g32_ops a a).
Proof. intros; cbn [g32_ops o_mul]; apply nzr_grnd32; [apply nzr_sq|..]; assumption. Qed.

Lemma g32_add_nzr : forall lo hi a b, nzr lo hi a -> nzr lo hi b -> (-126 <= lo)%Z -> (hi + 1 < 127)%Z ->
  nzr lo (hi + 1) (o_add g32_ops a b).
Proof. intros; cbn [g32_ops o_add]; apply nzr_grnd32; [apply nzr_add|..]; assumption. Qed.

Lemma g32_inv_pr : forall lo hi r, pr lo hi r -> (-126 <= - hi)%Z -> (- lo < 127)%Z ->
  pr (- hi) (- lo) (o_div g32_ops (o_one g32_ops) r).
Proof. intros; cbn [g32_ops o_div o_one]; apply pr_grnd32; [apply pr_inv|..]; assumption. Qed.

Lemma g32_sqrt_pr : forall lo hi r, pr (2 * lo) (2 * hi) r -> (-126 <= lo)%Z -> (hi < 127)%Z ->
  pr lo hi (o_sqrt g32_ops r).
Proof. intros; cbn [g32_ops o_sqrt]; apply pr_grnd32; [apply pr_sqrt|..]; assumption. Qed.

Lemma g32_mul_pr : forall l1 h1 l2 h2 a b, pr l1 h1 a -> pr l2 h2 b -> (-126 <= l1 + l2)%Z -> (h1 + h2 < 127)%Z ->
  pr (l1 + l2) (h1 + h2) (o_mul g32_ops a b).
Proof. intros; cbn [g32_ops o_mul]; apply pr_grnd32; [apply pr_mul|..]; assumption. Qed.

Lemma g32_add_eq0 : forall a b, o_add g32_ops a b = 0 -> a + b = 0.
Proof. intros a b; apply grnd32_eq0. Qed.
Lemma g32_sub_eq0 : forall a b, o_sub g32_ops a b = 0 -> a - b = 0.
Proof. intros a b; apply grnd32_eq0. Qed.
Lemma g32_sq_eq0 : forall a, o_mul g32_ops a a = 0 -> a = 0.
Proof. intros a H; apply grnd32_eq0 in H. destruct (Rmult_integral _ _ H); assumption. Qed.

(* ---- input conditions: finite inputs; each coordinate difference is 0 or has magnitude in [2^-20, 2^20];
        distinct positions; each charge is 0 or has magnitude in [2^-20, 2^20].
        Exact intermediate magnitudes (all inside the binary32 normal range [2^-126, 2^127)):
          d            0 or [2^-20 , 2^20 ]      d*d          0 or [2^-40 , 2^40 ]
          r^2          [2^-40 , 2^42 ]           1/r^2        [2^-42 , 2^40 ]
          1/r          [2^-21 , 2^20 ]           1/r^3        [2^-63 , 2^60 ]
          v_t v_s      0 or [2^-40 , 2^40 ]      v_t v_s/r^3  0 or [2^-103, 2^100]
          outputs      0 or [2^-123, 2^120]                                                  ---- *)
Definition b32_inputs_ok (s t : part b32) : Prop :=
  (is_finite (p_x _ s) = true /\ is_finite (p_y _ s) = true /\ is_finite (p_z _ s) = true /\
   is_finite (p_v _ s) = true) /\
  (is_finite (p_x _ t) = true /\ is_finite (p_y _ t) = true /\ is_finite (p_z _ t) = true /\
   is_finite (p_v _ t) = true) /\
  (zr (-20) 20 (B2R (p_x _ s) - B2R (p_x _ t)) /\ zr (-20) 20 (B2R (p_y _ s) - B2R (p_y _ t)) /\
   zr (-20) 20 (B2R (p_z _ s) - B2R (p_z _ t))) /\
  apart (partR32_of s) (partR32_of t) /\
  zr (-20) 20 (B2R (p_v _ s)) /\ zr (-20) 20 (B2R (p_v _ t)).

Lemma tr32_in : forall X : b32, is_finite X = true -> tr32 X (B2R X).
Proof. intros X H; split; [exact H | reflexivity]. Qed.

(* the IEEE computation, read through B2R, is the computation in g32_ops on the B2R images, and stays finite *)
Theorem b32_pair_g32 : forall s t : part b32, b32_inputs_ok s t ->
  let '(fx, fy, fz, inv) := pair b32 b32_ops s t in
  let '(gx, gy, gz, ginv) := pair R g32_ops (partR32_of s) (partR32_of t) in
  tr32 fx gx /\ tr32 fy gy /\ tr32 fz gz /\ tr32 inv ginv.
Proof.
  intros [xs ys zs vs] [xt yt zt vt] Hok. unfold b32_inputs_ok, partR32_of in Hok. cbn [p_x p_y p_z p_v] in Hok.
  destruct Hok as ((Fxs & Fys & Fzs & Fvs) & (Fxt & Fyt & Fzt & Fvt) & (HX & HY & HZ) & Hap & Hvs & Hvt).
  unfold apart, d2 in Hap. cbn [p_x p_y p_z] in Hap.
  unfold pair, partR32_of. cbn [p_x p_y p_z p_v].
  cbn [b32_ops o_add o_sub o_mul o_div o_sqrt o_one].
  (* differences *)
  set (dx := o_sub g32_ops (B2R xs) (B2R xt)). set (DX := Bminus mode_NE xs xt).
  set (dy := o_sub g32_ops (B2R ys) (B2R yt)). set (DY := Bminus mode_NE ys yt).
  set (dz := o_sub g32_ops (B2R zs) (B2R zt)). set (DZ := Bminus mode_NE zs zt).
  assert (Tdx : tr32 DX dx) by (apply tr32_sub; [apply tr32_in; assumption .. | apply (zr_nz32 _ _ _ HX); lia]).
  assert (Tdy : tr32 DY dy) by (apply tr32_sub; [apply tr32_in; assumption .. | apply (zr_nz32 _ _ _ HY); lia]).
  assert (Tdz : tr32 DZ dz) by (apply tr32_sub; [apply tr32_in; assumption .. | apply (zr_nz32 _ _ _ HZ); lia]).
  assert (Zdx : zr (-20) 20 dx) by (apply g32_sub_zr; [exact HX | lia | lia]).
  assert (Zdy : zr (-20) 20 dy) by (apply g32_sub_zr; [exact HY | lia | lia]).
  assert (Zdz : zr (-20) 20 dz) by (apply g32_sub_zr; [exact HZ | lia | lia]).
  (* squares *)
  set (sxx := o_mul g32_ops dx dx). set (SXX := Bmult mode_NE DX DX).
  set (syy := o_mul g32_ops dy dy). set (SYY := Bmult mode_NE DY DY).
  set (szz := o_mul g32_ops dz dz). set (SZZ := Bmult mode_NE DZ DZ).
  assert (Txx : tr32 SXX sxx)
    by (apply tr32_mul; [assumption .. | apply (zr_nz32 (-40) 40); [apply (zr_mul (-20) 20 (-20) 20); assumption | lia | lia]]).
  assert (Tyy : tr32 SYY syy)
    by (apply tr32_mul; [assumption .. | apply (zr_nz32 (-40) 40); [apply (zr_mul (-20) 20 (-20) 20); assumption | lia | lia]]).
  assert (Tzz : tr32 SZZ szz)
    by (apply tr32_mul; [assumption .. | apply (zr_nz32 (-40) 40); [apply (zr_mul (-20) 20 (-20) 20); assumption | lia | lia]]).
  assert (Nxx : nzr (-40) 40 sxx) by (apply (g32_sq_nzr (-20) 20); [assumption | lia | lia]).
  assert (Nyy : nzr (-40) 40 syy) by (apply (g32_sq_nzr (-20) 20); [assumption | lia | lia]).
  assert (Nzz : nzr (-40) 40 szz) by (apply (g32_sq_nzr (-20) 20); [assumption | lia | lia]).
  (* sums *)
  set (s1 := o_add g32_ops sxx syy). set (S1 := Bplus mode_NE SXX SYY).
  assert (T1 : tr32 S1 s1)
    by (apply tr32_add; [assumption .. | apply (nzr_nz32 (-40) 41); [apply (nzr_add (-40) 40); assumption | lia | lia]]).
  assert (N1 : nzr (-40) 41 s1) by (apply (g32_add_nzr (-40) 40); [assumption | assumption | lia | lia]).
  set (s2 := o_add g32_ops s1 szz). set (S2 := Bplus mode_NE S1 SZZ).
  assert (Nzz' : nzr (-40) 41 szz) by (apply (nzr_weaken (-40) 40); [assumption | lia]).
  assert (T2 : tr32 S2 s2)
    by (apply tr32_add; [assumption .. | apply (nzr_nz32 (-40) 42); [apply (nzr_add (-40) 41); assumption | lia | lia]]).
  assert (N2 : nzr (-40) 42 s2) by (apply (g32_add_nzr (-40) 41); [assumption | assumption | lia | lia]).
  assert (Hs2 : s2 <> 0).
  { intro E0. unfold s2 in E0. apply g32_add_eq0 in E0.
    destruct N1 as [P1 _]. destruct Nzz as [P3 _].
    assert (E1 : s1 = 0) by lra. assert (E3 : szz = 0) by lra.
    unfold s1 in E1. apply g32_add_eq0 in E1.
    destruct Nxx as [Pxx _]. destruct Nyy as [Pyy _].
    assert (Exx : sxx = 0) by lra. assert (Eyy : syy = 0) by lra.
    unfold sxx in Exx. apply g32_sq_eq0 in Exx. unfold dx in Exx. apply g32_sub_eq0 in Exx.
    unfold syy in Eyy. apply g32_sq_eq0 in Eyy. unfold dy in Eyy. apply g32_sub_eq0 in Eyy.
    unfold szz in E3. apply g32_sq_eq0 in E3. unfold dz in E3. apply g32_sub_eq0 in E3.
    rewrite Exx, Eyy, E3 in Hap. simpl in Hap. lra. }
  assert (P2 : pr (-40) 42 s2) by (apply nzr_pr; assumption).
  (* inverse square distance, inverse distance *)
  set (isd0 := o_div g32_ops (o_one g32_ops) s2). set (ISD0 := Bdiv mode_NE b32_one S2).
  assert (T0 : tr32 ISD0 isd0).
  { apply tr32_div; [apply tr32_one | exact T2 | exact Hs2 |].
    apply (pr_nz32 (-42) 40); [apply (pr_inv (-40) 42 s2 P2) | lia | lia]. }
  assert (P0 : pr (-42) 40 isd0) by (apply (g32_inv_pr (-40) 42); [exact P2 | lia | lia]).
  set (inv := o_sqrt g32_ops isd0). set (INV := Bsqrt mode_NE ISD0).
  assert (Ti : tr32 INV inv) by (apply tr32_sqrt; [exact T0 | left; apply (pr_pos _ _ _ P0)]).
  assert (Pi : pr (-21) 20 inv) by (apply (g32_sqrt_pr (-21) 20); [exact P0 | lia | lia]).
  set (isd1 := o_mul g32_ops isd0 inv). set (ISD1 := Bmult mode_NE ISD0 INV).
  assert (TI1 : tr32 ISD1 isd1).
  { apply tr32_mul; [assumption .. |].
    apply (pr_nz32 (-63) 60); [apply (pr_mul (-42) 40 (-21) 20); assumption | lia | lia]. }
  assert (PI1 : pr (-63) 60 isd1) by (apply (g32_mul_pr (-42) 40 (-21) 20); [assumption | assumption | lia | lia]).
  (* charges *)
  set (vv := o_mul g32_ops (B2R vt) (B2R vs)). set (VV := Bmult mode_NE vt vs).
  assert (Tv : tr32 VV vv).
  { apply tr32_mul; [apply tr32_in; assumption .. |].
    apply (zr_nz32 (-40) 40); [apply (zr_mul (-20) 20 (-20) 20); assumption | lia | lia]. }
  assert (Zv : zr (-40) 40 vv) by (apply (g32_mul_zr (-20) 20 (-20) 20); [assumption | assumption | lia | lia]).
  set (isd2 := o_mul g32_ops isd1 vv). set (ISD2 := Bmult mode_NE ISD1 VV).
  assert (ZI1 : zr (-63) 60 isd1) by (apply pr_zr; exact PI1).
  assert (TI2 : tr32 ISD2 isd2).
  { apply tr32_mul; [assumption .. |].
    apply (zr_nz32 (-103) 100); [apply (zr_mul (-63) 60 (-40) 40); assumption | lia | lia]. }
  assert (ZI2 : zr (-103) 100 isd2) by (apply (g32_mul_zr (-63) 60 (-40) 40); [assumption | assumption | lia | lia]).
  (* outputs *)
  split; [|split; [|split]]; [| | | exact Ti].
  all: apply tr32_mul; [assumption .. |];
       apply (zr_nz32 (-123) 120); [apply (zr_mul (-20) 20 (-103) 100); assumption | lia | lia].
Qed.

(* MAIN A for the actual IEEE binary32 computation (Flocq operations) *)
Theorem b32_pair_error : forall s t : part b32, b32_inputs_ok s t ->
  let sR := partR32_of s in let tR := partR32_of t in
  let '(fx, fy, fz, inv) := pair b32 b32_ops s t in
  (is_finite fx = true /\ is_finite fy = true /\ is_finite fz = true /\ is_finite inv = true) /\
  Rabs (B2R inv - / rdist sR tR) <= 5 * bpow radix2 (-24) * / rdist sR tR /\
  Rabs (B2R fx - f_x _ (contrib sR tR)) <= 16 * bpow radix2 (-24) * Rabs (f_x _ (contrib sR tR)) /\
  Rabs (B2R fy - f_y _ (contrib sR tR)) <= 16 * bpow radix2 (-24) * Rabs (f_y _ (contrib sR tR)) /\
  Rabs (B2R fz - f_z _ (contrib sR tR)) <= 16 * bpow radix2 (-24) * Rabs (f_z _ (contrib sR tR)).
Proof.
  intros s t Hok sR tR.
  pose proof (b32_pair_g32 s t Hok) as HT.
  assert (Hap : apart sR tR) by (destruct Hok as (_ & _ & _ & Hap & _); exact Hap).
  pose proof (g32_pair_error sR tR Hap) as HE. fold sR tR in HT.
  destruct (pair b32 b32_ops s t) as [[[fx fy] fz] inv].
  destruct (pair R g32_ops sR tR) as [[[gx gy] gz] ginv].
  destruct HT as ((Fx & Ex) & (Fy & Ey) & (Fz & Ez) & (Fi & Ei)).
  rewrite Ex, Ey, Ez, Ei. split; [repeat split; assumption | exact HE].
Qed.

(* the same for the SpecFloat instance sf_ops 24 128 that is executed bit for bit against the C++ *)
Theorem sf32_pair_error : forall s t : part b32, b32_inputs_ok s t ->
  let sR := partR32_of s in let tR := partR32_of t in
  let '(fx, fy, fz, inv) := pair spec_float (sf_ops 24 128) (sf_part32 s) (sf_part32 t) in
  Rabs (SF2R radix2 inv - / rdist sR tR) <= 5 * bpow radix2 (-24) * / rdist sR tR /\
  Rabs (SF2R radix2 fx - f_x _ (contrib sR tR)) <= 16 * bpow radix2 (-24) * Rabs (f_x _ (contrib sR tR)) /\
  Rabs (SF2R radix2 fy - f_y _ (contrib sR tR)) <= 16 * bpow radix2 (-24) * Rabs (f_y _ (contrib sR tR)) /\
  Rabs (SF2R radix2 fz - f_z _ (contrib sR tR)) <= 16 * bpow radix2 (-24) * Rabs (f_z _ (contrib sR tR)).
Proof.
  intros s t Hok sR tR. rewrite sf32_pair_bridge.
  pose proof (b32_pair_error s t Hok) as HE. fold sR tR in HE.
  destruct (pair b32 b32_ops s t) as [[[fx fy] fz] inv].
  rewrite !SF2R_B2SF. exact (proj2 HE).
Qed.

(* ---- the hypothesis is satisfiable: source (1, 0, 0) with charge 1, target at the origin with charge 1 ---- *)
Definition ex32_s : part b32 :=
  {| p_x := b32_one; p_y := B754_zero false; p_z := B754_zero false; p_v := b32_one |}.
Definition ex32_t : part b32 :=
  {| p_x := B754_zero false; p_y := B754_zero false; p_z := B754_zero false; p_v := b32_one |}.

Lemma zr_one_20 : zr (-20) 20 1.
Proof.
  right. rewrite Rabs_R1. change 1 with (bpow radix2 0). split; apply bpow_le; lia.
Qed.

Example ex32_inputs_ok : b32_inputs_ok ex32_s ex32_t.
Proof.
  unfold b32_inputs_ok, ex32_s, ex32_t, partR32_of, apart, d2. cbn [p_x p_y p_z p_v].
  rewrite b32_one_R. cbn [B2R].
  repeat split; try reflexivity.
  - replace (1 - 0) with 1 by ring. exact zr_one_20.
  - left; ring.
  - left; ring.
  - lra.
  - exact zr_one_20.
  - exact zr_one_20.
Qed.

Print Assumptions sf32_pair_bridge.
Print Assumptions b32_pair_g32.
Print Assumptions b32_pair_error.
Print Assumptions sf32_pair_error.
Print Assumptions ex32_inputs_ok.
