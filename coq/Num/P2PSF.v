(* IEEE-754 instances of the P2P model through Coq's executable specification Floats.SpecFloat
   (pure Gallina: no primitive floats, no axioms), and bit-pattern encode/decode. *)
From Coq Require Import ZArith List Floats.SpecFloat.
From Tbfmm Require Import Num.P2PDefs.
Import ListNotations.
Local Open Scope Z_scope.

Section Fmt.
Variable prec emax : Z.     (* binary64: 53, 1024; binary32: 24, 128 *)

Definition mw : Z := prec - 1.                 (* mantissa field width *)
Definition ew_bias : Z := emax - 1.            (* exponent bias *)
Definition emin_ : Z := 3 - emax - prec.       (* exponent of the least subnormal *)

(* decode a bit pattern (sign | biased exponent | fraction) *)
Definition sf_of_bits (b : Z) : spec_float :=
  let frac := b mod 2 ^ mw in
  let rest := b / 2 ^ mw in
  let e := rest mod (2 * emax) in
  let s := Z.odd (rest / (2 * emax)) in
  if e =? 0 then
    match frac with
    | Zpos m => S754_finite s m emin_
    | _ => S754_zero s
    end
  else if e =? 2 * emax - 1 then
    if frac =? 0 then S754_infinity s else S754_nan
  else
    match frac + 2 ^ mw with
    | Zpos m => S754_finite s m (e - ew_bias - mw)
    | _ => S754_nan
    end.

Definition bits_of_sf (x : spec_float) : Z :=
  let sgn (s : bool) := if s then 2 ^ mw * (2 * emax) else 0 in
  match x with
  | S754_zero s => sgn s
  | S754_infinity s => sgn s + (2 * emax - 1) * 2 ^ mw
  | S754_nan => (2 * emax - 1) * 2 ^ mw + 2 ^ (mw - 1)
  | S754_finite s m e =>
      if Zpos m <? 2 ^ mw then sgn s + Zpos m            (* subnormal: e = emin *)
      else sgn s + (e + ew_bias + mw) * 2 ^ mw + (Zpos m - 2 ^ mw)
  end.

Definition sf_ops : ops spec_float :=
  {| o_add := SFadd prec emax; o_sub := SFsub prec emax; o_mul := SFmul prec emax; o_div := SFdiv prec emax;
     o_sqrt := SFsqrt prec emax; o_zero := S754_zero false; o_one := S754_finite false (Z.to_pos (2 ^ mw)) (- mw) |}.

End Fmt.
