(* Rounding clause of the direct P2P property: the results of the model Num/P2PDefs.v, evaluated with ANY arithmetic
   that satisfies the standard model of floating-point arithmetic with unit roundoff u, match the exact evaluation
   (Num/P2PReal.v: contrib, rdist) up to an explicit multiple of u.
     Part 1  std_model
     Part 2  MAIN A : one pair interaction (potential kernel 5u, force components 16u)
     Part 3  MAIN B : the accumulation of remote_one (recursive summation), potential and the three force components
     Part 4  MAIN C : IEEE binary64 operations (Flocq) satisfy the premise of std_model in the normal range
   Parts 1-3 use only Coq's Reals; part 4 uses Flocq.  No axiom is declared here. *)
From Coq Require Import List Reals Lra Psatz Lia Arith.
From Tbfmm Require Import Num.P2PDefs Num.P2PReal.
Import ListNotations.
Local Open Scope R_scope.

(* ---------------------------------------------------------------------------------------------------------------- *)
(* Part 1: the standard model *)

Definition std_model (u : R) (ar : ops R) : Prop :=
  (forall a b, exists e, Rabs e <= u /\ o_add ar a b = (a + b) * (1 + e)) /\
  (forall a b, exists e, Rabs e <= u /\ o_sub ar a b = (a - b) * (1 + e)) /\
  (forall a b, exists e, Rabs e <= u /\ o_mul ar a b = (a * b) * (1 + e)) /\
  (forall a b, b <> 0 -> exists e, Rabs e <= u /\ o_div ar a b = (a / b) * (1 + e)) /\
  (forall a, 0 <= a -> exists e, Rabs e <= u /\ o_sqrt ar a = sqrt a * (1 + e)) /\
  o_zero ar = 0 /\ o_one ar = 1.

(* the exact arithmetic satisfies the model for every u >= 0 *)
Lemma std_model_exact : forall u, 0 <= u -> std_model u r_ops.
Proof.
  intros u Hu.
  assert (H0 : Rabs 0 <= u) by (rewrite Rabs_R0; exact Hu).
  unfold std_model; simpl.
  repeat split; intros; exists 0; (split; [exact H0 | ring]).
Qed.

Lemma Rabs_le_both : forall e u, Rabs e <= u -> - u <= e <= u.
Proof. intros e u; unfold Rabs; destruct (Rcase_abs e); lra. Qed.

(* ---------------------------------------------------------------------------------------------------------------- *)
(* Part 2a: calculus of accumulated relative errors.
   within k f : f is a product of at most k factors (1+e)^(+-1), |e| <= u :  (1-u)^k <= f <= 1/(1-u)^k *)

Section Calc.
Variable u : R.
Hypothesis Hu : 0 <= u <= 1 / 1024.
Local Notation q := (1 - u).

Definition within (k : nat) (f : R) : Prop := q ^ k <= f <= / q ^ k.
Definition rel (k : nat) (x y : R) : Prop := exists f, within k f /\ x = y * f.
Definition E (k : nat) : R := / q ^ k - 1.

Lemma q_pos : 0 < q.
Proof. lra. Qed.

Lemma qk_pos : forall k, 0 < q ^ k.
Proof. intros k; apply pow_lt, q_pos. Qed.

Lemma qk_le1 : forall k, q ^ k <= 1.
Proof.
  induction k as [|k IH]; simpl; [lra|].
  pose proof (qk_pos k) as Hp. nra.
Qed.

Lemma iqk_ge1 : forall k, 1 <= / q ^ k.
Proof.
  intros k. rewrite <- Rinv_1 at 1.
  apply Rinv_le_contravar; [apply qk_pos | apply qk_le1].
Qed.

Lemma iqk_pos : forall k, 0 < / q ^ k.
Proof. intros k; apply Rinv_0_lt_compat, qk_pos. Qed.

Lemma qk_mono : forall a b, (a <= b)%nat -> q ^ b <= q ^ a.
Proof.
  intros a b Hab. replace b with (a + (b - a))%nat by lia.
  rewrite pow_add. pose proof (qk_pos a). pose proof (qk_le1 (b - a)). pose proof (qk_pos (b - a)). nra.
Qed.

Lemma iqk_mono : forall a b, (a <= b)%nat -> / q ^ a <= / q ^ b.
Proof. intros a b Hab. apply Rinv_le_contravar; [apply qk_pos | apply qk_mono, Hab]. Qed.

Lemma within_pos : forall k f, within k f -> 0 < f.
Proof. intros k f [H _]. pose proof (qk_pos k). lra. Qed.

Lemma within_one : forall k, within k 1.
Proof. intros k; split; [apply qk_le1 | apply iqk_ge1]. Qed.

Lemma within_weaken : forall a b f, (a <= b)%nat -> within a f -> within b f.
Proof.
  intros a b f Hab [H1 H2]. pose proof (qk_mono a b Hab). pose proof (iqk_mono a b Hab).
  split; lra.
Qed.

Lemma within_mul : forall a b f g, within a f -> within b g -> within (a + b) (f * g).
Proof.
  intros a b f g [F1 F2] [G1 G2]. unfold within. rewrite pow_add, Rinv_mult.
  pose proof (qk_pos a). pose proof (qk_pos b).
  split; apply Rmult_le_compat; lra.
Qed.

Lemma within_inv : forall a f, within a f -> within a (/ f).
Proof.
  intros a f [F1 F2]. pose proof (qk_pos a) as Hq.
  split.
  - rewrite <- (Rinv_inv (q ^ a)). apply Rinv_le_contravar; [lra | exact F2].
  - apply Rinv_le_contravar; [exact Hq | exact F1].
Qed.

Lemma within_sqrt : forall a f, within (a + a) f -> within a (sqrt f).
Proof.
  intros a f [F1 F2]. rewrite pow_add, ?Rinv_mult in *.
  pose proof (qk_pos a) as Hq. pose proof (iqk_pos a) as Hi.
  split.
  - rewrite <- (sqrt_square (q ^ a)) by lra. apply sqrt_le_1_alt; exact F1.
  - rewrite <- (sqrt_square (/ q ^ a)) by lra. apply sqrt_le_1_alt; exact F2.
Qed.

Lemma eps_within : forall e, Rabs e <= u -> within 1 (1 + e).
Proof.
  intros e He. apply Rabs_le_both in He. unfold within. rewrite pow_1.
  split; [lra|].
  apply Rle_trans with (1 + u); [lra|].
  apply Rmult_le_reg_r with q; [lra|]. rewrite Rinv_l by lra. nra.
Qed.

(* ---- rel ---- *)
Lemma rel_refl : forall x, rel 0 x x.
Proof. intros x; exists 1; split; [apply within_one | ring]. Qed.

Lemma rel_weaken : forall a b x y, (a <= b)%nat -> rel a x y -> rel b x y.
Proof. intros a b x y Hab [f [Hf E0]]. exists f; split; [eapply within_weaken; eauto | exact E0]. Qed.

Lemma rel_round : forall k x y e, rel k x y -> Rabs e <= u -> rel (S k) (x * (1 + e)) y.
Proof.
  intros k x y e [f [Hf ->]] He. exists (f * (1 + e)); split; [|ring].
  replace (S k) with (k + 1)%nat by lia. apply within_mul; [exact Hf | apply eps_within, He].
Qed.

Lemma rel_mul : forall a b x y x' y', rel a x y -> rel b x' y' -> rel (a + b) (x * x') (y * y').
Proof.
  intros a b x y x' y' [f [Hf ->]] [g [Hg ->]]. exists (f * g); split; [apply within_mul; assumption | ring].
Qed.

Lemma rel_inv : forall a x y, rel a x y -> rel a (/ x) (/ y).
Proof.
  intros a x y [f [Hf ->]]. exists (/ f); split; [apply within_inv, Hf | apply Rinv_mult].
Qed.

Lemma rel_sqrt : forall a x y, 0 <= y -> rel (a + a) x y -> rel a (sqrt x) (sqrt y).
Proof.
  intros a x y Hy [f [Hf ->]]. exists (sqrt f); split; [apply within_sqrt, Hf | apply sqrt_mult_alt, Hy].
Qed.

Lemma rel_pos : forall a x y, rel a x y -> 0 < y -> 0 < x.
Proof. intros a x y [f [Hf ->]] Hy. apply Rmult_lt_0_compat; [exact Hy | eapply within_pos, Hf]. Qed.

Lemma rel_nonneg : forall a x y, rel a x y -> 0 <= y -> 0 <= x.
Proof. intros a x y [f [Hf ->]] Hy. apply Rmult_le_pos; [exact Hy | left; eapply within_pos, Hf]. Qed.

(* sums of non-negative terms keep the worst relative error of the terms *)
Lemma rel_add_nonneg : forall k x y x' y', 0 <= y -> 0 <= y' -> rel k x y -> rel k x' y' -> rel k (x + x') (y + y').
Proof.
  intros k x y x' y' Hy Hy' [f [[F1 F2] ->]] [g [[G1 G2] ->]].
  destruct (Req_dec (y + y') 0) as [Z|NZ].
  - assert (y = 0) by lra. assert (y' = 0) by lra. subst y y'.
    exists 1; split; [apply within_one | ring].
  - assert (Hs : 0 < y + y') by lra.
    exists ((y * f + y' * g) / (y + y')); split; [|field; exact NZ].
    split.
    + apply Rmult_le_reg_r with (y + y'); [exact Hs|].
      unfold Rdiv; rewrite Rmult_assoc, Rinv_l, Rmult_1_r by exact NZ. nra.
    + apply Rmult_le_reg_r with (y + y'); [exact Hs|].
      unfold Rdiv; rewrite Rmult_assoc, Rinv_l, Rmult_1_r by exact NZ. nra.
Qed.

(* ---- from accumulated factors to a linear bound ---- *)
Lemma E_nonneg : forall k, 0 <= E k.
Proof. intros k; unfold E; pose proof (iqk_ge1 k); lra. Qed.

Lemma E_mono : forall a b, (a <= b)%nat -> E a <= E b.
Proof. intros a b Hab; unfold E; pose proof (iqk_mono a b Hab); lra. Qed.

Lemma within_E : forall k f, within k f -> Rabs (f - 1) <= E k.
Proof.
  intros k f [F1 F2]. unfold E.
  pose proof (qk_pos k) as Hq. pose proof (iqk_pos k) as Hi.
  assert (Hqi : q ^ k * / q ^ k = 1) by (apply Rinv_r; lra).
  apply Rabs_le. split; [|lra].
  assert (2 <= q ^ k + / q ^ k) by nra. lra.
Qed.

Lemma bernoulli : forall k, 1 - INR k * u <= q ^ k.
Proof.
  induction k as [|k IH]; [simpl; lra|].
  rewrite S_INR. cbn [pow]. pose proof (pos_INR k). pose proof (qk_pos k). nra.
Qed.

(* gamma_k *)
Lemma E_gamma : forall k, INR k * u < 1 -> E k <= INR k * u / (1 - INR k * u).
Proof.
  intros k Hk. unfold E. pose proof (bernoulli k) as HB.
  assert (Hle : / q ^ k <= / (1 - INR k * u)) by (apply Rinv_le_contravar; lra).
  replace (INR k * u / (1 - INR k * u)) with (/ (1 - INR k * u) - 1) by (field; lra).
  lra.
Qed.

Lemma E_lin : forall k, INR k * (INR k + 1) * u <= 1 -> E k <= (INR k + 1) * u.
Proof.
  intros k Hk. pose proof (pos_INR k) as Hn.
  destruct (Req_dec u 0) as [Z|NZ].
  - unfold E. rewrite Z, Rminus_0_r, pow1, Rinv_1. lra.
  - assert (Hup : 0 < u) by lra.
    assert (Hku : INR k * u < 1).
    { assert (INR k * u * ((INR k + 1) * u) <= u) by nra.
      destruct (Rlt_or_le (INR k * u) 1) as [L|L]; [exact L|]. nra. }
    apply Rle_trans with (1 := E_gamma k Hku).
    apply Rmult_le_reg_r with (1 - INR k * u); [lra|].
    unfold Rdiv; rewrite Rmult_assoc, Rinv_l, Rmult_1_r by lra. nra.
Qed.

Lemma E_87 : forall k, INR k * u <= 1 / 8 -> E k <= 8 / 7 * (INR k * u).
Proof.
  intros k Hk. pose proof (pos_INR k) as Hn.
  apply Rle_trans with (1 := E_gamma k ltac:(lra)).
  assert (Hx : 0 <= INR k * u) by (apply Rmult_le_pos; lra).
  set (x := INR k * u) in *.
  apply Rmult_le_reg_r with (1 - x); [lra|].
  unfold Rdiv; rewrite Rmult_assoc, Rinv_l, Rmult_1_r by lra. nra.
Qed.

Lemma rel_err : forall k x y, rel k x y -> Rabs (x - y) <= E k * Rabs y.
Proof.
  intros k x y [f [Hf ->]]. replace (y * f - y) with ((f - 1) * y) by ring.
  rewrite Rabs_mult. apply Rmult_le_compat_r; [apply Rabs_pos | apply within_E, Hf].
Qed.

(* ---------------------------------------------------------------------------------------------------------------- *)
(* Part 2b: the operations of an arithmetic satisfying the standard model *)

Variable ar : ops R.
Hypothesis Hm : std_model u ar.

Lemma m_sub : forall a b, rel 1 (o_sub ar a b) (a - b).
Proof.
  intros a b. destruct Hm as (_ & Hs & _). destruct (Hs a b) as [e [He ->]].
  apply (rel_round 0); [apply rel_refl | exact He].
Qed.

Lemma m_mul : forall a b x y x' y', rel a x y -> rel b x' y' -> rel (S (a + b)) (o_mul ar x x') (y * y').
Proof.
  intros a b x y x' y' H H'. destruct Hm as (_ & _ & Hmu & _). destruct (Hmu x x') as [e [He ->]].
  apply rel_round; [apply rel_mul; assumption | exact He].
Qed.

Lemma m_add_nonneg : forall k x y x' y', 0 <= y -> 0 <= y' -> rel k x y -> rel k x' y' ->
  rel (S k) (o_add ar x x') (y + y').
Proof.
  intros k x y x' y' Hy Hy' H H'. destruct Hm as (Ha & _). destruct (Ha x x') as [e [He ->]].
  apply rel_round; [apply rel_add_nonneg; assumption | exact He].
Qed.

Lemma m_inv : forall k x y, 0 < y -> rel k x y -> rel (S k) (o_div ar (o_one ar) x) (1 / y).
Proof.
  intros k x y Hy H. pose proof (rel_pos _ _ _ H Hy) as Hx.
  destruct Hm as (_ & _ & _ & Hd & _ & _ & ->). destruct (Hd 1 x ltac:(lra)) as [e [He ->]].
  apply rel_round; [|exact He]. unfold Rdiv; rewrite !Rmult_1_l. apply rel_inv, H.
Qed.

Lemma m_sqrt : forall k x y, 0 <= y -> rel (k + k) x y -> rel (S k) (o_sqrt ar x) (sqrt y).
Proof.
  intros k x y Hy H. pose proof (rel_nonneg _ _ _ H Hy) as Hx.
  destruct Hm as (_ & _ & _ & _ & Hs & _). destruct (Hs x Hx) as [e [He ->]].
  apply rel_round; [apply rel_sqrt; assumption | exact He].
Qed.

(* ---------------------------------------------------------------------------------------------------------------- *)
(* Part 2c: MAIN A, the pair computation *)

Lemma sq_nonneg : forall a : R, 0 <= a * a.
Proof. intros a; nra. Qed.

Lemma d2_expand : forall s t : partR,
  (p_x _ s - p_x _ t) * (p_x _ s - p_x _ t) + (p_y _ s - p_y _ t) * (p_y _ s - p_y _ t)
  + (p_z _ s - p_z _ t) * (p_z _ s - p_z _ t) = d2 s t.
Proof. intros s t; unfold d2; ring. Qed.

(* every output of the perturbed pair computation is the exact one times a bounded product of rounding factors:
   4 factors for the potential kernel 1/r, 15 for each force component *)
Lemma pair_rel : forall s t, apart s t ->
  let '(fx, fy, fz, inv) := pair R ar s t in
  rel 15 fx (f_x _ (contrib s t)) /\ rel 15 fy (f_y _ (contrib s t)) /\ rel 15 fz (f_z _ (contrib s t)) /\
  rel 4 inv (/ rdist s t).
Proof.
  intros s t Hap. unfold pair.
  set (X := p_x _ s - p_x _ t). set (Y := p_y _ s - p_y _ t). set (Z := p_z _ s - p_z _ t).
  set (dx := o_sub ar (p_x _ s) (p_x _ t)).
  set (dy := o_sub ar (p_y _ s) (p_y _ t)).
  set (dz := o_sub ar (p_z _ s) (p_z _ t)).
  assert (Rx : rel 1 dx X) by apply m_sub.
  assert (Ry : rel 1 dy Y) by apply m_sub.
  assert (Rz : rel 1 dz Z) by apply m_sub.
  assert (Rxx : rel 3 (o_mul ar dx dx) (X * X)) by (apply (m_mul 1 1); assumption).
  assert (Ryy : rel 3 (o_mul ar dy dy) (Y * Y)) by (apply (m_mul 1 1); assumption).
  assert (Rzz : rel 3 (o_mul ar dz dz) (Z * Z)) by (apply (m_mul 1 1); assumption).
  set (s1 := o_add ar (o_mul ar dx dx) (o_mul ar dy dy)).
  assert (R1 : rel 4 s1 (X * X + Y * Y)) by (apply (m_add_nonneg 3); auto using sq_nonneg).
  set (s2 := o_add ar s1 (o_mul ar dz dz)).
  assert (R2 : rel 5 s2 (d2 s t)).
  { unfold d2. fold X Y Z. replace (X ^ 2 + Y ^ 2 + Z ^ 2) with ((X * X + Y * Y) + Z * Z) by ring.
    apply (m_add_nonneg 4); auto using sq_nonneg.
    - pose proof (sq_nonneg X); pose proof (sq_nonneg Y); lra.
    - apply (rel_weaken 3); [lia | exact Rzz]. }
  set (isd0 := o_div ar (o_one ar) s2).
  assert (R0 : rel 6 isd0 (1 / d2 s t)) by (apply (m_inv 5); [exact Hap | exact R2]).
  assert (Hd0 : 0 <= 1 / d2 s t).
  { unfold Rdiv; rewrite Rmult_1_l. left; apply Rinv_0_lt_compat, Hap. }
  set (inv := o_sqrt ar isd0).
  assert (Ri : rel 4 inv (/ rdist s t)).
  { rewrite <- (inv_dist s t Hap). apply (m_sqrt 3); [exact Hd0 | exact R0]. }
  set (isd1 := o_mul ar isd0 inv).
  assert (RI1 : rel 11 isd1 (1 / d2 s t * / rdist s t)) by (apply (m_mul 6 4); assumption).
  set (vv := o_mul ar (p_v _ t) (p_v _ s)).
  assert (Rv : rel 1 vv (p_v _ t * p_v _ s)) by (apply (m_mul 0 0); apply rel_refl).
  set (isd2 := o_mul ar isd1 vv).
  assert (RI2 : rel 13 isd2 (1 / d2 s t * / rdist s t * (p_v _ t * p_v _ s))) by (apply (m_mul 11 1); assumption).
  pose proof (rdist_pos s t Hap) as Hr. pose proof (rdist_sq s t Hap) as Hsq.
  assert (EQ : forall d, d * (1 / d2 s t * / rdist s t * (p_v _ t * p_v _ s))
                        = p_v _ t * p_v _ s * d / rdist s t ^ 3).
  { intros d. rewrite <- Hsq. field. lra. }
  cbn [contrib f_x f_y f_z]. fold X Y Z. rewrite <- !EQ.
  repeat split; try exact Ri; apply (m_mul 1 13); assumption.
Qed.

Lemma E4 : E 4 <= 5 * u.
Proof. apply Rle_trans with (1 := E_lin 4 ltac:(simpl INR; lra)). simpl INR; lra. Qed.

Lemma E15 : E 15 <= 16 * u.
Proof. apply Rle_trans with (1 := E_lin 15 ltac:(simpl INR; lra)). simpl INR; lra. Qed.

Lemma rel_err_lin : forall k c x y, E k <= c * u -> rel k x y -> Rabs (x - y) <= c * u * Rabs y.
Proof.
  intros k c x y Hc H. apply Rle_trans with (1 := rel_err k x y H).
  apply Rmult_le_compat_r; [apply Rabs_pos | exact Hc].
Qed.

(* MAIN A, potential kernel *)
Theorem pair_potential_error : forall s t, apart s t ->
  let '(fx, fy, fz, inv) := pair R ar s t in
  Rabs (inv - / rdist s t) <= 5 * u * / rdist s t.
Proof.
  intros s t Hap. pose proof (pair_rel s t Hap) as H.
  destruct (pair R ar s t) as [[[fx fy] fz] inv]. destruct H as (_ & _ & _ & Hi).
  pose proof (rel_err_lin 4 5 _ _ E4 Hi) as HH.
  rewrite (Rabs_pos_eq (/ rdist s t)) in HH; [exact HH|].
  left; apply Rinv_0_lt_compat, rdist_pos, Hap.
Qed.

(* MAIN A, force components *)
Theorem pair_force_error : forall s t, apart s t ->
  let '(fx, fy, fz, inv) := pair R ar s t in
  Rabs (fx - f_x _ (contrib s t)) <= 16 * u * Rabs (f_x _ (contrib s t)) /\
  Rabs (fy - f_y _ (contrib s t)) <= 16 * u * Rabs (f_y _ (contrib s t)) /\
  Rabs (fz - f_z _ (contrib s t)) <= 16 * u * Rabs (f_z _ (contrib s t)).
Proof.
  intros s t Hap. pose proof (pair_rel s t Hap) as H.
  destruct (pair R ar s t) as [[[fx fy] fz] inv]. destruct H as (Hx & Hy & Hz & _).
  repeat split; apply (rel_err_lin 15 16 _ _ E15); assumption.
Qed.

End Calc.

Print Assumptions pair_potential_error.
Print Assumptions pair_force_error.
