(* Rounding clause of the direct P2P property: the results of the model Num/P2PDefs.v, evaluated with ANY arithmetic
   that satisfies the standard model of floating-point arithmetic with unit roundoff u, match the exact evaluation
   (Num/P2PReal.v: contrib, rdist) up to an explicit multiple of u.
     Part 1  std_model
     Part 2  MAIN A : one pair interaction (potential kernel 5u, force components 16u)
     Part 3  MAIN B : the accumulation of remote_one (recursive summation), potential and the three force components
     Part 4  MAIN C : IEEE binary64 operations (Flocq) satisfy the premise of std_model in the normal range
   Parts 1-3 use only Coq's Reals; part 4 uses Flocq.  No axiom is declared here. *)
From Coq Require Import List Reals Lra Psatz Lia Arith.
From Tbfmm Require Import Num.P2PDefs Num.P2PReal.
Import ListNotations.
Local Open Scope R_scope.

(* ---------------------------------------------------------------------------------------------------------------- *)
(* Part 1: the standard model *)

Definition std_model (u : R) (ar : ops R) : Prop :=
  (forall a b, exists e, Rabs e <= u /\ o_add ar a b = (a + b) * (1 + e)) /\
  (forall a b, exists e, Rabs e <= u /\ o_sub ar a b = (a - b) * (1 + e)) /\
  (forall a b, exists e, Rabs e <= u /\ o_mul ar a b = (a * b) * (1 + e)) /\
  (forall a b, b <> 0 -> exists e, Rabs e <= u /\ o_div ar a b = (a / b) * (1 + e)) /\
  (forall a, 0 <= a -> exists e, Rabs e <= u /\ o_sqrt ar a = sqrt a * (1 + e)) /\
  o_zero ar = 0 /\ o_one ar = 1.

(* the exact arithmetic satisfies the model for every u >= 0 *)
Lemma std_model_exact : forall u, 0 <= u -> std_model u r_ops.
Proof.
  intros u Hu.
  assert (H0 : Rabs 0 <= u) by (rewrite Rabs_R0; exact Hu).
  unfold std_model; simpl.
  repeat split; intros; exists 0; (split; [exact H0 | ring]).
Qed.

Lemma Rabs_le_both : forall e u, Rabs e <= u -> - u <= e <= u.
Proof. intros e u; unfold Rabs; destruct (Rcase_abs e); lra. Qed.

(* ---------------------------------------------------------------------------------------------------------------- *)
(* Part 2a: calculus of accumulated relative errors.
   within k f : f is a product of at most k factors (1+e)^(+-1), |e| <= u :  (1-u)^k <= f <= 1/(1-u)^k *)

Section Calc.
Variable u : R.
Hypothesis Hu : 0 <= u <= 1 / 1024.
Local Notation q := (1 - u).

Definition within (k : nat) (f : R) : Prop := q ^ k <= f <= / q ^ k.
Definition rel (k : nat) (x y : R) : Prop := exists f, within k f /\ x = y * f.
Definition E (k : nat) : R := / q ^ k - 1.

Lemma q_pos : 0 < q.
Proof. lra. Qed.

Lemma qk_pos : forall k, 0 < q ^ k.
Proof. intros k; apply pow_lt, q_pos. Qed.

Lemma qk_le1 : forall k, q ^ k <= 1.
Proof.
  induction k as [|k IH]; simpl; [lra|].
  pose proof (qk_pos k) as Hp. nra.
Qed.

Lemma iqk_ge1 : forall k, 1 <= / q ^ k.
Proof.
  intros k. rewrite <- Rinv_1 at 1.
  apply Rinv_le_contravar; [apply qk_pos | apply qk_le1].
Qed.

Lemma iqk_pos : forall k, 0 < / q ^ k.
Proof. intros k; apply Rinv_0_lt_compat, qk_pos. Qed.

Lemma qk_mono : forall a b, (a <= b)%nat -> q ^ b <= q ^ a.
Proof.
  intros a b Hab. replace b with (a + (b - a))%nat by lia.
  rewrite pow_add. pose proof (qk_pos a). pose proof (qk_le1 (b - a)). pose proof (qk_pos (b - a)). nra.
Qed.

Lemma iqk_mono : forall a b, (a <= b)%nat -> / q ^ a <= / q ^ b.
Proof. intros a b Hab. apply Rinv_le_contravar; [apply qk_pos | apply qk_mono, Hab]. Qed.

Lemma within_pos : forall k f, within k f -> 0 < f.
Proof. intros k f [H _]. pose proof (qk_pos k). lra. Qed.

Lemma within_one : forall k, within k 1.
Proof. intros k; split; [apply qk_le1 | apply iqk_ge1]. Qed.

Lemma within_weaken : forall a b f, (a <= b)%nat -> within a f -> within b f.
Proof.
  intros a b f Hab [H1 H2]. pose proof (qk_mono a b Hab). pose proof (iqk_mono a b Hab).
  split; lra.
Qed.

Lemma within_mul : forall a b f g, within a f -> within b g -> within (a + b) (f * g).
Proof.
  intros a b f g [F1 F2] [G1 G2]. unfold within. rewrite pow_add, Rinv_mult.
  pose proof (qk_pos a). pose proof (qk_pos b).
  split; apply Rmult_le_compat; lra.
Qed.

Lemma within_inv : forall a f, within a f -> within a (/ f).
Proof.
  intros a f [F1 F2]. pose proof (qk_pos a) as Hq.
  split.
  - rewrite <- (Rinv_inv (q ^ a)). apply Rinv_le_contravar; [lra | exact F2].
  - apply Rinv_le_contravar; [exact Hq | exact F1].
Qed.

Lemma within_sqrt : forall a f, within (a + a) f -> within a (sqrt f).
Proof.
  intros a f [F1 F2]. rewrite pow_add, ?Rinv_mult in *.
  pose proof (qk_pos a) as Hq. pose proof (iqk_pos a) as Hi.
  split.
  - rewrite <- (sqrt_square (q ^ a)) by lra. apply sqrt_le_1_alt; exact F1.
  - rewrite <- (sqrt_square (/ q ^ a)) by lra. apply sqrt_le_1_alt; exact F2.
Qed.

Lemma eps_within : forall e, Rabs e <= u -> within 1 (1 + e).
Proof.
  intros e He. apply Rabs_le_both in He. unfold within. rewrite pow_1.
  split; [lra|].
  apply Rle_trans with (1 + u); [lra|].
  apply Rmult_le_reg_r with q; [lra|]. rewrite Rinv_l by lra. nra.
Qed.

(* ---- rel ---- *)
Lemma rel_refl : forall x, rel 0 x x.
Proof. intros x; exists 1; split; [apply within_one | ring]. Qed.

Lemma rel_weaken : forall a b x y, (a <= b)%nat -> rel a x y -> rel b x y.
Proof. intros a b x y Hab [f [Hf E0]]. exists f; split; [eapply within_weaken; eauto | exact E0]. Qed.

Lemma rel_round : forall k x y e, rel k x y -> Rabs e <= u -> rel (S k) (x * (1 + e)) y.
Proof.
  intros k x y e [f [Hf ->]] He. exists (f * (1 + e)); split; [|ring].
  replace (S k) with (k + 1)%nat by lia. apply within_mul; [exact Hf | apply eps_within, He].
Qed.

Lemma rel_mul : forall a b x y x' y', rel a x y -> rel b x' y' -> rel (a + b) (x * x') (y * y').
Proof.
  intros a b x y x' y' [f [Hf ->]] [g [Hg ->]]. exists (f * g); split; [apply within_mul; assumption | ring].
Qed.

Lemma rel_inv : forall a x y, rel a x y -> rel a (/ x) (/ y).
Proof.
  intros a x y [f [Hf ->]]. exists (/ f); split; [apply within_inv, Hf | apply Rinv_mult].
Qed.

Lemma rel_sqrt : forall a x y, 0 <= y -> rel (a + a) x y -> rel a (sqrt x) (sqrt y).
Proof.
  intros a x y Hy [f [Hf ->]]. exists (sqrt f); split; [apply within_sqrt, Hf | apply sqrt_mult_alt, Hy].
Qed.

Lemma rel_pos : forall a x y, rel a x y -> 0 < y -> 0 < x.
Proof. intros a x y [f [Hf ->]] Hy. apply Rmult_lt_0_compat; [exact Hy | eapply within_pos, Hf]. Qed.

Lemma rel_nonneg : forall a x y, rel a x y -> 0 <= y -> 0 <= x.
Proof. intros a x y [f [Hf ->]] Hy. apply Rmult_le_pos; [exact Hy | left; eapply within_pos, Hf]. Qed.

(* sums of non-negative terms keep the worst relative error of the terms *)
Lemma rel_add_nonneg : forall k x y x' y', 0 <= y -> 0 <= y' -> rel k x y -> rel k x' y' -> rel k (x + x') (y + y').
Proof.
  intros k x y x' y' Hy Hy' [f [[F1 F2] ->]] [g [[G1 G2] ->]].
  destruct (Req_dec (y + y') 0) as [Z|NZ].
  - assert (y = 0) by lra. assert (y' = 0) by lra. subst y y'.
    exists 1; split; [apply within_one | ring].
  - assert (Hs : 0 < y + y') by lra.
    exists ((y * f + y' * g) / (y + y')); split; [|field; exact NZ].
    split.
    + apply Rmult_le_reg_r with (y + y'); [exact Hs|].
      unfold Rdiv; rewrite Rmult_assoc, Rinv_l, Rmult_1_r by exact NZ. nra.
    + apply Rmult_le_reg_r with (y + y'); [exact Hs|].
      unfold Rdiv; rewrite Rmult_assoc, Rinv_l, Rmult_1_r by exact NZ. nra.
Qed.

(* ---- from accumulated factors to a linear bound ---- *)
Lemma E_nonneg : forall k, 0 <= E k.
Proof. intros k; unfold E; pose proof (iqk_ge1 k); lra. Qed.

Lemma E_mono : forall a b, (a <= b)%nat -> E a <= E b.
Proof. intros a b Hab; unfold E; pose proof (iqk_mono a b Hab); lra. Qed.

Lemma within_E : forall k f, within k f -> Rabs (f - 1) <= E k.
Proof.
  intros k f [F1 F2]. unfold E.
  pose proof (qk_pos k) as Hq. pose proof (iqk_pos k) as Hi.
  assert (Hqi : q ^ k * / q ^ k = 1) by (apply Rinv_r; lra).
  apply Rabs_le. split; [|lra].
  assert (2 <= q ^ k + / q ^ k) by nra. lra.
Qed.

Lemma bernoulli : forall k, 1 - INR k * u <= q ^ k.
Proof.
  induction k as [|k IH]; [simpl; lra|].
  rewrite S_INR. cbn [pow]. pose proof (pos_INR k). pose proof (qk_pos k). nra.
Qed.

(* gamma_k *)
Lemma E_gamma : forall k, INR k * u < 1 -> E k <= INR k * u / (1 - INR k * u).
Proof.
  intros k Hk. unfold E. pose proof (bernoulli k) as HB.
  assert (Hle : / q ^ k <= / (1 - INR k * u)) by (apply Rinv_le_contravar; lra).
  replace (INR k * u / (1 - INR k * u)) with (/ (1 - INR k * u) - 1) by (field; lra).
  lra.
Qed.

Lemma E_lin : forall k, INR k * (INR k + 1) * u <= 1 -> E k <= (INR k + 1) * u.
Proof.
  intros k Hk. pose proof (pos_INR k) as Hn.
  destruct (Req_dec u 0) as [Z|NZ].
  - unfold E. rewrite Z, Rminus_0_r, pow1, Rinv_1. lra.
  - assert (Hup : 0 < u) by lra.
    assert (Hku : INR k * u < 1).
    { assert (INR k * u * ((INR k + 1) * u) <= u) by nra.
      destruct (Rlt_or_le (INR k * u) 1) as [L|L]; [exact L|]. nra. }
    apply Rle_trans with (1 := E_gamma k Hku).
    apply Rmult_le_reg_r with (1 - INR k * u); [lra|].
    unfold Rdiv; rewrite Rmult_assoc, Rinv_l, Rmult_1_r by lra. nra.
Qed.

Lemma E_87 : forall k, INR k * u <= 1 / 8 -> E k <= 8 / 7 * (INR k * u).
Proof.
  intros k Hk. pose proof (pos_INR k) as Hn.
  apply Rle_trans with (1 := E_gamma k ltac:(lra)).
  assert (Hx : 0 <= INR k * u) by (apply Rmult_le_pos; lra).
  set (x := INR k * u) in *.
  apply Rmult_le_reg_r with (1 - x); [lra|].
  unfold Rdiv; rewrite Rmult_assoc, Rinv_l, Rmult_1_r by lra. nra.
Qed.

Lemma rel_err : forall k x y, rel k x y -> Rabs (x - y) <= E k * Rabs y.
Proof.
  intros k x y [f [Hf ->]]. replace (y * f - y) with ((f - 1) * y) by ring.
  rewrite Rabs_mult. apply Rmult_le_compat_r; [apply Rabs_pos | apply within_E, Hf].
Qed.

(* ---------------------------------------------------------------------------------------------------------------- *)
(* Part 2b: the operations of an arithmetic satisfying the standard model *)

Variable ar : ops R.
Hypothesis Hm : std_model u ar.

Lemma m_sub : forall a b, rel 1 (o_sub ar a b) (a - b).
Proof.
  intros a b. destruct Hm as (_ & Hs & _). destruct (Hs a b) as [e [He ->]].
  apply (rel_round 0); [apply rel_refl | exact He].
Qed.

Lemma m_mul : forall a b x y x' y', rel a x y -> rel b x' y' -> rel (S (a + b)) (o_mul ar x x') (y * y').
Proof.
  intros a b x y x' y' H H'. destruct Hm as (_ & _ & Hmu & _). destruct (Hmu x x') as [e [He ->]].
  apply rel_round; [apply rel_mul; assumption | exact He].
Qed.

Lemma m_add_nonneg : forall k x y x' y', 0 <= y -> 0 <= y' -> rel k x y -> rel k x' y' ->
  rel (S k) (o_add ar x x') (y + y').
Proof.
  intros k x y x' y' Hy Hy' H H'. destruct Hm as (Ha & _). destruct (Ha x x') as [e [He ->]].
  apply rel_round; [apply rel_add_nonneg; assumption | exact He].
Qed.

Lemma m_inv : forall k x y, 0 < y -> rel k x y -> rel (S k) (o_div ar (o_one ar) x) (1 / y).
Proof.
  intros k x y Hy H. pose proof (rel_pos _ _ _ H Hy) as Hx.
  destruct Hm as (_ & _ & _ & Hd & _ & _ & ->). destruct (Hd 1 x ltac:(lra)) as [e [He ->]].
  apply rel_round; [|exact He]. unfold Rdiv; rewrite !Rmult_1_l. apply rel_inv, H.
Qed.

Lemma m_sqrt : forall k x y, 0 <= y -> rel (k + k) x y -> rel (S k) (o_sqrt ar x) (sqrt y).
Proof.
  intros k x y Hy H. pose proof (rel_nonneg _ _ _ H Hy) as Hx.
  destruct Hm as (_ & _ & _ & _ & Hs & _). destruct (Hs x Hx) as [e [He ->]].
  apply rel_round; [apply rel_sqrt; assumption | exact He].
Qed.

(* ---------------------------------------------------------------------------------------------------------------- *)
(* Part 2c: MAIN A, the pair computation *)

Lemma sq_nonneg : forall a : R, 0 <= a * a.
Proof. intros a; nra. Qed.

Lemma d2_expand : forall s t : partR,
  (p_x _ s - p_x _ t) * (p_x _ s - p_x _ t) + (p_y _ s - p_y _ t) * (p_y _ s - p_y _ t)
  + (p_z _ s - p_z _ t) * (p_z _ s - p_z _ t) = d2 s t.
Proof. intros s t; unfold d2; ring. Qed.

(* every output of the perturbed pair computation is the exact one times a bounded product of rounding factors:
   4 factors for the potential kernel 1/r, 15 for each force component *)
Lemma pair_rel : forall s t, apart s t ->
  let '(fx, fy, fz, inv) := pair R ar s t in
  rel 15 fx (f_x _ (contrib s t)) /\ rel 15 fy (f_y _ (contrib s t)) /\ rel 15 fz (f_z _ (contrib s t)) /\
  rel 4 inv (/ rdist s t).
Proof.
  intros s t Hap. unfold pair.
  set (X := p_x _ s - p_x _ t). set (Y := p_y _ s - p_y _ t). set (Z := p_z _ s - p_z _ t).
  set (dx := o_sub ar (p_x _ s) (p_x _ t)).
  set (dy := o_sub ar (p_y _ s) (p_y _ t)).
  set (dz := o_sub ar (p_z _ s) (p_z _ t)).
  assert (Rx : rel 1 dx X) by apply m_sub.
  assert (Ry : rel 1 dy Y) by apply m_sub.
  assert (Rz : rel 1 dz Z) by apply m_sub.
  assert (Rxx : rel 3 (o_mul ar dx dx) (X * X)) by (apply (m_mul 1 1); assumption).
  assert (Ryy : rel 3 (o_mul ar dy dy) (Y * Y)) by (apply (m_mul 1 1); assumption).
  assert (Rzz : rel 3 (o_mul ar dz dz) (Z * Z)) by (apply (m_mul 1 1); assumption).
  set (s1 := o_add ar (o_mul ar dx dx) (o_mul ar dy dy)).
  assert (R1 : rel 4 s1 (X * X + Y * Y)) by (apply (m_add_nonneg 3); auto using sq_nonneg).
  set (s2 := o_add ar s1 (o_mul ar dz dz)).
  assert (R2 : rel 5 s2 (d2 s t)).
  { unfold d2. fold X Y Z. replace (X ^ 2 + Y ^ 2 + Z ^ 2) with ((X * X + Y * Y) + Z * Z) by ring.
    apply (m_add_nonneg 4); auto using sq_nonneg.
    - pose proof (sq_nonneg X); pose proof (sq_nonneg Y); lra.
    - apply (rel_weaken 3); [lia | exact Rzz]. }
  set (isd0 := o_div ar (o_one ar) s2).
  assert (R0 : rel 6 isd0 (1 / d2 s t)) by (apply (m_inv 5); [exact Hap | exact R2]).
  assert (Hd0 : 0 <= 1 / d2 s t).
  { unfold Rdiv; rewrite Rmult_1_l. left; apply Rinv_0_lt_compat, Hap. }
  set (inv := o_sqrt ar isd0).
  assert (Ri : rel 4 inv (/ rdist s t)).
  { rewrite <- (inv_dist s t Hap). apply (m_sqrt 3); [exact Hd0 | exact R0]. }
  set (isd1 := o_mul ar isd0 inv).
  assert (RI1 : rel 11 isd1 (1 / d2 s t * / rdist s t)) by (apply (m_mul 6 4); assumption).
  set (vv := o_mul ar (p_v _ t) (p_v _ s)).
  assert (Rv : rel 1 vv (p_v _ t * p_v _ s)) by (apply (m_mul 0 0); apply rel_refl).
  set (isd2 := o_mul ar isd1 vv).
  assert (RI2 : rel 13 isd2 (1 / d2 s t * / rdist s t * (p_v _ t * p_v _ s))) by (apply (m_mul 11 1); assumption).
  pose proof (rdist_pos s t Hap) as Hr. pose proof (rdist_sq s t Hap) as Hsq.
  assert (EQ : forall d, d * (1 / d2 s t * / rdist s t * (p_v _ t * p_v _ s))
                        = p_v _ t * p_v _ s * d / rdist s t ^ 3).
  { intros d. rewrite <- Hsq. field. lra. }
  cbn [contrib f_x f_y f_z]. fold X Y Z. rewrite <- !EQ.
  repeat split; try exact Ri; apply (m_mul 1 13); assumption.
Qed.

Lemma E4 : E 4 <= 5 * u.
Proof. apply Rle_trans with (1 := E_lin 4 ltac:(simpl INR; lra)). simpl INR; lra. Qed.

Lemma E15 : E 15 <= 16 * u.
Proof. apply Rle_trans with (1 := E_lin 15 ltac:(simpl INR; lra)). simpl INR; lra. Qed.

Lemma rel_err_lin : forall k c x y, E k <= c * u -> rel k x y -> Rabs (x - y) <= c * u * Rabs y.
Proof.
  intros k c x y Hc H. apply Rle_trans with (1 := rel_err k x y H).
  apply Rmult_le_compat_r; [apply Rabs_pos | exact Hc].
Qed.

(* MAIN A, potential kernel *)
Theorem pair_potential_error : forall s t, apart s t ->
  let '(fx, fy, fz, inv) := pair R ar s t in
  Rabs (inv - / rdist s t) <= 5 * u * / rdist s t.
Proof.
  intros s t Hap. pose proof (pair_rel s t Hap) as H.
  destruct (pair R ar s t) as [[[fx fy] fz] inv]. destruct H as (_ & _ & _ & Hi).
  pose proof (rel_err_lin 4 5 _ _ E4 Hi) as HH.
  rewrite (Rabs_pos_eq (/ rdist s t)) in HH; [exact HH|].
  left; apply Rinv_0_lt_compat, rdist_pos, Hap.
Qed.

(* MAIN A, force components *)
Theorem pair_force_error : forall s t, apart s t ->
  let '(fx, fy, fz, inv) := pair R ar s t in
  Rabs (fx - f_x _ (contrib s t)) <= 16 * u * Rabs (f_x _ (contrib s t)) /\
  Rabs (fy - f_y _ (contrib s t)) <= 16 * u * Rabs (f_y _ (contrib s t)) /\
  Rabs (fz - f_z _ (contrib s t)) <= 16 * u * Rabs (f_z _ (contrib s t)).
Proof.
  intros s t Hap. pose proof (pair_rel s t Hap) as H.
  destruct (pair R ar s t) as [[[fx fy] fz] inv]. destruct H as (Hx & Hy & Hz & _).
  repeat split; apply (rel_err_lin 15 16 _ _ E15); assumption.
Qed.

(* ---------------------------------------------------------------------------------------------------------------- *)
(* Part 3: MAIN B, the accumulation (recursive summation) *)

Definition Rsum (l : list R) : R := fold_right Rplus 0 l.

Lemma Rsum_cons : forall a l, Rsum (a :: l) = a + Rsum l.
Proof. reflexivity. Qed.

Lemma Rsum_abs_nonneg : forall (A : Type) (g : A -> R) l, 0 <= Rsum (map (fun s => Rabs (g s)) l).
Proof.
  intros A g l; induction l as [|a l IH]; cbn [map]; [unfold Rsum; simpl; lra|].
  rewrite Rsum_cons. pose proof (Rabs_pos (g a)). lra.
Qed.

(* x approximates A, where A is a sum of terms whose absolute values sum to B, with at most m roundings per term *)
Definition P (m : nat) (x A B : R) : Prop := Rabs (x - A) <= E m * B /\ Rabs A <= B.

Lemma P_zero : forall m, P m 0 0 0.
Proof. intros m; split; rewrite ?Rminus_0_r, Rabs_R0; lra. Qed.

Lemma P_of_rel : forall k m t a, (k <= m)%nat -> rel k t a -> P m t a (Rabs a).
Proof.
  intros k m t a Hk H; split; [|lra].
  apply Rle_trans with (1 := rel_err k t a H).
  apply Rmult_le_compat_r; [apply Rabs_pos | apply E_mono, Hk].
Qed.

Lemma P_add : forall m x A B x' A' B', P m x A B -> P m x' A' B' -> P m (x + x') (A + A') (B + B').
Proof.
  intros m x A B x' A' B' [H1 H2] [H1' H2']; split.
  - replace (x + x' - (A + A')) with ((x - A) + (x' - A')) by ring.
    apply Rle_trans with (1 := Rabs_triang _ _). rewrite Rmult_plus_distr_l. lra.
  - apply Rle_trans with (1 := Rabs_triang _ _). lra.
Qed.

Lemma E_step : forall m, (1 + E m) * (1 + u) <= 1 + E (S m).
Proof.
  intros m. unfold E. cbn [pow]. rewrite Rinv_mult.
  replace (1 + (/ q ^ m - 1)) with (/ q ^ m) by ring.
  replace (1 + (/ q * / q ^ m - 1)) with (/ q * / q ^ m) by ring.
  pose proof (iqk_pos m) as Hi.
  assert (Hq : 1 + u <= / q).
  { apply Rmult_le_reg_r with q; [lra|]. rewrite Rinv_l by lra. nra. }
  nra.
Qed.

Lemma P_round : forall m x A B e, P m x A B -> Rabs e <= u -> P (S m) (x * (1 + e)) A B.
Proof.
  intros m x A B e [H1 H2] He; split; [|exact H2].
  assert (HB : 0 <= B) by (pose proof (Rabs_pos A); lra).
  replace (x * (1 + e) - A) with ((x - A) * (1 + e) + A * e) by ring.
  apply Rle_trans with (1 := Rabs_triang _ _). rewrite !Rabs_mult.
  assert (He1 : Rabs (1 + e) <= 1 + u).
  { apply Rabs_le_both in He. apply Rabs_le. lra. }
  pose proof (E_nonneg m) as HE.
  assert (T1 : Rabs (x - A) * Rabs (1 + e) <= (E m * B) * (1 + u)).
  { apply Rmult_le_compat; try apply Rabs_pos; assumption. }
  assert (T2 : Rabs A * Rabs e <= B * u).
  { apply Rmult_le_compat; try apply Rabs_pos; assumption. }
  pose proof (Rmult_le_compat_l B _ _ HB (E_step m)) as T3.
  nra.
Qed.

Section Fold.
Variables (term exact : partR -> R) (k : nat).

Definition addterm (x : R) (s : partR) : R := o_add ar x (term s).

Lemma P_addterm : forall m acc A B s, (k <= m)%nat -> rel k (term s) (exact s) -> P m acc A B ->
  P (S m) (addterm acc s) (A + exact s) (B + Rabs (exact s)).
Proof.
  intros m acc A B s Hk Hs HP. unfold addterm.
  destruct Hm as (Ha & _). destruct (Ha acc (term s)) as [e [He ->]].
  apply P_round; [|exact He]. apply P_add; [exact HP | apply (P_of_rel k); assumption].
Qed.

Lemma fold_P : forall l, Forall (fun s => rel k (term s) (exact s)) l ->
  forall m acc A B, (k <= m)%nat -> P m acc A B ->
  P (m + length l) (fold_left addterm l acc) (A + Rsum (map exact l))
    (B + Rsum (map (fun s => Rabs (exact s)) l)).
Proof.
  intros l HF; induction HF as [|s l Hs HF IH]; intros m acc A B Hk HP.
  - cbn [fold_left map length]. unfold Rsum; cbn [fold_right]. rewrite Nat.add_0_r, !Rplus_0_r. exact HP.
  - cbn [fold_left map length]. rewrite !Rsum_cons, <- !Rplus_assoc, Nat.add_succ_r.
    apply (IH (S m)); [lia|]. apply P_addterm; assumption.
Qed.

(* the accumulation of remote_one for one component: start from zero, add the terms in order, add to zero *)
Lemma accum_err : forall l, Forall (fun s => rel k (term s) (exact s)) l ->
  Rabs (o_add ar (o_zero ar) (fold_left addterm l (o_zero ar)) - Rsum (map exact l))
  <= E (length l + S k) * Rsum (map (fun s => Rabs (exact s)) l).
Proof.
  intros l HF. pose proof Hm as (Ha & _ & _ & _ & _ & Hz & _). rewrite Hz.
  pose proof (fold_P l HF k 0 0 0 (le_n k) (P_zero k)) as HP.
  destruct (Ha 0 (fold_left addterm l 0)) as [e [He ->]].
  pose proof (P_round _ _ _ _ e (P_add _ _ _ _ _ _ _ (P_zero (k + length l)) HP) He) as [H _].
  rewrite !Rplus_0_l in H.
  replace (length l + S k)%nat with (S (k + length l)) by lia. rewrite Rplus_0_l. exact H.
Qed.
End Fold.

Lemma fold_left_proj : forall (A B C : Type) (F : A -> B -> A) (g : C -> B -> C) (pr : A -> C),
  (forall a b, pr (F a b) = g (pr a) b) -> forall l a, pr (fold_left F l a) = fold_left g l (pr a).
Proof.
  intros A B C F g pr H l; induction l as [|b l IH]; intros a; cbn [fold_left]; [reflexivity|].
  rewrite IH, H; reflexivity.
Qed.

Definition term_x (t s : partR) : R := let '(dx, _, _, _) := pair R ar s t in dx.
Definition term_y (t s : partR) : R := let '(_, dy, _, _) := pair R ar s t in dy.
Definition term_z (t s : partR) : R := let '(_, _, dz, _) := pair R ar s t in dz.
Definition term_p (t s : partR) : R := let '(_, _, _, inv) := pair R ar s t in o_mul ar inv (p_v _ s).

Lemma remote_one_proj : forall srcs t,
  let r := remote_one R ar srcs t (rhs0 R ar) in
  f_x _ r = o_add ar (o_zero ar) (fold_left (addterm (term_x t)) srcs (o_zero ar)) /\
  f_y _ r = o_add ar (o_zero ar) (fold_left (addterm (term_y t)) srcs (o_zero ar)) /\
  f_z _ r = o_add ar (o_zero ar) (fold_left (addterm (term_z t)) srcs (o_zero ar)) /\
  f_p _ r = o_add ar (o_zero ar) (fold_left (addterm (term_p t)) srcs (o_zero ar)).
Proof.
  intros srcs t. unfold remote_one. cbn [f_x f_y f_z f_p rhs0].
  repeat split; f_equal.
  - apply (fold_left_proj _ _ _ _ (addterm (term_x t)) (f_x R)).
    intros a s; unfold addterm, term_x; destruct (pair R ar s t) as [[[? ?] ?] ?]; reflexivity.
  - apply (fold_left_proj _ _ _ _ (addterm (term_y t)) (f_y R)).
    intros a s; unfold addterm, term_y; destruct (pair R ar s t) as [[[? ?] ?] ?]; reflexivity.
  - apply (fold_left_proj _ _ _ _ (addterm (term_z t)) (f_z R)).
    intros a s; unfold addterm, term_z; destruct (pair R ar s t) as [[[? ?] ?] ?]; reflexivity.
  - apply (fold_left_proj _ _ _ _ (addterm (term_p t)) (f_p R)).
    intros a s; unfold addterm, term_p; destruct (pair R ar s t) as [[[? ?] ?] ?]; reflexivity.
Qed.

Lemma term_rel : forall s t, apart s t ->
  rel 15 (term_x t s) (f_x _ (contrib s t)) /\ rel 15 (term_y t s) (f_y _ (contrib s t)) /\
  rel 15 (term_z t s) (f_z _ (contrib s t)) /\ rel 5 (term_p t s) (f_p _ (contrib s t)).
Proof.
  intros s t Hap. pose proof (pair_rel s t Hap) as H. unfold term_x, term_y, term_z, term_p.
  destruct (pair R ar s t) as [[[fx fy] fz] inv]. destruct H as (Hx & Hy & Hz & Hi).
  repeat split; try assumption.
  cbn [contrib f_p]. unfold Rdiv. rewrite (Rmult_comm (p_v _ s)).
  apply (m_mul 4 0); [exact Hi | apply rel_refl].
Qed.

Lemma Forall_term : forall srcs t (k : nat) (term exact : partR -> partR -> R),
  (forall s, apart s t -> rel k (term t s) (exact s t)) ->
  Forall (fun s => apart s t) srcs -> Forall (fun s => rel k (term t s) (exact s t)) srcs.
Proof. intros srcs t k term exact H HF. eapply Forall_impl; [|exact HF]. exact H. Qed.

(* MAIN B, exact form of the bound: E K = 1/(1-u)^K - 1 <= K u / (1 - K u) *)
Theorem remote_potential_error_E : forall srcs t, Forall (fun s => apart s t) srcs ->
  Rabs (f_p _ (remote_one R ar srcs t (rhs0 R ar)) - Rsum (map (fun s => f_p _ (contrib s t)) srcs))
  <= E (length srcs + 6) * Rsum (map (fun s => Rabs (f_p _ (contrib s t))) srcs).
Proof.
  intros srcs t HF. destruct (remote_one_proj srcs t) as (_ & _ & _ & ->).
  apply (accum_err (term_p t) (fun s => f_p _ (contrib s t)) 5).
  eapply Forall_impl; [|exact HF]. intros s Hs; apply (term_rel s t Hs).
Qed.

Theorem remote_force_error_E : forall srcs t, Forall (fun s => apart s t) srcs ->
  let r := remote_one R ar srcs t (rhs0 R ar) in
  Rabs (f_x _ r - Rsum (map (fun s => f_x _ (contrib s t)) srcs))
    <= E (length srcs + 16) * Rsum (map (fun s => Rabs (f_x _ (contrib s t))) srcs) /\
  Rabs (f_y _ r - Rsum (map (fun s => f_y _ (contrib s t)) srcs))
    <= E (length srcs + 16) * Rsum (map (fun s => Rabs (f_y _ (contrib s t))) srcs) /\
  Rabs (f_z _ r - Rsum (map (fun s => f_z _ (contrib s t)) srcs))
    <= E (length srcs + 16) * Rsum (map (fun s => Rabs (f_z _ (contrib s t))) srcs).
Proof.
  intros srcs t HF r. destruct (remote_one_proj srcs t) as (Ex & Ey & Ez & _).
  fold r in Ex, Ey, Ez. rewrite Ex, Ey, Ez.
  repeat split.
  - apply (accum_err (term_x t) (fun s => f_x _ (contrib s t)) 15).
    eapply Forall_impl; [|exact HF]. intros s Hs; apply (term_rel s t Hs).
  - apply (accum_err (term_y t) (fun s => f_y _ (contrib s t)) 15).
    eapply Forall_impl; [|exact HF]. intros s Hs; apply (term_rel s t Hs).
  - apply (accum_err (term_z t) (fun s => f_z _ (contrib s t)) 15).
    eapply Forall_impl; [|exact HF]. intros s Hs; apply (term_rel s t Hs).
Qed.

(* linear forms of the bound *)
Lemma lin_from_E : forall K c X B, X <= E K * B -> 0 <= B -> E K <= c -> X <= c * B.
Proof. intros K c X B H HB Hc. apply Rle_trans with (1 := H). apply Rmult_le_compat_r; assumption. Qed.

Lemma INR_plus_c : forall n c, INR (n + c) = INR n + INR c.
Proof. intros; apply plus_INR. Qed.

Lemma INR6 : INR 6 = 6.  Proof. simpl; lra. Qed.
Lemma INR16 : INR 16 = 16.  Proof. simpl; lra. Qed.

Lemma E_lin_n : forall n c, (INR n + INR c) * (INR n + INR c + 1) * u <= 1 -> E (n + c) <= (INR n + INR c + 1) * u.
Proof. intros n c H. pose proof (E_lin (n + c)) as HL. rewrite plus_INR in HL. apply HL, H. Qed.

Lemma E_87_n : forall n c, (INR n + INR c) * u <= 1 / 8 -> E (n + c) <= 8 / 7 * ((INR n + INR c) * u).
Proof. intros n c H. pose proof (E_87 (n + c)) as HL. rewrite plus_INR in HL. apply HL, H. Qed.

Lemma abs_potential : forall srcs t, Forall (fun s => apart s t) srcs ->
  map (fun s => Rabs (f_p _ (contrib s t))) srcs = map (fun s => Rabs (p_v _ s) / rdist s t) srcs.
Proof.
  intros srcs t HF. apply map_ext_in. intros s Hs. rewrite Forall_forall in HF.
  pose proof (rdist_pos s t (HF s Hs)) as Hr. cbn [contrib f_p]. unfold Rdiv.
  rewrite Rabs_mult, (Rabs_pos_eq (/ rdist s t)); [reflexivity|].
  left; apply Rinv_0_lt_compat, Hr.
Qed.

(* MAIN B, potential: (n + 7) u when (n+6)(n+7) u <= 1 *)
Theorem remote_potential_error : forall srcs t, Forall (fun s => apart s t) srcs ->
  let n := INR (length srcs) in
  (n + 6) * (n + 7) * u <= 1 ->
  Rabs (f_p _ (remote_one R ar srcs t (rhs0 R ar)) - Rsum (map (fun s => p_v _ s / rdist s t) srcs))
  <= ((n + 7) * u) * Rsum (map (fun s => Rabs (p_v _ s) / rdist s t) srcs).
Proof.
  intros srcs t HF n Hn. rewrite <- (abs_potential srcs t HF).
  apply (lin_from_E (length srcs + 6)).
  - exact (remote_potential_error_E srcs t HF).
  - apply Rsum_abs_nonneg.
  - pose proof (E_lin_n (length srcs) 6) as HL. rewrite INR6 in HL. fold n in HL.
    replace (n + 7) with (n + 6 + 1) by ring. apply HL. replace (n + 6 + 1) with (n + 7) by ring. exact Hn.
Qed.

(* MAIN B, potential, under n u <= 1/16 : 8/7 (n + 6) u   (>= gamma_(n+6)) *)
Theorem remote_potential_error_16 : forall srcs t, Forall (fun s => apart s t) srcs ->
  let n := INR (length srcs) in
  n * u <= 1 / 16 ->
  Rabs (f_p _ (remote_one R ar srcs t (rhs0 R ar)) - Rsum (map (fun s => p_v _ s / rdist s t) srcs))
  <= (8 / 7 * (n + 6) * u) * Rsum (map (fun s => Rabs (p_v _ s) / rdist s t) srcs).
Proof.
  intros srcs t HF n Hn. rewrite <- (abs_potential srcs t HF).
  apply (lin_from_E (length srcs + 6)).
  - exact (remote_potential_error_E srcs t HF).
  - apply Rsum_abs_nonneg.
  - pose proof (E_87_n (length srcs) 6) as HL. rewrite INR6 in HL. fold n in HL.
    replace (8 / 7 * (n + 6) * u) with (8 / 7 * ((n + 6) * u)) by ring. apply HL. lra.
Qed.

(* MAIN B, force components: (n + 17) u when (n+16)(n+17) u <= 1 *)
Theorem remote_force_error : forall srcs t, Forall (fun s => apart s t) srcs ->
  let n := INR (length srcs) in
  let r := remote_one R ar srcs t (rhs0 R ar) in
  (n + 16) * (n + 17) * u <= 1 ->
  Rabs (f_x _ r - Rsum (map (fun s => f_x _ (contrib s t)) srcs))
    <= ((n + 17) * u) * Rsum (map (fun s => Rabs (f_x _ (contrib s t))) srcs) /\
  Rabs (f_y _ r - Rsum (map (fun s => f_y _ (contrib s t)) srcs))
    <= ((n + 17) * u) * Rsum (map (fun s => Rabs (f_y _ (contrib s t))) srcs) /\
  Rabs (f_z _ r - Rsum (map (fun s => f_z _ (contrib s t)) srcs))
    <= ((n + 17) * u) * Rsum (map (fun s => Rabs (f_z _ (contrib s t))) srcs).
Proof.
  intros srcs t HF n r Hn. destruct (remote_force_error_E srcs t HF) as (Hx & Hy & Hz). fold r in Hx, Hy, Hz.
  assert (HE : E (length srcs + 16) <= (n + 17) * u).
  { pose proof (E_lin_n (length srcs) 16) as HL. rewrite INR16 in HL. fold n in HL.
    replace (n + 17) with (n + 16 + 1) by ring. apply HL. replace (n + 16 + 1) with (n + 17) by ring. exact Hn. }
  repeat split; eapply lin_from_E; eauto using Rsum_abs_nonneg.
Qed.

Theorem remote_force_error_16 : forall srcs t, Forall (fun s => apart s t) srcs ->
  let n := INR (length srcs) in
  let r := remote_one R ar srcs t (rhs0 R ar) in
  n * u <= 1 / 16 ->
  Rabs (f_x _ r - Rsum (map (fun s => f_x _ (contrib s t)) srcs))
    <= (8 / 7 * (n + 16) * u) * Rsum (map (fun s => Rabs (f_x _ (contrib s t))) srcs) /\
  Rabs (f_y _ r - Rsum (map (fun s => f_y _ (contrib s t)) srcs))
    <= (8 / 7 * (n + 16) * u) * Rsum (map (fun s => Rabs (f_y _ (contrib s t))) srcs) /\
  Rabs (f_z _ r - Rsum (map (fun s => f_z _ (contrib s t)) srcs))
    <= (8 / 7 * (n + 16) * u) * Rsum (map (fun s => Rabs (f_z _ (contrib s t))) srcs).
Proof.
  intros srcs t HF n r Hn. destruct (remote_force_error_E srcs t HF) as (Hx & Hy & Hz). fold r in Hx, Hy, Hz.
  assert (HE : E (length srcs + 16) <= 8 / 7 * (n + 16) * u).
  { pose proof (E_87_n (length srcs) 16) as HL. rewrite INR16 in HL. fold n in HL.
    replace (8 / 7 * (n + 16) * u) with (8 / 7 * ((n + 16) * u)) by ring. apply HL. lra. }
  repeat split; eapply lin_from_E; eauto using Rsum_abs_nonneg.
Qed.

End Calc.

Print Assumptions pair_potential_error.
Print Assumptions pair_force_error.

(* the exact sums above are the components of the exact law of Num/P2PReal.v (remote_law) *)
Lemma rsum_components : forall (t : partR) (srcs : list partR),
  let r := rsum (map (fun s => contrib s t) srcs) in
  f_x _ r = Rsum (map (fun s => f_x _ (contrib s t)) srcs) /\
  f_y _ r = Rsum (map (fun s => f_y _ (contrib s t)) srcs) /\
  f_z _ r = Rsum (map (fun s => f_z _ (contrib s t)) srcs) /\
  f_p _ r = Rsum (map (fun s => p_v _ s / rdist s t) srcs).
Proof.
  intros t srcs; induction srcs as [|s l IH]; cbn [map].
  - unfold rsum, Rsum; cbn; repeat split; reflexivity.
  - cbv zeta in *. rewrite rsum_cons, !Rsum_cons. destruct IH as (Ix & Iy & Iz & Ip).
    unfold radd; cbn [f_x f_y f_z f_p]. rewrite Ix, Iy, Iz, Ip. repeat split; reflexivity.
Qed.

Print Assumptions remote_potential_error_E.
Print Assumptions remote_force_error_E.
Print Assumptions remote_potential_error.
Print Assumptions remote_potential_error_16.
Print Assumptions remote_force_error.
Print Assumptions remote_force_error_16.

(* ---------------------------------------------------------------------------------------------------------------- *)
(* Part 4: MAIN C, IEEE binary64 (Flocq): in the normal range every operation rounds with relative error <= 2^-53 *)
From Coq Require Import ZArith.
From Flocq Require Import Core Relative IEEE754.BinarySingleNaN.
From Tbfmm Require Import Float.LocateProofs.

Lemma rnd64_model : forall r : R,
  bpow radix2 (-1022) <= Rabs r < bpow radix2 1023 ->
  Rabs (rnd64 r) < bpow radix2 1024 /\
  exists e, Rabs e <= bpow radix2 (-53) /\ rnd64 r = r * (1 + e).
Proof.
  intros r [Hlo Hhi]. split.
  - apply Rle_lt_trans with (bpow radix2 1023); [|apply bpow_lt; lia].
    apply abs_round_le_generic; auto with typeclass_instances.
    + apply F64_bpow; lia.
    + lra.
  - destruct (relative_error_N_FLT_ex radix2 (-1074) 53 ltac:(lia) (fun x => negb (Z.even x)) r) as [e [He Hr]].
    + exact Hlo.
    + exists e; split; [|exact Hr].
      replace (bpow radix2 (-53)) with (/ 2 * bpow radix2 (- (53) + 1)); [exact He|].
      change (- (53) + 1)%Z with (-52)%Z.
      change (bpow radix2 (-53)) with (bpow radix2 (-1 + -52)).
      rewrite (bpow_plus radix2 (-1) (-52)). reflexivity.
Qed.

Notation b64 := (binary_float 53 1024).
Notation u64 := (bpow radix2 (-53)).

Theorem b64_add_model : forall x y : b64, is_finite x = true -> is_finite y = true ->
  bpow radix2 (-1022) <= Rabs (B2R x + B2R y) < bpow radix2 1023 ->
  is_finite (Bplus mode_NE x y) = true /\
  exists e, Rabs e <= u64 /\ B2R (Bplus mode_NE x y) = (B2R x + B2R y) * (1 + e).
Proof.
  intros x y Fx Fy Hr. destruct (rnd64_model _ Hr) as [Hov [e [He Hrn]]].
  generalize (Bplus_correct 53 1024 _ _ mode_NE x y Fx Fy).
  change (round radix2 (SpecFloat.fexp 53 1024) (round_mode mode_NE)) with rnd64.
  rewrite Rlt_bool_true by exact Hov. intros (H1 & H2 & _).
  split; [exact H2|]. exists e; split; [exact He|]. rewrite H1; exact Hrn.
Qed.

Theorem b64_sub_model : forall x y : b64, is_finite x = true -> is_finite y = true ->
  bpow radix2 (-1022) <= Rabs (B2R x - B2R y) < bpow radix2 1023 ->
  is_finite (Bminus mode_NE x y) = true /\
  exists e, Rabs e <= u64 /\ B2R (Bminus mode_NE x y) = (B2R x - B2R y) * (1 + e).
Proof.
  intros x y Fx Fy Hr. destruct (rnd64_model _ Hr) as [Hov [e [He Hrn]]].
  generalize (Bminus_correct 53 1024 _ _ mode_NE x y Fx Fy).
  change (round radix2 (SpecFloat.fexp 53 1024) (round_mode mode_NE)) with rnd64.
  rewrite Rlt_bool_true by exact Hov. intros (H1 & H2 & _).
  split; [exact H2|]. exists e; split; [exact He|]. rewrite H1; exact Hrn.
Qed.

Theorem b64_mul_model : forall x y : b64, is_finite x = true -> is_finite y = true ->
  bpow radix2 (-1022) <= Rabs (B2R x * B2R y) < bpow radix2 1023 ->
  is_finite (Bmult mode_NE x y) = true /\
  exists e, Rabs e <= u64 /\ B2R (Bmult mode_NE x y) = (B2R x * B2R y) * (1 + e).
Proof.
  intros x y Fx Fy Hr. destruct (rnd64_model _ Hr) as [Hov [e [He Hrn]]].
  generalize (Bmult_correct 53 1024 _ _ mode_NE x y).
  change (round radix2 (SpecFloat.fexp 53 1024) (round_mode mode_NE)) with rnd64.
  rewrite Rlt_bool_true by exact Hov. intros (H1 & H2 & _).
  split; [rewrite H2, Fx, Fy; reflexivity|]. exists e; split; [exact He|]. rewrite H1; exact Hrn.
Qed.

Theorem b64_div_model : forall x y : b64, is_finite x = true -> B2R y <> 0 ->
  bpow radix2 (-1022) <= Rabs (B2R x / B2R y) < bpow radix2 1023 ->
  is_finite (Bdiv mode_NE x y) = true /\
  exists e, Rabs e <= u64 /\ B2R (Bdiv mode_NE x y) = (B2R x / B2R y) * (1 + e).
Proof.
  intros x y Fx Hy Hr. destruct (rnd64_model _ Hr) as [Hov [e [He Hrn]]].
  generalize (Bdiv_correct 53 1024 _ _ mode_NE x y Hy).
  change (round radix2 (SpecFloat.fexp 53 1024) (round_mode mode_NE)) with rnd64.
  rewrite Rlt_bool_true by exact Hov. intros (H1 & H2 & _).
  split; [rewrite H2; exact Fx|]. exists e; split; [exact He|]. rewrite H1; exact Hrn.
Qed.

Theorem b64_sqrt_model : forall x : b64,
  bpow radix2 (-1022) <= Rabs (sqrt (B2R x)) < bpow radix2 1023 ->
  exists e, Rabs e <= u64 /\ B2R (Bsqrt mode_NE x) = sqrt (B2R x) * (1 + e).
Proof.
  intros x Hr. destruct (rnd64_model _ Hr) as [_ [e [He Hrn]]].
  destruct (Bsqrt_correct 53 1024 _ _ mode_NE x) as (H1 & _).
  change (round radix2 (SpecFloat.fexp 53 1024) (round_mode mode_NE)) with rnd64 in H1.
  exists e; split; [exact He|]. rewrite H1; exact Hrn.
Qed.

Print Assumptions b64_add_model.
Print Assumptions b64_sub_model.
Print Assumptions b64_mul_model.
Print Assumptions b64_div_model.
Print Assumptions b64_sqrt_model.

(* sqrt never leaves the normal range: the model holds for every binary64 input (NaN, infinities and negative inputs
   have B2R (Bsqrt x) = 0 = sqrt (B2R x) with Coq's total sqrt) *)
Theorem b64_sqrt_model_all : forall x : b64,
  exists e, Rabs e <= u64 /\ B2R (Bsqrt mode_NE x) = sqrt (B2R x) * (1 + e).
Proof.
  intros x. destruct (Rle_or_lt (B2R x) 0) as [Hn|Hp].
  - destruct (Bsqrt_correct 53 1024 _ _ mode_NE x) as (H1 & _).
    assert (Hs : sqrt (B2R x) = 0).
    { destruct Hn as [Hn|Hn]; [apply sqrt_neg_0; lra | rewrite Hn; apply sqrt_0]. }
    exists 0; split; [rewrite Rabs_R0; apply bpow_ge_0|].
    rewrite H1, Hs, round_0; [ring | auto with typeclass_instances].
  - apply b64_sqrt_model.
    assert (Hfs : is_finite_strict x = true).
    { destruct x as [s|s| |s m e Hb]; cbn [B2R] in Hp; try lra. reflexivity. }
    pose proof (abs_B2R_ge_emin 53 1024 x Hfs) as Hlo.
    pose proof (abs_B2R_lt_emax 53 1024 x) as Hhi.
    rewrite Rabs_pos_eq in Hlo, Hhi by lra.
    change (SpecFloat.emin 53 1024) with (2 * -537)%Z in Hlo.
    change 1024%Z with (2 * 512)%Z in Hhi.
    rewrite Rabs_pos_eq by apply sqrt_ge_0.
    split.
    + apply Rle_trans with (bpow radix2 (-537)); [apply bpow_le; lia|].
      rewrite <- (sqrt_bpow radix2 (-537)). apply sqrt_le_1_alt; exact Hlo.
    + apply Rlt_le_trans with (bpow radix2 512); [|apply bpow_le; lia].
      rewrite <- (sqrt_bpow radix2 512). apply sqrt_lt_1_alt; split; [lra | exact Hhi].
Qed.

(* the same statements for the SpecFloat operations that Num/P2PSF.v executes (bridges of Float/LocateProofs.v) *)
Corollary sf64_add_model : forall x y : b64, is_finite x = true -> is_finite y = true ->
  bpow radix2 (-1022) <= Rabs (B2R x + B2R y) < bpow radix2 1023 ->
  exists e, Rabs e <= u64 /\
    SF2R radix2 (SpecFloat.SFadd 53 1024 (B2SF x) (B2SF y)) = (SF2R radix2 (B2SF x) + SF2R radix2 (B2SF y)) * (1 + e).
Proof.
  intros x y Fx Fy Hr. rewrite <- sf_plus_bridge, !SF2R_B2SF. apply (b64_add_model x y Fx Fy Hr).
Qed.

Corollary sf64_sub_model : forall x y : b64, is_finite x = true -> is_finite y = true ->
  bpow radix2 (-1022) <= Rabs (B2R x - B2R y) < bpow radix2 1023 ->
  exists e, Rabs e <= u64 /\
    SF2R radix2 (SpecFloat.SFsub 53 1024 (B2SF x) (B2SF y)) = (SF2R radix2 (B2SF x) - SF2R radix2 (B2SF y)) * (1 + e).
Proof.
  intros x y Fx Fy Hr. rewrite <- sf_minus_bridge, !SF2R_B2SF. apply (b64_sub_model x y Fx Fy Hr).
Qed.

Corollary sf64_mul_model : forall x y : b64, is_finite x = true -> is_finite y = true ->
  bpow radix2 (-1022) <= Rabs (B2R x * B2R y) < bpow radix2 1023 ->
  exists e, Rabs e <= u64 /\
    SF2R radix2 (SpecFloat.SFmul 53 1024 (B2SF x) (B2SF y)) = (SF2R radix2 (B2SF x) * SF2R radix2 (B2SF y)) * (1 + e).
Proof.
  intros x y Fx Fy Hr. rewrite <- sf_mult_bridge, !SF2R_B2SF. apply (b64_mul_model x y Fx Fy Hr).
Qed.

Corollary sf64_div_model : forall x y : b64, is_finite x = true -> B2R y <> 0 ->
  bpow radix2 (-1022) <= Rabs (B2R x / B2R y) < bpow radix2 1023 ->
  exists e, Rabs e <= u64 /\
    SF2R radix2 (SpecFloat.SFdiv 53 1024 (B2SF x) (B2SF y)) = (SF2R radix2 (B2SF x) / SF2R radix2 (B2SF y)) * (1 + e).
Proof.
  intros x y Fx Hy Hr. rewrite <- sf_div_bridge, !SF2R_B2SF. apply (b64_div_model x y Fx Hy Hr).
Qed.

(* ---------------------------------------------------------------------------------------------------------------- *)
(* Composition.  g64_ops rounds to nearest-even binary64 whenever the exact result is in the normal range and is
   exact otherwise; it satisfies the standard model with u = 2^-53 on ALL reals, so MAIN A and MAIN B apply to it,
   and it coincides with the IEEE operations on every operation whose exact result is in the normal range
   (b64_*_g64).  Hence the bounds hold for an IEEE evaluation all of whose intermediate exact results are normal;
   those range side conditions are NOT discharged here. *)

Lemma u64_range : 0 <= u64 <= 1 / 1024.
Proof.
  split; [apply bpow_ge_0|].
  replace (1 / 1024) with (bpow radix2 (-10)) by (simpl; lra). apply bpow_le; lia.
Qed.

Definition grnd (r : R) : R :=
  if Rle_dec (bpow radix2 (-1022)) (Rabs r) then
    if Rlt_dec (Rabs r) (bpow radix2 1023) then rnd64 r else r
  else r.

Lemma grnd_model : forall r, exists e, Rabs e <= u64 /\ grnd r = r * (1 + e).
Proof.
  intros r. unfold grnd.
  assert (H0 : exists e, Rabs e <= u64 /\ r = r * (1 + e)).
  { exists 0; split; [rewrite Rabs_R0; apply bpow_ge_0 | ring]. }
  destruct (Rle_dec _ _) as [H1|H1]; [|exact H0].
  destruct (Rlt_dec _ _) as [H2|H2]; [|exact H0].
  apply (rnd64_model r (conj H1 H2)).
Qed.

Lemma grnd_normal : forall r, bpow radix2 (-1022) <= Rabs r < bpow radix2 1023 -> grnd r = rnd64 r.
Proof.
  intros r [H1 H2]. unfold grnd.
  destruct (Rle_dec _ _) as [H1'|H1']; [|contradiction].
  destruct (Rlt_dec _ _) as [H2'|H2']; [reflexivity|contradiction].
Qed.

Definition g64_ops : ops R :=
  {| o_add := fun a b => grnd (a + b); o_sub := fun a b => grnd (a - b); o_mul := fun a b => grnd (a * b);
     o_div := fun a b => grnd (a / b); o_sqrt := fun a => grnd (sqrt a); o_zero := 0; o_one := 1 |}.

Theorem g64_std_model : std_model u64 g64_ops.
Proof.
  unfold std_model; cbn [g64_ops o_add o_sub o_mul o_div o_sqrt o_zero o_one].
  repeat split; intros; apply grnd_model.
Qed.

Lemma b64_add_g64 : forall x y : b64, is_finite x = true -> is_finite y = true ->
  bpow radix2 (-1022) <= Rabs (B2R x + B2R y) < bpow radix2 1023 ->
  B2R (Bplus mode_NE x y) = o_add g64_ops (B2R x) (B2R y).
Proof.
  intros x y Fx Fy Hr. cbn [g64_ops o_add]. rewrite (grnd_normal _ Hr).
  destruct (rnd64_model _ Hr) as [Hov _].
  generalize (Bplus_correct 53 1024 _ _ mode_NE x y Fx Fy).
  change (round radix2 (SpecFloat.fexp 53 1024) (round_mode mode_NE)) with rnd64.
  rewrite Rlt_bool_true by exact Hov. intros (H1 & _). exact H1.
Qed.

Lemma b64_sub_g64 : forall x y : b64, is_finite x = true -> is_finite y = true ->
  bpow radix2 (-1022) <= Rabs (B2R x - B2R y) < bpow radix2 1023 ->
  B2R (Bminus mode_NE x y) = o_sub g64_ops (B2R x) (B2R y).
Proof.
  intros x y Fx Fy Hr. cbn [g64_ops o_sub]. rewrite (grnd_normal _ Hr).
  destruct (rnd64_model _ Hr) as [Hov _].
  generalize (Bminus_correct 53 1024 _ _ mode_NE x y Fx Fy).
  change (round radix2 (SpecFloat.fexp 53 1024) (round_mode mode_NE)) with rnd64.
  rewrite Rlt_bool_true by exact Hov. intros (H1 & _). exact H1.
Qed.

Lemma b64_mul_g64 : forall x y : b64,
  bpow radix2 (-1022) <= Rabs (B2R x * B2R y) < bpow radix2 1023 ->
  B2R (Bmult mode_NE x y) = o_mul g64_ops (B2R x) (B2R y).
Proof.
  intros x y Hr. cbn [g64_ops o_mul]. rewrite (grnd_normal _ Hr).
  destruct (rnd64_model _ Hr) as [Hov _].
  generalize (Bmult_correct 53 1024 _ _ mode_NE x y).
  change (round radix2 (SpecFloat.fexp 53 1024) (round_mode mode_NE)) with rnd64.
  rewrite Rlt_bool_true by exact Hov. intros (H1 & _). exact H1.
Qed.

Lemma b64_div_g64 : forall x y : b64, B2R y <> 0 ->
  bpow radix2 (-1022) <= Rabs (B2R x / B2R y) < bpow radix2 1023 ->
  B2R (Bdiv mode_NE x y) = o_div g64_ops (B2R x) (B2R y).
Proof.
  intros x y Hy Hr. cbn [g64_ops o_div]. rewrite (grnd_normal _ Hr).
  destruct (rnd64_model _ Hr) as [Hov _].
  generalize (Bdiv_correct 53 1024 _ _ mode_NE x y Hy).
  change (round radix2 (SpecFloat.fexp 53 1024) (round_mode mode_NE)) with rnd64.
  rewrite Rlt_bool_true by exact Hov. intros (H1 & _). exact H1.
Qed.

Lemma b64_sqrt_g64 : forall x : b64, 0 < B2R x -> B2R (Bsqrt mode_NE x) = o_sqrt g64_ops (B2R x).
Proof.
  intros x Hp. cbn [g64_ops o_sqrt].
  destruct (Bsqrt_correct 53 1024 _ _ mode_NE x) as (H1 & _).
  change (round radix2 (SpecFloat.fexp 53 1024) (round_mode mode_NE)) with rnd64 in H1.
  rewrite H1. symmetry. apply grnd_normal.
  assert (Hfs : is_finite_strict x = true).
  { destruct x as [s|s| |s m e Hb]; cbn [B2R] in Hp; try lra. reflexivity. }
  pose proof (abs_B2R_ge_emin 53 1024 x Hfs) as Hlo.
  pose proof (abs_B2R_lt_emax 53 1024 x) as Hhi.
  rewrite Rabs_pos_eq in Hlo, Hhi by lra.
  change (SpecFloat.emin 53 1024) with (2 * -537)%Z in Hlo.
  change 1024%Z with (2 * 512)%Z in Hhi.
  rewrite Rabs_pos_eq by apply sqrt_ge_0.
  split.
  - apply Rle_trans with (bpow radix2 (-537)); [apply bpow_le; lia|].
    rewrite <- (sqrt_bpow radix2 (-537)). apply sqrt_le_1_alt; exact Hlo.
  - apply Rlt_le_trans with (bpow radix2 512); [|apply bpow_le; lia].
    rewrite <- (sqrt_bpow radix2 512). apply sqrt_lt_1_alt; split; [lra | exact Hhi].
Qed.

(* MAIN A and MAIN B instantiated at binary64 round-to-nearest-even (u = 2^-53) *)
Corollary g64_pair_error : forall s t, apart s t ->
  let '(fx, fy, fz, inv) := pair R g64_ops s t in
  Rabs (inv - / rdist s t) <= 5 * u64 * / rdist s t /\
  Rabs (fx - f_x _ (contrib s t)) <= 16 * u64 * Rabs (f_x _ (contrib s t)) /\
  Rabs (fy - f_y _ (contrib s t)) <= 16 * u64 * Rabs (f_y _ (contrib s t)) /\
  Rabs (fz - f_z _ (contrib s t)) <= 16 * u64 * Rabs (f_z _ (contrib s t)).
Proof.
  intros s t Hap.
  pose proof (pair_potential_error u64 u64_range g64_ops g64_std_model s t Hap) as H1.
  pose proof (pair_force_error u64 u64_range g64_ops g64_std_model s t Hap) as H2.
  destruct (pair R g64_ops s t) as [[[fx fy] fz] inv]. split; [exact H1 | exact H2].
Qed.

Corollary g64_remote_potential_error : forall srcs t, Forall (fun s => apart s t) srcs ->
  let n := INR (length srcs) in
  (n + 6) * (n + 7) * u64 <= 1 ->
  Rabs (f_p _ (remote_one R g64_ops srcs t (rhs0 R g64_ops)) - Rsum (map (fun s => p_v _ s / rdist s t) srcs))
  <= ((n + 7) * u64) * Rsum (map (fun s => Rabs (p_v _ s) / rdist s t) srcs).
Proof. intros srcs t HF. apply (remote_potential_error u64 u64_range g64_ops g64_std_model srcs t HF). Qed.

Print Assumptions b64_sqrt_model_all.
Print Assumptions sf64_add_model.
Print Assumptions sf64_sub_model.
Print Assumptions sf64_mul_model.
Print Assumptions sf64_div_model.
Print Assumptions g64_std_model.
Print Assumptions g64_pair_error.
Print Assumptions g64_remote_potential_error.

(* ================================================================================================================ *)
(* Part 5: the ACTUAL binary64 computation of `pair` (Flocq binary_float operations = the SpecFloat instance sf_ops of
   Num/P2PSF.v, see sf_pair_bridge) under magnitude conditions on the inputs *)
From Coq Require Import Floats.SpecFloat.
From Tbfmm Require Import Num.P2PSF.

(* ---- sqrt bridge (structure of Flocq.IEEE754.PrimFloat.sqrt_equiv, no primitive floats) ---- *)
Section SqrtBridge.
Variable prec emax : Z.
Context (prec_gt_0_ : Prec_gt_0 prec).
Context (prec_lt_emax_ : Prec_lt_emax prec emax).

Lemma sf_sqrt_bridge_gen : forall x : binary_float prec emax,
  B2SF (Bsqrt mode_NE x) = SFsqrt prec emax (B2SF x).
Proof.
intros x. symmetry.
case x as [sx|sx| |sx mx ex Bx]; [now (trivial || case sx).. | ].
case sx; [reflexivity | ].
simpl.
rewrite B2SF_SF2B.
set (melz := SFsqrt_core_binary _ _ _ _).
case melz as [[mz ez] lz].
apply binary_round_aux_equiv.
Qed.
End SqrtBridge.

Lemma sf_sqrt_bridge : forall x : b64, B2SF (Bsqrt mode_NE x) = SFsqrt 53 1024 (B2SF x).
Proof. apply sf_sqrt_bridge_gen. Qed.

(* ---- the binary64 instance of the abstract arithmetic ---- *)
Definition b64_one : b64 := @B754_finite 53 1024 false 4503599627370496 (-52) eq_refl.

Definition b64_ops : ops b64 :=
  {| o_add := Bplus mode_NE; o_sub := Bminus mode_NE; o_mul := Bmult mode_NE; o_div := Bdiv mode_NE;
     o_sqrt := Bsqrt mode_NE; o_zero := B754_zero false; o_one := b64_one |}.

Definition sf_part (p : part b64) : part spec_float :=
  {| p_x := B2SF (p_x _ p); p_y := B2SF (p_y _ p); p_z := B2SF (p_z _ p); p_v := B2SF (p_v _ p) |}.
Definition partR_of (p : part b64) : partR :=
  {| p_x := B2R (p_x _ p); p_y := B2R (p_y _ p); p_z := B2R (p_z _ p); p_v := B2R (p_v _ p) |}.

(* the SpecFloat computation that is run against the C++ IS the Flocq computation, for all inputs *)
Theorem sf_pair_bridge : forall s t : part b64,
  pair spec_float (sf_ops 53 1024) (sf_part s) (sf_part t) =
  let '(fx, fy, fz, inv) := pair b64 b64_ops s t in (B2SF fx, B2SF fy, B2SF fz, B2SF inv).
Proof.
  intros s t. unfold pair, sf_part.
  cbn [sf_ops b64_ops o_add o_sub o_mul o_div o_sqrt o_one p_x p_y p_z p_v].
  change (S754_finite false (Z.to_pos (2 ^ mw 53)) (- mw 53)) with (B2SF b64_one).
  rewrite <- !sf_minus_bridge, <- !sf_mult_bridge, <- !sf_plus_bridge, <- sf_div_bridge, <- sf_sqrt_bridge.
  rewrite <- !sf_mult_bridge. reflexivity.
Qed.

(* ---- zero or normal exact results ---- *)
Definition nz (r : R) : Prop := r = 0 \/ bpow radix2 (-1022) <= Rabs r < bpow radix2 1023.

Lemma grnd_0 : grnd 0 = 0.
Proof.
  unfold grnd. destruct (Rle_dec _ _) as [H|H]; [|reflexivity].
  rewrite Rabs_R0 in H. pose proof (bpow_gt_0 radix2 (-1022)). lra.
Qed.

Lemma grnd_nz : forall r, nz r -> grnd r = rnd64 r /\ Rabs (rnd64 r) < bpow radix2 1024.
Proof.
  intros r [Z|H].
  - subst r. rewrite grnd_0, round_0 by auto with typeclass_instances.
    rewrite Rabs_R0. split; [reflexivity | apply bpow_gt_0].
  - split; [apply grnd_normal, H | apply (rnd64_model r H)].
Qed.

Lemma grnd_eq0 : forall r, grnd r = 0 -> r = 0.
Proof.
  intros r H. destruct (grnd_model r) as [e [He Hr]]. rewrite Hr in H.
  pose proof u64_range as Hu. apply Rabs_le_both in He.
  destruct (Rmult_integral _ _ H) as [Z|Z]; [exact Z | lra].
Qed.

Lemma grnd_nonneg : forall r, 0 <= r -> 0 <= grnd r.
Proof.
  intros r H. destruct (grnd_model r) as [e [He ->]].
  pose proof u64_range as Hu. apply Rabs_le_both in He. apply Rmult_le_pos; lra.
Qed.

Lemma sqrt_b64_nz : forall x : b64, nz (sqrt (B2R x)).
Proof.
  intros x. destruct (Rle_or_lt (B2R x) 0) as [Hn|Hp].
  - left. destruct Hn as [Hn|Hn]; [apply sqrt_neg_0; lra | rewrite Hn; apply sqrt_0].
  - right.
    assert (Hfs : is_finite_strict x = true).
    { destruct x as [s|s| |s m e Hb]; cbn [B2R] in Hp; try lra. reflexivity. }
    pose proof (abs_B2R_ge_emin 53 1024 x Hfs) as Hlo.
    pose proof (abs_B2R_lt_emax 53 1024 x) as Hhi.
    rewrite Rabs_pos_eq in Hlo, Hhi by lra.
    change (SpecFloat.emin 53 1024) with (2 * -537)%Z in Hlo.
    change 1024%Z with (2 * 512)%Z in Hhi.
    rewrite Rabs_pos_eq by apply sqrt_ge_0.
    split.
    + apply Rle_trans with (bpow radix2 (-537)); [apply bpow_le; lia|].
      rewrite <- (sqrt_bpow radix2 (-537)). apply sqrt_le_1_alt; exact Hlo.
    + apply Rlt_le_trans with (bpow radix2 512); [|apply bpow_le; lia].
      rewrite <- (sqrt_bpow radix2 512). apply sqrt_lt_1_alt; split; [lra | exact Hhi].
Qed.

(* ---- transfer: X is finite and its real value is r ---- *)
Definition tr (X : b64) (r : R) : Prop := is_finite X = true /\ B2R X = r.

Lemma tr_add : forall X Y a b, tr X a -> tr Y b -> nz (a + b) -> tr (Bplus mode_NE X Y) (o_add g64_ops a b).
Proof.
  intros X Y a b [Fx <-] [Fy <-] Hnz. cbn [g64_ops o_add]. destruct (grnd_nz _ Hnz) as [-> Hov].
  generalize (Bplus_correct 53 1024 _ _ mode_NE X Y Fx Fy).
  change (round radix2 (SpecFloat.fexp 53 1024) (round_mode mode_NE)) with rnd64.
  rewrite Rlt_bool_true by exact Hov. intros (H1 & H2 & _). split; assumption.
Qed.

Lemma tr_sub : forall X Y a b, tr X a -> tr Y b -> nz (a - b) -> tr (Bminus mode_NE X Y) (o_sub g64_ops a b).
Proof.
  intros X Y a b [Fx <-] [Fy <-] Hnz. cbn [g64_ops o_sub]. destruct (grnd_nz _ Hnz) as [-> Hov].
  generalize (Bminus_correct 53 1024 _ _ mode_NE X Y Fx Fy).
  change (round radix2 (SpecFloat.fexp 53 1024) (round_mode mode_NE)) with rnd64.
  rewrite Rlt_bool_true by exact Hov. intros (H1 & H2 & _). split; assumption.
Qed.

Lemma tr_mul : forall X Y a b, tr X a -> tr Y b -> nz (a * b) -> tr (Bmult mode_NE X Y) (o_mul g64_ops a b).
Proof.
  intros X Y a b [Fx <-] [Fy <-] Hnz. cbn [g64_ops o_mul]. destruct (grnd_nz _ Hnz) as [-> Hov].
  generalize (Bmult_correct 53 1024 _ _ mode_NE X Y).
  change (round radix2 (SpecFloat.fexp 53 1024) (round_mode mode_NE)) with rnd64.
  rewrite Rlt_bool_true by exact Hov. intros (H1 & H2 & _).
  split; [rewrite H2, Fx, Fy; reflexivity | exact H1].
Qed.

Lemma tr_div : forall X Y a b, tr X a -> tr Y b -> b <> 0 -> nz (a / b) -> tr (Bdiv mode_NE X Y) (o_div g64_ops a b).
Proof.
  intros X Y a b [Fx <-] [Fy <-] Hb Hnz. cbn [g64_ops o_div]. destruct (grnd_nz _ Hnz) as [-> Hov].
  generalize (Bdiv_correct 53 1024 _ _ mode_NE X Y Hb).
  change (round radix2 (SpecFloat.fexp 53 1024) (round_mode mode_NE)) with rnd64.
  rewrite Rlt_bool_true by exact Hov. intros (H1 & H2 & _).
  split; [rewrite H2; exact Fx | exact H1].
Qed.

Lemma tr_sqrt : forall X a, tr X a -> 0 <= a -> tr (Bsqrt mode_NE X) (o_sqrt g64_ops a).
Proof.
  intros X a [Fx <-] Ha. cbn [g64_ops o_sqrt]. destruct (grnd_nz _ (sqrt_b64_nz X)) as [-> _].
  destruct (Bsqrt_correct 53 1024 _ _ mode_NE X) as (H1 & H2 & _).
  change (round radix2 (SpecFloat.fexp 53 1024) (round_mode mode_NE)) with rnd64 in H1.
  split; [|exact H1]. rewrite H2.
  destruct X as [s|s| |s m e Hb]; try discriminate Fx; [reflexivity|].
  destruct s; [|reflexivity]. exfalso. cbn [B2R] in Ha. revert Ha. apply Rlt_not_le.
  apply F2R_lt_0. simpl. lia.
Qed.

Lemma tr_one : tr b64_one (o_one g64_ops).
Proof.
  split; [reflexivity|]. cbn [g64_ops o_one]. unfold b64_one, B2R, F2R; cbn [Fnum Fexp cond_Zopp].
  change (IZR (Z.pos 4503599627370496)) with (bpow radix2 52).
  rewrite <- bpow_plus. reflexivity.
Qed.

(* ---- magnitude calculus on the real side ---- *)
Definition zr (lo hi : Z) (r : R) : Prop := r = 0 \/ bpow radix2 lo <= Rabs r <= bpow radix2 hi.
Definition nzr (lo hi : Z) (r : R) : Prop := 0 <= r /\ zr lo hi r.
Definition pr (lo hi : Z) (r : R) : Prop := bpow radix2 lo <= r <= bpow radix2 hi.

Lemma zr_nz : forall lo hi r, zr lo hi r -> (-1022 <= lo)%Z -> (hi < 1023)%Z -> nz r.
Proof.
  intros lo hi r [Z|[H1 H2]] Hlo Hhi; [left; exact Z | right].
  pose proof (bpow_le radix2 _ _ Hlo). pose proof (bpow_lt radix2 _ _ Hhi). lra.
Qed.

Lemma zr_weaken : forall lo hi lo' hi' r, zr lo hi r -> (lo' <= lo)%Z -> (hi <= hi')%Z -> zr lo' hi' r.
Proof.
  intros lo hi lo' hi' r [Z|[H1 H2]] Hlo Hhi; [left; exact Z | right].
  pose proof (bpow_le radix2 _ _ Hlo). pose proof (bpow_le radix2 _ _ Hhi). lra.
Qed.

Lemma zr_grnd : forall lo hi r, zr lo hi r -> (-1022 <= lo)%Z -> (hi < 1023)%Z -> zr lo hi (grnd r).
Proof.
  intros lo hi r H Hlo Hhi. pose proof (zr_nz _ _ _ H Hlo Hhi) as Hnz.
  destruct H as [Z|[H1 H2]]; [left; rewrite Z; apply grnd_0 | right].
  assert (Hlh : (lo <= hi)%Z) by (apply (le_bpow radix2); lra).
  destruct (grnd_nz r Hnz) as [-> _]. split.
  - apply abs_round_ge_generic; auto with typeclass_instances. apply F64_bpow; lia.
  - apply abs_round_le_generic; auto with typeclass_instances. apply F64_bpow; lia.
Qed.

Lemma zr_mul : forall l1 h1 l2 h2 a b, zr l1 h1 a -> zr l2 h2 b -> zr (l1 + l2) (h1 + h2) (a * b).
Proof.
  intros l1 h1 l2 h2 a b [Z|[A1 A2]] [Z'|[B1 B2]]; try (left; subst; ring).
  right. rewrite Rabs_mult, !bpow_plus.
  pose proof (bpow_ge_0 radix2 l1). pose proof (bpow_ge_0 radix2 l2).
  split; apply Rmult_le_compat; lra.
Qed.

Lemma nzr_sq : forall lo hi a, zr lo hi a -> nzr (lo + lo) (hi + hi) (a * a).
Proof. intros lo hi a H; split; [nra | apply zr_mul; assumption]. Qed.

Lemma nzr_grnd : forall lo hi r, nzr lo hi r -> (-1022 <= lo)%Z -> (hi < 1023)%Z -> nzr lo hi (grnd r).
Proof. intros lo hi r [H0 H] Hlo Hhi; split; [apply grnd_nonneg, H0 | apply zr_grnd; assumption]. Qed.

Lemma nzr_nz : forall lo hi r, nzr lo hi r -> (-1022 <= lo)%Z -> (hi < 1023)%Z -> nz r.
Proof. intros lo hi r [_ H]; apply zr_nz, H. Qed.

Lemma nzr_weaken : forall lo hi hi' r, nzr lo hi r -> (hi <= hi')%Z -> nzr lo hi' r.
Proof. intros lo hi hi' r [H0 H] Hh; split; [exact H0 | apply (zr_weaken lo hi); [exact H | lia | exact Hh]]. Qed.

Lemma nzr_add : forall lo hi a b, nzr lo hi a -> nzr lo hi b -> nzr lo (hi + 1) (a + b).
Proof.
  intros lo hi a b [A0 A] [B0 B]; split; [lra|].
  assert (H2 : bpow radix2 (hi + 1) = 2 * bpow radix2 hi).
  { rewrite bpow_plus. change (bpow radix2 1) with 2. ring. }
  pose proof (bpow_ge_0 radix2 hi) as Hh.
  unfold zr in *. rewrite H2. rewrite Rabs_pos_eq in * by lra.
  destruct A as [A|[A1 A2]], B as [B|[B1 B2]].
  - left; lra.
  - right; lra.
  - right; lra.
  - right; lra.
Qed.

Lemma nzr_pr : forall lo hi r, nzr lo hi r -> r <> 0 -> pr lo hi r.
Proof.
  intros lo hi r [H0 [Z|H]] Hn; [contradiction|]. rewrite Rabs_pos_eq in H by exact H0. exact H.
Qed.

Lemma pr_pos : forall lo hi r, pr lo hi r -> 0 < r.
Proof. intros lo hi r [H _]. pose proof (bpow_gt_0 radix2 lo). lra. Qed.

Lemma pr_zr : forall lo hi r, pr lo hi r -> zr lo hi r.
Proof. intros lo hi r H. pose proof (pr_pos _ _ _ H). right. rewrite Rabs_pos_eq by lra. exact H. Qed.

Lemma pr_nz : forall lo hi r, pr lo hi r -> (-1022 <= lo)%Z -> (hi < 1023)%Z -> nz r.
Proof. intros lo hi r H; apply zr_nz, pr_zr, H. Qed.

Lemma pr_grnd : forall lo hi r, pr lo hi r -> (-1022 <= lo)%Z -> (hi < 1023)%Z -> pr lo hi (grnd r).
Proof.
  intros lo hi r H Hlo Hhi. destruct (grnd_nz r (pr_nz _ _ _ H Hlo Hhi)) as [-> _].
  destruct H as [H1 H2].
  assert (Hlh : (lo <= hi)%Z) by (apply (le_bpow radix2); lra).
  split.
  - apply round_ge_generic; auto with typeclass_instances. apply F64_bpow; lia.
  - apply round_le_generic; auto with typeclass_instances. apply F64_bpow; lia.
Qed.

Lemma pr_inv : forall lo hi r, pr lo hi r -> pr (- hi) (- lo) (1 / r).
Proof.
  intros lo hi r H. pose proof (pr_pos _ _ _ H) as Hp. destruct H as [H1 H2].
  unfold pr, Rdiv. rewrite Rmult_1_l, !bpow_opp. pose proof (bpow_gt_0 radix2 lo).
  split; apply Rinv_le_contravar; lra.
Qed.

Lemma pr_sqrt : forall lo hi r, pr (2 * lo) (2 * hi) r -> pr lo hi (sqrt r).
Proof.
  intros lo hi r [H1 H2]. unfold pr.
  rewrite <- (sqrt_bpow radix2 lo), <- (sqrt_bpow radix2 hi). split; apply sqrt_le_1_alt; assumption.
Qed.

Lemma pr_mul : forall l1 h1 l2 h2 a b, pr l1 h1 a -> pr l2 h2 b -> pr (l1 + l2) (h1 + h2) (a * b).
Proof.
  intros l1 h1 l2 h2 a b [A1 A2] [B1 B2]. unfold pr. rewrite !bpow_plus.
  pose proof (bpow_ge_0 radix2 l1). pose proof (bpow_ge_0 radix2 l2).
  split; apply Rmult_le_compat; lra.
Qed.

(* the operations of g64_ops on magnitudes *)
Lemma g_sub_zr : forall lo hi a b, zr lo hi (a - b) -> (-1022 <= lo)%Z -> (hi < 1023)%Z ->
  zr lo hi (o_sub g64_ops a b).
Proof. intros; cbn [g64_ops o_sub]; apply zr_grnd; assumption. Qed.

Lemma g_mul_zr : forall l1 h1 l2 h2 a b, zr l1 h1 a -> zr l2 h2 b -> (-1022 <= l1 + l2)%Z -> (h1 + h2 < 1023)%Z ->
  zr (l1 + l2) (h1 + h2) (o_mul g64_ops a b).
Proof. intros; cbn [g64_ops o_mul]; apply zr_grnd; [apply zr_mul|..]; assumption. Qed.

Lemma g_sq_nzr : forall lo hi a, zr lo hi a -> (-1022 <= lo + lo)%Z -> (hi + hi < 1023)%Z ->
  nzr (lo + lo) (hi + hi) (o_mul g64_ops a a).
Proof. intros; cbn [g64_ops o_mul]; apply nzr_grnd; [apply nzr_sq|..]; assumption. Qed.

Lemma g_add_nzr : forall lo hi a b, nzr lo hi a -> nzr lo hi b -> (-1022 <= lo)%Z -> (hi + 1 < 1023)%Z ->
  nzr lo (hi + 1) (o_add g64_ops a b).
Proof. intros; cbn [g64_ops o_add]; apply nzr_grnd; [apply nzr_add|..]; assumption. Qed.

Lemma g_inv_pr : forall lo hi r, pr lo hi r -> (-1022 <= - hi)%Z -> (- lo < 1023)%Z ->
  pr (- hi) (- lo) (o_div g64_ops (o_one g64_ops) r).
Proof. intros; cbn [g64_ops o_div o_one]; apply pr_grnd; [apply pr_inv|..]; assumption. Qed.

Lemma g_sqrt_pr : forall lo hi r, pr (2 * lo) (2 * hi) r -> (-1022 <= lo)%Z -> (hi < 1023)%Z ->
  pr lo hi (o_sqrt g64_ops r).
Proof. intros; cbn [g64_ops o_sqrt]; apply pr_grnd; [apply pr_sqrt|..]; assumption. Qed.

Lemma g_mul_pr : forall l1 h1 l2 h2 a b, pr l1 h1 a -> pr l2 h2 b -> (-1022 <= l1 + l2)%Z -> (h1 + h2 < 1023)%Z ->
  pr (l1 + l2) (h1 + h2) (o_mul g64_ops a b).
Proof. intros; cbn [g64_ops o_mul]; apply pr_grnd; [apply pr_mul|..]; assumption. Qed.

Lemma g_add_eq0 : forall a b, o_add g64_ops a b = 0 -> a + b = 0.
Proof. intros a b; apply grnd_eq0. Qed.
Lemma g_sub_eq0 : forall a b, o_sub g64_ops a b = 0 -> a - b = 0.
Proof. intros a b; apply grnd_eq0. Qed.
Lemma g_sq_eq0 : forall a, o_mul g64_ops a a = 0 -> a = 0.
Proof. intros a H; apply grnd_eq0 in H. destruct (Rmult_integral _ _ H); assumption. Qed.

(* ---- input conditions: finite inputs; each coordinate difference is 0 or has magnitude in [2^-160, 2^160];
        distinct positions; each charge is 0 or has magnitude in [2^-160, 2^160] ---- *)
Definition b64_inputs_ok (s t : part b64) : Prop :=
  (is_finite (p_x _ s) = true /\ is_finite (p_y _ s) = true /\ is_finite (p_z _ s) = true /\
   is_finite (p_v _ s) = true) /\
  (is_finite (p_x _ t) = true /\ is_finite (p_y _ t) = true /\ is_finite (p_z _ t) = true /\
   is_finite (p_v _ t) = true) /\
  (zr (-160) 160 (B2R (p_x _ s) - B2R (p_x _ t)) /\ zr (-160) 160 (B2R (p_y _ s) - B2R (p_y _ t)) /\
   zr (-160) 160 (B2R (p_z _ s) - B2R (p_z _ t))) /\
  apart (partR_of s) (partR_of t) /\
  zr (-160) 160 (B2R (p_v _ s)) /\ zr (-160) 160 (B2R (p_v _ t)).

Lemma tr_in : forall X : b64, is_finite X = true -> tr X (B2R X).
Proof. intros X H; split; [exact H | reflexivity]. Qed.

(* the IEEE computation, read through B2R, is the computation in g64_ops on the B2R images, and stays finite *)
Theorem b64_pair_g64 : forall s t : part b64, b64_inputs_ok s t ->
  let '(fx, fy, fz, inv) := pair b64 b64_ops s t in
  let '(gx, gy, gz, ginv) := pair R g64_ops (partR_of s) (partR_of t) in
  tr fx gx /\ tr fy gy /\ tr fz gz /\ tr inv ginv.
Proof.
  intros [xs ys zs vs] [xt yt zt vt] Hok. unfold b64_inputs_ok, partR_of in Hok. cbn [p_x p_y p_z p_v] in Hok.
  destruct Hok as ((Fxs & Fys & Fzs & Fvs) & (Fxt & Fyt & Fzt & Fvt) & (HX & HY & HZ) & Hap & Hvs & Hvt).
  unfold apart, d2 in Hap. cbn [p_x p_y p_z] in Hap.
  unfold pair, partR_of. cbn [p_x p_y p_z p_v].
  cbn [b64_ops o_add o_sub o_mul o_div o_sqrt o_one].
  (* differences *)
  set (dx := o_sub g64_ops (B2R xs) (B2R xt)). set (DX := Bminus mode_NE xs xt).
  set (dy := o_sub g64_ops (B2R ys) (B2R yt)). set (DY := Bminus mode_NE ys yt).
  set (dz := o_sub g64_ops (B2R zs) (B2R zt)). set (DZ := Bminus mode_NE zs zt).
  assert (Tdx : tr DX dx) by (apply tr_sub; [apply tr_in; assumption .. | apply (zr_nz _ _ _ HX); lia]).
  assert (Tdy : tr DY dy) by (apply tr_sub; [apply tr_in; assumption .. | apply (zr_nz _ _ _ HY); lia]).
  assert (Tdz : tr DZ dz) by (apply tr_sub; [apply tr_in; assumption .. | apply (zr_nz _ _ _ HZ); lia]).
  assert (Zdx : zr (-160) 160 dx) by (apply g_sub_zr; [exact HX | lia | lia]).
  assert (Zdy : zr (-160) 160 dy) by (apply g_sub_zr; [exact HY | lia | lia]).
  assert (Zdz : zr (-160) 160 dz) by (apply g_sub_zr; [exact HZ | lia | lia]).
  (* squares *)
  set (sxx := o_mul g64_ops dx dx). set (SXX := Bmult mode_NE DX DX).
  set (syy := o_mul g64_ops dy dy). set (SYY := Bmult mode_NE DY DY).
  set (szz := o_mul g64_ops dz dz). set (SZZ := Bmult mode_NE DZ DZ).
  assert (Txx : tr SXX sxx)
    by (apply tr_mul; [assumption .. | apply (zr_nz (-320) 320); [apply (zr_mul (-160) 160 (-160) 160); assumption | lia | lia]]).
  assert (Tyy : tr SYY syy)
    by (apply tr_mul; [assumption .. | apply (zr_nz (-320) 320); [apply (zr_mul (-160) 160 (-160) 160); assumption | lia | lia]]).
  assert (Tzz : tr SZZ szz)
    by (apply tr_mul; [assumption .. | apply (zr_nz (-320) 320); [apply (zr_mul (-160) 160 (-160) 160); assumption | lia | lia]]).
  assert (Nxx : nzr (-320) 320 sxx) by (apply (g_sq_nzr (-160) 160); [assumption | lia | lia]).
  assert (Nyy : nzr (-320) 320 syy) by (apply (g_sq_nzr (-160) 160); [assumption | lia | lia]).
  assert (Nzz : nzr (-320) 320 szz) by (apply (g_sq_nzr (-160) 160); [assumption | lia | lia]).
  (* sums *)
  set (s1 := o_add g64_ops sxx syy). set (S1 := Bplus mode_NE SXX SYY).
  assert (T1 : tr S1 s1)
    by (apply tr_add; [assumption .. | apply (nzr_nz (-320) 321); [apply (nzr_add (-320) 320); assumption | lia | lia]]).
  assert (N1 : nzr (-320) 321 s1) by (apply (g_add_nzr (-320) 320); [assumption | assumption | lia | lia]).
  set (s2 := o_add g64_ops s1 szz). set (S2 := Bplus mode_NE S1 SZZ).
  assert (Nzz' : nzr (-320) 321 szz) by (apply (nzr_weaken (-320) 320); [assumption | lia]).
  assert (T2 : tr S2 s2)
    by (apply tr_add; [assumption .. | apply (nzr_nz (-320) 322); [apply (nzr_add (-320) 321); assumption | lia | lia]]).
  assert (N2 : nzr (-320) 322 s2) by (apply (g_add_nzr (-320) 321); [assumption | assumption | lia | lia]).
  assert (Hs2 : s2 <> 0).
  { intro E0. unfold s2 in E0. apply g_add_eq0 in E0.
    destruct N1 as [P1 _]. destruct Nzz as [P3 _].
    assert (E1 : s1 = 0) by lra. assert (E3 : szz = 0) by lra.
    unfold s1 in E1. apply g_add_eq0 in E1.
    destruct Nxx as [Pxx _]. destruct Nyy as [Pyy _].
    assert (Exx : sxx = 0) by lra. assert (Eyy : syy = 0) by lra.
    unfold sxx in Exx. apply g_sq_eq0 in Exx. unfold dx in Exx. apply g_sub_eq0 in Exx.
    unfold syy in Eyy. apply g_sq_eq0 in Eyy. unfold dy in Eyy. apply g_sub_eq0 in Eyy.
    unfold szz in E3. apply g_sq_eq0 in E3. unfold dz in E3. apply g_sub_eq0 in E3.
    rewrite Exx, Eyy, E3 in Hap. simpl in Hap. lra. }
  assert (P2 : pr (-320) 322 s2) by (apply nzr_pr; assumption).
  (* inverse square distance, inverse distance *)
  set (isd0 := o_div g64_ops (o_one g64_ops) s2). set (ISD0 := Bdiv mode_NE b64_one S2).
  assert (T0 : tr ISD0 isd0).
  { apply tr_div; [apply tr_one | exact T2 | exact Hs2 |].
    apply (pr_nz (-322) 320); [apply (pr_inv (-320) 322 s2 P2) | lia | lia]. }
  assert (P0 : pr (-322) 320 isd0) by (apply (g_inv_pr (-320) 322); [exact P2 | lia | lia]).
  set (inv := o_sqrt g64_ops isd0). set (INV := Bsqrt mode_NE ISD0).
  assert (Ti : tr INV inv) by (apply tr_sqrt; [exact T0 | left; apply (pr_pos _ _ _ P0)]).
  assert (Pi : pr (-161) 160 inv) by (apply (g_sqrt_pr (-161) 160); [exact P0 | lia | lia]).
  set (isd1 := o_mul g64_ops isd0 inv). set (ISD1 := Bmult mode_NE ISD0 INV).
  assert (TI1 : tr ISD1 isd1).
  { apply tr_mul; [assumption .. |].
    apply (pr_nz (-483) 480); [apply (pr_mul (-322) 320 (-161) 160); assumption | lia | lia]. }
  assert (PI1 : pr (-483) 480 isd1) by (apply (g_mul_pr (-322) 320 (-161) 160); [assumption | assumption | lia | lia]).
  (* charges *)
  set (vv := o_mul g64_ops (B2R vt) (B2R vs)). set (VV := Bmult mode_NE vt vs).
  assert (Tv : tr VV vv).
  { apply tr_mul; [apply tr_in; assumption .. |].
    apply (zr_nz (-320) 320); [apply (zr_mul (-160) 160 (-160) 160); assumption | lia | lia]. }
  assert (Zv : zr (-320) 320 vv) by (apply (g_mul_zr (-160) 160 (-160) 160); [assumption | assumption | lia | lia]).
  set (isd2 := o_mul g64_ops isd1 vv). set (ISD2 := Bmult mode_NE ISD1 VV).
  assert (ZI1 : zr (-483) 480 isd1) by (apply pr_zr; exact PI1).
  assert (TI2 : tr ISD2 isd2).
  { apply tr_mul; [assumption .. |].
    apply (zr_nz (-803) 800); [apply (zr_mul (-483) 480 (-320) 320); assumption | lia | lia]. }
  assert (ZI2 : zr (-803) 800 isd2) by (apply (g_mul_zr (-483) 480 (-320) 320); [assumption | assumption | lia | lia]).
  (* outputs *)
  split; [|split; [|split]]; [| | | exact Ti].
  all: apply tr_mul; [assumption .. |];
       apply (zr_nz (-963) 960); [apply (zr_mul (-160) 160 (-803) 800); assumption | lia | lia].
Qed.

(* MAIN A for the actual IEEE binary64 computation (Flocq operations) *)
Theorem b64_pair_error : forall s t : part b64, b64_inputs_ok s t ->
  let sR := partR_of s in let tR := partR_of t in
  let '(fx, fy, fz, inv) := pair b64 b64_ops s t in
  (is_finite fx = true /\ is_finite fy = true /\ is_finite fz = true /\ is_finite inv = true) /\
  Rabs (B2R inv - / rdist sR tR) <= 5 * bpow radix2 (-53) * / rdist sR tR /\
  Rabs (B2R fx - f_x _ (contrib sR tR)) <= 16 * bpow radix2 (-53) * Rabs (f_x _ (contrib sR tR)) /\
  Rabs (B2R fy - f_y _ (contrib sR tR)) <= 16 * bpow radix2 (-53) * Rabs (f_y _ (contrib sR tR)) /\
  Rabs (B2R fz - f_z _ (contrib sR tR)) <= 16 * bpow radix2 (-53) * Rabs (f_z _ (contrib sR tR)).
Proof.
  intros s t Hok sR tR.
  pose proof (b64_pair_g64 s t Hok) as HT.
  assert (Hap : apart sR tR) by (destruct Hok as (_ & _ & _ & Hap & _); exact Hap).
  pose proof (g64_pair_error sR tR Hap) as HE. fold sR tR in HT.
  destruct (pair b64 b64_ops s t) as [[[fx fy] fz] inv].
  destruct (pair R g64_ops sR tR) as [[[gx gy] gz] ginv].
  destruct HT as ((Fx & Ex) & (Fy & Ey) & (Fz & Ez) & (Fi & Ei)).
  rewrite Ex, Ey, Ez, Ei. split; [repeat split; assumption | exact HE].
Qed.

(* the same for the SpecFloat instance sf_ops 53 1024 that is executed bit for bit against the C++ *)
Theorem sf_pair_error : forall s t : part b64, b64_inputs_ok s t ->
  let sR := partR_of s in let tR := partR_of t in
  let '(fx, fy, fz, inv) := pair spec_float (sf_ops 53 1024) (sf_part s) (sf_part t) in
  Rabs (SF2R radix2 inv - / rdist sR tR) <= 5 * bpow radix2 (-53) * / rdist sR tR /\
  Rabs (SF2R radix2 fx - f_x _ (contrib sR tR)) <= 16 * bpow radix2 (-53) * Rabs (f_x _ (contrib sR tR)) /\
  Rabs (SF2R radix2 fy - f_y _ (contrib sR tR)) <= 16 * bpow radix2 (-53) * Rabs (f_y _ (contrib sR tR)) /\
  Rabs (SF2R radix2 fz - f_z _ (contrib sR tR)) <= 16 * bpow radix2 (-53) * Rabs (f_z _ (contrib sR tR)).
Proof.
  intros s t Hok sR tR. rewrite sf_pair_bridge.
  pose proof (b64_pair_error s t Hok) as HE. fold sR tR in HE.
  destruct (pair b64 b64_ops s t) as [[[fx fy] fz] inv].
  rewrite !SF2R_B2SF. exact (proj2 HE).
Qed.

Print Assumptions sf_sqrt_bridge.
Print Assumptions sf_pair_bridge.
Print Assumptions b64_pair_g64.
Print Assumptions b64_pair_error.
Print Assumptions sf_pair_error.
