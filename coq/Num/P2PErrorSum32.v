(* Rounding clause of the direct P2P property, ACCUMULATION on the actual IEEE BINARY32 computation: the port of
   Num/P2PErrorSum.v.  remote_one b32 b32_ops srcs t (rhs0 ...) (Flocq operations = the SpecFloat instance sf_ops 24 128
   that is executed against the C++) is, read through B2R, the computation in g32_ops (Num/P2PError32.v) as long as no
   addition overflows.  binary32 overflows at 2^128, so the hypotheses are tighter than for one pair:
     b32_inputs_ok18 : coordinate differences and charges are 0 or have magnitude in [2^-18, 2^18]
                       (one force term is then 0 or in [2^-111, 2^108], one potential term 0 or in [2^-37, 2^36]);
     at most 2^11 = 2048 sources (running sums stay below 2^13 * 2^108 = 2^121 < 2^127, and the side conditions
                       (n + 6)(n + 7) u <= 1, (n + 16)(n + 17) u <= 1 of MAIN B hold for u = 2^-24).
   No axiom is declared here. *)
From Coq Require Import List Reals Lra Psatz Lia Arith ZArith.
From Flocq Require Import Core Relative Plus_error IEEE754.BinarySingleNaN.
From Coq Require Import Floats.SpecFloat.
From Tbfmm Require Import Num.P2PDefs Num.P2PReal Num.P2PSF Float.LocateProofs Num.P2PError Num.P2PError32.
Import ListNotations.
Local Open Scope R_scope.

(* ---------------------------------------------------------------------------------------------------------------- *)
(* Part 1: addition whose exact result may be zero, subnormal or normal *)

Lemma B2R_F32 : forall x : b32, F32 (B2R x).
Proof. intros x. apply (generic_format_B2R 24 128 x). Qed.

Lemma grnd32_small : forall r, Rabs r < bpow radix2 (-126) -> grnd32 r = r.
Proof.
  intros r H. unfold grnd32. destruct (Rle_dec _ _) as [H1|H1]; [lra | reflexivity].
Qed.

Lemma tr32_add_any : forall X Y a b, tr32 X a -> tr32 Y b -> Rabs (a + b) < bpow radix2 127 ->
  tr32 (Bplus mode_NE X Y) (o_add g32_ops a b).
Proof.
  intros X Y a b TX TY Hlt.
  destruct (Rle_or_lt (bpow radix2 (-126)) (Rabs (a + b))) as [Hn|Hs].
  - apply tr32_add; [exact TX | exact TY | right; split; assumption].
  - destruct TX as [Fx <-]. destruct TY as [Fy <-].
    cbn [g32_ops o_add]. rewrite (grnd32_small _ Hs).
    assert (Hf : F32 (B2R X + B2R Y)).
    { apply (FLT_format_plus_small radix2 (-149) 24); [apply B2R_F32 | apply B2R_F32 |].
      change (24 + -149)%Z with (-125)%Z.
      apply Rle_trans with (bpow radix2 (-126)); [lra | apply bpow_le; lia]. }
    assert (Hr : rnd32 (B2R X + B2R Y) = B2R X + B2R Y)
      by (apply round_generic; [auto with typeclass_instances | exact Hf]).
    generalize (Bplus_correct 24 128 _ _ mode_NE X Y Fx Fy).
    change (round radix2 (SpecFloat.fexp 24 128) (round_mode mode_NE)) with rnd32.
    rewrite Hr. rewrite Rlt_bool_true.
    + intros (H1 & H2 & _). split; assumption.
    + apply Rlt_trans with (1 := Hs). apply bpow_lt; lia.
Qed.

(* ---------------------------------------------------------------------------------------------------------------- *)
(* Part 2a: tighter input conditions, and b32_pair_g32 together with the magnitudes of the g32 results.
     d            0 or [2^-18 , 2^18 ]      d*d          0 or [2^-36 , 2^36 ]
     r^2          [2^-36 , 2^38 ]           1/r^2        [2^-38 , 2^36 ]
     1/r          [2^-19 , 2^18 ]           1/r^3        [2^-57 , 2^54 ]
     v_t v_s      0 or [2^-36 , 2^36 ]      v_t v_s/r^3  0 or [2^-93 , 2^90 ]
     forces       0 or [2^-111, 2^108]      v_s / r      0 or [2^-37 , 2^36 ]                                  *)

Definition b32_inputs_ok18 (s t : part b32) : Prop :=
  (is_finite (p_x _ s) = true /\ is_finite (p_y _ s) = true /\ is_finite (p_z _ s) = true /\
   is_finite (p_v _ s) = true) /\
  (is_finite (p_x _ t) = true /\ is_finite (p_y _ t) = true /\ is_finite (p_z _ t) = true /\
   is_finite (p_v _ t) = true) /\
  (zr (-18) 18 (B2R (p_x _ s) - B2R (p_x _ t)) /\ zr (-18) 18 (B2R (p_y _ s) - B2R (p_y _ t)) /\
   zr (-18) 18 (B2R (p_z _ s) - B2R (p_z _ t))) /\
  apart (partR32_of s) (partR32_of t) /\
  zr (-18) 18 (B2R (p_v _ s)) /\ zr (-18) 18 (B2R (p_v _ t)).

Lemma b32_inputs_ok18_ok : forall s t : part b32, b32_inputs_ok18 s t -> b32_inputs_ok s t.
Proof.
  intros s t (Fs & Ft & (HX & HY & HZ) & Hap & Hvs & Hvt).
  split; [exact Fs|]. split; [exact Ft|].
  split; [split; [|split]; apply (zr_weaken (-18) 18); (assumption || lia)|].
  split; [exact Hap|].
  split; apply (zr_weaken (-18) 18); (assumption || lia).
Qed.

Theorem b32_pair_g32_mag : forall s t : part b32, b32_inputs_ok18 s t ->
  let '(fx, fy, fz, inv) := pair b32 b32_ops s t in
  let '(gx, gy, gz, ginv) := pair R g32_ops (partR32_of s) (partR32_of t) in
  (tr32 fx gx /\ tr32 fy gy /\ tr32 fz gz /\ tr32 inv ginv) /\
  zr (-111) 108 gx /\ zr (-111) 108 gy /\ zr (-111) 108 gz /\ pr (-19) 18 ginv.
Proof.
  intros [xs ys zs vs] [xt yt zt vt] Hok. unfold b32_inputs_ok18, partR32_of in Hok. cbn [p_x p_y p_z p_v] in Hok.
  destruct Hok as ((Fxs & Fys & Fzs & Fvs) & (Fxt & Fyt & Fzt & Fvt) & (HX & HY & HZ) & Hap & Hvs & Hvt).
  unfold apart, d2 in Hap. cbn [p_x p_y p_z] in Hap.
  unfold pair, partR32_of. cbn [p_x p_y p_z p_v].
  cbn [b32_ops o_add o_sub o_mul o_div o_sqrt o_one].
  set (dx := o_sub g32_ops (B2R xs) (B2R xt)). set (DX := Bminus mode_NE xs xt).
  set (dy := o_sub g32_ops (B2R ys) (B2R yt)). set (DY := Bminus mode_NE ys yt).
  set (dz := o_sub g32_ops (B2R zs) (B2R zt)). set (DZ := Bminus mode_NE zs zt).
  assert (Tdx : tr32 DX dx) by (apply tr32_sub; [apply tr32_in; assumption .. | apply (zr_nz32 _ _ _ HX); lia]).
  assert (Tdy : tr32 DY dy) by (apply tr32_sub; [apply tr32_in; assumption .. | apply (zr_nz32 _ _ _ HY); lia]).
  assert (Tdz : tr32 DZ dz) by (apply tr32_sub; [apply tr32_in; assumption .. | apply (zr_nz32 _ _ _ HZ); lia]).
  assert (Zdx : zr (-18) 18 dx) by (apply g32_sub_zr; [exact HX | lia | lia]).
  assert (Zdy : zr (-18) 18 dy) by (apply g32_sub_zr; [exact HY | lia | lia]).
  assert (Zdz : zr (-18) 18 dz) by (apply g32_sub_zr; [exact HZ | lia | lia]).
  set (sxx := o_mul g32_ops dx dx). set (SXX := Bmult mode_NE DX DX).
  set (syy := o_mul g32_ops dy dy). set (SYY := Bmult mode_NE DY DY).
  set (szz := o_mul g32_ops dz dz). set (SZZ := Bmult mode_NE DZ DZ).
  assert (Txx : tr32 SXX sxx)
    by (apply tr32_mul; [assumption .. | apply (zr_nz32 (-36) 36); [apply (zr_mul (-18) 18 (-18) 18); assumption | lia | lia]]).
  assert (Tyy : tr32 SYY syy)
    by (apply tr32_mul; [assumption .. | apply (zr_nz32 (-36) 36); [apply (zr_mul (-18) 18 (-18) 18); assumption | lia | lia]]).
  assert (Tzz : tr32 SZZ szz)
    by (apply tr32_mul; [assumption .. | apply (zr_nz32 (-36) 36); [apply (zr_mul (-18) 18 (-18) 18); assumption | lia | lia]]).
  assert (Nxx : nzr (-36) 36 sxx) by (apply (g32_sq_nzr (-18) 18); [assumption | lia | lia]).
  assert (Nyy : nzr (-36) 36 syy) by (apply (g32_sq_nzr (-18) 18); [assumption | lia | lia]).
  assert (Nzz : nzr (-36) 36 szz) by (apply (g32_sq_nzr (-18) 18); [assumption | lia | lia]).
  set (s1 := o_add g32_ops sxx syy). set (S1 := Bplus mode_NE SXX SYY).
  assert (T1 : tr32 S1 s1)
    by (apply tr32_add; [assumption .. | apply (nzr_nz32 (-36) 37); [apply (nzr_add (-36) 36); assumption | lia | lia]]).
  assert (N1 : nzr (-36) 37 s1) by (apply (g32_add_nzr (-36) 36); [assumption | assumption | lia | lia]).
  set (s2 := o_add g32_ops s1 szz). set (S2 := Bplus mode_NE S1 SZZ).
  assert (Nzz' : nzr (-36) 37 szz) by (apply (nzr_weaken (-36) 36); [assumption | lia]).
  assert (T2 : tr32 S2 s2)
    by (apply tr32_add; [assumption .. | apply (nzr_nz32 (-36) 38); [apply (nzr_add (-36) 37); assumption | lia | lia]]).
  assert (N2 : nzr (-36) 38 s2) by (apply (g32_add_nzr (-36) 37); [assumption | assumption | lia | lia]).
  assert (Hs2 : s2 <> 0).
  { intro E0. unfold s2 in E0. apply g32_add_eq0 in E0.
    destruct N1 as [P1 _]. destruct Nzz as [P3 _].
    assert (E1 : s1 = 0) by lra. assert (E3 : szz = 0) by lra.
    unfold s1 in E1. apply g32_add_eq0 in E1.
    destruct Nxx as [Pxx _]. destruct Nyy as [Pyy _].
    assert (Exx : sxx = 0) by lra. assert (Eyy : syy = 0) by lra.
    unfold sxx in Exx. apply g32_sq_eq0 in Exx. unfold dx in Exx. apply g32_sub_eq0 in Exx.
    unfold syy in Eyy. apply g32_sq_eq0 in Eyy. unfold dy in Eyy. apply g32_sub_eq0 in Eyy.
    unfold szz in E3. apply g32_sq_eq0 in E3. unfold dz in E3. apply g32_sub_eq0 in E3.
    rewrite Exx, Eyy, E3 in Hap. simpl in Hap. lra. }
  assert (P2 : pr (-36) 38 s2) by (apply nzr_pr; assumption).
  set (isd0 := o_div g32_ops (o_one g32_ops) s2). set (ISD0 := Bdiv mode_NE b32_one S2).
  assert (T0 : tr32 ISD0 isd0).
  { apply tr32_div; [apply tr32_one | exact T2 | exact Hs2 |].
    apply (pr_nz32 (-38) 36); [apply (pr_inv (-36) 38 s2 P2) | lia | lia]. }
  assert (P0 : pr (-38) 36 isd0) by (apply (g32_inv_pr (-36) 38); [exact P2 | lia | lia]).
  set (inv := o_sqrt g32_ops isd0). set (INV := Bsqrt mode_NE ISD0).
  assert (Ti : tr32 INV inv) by (apply tr32_sqrt; [exact T0 | left; apply (pr_pos _ _ _ P0)]).
  assert (Pi : pr (-19) 18 inv) by (apply (g32_sqrt_pr (-19) 18); [exact P0 | lia | lia]).
  set (isd1 := o_mul g32_ops isd0 inv). set (ISD1 := Bmult mode_NE ISD0 INV).
  assert (TI1 : tr32 ISD1 isd1).
  { apply tr32_mul; [assumption .. |].
    apply (pr_nz32 (-57) 54); [apply (pr_mul (-38) 36 (-19) 18); assumption | lia | lia]. }
  assert (PI1 : pr (-57) 54 isd1) by (apply (g32_mul_pr (-38) 36 (-19) 18); [assumption | assumption | lia | lia]).
  set (vv := o_mul g32_ops (B2R vt) (B2R vs)). set (VV := Bmult mode_NE vt vs).
  assert (Tv : tr32 VV vv).
  { apply tr32_mul; [apply tr32_in; assumption .. |].
    apply (zr_nz32 (-36) 36); [apply (zr_mul (-18) 18 (-18) 18); assumption | lia | lia]. }
  assert (Zv : zr (-36) 36 vv) by (apply (g32_mul_zr (-18) 18 (-18) 18); [assumption | assumption | lia | lia]).
  set (isd2 := o_mul g32_ops isd1 vv). set (ISD2 := Bmult mode_NE ISD1 VV).
  assert (ZI1 : zr (-57) 54 isd1) by (apply pr_zr; exact PI1).
  assert (TI2 : tr32 ISD2 isd2).
  { apply tr32_mul; [assumption .. |].
    apply (zr_nz32 (-93) 90); [apply (zr_mul (-57) 54 (-36) 36); assumption | lia | lia]. }
  assert (ZI2 : zr (-93) 90 isd2) by (apply (g32_mul_zr (-57) 54 (-36) 36); [assumption | assumption | lia | lia]).
  split; [split; [|split; [|split]]; [| | | exact Ti] | split; [|split; [|split]]; [| | | exact Pi]].
  1-3: apply tr32_mul; [assumption .. |];
       apply (zr_nz32 (-111) 108); [apply (zr_mul (-18) 18 (-93) 90); assumption | lia | lia].
  all: apply (g32_mul_zr (-18) 18 (-93) 90); [assumption | assumption | lia | lia].
Qed.

Lemma zr_abs_le32 : forall lo hi r, zr lo hi r -> Rabs r <= bpow radix2 hi.
Proof.
  intros lo hi r [Z|[_ H]]; [|exact H]. rewrite Z, Rabs_R0. apply bpow_ge_0.
Qed.

(* ---------------------------------------------------------------------------------------------------------------- *)
(* Part 2b: the terms added to the four accumulators *)

Definition bterm32_x (t s : part b32) : b32 := let '(dx, _, _, _) := pair b32 b32_ops s t in dx.
Definition bterm32_y (t s : part b32) : b32 := let '(_, dy, _, _) := pair b32 b32_ops s t in dy.
Definition bterm32_z (t s : part b32) : b32 := let '(_, _, dz, _) := pair b32 b32_ops s t in dz.
Definition bterm32_p (t s : part b32) : b32 :=
  let '(_, _, _, inv) := pair b32 b32_ops s t in Bmult mode_NE inv (p_v _ s).

Notation Mterm32 := (bpow radix2 108).

(* a term: the IEEE value is the g32 value, and the g32 value is at most 2^108 in magnitude *)
Definition term32_ok (B : b32) (g : R) : Prop := tr32 B g /\ Rabs g <= Mterm32.

Lemma b32_terms_ok : forall s t : part b32, b32_inputs_ok18 s t ->
  term32_ok (bterm32_x t s) (term_x g32_ops (partR32_of t) (partR32_of s)) /\
  term32_ok (bterm32_y t s) (term_y g32_ops (partR32_of t) (partR32_of s)) /\
  term32_ok (bterm32_z t s) (term_z g32_ops (partR32_of t) (partR32_of s)) /\
  term32_ok (bterm32_p t s) (term_p g32_ops (partR32_of t) (partR32_of s)).
Proof.
  intros s t Hok. pose proof (b32_pair_g32_mag s t Hok) as H.
  unfold bterm32_x, bterm32_y, bterm32_z, bterm32_p, term_x, term_y, term_z, term_p.
  destruct (pair b32 b32_ops s t) as [[[fx fy] fz] inv].
  destruct (pair R g32_ops (partR32_of s) (partR32_of t)) as [[[gx gy] gz] ginv].
  destruct H as ((Tx & Ty & Tz & Ti) & Zx & Zy & Zz & Pi).
  destruct Hok as ((_ & _ & _ & Fvs) & _ & _ & _ & Hvs & _).
  unfold term32_ok.
  split; [split; [exact Tx | apply (zr_abs_le32 (-111)); exact Zx]|].
  split; [split; [exact Ty | apply (zr_abs_le32 (-111)); exact Zy]|].
  split; [split; [exact Tz | apply (zr_abs_le32 (-111)); exact Zz]|].
  split.
  - apply tr32_mul; [exact Ti | apply tr32_in; exact Fvs |]. cbn [partR32_of p_v].
    apply (zr_nz32 (-37) 36); [apply (zr_mul (-19) 18 (-18) 18); [apply pr_zr; exact Pi | exact Hvs] | lia | lia].
  - cbn [partR32_of p_v].
    apply Rle_trans with (bpow radix2 36); [|apply bpow_le; lia].
    apply (zr_abs_le32 (-37)).
    apply (g32_mul_zr (-19) 18 (-18) 18); [apply pr_zr; exact Pi | exact Hvs | lia | lia].
Qed.

(* ---------------------------------------------------------------------------------------------------------------- *)
(* Part 2c: numeric facts: 2^11 terms of magnitude 2^108, accumulated with rounding, stay below 2^121 *)

Lemma u32_val : u32 = / 16777216.
Proof. simpl. reflexivity. Qed.

Lemma bpow13_val : bpow radix2 13 = 8192.
Proof. simpl. reflexivity. Qed.

Lemma INR_le_2_11 : forall k : nat, (Z.of_nat k <= 2 ^ 11)%Z -> 0 <= INR k <= 2048.
Proof.
  intros k H; split; [apply pos_INR|]. rewrite INR_IZR_INZ. apply IZR_le in H. exact H.
Qed.

Lemma Mterm32_pos : 0 < Mterm32.
Proof. apply bpow_gt_0. Qed.

Lemma below_overflow32 : forall k x, 0 <= k <= 2048 -> Rabs x <= (2 * k + 1) * Mterm32 -> Rabs x < bpow radix2 127.
Proof.
  intros k x Hk Hx. apply Rle_lt_trans with (1 := Hx).
  apply Rle_lt_trans with (bpow radix2 13 * Mterm32).
  - apply Rmult_le_compat_r; [apply bpow_ge_0|]. rewrite bpow13_val. lra.
  - rewrite <- bpow_plus. apply bpow_lt. lia.
Qed.

Lemma grnd32_acc_bound : forall k a b, 0 <= k <= 2048 ->
  Rabs a <= k * (2 * Mterm32) -> Rabs b <= Mterm32 -> Rabs (grnd32 (a + b)) <= (k + 1) * (2 * Mterm32).
Proof.
  intros k a b Hk Ha Hb. pose proof Mterm32_pos as HM.
  destruct (grnd32_model (a + b)) as [e [He ->]]. rewrite Rabs_mult.
  assert (Hs : Rabs (a + b) <= (2 * k + 1) * Mterm32) by (apply Rle_trans with (1 := Rabs_triang _ _); lra).
  assert (H1 : Rabs (1 + e) <= 1 + u32) by (apply Rabs_le_both in He; apply Rabs_le; lra).
  pose proof u32_range as Hu.
  apply Rle_trans with ((2 * k + 1) * Mterm32 * (1 + u32)).
  - apply Rmult_le_compat; try apply Rabs_pos; assumption.
  - assert (Hku : (2 * k + 1) * u32 <= 1).
    { rewrite u32_val. apply Rle_trans with (4097 * / 16777216); [|lra].
      apply Rmult_le_compat_r; lra. }
    nra.
Qed.

(* ---------------------------------------------------------------------------------------------------------------- *)
(* Part 2d: one accumulator *)

Definition baddterm32 (term : part b32 -> b32) (x : b32) (s : part b32) : b32 := Bplus mode_NE x (term s).

Lemma fold_tr32 : forall (termB : part b32 -> b32) (termG : partR -> R) (srcs : list (part b32)),
  Forall (fun s => term32_ok (termB s) (termG (partR32_of s))) srcs ->
  forall (k : nat) (A : b32) (G : R), tr32 A G -> Rabs G <= INR k * (2 * Mterm32) ->
  (Z.of_nat (k + length srcs) <= 2 ^ 11)%Z ->
  tr32 (fold_left (baddterm32 termB) srcs A) (fold_left (addterm g32_ops termG) (map partR32_of srcs) G) /\
  Rabs (fold_left (addterm g32_ops termG) (map partR32_of srcs) G) <= INR (k + length srcs) * (2 * Mterm32).
Proof.
  intros termB termG srcs HF; induction HF as [|s l Hs HF IH]; intros k A G HT HG Hk.
  - cbn [fold_left map length]. rewrite Nat.add_0_r. split; assumption.
  - cbn [fold_left map length] in *. rewrite Nat.add_succ_r in *.
    destruct Hs as [Ts Ms].
    assert (Hk' : 0 <= INR k <= 2048) by (apply INR_le_2_11; lia).
    apply (IH (S k)).
    + unfold baddterm32, addterm. apply tr32_add_any; [exact HT | exact Ts |].
      apply (below_overflow32 (INR k)); [exact Hk'|].
      apply Rle_trans with (1 := Rabs_triang _ _). lra.
    + rewrite S_INR. unfold addterm. cbn [g32_ops o_add]. apply grnd32_acc_bound; assumption.
    + exact Hk.
Qed.

Lemma tr32_zero : tr32 (B754_zero false) 0.
Proof. split; reflexivity. Qed.

Lemma accum_tr32 : forall (termB : part b32 -> b32) (termG : partR -> R) (srcs : list (part b32)),
  Forall (fun s => term32_ok (termB s) (termG (partR32_of s))) srcs ->
  (Z.of_nat (length srcs) <= 2 ^ 11)%Z ->
  tr32 (Bplus mode_NE (B754_zero false) (fold_left (baddterm32 termB) srcs (B754_zero false)))
     (o_add g32_ops (o_zero g32_ops) (fold_left (addterm g32_ops termG) (map partR32_of srcs) (o_zero g32_ops))).
Proof.
  intros termB termG srcs HF Hlen. cbn [g32_ops o_zero].
  destruct (fold_tr32 termB termG srcs HF 0 (B754_zero false) 0 tr32_zero) as [HT HB].
  - rewrite Rabs_R0. simpl. lra.
  - exact Hlen.
  - cbn [Nat.add] in HB.
    pose proof (INR_le_2_11 _ Hlen) as Hn. pose proof Mterm32_pos as HM.
    change (grnd32 (0 + fold_left (addterm g32_ops termG) (map partR32_of srcs) 0))
      with (o_add g32_ops 0 (fold_left (addterm g32_ops termG) (map partR32_of srcs) 0)).
    apply tr32_add_any; [exact tr32_zero | exact HT |].
    rewrite Rplus_0_l. apply (below_overflow32 (INR (length srcs))); [exact Hn|]. lra.
Qed.

(* ---------------------------------------------------------------------------------------------------------------- *)
(* Part 2e: the transfer for remote_one *)

Lemma b32_remote_proj : forall (srcs : list (part b32)) (t : part b32),
  let r := remote_one b32 b32_ops srcs t (rhs0 b32 b32_ops) in
  f_x _ r = Bplus mode_NE (B754_zero false) (fold_left (baddterm32 (bterm32_x t)) srcs (B754_zero false)) /\
  f_y _ r = Bplus mode_NE (B754_zero false) (fold_left (baddterm32 (bterm32_y t)) srcs (B754_zero false)) /\
  f_z _ r = Bplus mode_NE (B754_zero false) (fold_left (baddterm32 (bterm32_z t)) srcs (B754_zero false)) /\
  f_p _ r = Bplus mode_NE (B754_zero false) (fold_left (baddterm32 (bterm32_p t)) srcs (B754_zero false)).
Proof.
  intros srcs t. unfold remote_one. cbn [f_x f_y f_z f_p rhs0].
  repeat split; apply (f_equal (Bplus mode_NE (B754_zero false))).
  - apply (fold_left_proj _ _ _ _ (baddterm32 (bterm32_x t)) (f_x b32)).
    intros a s; unfold baddterm32, bterm32_x; destruct (pair b32 b32_ops s t) as [[[? ?] ?] ?]; reflexivity.
  - apply (fold_left_proj _ _ _ _ (baddterm32 (bterm32_y t)) (f_y b32)).
    intros a s; unfold baddterm32, bterm32_y; destruct (pair b32 b32_ops s t) as [[[? ?] ?] ?]; reflexivity.
  - apply (fold_left_proj _ _ _ _ (baddterm32 (bterm32_z t)) (f_z b32)).
    intros a s; unfold baddterm32, bterm32_z; destruct (pair b32 b32_ops s t) as [[[? ?] ?] ?]; reflexivity.
  - apply (fold_left_proj _ _ _ _ (baddterm32 (bterm32_p t)) (f_p b32)).
    intros a s; unfold baddterm32, bterm32_p; destruct (pair b32 b32_ops s t) as [[[? ?] ?] ?]; reflexivity.
Qed.

Theorem b32_remote_g32 : forall (srcs : list (part b32)) (t : part b32),
  Forall (fun s => b32_inputs_ok18 s t) srcs -> (Z.of_nat (length srcs) <= 2 ^ 11)%Z ->
  let r := remote_one b32 b32_ops srcs t (rhs0 b32 b32_ops) in
  let g := remote_one R g32_ops (map partR32_of srcs) (partR32_of t) (rhs0 R g32_ops) in
  tr32 (f_x _ r) (f_x _ g) /\ tr32 (f_y _ r) (f_y _ g) /\ tr32 (f_z _ r) (f_z _ g) /\ tr32 (f_p _ r) (f_p _ g).
Proof.
  intros srcs t HF Hlen r g.
  destruct (b32_remote_proj srcs t) as (Bx & By & Bz & Bp). fold r in Bx, By, Bz, Bp.
  destruct (remote_one_proj g32_ops (map partR32_of srcs) (partR32_of t)) as (Gx & Gy & Gz & Gp).
  fold g in Gx, Gy, Gz, Gp.
  rewrite Bx, By, Bz, Bp, Gx, Gy, Gz, Gp.
  split; [|split; [|split]]; (apply accum_tr32; [|exact Hlen]); (eapply Forall_impl; [|exact HF]); intros s Hs;
    apply (b32_terms_ok s t Hs).
Qed.

(* ---------------------------------------------------------------------------------------------------------------- *)
(* Part 3: MAIN B on the actual IEEE binary32 computation *)

Lemma inputs_apart32 : forall (srcs : list (part b32)) (t : part b32),
  Forall (fun s => b32_inputs_ok18 s t) srcs -> Forall (fun s => apart s (partR32_of t)) (map partR32_of srcs).
Proof.
  intros srcs t HF. apply Forall_forall. intros sR Hin. apply in_map_iff in Hin. destruct Hin as [s [<- Hs]].
  rewrite Forall_forall in HF. destruct (HF s Hs) as (_ & _ & _ & Hap & _). exact Hap.
Qed.

Lemma side_cond32 : forall n, 0 <= n <= 2048 -> (n + 16) * (n + 17) * u32 <= 1 /\ (n + 6) * (n + 7) * u32 <= 1.
Proof.
  intros n Hn. rewrite u32_val.
  assert (H1 : (n + 16) * (n + 17) <= 2064 * 2065) by (apply Rmult_le_compat; lra).
  assert (H2 : (n + 6) * (n + 7) <= (n + 16) * (n + 17)) by (apply Rmult_le_compat; lra).
  split; lra.
Qed.

Theorem b32_remote_error : forall (srcs : list (part b32)) (t : part b32),
  Forall (fun s => b32_inputs_ok18 s t) srcs -> (Z.of_nat (length srcs) <= 2 ^ 11)%Z ->
  let tR := partR32_of t in let sR := map partR32_of srcs in let n := INR (length srcs) in
  let r := remote_one b32 b32_ops srcs t (rhs0 b32 b32_ops) in
  (is_finite (f_x _ r) = true /\ is_finite (f_y _ r) = true /\ is_finite (f_z _ r) = true /\
   is_finite (f_p _ r) = true) /\
  Rabs (B2R (f_p _ r) - Rsum (map (fun s => p_v _ s / rdist s tR) sR))
    <= ((n + 7) * bpow radix2 (-24)) * Rsum (map (fun s => Rabs (p_v _ s) / rdist s tR) sR) /\
  Rabs (B2R (f_x _ r) - Rsum (map (fun s => f_x _ (contrib s tR)) sR))
    <= ((n + 17) * bpow radix2 (-24)) * Rsum (map (fun s => Rabs (f_x _ (contrib s tR))) sR) /\
  Rabs (B2R (f_y _ r) - Rsum (map (fun s => f_y _ (contrib s tR)) sR))
    <= ((n + 17) * bpow radix2 (-24)) * Rsum (map (fun s => Rabs (f_y _ (contrib s tR))) sR) /\
  Rabs (B2R (f_z _ r) - Rsum (map (fun s => f_z _ (contrib s tR)) sR))
    <= ((n + 17) * bpow radix2 (-24)) * Rsum (map (fun s => Rabs (f_z _ (contrib s tR))) sR).
Proof.
  intros srcs t HF Hlen tR sR n r.
  destruct (b32_remote_g32 srcs t HF Hlen) as ((Fx & Ex) & (Fy & Ey) & (Fz & Ez) & (Fp & Ep)).
  fold r in Fx, Ex, Fy, Ey, Fz, Ez, Fp, Ep. fold tR sR in Ex, Ey, Ez, Ep.
  pose proof (inputs_apart32 srcs t HF) as Hap. fold tR sR in Hap.
  assert (Hn : INR (length sR) = n) by (unfold sR, n; rewrite map_length; reflexivity).
  destruct (side_cond32 n (INR_le_2_11 _ Hlen)) as [Hc16 Hc6].
  pose proof (remote_potential_error u32 u32_range g32_ops g32_std_model sR tR Hap) as HP.
  pose proof (remote_force_error u32 u32_range g32_ops g32_std_model sR tR Hap) as HFo.
  cbv zeta in HP, HFo. rewrite Hn in HP, HFo.
  specialize (HP Hc6). specialize (HFo Hc16).
  rewrite Ex, Ey, Ez, Ep.
  split; [repeat split; assumption|]. split; [exact HP | exact HFo].
Qed.

(* ---------------------------------------------------------------------------------------------------------------- *)
(* Part 4: the SpecFloat computation of remote_one IS the Flocq computation, for all inputs *)

Definition sf_rhs32 (r : rhs b32) : rhs spec_float :=
  {| f_x := B2SF (f_x _ r); f_y := B2SF (f_y _ r); f_z := B2SF (f_z _ r); f_p := B2SF (f_p _ r) |}.

Definition bstep32 (t : part b32) (a : rhs b32) (s : part b32) : rhs b32 :=
  let '(dx, dy, dz, inv) := pair b32 b32_ops s t in
  {| f_x := o_add b32_ops (f_x _ a) dx; f_y := o_add b32_ops (f_y _ a) dy; f_z := o_add b32_ops (f_z _ a) dz;
     f_p := o_add b32_ops (f_p _ a) (o_mul b32_ops inv (p_v _ s)) |}.

Definition sstep32 (t : part spec_float) (a : rhs spec_float) (s : part spec_float) : rhs spec_float :=
  let '(dx, dy, dz, inv) := pair spec_float (sf_ops 24 128) s t in
  {| f_x := o_add (sf_ops 24 128) (f_x _ a) dx; f_y := o_add (sf_ops 24 128) (f_y _ a) dy;
     f_z := o_add (sf_ops 24 128) (f_z _ a) dz;
     f_p := o_add (sf_ops 24 128) (f_p _ a) (o_mul (sf_ops 24 128) inv (p_v _ s)) |}.

Lemma sf32_step_bridge : forall (t : part b32) (a : rhs b32) (s : part b32),
  sstep32 (sf_part32 t) (sf_rhs32 a) (sf_part32 s) = sf_rhs32 (bstep32 t a s).
Proof.
  intros t a s. unfold sstep32, bstep32. rewrite sf32_pair_bridge.
  destruct (pair b32 b32_ops s t) as [[[dx dy] dz] inv].
  unfold sf_rhs32. cbn [f_x f_y f_z f_p sf_part32 p_v sf_ops b32_ops o_add o_mul].
  rewrite <- sf_mult_bridge32, <- !sf_plus_bridge32. reflexivity.
Qed.

Lemma sf32_fold_bridge : forall (t : part b32) (srcs : list (part b32)) (a : rhs b32),
  fold_left (sstep32 (sf_part32 t)) (map sf_part32 srcs) (sf_rhs32 a) = sf_rhs32 (fold_left (bstep32 t) srcs a).
Proof.
  intros t srcs; induction srcs as [|s l IH]; intros a; cbn [map fold_left]; [reflexivity|].
  rewrite sf32_step_bridge. apply IH.
Qed.

Theorem sf32_remote_bridge : forall (srcs : list (part b32)) (t : part b32),
  let rs := remote_one spec_float (sf_ops 24 128) (map sf_part32 srcs) (sf_part32 t) (rhs0 _ (sf_ops 24 128)) in
  let r := remote_one b32 b32_ops srcs t (rhs0 b32 b32_ops) in
  f_x _ rs = B2SF (f_x _ r) /\ f_y _ rs = B2SF (f_y _ r) /\ f_z _ rs = B2SF (f_z _ r) /\ f_p _ rs = B2SF (f_p _ r).
Proof.
  intros srcs t.
  change (remote_one spec_float (sf_ops 24 128) (map sf_part32 srcs) (sf_part32 t) (rhs0 _ (sf_ops 24 128)))
    with (let acc := fold_left (sstep32 (sf_part32 t)) (map sf_part32 srcs) (sf_rhs32 (rhs0 b32 b32_ops)) in
          {| f_x := SFadd 24 128 (S754_zero false) (f_x _ acc); f_y := SFadd 24 128 (S754_zero false) (f_y _ acc);
             f_z := SFadd 24 128 (S754_zero false) (f_z _ acc);
             f_p := SFadd 24 128 (S754_zero false) (f_p _ acc) |}).
  change (remote_one b32 b32_ops srcs t (rhs0 b32 b32_ops))
    with (let acc := fold_left (bstep32 t) srcs (rhs0 b32 b32_ops) in
          {| f_x := Bplus mode_NE (B754_zero false) (f_x _ acc); f_y := Bplus mode_NE (B754_zero false) (f_y _ acc);
             f_z := Bplus mode_NE (B754_zero false) (f_z _ acc);
             f_p := Bplus mode_NE (B754_zero false) (f_p _ acc) |}).
  rewrite sf32_fold_bridge. cbv zeta.
  set (acc := fold_left (bstep32 t) srcs (rhs0 b32 b32_ops)).
  cbn [f_x f_y f_z f_p sf_rhs32].
  rewrite !sf_plus_bridge32. repeat split; reflexivity.
Qed.

(* ---------------------------------------------------------------------------------------------------------------- *)
(* Part 5: MAIN B for the SpecFloat instance sf_ops 24 128 that is executed bit for bit against the C++ *)

Theorem sf32_remote_error : forall (srcs : list (part b32)) (t : part b32),
  Forall (fun s => b32_inputs_ok18 s t) srcs -> (Z.of_nat (length srcs) <= 2 ^ 11)%Z ->
  let tR := partR32_of t in let sR := map partR32_of srcs in let n := INR (length srcs) in
  let r := remote_one spec_float (sf_ops 24 128) (map sf_part32 srcs) (sf_part32 t) (rhs0 _ (sf_ops 24 128)) in
  (is_finite_SF (f_x _ r) = true /\ is_finite_SF (f_y _ r) = true /\ is_finite_SF (f_z _ r) = true /\
   is_finite_SF (f_p _ r) = true) /\
  Rabs (SF2R radix2 (f_p _ r) - Rsum (map (fun s => p_v _ s / rdist s tR) sR))
    <= ((n + 7) * bpow radix2 (-24)) * Rsum (map (fun s => Rabs (p_v _ s) / rdist s tR) sR) /\
  Rabs (SF2R radix2 (f_x _ r) - Rsum (map (fun s => f_x _ (contrib s tR)) sR))
    <= ((n + 17) * bpow radix2 (-24)) * Rsum (map (fun s => Rabs (f_x _ (contrib s tR))) sR) /\
  Rabs (SF2R radix2 (f_y _ r) - Rsum (map (fun s => f_y _ (contrib s tR)) sR))
    <= ((n + 17) * bpow radix2 (-24)) * Rsum (map (fun s => Rabs (f_y _ (contrib s tR))) sR) /\
  Rabs (SF2R radix2 (f_z _ r) - Rsum (map (fun s => f_z _ (contrib s tR)) sR))
    <= ((n + 17) * bpow radix2 (-24)) * Rsum (map (fun s => Rabs (f_z _ (contrib s tR))) sR).
Proof.
  intros srcs t HF Hlen tR sR n r.
  destruct (sf32_remote_bridge srcs t) as (Bx & By & Bz & Bp). fold r in Bx, By, Bz, Bp.
  rewrite Bx, By, Bz, Bp. rewrite !is_finite_SF_B2SF, !SF2R_B2SF.
  exact (b32_remote_error srcs t HF Hlen).
Qed.

(* ---------------------------------------------------------------------------------------------------------------- *)
(* Part 6: the hypotheses are satisfiable: unit charges at (1,0,0) and (0,2,0), target with unit charge at the origin *)

Definition b32_zero : b32 := B754_zero false.
Definition b32_two : b32 := @B754_finite 24 128 false 8388608 (-22) eq_refl.

Lemma B2R32_two : B2R b32_two = 2.
Proof.
  unfold b32_two, B2R, F2R; cbn [Fnum Fexp cond_Zopp].
  change (IZR (Z.pos 8388608)) with (bpow radix2 23).
  rewrite <- bpow_plus. reflexivity.
Qed.

Lemma B2R32_zero : B2R b32_zero = 0.
Proof. reflexivity. Qed.

Lemma zr18_one : zr (-18) 18 1.
Proof.
  right. rewrite Rabs_R1. change 1 with (bpow radix2 0). split; apply bpow_le; lia.
Qed.

Lemma zr18_two : zr (-18) 18 2.
Proof.
  right. rewrite (Rabs_pos_eq 2) by lra. change 2 with (bpow radix2 1). split; apply bpow_le; lia.
Qed.

Lemma zr18_zero : zr (-18) 18 0.
Proof. left; reflexivity. Qed.

Definition ex32_s1 : part b32 := {| p_x := b32_one; p_y := b32_zero; p_z := b32_zero; p_v := b32_one |}.
Definition ex32_s2 : part b32 := {| p_x := b32_zero; p_y := b32_two; p_z := b32_zero; p_v := b32_one |}.
Definition ex32_t0 : part b32 := {| p_x := b32_zero; p_y := b32_zero; p_z := b32_zero; p_v := b32_one |}.

Lemma ex32_ok1 : b32_inputs_ok18 ex32_s1 ex32_t0.
Proof.
  unfold b32_inputs_ok18, apart, d2, partR32_of, ex32_s1, ex32_t0. cbn [p_x p_y p_z p_v].
  rewrite b32_one_R, B2R32_zero. replace (1 - 0) with 1 by ring. replace (0 - 0) with 0 by ring.
  split; [repeat split|]. split; [repeat split|].
  split; [split; [exact zr18_one | split; exact zr18_zero]|].
  split; [lra|]. split; exact zr18_one.
Qed.

Lemma ex32_ok2 : b32_inputs_ok18 ex32_s2 ex32_t0.
Proof.
  unfold b32_inputs_ok18, apart, d2, partR32_of, ex32_s2, ex32_t0. cbn [p_x p_y p_z p_v].
  rewrite b32_one_R, B2R32_two, B2R32_zero. replace (2 - 0) with 2 by ring. replace (0 - 0) with 0 by ring.
  split; [repeat split|]. split; [repeat split|].
  split; [split; [exact zr18_zero | split; [exact zr18_two | exact zr18_zero]]|].
  split; [lra|]. split; exact zr18_one.
Qed.

Lemma ex32_inputs : Forall (fun s => b32_inputs_ok18 s ex32_t0) [ex32_s1; ex32_s2].
Proof. constructor; [exact ex32_ok1 | constructor; [exact ex32_ok2 | constructor]]. Qed.

Lemma ex32_len : (Z.of_nat (length [ex32_s1; ex32_s2]) <= 2 ^ 11)%Z.
Proof. cbn [length]. lia. Qed.

(* the theorems at this instance (n = 2: potential within 9 * 2^-24, forces within 19 * 2^-24, relative to the sums of
   absolute values) *)
Definition ex32_b32_bound := b32_remote_error [ex32_s1; ex32_s2] ex32_t0 ex32_inputs ex32_len.
Definition ex32_sf_bound := sf32_remote_error [ex32_s1; ex32_s2] ex32_t0 ex32_inputs ex32_len.

(* the value the executable SpecFloat model computes on it: force (1, 1/4, 0), potential 1/1 + 1/2 = 3/2 *)
Example ex32_value :
  remote_one spec_float (sf_ops 24 128) (map sf_part32 [ex32_s1; ex32_s2]) (sf_part32 ex32_t0)
    (rhs0 _ (sf_ops 24 128)) =
  {| f_x := S754_finite false 8388608 (-23); f_y := S754_finite false 8388608 (-25);
     f_z := S754_zero false; f_p := S754_finite false 12582912 (-23) |}.
Proof. vm_compute. reflexivity. Qed.

Print Assumptions tr32_add_any.
Print Assumptions b32_pair_g32_mag.
Print Assumptions b32_remote_g32.
Print Assumptions b32_remote_error.
Print Assumptions sf32_remote_bridge.
Print Assumptions sf32_remote_error.
