(* Truncation error of the uniform-interpolation approximation of the one-dimensional Cauchy kernel 1 / (d - x)
   (the archetype of the far-field / M2L approximation error of the uniform kernel), on exact rationals (Qeq),
   over the model of Num/UnifDefs.v.

     unif_W order t          the node polynomial  prod_m (t - root_m)
     cauchy_interp order x d the interpolated kernel  sum_n L_n(x) / (d - root_n)

   1. unif_L_other_node, 2. lagrange_nodes_any_order : interpolation property at the nodes, EVERY order >= 2.
   3. cauchy_identity, 4. cauchy_error               : exact error formula, EVERY order >= 2.
   5. unif_W_far                                     : W(d) >= W(3) > 0 for d >= 3, EVERY order >= 2.
   6. unif_W_cap                                     : |W(x)| <= cap(order) W(3) on [-1,1], orders 2..8
                                                       (orders 2, 4 : exact, by nra; orders 3, 5, 6, 7, 8 : by a
                                                       verified adaptive-bisection checker run with vm_compute).
   7. cauchy_truncation_bound                        : relative error <= cap(order), orders 2..8.
   8. cauchy_bound_sharp_example                     : the bound is attained within a factor two (order 5).
   No axiom is used (no real numbers, no Interval).                                                              *)
From Coq Require Import QArith Qabs Qminmax List ZArith Lia Bool Lqa Psatz.
From Tbfmm Require Import Num.UnifDefs Num.UnifProofs.
Import ListNotations.
Local Open Scope Q_scope.

Local Notation qn k := (inject_Z (Z.of_nat k)).

(* ------------------------------------------------------------------------------------------------------------ *)
(* definitions                                                                                                    *)

(* node polynomial *)
Definition unif_W (order : nat) (t : Q) : Q :=
  fold_left (fun acc m => acc * (t - unif_root order m)) (seq 0 order) 1.

Definition cauchy_interp (order : nat) (x d : Q) : Q :=
  qsum (map (fun n => unif_L order n x / (d - unif_root order n)) (seq 0 order)).

Definition unif_cap (order : nat) : Q :=
  match order with
  | 2%nat => 1#8 | 3%nat => 1#62 | 4%nat => 1#360 | 5%nat => 1#1850
  | 6%nat => 1#8900 | 7%nat => 1#41000 | 8%nat => 1#188000 | _ => 1
  end.

(* ------------------------------------------------------------------------------------------------------------ *)
(* plain products over a list of indices                                                                          *)

Definition qprod (l : list nat) (g : nat -> Q) : Q := fold_left (fun acc m => acc * g m) l 1.

Lemma qprod_acc (l : list nat) (g : nat -> Q) (a : Q) :
  fold_left (fun acc m => acc * g m) l a == a * qprod l g.
Proof.
  unfold qprod. revert a. induction l as [|m l IH]; intro a; cbn [fold_left].
  - ring.
  - rewrite (IH (a * g m)), (IH (1 * g m)). ring.
Qed.

Lemma qprod_nil (g : nat -> Q) : qprod [] g == 1.
Proof. reflexivity. Qed.

Lemma qprod_cons (m : nat) (l : list nat) (g : nat -> Q) : qprod (m :: l) g == g m * qprod l g.
Proof. unfold qprod at 1. cbn [fold_left]. rewrite qprod_acc. ring. Qed.

Lemma qprod_ext_in (l : list nat) (g g' : nat -> Q) :
  (forall m, In m l -> g m == g' m) -> qprod l g == qprod l g'.
Proof.
  induction l as [|m l IH]; intro Hg.
  - reflexivity.
  - rewrite !qprod_cons, IH, (Hg m (or_introl eq_refl)).
    + reflexivity.
    + intros k Hk. apply Hg. right. exact Hk.
Qed.

Lemma qprod_zero (l : list nat) (g : nat -> Q) (m : nat) : In m l -> g m == 0 -> qprod l g == 0.
Proof.
  induction l as [|k l IH]; intros Hin Hz.
  - destruct Hin.
  - rewrite qprod_cons. destruct Hin as [He|Hin].
    + subst k. rewrite Hz. ring.
    + rewrite (IH Hin Hz). ring.
Qed.

Lemma qprod_nz (l : list nat) (g : nat -> Q) : (forall m, In m l -> ~ g m == 0) -> ~ qprod l g == 0.
Proof.
  induction l as [|k l IH]; intro Hg.
  - rewrite qprod_nil. intro H. discriminate H.
  - rewrite qprod_cons. intro H. apply Qmult_integral in H. destruct H as [H|H].
    + exact (Hg k (or_introl eq_refl) H).
    + apply IH; [|exact H]. intros m Hm. apply Hg. right. exact Hm.
Qed.

(* monotone product of non-negative factors *)
Lemma qprod_mono_nonneg (l : list nat) (f g : nat -> Q) :
  (forall m, In m l -> 0 <= f m /\ f m <= g m) -> 0 <= qprod l f /\ qprod l f <= qprod l g.
Proof.
  induction l as [|k l IH]; intro Hfg.
  - rewrite !qprod_nil. split; [discriminate|apply Qle_refl].
  - rewrite !qprod_cons.
    destruct (Hfg k (or_introl eq_refl)) as [Hf0 Hfk].
    destruct IH as [Hp0 Hpl]; [intros m Hm; apply Hfg; right; exact Hm|].
    split.
    + apply Qmult_le_0_compat; assumption.
    + apply Qle_trans with (g k * qprod l f).
      * apply Qmult_le_compat_r; assumption.
      * rewrite !(Qmult_comm (g k)). apply Qmult_le_compat_r; [exact Hpl|].
        apply Qle_trans with (f k); assumption.
Qed.

Lemma qprod_pos (l : list nat) (f : nat -> Q) : (forall m, In m l -> 0 < f m) -> 0 < qprod l f.
Proof.
  induction l as [|k l IH]; intro Hf.
  - rewrite qprod_nil. reflexivity.
  - rewrite qprod_cons. apply Qmult_lt_0_compat.
    + apply Hf. left. reflexivity.
    + apply IH. intros m Hm. apply Hf. right. exact Hm.
Qed.

Lemma qprod_abs (l : list nat) (g : nat -> Q) : Qabs (qprod l g) == qprod l (fun m => Qabs (g m)).
Proof.
  induction l as [|k l IH].
  - reflexivity.
  - rewrite !qprod_cons, Qabs_Qmult, IH. reflexivity.
Qed.

(* ------------------------------------------------------------------------------------------------------------ *)
(* skip-products (sp of UnifProofs) versus plain products                                                         *)

Lemma sp_nil (n : nat) (g : nat -> Q) : sp [] n g == 1.
Proof. reflexivity. Qed.

Lemma sp_mult (l : list nat) (n : nat) (f g : nat -> Q) :
  sp l n (fun m => f m * g m) == sp l n f * sp l n g.
Proof.
  induction l as [|k l IH].
  - rewrite !sp_nil. ring.
  - rewrite !sp_cons, IH. destruct (Nat.eqb k n); ring.
Qed.

Lemma sp_zero (l : list nat) (n m : nat) (g : nat -> Q) : In m l -> m <> n -> g m == 0 -> sp l n g == 0.
Proof.
  induction l as [|k l IH]; intros Hin Hne Hz.
  - destruct Hin.
  - rewrite sp_cons. destruct Hin as [He|Hin].
    + subst k. replace (Nat.eqb m n) with false by (symmetry; apply Nat.eqb_neq; exact Hne).
      rewrite Hz. ring.
    + rewrite (IH Hin Hne Hz). ring.
Qed.

Lemma sp_notin (l : list nat) (n : nat) (g : nat -> Q) : ~ In n l -> sp l n g == qprod l g.
Proof.
  induction l as [|k l IH]; intro Hni.
  - reflexivity.
  - rewrite sp_cons, qprod_cons, IH.
    + replace (Nat.eqb k n) with false; [reflexivity|].
      symmetry. apply Nat.eqb_neq. intro He. apply Hni. left. exact He.
    + intro Hin. apply Hni. right. exact Hin.
Qed.

Lemma sp_in (l : list nat) (n : nat) (g : nat -> Q) : NoDup l -> In n l -> sp l n g * g n == qprod l g.
Proof.
  induction l as [|k l IH]; intros Hnd Hin.
  - destruct Hin.
  - rewrite sp_cons, qprod_cons. inversion Hnd as [|k' l' Hk Hnd']; subst.
    destruct Hin as [He|Hin].
    + subst k. rewrite Nat.eqb_refl, (sp_notin l n g Hk). ring.
    + replace (Nat.eqb k n) with false.
      * rewrite <- (IH Hnd' Hin). ring.
      * symmetry. apply Nat.eqb_neq. intro He. subst k. exact (Hk Hin).
Qed.

(* ------------------------------------------------------------------------------------------------------------ *)
(* the roots                                                                                                      *)

Definition qN (order : nat) : Q := inject_Z (Z.of_nat order - 1).

Lemma qN_pos (order : nat) : (2 <= order)%nat -> 0 < qN order.
Proof. intro Ho. unfold qN. change 0 with (inject_Z 0). rewrite <- Zlt_Qlt. lia. Qed.

Lemma qN_nz (order : nat) : (2 <= order)%nat -> ~ qN order == 0.
Proof. intros Ho H. pose proof (qN_pos order Ho) as Hp. rewrite H in Hp. discriminate Hp. Qed.

Lemma qn_le_qN (order m : nat) : (m < order)%nat -> qn m <= qN order.
Proof. intro Hm. unfold qN. rewrite <- Zle_Qle. lia. Qed.

Lemma qn_nonneg (m : nat) : 0 <= qn m.
Proof. change 0 with (inject_Z 0). rewrite <- Zle_Qle. lia. Qed.

Lemma unif_root_eq (order m : nat) : unif_root order m == -1 + 2 * qn m / qN order.
Proof. reflexivity. Qed.

Lemma root_le_1 (order m : nat) : (2 <= order)%nat -> (m < order)%nat -> unif_root order m <= 1.
Proof.
  intros Ho Hm. rewrite unif_root_eq.
  assert (Hd : 2 * qn m / qN order <= 2).
  { apply Qle_shift_div_r; [apply qN_pos; exact Ho|].
    pose proof (qn_le_qN order m Hm) as Hle. lra. }
  lra.
Qed.

Lemma root_ge_m1 (order m : nat) : (2 <= order)%nat -> -1 <= unif_root order m.
Proof.
  intros Ho. rewrite unif_root_eq.
  assert (Hd : 0 <= 2 * qn m / qN order).
  { apply Qle_shift_div_l; [apply qN_pos; exact Ho|].
    pose proof (qn_nonneg m) as Hle. lra. }
  lra.
Qed.

(* every factor of the C++ product form is N (t - root_m) *)
Lemma factor_eq (order m : nat) (t : Q) : (2 <= order)%nat ->
  inject_Z (Z.of_nat order - 1) * (t + 1) - 2 * qn m == qN order * (t - unif_root order m).
Proof.
  intro Ho. rewrite unif_root_eq. unfold qN. field. apply (qN_nz order Ho).
Qed.

Lemma unif_W_qprod (order : nat) (t : Q) : unif_W order t = qprod (seq 0 order) (fun m => t - unif_root order m).
Proof. reflexivity. Qed.

Lemma unif_L_sp (order n : nat) (t : Q) : (2 <= order)%nat ->
  unif_L order n t == sp (seq 0 order) n (fun m => qN order * (t - unif_root order m)) * unif_scale order n.
Proof.
  intro Ho. unfold unif_L.
  apply Qmult_comp; [|reflexivity].
  apply (sp_ext (seq 0 order) n (fun m => inject_Z (Z.of_nat order - 1) * (t + 1) - 2 * qn m)).
  intro m. apply factor_eq. exact Ho.
Qed.

Lemma unif_L_compat (order n : nat) (x y : Q) : x == y -> unif_L order n x == unif_L order n y.
Proof.
  intro Hxy. unfold unif_L. apply Qmult_comp; [|reflexivity].
  apply (sp_ext (seq 0 order) n (fun m => inject_Z (Z.of_nat order - 1) * (x + 1) - 2 * qn m)
                                (fun m => inject_Z (Z.of_nat order - 1) * (y + 1) - 2 * qn m)).
  intro m. rewrite Hxy. reflexivity.
Qed.

Lemma unif_W_compat (order : nat) (x y : Q) : x == y -> unif_W order x == unif_W order y.
Proof.
  intro Hxy. rewrite !unif_W_qprod. apply qprod_ext_in. intros m _. rewrite Hxy. reflexivity.
Qed.

(* ------------------------------------------------------------------------------------------------------------ *)
(* 1, 2. interpolation property at the nodes, every order                                                         *)

Theorem unif_L_other_node : forall order n m, (2 <= order)%nat -> (n < order)%nat -> (m < order)%nat -> n <> m ->
  unif_L order n (unif_root order m) == 0.
Proof.
  intros order n m Ho Hn Hm Hne.
  rewrite (unif_L_sp order n _ Ho).
  rewrite (sp_zero (seq 0 order) n m).
  - ring.
  - apply in_seq. lia.
  - intro He. apply Hne. symmetry. exact He.
  - ring.
Qed.

Lemma qsum_single (f : nat -> Q) (order m : nat) :
  (m < order)%nat -> (forall n, (n < order)%nat -> n <> m -> f n == 0) -> qsum (map f (seq 0 order)) == f m.
Proof.
  intros Hm Hz.
  assert (Hs : seq 0 order = seq 0 m ++ m :: seq (S m) (order - m - 1)).
  { replace order with (m + S (order - m - 1))%nat at 1 by lia.
    rewrite seq_app. reflexivity. }
  rewrite Hs, map_app, qsum_app. cbn [map]. rewrite qsum_cons.
  rewrite (qsum_map_ext_in f (fun _ => 0) (seq 0 m)).
  - rewrite (qsum_map_ext_in f (fun _ => 0) (seq (S m) (order - m - 1))).
    + rewrite !qsum_map_zero. ring.
    + intros n Hn. apply in_seq in Hn. apply Hz; lia.
  - intros n Hn. apply in_seq in Hn. apply Hz; lia.
Qed.

Theorem lagrange_nodes_any_order : forall order n m, (2 <= order)%nat -> (n < order)%nat -> (m < order)%nat ->
  unif_L order n (unif_root order m) == (if Nat.eqb n m then 1 else 0).
Proof.
  intros order n m Ho Hn Hm.
  destruct (Nat.eqb_spec n m) as [He|Hne].
  - subst n.
    rewrite <- (partition_of_unity_any_order order (unif_root order m)) by lia.
    symmetry. apply (qsum_single (fun n => unif_L order n (unif_root order m)) order m Hm).
    intros n Hn' Hne. apply unif_L_other_node; assumption.
  - apply unif_L_other_node; assumption.
Qed.

(* ------------------------------------------------------------------------------------------------------------ *)
(* 3, 4. the exact error of the interpolated Cauchy kernel, every order                                           *)

(* L_n(t) (t - root_n) = W(t) a_n with a_n independent of t *)
Definition a_coef (order n : nat) : Q := sp (seq 0 order) n (fun _ => qN order) * unif_scale order n.

Lemma L_times_factor (order n : nat) (t : Q) : (2 <= order)%nat -> (n < order)%nat ->
  unif_L order n t * (t - unif_root order n) == unif_W order t * a_coef order n.
Proof.
  intros Ho Hn. rewrite (unif_L_sp order n t Ho), unif_W_qprod. unfold a_coef.
  rewrite (sp_mult (seq 0 order) n (fun _ => qN order) (fun m => t - unif_root order m)).
  rewrite <- (sp_in (seq 0 order) n (fun m => t - unif_root order m)).
  - ring.
  - apply seq_NoDup.
  - apply in_seq. lia.
Qed.

Lemma Qsub_nz (a b : Q) : ~ a == b -> ~ a - b == 0.
Proof. intros Hab H. apply Hab. lra. Qed.

Lemma unif_W_nz (order : nat) (t : Q) :
  (forall m, (m < order)%nat -> ~ t == unif_root order m) -> ~ unif_W order t == 0.
Proof.
  intro Ht. rewrite unif_W_qprod. apply qprod_nz.
  intros m Hm. apply in_seq in Hm. apply Qsub_nz. apply Ht. lia.
Qed.

Lemma unif_W_node (order k : nat) : (k < order)%nat -> unif_W order (unif_root order k) == 0.
Proof.
  intro Hk. rewrite unif_W_qprod. apply (qprod_zero _ _ k).
  - apply in_seq. lia.
  - ring.
Qed.

(* partial fractions of 1 / W *)
Lemma pou_W (order : nat) (t : Q) : (2 <= order)%nat ->
  (forall m, (m < order)%nat -> ~ t == unif_root order m) ->
  qsum (map (fun n => a_coef order n / (t - unif_root order n)) (seq 0 order)) == 1 / unif_W order t.
Proof.
  intros Ho Ht.
  pose proof (unif_W_nz order t Ht) as HW.
  assert (Ho1 : (1 <= order)%nat) by lia.
  pose proof (partition_of_unity_any_order order t Ho1) as Hpou.
  rewrite (qsum_map_ext_in _ (fun n => unif_W order t * (a_coef order n / (t - unif_root order n)))) in Hpou.
  - rewrite qsum_map_scale in Hpou.
    apply (Qmult_inj_l _ _ (unif_W order t) HW). rewrite Hpou. field. exact HW.
  - intros n Hn. apply in_seq in Hn.
    assert (Hnz : ~ t - unif_root order n == 0) by (apply Qsub_nz, Ht; lia).
    apply (Qmult_inj_r _ _ (t - unif_root order n) Hnz).
    rewrite (L_times_factor order n t Ho) by lia. field. exact Hnz.
Qed.

Lemma node_or_not (order : nat) (x : Q) (k : nat) :
  (exists j, (j < k)%nat /\ x == unif_root order j) \/ (forall j, (j < k)%nat -> ~ x == unif_root order j).
Proof.
  induction k as [|k IH].
  - right. intros j Hj. lia.
  - destruct IH as [[j [Hj He]]|Hno].
    + left. exists j. split; [lia|exact He].
    + destruct (Qeq_dec x (unif_root order k)) as [He|Hne].
      * left. exists k. split; [lia|exact He].
      * right. intros j Hj. destruct (Nat.eq_dec j k) as [Hjk|Hjk].
        -- subst j. exact Hne.
        -- apply Hno. lia.
Qed.

Lemma cauchy_identity_off_nodes (order : nat) (x d : Q) : (2 <= order)%nat ->
  (forall m, (m < order)%nat -> ~ d == unif_root order m) -> ~ d == x ->
  (forall m, (m < order)%nat -> ~ x == unif_root order m) ->
  cauchy_interp order x d == (1 - unif_W order x / unif_W order d) / (d - x).
Proof.
  intros Ho Hd Hdx Hx. unfold cauchy_interp.
  pose proof (unif_W_nz order x Hx) as HWx.
  pose proof (unif_W_nz order d Hd) as HWd.
  pose proof (Qsub_nz d x Hdx) as Hdx0.
  rewrite (qsum_map_ext_in _
     (fun n => unif_W order x / (d - x) * (a_coef order n / (x - unif_root order n))
             + - (unif_W order x / (d - x)) * (a_coef order n / (d - unif_root order n)))).
  - rewrite qsum_map_plus, !qsum_map_scale, (pou_W order x Ho Hx), (pou_W order d Ho Hd).
    field. repeat split; assumption.
  - intros n Hn. apply in_seq in Hn.
    assert (Hxn : ~ x - unif_root order n == 0) by (apply Qsub_nz, Hx; lia).
    assert (Hdn : ~ d - unif_root order n == 0) by (apply Qsub_nz, Hd; lia).
    assert (HL : unif_L order n x == unif_W order x * a_coef order n / (x - unif_root order n)).
    { apply (Qmult_inj_r _ _ (x - unif_root order n) Hxn).
      rewrite (L_times_factor order n x Ho) by lia. field. exact Hxn. }
    rewrite HL. field. repeat split; assumption.
Qed.

Lemma cauchy_identity_on_node (order : nat) (x d : Q) (k : nat) : (2 <= order)%nat ->
  (forall m, (m < order)%nat -> ~ d == unif_root order m) -> ~ d == x ->
  (k < order)%nat -> x == unif_root order k ->
  cauchy_interp order x d == (1 - unif_W order x / unif_W order d) / (d - x).
Proof.
  intros Ho Hd Hdx Hk Hx. unfold cauchy_interp.
  pose proof (unif_W_nz order d Hd) as HWd.
  pose proof (Qsub_nz d x Hdx) as Hdx0.
  rewrite (unif_W_compat order x _ Hx), (unif_W_node order k Hk).
  rewrite (qsum_single (fun n => unif_L order n x / (d - unif_root order n)) order k Hk).
  - rewrite (unif_L_compat order k x _ Hx), (lagrange_nodes_any_order order k k Ho Hk Hk), Nat.eqb_refl.
    rewrite <- Hx. field. split; assumption.
  - intros n Hn Hne.
    rewrite (unif_L_compat order n x _ Hx), (unif_L_other_node order n k Ho Hn Hk Hne).
    field. apply Qsub_nz, Hd. exact Hn.
Qed.

Theorem cauchy_identity : forall order x d, (2 <= order)%nat ->
  (forall m, (m < order)%nat -> ~ d == unif_root order m) -> ~ d == x ->
  cauchy_interp order x d == (1 - unif_W order x / unif_W order d) / (d - x).
Proof.
  intros order x d Ho Hd Hdx.
  destruct (node_or_not order x order) as [[k [Hk Hx]]|Hx].
  - exact (cauchy_identity_on_node order x d k Ho Hd Hdx Hk Hx).
  - exact (cauchy_identity_off_nodes order x d Ho Hd Hdx Hx).
Qed.

Theorem cauchy_error : forall order x d, (2 <= order)%nat ->
  (forall m, (m < order)%nat -> ~ d == unif_root order m) -> ~ d == x ->
  cauchy_interp order x d - 1 / (d - x) == - (unif_W order x / unif_W order d) / (d - x).
Proof.
  intros order x d Ho Hd Hdx.
  rewrite (cauchy_identity order x d Ho Hd Hdx).
  field. repeat split; first [apply Qsub_nz; exact Hdx|apply unif_W_nz; exact Hd].
Qed.

(* ------------------------------------------------------------------------------------------------------------ *)
(* 5. the node polynomial in the far field                                                                        *)

Theorem unif_W_far : forall order d, (2 <= order)%nat -> 3 <= d ->
  unif_W order 3 <= unif_W order d /\ 0 < unif_W order 3.
Proof.
  intros order d Ho Hd. rewrite !unif_W_qprod. split.
  - apply qprod_mono_nonneg. intros m Hm. apply in_seq in Hm.
    pose proof (root_le_1 order m Ho) as Hr. assert (Hr' : unif_root order m <= 1) by (apply Hr; lia).
    split; lra.
  - apply qprod_pos. intros m Hm. apply in_seq in Hm.
    pose proof (root_le_1 order m Ho) as Hr. assert (Hr' : unif_root order m <= 1) by (apply Hr; lia).
    lra.
Qed.

(* ------------------------------------------------------------------------------------------------------------ *)
(* 6. |W(x)| <= cap W(3) on [-1, 1]: a verified adaptive-bisection checker.
   On [a, b] every factor satisfies |x - r| <= max(|a - r|, |b - r|), so |W(x)| <= prod_m max(|a - r_m|, |b - r_m|);
   when that product exceeds the target the interval is halved.                                                   *)

Section Bisect.
  Variables (l : list nat) (rt : nat -> Q) (c : Q).

  Definition fbound (a b : Q) : Q := qprod l (fun m => Qmax (Qabs (a - rt m)) (Qabs (b - rt m))).

  Fixpoint bcheck (fuel : nat) (a b : Q) : bool :=
    if Qle_bool (fbound a b) c then true
    else match fuel with
         | O => false
         | S f => let m := Qred ((a + b) / 2) in bcheck f a m && bcheck f m b
         end.

  Lemma abs_factor (a b x r : Q) : a <= x <= b -> Qabs (x - r) <= Qmax (Qabs (a - r)) (Qabs (b - r)).
  Proof.
    intros [Hax Hxb]. apply Qabs_Qle_condition.
    pose proof (Qle_Qabs (b - r)) as H1.
    pose proof (Qle_Qabs (- (a - r))) as H2. rewrite Qabs_opp in H2.
    pose proof (Q.le_max_l (Qabs (a - r)) (Qabs (b - r))) as H3.
    pose proof (Q.le_max_r (Qabs (a - r)) (Qabs (b - r))) as H4.
    split; lra.
  Qed.

  Lemma fbound_ok (a b x : Q) : a <= x <= b -> Qabs (qprod l (fun m => x - rt m)) <= fbound a b.
  Proof.
    intro Hx. rewrite qprod_abs. unfold fbound.
    apply qprod_mono_nonneg. intros m _. split; [apply Qabs_nonneg|apply abs_factor; exact Hx].
  Qed.

  Lemma bcheck_ok (fuel : nat) : forall a b, bcheck fuel a b = true ->
    forall x, a <= x <= b -> Qabs (qprod l (fun m => x - rt m)) <= c.
  Proof.
    induction fuel as [|f IH]; intros a b Hc x Hx; cbn [bcheck] in Hc;
      destruct (Qle_bool (fbound a b) c) eqn:Hb.
    - apply Qle_bool_iff in Hb. apply Qle_trans with (fbound a b); [apply fbound_ok; exact Hx|exact Hb].
    - discriminate Hc.
    - apply Qle_bool_iff in Hb. apply Qle_trans with (fbound a b); [apply fbound_ok; exact Hx|exact Hb].
    - apply andb_true_iff in Hc. destruct Hc as [Hc1 Hc2].
      destruct (Qlt_le_dec (Qred ((a + b) / 2)) x) as [Hlt|Hle].
      + apply (IH _ _ Hc2). split; [apply Qlt_le_weak; exact Hlt|apply Hx].
      + apply (IH _ _ Hc1). split; [apply Hx|exact Hle].
  Qed.
End Bisect.

Definition cap_fuel : nat := 40.
(* a notation, not a definition: the kernel must never unfold bcheck on a symbolic order (exponential conversion) *)
Local Notation cap_check order :=
  (bcheck (seq 0 order) (unif_root order) (unif_cap order * unif_W order 3) cap_fuel (-1) 1).

Lemma cap_from_check (order : nat) (x : Q) : cap_check order = true -> -1 <= x <= 1 ->
  Qabs (unif_W order x) <= unif_cap order * unif_W order 3.
Proof.
  intros Hc Hx. rewrite unif_W_qprod.
  exact (bcheck_ok (seq 0 order) (unif_root order) _ cap_fuel (-1) 1 Hc x Hx).
Qed.

Lemma cap_check_3 : cap_check 3%nat = true. Proof. Time vm_compute. reflexivity. Qed.
Lemma cap_check_5 : cap_check 5%nat = true. Proof. Time vm_compute. reflexivity. Qed.
Lemma cap_check_6 : cap_check 6%nat = true. Proof. Time vm_compute. reflexivity. Qed.
Lemma cap_check_7 : cap_check 7%nat = true. Proof. Time vm_compute. reflexivity. Qed.
Lemma cap_check_8 : cap_check 8%nat = true. Proof. Time vm_compute. reflexivity. Qed.

(* orders 2 and 4: the cap is attained (at 0, resp. at x^2 = 5/9), so the bisection cannot conclude; direct proofs *)
Lemma cap_2 (x : Q) : -1 <= x <= 1 -> Qabs (unif_W 2 x) <= unif_cap 2 * unif_W 2 3.
Proof.
  intros [Hl Hu].
  assert (Hc : unif_cap 2 * unif_W 2 3 == 1) by (vm_compute; reflexivity).
  assert (HW : unif_W 2 x == (x + 1) * (x - 1)) by (unf; field).
  rewrite Hc, HW. apply Qabs_Qle_condition. split; nra.
Qed.

Lemma cap_4 (x : Q) : -1 <= x <= 1 -> Qabs (unif_W 4 x) <= unif_cap 4 * unif_W 4 3.
Proof.
  intros [Hl Hu].
  assert (Hc : unif_cap 4 * unif_W 4 3 == 16#81) by (vm_compute; reflexivity).
  assert (HW : unif_W 4 x == (x * x - 1) * (x * x - (1#9))) by (unf; field).
  rewrite Hc, HW.
  assert (Hu0 : 0 <= x * x) by nra.
  assert (Hu1 : x * x <= 1) by nra.
  revert Hu0 Hu1. generalize (x * x). intros u Hu0 Hu1.
  apply Qabs_Qle_condition. split.
  - assert (Hsq : 0 <= (u - (5#9)) * (u - (5#9))).
    { destruct (Qlt_le_dec (u - (5#9)) 0) as [Hn|Hp].
      - setoid_replace ((u - (5#9)) * (u - (5#9))) with ((- (u - (5#9))) * (- (u - (5#9)))) by ring.
        apply Qmult_le_0_compat; lra.
      - apply Qmult_le_0_compat; assumption. }
    lra.
  - assert (Hp : 0 <= u * (1 - u)) by (apply Qmult_le_0_compat; lra). lra.
Qed.

Theorem unif_W_cap : forall order x, (2 <= order <= 8)%nat -> -1 <= x <= 1 ->
  Qabs (unif_W order x) <= unif_cap order * unif_W order 3.
Proof.
  intros order x Ho Hx. split_order Ho.
  - apply cap_2; exact Hx.
  - apply cap_from_check; [exact cap_check_3|exact Hx].
  - apply cap_4; exact Hx.
  - apply cap_from_check; [exact cap_check_5|exact Hx].
  - apply cap_from_check; [exact cap_check_6|exact Hx].
  - apply cap_from_check; [exact cap_check_7|exact Hx].
  - apply cap_from_check; [exact cap_check_8|exact Hx].
Qed.

(* ------------------------------------------------------------------------------------------------------------ *)
(* 7. the truncation bound                                                                                        *)

Lemma unif_cap_pos (order : nat) : 0 < unif_cap order.
Proof.
  do 9 (destruct order as [|order]; [reflexivity|]). reflexivity.
Qed.

Theorem cauchy_truncation_bound : forall order x d, (2 <= order <= 8)%nat -> -1 <= x <= 1 -> 3 <= d ->
  Qabs (cauchy_interp order x d - 1 / (d - x)) <= unif_cap order * (1 / (d - x)).
Proof.
  intros order x d Ho Hx Hd.
  assert (Ho2 : (2 <= order)%nat) by lia.
  assert (Hnode : forall m, (m < order)%nat -> ~ d == unif_root order m).
  { intros m Hm He. pose proof (root_le_1 order m Ho2 Hm) as Hr. rewrite <- He in Hr. lra. }
  assert (Hdx : ~ d == x) by (intro He; rewrite He in Hd; lra).
  rewrite (cauchy_error order x d Ho2 Hnode Hdx).
  destruct (unif_W_far order d Ho2 Hd) as [H3d H3].
  pose proof (unif_W_cap order x Ho Hx) as Hcap.
  pose proof (unif_cap_pos order) as Hcp.
  set (Wx := unif_W order x) in *. set (Wd := unif_W order d) in *. set (W3 := unif_W order 3) in *.
  set (cp := unif_cap order) in *.
  assert (HWd : 0 < Wd) by lra.
  assert (Hgap : 0 < d - x) by lra.
  assert (Hs : 0 < / (Wd * (d - x))).
  { apply Qinv_lt_0_compat. apply Qmult_lt_0_compat; assumption. }
  assert (Hb : Qabs Wx <= cp * Wd).
  { apply Qle_trans with (cp * W3); [exact Hcap|].
    rewrite !(Qmult_comm cp). apply Qmult_le_compat_r; [exact H3d|apply Qlt_le_weak; exact Hcp]. }
  apply Qabs_Qle_condition in Hb. destruct Hb as [Hb1 Hb2].
  assert (HWdnz : ~ Wd == 0) by (intro He; rewrite He in HWd; discriminate HWd).
  assert (Hgnz : ~ d - x == 0) by (intro He; rewrite He in Hgap; discriminate Hgap).
  assert (E1 : - (Wx / Wd) / (d - x) == (- Wx) * / (Wd * (d - x))) by (field; split; assumption).
  assert (E2 : cp * (1 / (d - x)) == (cp * Wd) * / (Wd * (d - x))) by (field; split; assumption).
  rewrite E1, E2.
  apply Qabs_Qle_condition. split.
  - setoid_replace (- (cp * Wd * / (Wd * (d - x)))) with ((- (cp * Wd)) * / (Wd * (d - x))) by ring.
    apply Qmult_le_compat_r; [lra|apply Qlt_le_weak; exact Hs].
  - apply Qmult_le_compat_r; [lra|apply Qlt_le_weak; exact Hs].
Qed.

(* ------------------------------------------------------------------------------------------------------------ *)
(* 8. the bound is not vacuous: order 5, source at x = 33/40 (|W| is maximal near 0.8222), target at d = 3:
   the actual relative error is more than 99 % of the cap 1/1850                                                  *)

Example cauchy_bound_sharp_example :
  Qred (Qabs (cauchy_interp 5 (33#40) 3 - 1 / (3 - (33#40)))) = 553267 # 2227200000
  /\ (99#100) * (unif_cap 5 * (1 / (3 - (33#40)))) <= Qabs (cauchy_interp 5 (33#40) 3 - 1 / (3 - (33#40)))
  /\ Qabs (cauchy_interp 5 (33#40) 3 - 1 / (3 - (33#40))) <= unif_cap 5 * (1 / (3 - (33#40))).
Proof. vm_compute. split; [reflexivity|split; discriminate]. Qed.

(* same at the suggested point x = 17/20 (98 % of the cap) and for order 8 at x = 91/100 (99 % of the cap) *)
Example cauchy_bound_sharp_example_17_20 :
  (49#50) * (unif_cap 5 * (1 / (3 - (17#20)))) <= Qabs (cauchy_interp 5 (17#20) 3 - 1 / (3 - (17#20))).
Proof. vm_compute. discriminate. Qed.

Example cauchy_bound_sharp_example_8 :
  (99#100) * (unif_cap 8 * (1 / (3 - (91#100)))) <= Qabs (cauchy_interp 8 (91#100) 3 - 1 / (3 - (91#100))).
Proof. vm_compute. discriminate. Qed.

Print Assumptions lagrange_nodes_any_order.
Print Assumptions cauchy_identity.
Print Assumptions cauchy_truncation_bound.
Print Assumptions unif_W_cap.
